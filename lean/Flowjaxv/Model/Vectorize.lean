/-!
# Model of flowjax's batching layer (`AbstractDistribution._vectorize`, `_get_sample_keys`)

Hand-written, core Lean only, executable.  Tied to the real code by `tools/props/c06.py`.

What is modelled (file / function in /repo):

* `flowjax/utils.py::_get_ufunc_signature`           → `ufuncSignature`
* `jax/_src/numpy/vectorize.py::_parse_gufunc_signature` → `parseSignatureNames`, `parseSignature`
* `lax.broadcast_shapes` (NumPy broadcasting)         → `bcast2`, `broadcastShapes`
* `jnp.vectorize(...).wrapped`                        → `vectorize1`, `vectorize2`
* `AbstractDistribution._vectorize._check_shapes`     → `checkShapes`
* `AbstractDistribution._get_sample_keys`             → `leadingCondShape`, `keyShape`, `keySize`, `sampleKeys`
* `AbstractDistribution.log_prob / sample / sample_and_log_prob` → `logProbCond/Uncond`, `sampleCond/Uncond`,
  `sampleLpCond/Uncond` and the shape-only `outShape`.

Arrays are modelled by their full shape and a slice accessor on leading multi-indices (`Arr`); the
element type is abstract.  Shapes are `List Nat`, multi-indices are `List Nat`.
-/
namespace Vec

abbrev Shape := List Nat

/-- Python exception classes that the batching layer can raise -/
inductive PyErr | valueError | typeError
  deriving DecidableEq, Repr

def PyErr.name : PyErr → String
  | .valueError => "ValueError"
  | .typeError => "TypeError"

/-! ## 1. `_get_ufunc_signature`

```python
def _shapes_to_str(shapes):
    result = (str(s) if len(s) != 1 else str(s).replace(",", "") for s in shapes)
    return ",".join(result).replace(" ", "")
return f"{in_shapes_str}->{out_shapes_str}"
```
Strings are handled as `List Char`; `.replace(c, "")` for a one-character pattern is `filter (· != c)`.
-/

/-- Python `str(n)` for a non-negative `int` -/
def natChars (n : Nat) : List Char := (toString n).toList

/-- Python `sep.join(parts)` -/
def joinWith (sep : List Char) : List (List Char) → List Char
  | [] => []
  | [a] => a
  | a :: b :: r => a ++ sep ++ joinWith sep (b :: r)

/-- Python `str(tuple_of_ints)`: `()`, `(3,)`, `(2, 3)` -/
def pyTupleStr : Shape → List Char
  | [] => ['(', ')']
  | [a] => '(' :: natChars a ++ [',', ')']
  | s => '(' :: joinWith [',', ' '] (s.map natChars) ++ [')']

/-- Python `s.replace(c, "")` -/
def removeChar (c : Char) (s : List Char) : List Char := s.filter (· != c)

/-- `str(s) if len(s) != 1 else str(s).replace(",", "")` -/
def shapeStr (s : Shape) : List Char :=
  if s.length != 1 then pyTupleStr s else removeChar ',' (pyTupleStr s)

/-- `_shapes_to_str` -/
def shapesToStr (ss : List Shape) : List Char :=
  removeChar ' ' (joinWith [','] (ss.map shapeStr))

def ufuncSignatureChars (ins outs : List Shape) : List Char :=
  shapesToStr ins ++ ['-', '>'] ++ shapesToStr outs

/-- `_get_ufunc_signature(in_shapes, out_shapes)` -/
def ufuncSignature (ins outs : List Shape) : String := String.ofList (ufuncSignatureChars ins outs)

/-! ## 2. `_parse_gufunc_signature`

```python
_DIMENSION_NAME = r'\w+'
_CORE_DIMENSION_LIST = '(?:{0:}(?:,{0:})*)?'.format(_DIMENSION_NAME)
_ARGUMENT = fr'\({_CORE_DIMENSION_LIST}\)'
_ARGUMENT_LIST = '{0:}(?:,{0:})*'.format(_ARGUMENT)
_SIGNATURE = '^{0:}->{0:}$'.format(_ARGUMENT_LIST)
if not re.match(_SIGNATURE, signature): raise ValueError
args, retvals = ([tuple(re.findall(_DIMENSION_NAME, arg)) for arg in re.findall(_ARGUMENT, arg_list)]
                 for arg_list in signature.split('->'))
```
A core dimension is a NAME (`\w+`).  flowjax writes the sizes themselves into the signature, so the
names are numerals: every numeral token is one dimension name, equal numerals are the same name (and
are therefore forced by `_update_dim_sizes` to have one common size), different numerals are
different names.  `parseSignatureNames` keeps the names as strings; `parseSignature` reads each name
as the decimal numeral it is (`none` when a name is not a numeral).  ASCII `\w` only (the printer emits
digits, parentheses, commas, `->`); a numeral with leading zeros would be a different NAME for NumPy
but the same number here — `str(int)` never prints one.

Both argument lists must be non-empty: `"->()"` does not match `_SIGNATURE` (ValueError in JAX).
-/

def isWord (c : Char) : Bool := c.isAlphanum || c == '_'

inductive St | open_ | inside | after

/-- One pass over an argument list.  In state `inside` the head of the result is the argument being
read and its head is the name being read (characters are prepended on the way back). -/
def scan : St → List Char → Option (List (List (List Char)))
  | .open_, [] => none
  | .open_, c :: cs => if c = '(' then scan .inside cs else none
  | .inside, [] => none
  | .inside, c :: cs =>
      if c = ')' then (scan .after cs).map ([[]] :: ·)
      else if c = ',' then
        match scan .inside cs with
        | some (a :: r) => some (([] :: a) :: r)
        | _ => none
      else if isWord c then
        match scan .inside cs with
        | some ((n :: ns) :: r) => some (((c :: n) :: ns) :: r)
        | _ => none
      else none
  | .after, [] => some []
  | .after, c :: cs => if c = ',' then scan .open_ cs else none

/-- `()` has no core dimension; otherwise every name is non-empty (`(a,)`, `(,)`, `(a,,b)` are rejected) -/
def cleanArg (a : List (List Char)) : Option (List (List Char)) :=
  if a = [[]] then some [] else if a.all (fun n => !n.isEmpty) then some a else none

def parseArgList (cs : List Char) : Option (List (List (List Char))) :=
  (scan .open_ cs).bind (fun as => as.mapM cleanArg)

/-- split at the first `-`, which must be followed by `>` -/
def splitArrow : List Char → Option (List Char × List Char)
  | [] => none
  | c :: cs =>
    if c = '-' then
      match cs with
      | d :: r => if d = '>' then some ([], r) else none
      | [] => none
    else (splitArrow cs).map (fun p => (c :: p.1, p.2))

def parseSignatureChars (cs : List Char) : Option (List (List (List Char)) × List (List (List Char))) :=
  match splitArrow cs with
  | none => none
  | some (l, r) =>
    match parseArgList l, parseArgList r with
    | some a, some b => some (a, b)
    | _, _ => none

/-- core-dimension NAMES of inputs and outputs -/
def parseSignatureNames (sig : String) : Option (List (List String) × List (List String)) :=
  (parseSignatureChars sig.toList).map fun p =>
    (p.1.map (·.map String.ofList), p.2.map (·.map String.ofList))

/-- a numeral name read as the number it denotes -/
def nameToNat (n : List Char) : Option Nat :=
  if n.all Char.isDigit && !n.isEmpty then some (Nat.ofDigitChars 10 n 0) else none

/-- core shapes written in a flowjax signature (names are numerals) -/
def parseSignature (sig : String) : Option (List Shape × List Shape) :=
  match parseSignatureChars sig.toList with
  | none => none
  | some (a, b) =>
    match a.mapM (·.mapM nameToNat), b.mapM (·.mapM nameToNat) with
    | some x, some y => some (x, y)
    | _, _ => none

/-! ## 3. NumPy broadcasting of leading shapes -/

def sprod : Shape → Nat
  | [] => 1
  | d :: ds => d * sprod ds

/-- prepend 1s (`filled_shape = pad_ndim * (1,) + noncore_shape`) -/
def padTo (n : Nat) (s : Shape) : Shape := List.replicate (n - s.length) 1 ++ s

/-- one axis: equal sizes, or one of them is 1 -/
def bdim (x y : Nat) : Option Nat :=
  if x = y then some x else if x = 1 then some y else if y = 1 then some x else none

/-- axis-wise on equal-rank shapes -/
def bzip : Shape → Shape → Option Shape
  | [], [] => some []
  | x :: xs, y :: ys =>
    match bdim x y, bzip xs ys with
    | some d, some r => some (d :: r)
    | _, _ => none
  | _, _ => none

/-- NumPy broadcast of two shapes: right-aligned, size 1 stretches, mismatch = `none` -/
def bcast2 (a b : Shape) : Option Shape :=
  bzip (padTo (max a.length b.length) a) (padTo (max a.length b.length) b)

/-- `lax.broadcast_shapes(*shapes)` -/
def broadcastShapes : List Shape → Option Shape
  | [] => some []
  | s :: ss => (broadcastShapes ss).bind (bcast2 s)

/-- multi-index `i` is in bounds for `s` -/
def ValidIdx : Shape → List Nat → Prop
  | [], [] => True
  | d :: ds, i :: is => i < d ∧ ValidIdx ds is
  | _, _ => False

def validIdx : Shape → List Nat → Bool
  | [], [] => true
  | d :: ds, i :: is => decide (i < d) && validIdx ds is
  | _, _ => false

/-- row-major flat index -/
def flatIndex : Shape → List Nat → Nat
  | _ :: ds, i :: is => i * sprod ds + flatIndex ds is
  | _, _ => 0

/-- row-major multi-index of a flat index (`np.unravel_index`) -/
def unflatten : Shape → Nat → List Nat
  | [], _ => []
  | _ :: ds, k => (k / sprod ds) :: unflatten ds (k % sprod ds)

/-- Which leading multi-index of an argument with leading shape `lead` feeds loop index `i`
(`i` ranges over the broadcast shape): right-align, and read a size-1 axis at 0. -/
def bIndex (lead : Shape) (i : List Nat) : List Nat :=
  List.zipWith (fun d k => if d = 1 then 0 else k) lead (i.drop (i.length - lead.length))

/-! ## 4. `jnp.vectorize` with a signature -/

/-- `arg.shape[:ndim - ncore]`, `arg.shape[ndim - ncore:]`; `none` when `ndim < ncore`
("does not have enough dimensions for all core dimensions") -/
def splitCore (full : Shape) (ncore : Nat) : Option (Shape × Shape) :=
  if ncore ≤ full.length then some (full.take (full.length - ncore), full.drop (full.length - ncore))
  else none

/-- strip the declared core shape from the right; `none` if it is not a suffix -/
def leadingShape (full core : Shape) : Option Shape :=
  match splitCore full core.length with
  | some (l, c) => if c = core then some l else none
  | none => none

/-- `_update_dim_sizes`: names (here numerals) ↦ sizes, `none` on "inconsistent size for core dimension" -/
def updateDimSizes (sizes : List (Nat × Nat)) : List Nat → List Nat → Option (List (Nat × Nat))
  | name :: names, sz :: szs =>
    match sizes.lookup name with
    | none => updateDimSizes (sizes ++ [(name, sz)]) names szs
    | some s => if s = sz then updateDimSizes sizes names szs else none
  | _, _ => some sizes

/-- `_check_shapes`: `arg.shape != in_shape → ValueError` on the unbatched element -/
def checkShapes (declared elem : Shape) : Bool := elem == declared

/-- an array: full shape and the sub-array at a leading multi-index -/
structure Arr (E : Type) where
  shape : Shape
  slice : List Nat → E

/-- a batched result: loop (= batch) shape and the element at each loop multi-index -/
structure Batched (R : Type) where
  loop : Shape
  elem : List Nat → R

/-- (1) rank check and split of every argument -/
def splitAll : List Shape → List Shape → Option (List (Shape × Shape))
  | c :: cs, a :: as =>
    match splitCore a c.length, splitAll cs as with
    | some p, some r => some (p :: r)
    | _, _ => none
  | [], [] => some []
  | _, _ => none

/-- (2) sizes of equally named core dimensions agree (`dim_sizes` is shared by all arguments) -/
def dimsAll : List (Nat × Nat) → List Shape → List (Shape × Shape) → Option (List (Nat × Nat))
  | sz, c :: cs, p :: ps =>
    match updateDimSizes sz c p.2 with
    | some sz' => dimsAll sz' cs ps
    | none => none
  | sz, _, _ => some sz

/-- shape-level run of `jnp.vectorize(_check_shapes(method), signature=…)` on the non-excluded
arguments: the leading shapes and the loop shape, or ValueError.  Steps in the order of the real code. -/
def vectorizeLoop (inCore : List Shape) (argShapes : List Shape) : Except PyErr (List Shape × Shape) :=
  match splitAll inCore argShapes with
  | none => .error .valueError
  | some parts =>
    match dimsAll [] inCore parts with
    | none => .error .valueError
    | some _ =>
      -- (3) broadcast the leading shapes
      match broadcastShapes (parts.map (·.1)) with
      | none => .error .valueError
      | some loop =>
        -- (4) `_check_shapes` on the element shapes
        if (List.zipWith checkShapes inCore (parts.map (·.2))).all id then .ok (parts.map (·.1), loop)
        else .error .valueError

/-- two vectorised arguments (conditional distribution) -/
def vectorize2 {A B R : Type} (coreA coreB : Shape) (f : A → B → R) (a : Arr A) (b : Arr B) :
    Except PyErr (Batched R) :=
  match vectorizeLoop [coreA, coreB] [a.shape, b.shape] with
  | .ok ([la, lb], loop) => .ok ⟨loop, fun i => f (a.slice (bIndex la i)) (b.slice (bIndex lb i))⟩
  | .ok _ => .error .valueError
  | .error e => .error e

/-- one vectorised argument, the other one in `excluded` (unconditional distribution) -/
def vectorize1 {A R : Type} (coreA : Shape) (f : A → R) (a : Arr A) : Except PyErr (Batched R) :=
  match vectorizeLoop [coreA] [a.shape] with
  | .ok ([la], loop) => .ok ⟨loop, fun i => f (a.slice (bIndex la i))⟩
  | .ok _ => .error .valueError
  | .error e => .error e

/-! ## 5. `_get_sample_keys` -/

/-- Python `-n or None` for `n ≥ 0`: `-0` is falsy -/
def negOrNone (n : Nat) : Option Int := if n = 0 then none else some (-(n : Int))

/-- stop position of the slice `seq[:stop]` on a sequence of length `len` -/
def pySliceStop (len : Nat) : Option Int → Nat
  | none => len
  | some k => if k < 0 then len - k.natAbs else min k.toNat len

/-- `condition.shape[: -self.cond_ndim or None]` -/
def leadingCondShape (cond : Shape) (condNdim : Nat) : Shape :=
  cond.take (pySliceStop cond.length (negOrNone condNdim))

/-- `key_shape = sample_shape + leading_cond_shape` (`()` for an unconditional distribution) -/
def keyShape (sampleShape : Shape) (condShape : Option Shape) (cond : Option Shape) : Shape :=
  sampleShape ++
    match condShape, cond with
    | some cs, some c => leadingCondShape c cs.length
    | _, _ => []

/-- `key_size = prod(key_shape)` (`prod(()) = 1`: a scalar sample gets one key; a zero-sized key
shape gets zero keys).  Repaired in /repo commit 2d206ec; see `keySizeMax1` for the previous revision. -/
def keySize (ks : Shape) : Nat := sprod ks

/-- the PREVIOUS revision, kept as a model variant: `key_size = max(1, prod(key_shape))` -/
def keySizeMax1 (ks : Shape) : Nat := max 1 (sprod ks)

/-- `jnp.reshape(jr.split(key, key_size), (*key_shape, 2))` for a given `key_size` rule.  `split key n j`
is the `j`-th of the `n` keys produced by `jr.split(key, n)` (abstract).  The reshape raises TypeError
unless the sizes agree (`key_size * 2 = prod(key_shape) * 2`).  Keys are legacy `uint32[2]` arrays
(core shape `(2,)`). -/
def sampleKeysWith {Key : Type} (size : Shape → Nat) (split : Key → Nat → Nat → Key) (key : Key) (ks : Shape) :
    Except PyErr (Arr Key) :=
  if size ks = sprod ks then
    .ok ⟨ks ++ [2], fun i => split key (size ks) (flatIndex ks i)⟩
  else .error .typeError

/-- `_get_sample_keys` of the current revision -/
def sampleKeys {Key : Type} (split : Key → Nat → Nat → Key) (key : Key) (ks : Shape) :
    Except PyErr (Arr Key) := sampleKeysWith keySize split key ks

/-! ## 6. the three public methods -/

variable {X C K L : Type}

/-- `log_prob` of a conditional distribution; `post` is the final `where(isnan(lps), -inf, lps)` -/
def logProbCond (shape cs : Shape) (lp : X → C → L) (post : L → L) (x : Arr X) (c : Option (Arr C)) :
    Except PyErr (Batched L) :=
  match c with
  | none => .error .typeError          -- `arraylike_to_array(None)`
  | some c => (vectorize2 shape cs lp x c).map fun b => ⟨b.loop, fun i => post (b.elem i)⟩

/-- `log_prob` of an unconditional distribution: the condition is excluded and passed through -/
def logProbUncond (shape : Shape) (lp : X → C → L) (post : L → L) (x : Arr X) (c : C) :
    Except PyErr (Batched L) :=
  (vectorize1 shape (fun xi => lp xi c) x).map fun b => ⟨b.loop, fun i => post (b.elem i)⟩

/-- generic sampler over a method `m : key → condition → R` of a conditional distribution -/
def sampleWithCond {R : Type} (cs : Shape) (m : K → C → R) (split : K → Nat → Nat → K) (key : K)
    (ss : Shape) (c : Option (Arr C)) : Except PyErr (Batched R) :=
  match c with
  | none => .error .typeError
  | some c =>
    match sampleKeys split key (keyShape ss (some cs) (some c.shape)) with
    | .error e => .error e
    | .ok keys => vectorize2 [2] cs m keys c

def sampleWithoutCond {R : Type} (m : K → C → R) (split : K → Nat → Nat → K) (key : K)
    (ss : Shape) (c : C) : Except PyErr (Batched R) :=
  match sampleKeys split key (keyShape ss none none) with
  | .error e => .error e
  | .ok keys => vectorize1 [2] (fun k => m k c) keys

/-- `sample` (elements have shape `shape`) -/
def sampleCond (cs : Shape) (smp : K → C → X) := sampleWithCond (R := X) cs smp
def sampleUncond (smp : K → C → X) := sampleWithoutCond (R := X) smp
/-- `sample_and_log_prob` (elements are pairs: shape `shape` and `()`) -/
def sampleLpCond (cs : Shape) (slp : K → C → X × L) := sampleWithCond (R := X × L) cs slp
def sampleLpUncond (slp : K → C → X × L) := sampleWithoutCond (R := X × L) slp

/-! ## 7. shape-only view used by the driver and by the `out_shape` theorems -/

inductive Method | logProb | sample | sampleLp
  deriving DecidableEq, Repr

/-- `_vectorize`: core shapes of the inputs and outputs of the three private methods
(`(2,)` is the legacy key array) -/
def methodShapes (m : Method) (shape : Shape) (condShape : Option Shape) : List Shape × List Shape :=
  let maybeCond : List Shape := match condShape with | some cs => [cs] | none => []
  match m with
  | .sampleLp => ([2] :: maybeCond, [shape, []])
  | .sample => ([2] :: maybeCond, [shape])
  | .logProb => (shape :: maybeCond, [[]])

/-- `jnp.vectorize(f, signature=sig)` on argument shapes: the core shapes are READ BACK from the string -/
def vectorizeLoopSig (sig : String) (argShapes : List Shape) : Except PyErr (List Shape × Shape) :=
  match parseSignature sig with
  | none => .error .valueError           -- "not a valid gufunc signature"
  | some (ins, _) => vectorizeLoop ins argShapes

/-- Output shapes of the public method (one shape, or two for `sample_and_log_prob`), or the exception
class.  `x` = full shape of `x` (ignored by the samplers), `cond` = full shape of the condition
(`none` = `condition=None`), `ss` = `sample_shape` (ignored by `log_prob`).  The signature string is
built by `ufuncSignature` and parsed back, exactly as `_vectorize` + `jnp.vectorize` do. -/
def outShape (m : Method) (shape : Shape) (condShape : Option Shape) (ss x : Shape) (cond : Option Shape) :
    Except PyErr (List Shape) :=
  let io := methodShapes m shape condShape
  let sig := ufuncSignature io.1 io.2
  -- the condition: `arraylike_to_array` for a conditional distribution, `excluded` otherwise
  let condArg : Except PyErr (List Shape) :=
    match condShape, cond with
    | some _, none => .error .typeError
    | some _, some c => .ok [c]
    | none, _ => .ok []
  match condArg with
  | .error e => .error e
  | .ok cargs =>
    -- the first argument: `x`, or the key array of `_get_sample_keys` (whose reshape always succeeds,
    -- `key_size = prod(key_shape)`)
    let first : Except PyErr Shape :=
      if m = .logProb then .ok x
      else
        let ks := keyShape ss condShape cond
        if keySize ks = sprod ks then .ok (ks ++ [2]) else .error .typeError
    match first with
    | .error e => .error e
    | .ok a => (vectorizeLoopSig sig (a :: cargs)).map fun r => io.2.map (r.2 ++ ·)

/-- `pair`: for loop flat index `k` (row-major over the broadcast of the leading shapes), the flat
index (row-major over its own leading shape) of the element of each argument that is used. -/
def pairFlat (leads : List Shape) (k : Nat) : Option (Shape × List Nat) :=
  (broadcastShapes leads).map fun loop =>
    (loop, leads.map fun l => flatIndex l (bIndex l (unflatten loop k)))

end Vec
