import Flowjaxv.Gen.FamiliesGen
import Flowjaxv.Model.Families
/-!
# What the objects built by the regenerated constructors (`Gen/FamiliesGen.lean`) compute

Hand-written, Mathlib-free, executable.  An object is turned into the `Bij` / `Distn` record of its methods *after* `unwrap`
(every public method of flowjax unwraps `self` first): the stored `BijectionReparam` leaves are unwrapped with the GENERATED
`Wr.BijectionReparam.unwrap`, and the methods are the GENERATED elementwise kernels (`Gen.Affine`, `Gen.Scale`, `Gen.Loc`, `Gen.Exp`,
`Gen.Chain`, `Gen.Standard….logProb`, `Gen.Transformed`) applied entry by entry to the flattened arrays (the elementwise lifting
`Bij.elementwise` / `Families.stdVec` used everywhere else in the framework).  Tied by the correspondence `tools/props/famgen.py`.
-/
open Gen

namespace Fw
variable {α : Type} [Add α] [Sub α] [Mul α] [Div α] [Neg α] [LT α] [LE α] [BEq α]
  [OfNat α 0] [OfNat α 1] [OfNat α 2] [OfNat α 4] [OfScientific α]
  [DecidableLT α] [DecidableLE α] [Transc α] [Inhabited α] [HasPi α] [HasLgamma α]

/-- `unwrap(Affine)`: entry `i` is the generated scalar `Affine` with `loc[i]` and the unwrapped `scale[i]` -/
def AffineObj.toBij (a : AffineObj α) : Bij (List α) Unit α :=
  Bij.elementwise (List.zipWith (fun l s => (Gen.Affine.mk l s).toBij) a.loc.data (Gen.Wr.BijectionReparam.unwrap a.scale).data)

def ScaleObj.toBij (a : ScaleObj α) : Bij (List α) Unit α :=
  Bij.elementwise ((Gen.Wr.BijectionReparam.unwrap a.scale).data.map (fun s => (Gen.Scale.mk s).toBij))

def LocObj.toBij (a : LocObj α) : Bij (List α) Unit α :=
  Bij.elementwise (a.loc.data.map (fun l => (Gen.Loc.mk l).toBij))

def ExpObj.toBij (e : ExpObj) : Bij (List α) Unit α :=
  Bij.elementwise (List.replicate (Vec.sprod e.shape) Gen.Exp.toBij)

def BijObj.toBij : BijObj α → Bij (List α) Unit α
  | .affine a => a.toBij
  | .scale a => a.toBij
  | .loc a => a.toBij
  | .exp e => e.toBij

/-- the GENERATED `Chain` over the members -/
def ChainObj.toBij (c : ChainObj α) : Bij (List α) Unit α := (Gen.Chain.mk (c.bijections.map BijObj.toBij)).toBij

/-- the GENERATED one-element log-density of each standard distribution -/
def BaseKind.logProb : BaseKind → α → α
  | .normal => StandardNormal.logProb
  | .uniform => StandardUniform.logProb
  | .gumbel => StandardGumbel.logProb
  | .cauchy => StandardCauchy.logProb
  | .laplace => StandardLaplace.logProb
  | .exponential => StandardExponential.logProb
  | .logistic => StandardLogistic.logProb

/-- `_Standard…(shape)`: `_log_prob x = logpdf(x).sum()` -/
def StdBase.toDist (b : StdBase) : Distn (List α) Unit (List α) α :=
  Families.stdVec (List.replicate (Vec.sprod b.shape) b.kind.logProb)

/-- `unwrap(_StandardStudentT)`: `_log_prob x = jstats.t.logpdf(x, df).sum()` with the unwrapped `df` -/
def StdStudentT.toDist (b : StdStudentT α) : Distn (List α) Unit (List α) α :=
  Families.stdVec ((Gen.Wr.BijectionReparam.unwrap b.df).data.map (fun d => (Gen.StdStudentT.mk d).logProb))

/-- an `AbstractTransformed` whose two attributes have the given meanings: the GENERATED `Transformed` methods -/
def Transformed.toDistWith {B J : Type} (fb : B → Distn (List α) Unit (List α) α) (fj : J → Bij (List α) Unit α)
    (t : Transformed B J) : Distn (List α) Unit (List α) α :=
  (Gen.Transformed.mk (fb t.base_dist) (fj t.bijection)).toDist

/-- Normal, Uniform, Gumbel, Cauchy, Laplace, Logistic -/
def locScaleDist (t : Transformed StdBase (AffineObj α)) := t.toDistWith StdBase.toDist AffineObj.toBij
def logNormalDist (t : Transformed StdBase (ChainObj α)) := t.toDistWith StdBase.toDist ChainObj.toBij
def exponentialDist (t : Transformed StdBase (ScaleObj α)) := t.toDistWith StdBase.toDist ScaleObj.toBij
def studentTDist (t : Transformed (StdStudentT α) (AffineObj α)) := t.toDistWith StdStudentT.toDist AffineObj.toBij
def mvnDist (t : Transformed StdBase (Tri.TriAffine α)) := t.toDistWith StdBase.toDist (fun b => b.toBij)

/-- the raw (trainable, pre-softplus) leaf of a `BijectionReparam` -/
def Reparam.raw (r : Reparam α) : List α := r.arr.data

end Fw
