import Flowjaxv.Model.Bij
import Flowjaxv.Model.Params
/-!
# TriangularAffine: hand model (Mathlib-free, executable)

`flowjax.bijections.TriangularAffine` after `unwrap`: a square matrix `triangular` (list of rows), a vector
`loc` and the flag `lower`.

* `transform x = triangular @ x + loc`                                    (`matVec`, full matrix product)
* log-det `= jnp.log(jnp.abs(jnp.diag(triangular))).sum()`                (`diag`, `logDet`)
* `inverse y = solve_triangular(triangular, y - loc, lower=lower)`       (`solveLower` / `solveUpper`)

`jax.scipy.linalg.solve_triangular(a, b, lower=…)` reads only the requested triangle of `a` and computes
forward substitution (`lower=True`) or back substitution (`lower=False`); `solveLower` / `solveUpper` are
those two algorithms, written by recursion on the dimension (first row / first column split off).
The constructor wiring (`_to_triangular` with the SoftPlus diagonal) is `Params.triangularOfRaw` /
`Params.triangularInit` of `Model/Params.lean`.  Tied to the code by `tools/props/planar_tri.py`.
-/

namespace Tri
section
variable {α : Type} [Add α] [Sub α] [Mul α] [Div α] [Neg α] [LT α] [OfNat α 0] [DecidableLT α]

/-- `A @ x` for a list-of-rows matrix -/
def matVec (A : List (List α)) (x : List α) : List α := A.map (fun row => Jnp.dot row x)

/-- `jnp.diag(A)` by peeling off the first row and column -/
def diag : List (List α) → List α
  | [] => []
  | row :: rows => row.headD 0 :: diag (rows.map List.tail)
termination_by A => A.length

/-- forward substitution: solves `L x = b` reading only the lower triangle (incl. diagonal) of `L` -/
def solveLower : List (List α) → List α → List α
  | (a :: _) :: rows, b0 :: bs =>
      let x0 := b0 / a
      x0 :: solveLower (rows.map List.tail) (List.zipWith (fun row bi => bi - row.headD 0 * x0) rows bs)
  | _, _ => []
termination_by A => A.length

/-- back substitution: solves `U x = b` reading only the upper triangle (incl. diagonal) of `U` -/
def solveUpper : List (List α) → List α → List α
  | (a :: r) :: rows, b0 :: bs =>
      let xs := solveUpper (rows.map List.tail) bs
      ((b0 - Jnp.dot r xs) / a) :: xs
  | _, _ => []
termination_by A => A.length

end

section
variable {α : Type} [Add α] [Sub α] [Mul α] [Div α] [Neg α] [LT α] [OfNat α 0] [DecidableLT α] [Transc α]

/-- the unwrapped `TriangularAffine` -/
structure TriAffine (α : Type) where
  triangular : List (List α)
  loc : List α
  lower : Bool

/-- `jnp.log(jnp.abs(jnp.diag(self.triangular))).sum()` -/
def logDet (A : List (List α)) : α := Jnp.sum ((diag A).map (fun d => Transc.log (Jnp.abs d)))

def TriAffine.transform (t : TriAffine α) (x : List α) : List α :=
  List.zipWith (fun a b => a + b) (matVec t.triangular x) t.loc

def TriAffine.transform_and_log_det (t : TriAffine α) (x : List α) : List α × α :=
  (List.zipWith (fun a b => a + b) (matVec t.triangular x) t.loc, logDet t.triangular)

/-- `solve_triangular(self.triangular, y - self.loc, lower=self.lower)` -/
def TriAffine.inverse (t : TriAffine α) (y : List α) : List α :=
  let r := List.zipWith (fun a b => a - b) y t.loc
  if t.lower then solveLower t.triangular r else solveUpper t.triangular r

def TriAffine.inverse_and_log_det (t : TriAffine α) (y : List α) : List α × α :=
  (t.inverse y, -(logDet t.triangular))

def TriAffine.toBij {C : Type} (t : TriAffine α) : Bij (List α) C α :=
  ⟨fun x _ => t.transform x, fun y _ => t.inverse y,
   fun x _ => t.transform_and_log_det x, fun y _ => t.inverse_and_log_det y⟩

end

section
variable {α : Type} [Add α] [Sub α] [Mul α] [Div α] [Neg α] [LT α] [LE α] [BEq α]
  [OfNat α 0] [OfNat α 1] [OfNat α 2] [OfNat α 4] [OfScientific α]
  [DecidableLT α] [DecidableLE α] [Transc α] [Inhabited α]

/-- `TriangularAffine` after `unwrap`, for raw (trainable) diagonal parameters: the matrix is
`Params.triangularOfRaw` (= `_to_triangular(softplus rawDiag, arr)`). -/
def ofRaw (lower : Bool) (rawDiag : List α) (arr : List (List α)) (loc : List α) : TriAffine α :=
  { triangular := Params.triangularOfRaw lower rawDiag arr, loc := loc, lower := lower }

/-- as constructed by `TriangularAffine(loc, arr, lower=…)`; `none` when the constructor raises -/
def init (lower : Bool) (arr : List (List α)) (loc : List α) : Option (TriAffine α) :=
  (Params.triangularInit lower arr).map (fun m => { triangular := m, loc := loc, lower := lower })

end
end Tri
