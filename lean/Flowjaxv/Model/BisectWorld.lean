import Flowjaxv.Model.Bisection
/-!
# The world of the WHOLE functions of `flowjax/bisection_search.py` (hand-written, Mathlib-free, executable)

`Gen/BisectionGen.lean` is GENERATED from `bisection_search.py` on every run (translator `tools/py2lean/py2meth.py`, sheet
`tools/py2lean/targets_bisectgen.py`): `_adapt_interval_to_include_root`, `_bisection_search`,
`_autoregressive_bisection_search`, `AutoregressiveBisectionInverter.__call__` and `.__check_init__` as whole functions,
statement by statement, with their nested closures (`cond_fn`, `body_fn`, `scan_fn`, `scalar_fn`, `fn`).  The generated text
refers to the JAX calls through the names defined here.  THIS FILE IS THE TRUSTED MEANING of those calls (validated by the
bit-for-bit correspondence of `tools/props/c10.py`); nothing of flowjax's own code is written here.

* A generated function returns `Bw.Res β`: `ok v`, `valueError` (a `raise ValueError(...)` guard fired) or `noFuel`.
* `lax.while_loop(cond, body, init)` = `Model.whileFuel cond body fuel init` (at most `fuel` body evaluations, `noFuel` when the
  condition still holds after them).  The fuel is the explicit parameter `W` every generated function takes and hands on
  unchanged (`Bw.Fuel = Nat`), exactly as the hand model `Model/Bisection.lean` takes `fuel`.
* `lax.scan(f=f, init=init, xs=None, length=n)` = the left fold of `f · ()` over `List.range n` on the carry (every step
  receives `None`; the stacked per-step outputs, all `None`, are `None`), stopping at the first step that does not return.
* a 1-d array is the list of its entries; `jnp.full(n, v)` = `List.replicate n v`; `y.at[i].set(v)` = `List.set` (an out-of-range
  update is dropped: JAX scatter mode); `a[i]` with a traced index = `Jnp.getItem` (clamped: JAX gather mode); `a - b` of two
  1-d arrays of equal length = entrywise difference; `jnp.asarray(x, float)` of a real scalar = `x`.
* `bijection` is the record of what `__call__` reads: `transform` and the declared `shape`; `bijection.shape[0]` of an empty
  shape raises `IndexError` in Python — totalised to `0` here, the theorems carry `shape = [n]`.
-/
namespace Bw

/-- the fuel handed to every `lax.while_loop` -/
abbrev Fuel := Nat

/-- result of a generated function -/
inductive Res (β : Type) where
  | ok (v : β)
  | valueError
  | noFuel
  deriving DecidableEq, Repr

def Res.bind {β γ : Type} (r : Res β) (f : β → Res γ) : Res γ :=
  match r with
  | .ok v => f v
  | .valueError => .valueError
  | .noFuel => .noFuel

/-- an `Option`-valued run of the hand model (`none` = the fuel ran out) as a result -/
def ofOption {β : Type} : Option β → Res β
  | some v => .ok v
  | none => .noFuel

/-- `lax.while_loop(cond, body, init)` with `fuel` -/
def whileLoop {σ : Type} (fuel : Fuel) (cond : σ → Bool) (body : σ → σ) (init : σ) : Res σ :=
  ofOption (Model.whileFuel cond body fuel init)

/-- the left fold of a result-valued step over a list -/
def foldlRes {κ ι : Type} (f : κ → ι → Res κ) : κ → List ι → Res κ
  | c, [] => .ok c
  | c, x :: xs => (f c x).bind fun c' => foldlRes f c' xs

/-- `lax.scan(f=f, init=init, xs=None, length=n)` -/
def scanNone {κ : Type} (f : κ → Unit → Res (κ × Unit)) (init : κ) (n : Nat) : Res (κ × Unit) :=
  (foldlRes (fun c (_ : Nat) => (f c ()).bind fun r => .ok r.1) init (List.range n)).bind fun c => .ok (c, ())

/-- `y.at` and `y.at[i]` (JAX's index-update helper objects) -/
abbrev At (α : Type) := List α
abbrev AtIdx (α : Type) := List α × Nat

section
variable {α : Type}

/-- `jnp.full(n, v)` -/
def full (n : Nat) (v : α) : List α := List.replicate n v
def at_ (y : List α) : At α := y
def atIdx (y : At α) (i : Nat) : AtIdx α := (y, i)
/-- `y.at[i].set(v)` -/
def atSet (yi : AtIdx α) (v : α) : List α := yi.1.set yi.2 v
/-- `a[i]` with a traced index -/
def getItem [Inhabited α] (a : List α) (i : Nat) : α := Jnp.getItem a (i : Int)
/-- `a - b` of two 1-d arrays of equal length -/
def vsub [Sub α] (a b : List α) : List α := List.zipWith (· - ·) a b
/-- `jnp.asarray(x, float)` of a real scalar -/
def asarrayFloat (x : α) : α := x

end

/-- what `AutoregressiveBisectionInverter.__call__` reads of its `bijection` argument -/
structure Bijection (α C : Type) where
  transform : List α → C → List α
  shape : List Nat

/-- `bijection.shape[0]` -/
def shape0 {α C : Type} (b : Bijection α C) : Nat := b.shape.headD 0

/-- the fields of `AutoregressiveBisectionInverter` -/
structure Inverter (α : Type) where
  lower : α
  upper : α
  tol : α
  max_iter : Int

end Bw
