import Flowjaxv.Model.AdVec
import Flowjaxv.Gen.LeavesAst
/-!
# Conditioner networks and coupling / masked-autoregressive layers as reverse-mode ASTs (hand model, Mathlib-free)

`eqx.nn.MLP` (`Linear`: `weight @ x + bias`, elementwise activation after every hidden layer, identity after the last) is
Equinox library code and `Coupling` / `MaskedAutoregressive` go through `ravel_pytree`, `filter_vmap` and `Vmap`; their
reverse-mode model is written here by hand and tied to the real classes by the correspondence in `tools/props/c18.py`
(value and adjoints w.r.t. the input and EVERY weight and bias against `jax.grad`).  The per-dimension transformer is the
GENERATED `Affine` kernel with the GENERATED `SoftPlus.transform` / `Loc.transform` as its scale reparameterisation
(`flows._affine_with_min_scale`: `scale = softplus(raw) + min_scale`).
-/
namespace Ad.Net
open Ad GenAst
variable {N : Type} [Num N]

/-- a linear layer as rows `(weights of output i, bias of output i)` -/
abbrev Rows (N : Type) := List (List (Expr N) × Expr N)

/-- `eqx.nn.Linear.__call__`: `weight @ x + bias` -/
def linear (rows : Rows N) (x : List (Expr N)) : List (Expr N) := rows.map (fun r => Expr.add (Vec.dot r.1 x) r.2)

/-- `eqx.nn.MLP.__call__`: hidden layers followed by the activation, last layer followed by the identity -/
def mlp (act : Prim) (hidden : List (Rows N)) (last : Rows N) (x : List (Expr N)) : List (Expr N) :=
  linear last (hidden.foldl (fun h L => (linear L h).map (Expr.prim act)) x)

/-- a masked weight `jnp.where(mask, w, 0)` (`wrappers.Where` of the masked autoregressive MLP) -/
def masked (m : Bool) (w : Expr N) : Expr N := Expr.sel (fun _ => m) w (Expr.const (Num.ofInt 0))

/-- the transformer of one dimension built by `transformer_constructor(params + init)` for `_affine_with_min_scale`:
`loc = p_loc + init_loc`, `scale = Loc(min_scale).transform(SoftPlus().transform(p_raw + init_raw))`; field ids of the generated
`Affine` kernels (loc 1, scale 2) and of `Loc` (loc 1) are let-bound -/
def withAffineMinScale (minScale pLoc pRaw initLoc initRaw : Expr N) (body : Expr N) : Expr N :=
  Expr.letE 1 (Expr.add pLoc initLoc)
    (Expr.letE 2 (Expr.letE 1 minScale (Loc.transform.ast (SoftPlus.transform.ast (Expr.add pRaw initRaw)))) body)

def affineTld (minScale pLoc pRaw initLoc initRaw x : Expr N) : Expr N × Expr N :=
  (withAffineMinScale minScale pLoc pRaw initLoc initRaw (Affine.transform_and_log_det.ast x).1,
   withAffineMinScale minScale pLoc pRaw initLoc initRaw (Affine.transform_and_log_det.ast x).2)

def affineIld (minScale pLoc pRaw initLoc initRaw y : Expr N) : Expr N × Expr N :=
  (withAffineMinScale minScale pLoc pRaw initLoc initRaw (Affine.inverse_and_log_det.ast y).1,
   withAffineMinScale minScale pLoc pRaw initLoc initRaw (Affine.inverse_and_log_det.ast y).2)

/-- `_flat_params_to_transformer(params)` applied elementwise: `params` reshaped to `(dim, 2)`, dimension `i` gets
`(params[2i], params[2i+1])` -/
def parts (tf : Expr N → Expr N → Expr N → Expr N × Expr N) (params xs : List (Expr N)) : List (Expr N × Expr N) :=
  xs.zipIdx.map (fun (xi : Expr N × Nat) =>
    tf (params.getD (2 * xi.2) (Expr.const (Num.ofInt 0))) (params.getD (2 * xi.2 + 1) (Expr.const (Num.ofInt 0))) xi.1)

/-- `Coupling.transform_and_log_det` / `inverse_and_log_det` (unconditional): the first `u` elements pass through and feed the
conditioner; `Vmap(...)`'s log-det is the sum over the transformed dimensions.
`MaskedAutoregressive.transform_and_log_det` is the case `u = 0` with the conditioner reading the whole input (`autoreg`). -/
def coupling (u : Nat) (net : List (Expr N) → List (Expr N)) (tf : Expr N → Expr N → Expr N → Expr N × Expr N)
    (x : List (Expr N)) : List (Expr N) × Expr N :=
  let ps := parts tf (net (x.take u)) (x.drop u)
  (x.take u ++ ps.map Prod.fst, Vec.sum (ps.map Prod.snd))

def autoreg (net : List (Expr N) → List (Expr N)) (tf : Expr N → Expr N → Expr N → Expr N × Expr N)
    (x : List (Expr N)) : List (Expr N) × Expr N :=
  let ps := parts tf (net x) x
  (ps.map Prod.fst, Vec.sum (ps.map Prod.snd))

end Ad.Net
