/-!
# Control-flow skeletons of Python methods and the staging discipline that makes them traceable (C14)

`jit`, `vmap` and `grad` run a method ONCE on abstract tracers and record the primitive operations.
That is transparent exactly when Python-level control flow (branches, loop bounds, asserts,
`bool()/int()/float()` conversions) never depends on a traced VALUE — only on static data: shapes,
dtypes, None-ness, configuration fields.  This file defines

* `Stmt` / `E`: the control-flow skeleton of a method, with every expression abstracted to the
  variables it reads (and whether it reads only their static aspect), generated from the Python AST
  by `tools/py2lean/tracegen.py` into `Gen/Trace.lean`;
* `stageEnv`: a flow-insensitive staging analysis (a variable is traced if it is a traced parameter
  or is ever assigned a traced expression);
* `check`: every control-flow test is static, no hazard statement occurs;
* `exec`: a concrete semantics with fuel that records the control PATH (branch decisions, loop counts).

`Proofs/Trace.lean` proves noninterference: for a checked skeleton the control path and all static
variables are the same for any two stores that agree on static data — i.e. tracing takes the same path
as every concrete execution.  Mathlib-free, executable.
-/
namespace Trace

inductive Stage | static | traced
deriving DecidableEq, Repr

/-- one variable read by an expression; `aspectOnly` = only its static aspect is used
(`x.shape`, `x.ndim`, `len(x)`, `x is None`, `isinstance(x, …)`) -/
structure Read where
  name : String
  aspectOnly : Bool
deriving DecidableEq, Repr

/-- an expression, abstracted: what it reads, and whether it calls an array library
(`jnp.*`, `jax.*`, `lax.*`, `jr.*`, a bijection/distribution method): such a value is an array and is
staged even when all its inputs are static -/
structure E where
  reads : List Read
  arrayLib : Bool
deriving Repr

inductive Stmt where
  | assign (targets : List String) (e : E)
  | ifS (t : E) (thn els : List Stmt)
  | forS (vars : List String) (it : E) (body : List Stmt)
  | whileS (t : E) (body : List Stmt)
  /-- `assert t`, `bool(t)`, `int(t)`, `float(t)`, `t.item()`: forces a concrete value -/
  | force (t : E)
  | ret (e : E)
  | exprS (e : E)
  | raiseS
  /-- something the discipline forbids outright: `global`, `nonlocal`, mutation of `self` outside
  `__init__`, NumPy/`math` on a traced value, `print` of a traced value -/
  | hazard (kind : String)

abbrev Env := String → Stage

def Stage.join : Stage → Stage → Stage
  | .static, .static => .static
  | _, _ => .traced

/-- stage of an expression under an environment -/
def E.stage (env : Env) (e : E) : Stage :=
  if e.arrayLib then .traced
  else if e.reads.all (fun r => r.aspectOnly || env r.name == .static) then .static else .traced

mutual
/-- all assignments `(targets, rhs)` of a skeleton (loop variables count as assigned from the iterable) -/
def Stmt.assigns : Stmt → List (List String × E)
  | .assign ts e => [(ts, e)]
  | .ifS _ a b => assignsL a ++ assignsL b
  | .forS vs it body => (vs, it) :: assignsL body
  | .whileS _ body => assignsL body
  | _ => []
def assignsL : List Stmt → List (List String × E)
  | [] => []
  | s :: ss => s.assigns ++ assignsL ss
end

/-- one round of the flow-insensitive analysis -/
def stepEnv (asg : List (List String × E)) (env : Env) : Env := fun v =>
  if env v == .traced then .traced
  else if asg.any (fun te => te.1.contains v && te.2.stage env == .traced) then .traced else .static

/-- the staging environment: least fixpoint from the traced parameters (`n` rounds suffice when `n` is
the number of assignments; the checker verifies that the result is a fixpoint) -/
def stageEnv (tracedParams : List String) (prog : List Stmt) : Env :=
  let asg := assignsL prog
  let init : Env := fun v => if tracedParams.contains v then .traced else .static
  (List.range (asg.length + 1)).foldl (fun env _ => stepEnv asg env) init

mutual
/-- every control-flow test is static and no hazard occurs -/
def Stmt.ok (env : Env) : Stmt → Bool
  | .assign _ _ => true
  | .ifS t a b => t.stage env == .static && okL env a && okL env b
  | .forS _ it body => it.stage env == .static && okL env body
  | .whileS t body => t.stage env == .static && okL env body
  | .force t => t.stage env == .static
  | .ret _ => true
  | .exprS _ => true
  | .raiseS => true
  | .hazard _ => false
def okL (env : Env) : List Stmt → Bool
  | [] => true
  | s :: ss => s.ok env && okL env ss
end

/-- `env` is closed under the assignments: a static variable is only ever assigned static expressions -/
def closed (env : Env) (asg : List (List String × E)) : Bool :=
  asg.all (fun te => te.2.stage env == .static || te.1.all (fun v => env v == .traced))

/-- the decidable discipline: the analysis reached a fixpoint containing the traced parameters, and the
skeleton is ok under it -/
def check (tracedParams : List String) (prog : List Stmt) : Bool :=
  let env := stageEnv tracedParams prog
  tracedParams.all (fun v => env v == .traced) && closed env (assignsL prog) && okL env prog

/-- a method of the table generated from the source -/
structure Method where
  cls : String
  name : String
  file : String
  tracedParams : List String
  body : List Stmt

def Method.traceSafe (m : Method) : Bool := check m.tracedParams m.body

/-- a dataclass field: does it hold arrays (pytree leaves), static Python data, or a sub-module;
and is it marked `static=True` in the pytree (then it must not hold arrays) -/
inductive FieldKind | array | static | module
deriving DecidableEq, Repr
structure Field where
  cls : String
  name : String
  kind : FieldKind
  markedStatic : Bool

end Trace
