import Flowjaxv.Model.Triangular
import Flowjaxv.Prelude.PyShape
/-!
# Primitive specs used by the generated `TriangularAffine` (`Gen/TriangularGen.lean`, translator `py2tri.py`)

Mathlib-free, executable.  Matrices are lists of rows.  Nothing here is specific to flowjax except that
`solveTriangular` is DEFINED as the forward / back substitution of `Model/Triangular.lean`
(`jax.scipy.linalg.solve_triangular(a, b, lower=…)` reads only the requested triangle of `a`; that these two
algorithms really solve the system is proved: C01 `triangular_solve_lower/upper`).

* `tril A k` / `triu A k`   `jnp.tril(A, k)` / `jnp.triu(A, k)`: entry `(i, j)` kept iff `j ≤ i + k` / `i + k ≤ j`, else `0`
* `diagMat d`               `jnp.diag(d)` of a 1-d array: the square matrix with `d` on the diagonal
* `diag A`                  `jnp.diag(A)` of a square 2-d array: the entries `A[i][i]`
* `matVec A x`              `A @ x`
* `NdArr`                   an array argument whose rank the constructor still has to check (`arr.ndim`, `arr.shape[k]`)
* `broadcastTo v n`         `jnp.broadcast_to(v, (n,))` for a scalar or 1-d `v` (a scalar enters as a one-element list): `ValueError`
                            unless the size is `n` or `1`
-/
namespace TriPrims
open PyShape

/-- an array of rank 0 … 3, as a caller may hand it to a constructor -/
inductive NdArr (α : Type) where
  | scalar (x : α)
  | vec (v : List α)
  | mat (m : List (List α))
  | cube (c : List (List (List α)))

def NdArr.ndim {α : Type} : NdArr α → Nat
  | .scalar _ => 0
  | .vec _ => 1
  | .mat _ => 2
  | .cube _ => 3

/-- `.shape` (of a rectangular array: the extents are read along the first elements) -/
def NdArr.shape {α : Type} : NdArr α → List Nat
  | .scalar _ => []
  | .vec v => [v.length]
  | .mat m => [m.length, (m.headD []).length]
  | .cube c => [c.length, (c.headD []).length, ((c.headD []).headD []).length]

/-- `.shape[k]`; the generated guard reads it only after `ndim` was tested (Python's `or` short-circuits), so the
out-of-range default is never observed -/
def NdArr.shapeGet {α : Type} (a : NdArr α) (k : Nat) : Nat := a.shape.getD k 0

/-- the array as a matrix, once `ndim == 2` is known -/
def NdArr.asMat {α : Type} : NdArr α → List (List α)
  | .mat m => m
  | _ => []

section
variable {α : Type} [Add α] [Sub α] [Mul α] [Div α] [Neg α] [LT α] [OfNat α 0] [DecidableLT α]

/-- `jnp.tril(A, k)` -/
def tril (A : List (List α)) (k : Int) : List (List α) :=
  A.mapIdx fun i row => row.mapIdx fun j a => if (j : Int) ≤ (i : Int) + k then a else 0

/-- `jnp.triu(A, k)` -/
def triu (A : List (List α)) (k : Int) : List (List α) :=
  A.mapIdx fun i row => row.mapIdx fun j a => if (i : Int) + k ≤ (j : Int) then a else 0

/-- `jnp.diag(d)` for a 1-d `d` -/
def diagMat (d : List α) : List (List α) :=
  d.mapIdx fun i di => (List.range d.length).map fun j => if j = i then di else 0

/-- `jnp.diag(A)` for a square 2-d `A` -/
def diag (A : List (List α)) : List α := A.mapIdx fun i row => row.getD i 0

/-- `A @ x` -/
def matVec (A : List (List α)) (x : List α) : List α := A.map fun row => Jnp.dot row x

/-- `jax.scipy.linalg.solve_triangular(A, b, lower=lower)`: forward substitution on the lower triangle when `lower`,
back substitution on the upper triangle otherwise -/
def solveTriangular (A : List (List α)) (b : List α) (lower : Bool) : List α :=
  if lower then Tri.solveLower A b else Tri.solveUpper A b

/-- `jnp.broadcast_to(v, (n,))` -/
def broadcastTo (v : List α) (n : Nat) : Except Err (List α) :=
  if v.length = n then .ok v
  else if v.length = 1 then .ok (List.replicate n (v.headD 0))
  else .error .valueError

end
end TriPrims
