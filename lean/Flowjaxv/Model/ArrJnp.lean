import Flowjaxv.Model.Arr
import Flowjaxv.Model.ArgCheck
/-!
# Specs of the NumPy / JAX / Python primitives the array combinators are written in (Mathlib-free, executable)

These are the functions the GENERATED method bodies of `Concatenate / Stack / Partial / Reshape / EmbedCondition`
(`Gen/ArrCombinators.lean`, translated from `flowjax/bijections/concatenate.py` and `utils.py` on every run) call.
Each one is a thin wrapper — axis normalisation, shape bookkeeping — around the already-proved functions of
`Model/Arr.lean` (`ConcatSpec.parts` = split on the three-level view, `ConcatSpec.glue` = concatenate on the view,
`gather`, `scatter`), so that `Proofs/ArrGen.lean` can show generated method = hand-model method.

Every primitive is total.  Where the real primitive raises, the value here is junk and the doc-comment names the
GUARD under which the spec is faithful; the theorems of `Proofs/ArrGen.lean` carry these guards as hypotheses and
show that the generated constructors establish them.  The primitives are compared with the real `jnp` functions
directly by `tools/props/c08.py` (driver op `jnpprim`).
-/

/-- A bijection together with its declared `shape` and `cond_shape` (what the combinators' constructors and
`Reshape`'s methods read from a child). -/
structure SBij (X C L : Type) extends Bij X C L where
  shape : List Nat
  cond_shape : Option (List Nat)

/-- `Partial.idxs` resolved against the declared shape: the shape of `zeros(shape)[idxs]` and the flat row-major
positions `arange(size).reshape(shape)[idxs].ravel()` it selects. -/
structure Arr.Idx where
  sub : List Nat
  pos : List Nat
deriving Repr

namespace ArrJnp
open Arr ArrComb
variable {α : Type}

/-! ## Python built-ins -/

/-- `range(n)[i]`.  GUARD: `-n ≤ i < n` (IndexError otherwise). -/
def rangeGet (n : Int) (i : Int) : Nat := (Arr.normAxis n.toNat i).getD 0

/-- `seq[0]` on a list of shapes.  GUARD: non-empty (IndexError otherwise). -/
def first (shapes : List (List Nat)) : List Nat := shapes.headD []

/-- `shape[k]` with `k ≥ 0`.  GUARD: `k < len(shape)` (IndexError otherwise). -/
def shapeGet (s : List Nat) (k : Nat) : Nat := s.getD k 0

/-- `sum(<ints>)` -/
def natSum (l : List Nat) : Nat := l.foldl (· + ·) 0

/-- `sum(<list of scalars>)`: Python's left fold from the integer `0` -/
def pySum {L : Type} [Add L] [OfNat L 0] (l : List L) : L := l.foldl (· + ·) 0

/-- `itertools.accumulate` (running sums) -/
def accumulate : List Nat → List Nat
  | [] => []
  | a :: l => a :: (accumulate l).map (a + ·)

/-- `[f(a, b) for a, b in zip(as, bs, strict=True)]`.  GUARD: equal lengths (ValueError otherwise). -/
def zipWithStrict {β γ δ : Type} (f : β → γ → δ) (as : List β) (bs : List γ) : List δ := List.zipWith f as bs

/-- `a, b = zip(*pairs, strict=True)`.  GUARD: `pairs` non-empty (ValueError "not enough values to unpack"). -/
def unzipStar {β γ : Type} (pairs : List (β × γ)) : List β × List γ := (pairs.map Prod.fst, pairs.map Prod.snd)

/-- `flowjax.utils.merge_cond_shapes` (hand model `ArgCheck.mergeCondShapes`, C13).  GUARD: it does not raise. -/
def mergeCondShapes (conds : List (Option (List Nat))) : Option (List Nat) :=
  match ArgCheck.mergeCondShapes conds with
  | .ok c => c
  | .error _ => none

/-! ## `jnp.array_split`, `jnp.split`, `jnp.concatenate`, `jnp.stack`, `squeeze`, `reshape`, indexing -/

/-- sizes of the sections of `jnp.array_split(x, idxs, axis)` for an axis of length `A`: indices are clipped to
`[0, A]`, the sizes are the differences of `[0, *idxs, A]`.  GUARD: `idxs` non-decreasing (ValueError otherwise). -/
def splitSizes (A : Nat) (idxs : List Nat) : List Nat :=
  let cl := idxs.map (fun i => min i A)
  List.zipWith (fun hi lo => hi - lo) (cl ++ [A]) (0 :: cl)

/-- `jnp.array_split(x, idxs, axis)` with a tuple of non-negative indices.
GUARD: `-rank ≤ axis < rank`, `idxs` non-decreasing. -/
def arraySplit (x : Arr α) (idxs : List Nat) (axis : Int) : List (Arr α) :=
  match Arr.normAxis x.shape.length axis with
  | none => []
  | some k => (⟨x.shape, k, splitSizes (shapeGet x.shape k) idxs⟩ : ConcatSpec).parts x.data

/-- `jnp.split(x, n, axis)` with an integer number of sections.
GUARD: axis in range, `n > 0` (ZeroDivisionError), `n` divides the axis length (ValueError). -/
def split (x : Arr α) (n : Int) (axis : Int) : List (Arr α) :=
  match Arr.normAxis x.shape.length axis with
  | none => []
  | some k => (⟨x.shape, k, List.replicate n.toNat (shapeGet x.shape k / n.toNat)⟩ : ConcatSpec).parts x.data

/-- concatenation along the already-normalised axis `k`: the result has the first part's shape with entry `k`
replaced by the sum of the parts' entries `k` -/
def concatAt (k : Nat) (parts : List (Arr α)) : Arr α :=
  let sizes := parts.map (fun p => shapeGet p.shape k)
  (⟨(parts.headD ⟨[], []⟩).shape.set k (natSum sizes), k, sizes⟩ : ConcatSpec).glue parts

/-- `jnp.concatenate(parts, axis)`.  GUARD: `parts` non-empty, all of the same rank ≥ 1, axis in range, all
dimensions other than the axis equal (ValueError / TypeError otherwise). -/
def concatenate (parts : List (Arr α)) (axis : Int) : Arr α :=
  match Arr.normAxis (parts.headD ⟨[], []⟩).shape.length axis with
  | none => ⟨[], []⟩
  | some k => concatAt k parts

/-- `jnp.expand_dims(p, k)` -/
def expandDims (k : Nat) (p : Arr α) : Arr α := ⟨p.shape.insertIdx k 1, p.data⟩

/-- `jnp.stack(parts, axis)` = concatenate along the new axis the parts given a singleton axis there (this is how
`jnp.stack` is implemented).  GUARD: non-empty, all shapes equal, `-(rank+1) ≤ axis < rank+1`. -/
def stack (parts : List (Arr α)) (axis : Int) : Arr α :=
  match Arr.normAxis ((parts.headD ⟨[], []⟩).shape.length + 1) axis with
  | none => ⟨[], []⟩
  | some k => concatAt k (parts.map (expandDims k))

/-- `a.squeeze(axis=axis)`.  GUARD: axis in range and of length 1 (ValueError otherwise). -/
def squeeze (a : Arr α) (axis : Int) : Arr α :=
  match Arr.normAxis a.shape.length axis with
  | none => a
  | some k => ⟨a.shape.eraseIdx k, a.data⟩

/-- `x.reshape(shape)` (row-major data untouched).  GUARD: `∏ shape = x.size` (TypeError otherwise). -/
def reshape (x : Arr α) (shape : List Nat) : Arr α := ⟨shape, x.data⟩

/-- `x.reshape(shape)` where `shape` may be `None`.  GUARD: `shape` is not `None` (TypeError otherwise). -/
def reshapeOpt (x : Arr α) (shape : Option (List Nat)) : Arr α :=
  match shape with
  | some s => reshape x s
  | none => x

/-- `x[idxs]` -/
def getIdx [Inhabited α] (x : Arr α) (idxs : Arr.Idx) : Arr α := ⟨idxs.sub, gather idxs.pos x.data⟩

/-- `x.at[idxs].set(v)` -/
def atSet (x : Arr α) (idxs : Arr.Idx) (v : Arr α) : Arr α := ⟨x.shape, scatter idxs.pos x.data v.data⟩

end ArrJnp
