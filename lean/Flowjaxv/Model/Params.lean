import Flowjaxv.Model.ToBij
import Flowjaxv.Gen.Params
/-!
# Constrained parameterisations: the hand-written glue around the generated kernels (C11)

Mathlib-free and executable.  Everything numeric is delegated to definitions generated from
/repo (`Gen/Leaves.lean`: SoftPlus/Loc/Affine/Scale kernels; `Gen/Combinators.lean`: Chain;
`Gen/Params.lean`: spline knots/derivatives, planar `get_act_scale`, weight-norm row, mixture
weights).  What is written by hand here is only

* the `BijectionReparam` wrapper (`__init__` stores `bijection.inverse(value)`, `unwrap` applies
  `bijection.transform`) and its validity test `_apply_inverse_and_check_valid`,
* how each constructor *composes* those pieces (Affine/Scale/StudentT/TriangularAffine/
  `_affine_with_min_scale`/Uniform/Exponential),
* `_to_triangular` (`jnp.diag(diag) + jnp.tril(arr, -1)` on a list-of-rows matrix),
* the `eqx.error_if` predicates of the constructors named by the property.

Each of these is run against the real constructors / `unwrap` by `tools/props/c11.py`.
-/
open Gen

namespace Params
section
variable {α : Type} [Add α] [Sub α] [Mul α] [Div α] [Neg α] [LT α] [LE α] [BEq α]
  [OfNat α 0] [OfNat α 1] [OfNat α 2] [OfNat α 4] [OfScientific α]
  [DecidableLT α] [DecidableLE α] [Transc α] [Inhabited α]

/-! ### `flowjax.wrappers.BijectionReparam` for an elementwise (scalar) bijection -/

/-- One element of a `BijectionReparam`: the stored (raw, trainable) value and the bijection. -/
structure BijectionReparam (α : Type) where
  arr : α
  bijection : Bij α Unit α

/-- `BijectionReparam.__init__(arr, bijection)` with `invert_on_init=True`: stores `bijection.inverse(arr)`. -/
def BijectionReparam.init (b : Bij α Unit α) (v : α) : BijectionReparam α := ⟨b.inv v (), b⟩

/-- `BijectionReparam.unwrap`: `bijection.transform(self.arr)`. -/
def BijectionReparam.unwrap (p : BijectionReparam α) : α := p.bijection.fwd p.arr ()

/-- The SoftPlus reparameterisation used for scales, triangular diagonals and degrees of freedom. -/
def softplusRaw (raw : α) : BijectionReparam α := ⟨raw, SoftPlus.toBij⟩
/-- What `BijectionReparam(v, SoftPlus())` builds. -/
def softplusInit (v : α) : BijectionReparam α := BijectionReparam.init SoftPlus.toBij v

/-- `_apply_inverse_and_check_valid` for `SoftPlus` and a *finite* value `v`: the error fires iff
`SoftPlus.inverse v = log(-expm1(-v)) + v` is non-finite, i.e. iff the argument of the logarithm
is `≤ 0` (`log 0 = -inf`, `log` of a negative number is NaN; every other step maps finite to finite). -/
def softplusRejects (v : α) : Bool := decide (-(Transc.expm1 (-v)) ≤ 0)

/-- `eqx.error_if(x, x <= 0, …)` on a (flattened) array: degrees of freedom, mixture weights. -/
def anyNonPositive (xs : List α) : Bool := xs.any (fun x => decide (x ≤ 0))

/-- A whole array through `BijectionReparam(·, SoftPlus())`: rejected iff some entry is. -/
def softplusRejectsAny (xs : List α) : Bool := xs.any softplusRejects

/-! ### Constructors -/

/-- `Affine(loc, scale)` after `unwrap`, one element: the generated record whose `scale` is the
unwrapped `BijectionReparam`. `raw` is the trainable array entry. -/
def affineOfRaw (loc raw : α) : Affine α := { loc := loc, scale := (softplusRaw raw).unwrap }
/-- `Affine(loc, scale)` as constructed (raw := softplus⁻¹ scale), then unwrapped. -/
def affineInit (loc scale : α) : Affine α := { loc := loc, scale := (softplusInit scale).unwrap }
/-- `Scale(scale)` likewise. -/
def scaleOfRaw (raw : α) : Scale α := { scale := (softplusRaw raw).unwrap }
def scaleInit (scale : α) : Scale α := { scale := (softplusInit scale).unwrap }

/-- `_StandardStudentT(df).df` after `unwrap`. -/
def dfOfRaw (raw : α) : α := (softplusRaw raw).unwrap
def dfInit (df : α) : α := (softplusInit df).unwrap
/-- `_StandardStudentT.__init__` raises iff `df <= 0` somewhere (explicit `error_if`) or the reparameterisation does. -/
def studentTRejects (df : List α) : Bool := anyNonPositive df || softplusRejectsAny df

/-- `flows._affine_with_min_scale(min_scale)`: the scale is reparameterised through
`Chain([SoftPlus(), non_trainable(Loc(min_scale))])` (the generated `Chain` over generated leaves). -/
def minScaleBij (minScale : α) : Bij α Unit α :=
  (Chain.mk [SoftPlus.toBij, (Loc.mk minScale).toBij]).toBij
def minScaleOfRaw (minScale raw : α) : α := (BijectionReparam.mk raw (minScaleBij minScale)).unwrap
/-- as constructed: `BijectionReparam(jnp.array(1), scale_reparam)` -/
def minScaleInit (minScale : α) : α := (BijectionReparam.init (minScaleBij minScale) 1).unwrap

/-- `Uniform.__init__`: `error_if(maxval <= minval)` on the broadcast pair arrays. -/
def uniformRejects (bounds : List (α × α)) : Bool := bounds.any (fun p => decide (p.2 ≤ p.1))
/-- `Uniform(minval, maxval)` one element: `Affine(loc=minval, scale=maxval - minval)`. -/
def uniformInit (lo hi : α) : Affine α := affineInit lo (hi - lo)
/-- `Uniform.maxval` accessor: `loc + unwrap(scale)`. -/
def uniformMaxval (a : Affine α) : α := a.loc + a.scale

/-- `Exponential(rate)`: `Scale(1 / rate)`; accessor `rate = 1 / unwrap(scale)`. -/
def exponentialInit (rate : α) : Scale α := scaleInit (1 / rate)
def exponentialRate (s : Scale α) : α := 1 / s.scale

/-! ### `TriangularAffine._to_triangular` on a list-of-rows matrix -/

/-- `jnp.diag(diag) + (jnp.tril(arr, k=-1) if lower else jnp.triu(arr, k=1))`, entry `(i, j)`:
`[j = i]·diagᵢ + [j strictly below/above the diagonal]·arrᵢⱼ`. -/
def toTriangular (lower : Bool) (diag : List α) (arr : List (List α)) : List (List α) :=
  List.zipWith (fun d (p : List α × Nat) =>
      p.1.mapIdx (fun j a =>
        (if j = p.2 then d else 0) + (if (if lower then j < p.2 else p.2 < j) then a else 0)))
    diag arr.zipIdx

/-- the diagonal read back, entry by entry (`none` where a row is too short) -/
def diagEntries (m : List (List α)) : List (Option α) := m.mapIdx (fun i row => row[i]?)

/-- `TriangularAffine.__init__` raises `ValueError` unless `arr` is square. -/
def isSquare (m : List (List α)) : Bool := m.all (fun r => r.length == m.length)

/-- the unwrapped `TriangularAffine.triangular` for raw diagonal parameters `rawDiag` -/
def triangularOfRaw (lower : Bool) (rawDiag : List α) (arr : List (List α)) : List (List α) :=
  toTriangular lower (rawDiag.map (fun r => (softplusRaw r).unwrap)) arr

/-- as constructed: raw diagonal = softplus⁻¹ of the diagonal of `arr` (`jnp.diag(arr)`);
`none` when the constructor raises (non-square, or a diagonal entry rejected by the reparameterisation). -/
def triangularInit (lower : Bool) (arr : List (List α)) : Option (List (List α)) :=
  if !isSquare arr then none else
  match (diagEntries arr).mapM id with
  | none => none
  | some d =>
    if softplusRejectsAny d then none
    else some (toTriangular lower (d.map (fun v => (softplusInit v).unwrap)) arr)

end

/-! ### `Permute.__init__`'s check -/

/-- `eqx.error_if(permutation, permutation.ravel().sort() != jnp.arange(permutation.size), …)`:
raises iff the sorted (flattened) entries differ from `0, 1, …, size-1` somewhere. -/
def permuteRejects (p : List Int) : Bool :=
  p.mergeSort (fun a b => decide (a ≤ b)) != (List.range p.length).map Int.ofNat

end Params
