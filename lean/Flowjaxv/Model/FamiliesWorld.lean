import Flowjaxv.Model.Vectorize
import Flowjaxv.Model.Triangular
import Flowjaxv.Model.Families
import Flowjaxv.Gen.Leaves
import Flowjaxv.Gen.Wrappers
/-!
# The world of the regenerated family constructors (`Gen/FamiliesGen.lean`, translator `py2meth.py`, sheet `targets_families.py`)

Hand-written, Mathlib-free, executable.  What is fixed here (and therefore trusted / tied by the correspondence of
`tools/props/famgen.py`) is only

* the representation of an array: its shape and its row-major flattened entries (`NArr`),
* the attribute declarations of the classes whose `__init__` is regenerated (`AffineObj`, `ScaleObj`, `LocObj`, `StdStudentT`,
  `Transformed`, `MvnObj`, `MixtureObj`) — the generated constructors must fill exactly these fields —, and of the dataclasses
  without an `__init__` (`StdBase` = a `_Standard…(shape)`, `ExpObj` = `Exp(shape)`),
* the meaning of the NumPy / JAX / Equinox primitives the constructors call: `jnp.shape`, `jnp.broadcast_shapes`,
  `jnp.broadcast_arrays` (NumPy broadcasting, through the proved index functions of `Model/Vectorize.lean`), elementwise
  arithmetic with broadcasting, `eqx.error_if` (raises iff the predicate holds somewhere), `arraylike_to_array(·, dtype=float)`
  (the identity on float arrays), `SoftPlus()` used by `BijectionReparam` through `_vectorize` (the GENERATED scalar `SoftPlus`
  applied entry by entry), `Chain([...])` (raises unless all shapes agree), `TriangularAffine(loc, arr)` (the existing hand model
  `Tri.init`), `linalg.cholesky` (an abstract parameter of the world).

A raising primitive is `none` (`Option` monad): nothing is totalised away.
-/
open Gen

namespace Fw

abbrev Shape := List Nat

/-- an array: shape and row-major flattened entries -/
structure NArr (α : Type) where
  shape : Shape
  data : List α

/-- a Python scalar / 0-d array -/
def NArr.scalar {α : Type} (v : α) : NArr α := ⟨[], [v]⟩

/-- well-formed: as many entries as the shape says -/
def NArr.WF {α : Type} (a : NArr α) : Prop := a.data.length = Vec.sprod a.shape

section
variable {α : Type} [Inhabited α]

/-- `jnp.shape(a)` -/
def shapeOf (a : NArr α) : Shape := a.shape

/-- `jnp.broadcast_shapes(s, t)` (raises on incompatible shapes) -/
def broadcastShapes (s t : Shape) : Option Shape := Vec.bcast2 s t

/-- `jnp.broadcast_to(a, s)` for a shape `s` that `a.shape` broadcasts to: entry `k` (row-major multi-index `unflatten s k`)
reads `a` at the right-aligned index with size-1 axes read at 0 -/
def broadcastTo (a : NArr α) (s : Shape) : NArr α :=
  ⟨s, (List.range (Vec.sprod s)).map (fun k =>
        a.data.getD (Vec.flatIndex a.shape (Vec.bIndex a.shape (Vec.unflatten s k))) default)⟩

/-- `jnp.broadcast_arrays(a, b)` -/
def broadcastArrays2 (a b : NArr α) : Option (NArr α × NArr α) :=
  (Vec.bcast2 a.shape b.shape).map (fun s => (broadcastTo a s, broadcastTo b s))

/-- `jnp.broadcast_arrays(a, b, c)` -/
def broadcastArrays3 (a b c : NArr α) : Option (NArr α × NArr α × NArr α) :=
  (Vec.broadcastShapes [a.shape, b.shape, c.shape]).map (fun s => (broadcastTo a s, broadcastTo b s, broadcastTo c s))

/-- `arraylike_to_array(a, dtype=float)` on a float array -/
def toArray (a : NArr α) : NArr α := a

/-- an elementwise binary operation with NumPy broadcasting -/
def zipB {β : Type} (f : α → α → β) (a b : NArr α) : Option (NArr β) :=
  (broadcastArrays2 a b).map (fun p => ⟨p.1.shape, List.zipWith f p.1.data p.2.data⟩)

/-- `eqx.error_if(x, pred, msg)`: raises iff `pred` holds somewhere -/
def errorIf {τ : Type} (x : τ) (pred : NArr Bool) : Option τ := if pred.data.any id then none else some x
end

section
variable {α : Type} [Add α] [Sub α] [Mul α] [Div α] [Neg α] [LT α] [LE α] [BEq α]
  [OfNat α 0] [OfNat α 1] [OfNat α 2] [OfNat α 4] [OfScientific α]
  [DecidableLT α] [DecidableLE α] [Transc α] [Inhabited α]

/-- `a - b` -/
def sub (a b : NArr α) : Option (NArr α) := zipB (· - ·) a b
/-- `a + b` -/
def add (a b : NArr α) : Option (NArr α) := zipB (· + ·) a b
/-- `a <= b` -/
def le (a b : NArr α) : Option (NArr Bool) := zipB (fun x y => decide (x ≤ y)) a b
/-- `a <= 0` -/
def leZero (a : NArr α) : NArr Bool := ⟨a.shape, a.data.map (fun x => decide (x ≤ 0))⟩
/-- `1 / a` -/
def recip (a : NArr α) : NArr α := ⟨a.shape, a.data.map (fun x => 1 / x)⟩

/-- `SoftPlus()` as `BijectionReparam` uses it (`bijection._vectorize.transform / inverse` on an array of any shape): the GENERATED
scalar `SoftPlus` entry by entry; the log-dets are summed -/
def softPlus : Bij (NArr α) Unit α where
  fwd a _ := ⟨a.shape, a.data.map (fun x => SoftPlus.transform {} x)⟩
  inv a _ := ⟨a.shape, a.data.map (fun y => SoftPlus.inverse {} y)⟩
  fwdLd a _ := (⟨a.shape, a.data.map (fun x => SoftPlus.transform {} x)⟩,
                Jnp.sum (a.data.map (fun x => (SoftPlus.transform_and_log_det {} x).2)))
  invLd a _ := (⟨a.shape, a.data.map (fun y => SoftPlus.inverse {} y)⟩,
                Jnp.sum (a.data.map (fun y => (SoftPlus.inverse_and_log_det {} y).2)))
end

/-! ### the objects -/

/-- the parameter-free standard distributions (dataclasses with the single field `shape`) -/
inductive BaseKind | normal | uniform | gumbel | cauchy | laplace | exponential | logistic
  deriving DecidableEq, Repr

/-- `StandardNormal(shape)`, `_StandardUniform(shape)`, … -/
structure StdBase where
  kind : BaseKind
  shape : Shape
  deriving DecidableEq, Repr

/-- `BijectionReparam` holding an array (the GENERATED structure of `Gen/Wrappers.lean`) -/
abbrev Reparam (α : Type) := Gen.Wr.BijectionReparam (NArr α) α

/-- attributes of `Affine`: `shape`, `loc`, `scale` -/
structure AffineObj (α : Type) where
  shape : Shape
  loc : NArr α
  scale : Reparam α

/-- attributes of `Scale` -/
structure ScaleObj (α : Type) where
  shape : Shape
  scale : Reparam α

/-- attributes of `Loc` -/
structure LocObj (α : Type) where
  loc : NArr α
  shape : Shape

/-- `Exp(shape)` (a dataclass) -/
structure ExpObj where
  shape : Shape
  deriving DecidableEq, Repr

/-- an `AbstractBijection` of the kinds the families use (what a `Chain` may hold) -/
inductive BijObj (α : Type) where
  | affine (a : AffineObj α)
  | scale (a : ScaleObj α)
  | loc (a : LocObj α)
  | exp (e : ExpObj)

def BijObj.shape {α : Type} : BijObj α → Shape
  | .affine a => a.shape
  | .scale a => a.shape
  | .loc a => a.shape
  | .exp e => e.shape

/-- attributes of `Chain` (unconditional members): `shape`, `bijections` -/
structure ChainObj (α : Type) where
  shape : Shape
  bijections : List (BijObj α)

/-- `Chain(bijections)`: `check_shapes_match` raises unless all shapes agree; `shape = bijections[0].shape` (raises on `[]`) -/
def chainInit {α : Type} (bs : List (BijObj α)) : Option (ChainObj α) :=
  match bs with
  | [] => none
  | b :: rest => if rest.all (fun c => c.shape == b.shape) then some ⟨b.shape, bs⟩ else none

/-- attributes of `_StandardStudentT` -/
structure StdStudentT (α : Type) where
  shape : Shape
  df : Reparam α

/-- the two attributes every `AbstractTransformed` subclass sets -/
structure Transformed (B J : Type) where
  base_dist : B
  bijection : J

/-! ### `MultivariateNormal` through the hand model of `TriangularAffine` -/

section
variable {α : Type} [Add α] [Sub α] [Mul α] [Div α] [Neg α] [LT α] [LE α] [BEq α]
  [OfNat α 0] [OfNat α 1] [OfNat α 2] [OfNat α 4] [OfScientific α]
  [DecidableLT α] [DecidableLE α] [Transc α] [Inhabited α]

/-- `TriangularAffine(loc, arr)` (`lower=True`): the existing hand model (`Families.mvnBijection` = `jnp.broadcast_to(loc, (dim,))` then
`Tri.init` of `Model/Triangular.lean`); raises when `arr` is not square, a diagonal entry is rejected by the SoftPlus
reparameterisation, or `loc` does not broadcast to `(dim,)` -/
def triangularAffine (loc : List α) (arr : List (List α)) : Option (Tri.TriAffine α) := Families.mvnBijection loc arr

/-- `bijection.shape` of a `TriangularAffine`: `(dim,)` -/
def triShape (t : Tri.TriAffine α) : Shape := [t.triangular.length]

/-- `unwrap(bijection.triangular)`: the hand model already holds the unwrapped matrix -/
def triUnwrapTriangular (t : Tri.TriAffine α) : List (List α) := t.triangular

/-- `A.T` of a list-of-rows matrix (the number of columns is read off the first row) -/
def transpose (A : List (List α)) : List (List α) :=
  (List.range (A.headD []).length).map (fun j => A.map (fun row => row.getD j 0))

/-- `A @ B` -/
def matmul (A B : List (List α)) : List (List α) :=
  A.map (fun r => (transpose B).map (fun c => Jnp.dot r c))
end


/-! ### `VmapMixture` -/

/-- the vmapped component distribution handed to `VmapMixture`: its declared shapes and, per component, the record of its
(unwrapped) private methods — `eqx.filter_vmap(lambda d: d._log_prob(x, condition))(dist)` evaluates each of them -/
structure VDist (X K α : Type) where
  shape : Shape
  cond_shape : Option Shape
  comps : List (Distn X Unit K α)

/-- attributes of `VmapMixture`; `log_normalized_weights` is the GENERATED `Lambda` wrapper of `Gen/Wrappers.lean` -/
structure MixtureObj (X K α : Type) where
  shape : Shape
  cond_shape : Option Shape
  log_normalized_weights : Gen.Wr.Lambda (List α) Unit (List α)
  dist : VDist X K α

/-- `unwrap(VmapMixture)`: the `Lambda` leaf evaluated (the GENERATED `Lambda.unwrap`) -/
structure MixtureU (X K α : Type) where
  shape : Shape
  cond_shape : Option Shape
  log_normalized_weights : List α
  dist : VDist X K α

def MixtureObj.unwrap {X K α : Type} (m : MixtureObj X K α) : MixtureU X K α :=
  ⟨m.shape, m.cond_shape, Gen.Wr.Lambda.unwrap m.log_normalized_weights, m.dist⟩

/-- a mixture's key in the model: what `jr.categorical(key1, ·)` draws for `key1`, and `key2` (`key1, key2 = jr.split(key)`) -/
structure CatKey where
  draw : Nat

/-- `jr.split(key)` of a mixture key -/
def mixSplit {K : Type} (key : Nat × K) : CatKey × K := (⟨key.1⟩, key.2)

/-- `jr.categorical(key1, logits)`: the draw (its law — probabilities `softmax(logits)` — is the trusted primitive) -/
def categorical {α : Type} (key1 : CatKey) (_logits : List α) : Nat := key1.draw

/-- `tree_map(lambda leaf: leaf[component] if isinstance(leaf, Array) else leaf, tree=dist)`: the component's record; a traced index is
clamped into range by JAX, indexing an empty leading axis raises (the hand model `Families.mixtureTake`) -/
def takeComponent {X K α : Type} (d : VDist X K α) (component : Nat) : Option (Distn X Unit K α) :=
  Families.mixtureTake d.comps component

/-- `component_dist._sample(key2, condition)` -/
def sampleOf {X K α : Type} (d : Distn X Unit K α) (key : K) (_condition : Option Unit) : X := d.sample key ()

/-- `eqx.filter_vmap(lambda d: d._log_prob(x, condition))(dist)` -/
def vmapLogProb {X K α : Type} (d : VDist X K α) (x : X) (_condition : Option Unit) : List α := d.comps.map (fun c => c.logProb x ())

end Fw
