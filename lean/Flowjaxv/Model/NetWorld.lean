import Flowjaxv.Model.NetInverse
/-!
# Primitives the GENERATED methods of `Coupling` / `MaskedAutoregressive` (`Gen/NetGen.lean`) are written in

Core Lean only.  `tools/py2lean/py2meth.py` translates the public methods of `flowjax/bijections/coupling.py` and
`flowjax/bijections/masked_autoregressive.py` statement by statement (typing sheet `tools/py2lean/targets_net.py`); every
library call it meets is mapped to one of the functions below.  This file is the hand-written part of that tie: the
*meaning of the library calls* — nothing about the two classes themselves.

* a 1-d array is the list of its entries; `jnp.hstack` / `jnp.concatenate` of a pair of 1-d arrays is `++`; `x[:d]`, `x[d:]`
  are `take` / `drop`;
* the object `self` is the record of the attributes the methods read.  The conditioner networks are abstract functions
  `List α → List α` (`eqx.nn.MLP.__call__`); for `MaskedAutoregressive` the function is the masked MLP of a `Masks.MafNet`
  (`MafObj.ofNet`), whose masks are regenerated from `__init__` / `masked_autoregressive_mlp` in `Gen/MasksGen.lean`;
* `transformer_constructor` (from `get_ravelled_pytree_constructor(transformer)`) is a family `List α → Bij α Unit α`: a row of
  parameters ↦ a scalar bijection.  `eqx.filter_vmap(self.transformer_constructor)(rows)` is the list of the per-row
  bijections; `Vmap(stacked, in_axes=eqx.if_array(0))` applies bijection `i` to coordinate `i`, and its `…_and_log_det`
  methods SUM the per-coordinate log-dets (`Vmap.transform_and_log_det`: `jnp.sum(log_det)`, jax_transforms.py) — the existing
  `Masks.vmapFwdLd` / `Masks.vmapInvLd`;
* `jnp.reshape(params, (dim, -1))` is `Masks.reshapeRows dim` (the real call raises unless `dim > 0` divides the length;
  statements carry that guard);
* `jax.lax.scan(f, init, None, length=n)`: `n` applications of `f` to the carry, every step receiving `None`; the stacked
  second outputs (all `None`) are `None`;
* indexing with a traced index: `x[rank]` clamps the index into range (JAX gather mode for NumPy-style indexing),
  `y.at[rank].set(v)` drops an out-of-range update (JAX scatter mode) — both checked on the real `jnp` by
  `tools/props/netgen.py`.  Inside the scan `rank < len(y)` always holds.
-/
namespace Nw
open Masks

/-- a scalar bijection with shape `()` and no condition -/
abbrev ScalarBij (α : Type) := Bij α Unit α

/-- the `transformer` argument of the two constructors, as far as `__init__` inspects it: its declared `shape` and `cond_shape` -/
structure TSpec where
  shape : List Nat
  cond_shape : Option (List Nat)

/-- the attributes of a `Coupling` the four methods read (coupling.py:35-40) -/
structure CouplingObj (α : Type) where
  shape : List Nat
  cond_shape : Option (List Nat)
  untransformed_dim : Nat
  dim : Nat
  transformer_constructor : List α → ScalarBij α
  conditioner : List α → List α

/-- the attributes of a `MaskedAutoregressive` the methods read (masked_autoregressive.py:41-44) -/
structure MafObj (α : Type) where
  shape : List Nat
  cond_shape : Option (List Nat)
  transformer_constructor : List α → ScalarBij α
  masked_autoregressive_mlp : List α → List α

/-- `Vmap(bijection, in_axes=eqx.if_array(0))` of a stack of scalar bijections: one bijection per coordinate -/
structure VmapBij (α : Type) where
  bs : List (ScalarBij α)

/-- `Vmap(stacked, in_axes=eqx.if_array(0))` -/
def Vmap {α : Type} (bs : List (ScalarBij α)) : VmapBij α := ⟨bs⟩

/-- `y.at` and `y.at[i]` (JAX's index-update helper objects) -/
abbrev At (α : Type) := List α
abbrev AtIdx (α : Type) := List α × Nat

section
variable {α : Type}

/-- `x[:d]` -/
def sliceTo (x : List α) (d : Nat) : List α := x.take d
/-- `x[d:]` -/
def sliceFrom (x : List α) (d : Nat) : List α := x.drop d
/-- `jnp.hstack((a, b))` / `jnp.concatenate((a, b))` of two 1-d arrays -/
def hstack (p : List α × List α) : List α := p.1 ++ p.2
/-- `x[i]` with a traced index: clamped into range -/
def idx [Inhabited α] (x : List α) (i : Nat) : α := x.getD (min i (x.length - 1)) default
def at_ (y : List α) : At α := y
def atIdx (y : At α) (i : Nat) : AtIdx α := (y, i)
/-- `y.at[i].set(v)`: an out-of-range update is dropped -/
def atSet (yi : AtIdx α) (v : α) : List α := yi.1.set yi.2 v

/-- Python `a - b` of two non-negative ints -/
def subNat (a b : Nat) : Int := (a : Int) - (b : Int)
/-- Python `-n` -/
def negNat (n : Nat) : Int := -(n : Int)
/-- `shape[i]` with Python's negative indices (`IndexError` out of range — never for `self.shape[-1]`, `shape = (dim,)`;
the totalised value is 0 and the theorems carry `self.shape = [dim]`) -/
def shapeIdx (s : List Nat) (i : Int) : Int :=
  if i < 0 then (if i.natAbs ≤ s.length then ((s.getD (s.length - i.natAbs) 0 : Nat) : Int) else 0)
  else ((s.getD i.toNat 0 : Nat) : Int)

/-- `jnp.reshape(flat, (d, c))` with `c = -1` (inferred) or an explicit column count; rows as lists.  The real call raises
unless the sizes fit (`d > 0` dividing the length for `c = -1`). -/
def reshape2 (flat : List α) (shape : Int × Int) : List (List α) :=
  if shape.2 = -1 then reshapeRows shape.1.toNat flat
  else (List.range shape.1.toNat).map fun i => (flat.drop (i * shape.2.toNat)).take shape.2.toNat

/-- `jax.lax.scan(f, init, None, length=n)` -/
def scanNone {κ : Type} (f : κ → Unit → κ × Unit) (init : κ) (n : Nat) : κ × Unit :=
  ((List.range n).foldl (fun c _ => (f c ()).1) init, ())

end

section
variable {α : Type} [Add α] [OfNat α 0]

/-- `Vmap(…).transform(x)` -/
def vmapTransform (v : VmapBij α) (x : List α) : List α := List.zipWith (fun b t => b.fwd t ()) v.bs x
/-- `Vmap(…).inverse(y)` -/
def vmapInverse (v : VmapBij α) (y : List α) : List α := List.zipWith (fun b t => b.inv t ()) v.bs y
/-- `Vmap(…).transform_and_log_det(x)`: the values and the SUM of the per-coordinate log-dets -/
def vmapTransformLd (v : VmapBij α) (x : List α) : List α × α := vmapFwdLd v.bs x
/-- `Vmap(…).inverse_and_log_det(y)` -/
def vmapInverseLd (v : VmapBij α) (y : List α) : List α × α := vmapInvLd v.bs y

end

section
variable {α : Type} [Add α] [Mul α] [OfNat α 0]

/-- the object a well-formed `MaskedAutoregressive.__init__` builds from the masked network `N` and the transformer family -/
def MafObj.ofNet (N : MafNet α) (tf : List α → ScalarBij α) : MafObj α where
  shape := [N.dim]
  cond_shape := N.condDim.map fun c => [c]
  transformer_constructor := tf
  masked_autoregressive_mlp := mlpForward N.act N.layers

/-- the object `Coupling.__init__` builds: sizes, conditioner function, transformer family -/
def CouplingObj.mk' (d dim : Nat) (condDim : Option Nat) (conditioner : List α → List α) (tf : List α → ScalarBij α) :
    CouplingObj α where
  shape := [dim]
  cond_shape := condDim.map fun c => [c]
  untransformed_dim := d
  dim := dim
  transformer_constructor := tf
  conditioner := conditioner

end

end Nw
