/-!
# Pytrees with `flowjax.wrappers` nodes: `unwrap`, `partition`/`combine`, training updates,
# `get_ravelled_pytree_constructor`, vmapped construction   (hand model for C12)

Core Lean only, executable.  Transcribed from `/repo/flowjax/wrappers.py`, `/repo/flowjax/utils.py`,
`/repo/flowjax/train/{data_fit,variational_fit,train_utils}.py`; tied to the real code by
`tools/props/c12.py` through the driver op `pytree` (`Driver/PyTree.lean`).

* `Arr α` — an array leaf's value.  The leading *batch* axes that `eqx.filter_vmap` adds to every
  array of a wrapper built under vmap are explicit (`batch xs` = `jnp.stack xs`); everything below the
  batch axes is the flattened data (`base`).
* `Tree α` — a pytree: `none` (Python `None`, also the hole left by `eqx.partition`), array leaves
  (identity tag, `inexact` = floating/complex dtype), non-array leaves, containers (tuple / list /
  dict / `eqx.Module` — children in flattening order) and wrapper nodes
  (`AbstractUnwrappable` subclasses; `batch` is `_dummy.shape`, `[]` for classes whose `_dummy` is `None`).
-/
namespace PyTree

/-- the concrete `AbstractUnwrappable` classes of `flowjax.wrappers` -/
inductive Kind where
  | nonTrainable | reparam | whereK | weightNorm | lambda
  deriving DecidableEq, Repr, Inhabited

/-- `BijectionReparam` and `Lambda` carry a `_dummy` array (vectorised unwrap); the others have
`_dummy : ClassVar[None]`. -/
def Kind.hasDummy : Kind → Bool
  | .reparam => true
  | .lambda => true
  | _ => false

inductive Arr (α : Type) where
  | base (data : List α)
  | batch (xs : List (Arr α))
  deriving Repr, Inhabited

inductive Tree (α : Type) where
  | none
  | arr (id : Nat) (inexact : Bool) (a : Arr α)
  | static (id : Nat)
  | node (cs : List (Tree α))
  | wrap (k : Kind) (tag : Nat) (batch : List Nat) (cs : List (Tree α))
  deriving Repr, Inhabited

/-- a wrapper's own `.unwrap()` given already-unwrapped children: kind, node tag, children ↦ value -/
abbrev WrapFn (α : Type) := Kind → Nat → List (Tree α) → Tree α

variable {α : Type}

/-! ## arrays: flattening (`ravel`), batch slices -/

mutual
def Arr.flat : Arr α → List α
  | .base d => d
  | .batch xs => Arr.flatL xs
def Arr.flatL : List (Arr α) → List α
  | [] => []
  | x :: xs => x.flat ++ Arr.flatL xs
end

mutual
/-- rebuild an array of the template's shape from the front of `v`; returns the rest of `v` -/
def Arr.unflat : Arr α → List α → Arr α × List α
  | .base d, v => (.base (v.take d.length), v.drop d.length)
  | .batch xs, v => let r := Arr.unflatL xs v; (.batch r.1, r.2)
def Arr.unflatL : List (Arr α) → List α → List (Arr α) × List α
  | [], v => ([], v)
  | x :: xs, v =>
      let r := x.unflat v
      let rs := Arr.unflatL xs r.2
      (r.1 :: rs.1, rs.2)
end

/-- `a[i]` along the leading batch axis (vmap's view of slice `i`).  On an array without a batch
axis the real `vmap` raises; the theorems carry that guard (`WB`). -/
def Arr.slice (i : Nat) : Arr α → Arr α
  | .batch xs => xs.getD i (.base [])
  | .base d => .base d

/-! ## tree accessors -/

def Tree.arrOf : Tree α → Arr α
  | .arr _ _ a => a
  | _ => .base []

def Tree.children : Tree α → List (Tree α)
  | .node cs => cs
  | .wrap _ _ _ cs => cs
  | _ => []

def Tree.child (j : Nat) (t : Tree α) : Tree α := t.children.getD j .none

/-- an array leaf as data: (identity tag, inexact dtype?, value) -/
abbrev Leaf (α : Type) := Nat × Bool × Arr α

mutual
/-- all array leaves in flattening order -/
def leaves : Tree α → List (Leaf α)
  | .none => []
  | .arr id ix a => [(id, ix, a)]
  | .static _ => []
  | .node cs => leavesL cs
  | .wrap _ _ _ cs => leavesL cs
def leavesL : List (Tree α) → List (Leaf α)
  | [] => []
  | c :: cs => leaves c ++ leavesL cs
end

mutual
/-- all non-array leaves (ids) in flattening order -/
def statics : Tree α → List Nat
  | .none => []
  | .arr _ _ _ => []
  | .static id => [id]
  | .node cs => staticsL cs
  | .wrap _ _ _ cs => staticsL cs
def staticsL : List (Tree α) → List Nat
  | [] => []
  | c :: cs => statics c ++ staticsL cs
end

mutual
/-- "contains no wrapper node" -/
def noWrap : Tree α → Bool
  | .none => true
  | .arr _ _ _ => true
  | .static _ => true
  | .node cs => noWrapL cs
  | .wrap _ _ _ _ => false
def noWrapL : List (Tree α) → Bool
  | [] => true
  | c :: cs => noWrap c && noWrapL cs
end

mutual
/-- tags of the wrapper nodes in post-order (children left to right, then the node itself) -/
def wrapTags : Tree α → List Nat
  | .none => []
  | .arr _ _ _ => []
  | .static _ => []
  | .node cs => wrapTagsL cs
  | .wrap _ tag _ cs => wrapTagsL cs ++ [tag]
def wrapTagsL : List (Tree α) → List Nat
  | [] => []
  | c :: cs => wrapTags c ++ wrapTagsL cs
end

mutual
/-- same skeleton: same tree shape, leaf identities, dtypes classes, wrapper kinds/tags/batch shapes;
array *values* are not compared -/
def Sk : Tree α → Tree α → Bool
  | .none, .none => true
  | .arr id ix _, .arr id' ix' _ => id == id' && ix == ix'
  | .static i, .static j => i == j
  | .node cs, .node ds => SkL cs ds
  | .wrap k t b cs, .wrap k' t' b' ds => decide (k = k') && t == t' && b == b' && SkL cs ds
  | _, _ => false
def SkL : List (Tree α) → List (Tree α) → Bool
  | [], [] => true
  | c :: cs, d :: ds => Sk c d && SkL cs ds
  | _, _ => false
end

/-! ## vmapped construction: slices and stacks of trees -/

mutual
/-- the `i`-th individually built tree of a tree built under one level of `eqx.filter_vmap`:
every array loses its leading axis, every `_dummy.shape` its first entry -/
def sliceT (i : Nat) : Tree α → Tree α
  | .none => .none
  | .arr id ix a => .arr id ix (a.slice i)
  | .static id => .static id
  | .node cs => .node (sliceL i cs)
  | .wrap k tag b cs => .wrap k tag b.tail (sliceL i cs)
def sliceL (i : Nat) : List (Tree α) → List (Tree α)
  | [] => []
  | c :: cs => sliceT i c :: sliceL i cs
end

mutual
/-- `stackF n g tm`: the tree with the skeleton of `tm` whose arrays are
`jnp.stack [g 0, …, g (n-1)]` leafwise (what `vmap` returns for per-slice results `g i`). -/
def stackF (n : Nat) (g : Nat → Tree α) : Tree α → Tree α
  | .none => .none
  | .arr id ix _ => .arr id ix (.batch ((List.range n).map fun i => (g i).arrOf))
  | .static id => .static id
  | .node cs => .node (stackFL n g 0 cs)
  | .wrap k tag b cs => .wrap k tag (n :: b) (stackFL n g 0 cs)
def stackFL (n : Nat) (g : Nat → Tree α) (j : Nat) : List (Tree α) → List (Tree α)
  | [] => []
  | c :: cs => stackF n (fun i => (g i).child j) c :: stackFL n g (j + 1) cs
end

/-! ## unwrap -/

/-- `vectorized_unwrap`: `.unwrap()` under one `eqx.filter_vmap(axis_size = dim)` per entry of
`_dummy.shape` (outermost first) -/
def applyB (f : WrapFn α) (k : Kind) (tag : Nat) : List Nat → List (Tree α) → Tree α
  | [], cs => f k tag cs
  | n :: b, cs => stackF n (fun i => applyB f k tag b (sliceL i cs)) (applyB f k tag b (sliceL 0 cs))

/-- what replaces a wrapper node whose children are already unwrapped.
`NonTrainable.unwrap` returns its (stop-gradient'ed) subtree — values unchanged;
classes with `_dummy` go through the vectorised path; `Where` / `WeightNormalization` call
`.unwrap()` directly on whatever (possibly batched) arrays they hold. -/
def applyW (f : WrapFn α) (k : Kind) (tag : Nat) (b : List Nat) (cs : List (Tree α)) : Tree α :=
  match k with
  | .nonTrainable => (match cs with | [c] => c | _ => .node cs)
  | .reparam => applyB f k tag b cs
  | .lambda => applyB f k tag b cs
  | .whereK => f k tag cs
  | .weightNorm => f k tag cs

mutual
/-- `flowjax.wrappers.unwrap`: `tree_map` with `is_leaf = isinstance(·, AbstractUnwrappable)`;
each wrapper ↦ `recursive_unwrap` = unwrap the one-level-flattened children, then apply. -/
def unwrap (f : WrapFn α) : Tree α → Tree α
  | .none => .none
  | .arr id ix a => .arr id ix a
  | .static id => .static id
  | .node cs => .node (unwrapL f cs)
  | .wrap k tag b cs => applyW f k tag b (unwrapL f cs)
def unwrapL (f : WrapFn α) : List (Tree α) → List (Tree α)
  | [] => []
  | c :: cs => unwrap f c :: unwrapL f cs
end

mutual
/-- instrumented unwrap: threads a log to which every `.unwrap()` call appends its node's tag at
the moment it is applied -/
def unwrapM (f : WrapFn α) : Tree α → List Nat → Tree α × List Nat
  | .none, log => (.none, log)
  | .arr id ix a, log => (.arr id ix a, log)
  | .static id, log => (.static id, log)
  | .node cs, log => let r := unwrapML f cs log; (.node r.1, r.2)
  | .wrap k tag b cs, log =>
      let r := unwrapML f cs log
      (applyW f k tag b r.1, r.2 ++ [tag])
def unwrapML (f : WrapFn α) : List (Tree α) → List Nat → List (Tree α) × List Nat
  | [], log => ([], log)
  | c :: cs, log =>
      let r := unwrapM f c log
      let rs := unwrapML f cs r.2
      (r.1 :: rs.1, rs.2)
end

/-- the list of wrapper tags applied by one `unwrap` run, in order of application -/
def unwrapCount (f : WrapFn α) (t : Tree α) : List Nat := (unwrapM f t []).2

/-! ## `eqx.partition(tree, eqx.is_inexact_array, is_leaf = isinstance(·, NonTrainable))`, `eqx.combine` -/

mutual
/-- the `params` half -/
def partP : Tree α → Tree α
  | .none => .none
  | .arr id ix a => if ix then .arr id ix a else .none
  | .static _ => .none
  | .node cs => .node (partPL cs)
  | .wrap k tag b cs =>
      match k with
      | .nonTrainable => .none
      | _ => .wrap k tag b (partPL cs)
def partPL : List (Tree α) → List (Tree α)
  | [] => []
  | c :: cs => partP c :: partPL cs
end

mutual
/-- the `static` half -/
def partS : Tree α → Tree α
  | .none => .none
  | .arr id ix a => if ix then .none else .arr id ix a
  | .static id => .static id
  | .node cs => .node (partSL cs)
  | .wrap k tag b cs =>
      match k with
      | .nonTrainable => .wrap k tag b cs
      | _ => .wrap k tag b (partSL cs)
def partSL : List (Tree α) → List (Tree α)
  | [] => []
  | c :: cs => partS c :: partSL cs
end

mutual
/-- `eqx.combine(p, s)`: leafwise first non-`None` (a `None` of `p` takes the whole subtree of `s`) -/
def combine : Tree α → Tree α → Tree α
  | .none, s => s
  | .node cs, .node ss => .node (combineL cs ss)
  | .wrap k t b cs, .wrap _ _ _ ss => .wrap k t b (combineL cs ss)
  | .node cs, _ => .node cs
  | .wrap k t b cs, _ => .wrap k t b cs
  | .arr id ix a, _ => .arr id ix a
  | .static id, _ => .static id
def combineL : List (Tree α) → List (Tree α) → List (Tree α)
  | c :: cs, s :: ss => combine c s :: combineL cs ss
  | cs, _ => cs
end

mutual
/-- leaves that training must not move: every array under a `NonTrainable` node and every
non-inexact array -/
def frozenLeaves : Tree α → List (Leaf α)
  | .none => []
  | .arr id ix a => if ix then [] else [(id, ix, a)]
  | .static _ => []
  | .node cs => frozenLeavesL cs
  | .wrap k _ _ cs =>
      match k with
      | .nonTrainable => leavesL cs
      | _ => frozenLeavesL cs
def frozenLeavesL : List (Tree α) → List (Leaf α)
  | [] => []
  | c :: cs => frozenLeaves c ++ frozenLeavesL cs
end

mutual
/-- the complement: inexact arrays not under any `NonTrainable` node -/
def trainableLeaves : Tree α → List (Leaf α)
  | .none => []
  | .arr id ix a => if ix then [(id, ix, a)] else []
  | .static _ => []
  | .node cs => trainableLeavesL cs
  | .wrap k _ _ cs =>
      match k with
      | .nonTrainable => []
      | _ => trainableLeavesL cs
def trainableLeavesL : List (Tree α) → List (Leaf α)
  | [] => []
  | c :: cs => trainableLeaves c ++ trainableLeavesL cs
end

/-! ## training: `params ← eqx.apply_updates(params, updates)` for arbitrary `updates` -/

mutual
/-- `eqx.apply_updates(model = p, updates = u)` = `tree_map(λ u p. p if u is None else p + u, u, p,
is_leaf = is None)`; `none` result = the real call raises (structure mismatch / `None + array`).
`add` is the array addition (any function: broadcasting, dtype promotion … are not constrained). -/
def applyU (add : Arr α → Arr α → Arr α) : (u p : Tree α) → Option (Tree α)
  | .none, p => some p
  | .arr _ _ ua, .arr id ix a => some (.arr id ix (add a ua))
  | .node us, .node ps => (applyUL add us ps).map .node
  | .wrap k _ _ us, .wrap k' t' b' ps =>
      if k = k' then (applyUL add us ps).map (.wrap k' t' b') else Option.none
  | _, _ => Option.none
def applyUL (add : Arr α → Arr α → Arr α) : (us ps : List (Tree α)) → Option (List (Tree α))
  | [], [] => some []
  | u :: us, p :: ps =>
      match applyU add u p, applyUL add us ps with
      | some r, some rs => some (r :: rs)
      | _, _ => Option.none
  | _, _ => Option.none
end

/-- the parameter iterates of `fit_to_data` / `fit_to_variational_target`: one `apply_updates` per
step, for an arbitrary sequence of update trees (whatever loss, data, keys, optimiser and optimiser
state produced them). -/
def train (add : Arr α → Arr α → Arr α) (p : Tree α) : List (Tree α) → Option (Tree α)
  | [] => some p
  | u :: us => (applyU add u p).bind fun p' => train add p' us

/-! ## `get_ravelled_pytree_constructor` -/

mutual
/-- `ravel_pytree(params)[0]` -/
def ravel : Tree α → List α
  | .none => []
  | .arr _ _ a => a.flat
  | .static _ => []
  | .node cs => ravelL cs
  | .wrap _ _ _ cs => ravelL cs
def ravelL : List (Tree α) → List α
  | [] => []
  | c :: cs => ravel c ++ ravelL cs
end

mutual
/-- `unravel`: refill the array leaves of the template from the front of `v`, returning the rest -/
def unravel : Tree α → List α → Tree α × List α
  | .none, v => (.none, v)
  | .arr id ix a, v => let r := a.unflat v; (.arr id ix r.1, r.2)
  | .static id, v => (.static id, v)
  | .node cs, v => let r := unravelL cs v; (.node r.1, r.2)
  | .wrap k t b cs, v => let r := unravelL cs v; (.wrap k t b r.1, r.2)
def unravelL : List (Tree α) → List α → List (Tree α) × List α
  | [], v => ([], v)
  | c :: cs, v =>
      let r := unravel c v
      let rs := unravelL cs r.2
      (r.1 :: rs.1, rs.2)
end

/-- `num_params = len(init)` -/
def numParams (t : Tree α) : Nat := (ravel (partP t)).length

/-- `constructor(v) = combine(unravel(v + init), static)`; the real `unravel` raises unless `v + init`
has exactly `num_params` entries — the guard here. -/
def constructor (add : α → α → α) (t : Tree α) (v : List α) : Option (Tree α) :=
  if v.length = numParams t then
    some (combine (unravel (partP t) (List.zipWith add v (ravel (partP t)))).1 (partS t))
  else Option.none

end PyTree
