import Flowjaxv.Gen.ArrCombinators
/-!
# Packaging the GENERATED array combinators as `Bij` records (hand-written glue, Mathlib-free, executable)

The four fields are exactly the four generated methods of the class (`Gen/ArrCombinators.lean`); nothing is
recomputed here.  `SBij.ofBij` attaches a declared shape / cond_shape to a record of methods.
-/
open Gen

/-- attach the declared `shape` and `cond_shape` to a record of methods -/
def SBij.ofBij {X C L : Type} (b : Bij X C L) (shape : List Nat) (cond : Option (List Nat)) : SBij X C L :=
  { b with shape := shape, cond_shape := cond }

section
variable {κ C C' α : Type} [Add α] [OfNat α 0] [Inhabited κ]

def Gen.Concatenate.toBij (p : Concatenate κ C α) : Bij (Arr κ) C α :=
  ⟨p.transform, p.inverse, p.transform_and_log_det, p.inverse_and_log_det⟩
def Gen.Stack.toBij (p : Stack κ C α) : Bij (Arr κ) C α :=
  ⟨p.transform, p.inverse, p.transform_and_log_det, p.inverse_and_log_det⟩
def Gen.Partial.toBij (p : Partial κ C α) : Bij (Arr κ) C α :=
  ⟨p.transform, p.inverse, p.transform_and_log_det, p.inverse_and_log_det⟩
def Gen.Reshape.toBij (p : Reshape κ α) : Bij (Arr κ) (Arr κ) α :=
  ⟨p.transform, p.inverse, p.transform_and_log_det, p.inverse_and_log_det⟩
def Gen.EmbedCondition.toBij (p : EmbedCondition κ C C' α) : Bij (Arr κ) C' α :=
  ⟨p.transform, p.inverse, p.transform_and_log_det, p.inverse_and_log_det⟩
end
