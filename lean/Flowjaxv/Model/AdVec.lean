import Flowjaxv.Model.Ad
/-!
# Vectors of reverse-mode expressions (Mathlib-free)

A 1-d array of statically known length `d` in a kernel is a Lean list of `d` scalar expressions; the array operations the
generated vector kernels use (`Gen/VecAst.lean`) are the combinators below.  `d` is an arbitrary natural number: the
theorems about these kernels hold for every dimension.
-/
namespace Ad.Vec
variable {N : Type} [Num N]

/-- the vector parameter `vec` of length `d`, element by element -/
def ofVec (vec d : Nat) : List (Expr N) := (List.range d).map (fun (i : Nat) => Expr.get vec (fun _ => Int.ofNat i))

/-- elementwise binary operation of two arrays of the same length -/
def zip (op : Expr N → Expr N → Expr N) (a b : List (Expr N)) : List (Expr N) := List.zipWith op a b
/-- array ∘ scalar (broadcast on the right) -/
def mapR (op : Expr N → Expr N → Expr N) (a : List (Expr N)) (s : Expr N) : List (Expr N) := a.map (fun e => op e s)
/-- scalar ∘ array (broadcast on the left) -/
def mapL (op : Expr N → Expr N → Expr N) (s : Expr N) (b : List (Expr N)) : List (Expr N) := b.map (fun e => op s e)
def mapE (f : Expr N → Expr N) (a : List (Expr N)) : List (Expr N) := a.map f

/-- `jnp.sum` of a 1-d array (`0` for the empty array) -/
def sum : List (Expr N) → Expr N
  | [] => Expr.const (Num.ofInt 0)
  | e :: es => es.foldl Expr.add e

/-- `a @ b` of two 1-d arrays -/
def dot (a b : List (Expr N)) : Expr N := sum (zip Expr.mul a b)

/-- `jnp.linalg.norm` of a 1-d array: `sqrt(sum(x * x))` -/
def norm (a : List (Expr N)) : Expr N := Expr.prim Prim.sqrt (dot a a)

/-- `jnp.max(a, initial=-inf)` (used only under `stop_gradient`) -/
def maxE (a : List (Expr N)) : Expr N := a.foldl Expr.max (Expr.const (-Num.inf))

/-- `jnp.isfinite` -/
def isFiniteB (v : N) : Bool := Num.lt (-Num.inf) v && Num.lt v Num.inf

/-- `jax.scipy.special.logsumexp(a)` of a 1-d array (`axis=None, b=None, where=None, return_sign=False`), transcribed from
`jax/_src/ops/special.py`:
`amax = stop_gradient(select(isfinite(max a), max a, 0)); out = log(abs(sum(exp(a - amax)))) + amax` -/
def logsumexp (a : List (Expr N)) : Expr N :=
  let amax : Expr N := Expr.stopGrad (Expr.sel (fun env => isFiniteB ((maxE a).eval env)) (maxE a) (Expr.const (Num.ofInt 0)))
  Expr.add (Expr.prim Prim.log (Expr.prim Prim.abs (sum (a.map (fun e => Expr.prim Prim.exp (Expr.sub e amax)))))) amax

/-- `jax.nn.log_softmax(x)` of a 1-d array (`where=None`), transcribed from `jax/_src/nn/functions.py`:
`shifted = x - stop_gradient(max x); result = shifted - log(sum(exp(shifted)))` -/
def logSoftmax (x : List (Expr N)) : List (Expr N) :=
  let xmax : Expr N := Expr.stopGrad (maxE x)
  let shifted := x.map (fun e => Expr.sub e xmax)
  let lse := Expr.prim Prim.log (sum (shifted.map (fun e => Expr.prim Prim.exp e)))
  shifted.map (fun e => Expr.sub e lse)

/-! ### array operations of the spline parameterisation (`_real_to_increasing_on_interval`) -/

/-- `jax.nn.softmax(x)` of a 1-d array (`axis=-1, where=None`).  The installed JAX has `jax_softmax_custom_jvp = False`, so
`softmax` is `jax/_src/nn/functions.py::_softmax_deprecated`, transcribed here:
`unnormalized = exp(x - stop_gradient(max x)); unnormalized / sum(unnormalized)` -/
def softmax (x : List (Expr N)) : List (Expr N) :=
  let xmax : Expr N := Expr.stopGrad (maxE x)
  let un := x.map (fun e => Expr.prim Prim.exp (Expr.sub e xmax))
  un.map (fun e => Expr.div e (sum un))

/-- `a.size` of a 1-d array (a static integer, used as a number) -/
def sizeE (a : List (Expr N)) : Expr N := Expr.const (Num.ofInt (Int.ofNat a.length))
/-- `a[i]` for a static index `0 ≤ i` -/
def getAt (a : List (Expr N)) (i : Nat) : Expr N := a.getD i (Expr.const (Num.ofInt 0))
/-- `a.at[i].set(v)` for a static index `0 ≤ i` (an out-of-range update is dropped, as in JAX) -/
def setAt (a : List (Expr N)) (i : Nat) (v : Expr N) : List (Expr N) := a.set i v

def cumsumFrom (acc : Expr N) : List (Expr N) → List (Expr N)
  | [] => []
  | e :: es => Expr.add acc e :: cumsumFrom (Expr.add acc e) es
/-- `jnp.cumsum(a)` of a 1-d array: the prefix sums (a linear map; its transpose, the reversed cumulative sum of the
cotangents, is what adding up the adjoints of the prefix-sum expressions gives) -/
def cumsum (a : List (Expr N)) : List (Expr N) := cumsumFrom (Expr.const (Num.ofInt 0)) a

/-- `jnp.pad(a, pad_width=1, constant_values=(lo, hi))` of a 1-d array -/
def pad1 (a : List (Expr N)) (lo hi : Expr N) : List (Expr N) := lo :: (a ++ [hi])

end Ad.Vec

/-! ### square matrices of expressions (`TriangularAffine`) -/
namespace Ad.Mat
variable {N : Type} [Num N]

/-- entry `(i, j)` (the constant 0 outside the shape) -/
def entry (m : List (List (Expr N))) (i j : Nat) : Expr N := (m.getD i []).getD j (Expr.const (Num.ofInt 0))
def ofFn (n : Nat) (f : Nat → Nat → Expr N) : List (List (Expr N)) := (List.range n).map (fun i => (List.range n).map (fun j => f i j))
/-- the `n × n` matrix stored row-major in vector parameter `vec` -/
def ofVec (vec n : Nat) : List (List (Expr N)) := ofFn n (fun i j => Expr.get vec (fun _ => Int.ofNat (i * n + j)))

/-- `jnp.diag(d)` of a 1-d array: the diagonal matrix (zeros are constants) -/
def diagM (d : List (Expr N)) : List (List (Expr N)) := ofFn d.length (fun i j => if i = j then Vec.getAt d i else Expr.const (Num.ofInt 0))
/-- `jnp.diag(m)` of a square matrix -/
def diag (m : List (List (Expr N))) : List (Expr N) := (List.range m.length).map (fun i => entry m i i)
/-- `jnp.tril(m, k)`: `where(j ≤ i + k, m, 0)` with a static mask -/
def tril (m : List (List (Expr N))) (k : Int) : List (List (Expr N)) :=
  ofFn m.length (fun i j => if (Int.ofNat j) ≤ (Int.ofNat i) + k then entry m i j else Expr.const (Num.ofInt 0))
def add (a b : List (List (Expr N))) : List (List (Expr N)) := ofFn a.length (fun i j => Expr.add (entry a i j) (entry b i j))
/-- `m @ x` -/
def mulVec (m : List (List (Expr N))) (x : List (Expr N)) : List (Expr N) := m.map (fun row => Vec.dot row x)

def solveLowerGo (m : List (List (Expr N))) (b : List (Expr N)) : Nat → List (Expr N) → List (Expr N)
  | 0, acc => acc
  | k + 1, acc =>
      let i := acc.length
      solveLowerGo m b k (acc ++ [Expr.div (Expr.sub (Vec.getAt b i) (Vec.dot ((List.range i).map (fun j => entry m i j)) acc)) (entry m i i)])
/-- `jax.scipy.linalg.solve_triangular(m, b, lower=True)` by its definition, forward substitution:
`x_i = (b_i - Σ_{j<i} m_ij x_j) / m_ii` (entries above the diagonal are not read).  JAX's transpose rule is another triangular
solve with the same diagonal; the two agree in exact arithmetic and the correspondence checks them numerically. -/
def solveLower (m : List (List (Expr N))) (b : List (Expr N)) : List (Expr N) := solveLowerGo m b m.length []

end Ad.Mat

