import Flowjaxv.Gen.LeavesAst
import Flowjaxv.Gen.DistAst
/-!
# The provided parametric families as reverse-mode ASTs, wired exactly as their constructors wire them (C18)

Hand-written glue, Mathlib-free and executable; every numeric piece is a GENERATED AST:

* the base log-densities are `GenAst.Standard….log_prob.ast` (which call the generated bodies of
  `jax.scipy.stats.*.logpdf`, `Gen/DistAst.lean`),
* the bijections are the generated `Affine` / `Scale` / `Exp` kernels (`Gen/LeavesAst.lean`); a parameter stored as
  `BijectionReparam(value, SoftPlus())` is the generated `SoftPlus.transform` of its RAW trainable leaf (`unwrap`),
* the density is the generated `AbstractTransformed._log_prob`, the public value the generated last line of
  `AbstractDistribution.log_prob` (`where(isnan(lps), -inf, lps)`).

What is hand-written (and therefore tied by the correspondence in `tools/props/c18.py` against
`jax.value_and_grad` of the real `log_prob` w.r.t. the input and every trainable leaf) is only *which* pieces each
constructor plugs together, and `Chain.inverse_and_log_det`'s loop.

Variable ids: 0 = the input `x`; trainable leaves 11 = `bijection.loc`, 12 = raw scale (`bijection.scale.arr`),
13 = raw degrees of freedom (`base_dist.df.arr`).  The generated kernels' own field ids (Affine: loc 1, scale 2;
Scale: scale 1) are let-bound to these.
-/
namespace AdFam
open Ad GenAst
variable {N : Type} [Num N]

def xVar : Expr N := Expr.var 0
def locLeaf : Expr N := Expr.var 11
def rawScaleLeaf : Expr N := Expr.var 12
def rawDfLeaf : Expr N := Expr.var 13

/-- `BijectionReparam(·, SoftPlus()).unwrap()` = `SoftPlus.transform(arr)` -/
def unwrapSoftplus (raw : Expr N) : Expr N := SoftPlus.transform.ast raw

/-- bind the field ids `loc = 1`, `scale = 2` of the generated `Affine` kernels -/
def withAffine (loc scale e : Expr N) : Expr N := Expr.letE 1 loc (Expr.letE 2 scale e)
/-- `Affine(loc, scale).inverse_and_log_det` -/
def affineIld (loc scale y : Expr N) : Expr N × Expr N :=
  (withAffine loc scale (Affine.inverse_and_log_det.ast y).1, withAffine loc scale (Affine.inverse_and_log_det.ast y).2)

/-- bind the field id `scale = 1` of the generated `Scale` kernels -/
def scaleIld (scale y : Expr N) : Expr N × Expr N :=
  (Expr.letE 1 scale (Scale.inverse_and_log_det.ast y).1, Expr.letE 1 scale (Scale.inverse_and_log_det.ast y).2)

/-- `Chain.inverse_and_log_det`: `ld = 0; for b in reversed(bijections): y, ld_i = b.inverse_and_log_det(y); ld += ld_i` -/
def chainIld (bs : List (Expr N → Expr N × Expr N)) (y : Expr N) : Expr N × Expr N :=
  bs.reverse.foldl (fun acc b => ((b acc.1).1, Expr.add acc.2 (b acc.1).2)) (y, Expr.const (Num.ofInt 0))

/-- `AbstractLocScaleDistribution`: `Transformed(base, Affine(loc, scale))`, private `_log_prob` -/
def locScale (base : Expr N → Expr N) (x : Expr N) : Expr N :=
  AbstractTransformed.log_prob.ast (affineIld locLeaf (unwrapSoftplus rawScaleLeaf)) base x

def normal (x : Expr N) : Expr N := locScale StandardNormal.log_prob.ast x
/-- `Uniform(minval, maxval)`: `Affine(loc = minval, scale = maxval − minval)` over U[0,1] (leaves: loc, raw scale) -/
def uniform (x : Expr N) : Expr N := locScale StandardUniform.log_prob.ast x
def gumbel (x : Expr N) : Expr N := locScale StandardGumbel.log_prob.ast x
def cauchy (x : Expr N) : Expr N := locScale StandardCauchy.log_prob.ast x
def laplace (x : Expr N) : Expr N := locScale StandardLaplace.log_prob.ast x
def logistic (x : Expr N) : Expr N := locScale StandardLogistic.log_prob.ast x
/-- `StudentT(df, loc, scale)`: the base holds `df = BijectionReparam(df, SoftPlus())` -/
def studentT (x : Expr N) : Expr N := locScale (StandardStudentT.log_prob.ast (unwrapSoftplus rawDfLeaf)) x
/-- `Exponential(rate)`: `Scale(1 / rate)` over the standard exponential (leaf: raw scale) -/
def exponential (x : Expr N) : Expr N :=
  AbstractTransformed.log_prob.ast (scaleIld (unwrapSoftplus rawScaleLeaf)) StandardExponential.log_prob.ast x
/-- `LogNormal(loc, scale)`: `Chain([Affine(loc, scale), Exp()])` over a standard normal -/
def logNormal (x : Expr N) : Expr N :=
  AbstractTransformed.log_prob.ast
    (chainIld [affineIld locLeaf (unwrapSoftplus rawScaleLeaf), Exp.inverse_and_log_det.ast]) StandardNormal.log_prob.ast x

/-- the public `log_prob` of a scalar distribution whose private `_log_prob` is `lp` -/
def pub (lp : Expr N) : Expr N := AbstractDistribution.log_prob_post.ast lp

/-- family table used by the driver and by the statements -/
def family : String → Option (Expr N → Expr N)
  | "Normal" => some normal | "Uniform" => some uniform | "Gumbel" => some gumbel | "Cauchy" => some cauchy
  | "Laplace" => some laplace | "Logistic" => some logistic | "StudentT" => some studentT
  | "Exponential" => some exponential | "LogNormal" => some logNormal
  | "StandardNormal" => some StandardNormal.log_prob.ast | "StandardUniform" => some StandardUniform.log_prob.ast
  | "StandardGumbel" => some StandardGumbel.log_prob.ast | "StandardCauchy" => some StandardCauchy.log_prob.ast
  | "StandardLaplace" => some StandardLaplace.log_prob.ast | "StandardLogistic" => some StandardLogistic.log_prob.ast
  | "StandardExponential" => some StandardExponential.log_prob.ast
  | "StandardStudentT" => some (StandardStudentT.log_prob.ast (unwrapSoftplus rawDfLeaf))
  | _ => none

end AdFam
