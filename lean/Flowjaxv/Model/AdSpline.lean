import Flowjaxv.Model.AdNet
import Flowjaxv.Gen.SplineAst
/-!
# Kernels whose VECTOR parameters are computed: coupling / masked-autoregressive layers with the rational-quadratic-spline
transformer (hand wiring, Mathlib-free, executable)

The generated spline kernels (`Gen/LeavesAst.lean`) read their knots from the vector parameters 0, 1, 2 of the environment
(`x_pos`, `y_pos`, `derivatives`, indexed at a data-dependent bin).  In a coupling layer those arrays are not leaves: they
are `unwrap` of `Lambda(_real_to_increasing_on_interval, raw)` / `Lambda(softplus + min_derivative, raw)` applied to the
conditioner's outputs.  `VExpr` is the thin layer that expresses this: a kernel under a telescope of bindings of scalars and
of whole vectors to expressions, with the reverse-mode rule of each binding (the cotangent a kernel leaves on element `p` of
a bound vector — JAX: the scatter-add transposing the gather `x_pos[k]` — flows into the `p`-th defining expression).

Everything numeric is GENERATED: the spline kernels, `RealToIncreasingOnInterval.ast`,
`RationalQuadraticSpline.derivatives_param.ast` (`Gen/SplineAst.lean`).  Hand-written (tied by the correspondence of
`tools/props/c18.py` against `jax.grad`/`jacrev` of the real `Coupling` / `MaskedAutoregressive` objects): which conditioner
output goes where (`ravel_pytree` order `x_pos.arr, y_pos.arr, derivatives.arr`, `ravelled + init`), `Vmap`'s sum of
log-dets, the scan of `MaskedAutoregressive.inverse`.
-/
namespace Ad

inductive VExpr (N : Type) where
  | base (e : Expr N)
  | add (a b : VExpr N)
  /-- `let i := v; body` for a scalar -/
  | letS (i : Nat) (v body : VExpr N)
  /-- inside `body` the vector parameter `vec` is the array of the values of `defs` (evaluated OUTSIDE the binding) -/
  | bindV (vec : Nat) (defs : List (Expr N)) (body : VExpr N)

variable {N : Type} [Num N]

def Env.setV (env : Env N) (vec : Nat) (xs : List N) : Env N :=
  { env with v := fun j => if j = vec then xs else env.v j }

def Key.isVec (vec : Nat) : Key → Bool
  | .v j _ => j == vec
  | .s _ => false

def VExpr.eval (env : Env N) : VExpr N → N
  | .base e => e.eval env
  | .add a b => a.eval env + b.eval env
  | .letS i v body => body.eval (env.set i (v.eval env))
  | .bindV vec defs body => body.eval (env.setV vec (defs.map (fun d => d.eval env)))

def VExpr.vjp (env : Env N) : VExpr N → N → Grad N
  | .base e, ct => e.vjp env ct
  | .add a b, ct => a.vjp env ct ++ b.vjp env ct
  | .letS i v body, ct =>
      let gb := body.vjp (env.set i (v.eval env)) ct
      (gb.filter (fun kv => kv.1 ≠ Key.s i)) ++ v.vjp env (Grad.total gb (Key.s i))
  | .bindV vec defs body, ct =>
      let gb := body.vjp (env.setV vec (defs.map (fun d => d.eval env))) ct
      (gb.filter (fun kv => !Key.isVec vec kv.1)) ++
        (defs.zipIdx.flatMap (fun dp => dp.1.vjp env (Grad.total gb (Key.v vec dp.2))))

/-- `let i₁ := v₁; …; body` -/
def VExpr.letAll : List (Nat × Expr N) → VExpr N → VExpr N
  | [], body => body
  | (i, v) :: rest, body => .letS i (.base v) (VExpr.letAll rest body)

/-- `jnp.sum` of the per-dimension log-dets (`Vmap`) -/
def VExpr.sum : List (VExpr N) → VExpr N
  | [] => .base (Expr.const (Num.ofInt 0))
  | e :: es => es.foldl VExpr.add e

namespace Net
open GenAst

/-- static configuration of `RationalQuadraticSpline(knots=K, interval=(lo, hi), min_derivative=md, softmax_adjust=adj)` and
the ravelled raw leaves `init` of the transformer handed to the layer (`get_ravelled_pytree_constructor`: `3K + 2` numbers; for a
freshly constructed spline `0` for the knot leaves and `log(exp(1 - md) - 1)` for the derivative leaves) -/
structure SplineCfg (N : Type) where
  K : Nat
  lo : N
  hi : N
  adj : N
  md : N
  init : List N

/-- first scalar id of the conditioner outputs of one dimension (above every let-id of the generated ASTs, for every number of knots) -/
def pBase : Nat := 1000000

/-- the transformer of one dimension built by `transformer_constructor(params)`: `ravelled + init` unravelled in the leaf order
`x_pos.arr (K), y_pos.arr (K), derivatives.arr (K + 2)`, each `Lambda` unwrapped, the kernel run on `xi`.
`kernel` is a generated spline AST over the input variable 0, the interval variables 1, 2 and the vectors 0, 1, 2. -/
def splineDim (c : SplineCfg N) (ps : List (Expr N)) (xi : Expr N) (kernel : Expr N) : VExpr N :=
  let P := 3 * c.K + 2
  let k (v : N) : Expr N := Expr.const v
  let raw (j : Nat) : Expr N := Expr.add (Expr.var (pBase + j)) (k (c.init.getD j (Num.ofInt 0)))
  let xraw := (List.range c.K).map (fun j => raw j)
  let yraw := (List.range c.K).map (fun j => raw (c.K + j))
  let draw := (List.range (c.K + 2)).map (fun j => raw (2 * c.K + j))
  VExpr.letAll ((List.range P).map (fun j => (pBase + j, ps.getD j (k (Num.ofInt 0)))))
    (VExpr.letS 0 (.base xi)
      (VExpr.bindV 0 (RealToIncreasingOnInterval.ast xraw (k c.lo) (k c.hi) (k c.adj))
        (VExpr.bindV 1 (RealToIncreasingOnInterval.ast yraw (k c.lo) (k c.hi) (k c.adj))
          (VExpr.bindV 2 (RationalQuadraticSpline.derivatives_param.ast (k c.md) draw)
            (.base (Expr.letE 1 (k c.lo) (Expr.letE 2 (k c.hi) kernel)))))))

def splineTld (c : SplineCfg N) (ps : List (Expr N)) (xi : Expr N) : VExpr N × VExpr N :=
  (splineDim c ps xi (RationalQuadraticSpline.transform_and_log_det.ast (Expr.var 0)).1,
   splineDim c ps xi (RationalQuadraticSpline.transform_and_log_det.ast (Expr.var 0)).2)

def splineIld (c : SplineCfg N) (ps : List (Expr N)) (yi : Expr N) : VExpr N × VExpr N :=
  (splineDim c ps yi (RationalQuadraticSpline.inverse_and_log_det.ast (Expr.var 0)).1,
   splineDim c ps yi (RationalQuadraticSpline.inverse_and_log_det.ast (Expr.var 0)).2)

/-- `_flat_params_to_transformer(params)`: `params` reshaped to `(dim, P)`, dimension `i` gets `params[i*P : (i+1)*P]` -/
def partsV (P : Nat) (tf : List (Expr N) → Expr N → VExpr N × VExpr N) (params xs : List (Expr N)) : List (VExpr N × VExpr N) :=
  xs.zipIdx.map (fun (xi : Expr N × Nat) => tf ((params.drop (xi.2 * P)).take P) xi.1)

/-- `Coupling.transform_and_log_det` / `inverse_and_log_det` with a vector-parameter transformer; `cond` is the conditioning
array (`[]` when `cond_dim=None`): `nn_input = hstack((x_cond, condition))` -/
def couplingV (u P : Nat) (net : List (Expr N) → List (Expr N)) (tf : List (Expr N) → Expr N → VExpr N × VExpr N)
    (x cond : List (Expr N)) : List (VExpr N) × VExpr N :=
  let ps := partsV P tf (net (x.take u ++ cond)) (x.drop u)
  ((x.take u).map VExpr.base ++ ps.map Prod.fst, VExpr.sum (ps.map Prod.snd))

/-- `MaskedAutoregressive.transform_and_log_det`: `nn_input = hstack((x, condition))`, every dimension transformed -/
def autoregV (P : Nat) (net : List (Expr N) → List (Expr N)) (tf : List (Expr N) → Expr N → VExpr N × VExpr N)
    (x cond : List (Expr N)) : List (VExpr N) × VExpr N :=
  let ps := partsV P tf (net (x ++ cond)) x
  (ps.map Prod.fst, VExpr.sum (ps.map Prod.snd))

end Net
end Ad
