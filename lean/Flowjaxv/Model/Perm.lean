/-!
# `Permute` (hand model, Mathlib-free): flat row-major semantics

`Permute(permutation)` stores `unravel_index(permutation.ravel())` and indexes with it, i.e. on the
flattened array `y[i] = x[perm[i]]`; the inverse uses `argsort(perm.ravel())`.
-/
namespace PermModel

/-- `x[self.permutation]`, flattened -/
def fwd {α : Type} [Inhabited α] (perm : List Nat) (xs : List α) : List α :=
  perm.map (fun i => xs.getD i default)

/-- `jnp.argsort(perm)` for a permutation of `0..n-1`: position of `j` in `perm`, for `j = 0..n-1` -/
def argsort (perm : List Nat) : List Nat :=
  (List.range perm.length).map (fun j => perm.idxOf j)

/-- `y[self.inverse_permutation]`, flattened -/
def inv {α : Type} [Inhabited α] (perm : List Nat) (ys : List α) : List α :=
  fwd (argsort perm) ys

/-- the constructor's validity test: `sort(perm) == arange(size)` -/
def valid (perm : List Nat) : Bool :=
  (perm.mergeSort (· ≤ ·)) == List.range perm.length

end PermModel
