import Flowjaxv.Model.UnwrapWorld
import Flowjaxv.Gen.UnwrapGen
/-!
# The recursion `unwrap` → `recursive_unwrap` → `unwrap` of the GENERATED traversal, tied by fuel

`Gen/UnwrapGen.lean` (regenerated from `/repo/flowjax/wrappers.py` on every run) has the module-level name `unwrap` open inside
`recursive_unwrap` (`W.unwrapRec`).  Python binds it to `unwrap` itself; here that binding is unrolled `n` times (`unwrapFuel`), and
`genUnwrap` runs it with as much fuel as the tree has nested wrapper levels.  `Proofs/UnwrapGen.lean` proves that EVERY fuel `≥ wdepth t`
gives the same tree (`genUnwrap_fuel_stable`) — the value the terminating Python recursion computes — and that it is the hand
model's `PyTree.unwrap`.  Mathlib-free, executable (driver op `pytree gunwrap`).
-/
namespace PyTree
open UnwrapW
variable {α : Type}

mutual
/-- number of wrapper nodes on the deepest path -/
def wdepth : Tree α → Nat
  | .none => 0
  | .arr _ _ _ => 0
  | .static _ => 0
  | .node cs => wdepthL cs
  | .wrap _ _ _ cs => wdepthL cs + 1
def wdepthL : List (Tree α) → Nat
  | [] => 0
  | c :: cs => max (wdepth c) (wdepthL cs)
end

/-- the generated `unwrap` with the recursive call unrolled `n` times (at fuel 0 the recursive call returns its argument) -/
def unwrapFuel (f : WrapFn α) : Nat → Tree α → Tree α
  | 0 => fun t => t
  | n + 1 => GenUnwrap.unwrap ⟨f, unwrapFuel f n⟩

/-- the generated `unwrap(tree)` -/
def genUnwrap (f : WrapFn α) (t : Tree α) : Tree α := unwrapFuel f (wdepth t) t

/-- the generated `x.recursive_unwrap()` -/
def genRecursiveUnwrap (f : WrapFn α) (t : Tree α) : Tree α := GenUnwrap.recursiveUnwrap ⟨f, unwrapFuel f (wdepth t)⟩ t

mutual
/-- hand model of `non_trainable`: every inexact array that is not already under a `NonTrainable` gets its own `NonTrainable` -/
def nonTrainableT : Tree α → Tree α
  | .none => .none
  | .arr id ix a => if ix then .wrap .nonTrainable id [] [.arr id ix a] else .arr id ix a
  | .static id => .static id
  | .node cs => .node (nonTrainableTL cs)
  | .wrap k tag b cs =>
      match k with
      | .nonTrainable => .wrap k tag b cs
      | _ => .wrap k tag b (nonTrainableTL cs)
def nonTrainableTL : List (Tree α) → List (Tree α)
  | [] => []
  | c :: cs => nonTrainableT c :: nonTrainableTL cs
end

end PyTree
