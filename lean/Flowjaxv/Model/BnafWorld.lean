import Flowjaxv.Prelude.JnpExt
import Flowjaxv.Gen.Bnaf
import Flowjaxv.Gen.MasksGen
import Flowjaxv.Gen.Wrappers
import Flowjaxv.Gen.Leaves
/-!
# Primitives the GENERATED `BlockAutoregressiveNetwork` (`Gen/BnafGen.lean`) is written in

Core Lean only, executable.  `tools/py2lean/py2meth.py` translates
`flowjax/bijections/block_autoregressive_network.py` statement by statement (typing sheet `tools/py2lean/targets_bnafnet.py`);
every library call it meets is mapped to one of the functions below.  This file is the hand-written part of that tie: the
*meaning of the library calls and of the Equinox objects* — nothing about the network itself.

* a 1-d array is a `List α`, a matrix the list of its rows, a 3-d array `(n, r, c)` a list of `n` matrices; log-domain arrays
  have entries `Jnp.Ext α = Option α` (`none = -inf`, `Prelude/JnpExt.lean`);
* `eqx.nn.Linear.__call__(x) = weight @ x + bias` (`Linear.call`); `use_bias=False` gives `weight @ x` (`CondLinear.call`);
  the methods of a bijection see `unwrap(self)` (`_unwrap_check_and_cast`), so inside a method `layer.weight` is a plain matrix;
* the entries of `self.layers` are pairs `(linear, log_jacobian_fn)`, the second a function value;
* the scalar activation is the record `ActBij` of the two methods the network calls; `eqx.filter_vmap(f)(x)` of a 1-d array
  is `List.map f x` (pairs unzipped);
* `inverter(self, y, condition)` is an ARBITRARY function of `(y, condition)` (it has closed over the bijection);
* `jnp.full(shape, -jnp.inf)`, `a.at[:, I, J].set(v)` (NumPy advanced indexing: entry `(k, I[t], J[t]) := v[k][t]`),
  `v.reshape(n, m)`, `v.reshape(n, r, c)`, `jnp.where(mask, size=…)` (row-major positions of the `True`s, padded with index 0 /
  truncated to `size`), `W[idxs]` for such an index pair list, `jnp.log` into the log domain, `.sum()`;
* `logmatmulexp` on 3-d arrays is the GENERATED 2-d kernel `Gen.logmatmulexp` applied per leading index (`amax` over the last two axes, `matmul`
  and the broadcasts all act per leading index);
* the weight nest `block_autoregressive_linear` builds is the inductive `WNest`; its `unwrap` (bottom-up, as
  `flowjax.wrappers.unwrap`) evaluates every node with the GENERATED `.unwrap()` body of `Gen/Wrappers.lean`;
* `eqx.nn.Linear(in, out, key=key)` allocates arrays whose VALUES are the world's (`World.linearInit`); the raw scale leaf a
  `WeightNormalization` node holds is the world's too (`World.wnScaleRaw`) — a trained object has the same tree with arbitrary
  leaves, so quantifying over worlds quantifies over all weights (the initial values `WeightNormalization.__init__` computes
  are not modelled).
Shape errors JAX would raise (`matmul`, `reshape`, `zip`) are not values: the list functions truncate; the theorems carry the
shape hypotheses (`BnafOK`).  Python-level failures ARE modelled: `assert … is not None` and `[-1]` of an empty list give `none`.
-/
namespace Bw

section
variable {α : Type} [Add α] [Sub α] [Mul α] [Div α] [Neg α] [LT α] [LE α] [BEq α]
  [OfNat α 0] [OfNat α 1] [OfNat α 2] [OfNat α 4] [OfScientific α]
  [DecidableLT α] [DecidableLE α] [Transc α] [Inhabited α]

abbrev Blocks (α : Type) := List (List (List (Jnp.Ext α)))

/-- an (unwrapped) `eqx.nn.Linear` -/
structure Linear (α : Type) where
  weight : List (List α)
  bias : List α

/-- `eqx.nn.Linear.__call__`: `weight @ x + bias` -/
def Linear.call (l : Linear α) (x : List α) : List α :=
  List.zipWith (fun row b => Jnp.dot row x + b) l.weight l.bias

/-- `eqx.nn.Linear(..., use_bias=False)` -/
structure CondLinear (α : Type) where
  weight : List (List α)

/-- `weight @ x` -/
def CondLinear.call (l : CondLinear α) (x : List α) : List α := l.weight.map fun row => Jnp.dot row x

/-- the two methods of the scalar activation bijection the network calls -/
structure ActBij (α : Type) where
  transform : α → α
  transform_and_log_det : α → α × α

/-- `unwrap(self)` of a `BlockAutoregressiveNetwork`, as its methods see it -/
structure Net (α : Type) where
  shape : List Nat
  block_dim : Nat
  layers : List (Linear α × (Linear α → Blocks α))
  cond_linear : Option (CondLinear α)
  activation : ActBij α
  inverter : List α → Option (List α) → List α

/-- `x + y` of two 1-d arrays -/
def addV (x y : List α) : List α := List.zipWith (· + ·) x y

/-- Python `enumerate` -/
def enumerate {β : Type} (xs : List β) : List (Nat × β) := xs.zipIdx.map fun p => (p.2, p.1)

/-- `jnp.full((n, r, c), v)` -/
def full3 (shape : List Nat) (v : Jnp.Ext α) : Blocks α :=
  match shape with
  | [n, r, c] => List.replicate n (List.replicate r (List.replicate c v))
  | _ => []

/-- `jnp.arange(n)` -/
def arange (n : Nat) : List Nat := List.range n

/-- `a.at[:, I, J].set(v)` with `v` of shape `(len a, len I)`: entry `(k, I[t], J[t])` becomes `v[k][t]` -/
def atSet3 (a : Blocks α) (I J : List Nat) (v : List (List α)) : Blocks α :=
  a.mapIdx fun k blk => blk.mapIdx fun r row => row.mapIdx fun c old =>
    match (List.range I.length).find? (fun t => I[t]? == some r && J[t]? == some c) with
    | some t => ((v.getD k []).getD t default : α)
    | none => old

/-- `v.reshape(n, m)` (C order) -/
def reshape2 (v : List α) (n m : Nat) : List (List α) :=
  (List.range n).map fun i => (v.drop (i * m)).take m

/-- `v.reshape(n, r, c)` (C order) -/
def reshape3 (v : List α) (n r c : Nat) : List (List (List α)) :=
  (List.range n).map fun k => (List.range r).map fun i => (v.drop ((k * r + i) * c)).take c

/-- `jnp.where(mask, size=size)` of a 2-d Boolean array: the `(row, col)` positions of the `True`s in row-major order, padded
with index `0` / truncated to `size` entries -/
def whereIdx (mask : List (List Bool)) (size : Nat) : List (Nat × Nat) :=
  let pos := mask.zipIdx.flatMap fun (rowr : List Bool × Nat) =>
    rowr.1.zipIdx.filterMap fun (bc : Bool × Nat) => if bc.1 then some (rowr.2, bc.2) else none
  (pos ++ List.replicate (size - pos.length) (0, 0)).take size

/-- `W[idxs]` for the index pair `idxs = (rows, cols)` -/
def gather2 (W : List (List α)) (idxs : List (Nat × Nat)) : List α :=
  idxs.map fun rc => (W.getD rc.1 []).getD rc.2 default

/-- `jnp.log` of a positive 3-d array, into the log domain -/
def log3 (a : List (List (List α))) : Blocks α := a.map fun m => m.map fun row => row.map Jnp.Ext.log

/-- `logmatmulexp(x, y)` on 3-d arrays: the generated 2-d kernel per leading index -/
def logmatmulexp3 (x y : Blocks α) : Blocks α := List.zipWith Gen.logmatmulexp x y

/-- `a.sum()` over every entry -/
def sumAll (b : Blocks α) : Jnp.Ext α := (b.flatten.flatten).foldl Jnp.Ext.add (some 0)

/-! ### `_CallableToBijection` -/

/-- a differentiable scalar callable: its value and its derivative (`jax.grad` is not translated: the derivative is a parameter) -/
structure DFn (α : Type) where
  f : α → α
  grad : α → α

/-- `eqx.filter_value_and_grad(fn)` -/
def valueAndGrad (fn : DFn α) : α → α × α := fun x => (fn.f x, fn.grad x)

structure CallableBij (α : Type) where
  fn : DFn α

/-! ### the weight nest of `block_autoregressive_linear` -/

/-- `SoftPlus()` as the bijection record `BijectionReparam` stores: the generated methods of `Gen/Leaves.lean` -/
def softplusBij : Bij α Unit α where
  fwd x _ := Gen.SoftPlus.transform ⟨⟩ x
  inv y _ := Gen.SoftPlus.inverse ⟨⟩ y
  fwdLd x _ := Gen.SoftPlus.transform_and_log_det ⟨⟩ x
  invLd y _ := Gen.SoftPlus.inverse_and_log_det ⟨⟩ y

/-- the wrappers `block_autoregressive_linear` nests around `linear.weight` -/
inductive WNest (α : Type) where
  | raw (w : List (List α))
  /-- `Where(cond, t, 0)` -/
  | whereZ (cond : List (List Bool)) (t : WNest α) (v : α)
  /-- `Where(cond, t, f)`, `f` shaped like `t` -/
  | whereN (cond : List (List Bool)) (t f : WNest α)
  /-- `BijectionReparam(t, bijection, invert_on_init=False)` -/
  | reparam (t : WNest α) (b : Bij α Unit α)
  /-- `WeightNormalization(t)` holding the raw (pre-softplus) scale leaf `scaleRaw` (one per row, `keepdims`) -/
  | weightNorm (t : WNest α) (scaleRaw : List α)

/-- `flowjax.wrappers.unwrap` on the nest: children first, every node by its GENERATED `.unwrap()` body -/
def WNest.unwrap : WNest α → List (List α)
  | .raw w => w
  | .whereZ c t v => (⟨c, t.unwrap, v⟩ : Gen.Wr.WhereMat α).unwrap
  | .whereN c t f =>
      List.zipWith (fun crow (tf : List α × List α) =>
          List.zipWith (fun (cb : Bool) (p : α × α) => (⟨cb, p.1, p.2⟩ : Gen.Wr.Where α).unwrap) crow (List.zip tf.1 tf.2))
        c (List.zip t.unwrap f.unwrap)
  | .reparam t b => t.unwrap.map fun row => row.map fun a => (⟨a, b⟩ : Gen.Wr.BijectionReparam α α).unwrap
  | .weightNorm t s =>
      (⟨t.unwrap, s.map fun a => (⟨a, softplusBij⟩ : Gen.Wr.BijectionReparam α α).unwrap⟩ : Gen.Wr.WeightNormalization α).unwrap

/-- an `eqx.nn.Linear` whose `weight` is a nest of wrappers -/
structure LinearW (α : Type) where
  weight : WNest α
  bias : List α

/-- `unwrap(linear)` -/
def LinearW.unwrap (l : LinearW α) : Linear α := ⟨l.weight.unwrap, l.bias⟩

/-- the array VALUES Equinox allocates -/
structure World (K α : Type) where
  /-- `eqx.nn.Linear(in_features, out_features, key=key)` -/
  linearInit : K → Nat → Nat → Linear α
  /-- the raw scale leaf of the `WeightNormalization` node around a weight -/
  wnScaleRaw : WNest α → List α

end
end Bw
