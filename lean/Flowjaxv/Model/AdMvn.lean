import Flowjaxv.Model.AdVec
import Flowjaxv.Gen.LeavesAst
import Flowjaxv.Gen.DistAst
import Flowjaxv.Gen.TriAst
/-!
# `MultivariateNormal` = `Transformed(StandardNormal((n,)), TriangularAffine(loc, cholesky))` as a reverse-mode AST (hand wiring)

Generated: `TriangularAffine.to_triangular / inverse_and_log_det / transform_and_log_det` (`Gen/TriAst.lean`), `SoftPlus.transform`
(`Gen/LeavesAst.lean`: the diagonal is `BijectionReparam(diag, SoftPlus())`), `StandardNormal._log_prob` (`Gen/DistAst.lean`).
Hand-written: which leaf goes where, and `AbstractTransformed._log_prob` for an array event (`base._log_prob(z)` is the `.sum()` of
the per-element terms, plus the log-det).  Vector parameters: 0 = the point, 1 = `bijection.loc`, 2 = the raw diagonal
(`bijection.triangular.diag.arr`), 3 = `bijection.triangular.arr` (n × n row-major; only the strictly lower part is read).
-/
namespace AdMvn
open Ad GenAst
variable {N : Type} [Num N]

/-- `unwrap(self.triangular)`: `_to_triangular(SoftPlus.transform(raw diag), arr)` -/
def triangular (n : Nat) : List (List (Expr N)) :=
  TriangularAffine.to_triangular.ast (Vec.mapE (fun e => SoftPlus.transform.ast e) (Vec.ofVec 2 n)) (Mat.ofVec 3 n)

/-- `TriangularAffine.inverse_and_log_det(x)` / `transform_and_log_det(x)` of the constructed object -/
def ild (n : Nat) : List (Expr N) × Expr N := TriangularAffine.inverse_and_log_det.ast (Vec.ofVec 1 n) (triangular n) (Vec.ofVec 0 n)
def tld (n : Nat) : List (Expr N) × Expr N := TriangularAffine.transform_and_log_det.ast (Vec.ofVec 1 n) (triangular n) (Vec.ofVec 0 n)

/-- `AbstractTransformed._log_prob(x)`: `z, ld = bijection.inverse_and_log_det(x); base._log_prob(z) + ld` -/
def logProb (n : Nat) : Expr N :=
  Expr.add (Vec.sum ((ild n).1.map (fun z => Expr.letE 500000 z (StandardNormal.log_prob.ast (Expr.var 500000))))) (ild n).2

end AdMvn
