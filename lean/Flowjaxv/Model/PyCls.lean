import Flowjaxv.Model.CtorPrims
/-!
# Primitives of the generated argument-checking wrapper (`Gen/WrapperGen.lean`, translator `py2wrap.py`)

Mathlib-free, executable.

* `PyWrap.unwrap` — `flowjax.wrappers.unwrap` on the shape-level record of a bijection (`PyCtor.SB`): the declared `shape` /
  `cond_shape` are static fields no wrapper touches, and the call cannot raise (trusted; the C12 theorems are about `unwrap`).
* `PyCls` — a class body as `AbstractBijection.__init_subclass__` sees it: the class `__dict__` is an association list
  name ↦ object; an object is a plain function, an abstract method (it carries `__isabstractmethod__`), or the closure returned by
  `_unwrap_check_and_cast(f)` — `functools.wraps` copies `f.__dict__`, so the closure has exactly the attributes `f` has.
-/
namespace PyWrap
open PyShape

def unwrap (b : PyCtor.SB) : Except Err PyCtor.SB := .ok b

end PyWrap

namespace PyCls

/-- what a class-body name can be bound to -/
inductive Obj where
  | plain (qualname : String)
  | abstract (qualname : String)
  | wrapped (inner : Obj)
  deriving DecidableEq, Repr

/-- the class `__dict__` -/
abbrev Cls := List (String × Obj)

/-- `hasattr(o, name)` for the one attribute the hook asks about -/
def hasattr : Obj → String → Bool
  | .plain _, _ => false
  | .abstract _, a => a == "__isabstractmethod__"
  | .wrapped o, a => hasattr o a

/-- `_unwrap_check_and_cast(o)` as an object -/
def unwrapCheckAndCast (o : Obj) : Obj := .wrapped o

/-- `cls.__dict__.get(k)` -/
def lookup (cls : Cls) (k : String) : Option Obj := (cls.find? (fun p => p.1 == k)).map (·.2)

/-- `k in cls.__dict__` -/
def inDict (k : String) (cls : Cls) : Bool := (lookup cls k).isSome

/-- `cls.__dict__[k]`; read by the generated hook only under `k in cls.__dict__` (the default stands for the unreachable KeyError) -/
def dictGet (cls : Cls) (k : String) : Obj := (lookup cls k).getD (.plain "")

/-- `setattr(cls, k, v)`: rebinding an existing name keeps its place, a new name is appended -/
def setattr (cls : Cls) (k : String) (v : Obj) : Cls :=
  if inDict k cls then cls.map (fun p => if p.1 == k then (p.1, v) else p) else cls ++ [(k, v)]

/-- was this object produced by `_unwrap_check_and_cast`? -/
def Obj.isWrapped : Obj → Bool
  | .wrapped _ => true
  | _ => false

end PyCls
