import Flowjaxv.Model.CtorPrims
/-!
# Hand models of the remaining shape-level constructors (Mathlib-free)

`EmbedCondition`, `Invert`, `Scan`, `Vmap` — what they declare as `shape` / `cond_shape` and when the constructor
raises.  Tied to the code by `tools/props/c13.py` (`ctor-model-vs-impl:embed|vmap|wrap`) and, like the models of
`Model/ArgCheck.lean`, proved equal to the definitions regenerated from the source (`Gen/CtorsGen.lean`) in
`Proofs/CtorsGen.lean`.
-/
namespace ArgCheck
open PyShape PyCtor

/-- `EmbedCondition(bijection, net, raw_cond_shape)`: never raises; the shape is the wrapped bijection's, the condition
shape the raw one -/
def embedCtor (bshape : Shape) (raw : Shape) : Except Err (Shape × Option Shape) := .ok (bshape, some raw)

/-- `Invert(b)` / `Scan(b)` / `Partial(b, …).cond_shape`: the wrapped bijection's declared shapes -/
def wrapShapes (bshape : Shape) (bcond : Option Shape) : Shape × Option Shape := (bshape, bcond)

/-- `Vmap.get_cond_shape`: a new axis of size `axis_size` is inserted at `in_axes_condition` (any axis of
`[-(rank+1), rank+1)`) when the bijection is conditional and the condition is mapped; otherwise unchanged -/
def vmapCondShape (bcond : Option Shape) (axisSize : Nat) (condAx : Option Int) : Except Err (Option Shape) :=
  match bcond, condAx with
  | some cs, some ax =>
      match normAxis (cs.length + 1) ax with
      | .error e => .error e
      | .ok k => .ok (some (cs.take k ++ [axisSize] ++ cs.drop k))
  | _, _ => .ok bcond

/-- the axis size `Vmap.__init__` settles on: exactly one of `in_axes` / `axis_size`; `in_axes` must contain no
unwrappable and must map at least one array leaf -/
def vmapAxisSize (b : VB) (inAxes : Option InAxes) (axisSize : Option Nat) : Except Err Nat :=
  match inAxes, axisSize with
  | some _, some _ => .error .valueError
  | none, none => .error .valueError
  | none, some n => .ok n
  | some a, none =>
      if a.hasUnwrappable then .error .valueError
      else inferAxisSize b a

/-- `Vmap(bijection, in_axes=…, axis_size=…, in_axes_condition=…)`: declared `(shape, cond_shape)` or the exception -/
def vmapCtor (b : VB) (inAxes : Option InAxes) (axisSize : Option Nat) (condAx : Option Int) :
    Except Err (Shape × Option Shape) :=
  match vmapAxisSize b inAxes axisSize with
  | .error e => .error e
  | .ok n =>
      match vmapCondShape b.cond_shape n condAx with
      | .error e => .error e
      | .ok c => .ok (n :: b.shape, c)

end ArgCheck
