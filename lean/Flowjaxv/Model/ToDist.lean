import Flowjaxv.Gen.Dist
import Flowjaxv.Model.ToBij
/-! Packaging the generated distribution methods as `Dist` records; `merge_transforms` (hand model). -/
open Gen
variable {X C K α : Type} [Add α] [Sub α] [Neg α] [OfNat α 0]

def Gen.Transformed.toDist (t : Transformed X C K α) : Distn X C K α :=
  ⟨t.logProb, t.sample, t.sampleLp⟩

def Gen.DistCore.toDist (d : DistCore X C K α) : Distn X C K α :=
  ⟨d._log_prob, d._sample, d.defaultSampleLp⟩

/-- Nested transformed distributions: `bs = [b₁, …, bₙ]`, innermost first:
`Transformed(…Transformed(Transformed(base, b₁), b₂)…, bₙ)`. -/
def nestTransformed (base : Distn X C K α) (bs : List (Bij X C α)) : Distn X C K α :=
  bs.foldl (fun d b => (Transformed.mk d b).toDist) base

/-- `merge_transforms` (hand model of `distributions.py::AbstractTransformed.merge_transforms`):
collects the bijections from the outside in, reverses, chains and flattens them. -/
def mergeTransforms (base : Distn X C K α) (bs : List (Bij X C α)) : Distn X C K α :=
  (Transformed.mk base (Chain.mk bs).toBij).toDist
