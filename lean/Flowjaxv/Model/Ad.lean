import Flowjaxv.Prelude.Jnp
import Flowjaxv.Prelude.Stats
/-!
# Reverse-mode differentiation of the generated kernels over a number domain with IEEE special values

`Expr N` is a small deep embedding of the straight-line scalar kernels; `eval` is the forward pass and
`vjp` the reverse pass with one cotangent rule per primitive, transcribed from JAX (in particular
`select` sends a ZERO cotangent into the unselected branch, and cotangents are multiplied by partials
with the number domain's own multiplication — so `0 * ∞ = NaN` is visible).

Instances of `Num`: `Float` (IEEE double, executable: the driver compares value and every adjoint with
`jax.grad`) and `EF` (`Proofs/EF.lean`: reals extended by `+∞, −∞, NaN`, exact finite arithmetic —
the domain of the C18 theorems).  Mathlib-free.
-/
namespace Ad

/-- number domain with special values -/
class Num (N : Type) extends Add N, Sub N, Mul N, Div N, Neg N where
  ofInt : Int → N
  ofSci : Nat → Bool → Nat → N
  lt : N → N → Bool
  le : N → N → Bool
  beq : N → N → Bool
  abs : N → N
  sign : N → N
  exp : N → N
  log : N → N
  tanh : N → N
  artanh : N → N
  sqrt : N → N
  softplus : N → N
  expm1 : N → N
  /-- logistic sigmoid, the derivative of softplus -/
  sigmoid : N → N
  /-- `lax.log1p` -/
  log1p : N → N
  /-- `lax.lgamma` (log |Γ|) and its derivative `lax.digamma` -/
  lgamma : N → N
  digamma : N → N
  /-- `+∞` -/
  inf : N
  /-- `jnp.isnan` -/
  isNaN : N → Bool

inductive Prim | abs | sign | exp | log | tanh | artanh | sqrt | softplus | expm1
  /-- `lax.log1p` (jvp `g / (1 + x)`), `lax.square` (jvp `g * (2 * x)`), `lax.lgamma` (jvp `g * digamma x`),
  `jax.nn.relu` (a `custom_jvp`: value `max(x, 0)`, jvp `select(x > 0, g, 0)` — NO tie splitting at 0) -/
  | log1p | square | lgamma | relu
deriving Repr, DecidableEq

/-- binary primitives with their own differentiation rule: `jnp.logaddexp` is a `custom_jvp` -/
inductive Prim2 | logaddexp
deriving Repr, DecidableEq

structure Env (N : Type) where
  /-- scalar variables: input, scalar parameters, let-bound intermediates -/
  s : Nat → N
  /-- vector parameters -/
  v : Nat → List N

def Env.set {N : Type} (env : Env N) (i : Nat) (x : N) : Env N :=
  { env with s := fun j => if j = i then x else env.s j }

inductive Expr (N : Type) where
  | var (i : Nat)
  | const (c : N)
  /-- element of a vector parameter at a data-dependent integer index (no gradient through the index) -/
  | get (vec : Nat) (idx : Env N → Int)
  | add (a b : Expr N)
  | sub (a b : Expr N)
  | mul (a b : Expr N)
  | div (a b : Expr N)
  | neg (a : Expr N)
  | prim (p : Prim) (a : Expr N)
  | bin (p : Prim2) (a b : Expr N)
  /-- `jnp.maximum` / `jnp.minimum`: at a tie JAX splits the cotangent evenly (`_balanced_eq`) -/
  | max (a b : Expr N)
  | min (a b : Expr N)
  /-- `jnp.where(c, a, b)`; the mask is computed from values and is not differentiated -/
  | sel (c : Env N → Bool) (a b : Expr N)
  | letE (i : Nat) (v body : Expr N)
  /-- `lax.stop_gradient`: the value of `a`, no cotangent flows into it -/
  | stopGrad (a : Expr N)

variable {N : Type} [Num N]

def applyPrim : Prim → N → N
  | .abs => Num.abs | .sign => Num.sign | .exp => Num.exp | .log => Num.log | .tanh => Num.tanh
  | .artanh => Num.artanh | .sqrt => Num.sqrt | .softplus => Num.softplus | .expm1 => Num.expm1
  | .log1p => Num.log1p | .square => fun x => x * x | .lgamma => Num.lgamma
  | .relu => fun x => if Num.lt x (Num.ofInt 0) then Num.ofInt 0 else x

/-- `jax._src.lax.other.logaddexp` (real floating branch):
`select(isnan(x1 - x2), x1 + x2, max(x1, x2) + log1p(exp(-|x1 - x2|)))` -/
def logaddexp (x y : N) : N :=
  let amax := if Num.lt x y then y else x
  let delta := x - y
  if Num.isNaN delta then x + y else amax + Num.log1p (Num.exp (-(Num.abs delta)))

/-- `_replace_inf x = select(isposinf x, 0, x)` of the `logaddexp` jvp rule -/
def replaceInf (x : N) : N := if Num.beq x Num.inf then Num.ofInt 0 else x

def applyPrim2 : Prim2 → N → N → N
  | .logaddexp => logaddexp

/-- partials of a binary primitive (`_logaddexp_jvp`: `t1 * exp(x1 - out) + t2 * exp(x2 - out)`) -/
def dPrim2 : Prim2 → N → N → N × N
  | .logaddexp, x, y =>
      let out := logaddexp x y
      (Num.exp (replaceInf x - replaceInf out), Num.exp (replaceInf y - replaceInf out))

/-- partial derivative of a primitive at `x` (JAX's jvp rules) -/
def dPrim : Prim → N → N
  | .abs, x => if Num.le (Num.ofInt 0) x then Num.ofInt 1 else Num.ofInt (-1)  -- `_abs_jvp_rule`: `select(x >= 0, g, -g)` (so +1 at 0)
  | .sign, _ => Num.ofInt 0
  | .exp, x => Num.exp x
  | .log, x => Num.ofInt 1 / x
  | .tanh, x => Num.ofInt 1 - Num.tanh x * Num.tanh x
  | .artanh, x => Num.ofInt 1 / (Num.ofInt 1 - x * x)
  | .sqrt, x => Num.ofInt 1 / (Num.ofInt 2 * Num.sqrt x)
  | .softplus, x => Num.sigmoid x
  | .expm1, x => Num.exp x
  | .log1p, x => Num.ofInt 1 / (Num.ofInt 1 + x)
  | .square, x => Num.ofInt 2 * x
  | .lgamma, x => Num.digamma x
  | .relu, x => if Num.lt (Num.ofInt 0) x then Num.ofInt 1 else Num.ofInt 0

/-- JAX `x[i]`: negative index wraps once, then clamps; returns the resolved position -/
def resolveIdx (len : Nat) (i : Int) : Nat :=
  let n : Int := len
  let j := if i < 0 then i + n else i
  let j := if j < 0 then 0 else if j ≥ n then n - 1 else j
  j.toNat

def Expr.eval (env : Env N) : Expr N → N
  | .var i => env.s i
  | .const c => c
  | .get vec idx => (env.v vec).getD (resolveIdx (env.v vec).length (idx env)) (Num.ofInt 0)
  | .add a b => a.eval env + b.eval env
  | .sub a b => a.eval env - b.eval env
  | .mul a b => a.eval env * b.eval env
  | .div a b => a.eval env / b.eval env
  | .neg a => -(a.eval env)
  | .prim p a => applyPrim p (a.eval env)
  | .bin p a b => applyPrim2 p (a.eval env) (b.eval env)
  | .max a b => if Num.lt (a.eval env) (b.eval env) then b.eval env else a.eval env
  | .min a b => if Num.lt (b.eval env) (a.eval env) then b.eval env else a.eval env
  | .sel c a b => if c env then a.eval env else b.eval env
  | .letE i v body => body.eval (env.set i (v.eval env))
  | .stopGrad a => a.eval env

/-- where a cotangent lands: a scalar variable or one element of a vector parameter -/
inductive Key | s (i : Nat) | v (vec pos : Nat)
deriving DecidableEq, Repr

abbrev Grad (N : Type) := List (Key × N)

def Grad.total (g : Grad N) (k : Key) : N :=
  (g.filter (fun kv => kv.1 = k)).foldl (fun acc kv => acc + kv.2) (Num.ofInt 0)

/-- reverse pass: contributions of cotangent `ct` arriving at the expression -/
def Expr.vjp (env : Env N) : Expr N → N → Grad N
  | .var i, ct => [(Key.s i, ct)]
  | .const _, _ => []
  | .get vec idx, ct => [(Key.v vec (resolveIdx (env.v vec).length (idx env)), ct)]
  | .add a b, ct => a.vjp env ct ++ b.vjp env ct
  | .sub a b, ct => a.vjp env ct ++ b.vjp env (-ct)
  | .mul a b, ct => a.vjp env (ct * b.eval env) ++ b.vjp env (ct * a.eval env)
  | .div a b, ct =>
      a.vjp env (ct / b.eval env) ++ b.vjp env (-(ct * a.eval env) / (b.eval env * b.eval env))
  | .neg a, ct => a.vjp env (-ct)
  | .prim p a, ct => a.vjp env (ct * dPrim p (a.eval env))
  | .bin p a b, ct =>
      let d := dPrim2 p (a.eval env) (b.eval env)
      a.vjp env (ct * d.1) ++ b.vjp env (ct * d.2)
  | .max a b, ct =>
      let x := a.eval env
      let y := b.eval env
      let wa : N := if Num.lt y x then Num.ofInt 1 else if Num.lt x y then Num.ofInt 0 else Num.ofInt 1 / Num.ofInt 2
      let wb : N := if Num.lt x y then Num.ofInt 1 else if Num.lt y x then Num.ofInt 0 else Num.ofInt 1 / Num.ofInt 2
      a.vjp env (ct * wa) ++ b.vjp env (ct * wb)
  | .min a b, ct =>
      let x := a.eval env
      let y := b.eval env
      let wa : N := if Num.lt x y then Num.ofInt 1 else if Num.lt y x then Num.ofInt 0 else Num.ofInt 1 / Num.ofInt 2
      let wb : N := if Num.lt y x then Num.ofInt 1 else if Num.lt x y then Num.ofInt 0 else Num.ofInt 1 / Num.ofInt 2
      a.vjp env (ct * wa) ++ b.vjp env (ct * wb)
  | .sel c a b, ct =>
      a.vjp env (if c env then ct else Num.ofInt 0) ++ b.vjp env (if c env then Num.ofInt 0 else ct)
  | .letE i v body, ct =>
      let env' := env.set i (v.eval env)
      let gb := body.vjp env' ct
      -- the cotangent accumulated on the let-bound variable flows into its definition
      (gb.filter (fun kv => kv.1 ≠ Key.s i)) ++ v.vjp env (Grad.total gb (Key.s i))
  | .stopGrad _, _ => []

end Ad

/-! ### IEEE instance -/
namespace Ad
def Float.sigmoid (x : Float) : Float := 1 / (1 + Float.exp (-x))
def Float.signum (x : Float) : Float := if x < 0 then -1 else if x > 0 then 1 else if x == 0 then 0 else x

/-- `log(1+x)` without cancellation near 0 (Lean's `Float` has no `log1p`) -/
def Float.log1pStable (x : Float) : Float :=
  let u := 1 + x
  if u == 1 then x else if u - 1 == x then Float.log u else Float.log u * (x / (u - 1))

/-- digamma: recurrence up to `x ≥ 10`, then the asymptotic series (|rel. error| ≲ 1e-14 for x > 0);
reflection for `x < 0` is not needed by any kernel (only positive `df/2`, `(df+1)/2` occur) -/
def Float.digammaPos (x : Float) : Float := Id.run do
  let mut acc : Float := 0
  let mut y := x
  for _ in [0:10] do
    if y < 10 then
      acc := acc - 1 / y
      y := y + 1
  let r := 1 / y
  let r2 := r * r
  let series := r2 * (1/12 - r2 * (1/120 - r2 * (1/252 - r2 * (1/240 - r2 * (1/132 - r2 * (691/32760 - r2 * (1/12)))))))
  return acc + Float.log y - r / 2 - series

instance : Num Float where
  log1p := Float.log1pStable
  lgamma := Float.lgammaLanczos
  digamma := Float.digammaPos
  inf := 1 / 0
  isNaN x := x != x
  ofInt i := Float.ofInt i
  ofSci m s e := Float.ofScientific m s e
  lt a b := decide (a < b)
  le a b := decide (a ≤ b)
  beq a b := a == b
  abs := Float.abs
  sign := Float.signum
  exp := Float.exp
  log := Float.log
  tanh := Float.tanh
  artanh := Float.atanh
  sqrt := Float.sqrt
  -- `jax.nn.softplus = logaddexp(x, 0)`: `max(x, 0) + log1p(exp(-|x|))` (with `log1p`, accurate for very negative `x`)
  softplus := fun x => (if x > 0 then x else 0) + Float.log1pStable (Float.exp (-(Float.abs x)))
  expm1 := Float.expm1Stable
  sigmoid := Float.sigmoid
end Ad

namespace Ad
/-- `jnp.searchsorted` (side left) over a number domain: number of elements `< v` -/
def searchsorted {N : Type} [Num N] (xs : List N) (v : N) : Int :=
  ((xs.filter (fun a => Num.lt a v)).length : Int)
end Ad
