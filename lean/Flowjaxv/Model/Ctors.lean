import Flowjaxv.Gen.Leaves
/-!
# Constructor wiring (hand model, Mathlib-free; tied by correspondence with `unwrap(ctor(args))`)

`Affine(loc, scale)` stores `BijectionReparam(scale, SoftPlus())`: the raw array is
`SoftPlus.inverse scale` and unwrapping applies `SoftPlus.transform`.  The two SoftPlus
functions used here are the GENERATED ones.
-/
open Gen
namespace Ctors
variable {α : Type} [Add α] [Sub α] [Mul α] [Div α] [Neg α] [LT α] [LE α] [BEq α]
  [OfNat α 0] [OfNat α 1] [OfNat α 2] [OfNat α 4] [OfScientific α]
  [DecidableLT α] [DecidableLE α] [Transc α] [Inhabited α]

/-- raw parameter stored by `BijectionReparam(v, SoftPlus())` -/
def softplusRaw (v : α) : α := SoftPlus.inverse {} v
/-- value obtained on unwrap from a raw parameter -/
def softplusUnwrap (raw : α) : α := SoftPlus.transform {} raw

/-- `unwrap(Affine(loc, scale))`, one element -/
def affine (loc scale : α) : Affine α := { loc := loc, scale := softplusUnwrap (softplusRaw scale) }
/-- `unwrap(Scale(scale))`, one element -/
def scale (s : α) : Scale α := { scale := softplusUnwrap (softplusRaw s) }
/-- `unwrap(Loc(loc))` -/
def loc (l : α) : Loc α := { loc := l }

end Ctors
