/-!
# Hand-written, executable model of `flowjax/train` (C15 data flow, C16 loop control)

Core Lean only (no Mathlib).  Tied to `/repo/flowjax/train/{data_fit,variational_fit,train_utils}.py`
by the correspondences of `tools/props/c15.py` and `tools/props/c16.py` (driver ops in
`Driver/Train.lean`).

* Losses are integers (`Loss := Int`): the properties quantify over *orderings* of pairwise-distinct
  loss values, and the scripted `loss_fn` of the harness returns exactly these values.
* The optimiser is the *counting optimiser*: every `step` adds one to the parameter, so "the
  parameters after `k` updates" is the number `k`.  For `fit_to_data` the unit is the epoch (`k` epochs
  = `k · n_batches` updates; the harness divides by the number of train batches).
* Rows of the data arrays are abstract (`α`); running the model on `List.range n` gives the index
  flow and `Train.fitData_map` shows that the flow on any array is the image of the index flow.
* `jr.permutation(key, a) = a[jr.permutation(key, len a)]` is modelled by `applyPerm (perm key len) a`
  for an arbitrary function `perm`; theorems assume only that `perm key m` is a permutation of
  `0..m-1`.
* PRNG keys are *paths* in the split tree: `child p a i` is `jr.split(p, a)[i]`.
-/
namespace Train

abbrev Loss := Int

/-! ## `count_fruitless` (`train_utils.py`) -/

/-- scan for the first index of the minimum: `b` is the best value so far, at index `bi`; `cur` is the
index of the head of the remaining list -/
def argminAux : List Loss → Loss → Nat → Nat → Nat
  | [], _, bi, _ => bi
  | x :: xs, b, bi, cur => if x < b then argminAux xs x cur (cur + 1) else argminAux xs b bi (cur + 1)

/-- `jnp.argmin(jnp.array(losses)).item()`: the FIRST index of the minimum.  (`jnp.argmin` of an empty
array raises; the loops call it on non-empty lists only — see `argmin_spec`, which assumes `l ≠ []`.) -/
def argmin : List Loss → Nat
  | [] => 0
  | x :: xs => argminAux xs x 0 1

/-- `count_fruitless(losses) = len(losses) - argmin(losses) - 1` -/
def countFruitless (losses : List Loss) : Nat := losses.length - argmin losses - 1

/-- Python `min(losses)`; `none` stands for the `ValueError` on an empty list -/
def listMin? : List Loss → Option Loss
  | [] => none
  | x :: xs => some (xs.foldl min x)

/-! ## `fit_to_data`: loop control as a fold over a loss script -/

/-- loop state of `fit_to_data` -/
structure FitState where
  /-- epochs completed; with the counting optimiser this *is* `params` (in units of epochs) -/
  epochs : Nat
  /-- `losses["train"]` -/
  train : List Loss
  /-- `losses["val"]` -/
  val : List Loss
  /-- `best_params` (number of epochs after which they were current; `0` = initial parameters) -/
  best : Nat
  deriving Repr, DecidableEq

/-- `for _ in range(max_epochs): …` with `fuel` iterations left.  `trn e` / `val e` are the epoch-`e`
train / validation losses (what the scripted `loss_fn` produces); the validation loss of epoch `e` is
evaluated with the parameters after epoch `e`'s updates, i.e. parameters `e + 1`. -/
def fitLoop (trn val : Nat → Loss) (maxPatience : Nat) : Nat → FitState → FitState
  | 0, s => s
  | fuel + 1, s =>
    let params := s.epochs + 1                        -- after the train batches of this epoch
    let tl := s.train ++ [trn s.epochs]               -- losses["train"].append(...)
    let vl := s.val ++ [val s.epochs]                 -- losses["val"].append(...)
    if some (val s.epochs) == listMin? vl then        -- losses["val"][-1] == min(losses["val"])
      fitLoop trn val maxPatience fuel ⟨params, tl, vl, params⟩          -- best_params = params
    else if countFruitless vl > maxPatience then      -- elif count_fruitless(...) > max_patience
      ⟨params, tl, vl, s.best⟩                        --   break
    else fitLoop trn val maxPatience fuel ⟨params, tl, vl, s.best⟩

structure FitResult where
  /-- number of epochs run -/
  epochs : Nat
  /-- parameters of the returned `dist` (epochs after which they were current) -/
  returned : Nat
  train : List Loss
  val : List Loss
  deriving Repr, DecidableEq

/-- `fit_to_data(..., max_epochs, max_patience, return_best)` under a loss script -/
def fitToData (trn val : Nat → Loss) (maxEpochs maxPatience : Nat) (returnBest : Bool) : FitResult :=
  let s := fitLoop trn val maxPatience maxEpochs ⟨0, [], [], 0⟩
  ⟨s.epochs, if returnBest then s.best else s.epochs, s.train, s.val⟩

/-! ## `fit_to_variational_target` -/

structure ViState where
  /-- steps done = current `params` -/
  steps : Nat
  losses : List Loss
  best : Nat
  deriving Repr, DecidableEq

/-- the loop as it is in the source now: `loss i` is evaluated at the PRE-update parameters `i`;
`best_params = params` (pre-update) when `loss == min(losses)`; then `params = new_params` -/
def viLoop (loss : Nat → Loss) : Nat → ViState → ViState
  | 0, s => s
  | fuel + 1, s =>
    let l := loss s.steps
    let ls := s.losses ++ [l]
    viLoop loss fuel ⟨s.steps + 1, ls, if some l == listMin? ls then s.steps else s.best⟩

/-- the OLD behaviour (before commit 0ab1adc): `best_params` was assigned the POST-update parameters -/
def viLoopPostUpdate (loss : Nat → Loss) : Nat → ViState → ViState
  | 0, s => s
  | fuel + 1, s =>
    let l := loss s.steps
    let ls := s.losses ++ [l]
    viLoopPostUpdate loss fuel ⟨s.steps + 1, ls, if some l == listMin? ls then s.steps + 1 else s.best⟩

structure ViResult where
  steps : Nat
  returned : Nat
  losses : List Loss
  deriving Repr, DecidableEq

def fitToVariationalTarget (loss : Nat → Loss) (steps : Nat) (returnBest : Bool) : ViResult :=
  let s := viLoop loss steps ⟨0, [], 0⟩
  ⟨s.steps, if returnBest then s.best else s.steps, s.losses⟩

def fitToVariationalTargetPostUpdate (loss : Nat → Loss) (steps : Nat) (returnBest : Bool) : ViResult :=
  let s := viLoopPostUpdate loss steps ⟨0, [], 0⟩
  ⟨s.steps, if returnBest then s.best else s.steps, s.losses⟩

/-! ## Data flow of `fit_to_data` -/

/-- `jr.permutation(key, a)` when `π = jr.permutation(key, len a)`: row `i` of the result is `a[π[i]]`.
Total: an out-of-range index contributes nothing (never happens for a permutation of `0..len-1`). -/
def applyPerm {α : Type} (π : List Nat) (a : List α) : List α := π.filterMap (fun i => a[i]?)

/-- `n_train = num_samples - round(val_prop * num_samples)`, with `nVal = round(val_prop * n)` -/
def nTrain (n nVal : Nat) : Nat := n - nVal

/-- Python `round(x)` for a non-negative float `x`: nearest integer, ties to even.  Used by the driver
to compute `nVal = round(val_prop * n)` exactly as `train_val_split` does (float product first). -/
def roundHalfEven (x : Float) : Nat :=
  let f := x.floor
  let d := x - f
  let k := f.toUInt64.toNat
  if d < 0.5 then k else if d > 0.5 then k + 1 else if k % 2 == 0 then k else k + 1

/-- `train_val_split` on one array, given the permutation drawn for the split key:
`arr = permutation(key, arr); (arr[:n_train], arr[n_train:])` -/
def trainValSplit {α : Type} (π₀ : List Nat) (nVal : Nat) (a : List α) : List α × List α :=
  let p := applyPerm π₀ a
  (p.take (nTrain a.length nVal), p.drop (nTrain a.length nVal))

/-- `reshape(nb, b)` of a list of length `nb * b`: row `k` is elements `k*b .. (k+1)*b` -/
def chunks {α : Type} (b : Nat) : Nat → List α → List (List α)
  | 0, _ => []
  | nb + 1, l => l.take b :: chunks b nb (l.drop b)

/-- `_add_batch`: `b' = min(batch_size, len)`, `n_batches = len // b'`,
`arr[: n_batches * b'].reshape(n_batches, b')`.  (`b' = 0` is a `ZeroDivisionError` in Python; here
`len / 0 = 0` gives `[]` — `fitData` states the guard.) -/
def addBatch {α : Type} (b : Nat) (a : List α) : List (List α) :=
  let b' := min b a.length
  let nb := a.length / b'
  chunks b' nb (a.take (nb * b'))

/-! ### PRNG keys as paths in the split tree -/

/-- one edge of the split tree: `(arity, index)` = element `index` of `jr.split(parent, arity)` -/
abbrev Step := Nat × Nat
/-- a key, as the path from it back to the root key (leaf first) -/
abbrev Path := List Step

/-- `jr.split(p, arity)[i]` -/
def child (p : Path) (arity i : Nat) : Path := (arity, i) :: p

/-- one call of `loss_fn`: the key it received and the rows of the batch -/
structure Call (α : Type) where
  key : Path
  rows : List α
  deriving Repr, DecidableEq

/-- `for batch in batches: key, subkey = jr.split(key); loss_fn(..., *batch, key=subkey)` -/
def lossCalls {α : Type} : Path → List (List α) → List (Call α)
  | _, [] => []
  | key, bt :: rest => ⟨child key 2 1, bt⟩ :: lossCalls (child key 2 0) rest

/-- `key` after `m` iterations of `key, subkey = jr.split(key)` -/
def advance (key : Path) : Nat → Path
  | 0 => key
  | m + 1 => advance (child key 2 0) m

structure Epoch (α : Type) where
  /-- `subkeys[0]`, consumed by the shuffle of the train arrays -/
  trainShuffleKey : Path
  /-- `subkeys[1]`, consumed by the shuffle of the validation arrays -/
  valShuffleKey : Path
  /-- train rows in this epoch's order -/
  trainOrder : List α
  valOrder : List α
  /-- the calls of `loss_fn` made inside `step` (gradient updates), in order -/
  trainCalls : List (Call α)
  /-- the plain calls of `loss_fn` on validation batches, in order -/
  valCalls : List (Call α)
  deriving Repr, DecidableEq

/-- the epoch loop (`cnt` epochs left).  `perm p m` stands for `jr.permutation(key at p, m)`.
Note the shuffles compose: each epoch permutes the previous epoch's order. -/
def epochLoop {α : Type} (perm : Path → Nat → List Nat) (b : Nat) :
    Nat → Path → List α → List α → List (Epoch α)
  | 0, _, _, _ => []
  | cnt + 1, key, tr, va =>
    let k1 := child key 3 1
    let k2 := child key 3 2
    let tr' := applyPerm (perm k1 tr.length) tr
    let va' := applyPerm (perm k2 va.length) va
    let tb := addBatch b tr'
    let vb := addBatch b va'
    let key1 := child key 3 0
    let key2 := advance key1 tb.length
    ⟨k1, k2, tr', va', lossCalls key1 tb, lossCalls key2 vb⟩ ::
      epochLoop perm b cnt (advance key2 vb.length) tr' va'

structure Run (α : Type) where
  /-- `subkey` of the first `jr.split(key)`, consumed by `train_val_split` (same key for every array) -/
  splitKey : Path
  train : List α
  val : List α
  epochs : List (Epoch α)
  deriving Repr, DecidableEq

/-- the run without the guards -/
def fitDataCore {α : Type} (perm : Path → Nat → List Nat) (nVal b epochs : Nat) (a : List α) : Run α :=
  let sub := child [] 2 1
  let tv := trainValSplit (perm sub a.length) nVal a
  ⟨sub, tv.1, tv.2, epochLoop perm b epochs (child [] 2 0) tv.1 tv.2⟩

/-- Data flow of `fit_to_data(key, dist, a, batch_size=b, max_epochs=epochs)` for one data array `a`
(each array of `data` flows through the same function with the same `perm`), when `epochs` epochs are
run and `nVal = round(val_prop * len a)`.
`none` = the real call raises: `nVal > len` cannot come from `0 ≤ val_prop ≤ 1` (`ValueError`), and an
empty train or validation part or `batch_size = 0` is a `ZeroDivisionError` in `_add_batch` as soon as
one epoch is run. -/
def fitData {α : Type} (perm : Path → Nat → List Nat) (nVal b epochs : Nat) (a : List α) :
    Option (Run α) :=
  if nVal ≤ a.length ∧ (epochs = 0 ∨ (0 < nVal ∧ nVal < a.length ∧ 0 < b)) then
    some (fitDataCore perm nVal b epochs a)
  else none

/-! ### keys used by a run -/

def Epoch.consumedKeys {α : Type} (ep : Epoch α) : List Path :=
  ep.trainShuffleKey :: ep.valShuffleKey :: (ep.trainCalls.map (·.key) ++ ep.valCalls.map (·.key))

/-- every key handed to a consumer (`train_val_split`, a shuffle, `loss_fn`), in program order -/
def Run.consumedKeys {α : Type} (r : Run α) : List Path :=
  r.splitKey :: r.epochs.flatMap Epoch.consumedKeys

/-- every key that was passed to `jr.split`: the parents of the consumed keys -/
def Run.splitKeys {α : Type} (r : Run α) : List Path := r.consumedKeys.map List.tail

/-- child indices only (with `jax_threefry_partitionable`, `split(k, 2)[i] = split(k, 3)[i]`, so the
arity does not identify a key) -/
def idx (p : Path) : List Nat := p.map Prod.snd

/-- the key a path denotes under a concrete `split` -/
def interp {K : Type} (split : K → Nat → Nat → K) (root : K) : Path → K
  | [] => root
  | s :: p => split (interp split root p) s.1 s.2

/-! ### mapping rows -/

def Call.map {α β : Type} (f : α → β) (c : Call α) : Call β := ⟨c.key, c.rows.map f⟩
def Epoch.map {α β : Type} (f : α → β) (e : Epoch α) : Epoch β :=
  ⟨e.trainShuffleKey, e.valShuffleKey, e.trainOrder.map f, e.valOrder.map f,
   e.trainCalls.map (Call.map f), e.valCalls.map (Call.map f)⟩
def Run.map {α β : Type} (f : α → β) (r : Run α) : Run β :=
  ⟨r.splitKey, r.train.map f, r.val.map f, r.epochs.map (Epoch.map f)⟩

end Train
