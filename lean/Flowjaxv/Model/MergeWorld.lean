import Flowjaxv.Model.ToDist
import Flowjaxv.Gen.CtorsGen
/-!
# World of `Gen/MergeGen.lean` (Mathlib-free, executable)

The objects `AbstractTransformed.merge_transforms`, the `shape` / `cond_shape` properties of `AbstractTransformed`,
`Chain.__getitem__ / __len__ / __iter__ / merge_chains` (translated on every run by `tools/py2lean/py2meth.py`, sheet
`targets_merge.py`) are ABOUT, and the meaning of the Python constructs they use.

* a bijection object (`Mw.B`) is a leaf — the record of its four methods with its declared `shape` / `cond_shape` — or a
  `Chain` carrying its `bijections` tuple and the two fields `Chain.__init__` sets (nested inductive: a chain's members are
  bijection objects again); `isinstance(b, Chain)` is the constructor test, `b.bijections` of a non-chain an `AttributeError`;
* a distribution object (`Mw.D`) is a base (abstract `Distn` record with its declared shapes) or a `Transformed` of a
  distribution and a bijection; `isinstance(d, AbstractTransformed)` is the constructor test; `d.shape` / `d.cond_shape` of a
  transformed node are the class's properties (defined here by recursion — the generated properties are proved to be one step of
  it, `MergeGen.gen_shape_dispatch`, `gen_cond_shape_dispatch`);
* calling a class runs its REGENERATED constructor: `Chain(bs)` is `GenCtors.Chain.init` on the members' declared shapes (raises
  what it raises), `Transformed(d, b)` runs `GenCtors.Transformed.checkInit`;
* `t[i]` for a Python int (`idxI`: negative counts from the end, IndexError outside `-n ≤ i < n`) and for a slice object
  (`sliceGet`: `slice.indices` semantics for every start / stop / step, step 0 a ValueError);
* a `while` loop (`pyWhile`) runs its body while the test holds; it is given `Measure.measure init + 1` units of fuel and reports
  `E.fuel` if they run out — the theorems of `Proofs/MergeGen.lean` show that this never happens for the two translated loops,
  so the value is the loop's.
-/
namespace Mw
open PyShape PyCtor

/-- what a translated function can end in besides a value: a Python exception, or a `while` loop that outran its fuel -/
inductive E where
  | py (e : Err)
  | fuel
  deriving DecidableEq, Repr

abbrev M (τ : Type) := Except E τ

def liftPy {τ : Type} : Except Err τ → M τ
  | .ok x => .ok x
  | .error e => .error (.py e)

def E.name : E → String
  | .py e => e.name
  | .fuel => "FUEL"

/-! ## objects -/

inductive B (X C α : Type) where
  | leaf (b : Bij X C α) (shape : Shape) (cond_shape : Option Shape)
  | chain (bijections : List (B X C α)) (shape : Shape) (cond_shape : Option Shape)

/-- an instance of `Chain` (what `self` is inside its methods) -/
structure ChainObj (X C α : Type) where
  bijections : List (B X C α)
  shape : Shape
  cond_shape : Option Shape

inductive D (X C K α : Type) where
  | base (d : Distn X C K α) (shape : Shape) (cond_shape : Option Shape)
  | transformed (base_dist : D X C K α) (bijection : B X C α)

/-- an instance of a subclass of `AbstractTransformed` (what `self` is inside its methods) -/
structure TObj (X C K α : Type) where
  base_dist : D X C K α
  bijection : B X C α

variable {X C K α : Type}

def ChainObj.toB (c : ChainObj X C α) : B X C α := .chain c.bijections c.shape c.cond_shape
def TObj.toD (t : TObj X C K α) : D X C K α := .transformed t.base_dist t.bijection

def B.shape : B X C α → Shape
  | .leaf _ s _ => s
  | .chain _ s _ => s

def B.cond_shape : B X C α → Option Shape
  | .leaf _ _ c => c
  | .chain _ _ c => c

/-- `isinstance(b, Chain)` -/
def B.isChain : B X C α → Bool
  | .chain .. => true
  | .leaf .. => false

/-- `b.bijections` -/
def B.bijections : B X C α → M (List (B X C α))
  | .chain bs _ _ => .ok bs
  | .leaf .. => .error (.py .attributeError)

def B.toSB (b : B X C α) : SB := ⟨b.shape, b.cond_shape⟩

/-- `Chain(bs)`: the regenerated `Chain.__init__` decides acceptance and the two shape fields -/
def mkChain (bs : List (B X C α)) : M (ChainObj X C α) :=
  match GenCtors.Chain.init (bs.map B.toSB) with
  | .ok f => .ok ⟨bs, f.shape, f.cond_shape⟩
  | .error e => .error (.py e)

/-- `isinstance(d, AbstractTransformed)` -/
def D.isTransformed : D X C K α → Bool
  | .transformed .. => true
  | .base .. => false

/-- `d.bijection` -/
def D.bijection : D X C K α → M (B X C α)
  | .transformed _ b => .ok b
  | .base .. => .error (.py .attributeError)

/-- `d.base_dist` -/
def D.base_dist : D X C K α → M (D X C K α)
  | .transformed d _ => .ok d
  | .base .. => .error (.py .attributeError)

/-- `d.shape` (a transformed node: the property `AbstractTransformed.shape`) -/
def D.shape : D X C K α → Shape
  | .base _ s _ => s
  | .transformed d _ => d.shape

/-- `d.cond_shape` (a transformed node: the property `AbstractTransformed.cond_shape`, which calls the regenerated
`merge_cond_shapes` on `(bijection.cond_shape, base_dist.cond_shape)`) -/
def D.cond_shape : D X C K α → M (Option Shape)
  | .base _ _ c => .ok c
  | .transformed d b =>
      match d.cond_shape with
      | .error e => .error e
      | .ok cd => liftPy (GenCtors.mergeCondShapes [b.cond_shape, cd])

/-- `Transformed(d, b)`: the dataclass `__init__` followed by the regenerated `__check_init__` -/
def mkTransformed (d : D X C K α) (b : B X C α) : M (TObj X C K α) :=
  match d.cond_shape with
  | .error e => .error e
  | .ok cd =>
      match GenCtors.Transformed.checkInit ⟨d.shape, cd⟩ b.toSB with
      | .ok () => .ok ⟨d, b⟩
      | .error e => .error (.py e)

/-! ## tuples: `t[i]` -/

/-- `t[i]` for a Python int -/
def idxI {β : Type} (l : List β) (i : Int) : M β :=
  match PyCtor.rangeGet l.length i with
  | .error e => .error (.py e)
  | .ok k =>
      match l[k]? with
      | some x => .ok x
      | none => .error (.py .indexError)

/-- a `slice` object with int-or-None members -/
structure Slice where
  start : Option Int
  stop : Option Int
  step : Option Int
  deriving DecidableEq, Repr

/-- the argument of `__getitem__` -/
inductive Idx where
  | int (i : Int)
  | slice (s : Slice)
  | other
  deriving DecidableEq, Repr

/-- `slice(start, stop, k).indices(n)` expanded to the list of positions, for `k ≠ 0` -/
def sliceIdxs (n : Nat) (s : Slice) (k : Int) : List Nat :=
  if 0 < k then
    let lo : Int := match s.start with | none => 0 | some a => sliceBound n a
    let hi : Int := match s.stop with | none => n | some b => sliceBound n b
    (List.range ((hi - lo + k - 1) / k).toNat).map (fun (j : Nat) => (lo + (j : Int) * k).toNat)
  else
    let bound : Int → Int := fun a => if a < 0 then max (a + n) (-1) else min a (n - 1)
    let hi : Int := match s.start with | none => (n : Int) - 1 | some a => bound a
    let lo : Int := match s.stop with | none => -1 | some b => bound b
    (List.range ((hi - lo + (-k) - 1) / (-k)).toNat).map (fun (j : Nat) => (hi + (j : Int) * k).toNat)

/-- lower / upper position of a step-1 slice of a sequence of length `n` (`None` = from the start / to the end) -/
def sliceLo (n : Nat) : Option Int → Nat
  | none => 0
  | some a => sliceBound n a
def sliceHi (n : Nat) : Option Int → Nat
  | none => n
  | some b => sliceBound n b

/-- `t[s]` for a slice object -/
def sliceGet {β : Type} (l : List β) (s : Slice) : M (List β) :=
  match s.step with
  | some 0 => .error (.py .valueError)
  | some k =>
      if k = 1 then .ok ((l.take (sliceHi l.length s.stop)).drop (sliceLo l.length s.start))
      else .ok ((sliceIdxs l.length s k).filterMap (fun j => l[j]?))
  | none => .ok ((l.take (sliceHi l.length s.stop)).drop (sliceLo l.length s.start))

/-! ## loops -/

/-- `for v in xs: <body that may raise>` carrying a state -/
def foldlM {σ β : Type} (f : σ → β → M σ) : σ → List β → M σ
  | s, [] => .ok s
  | s, x :: xs =>
      match f s x with
      | .error e => .error e
      | .ok s' => foldlM f s' xs

def whileFuel {σ : Type} (cond : σ → Bool) (body : σ → M σ) : Nat → σ → M σ
  | 0, s => if cond s then .error .fuel else .ok s
  | n + 1, s =>
      if cond s then
        match body s with
        | .error e => .error e
        | .ok s' => whileFuel cond body n s'
      else .ok s

/-- the number of iterations a `while` loop over a state of this type is given (plus one) -/
class Measure (σ : Type) where
  measure : σ → Nat

/-- `while cond(s): s = body(s)` -/
def pyWhile {σ : Type} [Measure σ] (cond : σ → Bool) (body : σ → M σ) (init : σ) : M σ :=
  whileFuel cond body (Measure.measure init + 1) init

mutual
/-- nesting depth of chains -/
def B.depth : B X C α → Nat
  | .leaf .. => 0
  | .chain bs _ _ => B.depthL bs + 1
def B.depthL : List (B X C α) → Nat
  | [] => 0
  | b :: bs => max b.depth (B.depthL bs)
end

/-- nesting depth of transformed distributions -/
def D.depth : D X C K α → Nat
  | .base .. => 0
  | .transformed d _ => d.depth + 1

instance : Measure (List (B X C α)) := ⟨B.depthL⟩
instance : Measure (List (B X C α) × D X C K α) := ⟨fun s => s.2.depth⟩

/-! ## what the objects compute (through the GENERATED `Chain` and `AbstractTransformed` methods) -/

mutual
/-- all leaves, left to right -/
def B.flat : B X C α → List (B X C α)
  | .leaf b s c => [.leaf b s c]
  | .chain bs _ _ => B.flatL bs
def B.flatL : List (B X C α) → List (B X C α)
  | [] => []
  | b :: bs => b.flat ++ B.flatL bs
end

/-- the innermost (non-transformed) distribution -/
def D.root : D X C K α → D X C K α
  | .base d s c => .base d s c
  | .transformed d _ => d.root

/-- the bijections of the nested transformed distributions, innermost first -/
def D.bijs : D X C K α → List (B X C α)
  | .base .. => []
  | .transformed d b => d.bijs ++ [b]

section sem
variable [Add α] [Sub α] [Neg α] [OfNat α 0]

mutual
/-- the four methods of a bijection object; a chain's are the generated `Chain` methods over its members' -/
def B.toBij : B X C α → Bij X C α
  | .leaf b _ _ => b
  | .chain bs _ _ => (Gen.Chain.mk (B.toBijs bs)).toBij
def B.toBijs : List (B X C α) → List (Bij X C α)
  | [] => []
  | b :: bs => b.toBij :: B.toBijs bs
end

/-- the three private methods of a distribution object; a transformed node's are the generated `AbstractTransformed` methods -/
def D.toDistn : D X C K α → Distn X C K α
  | .base d _ _ => d
  | .transformed d b => (Gen.Transformed.mk d.toDistn b.toBij).toDist

end sem

end Mw
