/-!
# What a flowjax distribution is, after unwrapping and before vectorisation

A record of the three unbatched private methods. `X` point type, `C` condition type, `K` key
type, `L` log-density scalar.  Mathlib-free and executable.
-/

structure Distn (X C K L : Type) where
  /-- `_log_prob(x, condition)` -/
  logProb : X → C → L
  /-- `_sample(key, condition)` -/
  sample : K → C → X
  /-- `_sample_and_log_prob(key, condition)` -/
  sampleLp : K → C → X × L
