import Flowjaxv.Gen.Flows
/-!
# The premade flows of `flowjax/flows.py` as `Bij` / `Distn` records (Mathlib-free, executable)

Everything structural is GENERATED (`Gen/Flows.lean`, from `flowjax/flows.py` on every run): `_add_default_permute`,
`_affine_with_min_scale`, the `make_layer` closures and the factory bodies (`jr.split`, `filter_vmap(make_layer)`,
`Invert(Scan(layers)) if invert else Scan(layers)`, `Transformed(base_dist, bijection)`).  This file only names the
compositions the theorems and the driver talk about:

* `couplingFlowBij tf dim key n invert` … the flow's bijection, given the transformer family `tf`
  (`transformer_constructor`), the dimension, the per-layer keys `key i = (layer parameters, permutation)` for
  `i < n = flow_layers` (the unstacked `Scan` layers) and the `invert` flag;  `couplingFlow … base` the distribution;
* the same for MAF, BNAF, planar (leaky-relu) and triangular-spline flows;
* `defaultTransformer` — what `transformer=None` means: `_affine_with_min_scale()` through `get_ravelled_pytree_constructor`;
* the tanh planar flow (forward methods only — the library's `inverse*` raise `NotImplementedError`).
-/
open Gen

namespace Flows
section
variable {K α : Type} [Add α] [Sub α] [Mul α] [Div α] [Neg α] [LT α] [LE α] [BEq α]
  [OfNat α 0] [OfNat α 1] [OfNat α 2] [OfNat α 4] [OfScientific α]
  [DecidableLT α] [DecidableLE α] [Transc α] [Inhabited α] [NatCast α]

abbrev VDist (K α : Type) := Distn (List α) (List α) K α

/-! ### `transformer=None` -/

/-- `_affine_with_min_scale()` with the signature's default `min_scale` -/
def defaultAffine : AffineP α := affine_with_min_scale affine_with_min_scale.min_scale_default

/-- the `init` vector `get_ravelled_pytree_constructor(_affine_with_min_scale())` ravels: `[loc, scale.arr]` -/
def defaultTransformerInit : List α := (defaultAffine (α := α)).leaves

/-- the transformer family the factories use when `transformer is None` -/
def defaultTransformer : List α → Bij α Unit α := affineFamily defaultAffine defaultTransformerInit

/-! ### the five factories -/

def couplingFlowBij (tf : List α → Bij α Unit α) (dim : Nat) (key : Nat → ((List α → List α) × List Nat))
    (n : Nat) (invert : Bool) : VBij α := coupling_flow.bijection tf dim key n invert
def couplingFlow (tf : List α → Bij α Unit α) (dim : Nat) (key : Nat → ((List α → List α) × List Nat))
    (n : Nat) (invert : Bool) (base : VDist K α) : VDist K α :=
  coupling_flow.dist (couplingFlowBij tf dim key n invert) base

def mafFlowBij (tf : List α → Bij α Unit α) (dim : Nat) (key : Nat → (Masks.MafNet α × List Nat))
    (n : Nat) (invert : Bool) : VBij α := masked_autoregressive_flow.bijection tf dim key n invert
def mafFlow (tf : List α → Bij α Unit α) (dim : Nat) (key : Nat → (Masks.MafNet α × List Nat))
    (n : Nat) (invert : Bool) (base : VDist K α) : VDist K α :=
  masked_autoregressive_flow.dist (mafFlowBij tf dim key n invert) base

def bnafFlowBij (dim : Nat) (act : α → α) (inverter : (List α → List α → List α) → List α → List α → List α)
    (key : Nat → (BnafNet α × List Nat)) (n : Nat) (invert : Bool) : VBij α :=
  block_neural_autoregressive_flow.bijection dim act inverter key n invert
def bnafFlow (dim : Nat) (act : α → α) (inverter : (List α → List α → List α) → List α → List α → List α)
    (key : Nat → (BnafNet α × List Nat)) (n : Nat) (invert : Bool) (base : VDist K α) : VDist K α :=
  block_neural_autoregressive_flow.dist (bnafFlowBij dim act inverter key n invert) base

/-- `planar_flow(…, negative_slope=s)` -/
def planarFlowBij (dim : Nat) (s : α) (key : Nat → ((List α → List α) × List Nat)) (n : Nat) (invert : Bool) : VBij α :=
  planar_flow.bijection dim s key n invert
def planarFlow (dim : Nat) (s : α) (key : Nat → ((List α → List α) × List Nat)) (n : Nat) (invert : Bool)
    (base : VDist K α) : VDist K α := planar_flow.dist (planarFlowBij dim s key n invert) base

/-- `triangular_spline_flow.make_layer` (hand model `triSplineCore`) followed by the GENERATED `_add_default_permute` -/
def triSplineLayer (dim : Nat) (tanh_max_val : α) (key : TriSplineNet α × List Nat) : VBij α :=
  add_default_permute (triSplineCore key.1 dim tanh_max_val) dim key.2
def triSplineFlowBij (dim : Nat) (tanh_max_val : α) (key : Nat → (TriSplineNet α × List Nat)) (n : Nat) (invert : Bool) :
    VBij α := triangular_spline_flow.bijection (triSplineLayer dim tanh_max_val) key n invert
def triSplineFlow (dim : Nat) (tanh_max_val : α) (key : Nat → (TriSplineNet α × List Nat)) (n : Nat) (invert : Bool)
    (base : VDist K α) : VDist K α := triangular_spline_flow.dist (triSplineFlowBij dim tanh_max_val key n invert) base

/-! ### the GENERATED `triangular_spline_flow.make_layer` (g25)

`triSplineInitNet` is the hand model's layer key for the layer AS CONSTRUCTED from `(lt_key, perm_key, cond_key)`: `dim` copies of
`RationalQuadraticSpline(knots=knots, interval=1)`, the weight-normalised `TriangularAffine(zeros(dim), weights.at[diag].set(1))`,
the `Linear` weight when conditional.  `Proofs/Flows.lean` proves the generated closure equal to
`triSplineLayer dim tanh_max_val (triSplineInitNet …, perm_key)` (`gen_tri_spline_make_layer_eq`). -/
def triSplineInitNet (dim knots : Nat) (cond_dim : Option Nat) (key : TriSplineKey α) : TriSplineNet α :=
  { splines := List.replicate dim (rqsCtor knots 1),
    tri := ⟨(weightNormalization (triangularAffineOf (zeros dim) (atSet key.1 (diagIndices dim) 1)).triangular).unwrap,
            zeros dim, true⟩,
    condLinear := cond_dim.map fun _ => key.2.2 }

/-- the generated factory body over the generated closure -/
def genTriSplineFlowBij (dim : Nat) (tanh_max_val : α) (knots : Nat) (cond_dim : Option Nat) (key : Nat → TriSplineKey α)
    (n : Nat) (invert : Bool) : VBij α := triangular_spline_flow.bijection_gen dim tanh_max_val knots cond_dim key n invert
def genTriSplineFlow (dim : Nat) (tanh_max_val : α) (knots : Nat) (cond_dim : Option Nat) (key : Nat → TriSplineKey α)
    (n : Nat) (invert : Bool) (base : VDist K α) : VDist K α :=
  triangular_spline_flow.dist (genTriSplineFlowBij dim tanh_max_val knots cond_dim key n invert) base

/-! ### `planar_flow(…, negative_slope=None)`: tanh activation, forward methods only

`_UnconditionalPlanar.inverse / inverse_and_log_det` raise `NotImplementedError` for tanh, hence so do `Scan.inverse*`
and — for the default `invert=True` — `flow.sample`; `flow.log_prob` works (it runs the layers' `transform_and_log_det`).
The layer record below exists only to be run through the generated `_add_default_permute` / `Chain`; its two inverse
fields are PLACEHOLDERS that no definition, theorem or driver op reads (the driver answers `NOTIMPL` for them). -/
def planarTanhOf (bij_key : List α → List α) (dim : Nat) : VBij α :=
  ⟨planarTanhFwd bij_key dim, fun y _ => y, planarTanhFwdLd bij_key dim, fun y _ => (y, 0)⟩
def planarTanhLayer (dim : Nat) (key : (List α → List α) × List Nat) : VBij α :=
  add_default_permute (planarTanhOf key.1 dim) dim key.2
/-- `Scan(layers).transform` / `.transform_and_log_det` of a tanh planar flow -/
def planarTanhFlowFwd (dim : Nat) (key : Nat → ((List α → List α) × List Nat)) (n : Nat) (x c : List α) : List α :=
  (scanOf (filterVmap (planarTanhLayer dim) (jrSplitN key n))).fwd x c
def planarTanhFlowFwdLd (dim : Nat) (key : Nat → ((List α → List α) × List Nat)) (n : Nat) (x c : List α) : List α × α :=
  (scanOf (filterVmap (planarTanhLayer dim) (jrSplitN key n))).fwdLd x c

/-! ### validity of what `jr.permutation` returns -/

/-- `_add_default_permute` consults the key only when `dim` is neither 1 nor 2; then `jr.permutation(key, arange(dim))`
is a permutation of `0 … dim-1` (this is what the `Permute` constructor's `error_if` accepts: `PermModel.valid_iff`) -/
def PermKeyOK (dim : Nat) (perm : List Nat) : Prop := dim ≠ 1 → dim ≠ 2 → perm.Perm (List.range dim)

end
end Flows
