import Flowjaxv.Gen.LeavesAst
/-!
# The ELBO integrand under reverse-mode differentiation, with and without stick-the-landing

`flowjax/train/losses.py :: ElboLoss.__call__`, for ONE sample, as an expression of the reverse-mode
calculus `Ad.Expr` (`Model/Ad.lean`; `Expr.stopGrad` = `jax.lax.stop_gradient`: forward the identity, reverse NO cotangent):

```
dist    = eqx.combine(params, static)
samples = dist.sample(key, …)                              -- x(θ, ε): differentiable in θ
dist    = eqx.combine(stop_gradient(params), static)       -- stick_the_landing only
log_probs = dist.log_prob(samples)                         -- log q_φ(x), φ = stop_gradient(θ)
(log_probs - vmap(target)(samples)).mean()
```

* the trainable leaves θ are the adjoint keys selected by `Params` (scalar variable ids and vector ids);
* the sample is a list of let-bindings `xs = [(i₁, x₁(θ,ε)), …, (i_d, x_d(θ,ε,x₁…))]` (one per component;
  a later component may use the earlier ones);
* `lq` is `log q_φ(x)` as an expression in the parameter variables and the sample variables `i₁ … i_d`;
  `tg` is `target(x)`;
* `eqx.combine(stop_gradient(params), static)` wraps EVERY occurrence of a trainable leaf inside `log_prob`
  in `stop_gradient`: `sg P lq` (capture-aware: a `let` that re-binds an id hides the parameter of that id).

Everything here is Mathlib-free and executable; `Driver/ElboAd.lean` runs it at `Float` against `jax.grad`
of the real `ElboLoss`, `Proofs/ElboAd.lean` proves the gradient theorems of C17 about it.
-/
namespace ElboAd
open Ad

/-- the trainable leaves: which scalar variables / vector parameters receive the gradient -/
structure Params where
  s : Nat → Bool
  v : Nat → Bool

/-- is this adjoint key (a scalar variable, or one element of a vector parameter) a trainable leaf? -/
def Params.has (P : Params) : Key → Bool
  | .s i => P.s i
  | .v vec _ => P.v vec

/-- under `let i := …` the id `i` denotes the bound intermediate, not a parameter -/
def Params.erase (P : Params) (i : Nat) : Params := { P with s := fun k => P.s k && (k != i) }

variable {N : Type}

/-- `eqx.combine(stop_gradient(params), static)`: every occurrence of a trainable leaf is wrapped in
`stop_gradient` -/
def sg (P : Params) : Expr N → Expr N
  | .var i => if P.s i then .stopGrad (.var i) else .var i
  | .const c => .const c
  | .get vec idx => if P.v vec then .stopGrad (.get vec idx) else .get vec idx
  | .add a b => .add (sg P a) (sg P b)
  | .sub a b => .sub (sg P a) (sg P b)
  | .mul a b => .mul (sg P a) (sg P b)
  | .div a b => .div (sg P a) (sg P b)
  | .neg a => .neg (sg P a)
  | .prim p a => .prim p (sg P a)
  | .bin p a b => .bin p (sg P a) (sg P b)
  | .max a b => .max (sg P a) (sg P b)
  | .min a b => .min (sg P a) (sg P b)
  | .sel c a b => .sel c (sg P a) (sg P b)
  | .letE i v body => .letE i (sg P v) (sg (P.erase i) body)
  | .stopGrad a => .stopGrad a

/-- no differentiable occurrence of a trainable leaf (e.g. the target: a function of the sample alone) -/
def paramFree (P : Params) : Expr N → Bool
  | .var i => !P.s i
  | .const _ => true
  | .get vec _ => !P.v vec
  | .add a b => paramFree P a && paramFree P b
  | .sub a b => paramFree P a && paramFree P b
  | .mul a b => paramFree P a && paramFree P b
  | .div a b => paramFree P a && paramFree P b
  | .neg a => paramFree P a
  | .prim _ a => paramFree P a
  | .bin _ a b => paramFree P a && paramFree P b
  | .max a b => paramFree P a && paramFree P b
  | .min a b => paramFree P a && paramFree P b
  | .sel _ a b => paramFree P a && paramFree P b
  | .letE i v body => paramFree P v && paramFree (P.erase i) body
  | .stopGrad _ => true

/-- `let i₁ := x₁; …; let i_d := x_d; body` -/
def letAll : List (Nat × Expr N) → Expr N → Expr N
  | [], body => body
  | (i, v) :: rest, body => .letE i v (letAll rest body)

/-- is the key one of the sample components? -/
def isSample (xs : List (Nat × Expr N)) : Key → Bool
  | .s i => xs.any (fun iv => iv.1 == i)
  | .v _ _ => false

/-- the adjoints that landed on the sample components: `x̄ = ∂ body / ∂ x`, everything else discarded -/
def sampleCot (xs : List (Nat × Expr N)) (g : Grad N) : Grad N := g.filter (fun kv => isSample xs kv.1)

variable [Num N]

/-- the environment in which the body runs: every sample component bound to its value -/
def bindEnv (env : Env N) : List (Nat × Expr N) → Env N
  | [] => env
  | (i, v) :: rest => bindEnv (env.set i (v.eval env)) rest

/-- one reverse step through `let i := v`: the adjoint accumulated on `i` flows into `v`
(exactly the `letE` rule of `Expr.vjp`) -/
def pull (env : Env N) (i : Nat) (v : Expr N) (g : Grad N) : Grad N :=
  g.filter (fun kv => kv.1 ≠ Key.s i) ++ v.vjp env (Grad.total g (Key.s i))

/-- the reverse pass through the definition of the sample, `x̄ ↦ x̄ · ∂x/∂(θ, ε)`, innermost binding first -/
def pullAll (env : Env N) : List (Nat × Expr N) → Grad N → Grad N
  | [], g => g
  | (i, v) :: rest, g => pull env i v (pullAll (env.set i (v.eval env)) rest g)

/-- the data of one ELBO term -/
structure Elbo (N : Type) where
  /-- trainable leaves θ -/
  P : Params
  /-- the reparameterised sample `x(θ, ε)`, component by component -/
  xs : List (Nat × Expr N)
  /-- `log q_φ(x)` -/
  lq : Expr N
  /-- `target(x)` -/
  tg : Expr N

/-- `log q_φ(x) − target(x)` with the sample components free: `stl = true` evaluates `log q` with
`stop_gradient(params)` -/
def Elbo.body (E : Elbo N) (stl : Bool) : Expr N :=
  .sub (if stl then sg E.P E.lq else E.lq) E.tg

/-- what `ElboLoss.__call__` averages, for one sample -/
def Elbo.integrand (E : Elbo N) (stl : Bool) : Expr N := letAll E.xs (E.body stl)

/-- a sample component is not itself a trainable leaf, and the target is a function of the sample alone -/
def Elbo.wf (E : Elbo N) : Bool := E.xs.all (fun iv => !E.P.s iv.1) && paramFree E.P E.tg

/-- the PATH DERIVATIVE, as reverse mode computes it: differentiate `log q_φ(x) − target(x)` with respect to
the sample only (`x̄`; `x` is a free variable there, so `φ` is held fixed and whatever lands on `φ` is
discarded) and pull `x̄` back through `x(θ, ε)` -/
def Elbo.pathGrad (E : Elbo N) (env : Env N) (ct : N) : Grad N :=
  pullAll env E.xs (sampleCot E.xs ((E.body false).vjp (bindEnv env E.xs) ct))

/-- the SCORE TERM: the adjoint of `log q_φ(x)` with respect to its own parameters `φ` at `φ = θ`, the
sample `x` held fixed (a free variable of `lq`, bound to its value) -/
def Elbo.scoreGrad (E : Elbo N) (env : Env N) (ct : N) : Grad N :=
  (E.lq.vjp (bindEnv env E.xs) ct).filter (fun kv => E.P.has kv.1)

/-! ### `.mean()` over the samples -/
def sumE : List (Expr N) → Expr N
  | [] => .const (Num.ofInt 0)
  | e :: es => .add e (sumE es)

/-- `arr.mean()` = `sum / size` -/
def meanE (es : List (Expr N)) : Expr N := .div (sumE es) (.const (Num.ofInt es.length))

/-! ### expression-level flows built from the GENERATED kernels (`Gen/LeavesAst.lean`)

Elementwise flows `Transformed(StandardNormal, Chain(layers))` in `d` dimensions.  The generated kernels name
their own fields by the small ids `1, 2` (`Affine`: `loc = 1`, `scale = 2`); a layer instance binds them to ITS
leaves with `let` (`scale = SoftPlus.transform(raw)`: `BijectionReparam(scale, SoftPlus())`).  All free ids used
here are ≥ 100, the generated let-ids are ≥ 1000 and only used locally, so nothing is captured. -/

/-- one elementwise layer of one dimension; `affine loc raw` carries the variable ids of its two leaves -/
inductive Layer | affine (loc raw : Nat) | exp | tanh | softplus
deriving Repr

open GenAst in
/-- bind the kernel's field ids to this layer's leaves -/
def withAffine (loc raw : Nat) (e : Expr N) : Expr N :=
  .letE 1 (.var loc) (.letE 2 (SoftPlus.transform.ast (.var raw)) e)

open GenAst in
/-- `bijection.transform_and_log_det(x)` -/
def Layer.fwd : Layer → Expr N → Expr N × Expr N
  | .affine loc raw, x =>
      (withAffine loc raw (Affine.transform_and_log_det.ast x).1, withAffine loc raw (Affine.transform_and_log_det.ast x).2)
  | .exp, x => Exp.transform_and_log_det.ast x
  | .tanh, x => Tanh.transform_and_log_det.ast x
  | .softplus, x => SoftPlus.transform_and_log_det.ast x

open GenAst in
/-- `bijection.inverse_and_log_det(y)` -/
def Layer.inv : Layer → Expr N → Expr N × Expr N
  | .affine loc raw, y =>
      (withAffine loc raw (Affine.inverse_and_log_det.ast y).1, withAffine loc raw (Affine.inverse_and_log_det.ast y).2)
  | .exp, y => Exp.inverse_and_log_det.ast y
  | .tanh, y => Tanh.inverse_and_log_det.ast y
  | .softplus, y => SoftPlus.inverse_and_log_det.ast y

/-- `Chain.transform_and_log_det`: `(x, Σ log-dets)` -/
def chainFwd : List Layer → Expr N → Expr N × Expr N
  | [], x => (x, .const (Num.ofInt 0))
  | l :: ls, x =>
      let r := l.fwd x
      let r' := chainFwd ls r.1
      (r'.1, .add r.2 r'.2)

/-- `Chain.inverse_and_log_det`: the layers in reverse order -/
def chainInv : List Layer → Expr N → Expr N × Expr N
  | [], y => (y, .const (Num.ofInt 0))
  | l :: ls, y =>
      -- invert the LAST layer first: `ls` first, then `l`
      let r' := chainInv ls y
      let r := l.inv r'.1
      (r.1, .add r'.2 r.2)

/-- `jax.scipy.stats.norm.logpdf(z)` = `−(log 2π + z²)/2`; `log 2π` enters as the constant `c` -/
def stdNormalLp (c : N) (z : Expr N) : Expr N :=
  .div (.neg (.add (.const c) (.mul z z))) (.const (Num.ofInt 2))

/-- `Transformed._log_prob` of one dimension: `base._log_prob(z) + log_abs_det`, `(z, log_abs_det) =
bijection.inverse_and_log_det(x)` -/
def lqDim (c : N) (layers : List Layer) (x : Expr N) : Expr N :=
  let r := chainInv layers x
  .add (stdNormalLp c r.1) r.2

/-- `Transformed._sample_and_log_prob` of one dimension: `base._log_prob(ε) − forward_log_det` -/
def lqFwdDim (c : N) (layers : List Layer) (eps : Expr N) : Expr N :=
  .sub (stdNormalLp c eps) (chainFwd layers eps).2

/-- `target(x) = −½ Σ aⱼ (xⱼ − mⱼ)² + κ Σ_{j} xⱼ xⱼ₊₁` (couples neighbouring components) -/
def quadTarget (a m : List N) (kappa : N) (xIds : List Nat) : Expr N :=
  let sq := (xIds.zip (a.zip m)).map fun (i, aj, mj) =>
    (.mul (.const aj) (.mul (.sub (.var i) (.const mj)) (.sub (.var i) (.const mj))) : Expr N)
  let cross := (xIds.zip xIds.tail).map fun (i, j) => (.mul (.var i) (.var j) : Expr N)
  .add (.neg (.div (sumE sq) (.const (Num.ofInt 2)))) (.mul (.const kappa) (sumE cross))

/-- the flow `Transformed(StandardNormal((d,)), Chain(layers))`, dimension `j` using the layer list
`layers j`, noise variable `epsId j` and sample variable `xId j` -/
structure Flow (N : Type) where
  d : Nat
  layers : Nat → List Layer
  epsId : Nat → Nat
  xId : Nat → Nat
  log2pi : N

def Flow.xs (F : Flow N) : List (Nat × Expr N) :=
  (List.range F.d).map fun j => (F.xId j, (chainFwd (F.layers j) (.var (F.epsId j))).1)

def Flow.lq (F : Flow N) : Expr N :=
  sumE ((List.range F.d).map fun j => lqDim F.log2pi (F.layers j) (.var (F.xId j)))

def Flow.lqFwd (F : Flow N) : Expr N :=
  sumE ((List.range F.d).map fun j => lqFwdDim F.log2pi (F.layers j) (.var (F.epsId j)))

/-- the trainable leaves of a flow: the `loc` / `raw` ids of its affine layers -/
def Flow.paramIds (F : Flow N) : List Nat :=
  (List.range F.d).flatMap fun j => (F.layers j).flatMap fun
    | .affine loc raw => [loc, raw]
    | _ => []

def Flow.elbo (F : Flow N) (tg : Expr N) : Elbo N :=
  { P := { s := fun i => F.paramIds.contains i, v := fun _ => false }, xs := F.xs, lq := F.lq, tg := tg }

/-- the non-STL branch as the code evaluates it: `samples, log_probs = dist.sample_and_log_prob(key)` -/
def Flow.integrandFwd (F : Flow N) (tg : Expr N) : Expr N := letAll F.xs (.sub F.lqFwd tg)

end ElboAd
