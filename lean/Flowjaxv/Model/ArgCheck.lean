import Flowjaxv.Prelude.PyShape
import Flowjaxv.Gen.Structure
/-!
# Argument checking of flowjax, as executable total functions into `Except Err` (Mathlib-free)

Hand-written models (tied to the code by `tools/props/c13.py` and, for the wrapper's two inner functions, by the
generated `Gen/ArgCheckGen.lean`):

* `wrapperCheck` / `wrapperCheckVal` — `flowjax.bijections.bijection._unwrap_check_and_cast`
* `distCheck`, `distSampleCheck` — `AbstractDistribution.log_prob / sample` through `_vectorize._check_shapes`
* constructor checks — `check_shapes_match`, `merge_cond_shapes`, `Chain.__init__`, `Concatenate.__init__`
  (`_argcheck_shapes`, axis normalisation `range(ndim)[axis]`), `Stack.__init__`, `Partial.__check_init__`,
  `Reshape.__init__/__check_init__`, `AbstractTransformed.__check_init__`, `TriangularAffine.__init__`,
  the `transformer.shape != () or transformer.cond_shape is not None` test of Coupling / MaskedAutoregressive /
  BlockAutoregressiveNetwork
* reference shape semantics of `jnp.concatenate` / `jnp.stack` (`jnpConcatenateShape`, `jnpStackShape`)
* `resolvedIsWrapped` — Python attribute lookup through the C3 MRO over the *generated* class table, and whether
  the attribute found is one `AbstractBijection.__init_subclass__` wrapped.
-/
namespace ArgCheck
open PyShape

/-! ## `_unwrap_check_and_cast` -/

/-- `_check_x`: `x.shape != bijection.shape → ValueError` -/
def checkX (shape xShape : Shape) : Except Err Unit :=
  if xShape = shape then .ok () else .error .valueError

/-- `_check_condition` on (absent | array) conditions.  Order as in the source: an unconditional bijection
(`cond_shape is None`) returns before any check — whatever is supplied is ignored (dropped); a missing condition
for a conditional bijection raises; then `condition.shape != cond_shape` raises. -/
def checkCondition (condShape cond : Option Shape) : Except Err Unit :=
  match condShape, cond with
  | none, _ => .ok ()
  | some _, none => .error .valueError
  | some cs, some c => if c = cs then .ok () else .error .valueError

/-- the condition the wrapped method body receives: `None` for an unconditional bijection -/
def forwardedCondition (condShape cond : Option Shape) : Option Shape :=
  match condShape with
  | none => none
  | some _ => cond

/-- the wrapper: arguments are evaluated left to right, `_check_x(x)` before `_check_condition(condition)` -/
def wrapperCheck (shape : Shape) (condShape : Option Shape) (xShape : Shape) (cond : Option Shape) :
    Except Err Unit :=
  match checkX shape xShape with
  | .error e => .error e
  | .ok () => checkCondition condShape cond

/-- `_check_x` on arbitrary Python arguments (None / array-like / not array-like); returns the cast value -/
def checkXVal (shape : Shape) : Val → Except Err Val
  | .arr s => if s = shape then .ok (.arr s) else .error .valueError
  | _ => .error .typeError

/-- `_check_condition` on arbitrary Python arguments: the value handed to the method body, or the exception.
An unconditional bijection drops whatever it is given (even something that is not array-like). -/
def checkConditionVal (condShape : Option Shape) (cond : Val) : Except Err Val :=
  match condShape with
  | none => .ok .none
  | some cs =>
      match cond with
      | .none => .error .valueError
      | .notArrayLike => .error .typeError
      | .arr c => if c = cs then .ok (.arr c) else .error .valueError

/-- the whole wrapper on arbitrary arguments: what the wrapped method is called with, or the exception -/
def wrapperCheckVal (shape : Shape) (condShape : Option Shape) (x cond : Val) : Except Err (Val × Val) :=
  match checkXVal shape x with
  | .error e => .error e
  | .ok x' => match checkConditionVal condShape cond with
      | .error e => .error e
      | .ok c' => .ok (x', c')

/-! ## distributions: `jnp.vectorize(_check_shapes(method), signature, excluded)` -/

/-- NumPy broadcasting of two shapes given innermost-first -/
def broadcastRev : List Nat → List Nat → Option (List Nat)
  | [], ys => some ys
  | xs, [] => some xs
  | x :: xs, y :: ys =>
      if x = y then (broadcastRev xs ys).map (x :: ·)
      else if x = 1 then (broadcastRev xs ys).map (y :: ·)
      else if y = 1 then (broadcastRev xs ys).map (x :: ·)
      else none

/-- `jnp.broadcast_shapes a b` -/
def broadcast (a b : Shape) : Option Shape := (broadcastRev a.reverse b.reverse).map List.reverse

/-- split `arg` into (loop dims, the last `core.length` dims) when there are enough dims -/
def splitTrailing (core arg : Shape) : Option (Shape × Shape) :=
  if core.length ≤ arg.length then
    some (arg.take (arg.length - core.length), arg.drop (arg.length - core.length))
  else none

/-- `dist.log_prob(x, condition)`: the batch shape of the result, or the exception.
`cond = none` is a missing condition (`arraylike_to_array(None)` → TypeError for a conditional distribution);
an unconditional distribution excludes the condition from vectorisation and never looks at it. -/
def distCheck (shape : Shape) (condShape : Option Shape) (xShape : Shape) (cond : Option Shape) :
    Except Err Shape :=
  match condShape with
  | none =>
      match splitTrailing shape xShape with
      | none => .error .valueError
      | some (bx, tx) => if tx = shape then .ok bx else .error .valueError
  | some cs =>
      match cond with
      | none => .error .typeError
      | some c =>
          match splitTrailing shape xShape, splitTrailing cs c with
          | some (bx, tx), some (bc, tc) =>
              if tx = shape ∧ tc = cs then
                match broadcast bx bc with
                | some b => .ok b
                | none => .error .valueError
              else .error .valueError
          | _, _ => .error .valueError

/-- `dist.sample(key, sample_shape, condition)`: the shape of the result, or the exception -/
def distSampleCheck (shape : Shape) (condShape : Option Shape) (sampleShape : Shape) (cond : Option Shape) :
    Except Err Shape :=
  match condShape with
  | none => .ok (sampleShape ++ shape)
  | some cs =>
      match cond with
      | none => .error .typeError
      | some c =>
          match splitTrailing cs c with
          | none => .error .valueError
          | some (bc, tc) => if tc = cs then .ok (sampleShape ++ bc ++ shape) else .error .valueError

/-! ## constructor checks -/

/-- `flowjax.utils.check_shapes_match` (nothing to compare on an empty list) -/
def checkShapesMatch : List Shape → Except Err Unit
  | [] => .ok ()
  | s0 :: rest => if (s0 :: rest).all (fun s => decide (s = s0)) then .ok () else .error .valueError

/-- `flowjax.utils.merge_cond_shapes` -/
def mergeCondShapes (shapes : List (Option Shape)) : Except Err (Option Shape) :=
  if shapes.length = 0 then .error .valueError
  else if shapes.all (fun s => s.isNone) then .ok none
  else
    match shapes.filterMap id with
    | [] => .ok none  -- unreachable: some element is not None
    | c :: cs => if (c :: cs).all (fun s => decide (s = c)) then .ok (some c) else .error .valueError

/-- `range(n)[axis]` -/
def normAxis (n : Nat) (axis : Int) : Except Err Nat :=
  if 0 ≤ axis ∧ axis < n then .ok axis.toNat
  else if axis < 0 ∧ -(n : Int) ≤ axis then .ok ((n : Int) + axis).toNat
  else .error .indexError

/-- `shape[:axis] + shape[axis + 1:]` -/
def removeAxis (s : Shape) (ax : Nat) : Shape := s.take ax ++ s.drop (ax + 1)

/-- `Concatenate._argcheck_shapes` -/
def concatenateArgcheck (shapes : List Shape) (axis : Int) : Except Err Unit :=
  match shapes with
  | [] => .error .indexError
  | s0 :: _ =>
      match normAxis s0.length axis with
      | .error e => .error e
      | .ok ax =>
          if shapes.all (fun s => decide (removeAxis s ax = removeAxis s0 ax)) then .ok ()
          else .error .valueError

/-- `s[axis]` -/
def getDim (ax : Nat) (s : Shape) : Except Err Nat :=
  match s[ax]? with
  | some d => .ok d
  | none => .error .indexError

/-- `[s[axis] for s in shapes]` -/
def getDims (ax : Nat) : List Shape → Except Err (List Nat)
  | [] => .ok []
  | s :: rest =>
      match getDim ax s with
      | .error e => .error e
      | .ok d => match getDims ax rest with
          | .error e => .error e
          | .ok ds => .ok (d :: ds)

/-- `Concatenate.__init__`: declared `(shape, cond_shape)` or the exception -/
def concatenateCtor (shapes : List Shape) (conds : List (Option Shape)) (axis : Int) :
    Except Err (Shape × Option Shape) :=
  match concatenateArgcheck shapes axis with
  | .error e => .error e
  | .ok () =>
      match shapes with
      | [] => .error .indexError
      | s0 :: _ =>
          match normAxis s0.length axis with
          | .error e => .error e
          | .ok ax =>
              match getDims ax shapes with
              | .error e => .error e
              | .ok ds =>
                  match mergeCondShapes conds with
                  | .error e => .error e
                  | .ok c => .ok (s0.take ax ++ [ds.sum] ++ s0.drop (ax + 1), c)

/-- `Stack.__init__` -/
def stackCtor (shapes : List Shape) (conds : List (Option Shape)) (axis : Int) :
    Except Err (Shape × Option Shape) :=
  match checkShapesMatch shapes with
  | .error e => .error e
  | .ok () =>
      match shapes with
      | [] => .error .indexError
      | s0 :: _ =>
          match normAxis (s0.length + 1) axis with
          | .error e => .error e
          | .ok ax =>
              match mergeCondShapes conds with
              | .error e => .error e
              | .ok c => .ok (s0.take ax ++ [shapes.length] ++ s0.drop ax, c)

/-- the declared shape of `Stack` alone -/
def stackShape (shapes : List Shape) (axis : Int) : Except Err Shape :=
  match stackCtor shapes (shapes.map fun _ => none) axis with
  | .error e => .error e
  | .ok (s, _) => .ok s

/-- `Chain.__init__` -/
def chainCtor (shapes : List Shape) (conds : List (Option Shape)) : Except Err (Shape × Option Shape) :=
  match checkShapesMatch shapes with
  | .error e => .error e
  | .ok () =>
      match shapes with
      | [] => .error .indexError
      | s0 :: _ =>
          match mergeCondShapes conds with
          | .error e => .error e
          | .ok c => .ok (s0, c)

/-- index kinds of `Partial` that are modelled: a Python int, a `slice(start, stop, step)` -/
inductive Idx where
  | int (i : Int)
  | slice (start stop step : Option Int)
  deriving DecidableEq, Repr

/-- CPython `PySlice_AdjustIndices` clamping of one bound -/
def adjustBound (n : Nat) (stepNeg : Bool) (b : Int) : Int :=
  let b := if b < 0 then b + n else b
  if b < 0 then (if stepNeg then -1 else 0)
  else if b ≥ n then (if stepNeg then (n : Int) - 1 else n)
  else b

/-- `slice.indices(n)[0]` -/
def sliceStart (n : Nat) (neg : Bool) : Option Int → Int
  | none => if neg then (n : Int) - 1 else 0
  | some b => adjustBound n neg b

/-- `slice.indices(n)[1]` -/
def sliceStop (n : Nat) (neg : Bool) : Option Int → Int
  | none => if neg then -1 else (n : Int)
  | some b => adjustBound n neg b

/-- `len(range(lo, hi, st))` for `st ≠ 0` -/
def rangeLen (lo hi st : Int) : Nat :=
  if st < 0 then (if hi < lo then ((lo - hi - 1) / (-st) + 1).toNat else 0)
  else (if lo < hi then ((hi - lo - 1) / st + 1).toNat else 0)

/-- `len(range(*slice(start, stop, step).indices(n)))`; step 0 is a ValueError -/
def sliceLen (n : Nat) (start stop step : Option Int) : Except Err Nat :=
  if step.getD 1 = 0 then .error .valueError
  else .ok (rangeLen (sliceStart n (decide (step.getD 1 < 0)) start) (sliceStop n (decide (step.getD 1 < 0)) stop)
    (step.getD 1))

/-- `jnp.zeros(shape)[idxs].shape` — JAX semantics: a static integer index into a NON-EMPTY axis is not
bounds-checked (out-of-range indices are clamped); "too many indices" for a 0-d array and any integer index into an
axis of size 0 raise IndexError. -/
def indexShape (shape : Shape) : Idx → Except Err Shape
  | .int _ => match shape with
      | [] => .error .indexError
      | 0 :: _ => .error .indexError
      | (_ + 1) :: rest => .ok rest
  | .slice a b c => match shape with
      | [] => .error .indexError
      | n :: rest => match sliceLen n a b c with
          | .error e => .error e
          | .ok k => .ok (k :: rest)

/-- `Partial.__check_init__` -/
def partialCheck (shape : Shape) (idx : Idx) (bshape : Shape) : Except Err Unit :=
  match indexShape shape idx with
  | .error e => .error e
  | .ok s => if s = bshape then .ok () else .error .valueError

/-- `math.prod(shape)` -/
def prod : Shape → Nat
  | [] => 1
  | d :: ds => d * prod ds

/-- `Reshape.__check_init__` on the fields as set by `__init__` -/
def reshapeCheck (selfShape : Shape) (selfCond : Option Shape) (bshape : Shape) (bcond : Option Shape) :
    Except Err Unit :=
  if bcond = none ∧ selfCond ≠ none then .error .valueError
  else if prod selfShape ≠ prod bshape then .error .valueError
  else
    match selfCond, bcond with
    | none, none => .ok ()
    | some a, some b => if prod a ≠ prod b then .error .valueError else .ok ()
    | _, _ => .error .typeError  -- `prod(None)`

/-- `Reshape(bijection, shape, cond_shape)`: `__init__` (defaults "unchanged") then `__check_init__` -/
def reshapeCtor (bshape : Shape) (bcond : Option Shape) (shape? cond? : Option Shape) :
    Except Err (Shape × Option Shape) :=
  let s := shape?.getD bshape
  let c := match cond? with
    | some c => some c
    | none => bcond
  match reshapeCheck s c bshape bcond with
  | .error e => .error e
  | .ok () => .ok (s, c)

/-- `AbstractTransformed.__check_init__` -/
def transformedCheckInit (baseCond bijCond : Option Shape) : Except Err Unit :=
  match baseCond, bijCond with
  | some a, some b => if a = b then .ok () else .error .valueError
  | _, _ => .ok ()

/-- `TriangularAffine.__init__`: `arr.ndim != 2 or arr.shape[0] != arr.shape[1]` -/
def triangularSquareCheck (arrShape : Shape) : Except Err Nat :=
  match arrShape with
  | [a, b] => if a = b then .ok a else .error .valueError
  | _ => .error .valueError

/-- `TriangularAffine.__init__` including `jnp.broadcast_to(loc, (dim,))`; returns the declared shape -/
def triangularCtor (locShape arrShape : Shape) : Except Err Shape :=
  match triangularSquareCheck arrShape with
  | .error e => .error e
  | .ok dim =>
      if locShape = [] ∨ locShape = [1] ∨ locShape = [dim] then .ok [dim] else .error .valueError

/-- Coupling / MaskedAutoregressive (`transformer`) and BlockAutoregressiveNetwork (`activation`):
`shape != () or cond_shape is not None → ValueError` -/
def scalarUnconditionalCheck (shape : Shape) (cond : Option Shape) : Except Err Unit :=
  if shape ≠ [] ∨ cond ≠ none then .error .valueError else .ok ()

/-! ## reference semantics of `jnp.concatenate` / `jnp.stack` on shapes -/

/-- a valid (possibly negative) axis as a position -/
def normIdx (n : Nat) (axis : Int) : Nat := (if axis < 0 then axis + n else axis).toNat

/-- `jnp.concatenate([zeros(s) for s in shapes], axis).shape`: at least one array, all of the same rank ≥ 1, the
axis in `[-rank, rank)`, all dimensions other than the axis equal; the axis dimension is the sum. -/
def jnpConcatenateShape (shapes : List Shape) (axis : Int) : Option Shape :=
  match shapes with
  | [] => none
  | s0 :: _ =>
      if -(s0.length : Int) ≤ axis ∧ axis < s0.length then
        if shapes.all (fun s => decide (s.length = s0.length) &&
            (List.range s0.length).all (fun i => decide (i = normIdx s0.length axis) || decide (s[i]? = s0[i]?))) then
          some (s0.set (normIdx s0.length axis) ((shapes.map (fun s => s[normIdx s0.length axis]?.getD 0)).sum))
        else none
      else none

/-- `jnp.stack([zeros(s) for s in shapes], axis).shape`: at least one array, all shapes equal, the axis in
`[-(rank+1), rank+1)`; a new dimension of size `len(shapes)` is inserted at the axis. -/
def jnpStackShape (shapes : List Shape) (axis : Int) : Option Shape :=
  match shapes with
  | [] => none
  | s0 :: _ =>
      if -((s0.length : Int) + 1) ≤ axis ∧ axis < (s0.length : Int) + 1 then
        if shapes.all (fun s => decide (s = s0)) then
          some (s0.insertIdx (normIdx (s0.length + 1) axis) shapes.length)
        else none
      else none

/-! ## which attribute does Python find, and did the hook wrap it? -/
section Resolve
open Gen.Structure

def findRow (tbl : List ClassRow) (n : String) : Option ClassRow := tbl.find? (fun r => r.name == n)

/-- one step of the C3 merge: the first head that is in the tail of no sequence -/
def c3pick (seqs : List (List String)) : Option String :=
  seqs.findSome? fun s =>
    match s with
    | [] => none
    | h :: _ => if seqs.all (fun t => !(t.drop 1).contains h) then some h else none

/-- C3 merge with fuel (`none` = inconsistent hierarchy or out of fuel) -/
def c3merge : Nat → List (List String) → Option (List String)
  | 0, _ => none
  | fuel + 1, seqs =>
      let seqs := seqs.filter (fun s => !s.isEmpty)
      if seqs.isEmpty then some []
      else
        match c3pick seqs with
        | none => none
        | some h =>
            (c3merge fuel (seqs.map fun s => if s.head? = some h then s.drop 1 else s)).map (h :: ·)

/-- Python's `cls.__mro__` restricted to the classes defined in flowjax (+ the external base names as opaque
leaves): `L[C] = C :: merge(L[B1], …, L[Bn], [B1 … Bn])` -/
def mroAux (tbl : List ClassRow) : Nat → String → Option (List String)
  | 0, _ => none
  | fuel + 1, c =>
      match findRow tbl c with
      | none => some [c]
      | some r =>
          match r.bases.mapM (mroAux tbl fuel) with
          | none => none
          | some ls =>
              (c3merge ((ls.map List.length).sum + r.bases.length + 1) (ls ++ [r.bases])).map (c :: ·)

def mro (tbl : List ClassRow) (c : String) : Option (List String) := mroAux tbl (tbl.length + 1) c

/-- does the class body bind the name at all -/
def rowBinds (r : ClassRow) (m : String) : Bool :=
  r.plainDefs.contains m || r.abstractDefs.contains m || r.otherBindings.contains m

/-- the first class along the MRO whose body binds `m` -/
def resolveAttr (tbl : List ClassRow) (cls m : String) : Option ClassRow :=
  match mro tbl cls with
  | none => none
  | some l => l.findSome? fun c =>
      match findRow tbl c with
      | some r => if rowBinds r m then some r else none
      | none => none

/-- the class whose `__init_subclass__` runs when `cls` is created: the first definer along `mro(cls)[1:]` -/
def hookOwner (tbl : List ClassRow) (cls : String) : Option String :=
  match mro tbl cls with
  | none => none
  | some l => (l.drop 1).findSome? fun c =>
      match findRow tbl c with
      | some r => if r.definesInitSubclass then some r.name else none
      | none => none

def rootName : String := "AbstractBijection"

/-- the hook of `AbstractBijection` runs for this class, and nothing at class level can have replaced what it set
(no class decorator, no metaclass / keyword arguments of its own) -/
def hookApplies (tbl : List ClassRow) (r : ClassRow) : Bool :=
  r.name != rootName && hookOwner tbl r.name == some rootName && r.classDecorators.isEmpty &&
    r.classKeywords.isEmpty && !r.nested

/-- The attribute `cls.<meth>` Python resolves is a function defined by a plain `def` in the body of a class for
which the `AbstractBijection.__init_subclass__` hook ran with `meth` in its `wrap_methods`: it was replaced by
`_unwrap_check_and_cast(def)`. -/
def resolvedIsWrapped (tbl : List ClassRow) (cls meth : String) : Bool :=
  match resolveAttr tbl cls meth with
  | none => false
  | some r =>
      r.plainDefs.contains meth && !r.otherBindings.contains meth && !r.abstractDefs.contains meth &&
        wrapMethods.contains meth && hookApplies tbl r

/-- every one of the four methods resolves to a non-abstract binding: the class can be instantiated -/
def isConcrete (tbl : List ClassRow) (cls : String) : Bool :=
  fourMethods.all fun m =>
    match resolveAttr tbl cls m with
    | none => false
    | some r => !r.abstractDefs.contains m

/-- all the classes Python may look at -/
def fullTable : List ClassRow := bijectionTable ++ bijectionAuxTable

/-- the hook and the wrapper have the structure the model was written for -/
def hookCanonical : Bool :=
  hookFound && hookDecorators.isEmpty && hookParams == ["cls"] && hookLoopVar == "meth" &&
    hookLoopIter == "wrap_methods" &&
    hookGuardSrc == "meth in cls.__dict__ and (not hasattr(cls.__dict__[meth], '__isabstractmethod__'))" &&
    hookActionSrc == "setattr(cls, meth, _unwrap_check_and_cast(cls.__dict__[meth]))" &&
    hookExtraStmts == ""

def wrapperCanonical : Bool :=
  wrapperFound && wrapperOuterParams == ["method"] && wrapperReturnsInner &&
    wrapperInnerDecorators == ["functools.wraps(method)"] &&
    wrapperInnerParams == ["bijection", "x", "condition"] && wrapperInnerDefaults == ["None"] &&
    wrapperReturnSrc == "method(unwrap(bijection), _check_x(x), _check_condition(condition))" &&
    wrapperExtraStmts == ""

/-- no `setattr` anywhere in flowjax can rebind one of the four names except the hook's own -/
def onlyHookSetattr : Bool :=
  setattrSites.all fun s =>
    s.1 == "flowjax/bijections/bijection.py" && s.2.1 == "AbstractBijection.__init_subclass__"

/-- nothing in flowjax reaches behind a wrapper (`.__wrapped__`, `.__dict__`, `__getattribute__`, `vars`) except the
hook itself reading `cls.__dict__` -/
def noUnwrapBypass : Bool :=
  unwrapBypassSites.all fun s =>
    s.1 == "flowjax/bijections/bijection.py" && s.2.1 == "AbstractBijection.__init_subclass__" && s.2.2 == "cls.__dict__"

/-- distribution side: the three public methods unwrap first, go through `self._vectorize(self._m)`, and no
subclass overrides them or the vectoriser -/
def distMethodsCanonical : Bool :=
  distMethods.map (fun r => (r.name, r.vectorizedVia)) ==
      [("log_prob", "_log_prob"), ("sample", "_sample"), ("sample_and_log_prob", "_sample_and_log_prob")] &&
    distMethods.all (fun r => r.firstStmtIsSelfUnwrap && r.castsConditionWhenConditional && r.decorators.isEmpty) &&
    vectorizeFound && vectorizeCheckCompareSrc == "arg.shape != in_shape" && vectorizeCheckRaises == "ValueError" &&
    vectorizeCheckLoopsOverInShapes &&
    vectorizeReturnSrc == "jnp.vectorize(_check_shapes(method), signature=signature, excluded=ex)"

def distNoOverrides : Bool :=
  (distributionTable ++ distributionAuxTable).all fun r =>
    r.name == "AbstractDistribution" ||
      (r.plainDefs.isEmpty && r.abstractDefs.isEmpty && r.otherBindings.isEmpty)

end Resolve

end ArgCheck
