import Flowjaxv.Gen.TriangularGen
/-!
# `unwrap` of the stored `TriangularAffine` — the hand composition over the GENERATED bodies

`flowjax.wrappers.unwrap` replaces every unwrappable by its `unwrap()`, children first: the `BijectionReparam` stored under the
`Lambda`'s keyword `diag` becomes `SoftPlus.transform(raw)` per element (generated `Wr.BijectionReparam.unwrap`), then the `Lambda`
itself becomes `fn(**kwargs)` (generated `Wr.Lambda.unwrap`) with `fn` = the generated closure `toTriangular lower`.
Only this traversal order is written by hand (it is the subject of C12); Mathlib-free, executable.
-/
namespace TriGen
open Gen
variable {α : Type} [Add α] [Sub α] [Mul α] [Div α] [Neg α] [LT α] [LE α] [BEq α]
  [OfNat α 0] [OfNat α 1] [OfNat α 2] [OfNat α 4] [OfScientific α]
  [DecidableLT α] [DecidableLE α] [Transc α] [Inhabited α]

/-- `unwrap(self.triangular)` -/
def unwrapTriangular (s : TriangularAffineStored α) : List (List α) :=
  (({ fn := fun (_ : Unit) (kw : List α × List (List α)) => TriangularAffine.toTriangular s.lower kw.1 kw.2,
      args := (), kwargs := (s.triangular_diag.map Wr.BijectionReparam.unwrap, s.triangular_arr) } :
    Wr.Lambda Unit (List α × List (List α)) (List (List α)))).unwrap

/-- `unwrap(bijection)`: what the wrapped methods receive as `self` -/
def unwrap (s : TriangularAffineStored α) : TriangularAffine α :=
  { triangular := unwrapTriangular s, loc := s.loc, lower := s.lower }

/-- the stored object with the raw (trainable) diagonal replaced — `eqx.tree_at(… .kwargs["diag"].arr …)` -/
def withRaw (s : TriangularAffineStored α) (raw : List α) : TriangularAffineStored α :=
  { s with triangular_diag := raw.map fun r => ⟨r, SoftPlus.toBij⟩ }

/-- stored object for given raw diagonal parameters, matrix, `loc` (no constructor checks) -/
def ofRaw (lower : Bool) (raw : List α) (arr : List (List α)) (loc : List α) : TriangularAffineStored α :=
  { triangular_diag := raw.map fun r => ⟨r, SoftPlus.toBij⟩, triangular_arr := arr, lower := lower,
    shape := [arr.length], loc := loc }

/-- the four generated methods as a bijection record -/
def toBij {C : Type} (t : TriangularAffine α) : Bij (List α) C α :=
  ⟨fun x _ => t.transform x, fun y _ => t.inverse y,
   fun x _ => t.transform_and_log_det x, fun y _ => t.inverse_and_log_det y⟩

end TriGen
