import Flowjaxv.Model.NetInverse
import Flowjaxv.Gen.Bnaf
/-!
# `BlockAutoregressiveNetwork.transform_and_log_det` — the code's OWN log-det computation (hand-written model)

Mathlib-free and executable.  Extends `Model/Masks.lean` (`BnafLayer`, `bnafForward`, `bnafTransform`: nothing there is
changed); the log-space kernel `Gen.logmatmulexp` is GENERATED from the source (`Gen/Bnaf.lean`).  Every definition cites
the source lines of `flowjax/bijections/block_autoregressive_network.py` it models; the tie to the code is the
correspondence `tools/props/bnafld.py` (driver op `bnafld`).

Log-domain arrays have entries `Jnp.Ext α = Option α` (`none` = `-inf`, see `Prelude/JnpExt.lean`); a 3-d array
`(n_blocks, r, c)` is a list of `n_blocks` matrices.
-/

namespace Masks

abbrev Blocks (α : Type) := List (List (List (Jnp.Ext α)))

section sel
variable {α : Type}

/-- `linear.weight[jnp.where(mask, size=…)]`: the entries under a `True` of the mask in ROW-MAJOR order
(`jnp.where` of a 2-d Boolean array lists the `True` positions row by row; `size` equals their number here). -/
def selectMask (mask : Mask) (W : List (List α)) : List α :=
  (List.zip mask W).flatMap fun mw => (List.zip mw.1 mw.2).filterMap fun p => if p.1 then some p.2 else none

/-- `flat.reshape(n, b0, b1)` (C order) -/
def reshape3 (n b0 b1 : Nat) (flat : List α) : List (List (List α)) :=
  (List.range n).map fun k => (List.range b0).map fun r => (flat.drop ((k * b0 + r) * b1)).take b1

end sel

section model
variable {α : Type} [Add α] [Sub α] [Mul α] [Div α] [Neg α] [LT α] [LE α] [BEq α]
  [OfNat α 0] [OfNat α 1] [OfNat α 2] [OfNat α 4] [OfScientific α]
  [DecidableLT α] [DecidableLE α] [Transc α] [Inhabited α]

/-- `linear_to_log_block_diagonal(linear)` (lines 223-226): `idxs = jnp.where(block_diag_mask, size=prod(block_shape)*n_blocks)`;
`jac_3d = linear.weight[idxs].reshape(n_blocks, *block_shape)`; `jnp.log(jac_3d)` — `linear.weight` is the UNWRAPPED
(masked, softplus-diagonal, weight-normalised) weight `BnafLayer.unwrapW`. -/
def BnafLayer.logJac (L : BnafLayer α) : Blocks α :=
  (reshape3 L.n L.b0 L.b1 (selectMask (blockDiagMask L.b0 L.b1 L.n) L.unwrapW)).map fun blk =>
    blk.map fun row => row.map Jnp.Ext.log

/-- the log part of `_activation_and_log_jacobian_3d` (lines 186-194): `jnp.full((n, bd, bd), -inf)` with
`[:, diag, diag]` set to `log_abs_grads.reshape(n, bd)` -/
def actLogJac (n bd : Nat) (logAbsGrads : List α) : Blocks α :=
  (reshapeRows n logAbsGrads).map fun row =>
    (List.range bd).map fun r => (List.range bd).map fun c => if r = c then row[r]? else none

/-- the loop of `transform_and_log_det` (lines 161-173): returns the output and the list `log_dets_3ds`.
`A = activation.transform_and_log_det` on a scalar (`eqx.filter_vmap` applies it to every unit); `condTerm` is
`cond_linear(condition)`, added after the first layer when that layer is not the last one. -/
def bnafFwdLds (A : α → α × α) (n bd : Nat) :
    (first : Bool) → Option (List α) → List (BnafLayer α) → List α → List α × List (Blocks α)
  | _, _, [], x => (x, [])
  | _, _, [L], x => (L.apply x, [L.logJac])
  | first, condTerm, L :: L' :: Ls, x =>
    let h := L.apply x
    let h := match first, condTerm with
      | true, some c => List.zipWith (· + ·) h c
      | _, _ => h
    let r := bnafFwdLds A n bd false condTerm (L' :: Ls) (h.map fun z => (A z).1)
    (r.1, L.logJac :: actLogJac n bd (h.map fun z => (A z).2) :: r.2)

/-- `logmatmulexp` on 3-d arrays: `amax` over the last / second-to-last axis, `matmul`, and the broadcasts all act per leading index -/
def logmatmulexp3 (x y : Blocks α) : Blocks α := List.zipWith Gen.logmatmulexp x y

/-- `log_det = log_dets_3ds[-1]; for log_jacobian in reversed(log_dets_3ds[:-1]): log_det = logmatmulexp(log_det, log_jacobian)`
(lines 175-177).  (`log_dets_3ds` is never empty: there is always a last layer.) -/
def combineLds (lds : List (Blocks α)) : Blocks α :=
  match lds.reverse with
  | [] => []
  | last :: rest => rest.foldl logmatmulexp3 last

/-- `log_det.sum()` over every entry (an `-inf` entry makes the sum `-inf`) -/
def sumAll (b : Blocks α) : Jnp.Ext α := (b.flatten.flatten).foldl Jnp.Ext.add (some 0)

/-- **`BlockAutoregressiveNetwork.transform_and_log_det(x, condition)`** -/
def bnafTransformAndLogDet (A : α → α × α) (n bd : Nat) (layers : List (BnafLayer α))
    (condLinear : Option (List (List α))) (x cond : List α) : List α × Jnp.Ext α :=
  let r := bnafFwdLds A n bd true (condLinear.map fun C => C.map fun row => Jnp.dot row cond) layers x
  (r.1, sumAll (combineLds r.2))

/-- **`BlockAutoregressiveNetwork.inverse_and_log_det(y, condition)`** (lines 182-185) for an arbitrary `inverter`
(`x = self.inverter(self, y, condition)`; by default `AutoregressiveBisectionInverter`, modelled in `Model/Bisection.lean`):
`_, forward_log_det = self.transform_and_log_det(x, condition); return x, -forward_log_det`. -/
def bnafInverseAndLogDet (A : α → α × α) (n bd : Nat) (layers : List (BnafLayer α))
    (condLinear : Option (List (List α))) (inverter : List α → List α → List α) (y cond : List α) : List α × Jnp.Ext α :=
  let x := inverter y cond
  (x, Jnp.Ext.neg (bnafTransformAndLogDet A n bd layers condLinear x cond).2)

end model

end Masks
