import Flowjaxv.Model.Tree
import Flowjaxv.Gen.Wrappers
/-!
# The abstract per-class `.unwrap()` bodies of `Model/Tree.lean` (`WrapFn`) instantiated with the GENERATED bodies

`Gen/Wrappers.lean` is re-translated from `/repo/flowjax/wrappers.py` on every run.  Here those bodies are lifted to the
array leaves of the pytree model (`PyTree.Arr`: `base` = a 1-d array / the last axis, `batch xs` = `jnp.stack xs`, so a matrix is
a `batch` of `base` rows and a rank-3 array a `batch` of matrices) and assembled into one `WrapFn`:

* `Where`              — `Gen.Wr.Where.unwrap` for every element (`cond` is stored as `0/1` data; `if_false` a one-element array is
                         broadcast, otherwise it must be shaped like `if_true`),
* `WeightNormalization` — `Gen.Wr.WeightNormalization.unwrap` on a matrix, `Gen.Wr.WeightNormBatch.unwrap` on a rank-3 array, slice by
                         slice above that; `scale` has the `keepdims` shape `(…, rows, 1)`,
* `BijectionReparam`   — `Gen.Wr.BijectionReparam.unwrap` for every element, the bijection looked up from the (static) bijection child,
* `Lambda`             — `Gen.Wr.Lambda.unwrap` of an arbitrary function of the (unwrapped) children,
* `NonTrainable`       — `Gen.Wr.NonTrainable.unwrap` over the model's own `eqx.partition` / `eqx.combine`.

Mathlib-free and executable (driver op `gwrap`, compared with the real `unwrap` by `tools/props/c12.py`).
-/
namespace PyTree
open Gen.Wr

section
variable {α : Type} [Add α] [Sub α] [Mul α] [Div α] [Neg α] [LT α] [LE α] [BEq α]
  [OfNat α 0] [OfNat α 1] [OfNat α 2] [OfNat α 4] [OfScientific α]
  [DecidableLT α] [DecidableLE α] [Transc α] [Inhabited α]

/-! ## arrays as nested lists -/

def Arr.row? : Arr α → Option (List α)
  | .base d => some d
  | .batch _ => none

def Arr.matrix? : Arr α → Option (List (List α))
  | .batch xs => xs.mapM Arr.row?
  | .base _ => none

def Arr.tensor3? : Arr α → Option (List (List (List α)))
  | .batch xs => xs.mapM Arr.matrix?
  | .base _ => none

def Arr.ofMatrix (m : List (List α)) : Arr α := .batch (m.map .base)
def Arr.ofTensor3 (t : List (List (List α))) : Arr α := .batch (t.map Arr.ofMatrix)

/-- a `keepdims` column `(rows, 1)` as the list of its entries -/
def colOf (m : List (List α)) : List α := m.map fun r => r.headD default

mutual
def Arr.map (f : α → α) : Arr α → Arr α
  | .base d => .base (d.map f)
  | .batch xs => .batch (Arr.mapL f xs)
def Arr.mapL (f : α → α) : List (Arr α) → List (Arr α)
  | [] => []
  | x :: xs => x.map f :: Arr.mapL f xs
end

/-! ## `Where.unwrap` on arrays -/

mutual
/-- scalar `if_false` (broadcast) -/
def whereArrS (v : α) : Arr α → Arr α → Arr α
  | .base c, .base a => .base (List.zipWith (fun c a => (⟨c != 0, a, v⟩ : Where α).unwrap) c a)
  | .batch cs, .batch as => .batch (whereArrSL v cs as)
  | _, a => a
def whereArrSL (v : α) : List (Arr α) → List (Arr α) → List (Arr α)
  | c :: cs, a :: as => whereArrS v c a :: whereArrSL v cs as
  | _, _ => []
end

mutual
/-- `if_false` shaped like `if_true` -/
def whereArrA : Arr α → Arr α → Arr α → Arr α
  | .base c, .base a, .base b =>
      .base (List.zipWith (fun c (p : α × α) => (⟨c != 0, p.1, p.2⟩ : Where α).unwrap) c (List.zip a b))
  | .batch cs, .batch as, .batch bs => .batch (whereArrAL cs as bs)
  | _, a, _ => a
def whereArrAL : List (Arr α) → List (Arr α) → List (Arr α) → List (Arr α)
  | c :: cs, a :: as, b :: bs => whereArrA c a b :: whereArrAL cs as bs
  | _, _, _ => []
end

def whereArr (c a b : Arr α) : Arr α :=
  match b with
  | .base [v] => whereArrS v c a
  | _ => whereArrA c a b

/-! ## `WeightNormalization.unwrap` on arrays -/

mutual
def wnArr : Arr α → Arr α → Arr α
  | .batch ws, .batch ss =>
      match (Arr.batch ws).matrix?, (Arr.batch ss).matrix? with
      | some W, some S => Arr.ofMatrix (WeightNormalization.unwrap ⟨W, colOf S⟩)
      | _, _ =>
        match (Arr.batch ws).tensor3?, (Arr.batch ss).tensor3? with
        | some W, some S => Arr.ofTensor3 (WeightNormBatch.unwrap ⟨W, S.map colOf⟩)
        | _, _ => .batch (wnArrL ws ss)
  | a, _ => a
def wnArrL : List (Arr α) → List (Arr α) → List (Arr α)
  | w :: ws, s :: ss => wnArr w s :: wnArrL ws ss
  | _, _ => []
end

/-! ## the `WrapFn` -/

def nthT (cs : List (Tree α)) (j : Nat) : Tree α := cs.getD j .none

/-- identity tag and dtype class of the result: those of the array the wrapper transforms (a fresh name when that child is
not an array) — a function of the children's skeleton only -/
def idix (tag : Nat) : Tree α → Nat × Bool
  | .arr id ix _ => (id, ix)
  | _ => (1000 + tag, true)

def staticId : Tree α → Nat
  | .static id => id
  | _ => 0

/-- the model's own `eqx.partition` / `eqx.combine` (`Model/Tree.lean`) as the record the generated `NonTrainable.unwrap` takes -/
def treePartition : Wrappers.EqxPartition (Tree α) := { partition := fun t => (partP t, partS t), combine := combine }

/-- `bij id` = the bijection record of a `BijectionReparam` whose (static) bijection child is named `id`;
`lam tag` = the function of the `Lambda` node `tag` acting on its unwrapped children. -/
def genWrapFn (bij : Nat → Bij α Unit α) (lam : Nat → List (Tree α) → Tree α) : WrapFn α := fun k tag cs =>
  match k with
  | .whereK =>
      let p := idix tag (nthT cs 1)
      .arr p.1 p.2 (whereArr (nthT cs 0).arrOf (nthT cs 1).arrOf (nthT cs 2).arrOf)
  | .weightNorm =>
      let p := idix tag (nthT cs 0)
      .arr p.1 p.2 (wnArr (nthT cs 0).arrOf (nthT cs 1).arrOf)
  | .reparam =>
      let p := idix tag (nthT cs 0)
      .arr p.1 p.2 ((nthT cs 0).arrOf.map fun x => (⟨x, bij (staticId (nthT cs 1))⟩ : BijectionReparam α α).unwrap)
  | .lambda => (⟨fun (args : List (Tree α)) (_ : Unit) => lam tag args, cs, ()⟩ : Lambda (List (Tree α)) Unit (Tree α)).unwrap
  | .nonTrainable => (⟨match cs with | [c] => c | _ => .node cs⟩ : NonTrainable (Tree α)).unwrap treePartition

end
end PyTree
