import Flowjaxv.Gen.JaxTransforms
import Flowjaxv.Model.ToBij
/-!
# Packaging the GENERATED `Scan` / `Vmap` methods as `Bij` records (hand-written glue, Mathlib-free, executable)

The four fields are exactly the four generated methods of `Gen/JaxTransforms.lean`; nothing is recomputed here.
-/
open GenJaxTr

/-- the generated `Scan` methods as a record -/
def JaxTr.Scan.toBij {X C α : Type} [Add α] [OfNat α 0] (s : JaxTr.Scan X C α) : Bij X C α :=
  ⟨Scan.transform s, Scan.inverse s, Scan.transform_and_log_det s, Scan.inverse_and_log_det s⟩

/-- `Scan(layers)` for a stacked module given by its unstacked layers -/
def JaxTr.scanOfLayers {X C α : Type} (layers : List (Bij X C α)) (shape : List Nat := []) (cond : Option (List Nat) := none) :
    JaxTr.Scan X C α := ⟨⟨layers, shape, cond⟩⟩

/-- the generated `Vmap` methods as a record -/
def JaxTr.Vmap.toBij {κ α : Type} [Add α] [OfNat α 0] (v : JaxTr.Vmap κ α) : Bij (Arr κ) (Arr κ) α :=
  ⟨Vmap.transform v, Vmap.inverse v, Vmap.transform_and_log_det v, Vmap.inverse_and_log_det v⟩
