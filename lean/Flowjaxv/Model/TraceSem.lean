import Flowjaxv.Model.Trace
/-!
# Concrete semantics of control-flow skeletons (C14)

`Model/Trace.lean` abstracts a Python method to a skeleton (`Stmt`) and defines the decidable staging
discipline `check`.  This file gives skeletons a CONCRETE, executable semantics, parametric in

* a value type `Val` and a static-aspect map `aspect : Val → Aspect` (shape / dtype / None-ness / pytree
  structure — what a JAX tracer still knows),
* an evaluator `ev : E → (String → Val) → Val` for the abstracted expressions,
* `truthy : Val → Bool` (Python `bool(v)`), `items : Val → List Val` (Python `iter(v)`),

bundled as `Sem Val Aspect`.  `exec S fuel σ prog` runs `prog` from store `σ` and returns the final
store, an `Outcome` and the control `Path`: every Python-level decision taken on the way
(`branch b` for each `if`/`while` test, `iter`/`done` for each `for` iteration / exhaustion,
`forced v` for each `assert`/`bool()`/`int()`/`float()`/`.item()`, `raise`).  The path is exactly the
information a trace bakes in: JAX records ONE path while running the method on tracers, and replays
it for every later call.

Simplifications (all on the side of the skeleton abstraction, none affects control flow):
every target of an assignment receives the whole right-hand value; every loop variable receives the
current item; `force` records the forced value in the path and continues (whether an `assert` then
raises is a function of the recorded value); `exprS` has no effect; `hazard` yields the distinguished
outcome `stuck` (never produced by a checked skeleton: `Trace.ok_not_stuck`).

Fuel: `while` is the only unbounded construct; every `while` loop may run at most `fuel` iterations,
otherwise `exec` returns `none`.  `for` iterates over the (finite) item list computed ONCE on entry,
as Python does.  Recursion is structural over `Stmt`/`List Stmt` (mutual, nested inductive); the two
loop drivers `loopFor`/`loopWhile` are ordinary structural recursions over the item list / the fuel and
take the body's semantics as a function.  Mathlib-free, executable.
-/
namespace Trace

/-- one Python-level control decision -/
inductive Event (Val : Type) where
  /-- an `if` or `while` test evaluated to `b` -/
  | branch (b : Bool)
  /-- a `for` loop starts one more iteration -/
  | iter
  /-- a `for` loop's iterator is exhausted -/
  | done
  /-- `assert t`, `bool(t)`, `int(t)`, `float(t)`, `t.item()` produced the concrete value `v` -/
  | forced (v : Val)
  /-- a `raise` statement was reached -/
  | raise
deriving DecidableEq, Repr

/-- how a block ended; `returned` remembers WHICH `return` expression was reached -/
inductive Outcome (Val : Type) where
  | normal
  | returned (e : E) (v : Val)
  | raised
  /-- a `hazard` statement was reached (the discipline forbids it) -/
  | stuck (kind : String)
deriving Repr

abbrev Store (Val : Type) := String → Val

structure Result (Val : Type) where
  store : Store Val
  out : Outcome Val
  path : List (Event Val)

/-- the semantic parameters -/
structure Sem (Val Aspect : Type) where
  aspect : Val → Aspect
  ev : E → Store Val → Val
  truthy : Val → Bool
  items : Val → List Val

variable {Val Aspect : Type}

/-- bind every name of `ts` to `x` -/
def bindAll (ts : List String) (x : Val) (σ : Store Val) : Store Val :=
  fun v => if ts.contains v then x else σ v

/-- prefix the path of a result -/
def Result.pre (p : List (Event Val)) (r : Result Val) : Result Val :=
  { r with path := p ++ r.path }

/-- sequencing: continue with `k` from the store of `r` iff `r` ended normally -/
def Result.andThen (r : Result Val) (k : Store Val → Option (Result Val)) : Option (Result Val) :=
  match r.out with
  | .normal => (k r.store).map (Result.pre r.path)
  | _ => some r

/-- `for vs in xs: body` — the item list was computed on entry -/
def loopFor (body : Store Val → Option (Result Val)) (vs : List String) :
    List Val → Store Val → Option (Result Val)
  | [], σ => some ⟨σ, .normal, [.done]⟩
  | x :: xs, σ =>
    (body (bindAll vs x σ)).bind fun r => (r.andThen (loopFor body vs xs)).map (Result.pre [.iter])

/-- `while test: body`, at most `fuel` iterations -/
def loopWhile (test : Store Val → Bool) (body : Store Val → Option (Result Val)) :
    Nat → Store Val → Option (Result Val)
  | 0, σ => if test σ then none else some ⟨σ, .normal, [.branch false]⟩
  | n + 1, σ =>
    if test σ then
      (body σ).bind fun r => (r.andThen (loopWhile test body n)).map (Result.pre [.branch true])
    else some ⟨σ, .normal, [.branch false]⟩

mutual
def Stmt.exec (S : Sem Val Aspect) (fuel : Nat) : Stmt → Store Val → Option (Result Val)
  | .assign ts e, σ => some ⟨bindAll ts (S.ev e σ) σ, .normal, []⟩
  | .ifS t a b, σ =>
    if S.truthy (S.ev t σ) then (execL S fuel a σ).map (Result.pre [.branch true])
    else (execL S fuel b σ).map (Result.pre [.branch false])
  | .forS vs it body, σ =>
    loopFor (fun σ' => execL S fuel body σ') vs (S.items (S.ev it σ)) σ
  | .whileS t body, σ =>
    loopWhile (fun σ' => S.truthy (S.ev t σ')) (fun σ' => execL S fuel body σ') fuel σ
  | .force t, σ => some ⟨σ, .normal, [.forced (S.ev t σ)]⟩
  | .ret e, σ => some ⟨σ, .returned e (S.ev e σ), []⟩
  | .exprS _, σ => some ⟨σ, .normal, []⟩
  | .raiseS, σ => some ⟨σ, .raised, [.raise]⟩
  | .hazard k, σ => some ⟨σ, .stuck k, []⟩
def execL (S : Sem Val Aspect) (fuel : Nat) : List Stmt → Store Val → Option (Result Val)
  | [], σ => some ⟨σ, .normal, []⟩
  | s :: ss, σ => (s.exec S fuel σ).bind fun r => r.andThen (fun σ' => execL S fuel ss σ')
end

/-- run a method body: `none` = some `while` loop exceeded `fuel` iterations -/
def exec (S : Sem Val Aspect) (fuel : Nat) (σ : Store Val) (prog : List Stmt) : Option (Result Val) :=
  execL S fuel prog σ

end Trace
