import Flowjaxv.Prelude.Jnp
/-!
# C09 — masks, rank vectors, masked MLP, coupling and block-autoregressive layers (hand-written model)

Mathlib-free and executable.  Arrays are lists (matrices = lists of rows, `out × in` as in
`eqx.nn.Linear.weight`).  Every definition cites the source line it models; the tie to the
code is the correspondence in `tools/props/c09.py` (masks / rank vectors compared entry by
entry with the real `flowjax.masks.*` and with the `Where.cond` arrays of a real
`MaskedAutoregressive`; the forward passes compared at `Float`).
-/

namespace Masks

abbrev Mask := List (List Bool)

/-- entry `(r, c)` of a Boolean matrix (only ever used with in-range indices in statements) -/
def entry (m : Mask) (r c : Nat) : Bool := (m.getD r []).getD c false

/-- `m` has shape `(rows, cols)` -/
def HasShape {β : Type} (m : List (List β)) (rows cols : Nat) : Prop :=
  m.length = rows ∧ ∀ row ∈ m, row.length = cols

/-! ## `flowjax/masks.py` -/

/-- `rank_based_mask(in_ranks, out_ranks, eq)`: `op(out_ranks[:, None], in_ranks)` with
`op = ge if eq else gt` (masks.py:34-35). -/
def rankBasedMask (inRanks outRanks : List Int) (eq : Bool) : Mask :=
  outRanks.map fun o => inRanks.map fun i => if eq then decide (o ≥ i) else decide (o > i)

/-- `block_diag_mask(block_shape=(b0,b1), n_blocks)`: `jax.scipy.linalg.block_diag` of `n`
all-true `b0 × b1` blocks (masks.py:40): block `k` contributes `b0` rows, each `k*b1` falses,
`b1` trues, `(n-1-k)*b1` falses. -/
def blockDiagMask (b0 b1 n : Nat) : Mask :=
  (List.range n).flatMap fun k =>
    List.replicate b0
      (List.replicate (k * b1) false ++ List.replicate b1 true ++ List.replicate ((n - 1 - k) * b1) false)

/-- `jnp.zeros((rows, cols), bool)` -/
def zeros (rows cols : Nat) : Mask := List.replicate rows (List.replicate cols false)

/-- `mask.at[row:, col:col+w].set(True)` (an out-of-range `row` gives an empty slice). -/
def setBlockTrue (mask : Mask) (row col w : Nat) : Mask :=
  mask.mapIdx fun r rowv =>
    if row ≤ r then rowv.mapIdx (fun c v => (decide (col ≤ c) && decide (c < col + w)) || v) else rowv

/-- one iteration of the `for i in range(n_blocks)` loop of `block_tril_mask` (masks.py:48-51):
`row_i = max(0, i-k)*b0; col_i = i*b1; mask = mask.at[row_i:, col_i:col_i+b1].set(True)` -/
def blockTrilStep (b0 b1 : Nat) (k : Int) (mask : Mask) (i : Nat) : Mask :=
  setBlockTrue mask ((max 0 ((i : Int) - k)).toNat * b0) (i * b1) b1

/-- `block_tril_mask(block_shape=(b0,b1), n_blocks, k)`: the Python loop, literally. -/
def blockTrilMask (b0 b1 n : Nat) (k : Int) : Mask :=
  (List.range n).foldl (blockTrilStep b0 b1 k) (zeros (b0 * n) (b1 * n))

/-! ## rank vectors of `MaskedAutoregressive.__init__` (masked_autoregressive.py:63-74) -/

/-- `jnp.remainder` on integers: Python sign convention, and `x % 0 = 0` (checked on the real
`jnp`: `jnp.arange(5) % 0 == [0,0,0,0,0]`). -/
def jmod (a b : Int) : Int := if b = 0 then 0 else Int.fmod a b

/-- `jnp.arange(n)` -/
def arange (n : Nat) : List Int := (List.range n).map Int.ofNat

/-- `in_ranks`: `arange(dim)` / `hstack((arange(dim), -ones(cond_dim, int)))` -/
def mafInRanks (dim : Nat) : Option Nat → List Int
  | none => arange dim
  | some c => arange dim ++ List.replicate c (-1)

/-- `hidden_ranks`: `arange(nn_width) % (dim - 1)` / `(arange(nn_width) % dim) - 1` -/
def mafHiddenRanks (dim width : Nat) : Option Nat → List Int
  | none => (arange width).map fun a => jmod a ((dim : Int) - 1)
  | some _ => (arange width).map fun a => jmod a (dim : Int) - 1

/-- `out_ranks = jnp.repeat(jnp.arange(dim), num_params)` -/
def mafOutRanks (dim numParams : Nat) : List Int :=
  (arange dim).flatMap fun a => List.replicate numParams a

/-! ## `masked_autoregressive_mlp` (masked_autoregressive.py:157-165) -/

/-- `ranks = [in_ranks, *[hidden_ranks] * mlp.depth, out_ranks]` -/
def mlpRanks (inR hidR outR : List Int) (depth : Nat) : List (List Int) :=
  inR :: (List.replicate depth hidR ++ [outR])

/-- the masks of the `depth + 1` linear layers:
`rank_based_mask(ranks[i], ranks[i+1], eq = (i != len(mlp.layers) - 1))`. -/
def mlpMasks (inR hidR outR : List Int) (depth : Nat) : List Mask :=
  let ranks := mlpRanks inR hidR outR depth
  (ranks.zip ranks.tail).mapIdx fun i ab => rankBasedMask ab.1 ab.2 (i != depth)

/-! ## structural dependency pattern of a stack of masks -/

/-- Boolean matrix product `a · b` (`b` has `n` columns): entry `(r, c)` is true iff some `t` has
`a[r][t]` and `b[t][c]`. -/
def boolMatMul (a b : Mask) (n : Nat) : Mask :=
  a.map fun arow => (List.range n).map fun c => (List.zip arow b).any fun tb => tb.1 && tb.2.getD c false

/-- `m_L · … · m_1 · m_0` for the masks `[m_0, …, m_L]` of a network with `n` inputs: entry `(o, i)` is true
iff there is a path from input `i` to output `o` on which every mask entry is true. -/
def reachMask (n : Nat) : List Mask → Mask
  | [] => []
  | m :: ms => ms.foldl (fun acc m' => boolMatMul m' acc n) m

/-! ## masked linear layers, masks applied at unwrap -/

section scalar
variable {α : Type} [Add α] [Mul α] [OfNat α 0]

/-- `jnp.where(cond, if_true, 0)` entrywise on equally shaped matrices — `Where(mask, w, 0).unwrap()`
(wrappers.py:197-198).  The real constructor only ever pairs a mask with a weight of the same shape. -/
def whereMask (mask : Mask) (w : List (List α)) : List (List α) :=
  List.zipWith (fun mrow wrow => List.zipWith (fun (m : Bool) x => if m then x else (0 : α)) mrow wrow) mask w

/-- an `eqx.nn.Linear` whose weight is `Where(mask, weight, 0)`; `weight`, `bias` are the RAW trainable arrays -/
structure MaskedLinear (α : Type) where
  mask : Mask
  weight : List (List α)
  bias : List α

/-- the weight the layer computes with, after `unwrap` -/
def MaskedLinear.unwrapW (L : MaskedLinear α) : List (List α) := whereMask L.mask L.weight

/-- `weight @ x + bias` for an already unwrapped weight (eqx.nn.Linear.__call__) -/
def linearApply (W : List (List α)) (bias : List α) (x : List α) : List α :=
  List.zipWith (fun row b => Jnp.dot row x + b) W bias

def MaskedLinear.apply (L : MaskedLinear α) (x : List α) : List α := linearApply L.unwrapW L.bias x

/-- `eqx.nn.MLP.__call__` (final activation = identity, scalar `activation` vmapped over units):
`for layer in layers[:-1]: x = act(layer(x))`; `x = layers[-1](x)`. -/
def mlpForward (act : α → α) : List (MaskedLinear α) → List α → List α
  | [], x => x
  | [L], x => L.apply x
  | L :: L' :: Ls, x => mlpForward act (L' :: Ls) ((L.apply x).map act)

/-- pair masks, raw weights and raw biases layer by layer -/
def mkLayers : List Mask → List (List (List α)) → List (List α) → List (MaskedLinear α)
  | m :: ms, w :: ws, b :: bs => ⟨m, w, b⟩ :: mkLayers ms ws bs
  | _, _, _ => []

/-- `jnp.reshape(params, (dim, -1))`: `dim` rows of `len / dim` entries (the real call raises unless
`dim` divides `len`; statements carry that guard). -/
def reshapeRows (dim : Nat) (flat : List α) : List (List α) :=
  let p := flat.length / dim
  (List.range dim).map fun i => (flat.drop (i * p)).take p

/-- The masked autoregressive conditioner of `MaskedAutoregressive`: sizes, RAW parameters, activation. -/
structure MafNet (α : Type) where
  dim : Nat
  condDim : Option Nat
  width : Nat
  depth : Nat
  numParams : Nat
  weights : List (List (List α))
  biases : List (List α)
  act : α → α

namespace MafNet
def inRanks (N : MafNet α) : List Int := mafInRanks N.dim N.condDim
def hiddenRanks (N : MafNet α) : List Int := mafHiddenRanks N.dim N.width N.condDim
def outRanks (N : MafNet α) : List Int := mafOutRanks N.dim N.numParams
def masks (N : MafNet α) : List Mask := mlpMasks N.inRanks N.hiddenRanks N.outRanks N.depth
def layers (N : MafNet α) : List (MaskedLinear α) := mkLayers N.masks N.weights N.biases

/-- layer sizes `[n_0, …, n_{depth+1}]` of `eqx.nn.MLP(in_size, out_size, width_size, depth)` -/
def sizes (N : MafNet α) : List Nat :=
  (N.dim + N.condDim.getD 0) :: (List.replicate N.depth N.width ++ [N.dim * N.numParams])

/-- the raw parameter arrays have the shapes `eqx.nn.MLP` allocates: `depth + 1` layers, weight `l` of shape
`(n_{l+1}, n_l)`, bias `l` of length `n_{l+1}` (checked on every real object by the correspondence). -/
def WellShaped (N : MafNet α) : Prop :=
  N.weights.length = N.depth + 1 ∧ N.biases.length = N.depth + 1 ∧
  ∀ l (hw : l < N.weights.length) (hb : l < N.biases.length),
    ∃ nin nout, N.sizes[l]? = some nin ∧ N.sizes[l + 1]? = some nout ∧
      HasShape N.weights[l] nout nin ∧ N.biases[l].length = nout

/-- `nn_input = x if condition is None else jnp.hstack((x, condition))`;
`transformer_params = self.masked_autoregressive_mlp(nn_input)` (flat) -/
def flatParams (N : MafNet α) (x cond : List α) : List α := mlpForward N.act N.layers (x ++ cond)

/-- `_flat_params_to_transformer`: `jnp.reshape(params, (dim, -1))` — row `i` parameterises coordinate `i` -/
def params (N : MafNet α) (x cond : List α) : List (List α) := reshapeRows N.dim (N.flatParams x cond)

/-- `MaskedAutoregressive.transform` for an arbitrary scalar transformer family `T params x`
(`Vmap(transformer).transform(x)`: coordinate `i` is transformed with row `i`). -/
def transform (N : MafNet α) (T : List α → α → α) (x cond : List α) : List α :=
  List.zipWith T (N.params x cond) x
end MafNet

/-! ## `Coupling.transform` (coupling.py:79-85, 113-118) -/

/-- `x_cond, x_trans = x[:d], x[d:]`; `nn_input = x_cond (++ condition)`;
`params = reshape(conditioner(nn_input), (dim - d, -1))`; `hstack((x_cond, T(params, x_trans)))`
for an ARBITRARY conditioner function and an arbitrary scalar transformer family. -/
def couplingTransform (d : Nat) (conditioner : List α → List α) (T : List α → α → α)
    (x cond : List α) : List α :=
  let xCond := x.take d
  let xTrans := x.drop d
  let ps := reshapeRows (x.length - d) (conditioner (xCond ++ cond))
  xCond ++ List.zipWith T ps xTrans

end scalar

/-! ## `BlockAutoregressiveNetwork` (block_autoregressive_network.py:151-158, 199-229) -/

section bnaf
variable {α : Type} [Add α] [Mul α] [Div α] [OfNat α 0] [Transc α]

/-- `jnp.where(cond, a, b)` entrywise on equally shaped matrices -/
def whereMat (mask : Mask) (a b : List (List α)) : List (List α) :=
  List.zipWith (fun mrow ab => List.zipWith (fun (m : Bool) (p : α × α) => if m then p.1 else p.2) mrow
    (List.zip ab.1 ab.2)) mask (List.zip a b)

/-- one `block_autoregressive_linear` layer: block shape `(b0, b1)`, `n` blocks; RAW weight, bias and the raw
(pre-softplus) row scales of `WeightNormalization`. -/
structure BnafLayer (α : Type) where
  b0 : Nat
  b1 : Nat
  n : Nat
  weight : List (List α)
  bias : List α
  scaleRaw : List α

/-- `Where(block_diag_mask, softplus(Where(block_tril_mask, w, 0)), Where(block_tril_mask, w, 0))` -/
def BnafLayer.preNorm (L : BnafLayer α) : List (List α) :=
  let w1 := whereMask (blockTrilMask L.b0 L.b1 L.n 0) L.weight
  whereMat (blockDiagMask L.b0 L.b1 L.n) (w1.map fun row => row.map Transc.softplus) w1

/-- `WeightNormalization.unwrap`: `scale * weight / ‖weight‖_row`, `scale = softplus(raw)` -/
def BnafLayer.unwrapW (L : BnafLayer α) : List (List α) :=
  List.zipWith (fun row s =>
      let nrm := Transc.sqrt (Jnp.sum (row.map fun v => v * v))
      row.map fun v => Transc.softplus s * v / nrm)
    L.preNorm L.scaleRaw

def BnafLayer.apply (L : BnafLayer α) (x : List α) : List α := linearApply L.unwrapW L.bias x

/-- `BlockAutoregressiveNetwork.transform`: `condTerm` is `cond_linear(condition)` (or `none`), added after the
first layer when that layer is not the last one; scalar activation applied to every unit. -/
def bnafForward (act : α → α) : (first : Bool) → Option (List α) → List (BnafLayer α) → List α → List α
  | _, _, [], x => x
  | _, _, [L], x => L.apply x
  | first, condTerm, L :: L' :: Ls, x =>
    let h := L.apply x
    let h := match first, condTerm with
      | true, some c => List.zipWith (· + ·) h c
      | _, _ => h
    bnafForward act false condTerm (L' :: Ls) (h.map act)

/-- block shapes of the layer stack (block_autoregressive_network.py:110-125): `depth == 0` gives one `(1,1)`
layer; otherwise `(bd,1), (bd,bd)^(depth-1), (1,bd)`. -/
def bnafBlockShapes (depth blockDim : Nat) : List (Nat × Nat) :=
  if depth = 0 then [(1, 1)]
  else (blockDim, 1) :: (List.replicate (depth - 1) (blockDim, blockDim) ++ [(1, blockDim)])

/-- `transform(x, condition)`: `cond_linear` has no bias, so `cond_linear(condition) = C @ condition`. -/
def bnafTransform (act : α → α) (layers : List (BnafLayer α)) (condLinear : Option (List (List α)))
    (x cond : List α) : List α :=
  bnafForward act true (condLinear.map fun C => C.map fun row => Jnp.dot row cond) layers x

end bnaf

end Masks
