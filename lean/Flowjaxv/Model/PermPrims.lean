import Flowjaxv.Model.Perm
/-!
# Primitive specs used by the generated `Permute` (`Gen/PermGen.lean`, translator `py2perm.py`)

Mathlib-free, executable.  An n-d array is its shape and its row-major (C-order) data.

* `ravel`, `reshape`, `size`, `arange`, `sort` (ascending), `ne` (elementwise `!=` of equally long 1-d arrays)
* `arraylikeToArray` (`dtype=int`): the identity on integer arrays;  `errorIf x pred`: `eqx.error_if` — raises iff ANY entry of the
  Boolean array is true, else returns `x`
* `unravel shape i` — the row-major coordinates of the flat index `i` (`jnp.unravel_index` for one in-range index);
  `unravelIndex a shape` — `jnp.unravel_index(a, shape)`: one index array per axis
* `getItem x idx` — `x[idx]` for a tuple of integer index arrays, one per axis of `x` (NumPy advanced indexing: the result has the
  index arrays' shape, entry `p` is `x[idx₀[p], idx₁[p], …]`); `ravelMulti` is the row-major offset of a coordinate tuple
* `argsort` — HAND primitive: `jnp.argsort` of a permutation of `0..n-1` is the inverse permutation (position of `j`),
  `PermModel.argsort` of `Model/Perm.lean` (that it inverts is proved: C07 `permute_inverse`); validated by the correspondences.
-/
namespace PermPrims

/-- the one exception class of this constructor: `eqx.error_if` raises a `RuntimeError` subclass -/
inductive Err where
  | runtimeError
  deriving DecidableEq, Repr

def Err.name : Err → String
  | .runtimeError => "RuntimeError"

/-- integer array -/
structure IArr where
  shape : List Nat
  data : List Int
  deriving DecidableEq, Repr

/-- float array -/
structure FArr (α : Type) where
  shape : List Nat
  data : List α

def size (a : IArr) : Nat := a.data.length
def ravel (a : IArr) : IArr := ⟨[a.data.length], a.data⟩
def reshape (a : IArr) (shape : List Nat) : IArr := ⟨shape, a.data⟩
def arange (n : Nat) : IArr := ⟨[n], (List.range n).map Int.ofNat⟩
def sort (a : IArr) : IArr := ⟨a.shape, a.data.mergeSort (fun x y => decide (x ≤ y))⟩
def ne (a b : IArr) : List Bool := List.zipWith (fun x y => !decide (x = y)) a.data b.data
def arraylikeToArray (a : IArr) : Except Err IArr := .ok a
def errorIf (x : IArr) (pred : List Bool) : Except Err IArr := if pred.any id then .error .runtimeError else .ok x

def prod (s : List Nat) : Nat := s.foldr (· * ·) 1

/-- row-major coordinates of a flat index -/
def unravel : List Nat → Nat → List Nat
  | [], _ => []
  | d :: ds, i => (i / prod ds) % d :: unravel ds (i % prod ds)

/-- row-major offset of a coordinate tuple -/
def ravelMulti : List Nat → List Nat → Nat
  | _ :: ds, c :: cs => c * prod ds + ravelMulti ds cs
  | _, _ => 0

/-- `jnp.unravel_index(a, shape)` for a 1-d `a` -/
def unravelIndex (a : IArr) (shape : List Nat) : List IArr :=
  (List.range shape.length).map fun k => ⟨a.shape, a.data.map fun i => Int.ofNat ((unravel shape i.toNat).getD k 0)⟩

/-- `jnp.argsort` of a permutation of `0..n-1` -/
def argsort (a : IArr) : IArr := ⟨a.shape, (PermModel.argsort (a.data.map Int.toNat)).map Int.ofNat⟩

/-- `x[idx]`, `idx` a tuple of index arrays (one per axis); an empty tuple (`x[()]`) is `x` -/
def getItem {α : Type} [Inhabited α] (x : FArr α) (idx : List IArr) : FArr α :=
  match idx.head? with
  | none => x
  | some i0 =>
    ⟨i0.shape, (List.range i0.data.length).map fun p =>
      x.data.getD (ravelMulti x.shape (idx.map fun a => (a.data.getD p 0).toNat)) default⟩

end PermPrims
