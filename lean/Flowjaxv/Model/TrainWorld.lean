import Flowjaxv.Model.Train
/-!
# Primitives the GENERATED training loops (`Gen/TrainGen.lean`) are written in

Core Lean only.  `tools/py2lean/py2loop.py` translates `flowjax/train/{train_utils,data_fit,variational_fit}.py`
statement by statement; every library call it meets is mapped (typing sheet `tools/py2lean/targets_train.py`)
to one of the functions below.  This file is the hand-written part of that tie: the *meaning of the library
calls* — nothing about the loops themselves.

* Python `int` is `Int` (so `//` is floor division, `-` does not truncate, slices take negative bounds),
  Python `float` is `Float` (opaque in proofs), a loss value is `Train.Loss`.
* an array is the list of its rows (`List α`); a tuple / list of arrays is `List (List α)`.
* a PRNG key is a `Train.Path`; `jr.split(key, n)[i] = child key n i`.
* everything whose value the loops only pass around is a field of `World`: the permutation drawn for a key,
  the loss function (value and gradient), the optimiser, `sum` and `/` on losses.  Parameters (`π`), optimiser
  state (`ω`), gradients (`γ`) and updates (`υ`) are abstract types.
-/
namespace Train

/-- what `loss_fn` receives after `(params, static)`: the positional arrays and the key
(`loss_fn(params, static, *batch, key=subkey)` in `fit_to_data`; `loss_fn(params, static, key)` in
`fit_to_variational_target`) -/
structure LossArgs (α : Type) where
  arrays : List (List α)
  key : Option Path
  deriving Repr, DecidableEq

/-- the library functions the loops call but do not look into -/
structure World (α π ω γ υ : Type) where
  /-- `jr.permutation(key, m)` -/
  perm : Path → Nat → List Nat
  /-- `eqx.filter_value_and_grad(loss_fn)(params, static, *args, **kwargs)` -/
  valueAndGrad : π → LossArgs α → Loss × γ
  /-- `loss_fn(params, static, *args, **kwargs)` -/
  lossFn : π → LossArgs α → Loss
  /-- `optimizer.init(params)` -/
  optInit : π → ω
  /-- `optimizer.update(grads, opt_state, params=params)` -/
  optUpdate : γ → ω → π → υ × ω
  /-- `eqx.apply_updates(params, updates)` -/
  applyUpdates : π → υ → π
  /-- `sum(batch_losses)` -/
  lsum : List Loss → Loss
  /-- `loss / n` -/
  ldiv : Loss → Int → Loss

namespace Py

/-- `l[:k]` (Python slice semantics: a negative bound counts from the end) -/
def sliceTo {β : Type} (l : List β) (k : Int) : List β :=
  if 0 ≤ k then l.take k.toNat else l.take (l.length - (-k).toNat)

/-- `l[k:]` -/
def sliceFrom {β : Type} (l : List β) (k : Int) : List β :=
  if 0 ≤ k then l.drop k.toNat else l.drop (l.length - (-k).toNat)

/-- `arr.reshape(nb, b, *arr.shape[1:])` of an array with `nb * b` rows (NumPy raises otherwise) -/
def reshape2 {β : Type} (l : List β) (nb b : Int) : List (List β) := chunks b.toNat nb.toNat l

/-- `range(n)` -/
def range (n : Int) : List Int := (List.range n.toNat).map Int.ofNat

/-- `jr.split(key, n)` with a run-time `n` -/
def split (key : Path) (n : Int) : List Path := (List.range n.toNat).map (child key n.toNat)

/-- `jr.permutation(key, a)` for an array `a`: the rows of `a` in the order `jr.permutation(key, len(a))` -/
def permutation {α π ω γ υ : Type} (W : World α π ω γ υ) (key : Path) (a : List α) : List α :=
  applyPerm (W.perm key a.length) a

/-- `zip(*ls, strict=True)`: element `j` is `[ls[0][j], ls[1][j], …]` (all `ls[i]` of one length —
`strict=True` raises otherwise; `zip()` of nothing is empty) -/
def zipStar {β : Type} : List (List β) → List (List β)
  | [] => []
  | [l] => l.map (fun x => [x])
  | l :: ls => List.zipWith List.cons l (zipStar ls)

/-- `l[k]` for a literal `k ≥ 0` (`IndexError` when `len(l) ≤ k`: the guard is emitted into `…_raises`) -/
def idx {β : Type} [Inhabited β] (l : List β) (k : Nat) : β := l.getD k default

/-- `jnp.argmin(jnp.array(l)).item()`: first index of the minimum (raises on `[]`) -/
def argmin (l : List Loss) : Int := (Train.argmin l : Nat)

/-- `val_prop * n` (Python converts the `int` to `float`) -/
def fmul (x : Float) (n : Int) : Float := x * Float.ofInt n

/-- Python `round(x)` with one argument: nearest integer, ties to even -/
def round (x : Float) : Int :=
  if x < 0 then -((roundHalfEven (-x) : Nat) : Int) else ((roundHalfEven x : Nat) : Int)

end Py
end Train
