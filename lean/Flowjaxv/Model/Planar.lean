import Flowjaxv.Model.Bij
import Flowjaxv.Gen.Planar
/-!
# Planar: packaging of the generated `_UnconditionalPlanar` methods, and `Planar.get_planar`

Hand-written glue (Mathlib-free, executable).

* `lreluBij p s` — the record of the four methods GENERATED from `_UnconditionalPlanar` for
  `activation = "leaky_relu"` with `negative_slope = s` (`Gen/Planar.lean`); nothing is recomputed here.
* For `activation = "tanh"` the library implements only the two forward methods (`inverse` /
  `inverse_and_log_det` raise `NotImplementedError`), so no `Bij` record is formed: the theorems are
  about `transform_tanh` / `transform_and_log_det_tanh` directly.
* `getPlanar dim params` — `Planar.get_planar`: `w, u, bias = params[:dim], params[dim:2*dim], params[-1]`
  (`params` is the stored array, or the conditioner's output for a conditional `Planar`); tied to the code by
  `tools/props/planar_tri.py`.
-/
open Gen

namespace Planar
section
variable {α C : Type} [Add α] [Sub α] [Mul α] [Div α] [Neg α] [LT α] [LE α] [BEq α]
  [OfNat α 0] [OfNat α 1] [OfNat α 2] [OfNat α 4] [OfScientific α]
  [DecidableLT α] [DecidableLE α] [Transc α] [Inhabited α] [NatCast α]

/-- the four generated leaky-relu methods as a `Bij` record on vectors -/
def lreluBij (p : UnconditionalPlanar α) (negative_slope : α) : Bij (List α) C α :=
  ⟨fun x _ => p.transform_lrelu negative_slope x, fun y _ => p.inverse_lrelu negative_slope y,
   fun x _ => p.transform_and_log_det_lrelu negative_slope x,
   fun y _ => p.inverse_and_log_det_lrelu negative_slope y⟩

/-- `Planar.get_planar`: split the flat parameter vector of length `2*dim + 1` (JAX slicing clamps;
`params[-1]` is the last entry). -/
def getPlanar (dim : Nat) (params : List α) : UnconditionalPlanar α :=
  { weight := params.take dim, _act_scale := (params.drop dim).take dim, bias := params.getLastD default }

end
end Planar
