import Flowjaxv.Model.Tree
/-!
# Meanings of the library calls used by the TRAVERSAL code of `flowjax/wrappers.py` (world of `Gen/UnwrapGen.lean`)

`Gen/UnwrapGen.lean` is re-translated on every run (translator `tools/py2lean/py2meth.py`, sheet `tools/py2lean/targets_unwrap.py`) from
`unwrap`, `AbstractUnwrappable.recursive_unwrap` (with its nested `vectorized_unwrap` / `v_unwrap` and the
`for dim in reversed(_dummy.shape)` loop), `non_trainable` and the `eqx.partition(…)` expressions of the two training loops.
This file is the hand-written (trusted, Mathlib-free, executable) meaning of every LIBRARY call that code makes, over the pytree
model of `Model/Tree.lean` (a pytree with explicit batch levels; wrapper nodes carry their `_dummy.shape`):

* `jax.tree_util.tree_map(f, tree, is_leaf=p)`        — `treeMap`: `f` on every node `p` accepts and on every leaf, containers rebuilt;
  `None` is an empty container (it stays `None`);
* `isinstance(x, AbstractUnwrappable)` / `isinstance(x, NonTrainable)` / `eqx.is_inexact_array(x)`;
* `x._dummy`                                          — `None` for the classes that declare `_dummy: ClassVar[None]`, otherwise an array
  whose `.shape` is the batch shape the wrapper was built under;
* `x.unwrap()`                                        — dynamic dispatch to the per-class body (`W.body`, the abstract `WrapFn` of the
  theorems — instantiated with the regenerated bodies in `Model/WrapGen.lean`; `NonTrainable.unwrap` returns its subtree, which
  `Proofs/WrapGen.lean` proves of the regenerated `NonTrainable.unwrap`);
* `eqx.filter_vmap(g, axis_size=d)(module)`           — `filterVmap`: `g` on each of the `d` slices of the module, a slice taking index
  `i` of the leading axis of EVERY array leaf (any dtype) and of `_dummy`; the results stacked leafwise (`jnp.stack`);
* `eqx.tree_flatten_one_level(x)` / `jax.tree_util.tree_unflatten(treedef, leaves)` — the children of a node / the same node
  around new children;
* `unwrap(flat)` called from inside `recursive_unwrap` — Python's recursion: the world carries the function the name `unwrap` is bound
  to (`W.unwrapRec`); the knot is tied by fuel in `Model/UnwrapKnot.lean` and proved fuel-independent; a Python `list` of pytrees is
  the container node of them;
* `NonTrainable(leaf)`                                — the wrapper node around one child (no `_dummy`);
* `eqx.partition(tree, pred, is_leaf=q)`              — `partition`: leafwise split, a node `q` accepts is a leaf.
-/
namespace UnwrapW
open PyTree

/-- what the generated code is parameterised by: the per-class `.unwrap()` bodies and the binding of the module-level name
`unwrap` seen from inside `recursive_unwrap` -/
structure World (α : Type) where
  body : WrapFn α
  unwrapRec : Tree α → Tree α

variable {α : Type}

/-- `isinstance(x, AbstractUnwrappable)` -/
def isUnwrappable : Tree α → Bool
  | .wrap _ _ _ _ => true
  | _ => false

/-- `isinstance(x, NonTrainable)` -/
def isNonTrainable : Tree α → Bool
  | .wrap .nonTrainable _ _ _ => true
  | _ => false

/-- `eqx.is_inexact_array(x)` -/
def isInexactArray : Tree α → Bool
  | .arr _ ix _ => ix
  | _ => false

mutual
/-- `jax.tree_util.tree_map(f, tree, is_leaf=isLeaf)` (argument order of the keyword call `f=`, `tree=`, `is_leaf=`) -/
def treeMap (f : Tree α → Tree α) : Tree α → (Tree α → Bool) → Tree α
  | .none, isLeaf => if isLeaf .none then f .none else .none
  | .arr id ix a, _ => f (.arr id ix a)
  | .static id, _ => f (.static id)
  | .node cs, isLeaf => if isLeaf (.node cs) then f (.node cs) else .node (treeMapL f cs isLeaf)
  | .wrap k tag b cs, isLeaf =>
      if isLeaf (.wrap k tag b cs) then f (.wrap k tag b cs) else .wrap k tag b (treeMapL f cs isLeaf)
def treeMapL (f : Tree α → Tree α) : List (Tree α) → (Tree α → Bool) → List (Tree α)
  | [], _ => []
  | c :: cs, isLeaf => treeMap f c isLeaf :: treeMapL f cs isLeaf
end

/-- the array stored in `_dummy` (only its shape is ever read) -/
structure Dummy where
  shape : List Nat
  deriving Repr

/-- `x._dummy` -/
def dummy : Tree α → Option Dummy
  | .wrap k _ b _ => if k.hasDummy then some ⟨b⟩ else none
  | _ => none

/-- `x.unwrap()`: the class's own body on the node's children (assumed already unwrapped by the caller) -/
def callUnwrap (W : World α) : Tree α → Tree α
  | .wrap .nonTrainable _ _ cs => (match cs with | [c] => c | _ => .node cs)
  | .wrap k tag _ cs => W.body k tag cs
  | t => t

/-- `eqx.filter_vmap(g, axis_size=d)` applied to a module -/
def filterVmap (g : Tree α → Tree α) (d : Nat) : Tree α → Tree α :=
  fun t => stackF d (fun i => g (sliceT i t)) (g (sliceT 0 t))

/-- a one-level tree definition: the node without its children -/
structure TreeDef (α : Type) where
  shell : Tree α

/-- `eqx.tree_flatten_one_level(x)` -/
def treeFlattenOneLevel (t : Tree α) : List (Tree α) × TreeDef α :=
  (t.children, ⟨match t with | .node _ => .node [] | .wrap k tag b _ => .wrap k tag b [] | t => t⟩)

/-- `jax.tree_util.tree_unflatten(treedef, leaves)` for a one-level definition -/
def treeUnflatten (td : TreeDef α) (cs : List (Tree α)) : Tree α :=
  match td.shell with
  | .node _ => .node cs
  | .wrap k tag b _ => .wrap k tag b cs
  | t => t

/-- `unwrap(flat)` for a Python list `flat` of pytrees, called from inside `recursive_unwrap` -/
def unwrapList (W : World α) (flat : List (Tree α)) : List (Tree α) := (W.unwrapRec (.node flat)).children

/-- `NonTrainable(leaf)`; the node is named after the array it wraps -/
def mkNonTrainable (leaf : Tree α) : Tree α :=
  .wrap .nonTrainable (match leaf with | .arr id _ _ => id | _ => 0) [] [leaf]

mutual
/-- first half of `eqx.partition(tree, pred, is_leaf=isLeaf)` -/
def partitionP (pred isLeaf : Tree α → Bool) : Tree α → Tree α
  | .none => .none
  | .arr id ix a => if pred (.arr id ix a) then .arr id ix a else .none
  | .static id => if pred (.static id) then .static id else .none
  | .node cs => if isLeaf (.node cs) then (if pred (.node cs) then .node cs else .none) else .node (partitionPL pred isLeaf cs)
  | .wrap k tag b cs =>
      if isLeaf (.wrap k tag b cs) then (if pred (.wrap k tag b cs) then .wrap k tag b cs else .none)
      else .wrap k tag b (partitionPL pred isLeaf cs)
def partitionPL (pred isLeaf : Tree α → Bool) : List (Tree α) → List (Tree α)
  | [] => []
  | c :: cs => partitionP pred isLeaf c :: partitionPL pred isLeaf cs
end

mutual
/-- second half -/
def partitionS (pred isLeaf : Tree α → Bool) : Tree α → Tree α
  | .none => .none
  | .arr id ix a => if pred (.arr id ix a) then .none else .arr id ix a
  | .static id => if pred (.static id) then .none else .static id
  | .node cs => if isLeaf (.node cs) then (if pred (.node cs) then .none else .node cs) else .node (partitionSL pred isLeaf cs)
  | .wrap k tag b cs =>
      if isLeaf (.wrap k tag b cs) then (if pred (.wrap k tag b cs) then .none else .wrap k tag b cs)
      else .wrap k tag b (partitionSL pred isLeaf cs)
def partitionSL (pred isLeaf : Tree α → Bool) : List (Tree α) → List (Tree α)
  | [] => []
  | c :: cs => partitionS pred isLeaf c :: partitionSL pred isLeaf cs
end

/-- `eqx.partition(tree, pred, is_leaf=isLeaf)` -/
def partition (t : Tree α) (pred isLeaf : Tree α → Bool) : Tree α × Tree α :=
  (partitionP pred isLeaf t, partitionS pred isLeaf t)

/-- `eqx.partition(tree, pred)` — no `is_leaf`: no node is a leaf -/
def partitionNoLeaf (t : Tree α) (pred : Tree α → Bool) : Tree α × Tree α :=
  partition t pred (fun _ => false)

end UnwrapW
