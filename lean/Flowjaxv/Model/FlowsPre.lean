import Flowjaxv.Model.ToBij
import Flowjaxv.Model.ToDist
import Flowjaxv.Model.Perm
import Flowjaxv.Model.Params
import Flowjaxv.Model.NetInverse
import Flowjaxv.Model.Planar
import Flowjaxv.Model.Triangular
import Flowjaxv.Gen.Misc
import Flowjaxv.Model.JaxTrBij
import Flowjaxv.Gen.Wrappers
/-!
# Vocabulary of `flowjax/flows.py` (hand-written, Mathlib-free, executable)

`Gen/Flows.lean` is GENERATED from `flowjax/flows.py` (`_add_default_permute`, `_affine_with_min_scale`, the
`make_layer` closures and the bodies of the five factories); the generated text refers to the constructors and
JAX/Equinox functions the factories call through the names defined here.  Each is a one-line wrapper around an existing
model (the generated `Chain` / `Invert` / `Flip` / `Transformed`, `PermModel`, `couplingBij`, `mafBij`,
`Planar.lreluBij`, …); nothing numeric is written here.

How randomness is modelled: **a PRNG key is what it determines.**  `jr.split(key, n)` hands layer `i` its own key
`key i`; `jr.split(layer_key)` is the pair (what the layer constructor draws from `bij_key` — i.e. the layer's trainable
parameters, which training then moves anywhere: the theorems quantify over ALL of them — , what `jr.permutation` draws
from `perm_key` — an arbitrary permutation).  `eqx.filter_vmap(make_layer)(keys)` is `keys.map make_layer` (the stacked
layers, unstacked) and `Scan(layers)` is the GENERATED `Scan` (`Gen/JaxTransforms.lean`) of that stacked module — proved equal to
the generated `Chain` of the unstacked layers.  Both are tied to the real
`lax.scan` / `filter_vmap` by `tools/props/flows.py` (real flows from the factories, unstacked with `fj.unstack_scan`).
-/
open Gen

namespace Flows

/-! ### combinators the factories call -/
section generic
variable {X C K α : Type} [Add α] [Sub α] [Neg α] [OfNat α 0]

/-- `Chain([...])` — the generated `Chain` as a `Bij` record -/
def chainOf (bs : List (Bij X C α)) : Bij X C α := (Chain.mk bs).toBij

/-- `Invert(b)` — the generated `Invert` -/
def invertOf (b : Bij X C α) : Bij X C α := (Invert.mk b).toBij

/-- `.merge_chains()` flattens nested chains; the four methods are unchanged (`C08.merge_chains_step`,
`C08.flow_layers_flat`), so on records of methods it is the identity.  That the real layer
IS the flat chain `[*layer, permutation]` is checked structurally by `tools/props/flows.py`. -/
def mergeChains (b : Bij X C α) : Bij X C α := b

/-- `Scan(layers)` for the stacked module whose slices are `layers`: the four methods GENERATED from
`flowjax/bijections/jax_transforms.py` (`Gen/JaxTransforms.lean`; `lax.scan` / `eqx.partition` / `eqx.combine` as in
`Model/JaxTrWorld.lean`).  `Proofs/JaxTransforms.lean` proves it equal to the generated `Chain` of the layers
(`Flows.scanOf_eq_chain`). -/
def scanOf (layers : List (Bij X C α)) : Bij X C α := (JaxTr.scanOfLayers layers).toBij

/-- `eqx.filter_vmap(make_layer)(keys)`: one layer per key; the result stands for the stacked layers, unstacked -/
def filterVmap {κ β : Type} (makeLayer : κ → β) (keys : List κ) : List β := keys.map makeLayer

/-- `jr.split(key, n)`: child `i` of the key -/
def jrSplitN {κ : Type} (key : Nat → κ) (n : Nat) : List κ := (List.range n).map key

/-- `bij_key, perm_key = jr.split(key)` -/
def jrSplit {P Q : Type} (key : P × Q) : P × Q := key

/-- `Transformed(base_dist, bijection)` — the generated `AbstractTransformed` methods -/
def transformedOf (base : Distn X C K α) (b : Bij X C α) : Distn X C K α := (Transformed.mk base b).toDist

end generic

/-! ### permutations (`_add_default_permute`) -/
section perm
variable {C α : Type} [Add α] [Sub α] [OfNat α 0] [Inhabited α]

/-- `Flip((dim,))` — the generated `Flip` methods (the shape argument only declares `.shape`) -/
def flipOf (_shape : Nat) : Bij (List α) C α :=
  ⟨fun x _ => Flip.transform x, fun y _ => Flip.inverse y,
   fun x _ => Flip.transform_and_log_det x, fun y _ => Flip.inverse_and_log_det y⟩

/-- `Permute(perm)` on a vector: `x[perm]`, inverse `y[argsort(perm)]`, log-det `jnp.array(0)` (`Model/Perm.lean`) -/
def permuteOf (perm : List Nat) : Bij (List α) C α :=
  ⟨fun x _ => PermModel.fwd perm x, fun y _ => PermModel.inv perm y,
   fun x _ => (PermModel.fwd perm x, 0), fun y _ => (PermModel.inv perm y, 0)⟩

/-- `jnp.arange(dim)` -/
def arange (n : Nat) : List Nat := List.range n

/-- `jr.permutation(key, xs)`: the key determines an arbitrary rearrangement `key` of the positions -/
def jrPermutation (key : List Nat) (xs : List Nat) : List Nat := key.map (fun i => xs.getD i 0)

end perm

/-! ### `_affine_with_min_scale` and the transformer families (`get_ravelled_pytree_constructor`) -/
section scalar
variable {α : Type} [Add α] [Sub α] [Mul α] [Div α] [Neg α] [LT α] [LE α] [BEq α]
  [OfNat α 0] [OfNat α 1] [OfNat α 2] [OfNat α 4] [OfScientific α]
  [DecidableLT α] [DecidableLE α] [Transc α] [Inhabited α]

/-- `Affine` BEFORE `unwrap`: `scale` is a `BijectionReparam` (raw trainable value + the reparameterising bijection) -/
structure AffineP (α : Type) where
  loc : α
  scale : Params.BijectionReparam α

/-- `Affine()`: `loc = 0`, `scale = BijectionReparam(1, SoftPlus())` -/
def affineDefault : AffineP α := ⟨0, Params.softplusInit 1⟩

/-- `SoftPlus()`, `Loc(loc)` as scalar `Bij` records (generated leaves) -/
def softPlus : Bij α Unit α := SoftPlus.toBij
def locOf (loc : α) : Bij α Unit α := (Loc.mk loc).toBij

/-- `non_trainable(tree)` wraps the inexact leaves in `NonTrainable` (`stop_gradient` at unwrap, excluded from the
trainable / conditioner-parameterised leaves): the value is unchanged -/
def nonTrainable (b : Bij α Unit α) : Bij α Unit α := b

/-- `BijectionReparam(arr, bijection)` (`invert_on_init=True`): stores `bijection.inverse(arr)` -/
def bijectionReparam (arr : α) (b : Bij α Unit α) : Params.BijectionReparam α := Params.BijectionReparam.init b arr

/-- `unwrap`: the generated `Affine` record with `scale = bijection.transform(arr)` -/
def AffineP.unwrap (p : AffineP α) : Affine α := ⟨p.loc, p.scale.unwrap⟩

/-- the inexact-array leaves `get_ravelled_pytree_constructor` ravels (leaves under `NonTrainable` excluded): `loc`, `scale.arr` -/
def AffineP.leaves (p : AffineP α) : List α := [p.loc, p.scale.arr]

/-- `ravelled_params + init`, entry by entry over the `init` vector (the conditioner's output row has `init.length`
entries by construction of its `out_size`; a shorter row is read as padded with zeros, so the function is total) -/
def addInit (init ps : List α) : List α := init.mapIdx (fun i v => ps.getD i 0 + v)

/-- `transformer_constructor` for an `Affine`-shaped transformer `p` whose leaf vector at construction was `init`:
row of conditioner outputs ↦ the scalar bijection `unwrap(unravel(row + init))` -/
def affineFamily (p : AffineP α) (init ps : List α) : Bij α Unit α :=
  let raw := addInit init ps
  (({ loc := raw.getD 0 0, scale := { p.scale with arr := raw.getD 1 0 } } : AffineP α).unwrap).toBij

/-- static fields of a `RationalQuadraticSpline` transformer -/
structure RqsCfg (α : Type) where
  knots : Nat
  interval : α × α
  softmax_adjust : α
  min_derivative : α

end scalar

section rqs
variable {α : Type} [Add α] [Sub α] [Mul α] [Div α] [Neg α] [LT α] [LE α] [BEq α]
  [OfNat α 0] [OfNat α 1] [OfNat α 2] [OfNat α 4] [OfScientific α]
  [DecidableLT α] [DecidableLE α] [Transc α] [Inhabited α] [NatCast α]

/-- `transformer_constructor` for `RationalQuadraticSpline(knots=K, interval, min_derivative, softmax_adjust)`: the raw
leaves are `x_pos` raw (K), `y_pos` raw (K), `derivatives` raw (K+2) in that order; unwrapping applies the GENERATED
`_real_to_increasing_on_interval` and derivative lambda (`Gen/Params.lean`) -/
def rqsSpline (cfg : RqsCfg α) (init ps : List α) : RationalQuadraticSpline α :=
  let raw := addInit init ps
  { interval := cfg.interval,
    x_pos := realToIncreasingOnInterval (raw.take cfg.knots) cfg.interval cfg.softmax_adjust,
    y_pos := realToIncreasingOnInterval ((raw.drop cfg.knots).take cfg.knots) cfg.interval cfg.softmax_adjust,
    derivatives := rqsDerivatives cfg.min_derivative (raw.drop (2 * cfg.knots)) }

def rqsFamily (cfg : RqsCfg α) (init ps : List α) : Bij α Unit α := (rqsSpline cfg init ps).toBij

end rqs

/-! ### the layer constructors the `make_layer` closures call -/
section layers
variable {α : Type} [Add α] [Sub α] [Mul α] [Div α] [Neg α] [LT α] [LE α] [BEq α]
  [OfNat α 0] [OfNat α 1] [OfNat α 2] [OfNat α 4] [OfScientific α]
  [DecidableLT α] [DecidableLE α] [Transc α] [Inhabited α] [NatCast α]

/-- the point / condition types of every premade flow: vectors (`base_dist.ndim == 1`); an unconditional flow ignores
the condition (the real methods drop it: repaired defect D7) -/
abbrev VBij (α : Type) := Bij (List α) (List α) α

/-- `Coupling(key=bij_key, transformer=…, untransformed_dim=…, dim=…, cond_dim, nn_width, nn_depth, nn_activation)`:
`bij_key` ≙ the conditioner MLP it initialises (any function `x_cond ++ condition ↦ flat parameters`; `cond_dim`, width,
depth, activation only shape that function); `transformer` ≙ its `transformer_constructor`.  Model: `Masks.couplingBij`. -/
def couplingOf (bij_key : List α → List α) (transformer : List α → Bij α Unit α) (untransformed_dim _dim : Nat) : VBij α :=
  Masks.couplingBij untransformed_dim bij_key transformer

/-- `MaskedAutoregressive(key=bij_key, transformer=…, dim=…, …)`: `bij_key` ≙ the masked MLP (`Masks.MafNet`: sizes, raw
weights, activation); well-formedness (`N.WellShaped ∧ N.dim = dim`) is a hypothesis of the theorems.  Model: `Masks.mafBij`. -/
def mafOf (bij_key : Masks.MafNet α) (transformer : List α → Bij α Unit α) (_dim : Nat) : VBij α :=
  Masks.mafBij bij_key transformer

/-- `Planar(bij_key, dim=…, cond_dim, negative_slope=s, **mlp_kwargs)` with a leaky-relu slope `s`: `bij_key` ≙ the map
`condition ↦ params` (the constant stored vector when unconditional, the conditioner MLP otherwise); every method is
`get_planar(condition).<method>(x)` — the GENERATED `_UnconditionalPlanar` methods on `Planar.getPlanar dim params`. -/
def planarOf (bij_key : List α → List α) (dim : Nat) (negative_slope : α) : VBij α :=
  ⟨fun x c => (Planar.lreluBij (C := Unit) (Planar.getPlanar dim (bij_key c)) negative_slope).fwd x (),
   fun y c => (Planar.lreluBij (C := Unit) (Planar.getPlanar dim (bij_key c)) negative_slope).inv y (),
   fun x c => (Planar.lreluBij (C := Unit) (Planar.getPlanar dim (bij_key c)) negative_slope).fwdLd x (),
   fun y c => (Planar.lreluBij (C := Unit) (Planar.getPlanar dim (bij_key c)) negative_slope).invLd y ()⟩

/-- `Planar(…, negative_slope=None)` (tanh): the library implements the two forward methods only (`inverse*` raise
`NotImplementedError`), so no `Bij` record is formed -/
def planarTanhFwd (bij_key : List α → List α) (dim : Nat) (x c : List α) : List α :=
  (Planar.getPlanar dim (bij_key c)).transform_tanh x
def planarTanhFwdLd (bij_key : List α → List α) (dim : Nat) (x c : List α) : List α × α :=
  (Planar.getPlanar dim (bij_key c)).transform_and_log_det_tanh x

/-- what `bij_key` determines of a `BlockAutoregressiveNetwork`: the weight-normalised block layers, `cond_linear`, and
the scalar `transform_and_log_det(·)[1]` of the network (the `logmatmulexp` accumulation is NOT modelled: C01/C03 never
look at its value, C02 treats the true Jacobian in `bnaf_det`) -/
structure BnafNet (α : Type) where
  layers : List (Masks.BnafLayer α)
  condLinear : Option (List (List α))
  logDet : List α → List α → α

/-- `BlockAutoregressiveNetwork(bij_key, dim=…, cond_dim, depth, block_dim, activation=act, inverter=inverter)`:
`transform` is `Masks.bnafTransform`; `inverse(y, c) = inverter(self, y, c)` — the inverter sees the bijection only
through its `transform` (`AutoregressiveBisectionInverter` scans `x ↦ transform(x, c) − y`); and
`inverse_and_log_det(y, c) = (x, −transform_and_log_det(x, c)[1])` with `x = inverse(y, c)`. -/
def bnafOf (bij_key : BnafNet α) (_dim : Nat) (activation : α → α)
    (inverter : (List α → List α → List α) → List α → List α → List α) : VBij α :=
  let T := Masks.bnafTransform activation bij_key.layers bij_key.condLinear
  ⟨T, fun y c => inverter T y c, fun x c => (T x c, bij_key.logDet x c),
   fun y c => let x := inverter T y c; (x, -(bij_key.logDet x c))⟩

/-- what the layer key of `triangular_spline_flow` determines: `dim` splines (knot positions / derivatives after
unwrap), the weight-normalised lower-triangular affine map after unwrap, the bias-free `Linear(cond_dim, dim)` -/
structure TriSplineNet (α : Type) where
  splines : List (RationalQuadraticSpline α)
  tri : Tri.TriAffine α
  condLinear : Option (List (List α))

/-- `AdditiveCondition(Linear(cond_dim, dim, use_bias=False), (dim,), (cond_dim,))`: coordinate `i` is the GENERATED
scalar `AdditiveCondition` with `module c = W[i] · c` -/
def linearCondition (W : List (List α)) : VBij α :=
  Bij.elementwise (W.map fun row =>
    let p : AdditiveCondition (List α) α := { module := fun c => Jnp.dot row c }
    (⟨p.transform, p.inverse, p.transform_and_log_det, p.inverse_and_log_det⟩ : Bij α (List α) α))

/-- `if cond_dim is not None: bijections.append(linear_condition)` -/
def condTail (condLinear : Option (List (List α))) : List (VBij α) :=
  match condLinear with
  | some W => [linearCondition W]
  | none => []

/-! ### what the GENERATED `triangular_spline_flow.make_layer` / `get_splines` call (g25)

The generated closure is the layer AS CONSTRUCTED.  A key is what it determines: `lt_key` ≙ the matrix
`init(lt_key, (dim, dim))` returns (any matrix: `init` is an arbitrary callable), `perm_key` ≙ the permutation,
`cond_key` ≙ the weight of `Linear(cond_dim, dim, use_bias=False)`.  The objects constructed without a key
(`RationalQuadraticSpline(knots=…, interval=…)`, the raw diagonal / scale of the weight-normalised triangular matrix,
`loc = zeros(dim)`) have their constructor values. -/

/-- `(lt_key, perm_key, cond_key)` -/
abbrev TriSplineKey (α : Type) := List (List α) × List Nat × List (List α)

/-- `lt_key, perm_key, cond_key = jr.split(key, 3)` -/
def jrSplit3 {P Q R : Type} (key : P × Q × R) : P × Q × R := key

/-- `init(lt_key, (dim, dim))`: the key is the matrix the initialiser draws -/
def initOf (lt_key : List (List α)) (_shape : Nat × Nat) : List (List α) := lt_key

/-- `jnp.diag_indices(dim)` as index pairs -/
def diagIndices (dim : Nat) : List (Nat × Nat) := (List.range dim).map fun i => (i, i)

/-- `a.at[idx].set(v)` on a matrix: entries whose position is listed are replaced -/
def atSet (a : List (List α)) (idx : List (Nat × Nat)) (v : α) : List (List α) :=
  a.mapIdx fun i row => row.mapIdx fun j x => if idx.contains (i, j) then v else x

/-- `jnp.zeros(dim)` -/
def zeros (dim : Nat) : List α := List.replicate dim 0

/-- a possibly wrapped matrix node of the stored pytree: a plain array / an already unwrapped `Lambda`, or
`WeightNormalization(weight)` with its (unwrapped, positive) `scale` -/
inductive WMat (α : Type) where
  | plain (m : List (List α))
  | weightNorm (weight : WMat α) (scale : List α)

/-- `unwrap`, children first; the `WeightNormalization` node through the GENERATED `Wr.WeightNormalization.unwrap` -/
def WMat.unwrap : WMat α → List (List α)
  | .plain m => m
  | .weightNorm w sc => (⟨w.unwrap, sc⟩ : Wr.WeightNormalization α).unwrap

/-- `TriangularAffine` as stored: `triangular` is an unwrappable node (what `eqx.tree_at(lambda t: t.triangular, …)` replaces) -/
structure TriAffP (α : Type) where
  triangular : WMat α
  loc : List α
  lower : Bool

/-- `TriangularAffine(loc, arr)` (default `lower=True`): `_to_triangular(softplus(raw), arr)` with
`raw = SoftPlus.inverse(diag arr)` (`BijectionReparam(jnp.diag(arr), SoftPlus())`).  The constructor's checks (square `arr`,
diagonal accepted by the reparameterisation) are C11's `gen_tri_ctor_*`; here `arr` is `dim × dim` with unit diagonal. -/
def triangularAffineOf (loc : List α) (arr : List (List α)) : TriAffP α :=
  { triangular := .plain (Params.triangularOfRaw true ((Tri.diag arr).map fun v => (Params.softplusInit v).arr) arr),
    loc := loc, lower := true }

/-- `WeightNormalization(weight)`: `scale = BijectionReparam(1 / ‖unwrap(weight)‖ (per row), SoftPlus())` -/
def weightNormalization (w : WMat α) : WMat α :=
  .weightNorm w ((w.unwrap.map fun row => (Params.softplusInit (1 / Transc.sqrt (Jnp.dot row row))).arr).map
    fun r => (Params.softplusRaw r).unwrap)

/-- a stored `TriangularAffine` as an entry of `Chain([...])`: its four methods on the unwrapped object -/
def triAffBij (p : TriAffP α) : VBij α := (⟨p.triangular.unwrap, p.loc, p.lower⟩ : Tri.TriAffine α).toBij

/-- `LeakyTanh(max_val, (dim,))`: the GENERATED scalar `LeakyTanh` on each of the `dim` coordinates -/
def leakyTanhOf (max_val : α) (dim : Nat) : VBij α := Bij.elementwise (List.replicate dim (LeakyTanh.init max_val).toBij)

/-- `RationalQuadraticSpline(knots=knots, interval=interval)` as constructed (`interval` a number ⇒ `(-interval, interval)`;
defaults `min_derivative=1e-3`, `softmax_adjust=1e-2`; raw leaves `zeros(knots)`, `zeros(knots)`,
`full(knots + 2, log(exp(1 - min_derivative) - 1))`), through `rqsSpline` (GENERATED parameterisations of `Gen/Params.lean`) -/
def rqsCtor (knots : Nat) (interval : α) : RationalQuadraticSpline α :=
  rqsSpline ⟨knots, (-interval, interval), 0.01, 0.001⟩
    (List.replicate (2 * knots) 0 ++ List.replicate (knots + 2) (Transc.log (Transc.exp (1 - 0.001) - 1))) []

/-- `eqx.filter_vmap(fn, axis_size=n)()`: `n` independently constructed objects (the stacked module, unstacked) -/
def filterVmapN {β : Type} (fn : Unit → β) (n : Nat) : List β := List.replicate n (fn ())

/-- `Vmap(spline, in_axes=eqx.if_array(0))` of stacked scalar splines: coordinate `i` through spline `i` -/
def vmapOf (splines : List (RationalQuadraticSpline α)) : VBij α := Bij.elementwise (splines.map fun s => s.toBij)

/-- `Linear(cond_dim, dim, use_bias=False, key=cond_key)`: the key is the `dim × cond_dim` weight -/
def linearNoBias (_cond_dim _dim : Nat) (cond_key : List (List α)) : List (List α) := cond_key

/-- `AdditiveCondition(linear, (dim,), (cond_dim,))` -/
def additiveConditionOf (W : List (List α)) (_shape _cond_shape : Nat) : VBij α := linearCondition W

/-- `triangular_spline_flow.make_layer` (hand model; the factory cannot be constructed in this environment):
`Chain([LeakyTanh(m, (dim,)), Vmap(splines), Invert(LeakyTanh(m, (dim,))), tri_aff, (linear_condition)])`, then the
default permutation is added by the generated `_add_default_permute` (see `Model/Flows.lean`). -/
def triSplineCore (bij_key : TriSplineNet α) (dim : Nat) (tanh_max_val : α) : VBij α :=
  let lt : VBij α := Bij.elementwise (List.replicate dim (LeakyTanh.init tanh_max_val).toBij)
  let sp : VBij α := Bij.elementwise (bij_key.splines.map fun s => s.toBij)
  chainOf ([lt, sp, invertOf lt, bij_key.tri.toBij] ++ condTail bij_key.condLinear)

end layers
end Flows
