import Flowjaxv.Model.Bij
/-!
# n-d arrays and the array combinators (hand model, Mathlib-free, executable)

An array is its shape plus its row-major data.  Everything done "along axis k" uses the
*three-level view*: row-major data of shape `s` is, with no data movement, the data of shape
`(O, A, I)` where `O = ∏ s[:k]`, `A = s[k]`, `I = ∏ s[k+1:]` — `O` blocks of `A` rows of `I`
entries.  `jnp.array_split / jnp.concatenate / jnp.stack / jnp.split+squeeze` along axis `k` act on
the middle level only.

Tied to the code by the correspondence harness (`tools/props/c08.py`), which runs these
definitions against real `Concatenate / Stack / Partial / Reshape / EmbedCondition / Scan / Vmap`
objects for ranks 0–3 and every valid axis, negative ones included.
-/

structure Arr (α : Type) where
  shape : List Nat
  data : List α
deriving Repr

namespace Arr
variable {α : Type}

def prod (s : List Nat) : Nat := s.foldl (· * ·) 1

/-- NumPy's axis rule: a negative axis counts from the end (`axis + rank`). `none` when out of range. -/
def normAxis (rank : Nat) (axis : Int) : Option Nat :=
  let a := if axis < 0 then axis + rank else axis
  if 0 ≤ a ∧ a < rank then some a.toNat else none

/-- `k` chunks of length `n` -/
def chunks (n : Nat) : Nat → List α → List (List α)
  | 0, _ => []
  | k + 1, l => l.take n :: chunks n k (l.drop n)

/-- three-level view: `O` blocks of `A` rows of `I` entries -/
abbrev View (α : Type) := List (List (List α))

def view3 (O A I : Nat) (data : List α) : View α :=
  (chunks (A * I) O data).map (chunks I A)

def unview3 (v : View α) : List α := (v.map List.flatten).flatten

/-- split every block's rows into consecutive pieces of the given sizes (`jnp.array_split` with
`split_idxs = cumsum(sizes[:-1])`, on the view) -/
def splitRows : List Nat → List (List α) → List (List (List α))
  | [], _ => []
  | n :: ns, rows => rows.take n :: splitRows ns (rows.drop n)

/-- part `j` of the split = for every block, its `j`-th piece -/
def splitView (sizes : List Nat) (v : View α) : List (View α) :=
  (List.range sizes.length).map (fun j => v.map (fun blk => (splitRows sizes blk).getD j []))

/-- `jnp.concatenate` on the view: for every block index, append the parts' blocks -/
def catView (O : Nat) (parts : List (View α)) : View α :=
  (List.range O).map (fun o => (parts.map (fun p => p.getD o [])).flatten)

/-- positions gather / scatter (`x[idxs]` and `x.at[idxs].set(v)` on flat positions) -/
def gather [Inhabited α] (pos : List Nat) (data : List α) : List α :=
  pos.map (fun i => data.getD i default)

def scatter (pos : List Nat) (data : List α) (vals : List α) : List α :=
  (pos.zip vals).foldl (fun d pv => d.set pv.1 pv.2) data

end Arr

/-! ## Combinators over `Bij (Arr α) C L` -/
namespace ArrComb
open Arr
variable {α C L : Type} [Add L] [OfNat L 0]

/-- shape with the entry at `k` replaced -/
def setAxis (s : List Nat) (k n : Nat) : List Nat := s.set k n

structure ConcatSpec where
  /-- declared shape of the combinator -/
  shape : List Nat
  /-- normalised (non-negative) axis -/
  axis : Nat
  /-- size of each child along the axis -/
  sizes : List Nat

def ConcatSpec.O (s : ConcatSpec) : Nat := Arr.prod (s.shape.take s.axis)
def ConcatSpec.I (s : ConcatSpec) : Nat := Arr.prod (s.shape.drop (s.axis + 1))
def ConcatSpec.A (s : ConcatSpec) : Nat := s.sizes.foldl (· + ·) 0
def ConcatSpec.childShape (s : ConcatSpec) (n : Nat) : List Nat := setAxis s.shape s.axis n

/-- parts of `x` handed to the children (as arrays of the children's shapes) -/
def ConcatSpec.parts (s : ConcatSpec) (x : List α) : List (Arr α) :=
  (List.zip s.sizes (splitView s.sizes (view3 s.O s.A s.I x))).map
    (fun nv => ⟨s.childShape nv.1, unview3 nv.2⟩)

/-- glue children outputs back (`jnp.concatenate(parts, axis)`) -/
def ConcatSpec.glue (s : ConcatSpec) (ys : List (Arr α)) : Arr α :=
  ⟨s.shape, unview3 (catView s.O ((List.zip s.sizes ys).map (fun ny => view3 s.O ny.1 s.I ny.2.data)))⟩

/-- `Concatenate(bijections, axis)` -/
def concatenate (s : ConcatSpec) (bs : List (Bij (Arr α) C L)) : Bij (Arr α) C L where
  fwd x c := s.glue (List.zipWith (fun b p => b.fwd p c) bs (s.parts x.data))
  inv y c := s.glue (List.zipWith (fun b p => b.inv p c) bs (s.parts y.data))
  fwdLd x c :=
    let r := List.zipWith (fun b p => b.fwdLd p c) bs (s.parts x.data)
    (s.glue (r.map Prod.fst), (r.map Prod.snd).foldl (· + ·) 0)
  invLd y c :=
    let r := List.zipWith (fun b p => b.invLd p c) bs (s.parts y.data)
    (s.glue (r.map Prod.fst), (r.map Prod.snd).foldl (· + ·) 0)

/-- `Stack(bijections, axis)`: concatenation of children given a singleton axis
(`jnp.split(...)` + `squeeze`, then `jnp.stack`).  `s.sizes` is all ones, `s.shape` the stacked shape. -/
def stack (s : ConcatSpec) (childShape : List Nat) (bs : List (Bij (Arr α) C L)) : Bij (Arr α) C L :=
  let expand (b : Bij (Arr α) C L) : Bij (Arr α) C L :=
    { fwd := fun p c => ⟨p.shape, (b.fwd ⟨childShape, p.data⟩ c).data⟩
      inv := fun p c => ⟨p.shape, (b.inv ⟨childShape, p.data⟩ c).data⟩
      fwdLd := fun p c => let r := b.fwdLd ⟨childShape, p.data⟩ c; (⟨p.shape, r.1.data⟩, r.2)
      invLd := fun p c => let r := b.invLd ⟨childShape, p.data⟩ c; (⟨p.shape, r.1.data⟩, r.2) }
  concatenate s (bs.map expand)

/-- `Partial(bijection, idxs, shape)` with `idxs` resolved to flat positions `pos` of sub-shape `sub` -/
def partialB [Inhabited α] (shape sub : List Nat) (pos : List Nat) (b : Bij (Arr α) C L) : Bij (Arr α) C L where
  fwd x c := ⟨shape, scatter pos x.data (b.fwd ⟨sub, gather pos x.data⟩ c).data⟩
  inv y c := ⟨shape, scatter pos y.data (b.inv ⟨sub, gather pos y.data⟩ c).data⟩
  fwdLd x c := let r := b.fwdLd ⟨sub, gather pos x.data⟩ c; (⟨shape, scatter pos x.data r.1.data⟩, r.2)
  invLd y c := let r := b.invLd ⟨sub, gather pos y.data⟩ c; (⟨shape, scatter pos y.data r.1.data⟩, r.2)

/-- `Reshape(bijection, shape, cond_shape)`: only re-presents the point (row-major data untouched) -/
def reshape (shape inner : List Nat) (b : Bij (Arr α) C L) : Bij (Arr α) C L where
  fwd x c := ⟨shape, (b.fwd ⟨inner, x.data⟩ c).data⟩
  inv y c := ⟨shape, (b.inv ⟨inner, y.data⟩ c).data⟩
  fwdLd x c := let r := b.fwdLd ⟨inner, x.data⟩ c; (⟨shape, r.1.data⟩, r.2)
  invLd y c := let r := b.invLd ⟨inner, y.data⟩ c; (⟨shape, r.1.data⟩, r.2)

/-- `EmbedCondition(bijection, embedding_net, raw_cond_shape)` -/
def embed {C' : Type} (net : C' → C) (b : Bij (Arr α) C L) : Bij (Arr α) C' L where
  fwd x c := b.fwd x (net c)
  inv y c := b.inv y (net c)
  fwdLd x c := b.fwdLd x (net c)
  invLd y c := b.invLd y (net c)

/-- elementwise bijection on arrays from per-element scalar bijections (shape preserved) -/
def elementwise (bs : List (Bij α C L)) : Bij (Arr α) C L where
  fwd x c := ⟨x.shape, List.zipWith (fun b v => b.fwd v c) bs x.data⟩
  inv y c := ⟨y.shape, List.zipWith (fun b v => b.inv v c) bs y.data⟩
  fwdLd x c := (⟨x.shape, List.zipWith (fun b v => (b.fwdLd v c).1) bs x.data⟩,
    (List.zipWith (fun b v => (b.fwdLd v c).2) bs x.data).foldl (· + ·) 0)
  invLd y c := (⟨y.shape, List.zipWith (fun b v => (b.invLd v c).1) bs y.data⟩,
    (List.zipWith (fun b v => (b.invLd v c).2) bs y.data).foldl (· + ·) 0)

end ArrComb
