/-!
# What a flowjax bijection is, after unwrapping: a record of its four public methods

`X` point type, `C` condition type (unconditional bijections ignore it), `L` log-det scalar.
Mathlib-free and executable.
-/

structure Bij (X C L : Type) where
  /-- `transform` -/
  fwd : X → C → X
  /-- `inverse` -/
  inv : X → C → X
  /-- `transform_and_log_det` -/
  fwdLd : X → C → X × L
  /-- `inverse_and_log_det` -/
  invLd : X → C → X × L
