import Flowjaxv.Proofs.ArgCheck
import Flowjaxv.Proofs.CtorsGen
import Flowjaxv.Proofs.WrapperGen
import Flowjaxv.Proofs.BnafInitGen
import Flowjaxv.Proofs.PlanarInitGen
/-!
# C13 — malformed inputs are rejected, never silently broadcast

Property theorems only (helper lemmas live in `Proofs/ArgCheck.lean`; no Mathlib is needed).

What the statements are about:
* `Gen.ArgCheckGen.checkX / checkCondition` — the two inner functions of `_unwrap_check_and_cast`, REGENERATED
  from /repo by `tools/py2lean/structure.py` (statement-by-statement translation);
* `Gen.Structure.*` — the class table, the `__init_subclass__` hook facts and the distribution facts, REGENERATED
  from the AST of /repo (`decide` below runs over that table, which is the whole finite domain);
* `GenCtors.*` (`Gen/CtorsGen.lean`) — the constructors and argument checks (`check_shapes_match`,
  `merge_cond_shapes`, `Chain/Concatenate/Stack/Reshape/EmbedCondition/Vmap.__init__`, `_argcheck_shapes`,
  `Partial/Reshape/AbstractTransformed.__check_init__`, `Vmap.get_cond_shape`, the `shape` / `cond_shape` properties of
  `Invert`, `Scan`, `Vmap`, `EmbedCondition`, `Partial`) REGENERATED from /repo by `tools/py2lean/py2ctor.py` as
  exception-valued functions (`Except Err …`, statements and sub-expressions chained in source order);
* `ArgCheck.*` (`Model/ArgCheck.lean`, `Model/ArgCheckExt.lean`) — hand-written executable models of the wrapper, the
  distribution vectoriser and the constructor checks, tied to the real code by `tools/props/c13.py` and — the
  constructor checks — proved EQUAL to the regenerated definitions (section "regenerated constructors" below).

Shapes are arbitrary `List Nat` (any rank, any sizes): "scalar for vector", "size-1 axis", "extra leading axis",
"transposed" are all instances of `≠`.
-/
open PyShape ArgCheck Gen.Structure

namespace C13

/-! ## the wrapper installed on every bijection method -/

/-- The wrapper returns normally IFF `x` has exactly the declared shape and (the bijection is unconditional, or a
condition of exactly `cond_shape` is given) — for all shapes of all ranks. -/
theorem check_accepts_iff (shape : Shape) (condShape : Option Shape) (xShape : Shape) (cond : Option Shape) :
    wrapperCheck shape condShape xShape cond = .ok () ↔
      xShape = shape ∧ (condShape = none ∨ cond = condShape) :=
  wrapperCheck_ok_iff shape condShape xShape cond

/-- … and in every other case it raises `ValueError` (wrong `x` shape, missing condition, wrong condition shape). -/
theorem check_rejects_otherwise (shape : Shape) (condShape : Option Shape) (xShape : Shape) (cond : Option Shape)
    (h : ¬ (xShape = shape ∧ (condShape = none ∨ cond = condShape))) :
    wrapperCheck shape condShape xShape cond = .error .valueError :=
  wrapperCheck_err shape condShape xShape cond h

/-- The same for the GENERATED `_check_x` / `_check_condition` run in the wrapper's order on arbitrary Python
arguments (`None`, array-like of any shape, not array-like): the wrapped method is reached iff `x` is an array of
exactly the declared shape and either the bijection is unconditional — then the body receives `condition = None`
whatever was supplied — or the condition is an array of exactly `cond_shape`, forwarded unchanged. -/
theorem generated_check_accepts_iff (shape : Shape) (condShape : Option Shape) (x cond : Val) (r : Val × Val) :
    (match Gen.ArgCheckGen.checkX shape condShape x with
      | .error e => .error e
      | .ok x' => match Gen.ArgCheckGen.checkCondition shape condShape cond with
          | .error e => .error e
          | .ok c' => .ok (x', c')) = Except.ok r ↔
      x = .arr shape ∧
        ((condShape = none ∧ r = (x, .none)) ∨ (∃ s, condShape = some s ∧ cond = .arr s ∧ r = (x, cond))) := by
  rw [gen_checkX_eq, gen_checkCondition_eq]
  exact wrapperCheckVal_ok_iff shape condShape x cond r

/-- Every rejection of the generated checks is a `ValueError` or a `TypeError` (never an `AttributeError` from
`None.shape`, never an `IndexError`). -/
theorem generated_check_error_class (shape : Shape) (condShape : Option Shape) (x cond : Val) (e : Err)
    (h : (match Gen.ArgCheckGen.checkX shape condShape x with
      | .error e => .error e
      | .ok x' => match Gen.ArgCheckGen.checkCondition shape condShape cond with
          | .error e => .error e
          | .ok c' => .ok (x', c')) = (Except.error e : Except Err (Val × Val))) :
    e = .valueError ∨ e = .typeError := by
  rw [gen_checkX_eq, gen_checkCondition_eq] at h
  exact wrapperCheckVal_err shape condShape x cond e h

/-- The generated inner functions are the hand model (used by the driver and the correspondence). -/
theorem generated_checks_eq_model (shape : Shape) (condShape : Option Shape) (v : Val) :
    Gen.ArgCheckGen.checkX shape condShape v = checkXVal shape v ∧
      Gen.ArgCheckGen.checkCondition shape condShape v = checkConditionVal condShape v :=
  ⟨gen_checkX_eq shape condShape v, gen_checkCondition_eq shape condShape v⟩

/-- On arrays the value-level and the shape-level wrappers agree. -/
theorem wrapper_levels_agree (shape : Shape) (condShape : Option Shape) (xShape : Shape) (cond : Option Shape) :
    (wrapperCheckVal shape condShape (.arr xShape) (match cond with | none => .none | some k => .arr k)).map
      (fun _ => ()) = wrapperCheck shape condShape xShape cond :=
  wrapperCheckVal_arr shape condShape xShape cond

/-- Non-vacuity: a vector bijection accepts its shape; a scalar, a size-1 axis, an extra leading axis are rejected;
a matrix bijection rejects the transposed matrix; a conditional one rejects a missing / size-1 condition. -/
theorem check_instances :
    wrapperCheck [3] none [3] none = .ok () ∧
    wrapperCheck [3] none [] none = .error .valueError ∧
    wrapperCheck [3] none [1] none = .error .valueError ∧
    wrapperCheck [3] none [1, 3] none = .error .valueError ∧
    wrapperCheck [2, 3] none [3, 2] none = .error .valueError ∧
    wrapperCheck [3] (some [2]) [3] none = .error .valueError ∧
    wrapperCheck [3] (some [2]) [3] (some [1]) = .error .valueError ∧
    wrapperCheck [3] (some [2]) [3] (some [2]) = .ok () := by decide

/-! ## every method of every class is the wrapped one (regenerated class table) -/

/-- The hook and the wrapper have the structure the resolver models: `__init_subclass__(cls)` loops
`for meth in wrap_methods`, guards with `meth in cls.__dict__ and not hasattr(cls.__dict__[meth],
'__isabstractmethod__')`, and does `setattr(cls, meth, _unwrap_check_and_cast(cls.__dict__[meth]))`;
`_unwrap_check_and_cast` returns a `functools.wraps(method)` wrapper `(bijection, x, condition=None)` whose body is
`method(unwrap(bijection), _check_x(x), _check_condition(condition))`; `wrap_methods` is exactly the four public
methods; no other `setattr` in flowjax can rebind one of them, no class is created dynamically with `type(…)`, and
nothing reaches behind a wrapper through `.__wrapped__` / `.__dict__` / `__getattribute__` / `vars` (so compositions
re-enter their children only through wrapped attributes). -/
theorem hook_canonical :
    hookCanonical = true ∧ wrapperCanonical = true ∧ onlyHookSetattr = true ∧ wrapMethods = fourMethods ∧
      dynamicTypeCalls = [] ∧ noUnwrapBypass = true := by decide

/-- For every class in the regenerated table other than the abstract root and each of the four methods, the
attribute Python resolves through the MRO is a plain `def` of a class body that the hook wrapped. An inherited
(from an unwrapped definer), aliased, decorated or renamed method would be a `false` entry. -/
theorem all_methods_guarded :
    ∀ r ∈ bijectionTable, r.name ≠ rootName →
      ∀ m ∈ fourMethods, resolvedIsWrapped fullTable r.name m = true := by decide

/-- No class body binds one of the four names other than by a plain (or, for the root, abstract) `def`; every
class defines all four itself; there are no mixin bases, no duplicate class names, no class decorators or metaclass
keywords, no nested bijection classes, and the only third-party base is `equinox.Module`. -/
theorem no_alias_bindings :
    (∀ r ∈ fullTable, r.otherBindings = [] ∧ r.classDecorators = [] ∧ r.classKeywords = [] ∧ r.nested = false) ∧
    (∀ r ∈ bijectionTable, r.name ≠ rootName → r.plainDefs = fourMethods ∧ r.bases = [rootName]) ∧
    bijectionAuxTable = [] ∧ duplicateBijectionClassNames = [] ∧ bijectionExternalBases = ["Module"] := by decide

/-- Non-vacuity of `all_methods_guarded`: the table lists 28 concrete classes (all but the root), among them the
combinators; the root itself is abstract and unguarded. -/
theorem guarded_table_nonempty :
    (bijectionTable.filter (fun r => isConcrete fullTable r.name)).length = 28 ∧
    isConcrete fullTable rootName = false ∧
    resolvedIsWrapped fullTable rootName "transform" = false ∧
    (∀ n ∈ ["Chain", "Concatenate", "Stack", "Partial", "Reshape", "Invert", "Scan", "Vmap", "Coupling",
        "MaskedAutoregressive", "BlockAutoregressiveNetwork", "_UnconditionalPlanar", "_CallableToBijection"],
      (findRow fullTable n).isSome = true) := by decide

/-- The resolver does detect the failure modes: a subclass that aliases `inverse = transform`, one that gets a
method from a mixin placed before the bijection base, and one whose class overrides `__init_subclass__`. -/
theorem resolver_detects_unguarded_instance :
    let mk (name : String) (bases plain other : List String) (isc : Bool) : ClassRow :=
      { name := name, file := "x.py", bases := bases, plainDefs := plain, abstractDefs := [], otherBindings := other,
        otherBindingNotes := [], definesInitSubclass := isc, classDecorators := [], classKeywords := [], nested := false }
    let tbl := fullTable ++ [mk "Aliased" ["AbstractBijection"] ["transform", "transform_and_log_det", "inverse_and_log_det"] ["inverse"] false,
      mk "Mixin" [] ["transform"] [] false, mk "Mixed" ["Mixin", "Affine"] [] [] false,
      mk "OwnHook" ["AbstractBijection"] fourMethods [] true, mk "Child" ["OwnHook"] fourMethods [] false,
      mk "Inheriting" ["Affine"] [] [] false]
    resolvedIsWrapped tbl "Aliased" "inverse" = false ∧ resolvedIsWrapped tbl "Aliased" "transform" = true ∧
    resolvedIsWrapped tbl "Mixed" "transform" = false ∧ resolvedIsWrapped tbl "Mixed" "inverse" = true ∧
    resolvedIsWrapped tbl "Child" "transform" = false ∧ resolvedIsWrapped tbl "Inheriting" "transform" = true := by
  decide

/-! ## distributions -/

/-- `log_prob` returns normally IFF `x` is `batch ++ shape` and, for a conditional distribution, the condition is
`cbatch ++ cond_shape` with broadcastable batches (result shape = the broadcast batch); trailing dimensions that do
not match exactly are rejected — all ranks, all sizes. -/
theorem dist_check_iff (shape : Shape) (condShape : Option Shape) (xShape : Shape) (cond : Option Shape)
    (r : Shape) :
    distCheck shape condShape xShape cond = .ok r ↔
      ∃ bx, xShape = bx ++ shape ∧
        ((condShape = none ∧ r = bx) ∨
          ∃ s bc, condShape = some s ∧ cond = some (bc ++ s) ∧ broadcast bx bc = some r) :=
  ArgCheck.dist_check_iff shape condShape xShape cond r

/-- trailing dimensions that do not match are always rejected -/
theorem dist_rejects_trailing_mismatch (shape : Shape) (condShape : Option Shape) (xShape : Shape)
    (cond : Option Shape) (h : ¬ shape <:+ xShape) : ∀ r, distCheck shape condShape xShape cond ≠ .ok r :=
  ArgCheck.dist_rejects_trailing_mismatch shape condShape xShape cond h

/-- `sample` / `sample_and_log_prob`: accepted IFF unconditional, or the condition is `cbatch ++ cond_shape`; the
result has shape `sample_shape ++ cbatch ++ shape`. -/
theorem dist_sample_iff (shape : Shape) (condShape : Option Shape) (sampleShape : Shape) (cond : Option Shape)
    (r : Shape) :
    distSampleCheck shape condShape sampleShape cond = .ok r ↔
      (condShape = none ∧ r = sampleShape ++ shape) ∨
        ∃ s bc, condShape = some s ∧ cond = some (bc ++ s) ∧ r = sampleShape ++ bc ++ shape :=
  ArgCheck.dist_sample_iff shape condShape sampleShape cond r

/-- The three public distribution methods start with `self = unwrap(self)`, cast the condition when conditional, go
through `self._vectorize(self._m)` whose `_check_shapes` compares `arg.shape != in_shape` and raises `ValueError`;
no distribution subclass overrides `log_prob`, `sample`, `sample_and_log_prob`, `_vectorize` or `_get_sample_keys`. -/
theorem dist_methods_guarded :
    distMethodsCanonical = true ∧ distNoOverrides = true ∧ distributionAuxTable = [] ∧
      duplicateDistributionClassNames = [] := by decide

theorem dist_instances :
    distCheck [3] none [4, 3] none = .ok [4] ∧ distCheck [3] none [4, 1] none = .error .valueError ∧
    distCheck [3] none [] none = .error .valueError ∧ distCheck [2, 3] none [3, 2] none = .error .valueError ∧
    distCheck [3] (some [2]) [4, 1, 3] (some [5, 2]) = .ok [4, 5] ∧
    distCheck [3] (some [2]) [4, 3] (some [5, 2]) = .error .valueError ∧
    distCheck [3] (some [2]) [3] none = .error .typeError ∧
    distSampleCheck [3] (some [2]) [7] (some [5, 2]) = .ok [7, 5, 3] := by decide

/-! ## constructors -/

/-- `check_shapes_match` accepts IFF all shapes are equal -/
theorem check_shapes_match_ctor_rejects_iff (shapes : List Shape) :
    checkShapesMatch shapes = .error .valueError ↔ ∃ s ∈ shapes, ∃ t ∈ shapes, s ≠ t := by
  constructor
  · intro h
    apply Classical.byContradiction
    intro hc
    have : checkShapesMatch shapes = .ok () := (checkShapesMatch_ok_iff shapes).2 fun s hs t ht =>
      Classical.byContradiction fun hne => hc ⟨s, hs, t, ht, hne⟩
    rw [this] at h; simp at h
  · rintro ⟨s, hs, t, ht, hne⟩
    apply checkShapesMatch_err
    intro hok
    exact hne ((checkShapesMatch_ok_iff shapes).1 hok s hs t ht)

/-- `merge_cond_shapes`: full specification (raises on the empty list and on two different non-None shapes;
`None`s are filtered; returns `None` iff all are `None`, else the common shape). -/
theorem merge_cond_shapes_spec (conds : List (Option Shape)) (r : Option Shape) :
    mergeCondShapes conds = .ok r ↔
      conds ≠ [] ∧ ((r = none ∧ ∀ s ∈ conds, s = none) ∨
        ∃ c, r = some c ∧ some c ∈ conds ∧ ∀ s ∈ conds, s = none ∨ s = some c) :=
  mergeCondShapes_ok_iff conds r

theorem merge_cond_shapes_ctor_rejects_iff (conds : List (Option Shape)) :
    (∀ r, mergeCondShapes conds ≠ .ok r) ↔ ¬ CondCompatible conds := by
  rw [← mergeCondShapes_accepts_iff]; simp

/-- `Chain(bijections)`: accepted IFF there is at least one bijection, all shapes are equal and the condition
shapes are compatible; the declared shape is the common shape, the declared `cond_shape` the merged one. -/
theorem chain_ctor_rejects_iff (shapes : List Shape) (conds : List (Option Shape)) (s : Shape) (c : Option Shape) :
    chainCtor shapes conds = .ok (s, c) ↔
      (∃ rest, shapes = s :: rest ∧ ∀ t ∈ shapes, t = s) ∧ mergeCondShapes conds = .ok c :=
  chainCtor_ok_iff shapes conds s c

/-- `Concatenate(bijections, axis)` is accepted exactly when `jnp.concatenate` of arrays of those shapes is, with
exactly its result shape — every axis, negative ones included. -/
theorem concatenate_shape_spec (shapes : List Shape) (conds : List (Option Shape)) (axis : Int) (s : Shape)
    (c : Option Shape) :
    concatenateCtor shapes conds axis = .ok (s, c) ↔
      jnpConcatenateShape shapes axis = some s ∧ mergeCondShapes conds = .ok c :=
  concatenateCtor_ok_iff shapes conds axis s c

/-- `Concatenate` raises exactly on the documented incompatibility: no bijection, an axis outside
`[-rank, rank)`, different ranks, a mismatch on an axis other than the concatenation axis, or incompatible
condition shapes. -/
theorem concatenate_ctor_rejects_iff (shapes : List Shape) (conds : List (Option Shape)) (axis : Int) :
    (∀ r, concatenateCtor shapes conds axis ≠ .ok r) ↔ ¬ (ConcatCompatible shapes axis ∧ CondCompatible conds) := by
  rw [← jnpConcatenateShape_isSome_iff, ← mergeCondShapes_accepts_iff]
  constructor
  · rintro h ⟨⟨s, hs⟩, ⟨c, hc⟩⟩
    exact h (s, c) ((concatenateCtor_ok_iff shapes conds axis s c).2 ⟨hs, hc⟩)
  · rintro h ⟨s, c⟩ hr
    obtain ⟨h1, h2⟩ := (concatenateCtor_ok_iff shapes conds axis s c).1 hr
    exact h ⟨⟨s, h1⟩, ⟨c, h2⟩⟩

/-- `Stack(bijections, axis)` is accepted exactly when `jnp.stack` is, with exactly its result shape — every axis
in `[-(rank+1), rank+1)`, negative ones included. -/
theorem stack_shape_spec (shapes : List Shape) (conds : List (Option Shape)) (axis : Int) (s : Shape)
    (c : Option Shape) :
    stackCtor shapes conds axis = .ok (s, c) ↔
      jnpStackShape shapes axis = some s ∧ mergeCondShapes conds = .ok c :=
  stackCtor_ok_iff shapes conds axis s c

theorem stack_ctor_rejects_iff (shapes : List Shape) (conds : List (Option Shape)) (axis : Int) :
    (∀ r, stackCtor shapes conds axis ≠ .ok r) ↔ ¬ (StackCompatible shapes axis ∧ CondCompatible conds) := by
  rw [← jnpStackShape_isSome_iff, ← mergeCondShapes_accepts_iff]
  constructor
  · rintro h ⟨⟨s, hs⟩, ⟨c, hc⟩⟩
    exact h (s, c) ((stackCtor_ok_iff shapes conds axis s c).2 ⟨hs, hc⟩)
  · rintro h ⟨s, c⟩ hr
    obtain ⟨h1, h2⟩ := (stackCtor_ok_iff shapes conds axis s c).1 hr
    exact h ⟨⟨s, h1⟩, ⟨c, h2⟩⟩

/-- worked instances, negative axes (the shape `Stack` used to get wrong) and rejections included -/
theorem concatenate_instances :
    concatenateCtor [[2, 3], [2, 4]] [none, some [1]] (-1) = .ok ([2, 7], some [1]) ∧
    concatenateCtor [[2, 3], [1, 3]] [none, none] 1 = .error .valueError ∧
    concatenateCtor [[2, 3], [2]] [none, none] 1 = .error .indexError ∧
    concatenateCtor [[2], [2]] [none, none] 1 = .error .indexError ∧
    concatenateCtor [] [] 0 = .error .indexError := by decide

theorem stack_chain_instances :
    stackCtor [[2, 3], [2, 3]] [none, none] (-1) = .ok ([2, 3, 2], none) ∧
    stackCtor [[2, 3], [2, 3]] [none, none] (-3) = .ok ([2, 2, 3], none) ∧
    stackCtor [[2, 3], [2, 3]] [none, none] 3 = .error .indexError ∧
    stackCtor [[3], [1]] [none, none] 0 = .error .valueError ∧
    stackShape [[3], [3]] 1 = .ok [3, 2] ∧
    chainCtor [[3], [3]] [some [2], none] = .ok ([3], some [2]) ∧
    chainCtor [[3], []] [none, none] = .error .valueError ∧
    chainCtor [[3], [3]] [some [2], some [1]] = .error .valueError :=
  ⟨by decide, by decide, by decide, by decide, by decide, by decide, by decide, by decide⟩

/-- `Partial.__check_init__` raises exactly when the bijection does not fit the indexed part — for a slice, and
for an integer index that lies inside `[-n, n)`.  PARTIAL: what is missing is exactly the out-of-range integer
(`partial_oob_int_accepted`: the code, like this model, accepts it) and the array / tuple index kinds, which are
exercised on the real code only. -/
theorem partial_ctor_rejects_iff_partial (shape : Shape) (idx : Idx) (bshape : Shape)
    (h : ¬ IntOutOfRange shape idx) :
    partialCheck shape idx bshape = .ok () ↔ PartialFits shape idx bshape :=
  partialCheck_ok_iff_fits shape idx bshape h

/-- KNOWN FINDING, stated as a theorem about the faithful model: an integer index is never bounds-checked
(`jnp.zeros(shape)[i]` clamps a static out-of-range int), so `Partial(b, i, (n, …))` is accepted for EVERY integer
`i` on a non-empty axis as soon as `b.shape` is the rest of the shape — e.g. `Partial(Identity(()), 5, (3,))`.
(Only an axis of size 0 makes JAX raise IndexError.) -/
theorem partial_oob_int_accepted (n : Nat) (rest : Shape) (i : Int) (hn : 0 < n) :
    partialCheck (n :: rest) (.int i) rest = .ok () :=
  partialCheck_oob_int n rest i hn

/-- the slice arithmetic never selects more than the axis has, and `lo:hi` inside the axis selects `hi - lo` -/
theorem partial_slice_spec (n : Nat) :
    (∀ a b st k, sliceLen n a b st = .ok k → k ≤ n) ∧
    (∀ lo hi : Nat, lo ≤ hi → hi ≤ n → sliceLen n (some lo) (some hi) none = .ok (hi - lo)) ∧
    (∀ a b, sliceLen n a b (some 0) = .error .valueError) :=
  ⟨fun a b st k h => sliceLen_le n a b st k h, fun lo hi h1 h2 => sliceLen_unit_step n lo hi h1 h2,
    fun a b => by simp [sliceLen]⟩

theorem partial_instances :
    partialCheck [3] (.slice (some 0) (some 2) none) [2] = .ok () ∧
    partialCheck [3] (.slice (some 0) (some 2) none) [1] = .error .valueError ∧
    partialCheck [3, 2] (.slice none none (some (-2))) [2, 2] = .ok () ∧
    partialCheck [3] (.int 1) [] = .ok () ∧ partialCheck [3] (.int 1) [1] = .error .valueError ∧
    partialCheck [] (.int 0) [] = .error .indexError ∧ partialCheck [0] (.int 0) [] = .error .indexError ∧
    partialCheck [3] (.int 5) [] = .ok () ∧ ¬ PartialFits [3] (.int 5) [] := by
  refine ⟨by decide, by decide, by decide, by decide, by decide, by decide, by decide, by decide, ?_⟩
  rintro ⟨n, rest, hs, -, h2, -⟩
  simp only [List.cons.injEq] at hs
  omega

/-- `Reshape(bijection, shape, cond_shape)` is accepted IFF the element counts agree (`shape` defaulting to the
bijection's) and `cond_shape` is either left unchanged or reshapes an existing condition shape to the same element
count (a `cond_shape` for an unconditional bijection is rejected). -/
theorem reshape_ctor_rejects_iff (bshape : Shape) (bcond shape? cond? : Option Shape) (s : Shape)
    (c : Option Shape) :
    reshapeCtor bshape bcond shape? cond? = .ok (s, c) ↔
      s = shape?.getD bshape ∧ prod s = prod bshape ∧
        ((cond? = none ∧ c = bcond) ∨
          ∃ a b, cond? = some a ∧ bcond = some b ∧ c = some a ∧ prod a = prod b) :=
  reshapeCtor_ok_iff bshape bcond shape? cond? s c

/-- every rejection of `Reshape` is a `ValueError` -/
theorem reshape_ctor_error_class (bshape : Shape) (bcond shape? cond? : Option Shape) (e : Err)
    (h : reshapeCtor bshape bcond shape? cond? = .error e) : e = .valueError :=
  reshapeCtor_err bshape bcond shape? cond? e h

theorem reshape_instances :
    reshapeCtor [2, 3] none (some [6]) none = .ok ([6], none) ∧
    reshapeCtor [2, 3] none (some [5]) none = .error .valueError ∧
    reshapeCtor [2] none none (some [3]) = .error .valueError ∧
    reshapeCtor [2] (some [2, 2]) none (some [4]) = .ok ([2], some [4]) ∧
    reshapeCtor [2] (some [2, 2]) none (some [3]) = .error .valueError := by decide

/-- `AbstractTransformed.__check_init__` raises IFF both the base distribution and the bijection are conditional
with different condition shapes. -/
theorem transformed_ctor_rejects_iff (baseCond bijCond : Option Shape) :
    transformedCheckInit baseCond bijCond = .error .valueError ↔
      ∃ s t, baseCond = some s ∧ bijCond = some t ∧ s ≠ t :=
  transformedCheckInit_err_iff baseCond bijCond

/-- `TriangularAffine(loc, arr)` is accepted IFF `arr` is a square matrix `(d, d)` and `loc` broadcasts to `(d,)`;
the declared shape is `(d,)`; every rejection is a `ValueError`. -/
theorem triangular_ctor_rejects_iff (locShape arrShape s : Shape) :
    triangularCtor locShape arrShape = .ok s ↔
      ∃ d, arrShape = [d, d] ∧ s = [d] ∧ (locShape = [] ∨ locShape = [1] ∨ locShape = [d]) :=
  triangularCtor_ok_iff locShape arrShape s

/-- Coupling / MaskedAutoregressive transformers and BlockAutoregressiveNetwork activations must be scalar and
unconditional. -/
theorem scalar_transformer_ctor_rejects_iff (shape : Shape) (cond : Option Shape) :
    scalarUnconditionalCheck shape cond = .ok () ↔ shape = [] ∧ cond = none :=
  scalarUnconditionalCheck_ok_iff shape cond

theorem misc_ctor_instances :
    transformedCheckInit (some [2]) (some [1]) = .error .valueError ∧ transformedCheckInit (some [2]) none = .ok () ∧
    triangularCtor [] [3, 3] = .ok [3] ∧ triangularCtor [2] [3, 3] = .error .valueError ∧
    triangularCtor [] [3, 2] = .error .valueError ∧ triangularCtor [] [3, 3, 3] = .error .valueError ∧
    scalarUnconditionalCheck [] none = .ok () ∧ scalarUnconditionalCheck [1] none = .error .valueError := by
  decide

/-! ## regenerated constructors

`Gen/CtorsGen.lean` is translated from the source on every run; each definition is the hand model above (same
exception or same declared shapes — for ALL lists of children, axes, shapes, indices), so every constructor theorem
of this file is restated about what the code says now. -/
section Regenerated
open PyCtor

/-- regenerated `check_shapes_match` = hand model, every list of shapes -/
theorem gen_check_shapes_match_eq (shapes : List Shape) :
    GenCtors.checkShapesMatch shapes = checkShapesMatch shapes := CtorsGen.gen_check_shapes_match_eq shapes

/-- regenerated `merge_cond_shapes` = hand model, every list of optional shapes -/
theorem gen_merge_cond_shapes_eq (conds : List (Option Shape)) :
    GenCtors.mergeCondShapes conds = mergeCondShapes conds := CtorsGen.gen_merge_cond_shapes_eq conds

/-- regenerated `Chain.__init__` = `chainCtor`: same exception, or the same declared `(shape, cond_shape)` -/
theorem gen_chain_ctor_eq (bs : List SB) :
    (GenCtors.Chain.init bs).map (fun r => (r.shape, r.cond_shape)) =
      chainCtor (bs.map (·.shape)) (bs.map (·.cond_shape)) := CtorsGen.gen_chain_ctor_eq bs

/-- regenerated `Concatenate._argcheck_shapes` (the loop comparing every axis but `axis`) = hand model, every axis -/
theorem gen_concatenate_argcheck_eq (axis : Int) (shapes : List Shape) :
    GenCtors.Concatenate.argcheckShapes axis shapes = concatenateArgcheck shapes axis :=
  CtorsGen.gen_concatenate_argcheck_eq axis shapes

/-- regenerated `Concatenate.__init__` = `concatenateCtor`, every list of children, every axis (negative included) -/
theorem gen_concatenate_ctor_eq (bs : List SB) (axis : Int) :
    (GenCtors.Concatenate.init bs axis).map (fun r => (r.shape, r.cond_shape)) =
      concatenateCtor (bs.map (·.shape)) (bs.map (·.cond_shape)) axis := CtorsGen.gen_concatenate_ctor_eq bs axis

/-- … its other fields: `axis` as given, `split_idxs` the running sums of the children's sizes along the normalised
axis (last child dropped) -/
theorem gen_concatenate_fields (bs : List SB) (axis : Int) (r : GenCtors.ConcatenateF)
    (h : GenCtors.Concatenate.init bs axis = .ok r) :
    r.axis = axis ∧ ∃ s0 ax, (bs.map (·.shape)).head? = some s0 ∧ normAxis s0.length axis = .ok ax ∧
      r.split_idxs = accumulate ((bs.map (fun b => b.shape[ax]?.getD 0)).dropLast) :=
  CtorsGen.gen_concatenate_fields bs axis r h

/-- regenerated `Stack.__init__` = `stackCtor` -/
theorem gen_stack_ctor_eq (bs : List SB) (axis : Int) :
    (GenCtors.Stack.init bs axis).map (fun r => (r.shape, r.cond_shape)) =
      stackCtor (bs.map (·.shape)) (bs.map (·.cond_shape)) axis := CtorsGen.gen_stack_ctor_eq bs axis

/-- regenerated `Partial.__check_init__` = `partialCheck` (JAX static indexing stays the hand-modelled primitive
`indexShape`), and the whole constructor as Equinox runs it -/
theorem gen_partial_check_eq (b : SB) (i : Idx) (shape : Shape) :
    GenCtors.Partial.checkInit b i shape = partialCheck shape i b.shape ∧
      GenCtors.Partial.ctor b i shape = (partialCheck shape i b.shape).map (fun _ => ⟨b, i, shape⟩) :=
  ⟨CtorsGen.gen_partial_check_eq b i shape, CtorsGen.gen_partial_ctor_eq b i shape⟩

/-- regenerated `Reshape.__check_init__` (the `for k, v in shapes.items()` loop) = `reshapeCheck`; `__init__` followed
by it = `reshapeCtor` -/
theorem gen_reshape_check_eq (b : SB) (shape : Shape) (cond shape? cond? : Option Shape) :
    GenCtors.Reshape.checkInit b shape cond = reshapeCheck shape cond b.shape b.cond_shape ∧
      (GenCtors.Reshape.ctor b shape? cond?).map (fun r => (r.shape, r.cond_shape)) =
        reshapeCtor b.shape b.cond_shape shape? cond? :=
  ⟨CtorsGen.gen_reshape_check_eq b shape cond, CtorsGen.gen_reshape_ctor_eq b shape? cond?⟩

/-- regenerated `EmbedCondition.__init__` + `shape` property: never raises, declares the wrapped bijection's shape
and the raw condition shape -/
theorem gen_embed_ctor_eq (b : SB) (raw : Shape) :
    (GenCtors.EmbedCondition.init b raw).bind
        (fun r => (GenCtors.EmbedCondition.shape r.bijection).map (fun s => (s, some r.cond_shape))) =
      embedCtor b.shape raw ∧ embedCtor b.shape raw = .ok (b.shape, some raw) :=
  ⟨CtorsGen.gen_embed_ctor_eq b raw, rfl⟩

/-- regenerated `Vmap.__init__` (`in_axes` XOR `axis_size`, `get_cond_shape`) + `shape` property = `vmapCtor` -/
theorem gen_vmap_ctor_eq (b : VB) (inAxes : Option InAxes) (axisSize : Option Nat) (condAx : Option Int) :
    (GenCtors.Vmap.init b inAxes axisSize condAx).bind
        (fun r => (GenCtors.Vmap.shape r.axis_size r.bijection).map (fun s => (s, r.cond_shape))) =
      vmapCtor b inAxes axisSize condAx := CtorsGen.gen_vmap_ctor_eq b inAxes axisSize condAx

/-- regenerated `AbstractTransformed.__check_init__` = hand model -/
theorem gen_transformed_check_eq (base bij : SB) :
    GenCtors.Transformed.checkInit base bij = transformedCheckInit base.cond_shape bij.cond_shape :=
  CtorsGen.gen_transformed_check_eq base bij

/-- regenerated `shape` / `cond_shape` properties of `Invert`, `Scan`, `Partial.cond_shape`: the wrapped bijection's -/
theorem gen_wrapper_shapes_eq (b : SB) :
    GenCtors.Invert.shape b = .ok b.shape ∧ GenCtors.Invert.condShape b = .ok b.cond_shape ∧
    GenCtors.Scan.shape b = .ok b.shape ∧ GenCtors.Scan.condShape b = .ok b.cond_shape ∧
    GenCtors.Partial.condShape b = .ok b.cond_shape := CtorsGen.gen_wrapper_shapes_eq b

/-! ### the constructor theorems, on the regenerated definitions -/

theorem gen_check_shapes_match_rejects_iff (shapes : List Shape) :
    GenCtors.checkShapesMatch shapes = .error .valueError ↔ ∃ s ∈ shapes, ∃ t ∈ shapes, s ≠ t := by
  rw [gen_check_shapes_match_eq]; exact check_shapes_match_ctor_rejects_iff shapes

theorem gen_merge_cond_shapes_spec (conds : List (Option Shape)) (r : Option Shape) :
    GenCtors.mergeCondShapes conds = .ok r ↔
      conds ≠ [] ∧ ((r = none ∧ ∀ s ∈ conds, s = none) ∨
        ∃ c, r = some c ∧ some c ∈ conds ∧ ∀ s ∈ conds, s = none ∨ s = some c) := by
  rw [gen_merge_cond_shapes_eq]; exact merge_cond_shapes_spec conds r

theorem gen_merge_cond_shapes_rejects_iff (conds : List (Option Shape)) :
    (∀ r, GenCtors.mergeCondShapes conds ≠ .ok r) ↔ ¬ CondCompatible conds := by
  rw [gen_merge_cond_shapes_eq]; exact merge_cond_shapes_ctor_rejects_iff conds

/-- the regenerated `Chain(bijections)` is accepted IFF there is at least one bijection, all shapes are equal and the
condition shapes merge; it declares the common shape and the merged condition shape -/
theorem gen_chain_ctor_rejects_iff (bs : List SB) (s : Shape) (c : Option Shape) :
    GenCtors.Chain.init bs = .ok ⟨s, c⟩ ↔
      (∃ rest, bs.map (·.shape) = s :: rest ∧ ∀ t ∈ bs.map (·.shape), t = s) ∧
        GenCtors.mergeCondShapes (bs.map (·.cond_shape)) = .ok c := by
  rw [gen_merge_cond_shapes_eq, ← chain_ctor_rejects_iff, ← gen_chain_ctor_eq, CtorsGen.map_eq_ok_iff]
  constructor
  · intro h; exact ⟨_, h, rfl⟩
  · rintro ⟨⟨s', c'⟩, h, h2⟩
    simp only [Prod.mk.injEq] at h2
    obtain ⟨rfl, rfl⟩ := h2; exact h

/-- the regenerated `Concatenate(bijections, axis)` is accepted exactly when `jnp.concatenate` of arrays of the
children's shapes is, and declares exactly its result shape — every axis, negative ones included -/
theorem gen_concatenate_shape_spec (bs : List SB) (axis : Int) (s : Shape) (c : Option Shape) :
    (∃ r, GenCtors.Concatenate.init bs axis = .ok r ∧ r.shape = s ∧ r.cond_shape = c) ↔
      jnpConcatenateShape (bs.map (·.shape)) axis = some s ∧
        GenCtors.mergeCondShapes (bs.map (·.cond_shape)) = .ok c := by
  rw [gen_merge_cond_shapes_eq, ← concatenate_shape_spec, ← gen_concatenate_ctor_eq, CtorsGen.map_eq_ok_iff]
  simp only [Prod.mk.injEq]

theorem gen_concatenate_ctor_rejects_iff (bs : List SB) (axis : Int) :
    (∀ r, GenCtors.Concatenate.init bs axis ≠ .ok r) ↔
      ¬ (ConcatCompatible (bs.map (·.shape)) axis ∧ CondCompatible (bs.map (·.cond_shape))) := by
  rw [← concatenate_ctor_rejects_iff, ← gen_concatenate_ctor_eq]
  constructor
  · intro h r hr
    obtain ⟨r', h1, -⟩ := (CtorsGen.map_eq_ok_iff _ _ _).1 hr
    exact h r' h1
  · intro h r hr
    exact h (r.shape, r.cond_shape) (by rw [hr]; rfl)

/-- the regenerated `Stack(bijections, axis)` is accepted exactly when `jnp.stack` is, with exactly its result shape -/
theorem gen_stack_shape_spec (bs : List SB) (axis : Int) (s : Shape) (c : Option Shape) :
    (∃ r, GenCtors.Stack.init bs axis = .ok r ∧ r.shape = s ∧ r.cond_shape = c) ↔
      jnpStackShape (bs.map (·.shape)) axis = some s ∧ GenCtors.mergeCondShapes (bs.map (·.cond_shape)) = .ok c := by
  rw [gen_merge_cond_shapes_eq, ← stack_shape_spec, ← gen_stack_ctor_eq, CtorsGen.map_eq_ok_iff]
  simp only [Prod.mk.injEq]

theorem gen_stack_ctor_rejects_iff (bs : List SB) (axis : Int) :
    (∀ r, GenCtors.Stack.init bs axis ≠ .ok r) ↔
      ¬ (StackCompatible (bs.map (·.shape)) axis ∧ CondCompatible (bs.map (·.cond_shape))) := by
  rw [← stack_ctor_rejects_iff, ← gen_stack_ctor_eq]
  constructor
  · intro h r hr
    obtain ⟨r', h1, -⟩ := (CtorsGen.map_eq_ok_iff _ _ _).1 hr
    exact h r' h1
  · intro h r hr
    exact h (r.shape, r.cond_shape) (by rw [hr]; rfl)

/-- the regenerated `Partial(bijection, idxs, shape)` (dataclass `__init__` then `__check_init__`) is accepted exactly
when the bijection fits the indexed part — same exclusion as `partial_ctor_rejects_iff_partial` (the out-of-range
integer of the known finding) -/
theorem gen_partial_ctor_rejects_iff_partial (b : SB) (i : Idx) (shape : Shape) (h : ¬ IntOutOfRange shape i) :
    GenCtors.Partial.ctor b i shape = .ok ⟨b, i, shape⟩ ↔ PartialFits shape i b.shape := by
  rw [(gen_partial_check_eq b i shape).2, ← partial_ctor_rejects_iff_partial shape i b.shape h,
    CtorsGen.map_eq_ok_iff]
  constructor
  · rintro ⟨⟨⟩, h1, -⟩; exact h1
  · intro h1; exact ⟨(), h1, rfl⟩

/-- the known finding on the regenerated constructor: every integer index on a non-empty axis is accepted -/
theorem gen_partial_oob_int_accepted (n : Nat) (rest : Shape) (c : Option Shape) (i : Int) (hn : 0 < n) :
    GenCtors.Partial.ctor ⟨rest, c⟩ (.int i) (n :: rest) = .ok ⟨⟨rest, c⟩, .int i, n :: rest⟩ := by
  rw [(gen_partial_check_eq _ _ _).2, partial_oob_int_accepted n rest i hn]; rfl

/-- the regenerated `Reshape(bijection, shape, cond_shape)` is accepted IFF the element counts agree and `cond_shape`
is left unchanged or reshapes an existing condition shape to the same element count -/
theorem gen_reshape_ctor_rejects_iff (b : SB) (shape? cond? : Option Shape) (s : Shape) (c : Option Shape) :
    GenCtors.Reshape.ctor b shape? cond? = .ok ⟨b, s, c⟩ ↔
      s = shape?.getD b.shape ∧ ArgCheck.prod s = ArgCheck.prod b.shape ∧
        ((cond? = none ∧ c = b.cond_shape) ∨
          ∃ a b', cond? = some a ∧ b.cond_shape = some b' ∧ c = some a ∧ ArgCheck.prod a = ArgCheck.prod b') := by
  rw [← reshape_ctor_rejects_iff, ← (gen_reshape_check_eq b s c shape? cond?).2, CtorsGen.map_eq_ok_iff]
  constructor
  · intro h; exact ⟨_, h, rfl⟩
  · rintro ⟨r, h, h2⟩
    have hb := CtorsGen.gen_reshape_ctor_bijection b shape? cond? r h
    rcases r with ⟨rb, rs, rc⟩
    simp only [Prod.mk.injEq] at h2
    obtain ⟨rfl, rfl⟩ := h2
    simp only at hb; subst hb; exact h

theorem gen_reshape_ctor_error_class (b : SB) (shape? cond? : Option Shape) (e : Err)
    (h : GenCtors.Reshape.ctor b shape? cond? = .error e) : e = .valueError := by
  apply reshape_ctor_error_class b.shape b.cond_shape shape? cond? e
  rw [← (gen_reshape_check_eq b [] none shape? cond?).2, h]; rfl

theorem gen_transformed_ctor_rejects_iff (base bij : SB) :
    GenCtors.Transformed.checkInit base bij = .error .valueError ↔
      ∃ s t, base.cond_shape = some s ∧ bij.cond_shape = some t ∧ s ≠ t := by
  rw [gen_transformed_check_eq]; exact transformed_ctor_rejects_iff _ _

/-- **`Vmap`** (hand model = regenerated `__init__` by `gen_vmap_ctor_eq`): accepted IFF exactly one of `in_axes` /
`axis_size` is given — `in_axes` free of unwrappables and mapping at least one array leaf along a valid axis; the batch
size `n` is then that leaf's axis size — and the condition axis, when the bijection is conditional and the condition is
mapped, lies in `[-(rank+1), rank+1)`; it declares `(n, *bijection.shape)` and the condition shape with `n` inserted at
the normalised axis. -/
theorem gen_vmap_ctor_rejects_iff (b : VB) (ia : Option InAxes) (n? : Option Nat) (ca : Option Int) (s : Shape)
    (c : Option Shape) :
    (GenCtors.Vmap.init b ia n? ca).bind
        (fun r => (GenCtors.Vmap.shape r.axis_size r.bijection).map (fun s => (s, r.cond_shape))) = .ok (s, c) ↔
      ∃ n, ((ia = none ∧ n? = some n) ∨
          ∃ a, ia = some a ∧ n? = none ∧ a.hasUnwrappable = false ∧ inferAxisSize b a = .ok n) ∧
        s = n :: b.shape ∧
        (((b.cond_shape = none ∨ ca = none) ∧ c = b.cond_shape) ∨
          ∃ cs ax k, b.cond_shape = some cs ∧ ca = some ax ∧ normAxis (cs.length + 1) ax = .ok k ∧
            c = some (cs.insertIdx k n)) := by
  rw [gen_vmap_ctor_eq]; exact CtorsGen.vmapCtor_ok_iff b ia n? ca s c

/-- every rejection of `Vmap` is a `ValueError` (both / neither of `in_axes`, `axis_size`; unwrappables in `in_axes`;
no mapped leaf) or an `IndexError` (an axis out of range) -/
theorem gen_vmap_ctor_error_class (b : VB) (ia : Option InAxes) (n? : Option Nat) (ca : Option Int) (e : Err)
    (h : (GenCtors.Vmap.init b ia n? ca).bind
        (fun r => (GenCtors.Vmap.shape r.axis_size r.bijection).map (fun s => (s, r.cond_shape))) = .error e) :
    e = .valueError ∨ e = .indexError := by
  rw [gen_vmap_ctor_eq] at h; exact CtorsGen.vmapCtor_err b ia n? ca e h

/-- kernel evaluation of the regenerated definitions on the worked instances (negative axes, rank mismatch, an empty
list, `()` as a condition shape, a `cond_shape` for an unconditional `Reshape`, `Vmap` with a negative condition axis) -/
theorem gen_ctor_instances :
    (GenCtors.Concatenate.init [⟨[2, 3], none⟩, ⟨[2, 4], some [1]⟩] (-1)).map (fun r => (r.shape, r.cond_shape, r.split_idxs))
      = .ok ([2, 7], some [1], [3]) ∧
    (GenCtors.Concatenate.init [⟨[2, 3], none⟩, ⟨[1, 3], none⟩] 1).map (fun r => r.shape) = .error .valueError ∧
    (GenCtors.Concatenate.init [⟨[2, 3], none⟩, ⟨[2], none⟩] 1).map (fun r => r.shape) = .error .indexError ∧
    (GenCtors.Concatenate.init [] 0).map (fun r => r.shape) = .error .indexError ∧
    (GenCtors.Stack.init [⟨[2, 3], none⟩, ⟨[2, 3], none⟩] (-1)).map (fun r => r.shape) = .ok [2, 3, 2] ∧
    (GenCtors.Stack.init [⟨[2, 3], none⟩, ⟨[2, 3], none⟩] 3).map (fun r => r.shape) = .error .indexError ∧
    GenCtors.checkShapesMatch [[3], [3, 1]] = .error .valueError ∧
    GenCtors.mergeCondShapes [some [], none] = .ok (some []) ∧
    GenCtors.mergeCondShapes [some [], some [1]] = .error .valueError ∧
    GenCtors.mergeCondShapes [] = .error .valueError ∧
    (GenCtors.Chain.init [⟨[3], some [2]⟩, ⟨[3], none⟩]).map (fun r => (r.shape, r.cond_shape)) = .ok ([3], some [2]) ∧
    (GenCtors.Reshape.ctor ⟨[2, 3], none⟩ (some [6]) none).map (fun r => r.shape) = .ok [6] ∧
    (GenCtors.Reshape.ctor ⟨[2, 3], none⟩ (some [5]) none).map (fun r => r.shape) = .error .valueError ∧
    (GenCtors.Reshape.ctor ⟨[2], none⟩ none (some [3])).map (fun r => r.shape) = .error .valueError ∧
    GenCtors.Partial.checkInit ⟨[2], none⟩ (.slice (some 0) (some 2) none) [3] = .ok () ∧
    GenCtors.Partial.checkInit ⟨[1], none⟩ (.slice (some 0) (some 2) none) [3] = .error .valueError ∧
    (GenCtors.Vmap.init ⟨[3], some [2], []⟩ none (some 4) (some (-1))).map (fun r => r.cond_shape) = .ok (some [2, 4]) ∧
    (GenCtors.Vmap.init ⟨[3], some [2], []⟩ none none none).map (fun r => r.cond_shape) = .error .valueError ∧
    (GenCtors.Vmap.init ⟨[3], none, [[5, 3]]⟩ (some ⟨[some 0], false⟩) none none).map (fun r => r.axis_size) = .ok 5 :=
  ⟨by decide, by decide, by decide, by decide, by decide, by decide, by decide, by decide, by decide, by decide,
   by decide, by decide, by decide, by decide, by decide, by decide, by decide, by decide, by decide⟩

end Regenerated

section WrapperGen
/-! ## The argument-checking wrapper REGENERATED AS A WHOLE (`Gen/WrapperGen.lean`, translator `py2wrap.py`)

`_unwrap_check_and_cast(method)` — the `@functools.wraps` closure `wrapper(bijection, x, condition=None)`, its inner functions, and the
final `method(unwrap(bijection), _check_x(x), _check_condition(condition))` with the arguments evaluated left to right — and
`AbstractBijection.__init_subclass__` are generated from `flowjax/bijections/bijection.py` on every run, in exception-valued form.
`method` is ANY function of the unwrapped bijection and the two checked arguments. -/
open Gen.WrapperGen

/-- **generated wrapper = hand model** (`ArgCheck.wrapperCheckVal`): for every wrapped method, every declared shape / cond_shape,
every `x` and `condition` (None, an array of any shape, something not array-like) the generated closure raises what the model
raises — `x` is checked before the condition — and otherwise calls the method with the unwrapped bijection and the model's values. -/
theorem gen_wrapper_eq_model {ρ : Type} (method : PyCtor.SB → Val → Val → Except Err ρ) (shape : Shape)
    (condShape : Option Shape) (x cond : Val) :
    unwrapCheckAndCast method ⟨shape, condShape⟩ x cond =
      match wrapperCheckVal shape condShape x cond with
      | .error e => .error e
      | .ok (x', c') => method ⟨shape, condShape⟩ x' c' :=
  WrapperGenPf.gen_wrapper_eq_model method shape condShape x cond

/-- `check_accepts_iff` on the GENERATED wrapper: the wrapped method is reached (here: a method that records what it is called with)
iff `x` is an array of exactly the declared shape and either the bijection is unconditional — then the body receives
`condition = None` whatever was supplied — or the condition is an array of exactly `cond_shape`, forwarded unchanged; the method
always receives the bijection itself (unwrapped). All shapes of all ranks. -/
theorem gen_check_accepts_iff (shape : Shape) (condShape : Option Shape) (x cond : Val) (r : PyCtor.SB × Val × Val) :
    unwrapCheckAndCast (fun b x' c' => Except.ok (b, x', c')) ⟨shape, condShape⟩ x cond = Except.ok r ↔
      x = .arr shape ∧ r.1 = ⟨shape, condShape⟩ ∧
        ((condShape = none ∧ r.2 = (x, .none)) ∨ (∃ s, condShape = some s ∧ cond = .arr s ∧ r.2 = (x, cond))) := by
  rw [gen_wrapper_eq_model]
  obtain ⟨rb, rx, rc⟩ := r
  have key := wrapperCheckVal_ok_iff shape condShape x cond (rx, rc)
  cases hw : wrapperCheckVal shape condShape x cond with
  | error e =>
    rw [hw] at key
    simp only [reduceCtorEq, false_iff] at key
    simp only [reduceCtorEq, false_iff]
    rintro ⟨h1, _, h3⟩
    exact key ⟨h1, h3⟩
  | ok v =>
    obtain ⟨vx, vc⟩ := v
    rw [hw] at key
    simp only [Except.ok.injEq, Prod.mk.injEq] at key ⊢
    constructor
    · rintro ⟨rfl, rfl, rfl⟩
      obtain ⟨h1, h3⟩ := key.mp ⟨rfl, rfl⟩
      exact ⟨h1, rfl, h3⟩
    · rintro ⟨h1, h2, h3⟩
      obtain ⟨e1, e2⟩ := key.mpr ⟨h1, h3⟩
      exact ⟨h2.symm, e1, e2⟩

/-- … on array arguments, in the form of `check_accepts_iff`: the generated wrapper returns normally IFF `x` has exactly the
declared shape and (the bijection is unconditional, or a condition of exactly `cond_shape` is given). -/
theorem gen_check_accepts_iff_shapes (shape : Shape) (condShape : Option Shape) (xShape : Shape) (cond : Option Shape) :
    unwrapCheckAndCast (fun _ _ _ => Except.ok ()) ⟨shape, condShape⟩ (.arr xShape)
        (match cond with | none => .none | some k => .arr k) = Except.ok () ↔
      xShape = shape ∧ (condShape = none ∨ cond = condShape) := by
  rw [gen_wrapper_eq_model, ← check_accepts_iff, ← wrapper_levels_agree]
  cases wrapperCheckVal shape condShape (Val.arr xShape) (match cond with | none => .none | some k => .arr k) with
  | error e => simp [Except.map]
  | ok v => simp [Except.map]

/-- every rejection of the generated wrapper is a `ValueError` or a `TypeError`, and then the method is NOT called: the result does
not depend on the method -/
theorem gen_wrapper_error_class {ρ : Type} (method : PyCtor.SB → Val → Val → Except Err ρ) (shape : Shape)
    (condShape : Option Shape) (x cond : Val) (e : Err) (h : wrapperCheckVal shape condShape x cond = .error e) :
    unwrapCheckAndCast method ⟨shape, condShape⟩ x cond = .error e ∧ (e = .valueError ∨ e = .typeError) := by
  rw [gen_wrapper_eq_model, h]
  exact ⟨rfl, wrapperCheckVal_err shape condShape x cond e h⟩

/-- **the generated `__init_subclass__`**, for every class dictionary: afterwards a name is bound to `_unwrap_check_and_cast(o)` exactly
when it is one of the four method names, the class body binds it (to `o`) and `o` has no `__isabstractmethod__`; every other binding
is untouched and nothing is added. -/
theorem gen_init_subclass_spec (cls : PyCls.Cls) (m : String) :
    PyCls.lookup (initSubclass cls) m
      = match PyCls.lookup cls m with
        | some o => if m ∈ fourMethods ∧ PyCls.hasattr o "__isabstractmethod__" = false then some (.wrapped o) else some o
        | none => none :=
  WrapperGenPf.gen_init_subclass_spec cls m

/-- the class body of a row of the regenerated class table, as the hook sees it -/
def rowDict (r : ClassRow) : PyCls.Cls :=
  r.plainDefs.map (fun n => (n, PyCls.Obj.plain n)) ++ r.abstractDefs.map (fun n => (n, PyCls.Obj.abstract n))

/-- the generated hook run on every concrete class of the regenerated table wraps each of the four methods the class defines; on
the abstract root it wraps none (finite table: kernel evaluation). -/
theorem gen_init_subclass_table :
    (∀ r ∈ bijectionTable, r.name ≠ rootName → ∀ m ∈ r.plainDefs, m ∈ fourMethods →
      ((PyCls.lookup (initSubclass (rowDict r)) m).map PyCls.Obj.isWrapped) = some true) ∧
    (∀ r ∈ bijectionTable, r.name = rootName → ∀ m ∈ fourMethods,
      ((PyCls.lookup (initSubclass (rowDict r)) m).map PyCls.Obj.isWrapped) = some false) := by decide

/-- non-vacuity and ORDER: a non-array `x` together with a missing condition is the `TypeError` of `x` (checked first); a missing
condition alone is a `ValueError`; an unconditional bijection drops a superfluous condition; the default of `condition` is `None`. -/
theorem gen_wrapper_instances :
    let rec_ := fun (b : PyCtor.SB) (x' c' : Val) => (Except.ok (b, x', c') : Except Err (PyCtor.SB × Val × Val))
    unwrapCheckAndCast rec_ ⟨[3], some [2]⟩ .notArrayLike .none = .error .typeError ∧
    unwrapCheckAndCast rec_ ⟨[3], some [2]⟩ (.arr [3]) wrapperConditionDefault = .error .valueError ∧
    unwrapCheckAndCast rec_ ⟨[3], some [2]⟩ (.arr [3]) .notArrayLike = .error .typeError ∧
    unwrapCheckAndCast rec_ ⟨[3], some [2]⟩ (.arr [1, 3]) (.arr [2]) = .error .valueError ∧
    unwrapCheckAndCast rec_ ⟨[3], some [2]⟩ (.arr [3]) (.arr [2]) = .ok (⟨[3], some [2]⟩, .arr [3], .arr [2]) ∧
    unwrapCheckAndCast rec_ ⟨[3], none⟩ (.arr [3]) (.arr [7]) = .ok (⟨[3], none⟩, .arr [3], .none) ∧
    unwrapCheckAndCast rec_ ⟨[3], none⟩ (.arr [3]) .notArrayLike = .ok (⟨[3], none⟩, .arr [3], .none) := by decide

end WrapperGen

section Audit
/-! ## Audit (g27): the spec predicates of the `…_rejects_iff` theorems are inhabited and refutable by concrete objects; iffs used in both directions; rank-0 corner cases -/

/-- the spec predicates on the right-hand sides of the `…_rejects_iff` theorems are inhabited AND refutable by concrete
non-trivial objects, independently of the constructor models -/
theorem compat_audit_instances :
    ConcatCompatible [[2, 3], [2, 4]] (-1) ∧ ¬ ConcatCompatible [[2, 3], [1, 3]] 1 ∧ ¬ ConcatCompatible [[2, 3], [2]] 1
    ∧ ¬ ConcatCompatible [[], []] 0
    ∧ StackCompatible [[2, 3], [2, 3]] (-3) ∧ StackCompatible [[], []] (-1) ∧ ¬ StackCompatible [[3], [1]] 0
    ∧ ¬ StackCompatible [[2, 3], [2, 3]] 3
    ∧ CondCompatible [some [2], none, some [2]] ∧ ¬ CondCompatible [some [], some [1]] ∧ ¬ CondCompatible [] := by
  refine ⟨⟨[2, 3], [[2, 4]], rfl, by decide, by decide, ?_⟩, ?_, ?_, ?_, ⟨[2, 3], [[2, 3]], rfl, by decide, by decide, ?_⟩,
    ⟨[], [[]], rfl, by decide, by decide, ?_⟩, ?_, ?_, ⟨by decide, by decide⟩, ?_, fun h => h.1 rfl⟩
  · intro s hs
    simp only [List.mem_cons, List.not_mem_nil, or_false] at hs
    rcases hs with rfl | rfl
    · exact ⟨rfl, fun _ _ _ => rfl⟩
    · refine ⟨rfl, fun i hi hne => ?_⟩
      have h1 : normIdx [2, 3].length (-1) = 1 := by decide
      rw [h1] at hne
      have : i = 0 := by simp at hi; omega
      subst this; rfl
  · rintro ⟨s0, rest, hs, -, -, h⟩
    simp only [List.cons.injEq] at hs
    obtain ⟨rfl, rfl⟩ := hs
    have := (h [1, 3] (by simp)).2 0 (by decide) (by decide)
    simp at this
  · rintro ⟨s0, rest, hs, -, -, h⟩
    simp only [List.cons.injEq] at hs
    obtain ⟨rfl, rfl⟩ := hs
    have := (h [2] (by simp)).1
    simp at this
  · rintro ⟨s0, rest, hs, h1, h2, -⟩
    simp only [List.cons.injEq] at hs
    obtain ⟨rfl, rfl⟩ := hs
    simp at h2
  · intro s hs; simp at hs; rcases hs with rfl | rfl <;> rfl
  · intro s hs; simp at hs; rcases hs with rfl | rfl <;> rfl
  · rintro ⟨s0, rest, hs, -, -, h⟩
    simp only [List.cons.injEq] at hs
    obtain ⟨rfl, rfl⟩ := hs
    have := h [1] (by simp)
    simp at this
  · rintro ⟨s0, rest, hs, -, h2, -⟩
    simp only [List.cons.injEq] at hs
    obtain ⟨rfl, rfl⟩ := hs
    simp at h2
  · rintro ⟨-, h⟩
    have := h (some []) (by simp) (some [1]) (by simp)
    simp at this

/-- `PartialFits` / `¬ IntOutOfRange` inhabited: negative in-range int, a stepped slice; and the iff used in both directions -/
theorem partial_fits_audit_instances :
    PartialFits [3, 2] (.int (-1)) [2] ∧ ¬ IntOutOfRange [3, 2] (.int (-1)) ∧ IntOutOfRange [3] (.int 5)
    ∧ PartialFits [5] (.slice (some 1) none (some 2)) [2]
    ∧ partialCheck [3, 2] (.int (-1)) [2] = .ok ()
    ∧ ¬ PartialFits [3, 2] (.int (-1)) [3] ∧ partialCheck [3, 2] (.int (-1)) [3] ≠ .ok () := by
  have hno : ¬ IntOutOfRange [3, 2] (.int (-1)) := by
    rintro ⟨i, n, rest, hi, hs, h⟩
    simp only [Idx.int.injEq] at hi
    simp only [List.cons.injEq] at hs
    obtain ⟨rfl, -⟩ := hs
    subst hi
    omega
  have hfit : PartialFits [3, 2] (.int (-1)) [2] := ⟨3, [2], rfl, by decide, by decide, rfl⟩
  have hnfit : ¬ PartialFits [3, 2] (.int (-1)) [3] := by
    rintro ⟨n, rest, hs, -, -, hb⟩
    simp only [List.cons.injEq] at hs
    obtain ⟨-, rfl⟩ := hs
    simp at hb
  refine ⟨hfit, hno, ⟨5, 3, [], rfl, rfl, by decide⟩, ⟨5, [], 2, rfl, by decide, rfl⟩,
    (partial_ctor_rejects_iff_partial _ _ _ hno).2 hfit, hnfit,
    fun h => hnfit ((partial_ctor_rejects_iff_partial _ _ _ hno).1 h)⟩

/-- rank-0 corner cases of the two checks: a scalar bijection rejects a size-1 vector and vice versa; a scalar-event
distribution takes every x as batch; a scalar condition shape `()` with batched conditions broadcasts -/
theorem rank0_audit_instances :
    wrapperCheck [] none [1] none = .error .valueError ∧ wrapperCheck [1] none [] none = .error .valueError ∧
    wrapperCheck [] (some []) [] (some [1]) = .error .valueError ∧ wrapperCheck [] (some []) [] (some []) = .ok () ∧
    distCheck [] none [4, 1] none = .ok [4, 1] ∧
    distCheck [] (some []) [4, 1] (some [5]) = .ok [4, 5] ∧
    distCheck [] (some []) [4] (some [5]) = .error .valueError ∧
    distCheck [3] (some []) [3] (some [5]) = .ok [5] ∧
    distSampleCheck [] (some []) [7] (some [5]) = .ok [7, 5] := by decide

/-- the rejects-iff theorems used in the REJECT direction from the spec predicate alone -/
theorem ctor_rejects_audit_instance :
    (∀ r, concatenateCtor [[2, 3], [2]] [none, none] 1 ≠ .ok r) ∧
    (∀ r, stackCtor [[3], [1]] [none, none] 0 ≠ .ok r) ∧
    (∀ r, GenCtors.Stack.init [⟨[3], some []⟩, ⟨[3], some [1]⟩] 0 ≠ .ok r) := by
  refine ⟨(concatenate_ctor_rejects_iff _ _ _).2 ?_, (stack_ctor_rejects_iff _ _ _).2 ?_,
    (gen_stack_ctor_rejects_iff _ _).2 ?_⟩
  · rintro ⟨⟨s0, rest, hs, -, -, h⟩, -⟩
    simp only [List.cons.injEq] at hs
    obtain ⟨rfl, rfl⟩ := hs
    have := (h [2] (by simp)).1
    simp at this
  · rintro ⟨⟨s0, rest, hs, -, -, h⟩, -⟩
    simp only [List.cons.injEq] at hs
    obtain ⟨rfl, rfl⟩ := hs
    have := h [1] (by simp)
    simp at this
  · rintro ⟨-, -, h⟩
    have := h (some []) (by simp) (some [1]) (by simp)
    simp at this

/-- `gen_vmap_ctor_rejects_iff` from its right-hand side: conditional child (cond (2,)), broadcast parameters, axis_size 4,
condition mapped along axis −1 ⇒ accepted, shape (4,3), cond_shape (2,4) -/
theorem gen_vmap_ctor_audit_instance :
    (GenCtors.Vmap.init ⟨[3], some [2], []⟩ none (some 4) (some (-1))).bind
        (fun r => (GenCtors.Vmap.shape r.axis_size r.bijection).map (fun s => (s, r.cond_shape)))
      = .ok ([4, 3], some [2, 4]) :=
  (gen_vmap_ctor_rejects_iff _ _ _ _ _ _).2
    ⟨4, Or.inl ⟨rfl, rfl⟩, rfl, Or.inr ⟨[2], -1, 1, rfl, rfl, by decide, by decide⟩⟩

end Audit
section BnafInitGen
open BnafInitPf

/-- **`BlockAutoregressiveNetwork.__init__` (GENERATED, `Gen/BnafInitGen.lean`) raises exactly the documented `ValueError`**: for every
key, `dim`, `cond_dim`, `depth`, `block_dim`, inverter, world and every scalar type, the constructor fails iff `activation` is an
`AbstractBijection` whose declared `shape` is not `()` or whose `cond_shape` is not `None`, and the exception is then `ValueError`
(never the `ValueError` of `zip(…, strict=True)` nor the `IndexError` of `layers_and_log_jac_fns[0]`); `None`, a scalar
unconditional bijection and a callable always construct. -/
theorem gen_bnaf_init_raises_iff {K α : Type} [Add α] [Sub α] [Mul α] [Div α] [Neg α] [LT α] [LE α] [BEq α]
    [OfNat α 0] [OfNat α 1] [OfNat α 2] [OfNat α 4] [OfScientific α] [DecidableLT α] [DecidableLE α] [Transc α] [Inhabited α]
    (W : Bw.World K α) (IW : Bw.InitWorld K α) (key : K) (dim : Nat) (cond_dim : Option Nat) (depth bd : Nat)
    (activation : Option (Bw.ActArg α)) (inverter : Option (List α → Option (List α) → List α)) (e : Bw.PyErr) :
    GenBnafInit.init W IW key dim cond_dim depth bd activation inverter = .error e
      ↔ e = .valueError ∧ ∃ b, activation = some (.bijection b) ∧ (b.shape ≠ [] ∨ b.cond_shape ≠ none) :=
  gen_init_raises_iff W IW key dim cond_dim depth bd activation inverter e

/-- non-vacuity, both directions, on concrete arguments (`Int` scalars are not available to `Transc`; the world is irrelevant to the
verdict): a bijection of shape `(2,)` and a conditional scalar bijection are rejected, `None` is accepted. -/
theorem gen_bnaf_init_raises_instance {K α : Type} [Add α] [Sub α] [Mul α] [Div α] [Neg α] [LT α] [LE α] [BEq α]
    [OfNat α 0] [OfNat α 1] [OfNat α 2] [OfNat α 4] [OfScientific α] [DecidableLT α] [DecidableLE α] [Transc α] [Inhabited α]
    (W : Bw.World K α) (IW : Bw.InitWorld K α) (key : K) (m : Bw.ActBij α) :
    GenBnafInit.init W IW key 3 none 2 2 (some (.bijection ⟨[2], none, m⟩)) none = .error .valueError ∧
    GenBnafInit.init W IW key 3 (some 1) 0 2 (some (.bijection ⟨[], some [1], m⟩)) none = .error .valueError ∧
    (∃ N, GenBnafInit.init W IW key 3 none 2 2 (some (.bijection ⟨[], none, m⟩)) none = .ok N) ∧
    (∃ N, GenBnafInit.init W IW key 3 none 2 2 none none = .ok N) := by
  refine ⟨?_, ?_, ?_, ?_⟩ <;> rw [gen_init_eq] <;> simp [resolveAct, Except.map]

end BnafInitGen

section PlanarInitGen
open PlanarInitPf Gen

/-- **`_UnconditionalPlanar.__init__` (GENERATED, `Gen/PlanarInitGen.lean`) raises exactly the documented `ValueError`**: for every
weight, act_scale, bias and every scalar type the constructor fails iff `negative_slope` is given and `≤ 0`
(`ValueError("The negative slope value should be >0.")`); `None` and every positive slope construct. -/
theorem gen_uplanar_init_raises_iff {α : Type} [Add α] [Sub α] [Mul α] [Div α] [Neg α] [LT α] [LE α] [BEq α]
    [OfNat α 0] [OfNat α 1] [OfNat α 2] [OfNat α 4] [OfScientific α] [DecidableLT α] [DecidableLE α] [Transc α] [Inhabited α]
    (weight act_scale : List α) (bias : α) (negative_slope : Option α) (e : Pw.PyErr) :
    GenPlanarInit.init weight act_scale bias negative_slope = .error e ↔ e = .valueError ∧ ∃ s, negative_slope = some s ∧ s ≤ 0 :=
  gen_init_raises_iff weight act_scale bias negative_slope e

/-- **the activation choice of the generated constructor, tied to `Gen/Planar.lean`**: an object it returns stores the arguments,
`shape = weight.shape`, and `activation = "tanh"`, `activation_fn = jnp.tanh` for `negative_slope=None`, resp. `"leaky_relu"`,
`partial(nn.leaky_relu, negative_slope=s)` (with `s > 0`) — and the generated `_UnconditionalPlanar.transform` specialised to that
activation (`transform_tanh` / `transform_lrelu s`, the objects of the C01 / C02 Planar theorems) is
`x + u * self.activation_fn(self.weight @ x + self.bias)` for the stored `activation_fn`. -/
theorem gen_uplanar_init_activation (weight act_scale : List ℝ) (bias : ℝ) (negative_slope : Option ℝ) (obj : Pw.UPlanar ℝ)
    (h : GenPlanarInit.init weight act_scale bias negative_slope = .ok obj) (x : List ℝ) :
    let p : UnconditionalPlanar ℝ := ⟨obj.weight, obj._act_scale, obj.bias⟩
    obj.weight = weight ∧ obj._act_scale = act_scale ∧ obj.bias = bias ∧ obj.shape = [weight.length] ∧
    obj.negative_slope = negative_slope ∧
    (negative_slope = none → obj.activation = "tanh".toList ∧ p.transform_tanh x
          = List.zipWith (fun a b => a + b) x (p.get_act_scale.map fun a => a * obj.activation_fn (Jnp.dot p.weight x + p.bias))) ∧
    (∀ s, negative_slope = some s → ¬ s ≤ 0 ∧ obj.activation = "leaky_relu".toList ∧ p.transform_lrelu s x
          = List.zipWith (fun a b => a + b) x (p.get_act_scale.map fun a => a * obj.activation_fn (Jnp.dot p.weight x + p.bias))) :=
  gen_init_activation weight act_scale bias negative_slope obj h x

/-- non-vacuity over ℝ: slope `0` and `-1/2` raise, `None` and `1/10` construct -/
theorem gen_uplanar_init_instance :
    GenPlanarInit.init [1, 2] [3, 4] (5 : ℝ) (some 0) = .error .valueError ∧
    GenPlanarInit.init [1, 2] [3, 4] (5 : ℝ) (some (-1 / 2)) = .error .valueError ∧
    (∃ obj, GenPlanarInit.init [1, 2] [3, 4] (5 : ℝ) none = .ok obj ∧ obj.shape = [2]) ∧
    (∃ obj, GenPlanarInit.init [1, 2] [3, 4] (5 : ℝ) (some (1 / 10)) = .ok obj ∧ obj.activation = "leaky_relu".toList) := by
  refine ⟨?_, ?_, ?_, ?_⟩ <;> rw [gen_init_eq] <;> simp [spec] <;> norm_num

end PlanarInitGen

end C13
