import Flowjaxv.Proofs.AdKernels
import Flowjaxv.Proofs.AdRqs
/-!
# C18 — finite log-probabilities have finite gradients; log_prob is never NaN

Number domain `EF` (reals + `+∞, −∞, NaN`, IEEE special-value rules, exact finite arithmetic).  The
expressions are the deep ASTs GENERATED from /repo (`Gen/LeavesAst.lean`); `Expr.eval` is the forward
pass and `Expr.vjp` the reverse pass with JAX's cotangent rules (`Model/Ad.lean`), the same interpreter
the driver runs at IEEE `Float` against `jax.grad`.

`GradFinite env e` : the value is finite and, for every finite incoming cotangent, EVERY adjoint the
reverse pass produces — w.r.t. the input, every scalar parameter and every element of every vector
parameter — is finite.
-/
noncomputable section
open Ad EF AdT GenAst AdK

namespace C18

def GradFinite (env : Env EF) (e : Expr EF) : Prop :=
  isFin (e.eval env) ∧ ∀ ct, isFin ct → AllFin (e.vjp env ct)

/-- a safe expression has a finite value and only finite adjoints -/
theorem safe_gradFinite {env : Env EF} {e : Expr EF} (h : Safe env e) : GradFinite env e :=
  ⟨safe_eval_fin e env h, fun ct hct => safe_vjp_fin e env h ct hct⟩

/-- the public `log_prob`'s last line maps NaN to −∞: whatever the private value, the result is not NaN -/
theorem logprob_never_nan (x : EF) : ¬ EF.isNaN (nanToNegInf x) := nanToNegInf_not_nan x

/-- finiteness composes: feeding a safe layer's output into a layer that is safe at that value is safe
(so flows inherit finite gradients from their layers, any depth, by iterating this) -/
theorem chain_grad_finite {env : Env EF} {i : Nat} {layer next : Expr EF}
    (h1 : Safe env layer) (h2 : Safe (env.set i (layer.eval env)) next) :
    GradFinite env (Expr.letE i layer next) := safe_gradFinite ⟨h1, h2⟩

/-- `log_prob = base log-density at z + log-det`: the sum of two safe expressions is safe -/
theorem transformed_grad_finite {env : Env EF} {baseLp ld : Expr EF} (h1 : Safe env baseLp) (h2 : Safe env ld) :
    GradFinite env (Expr.add baseLp ld) := safe_gradFinite ⟨h1, h2⟩

/-- the "double-where" discipline: a branch whose argument was replaced by a safe constant under the
same mask is safe even where it is not selected -/
theorem where_guard_sound {env : Env EF} (c : Env EF → Bool) (p : Prim) (safeConst : ℝ) (a other : Expr EF)
    (ha : Safe env a) (ho : Safe env other) (hc : PrimSafe p safeConst)
    (hsel : c env = false → ∀ r, a.eval env = fin r → PrimSafe p r) :
    Safe env (Expr.sel c other (Expr.prim p (Expr.sel c (Expr.const (fin safeConst)) a))) := by
  refine ⟨ho, ⟨trivial, ha⟩, ?_⟩
  intro r hr
  simp only [Expr.eval] at hr
  by_cases h : c env
  · simp only [h, if_true] at hr; cases hr; exact hc
  · have h' : c env = false := by simpa using h
    simp only [h', Bool.false_eq_true, if_false] at hr
    exact hsel h' r hr

/-! ### per kernel, every real input -/
theorem affine_grad_finite (loc scale x : ℝ) (h : scale ≠ 0) :
    GradFinite (envOf x [loc, scale] []) (Affine.transform_and_log_det.ast X).1 ∧
    GradFinite (envOf x [loc, scale] []) (Affine.transform_and_log_det.ast X).2 ∧
    GradFinite (envOf x [loc, scale] []) (Affine.inverse_and_log_det.ast X).1 ∧
    GradFinite (envOf x [loc, scale] []) (Affine.inverse_and_log_det.ast X).2 :=
  ⟨safe_gradFinite (affine_tld_safe loc scale x h).1, safe_gradFinite (affine_tld_safe loc scale x h).2,
   safe_gradFinite (affine_ild_safe loc scale x h).1, safe_gradFinite (affine_ild_safe loc scale x h).2⟩

theorem exp_grad_finite (x : ℝ) :
    GradFinite (envOf x [] []) (Exp.transform_and_log_det.ast X).1 ∧
    GradFinite (envOf x [] []) (Exp.transform_and_log_det.ast X).2 :=
  ⟨safe_gradFinite (exp_tld_safe x).1, safe_gradFinite (exp_tld_safe x).2⟩

theorem exp_inverse_grad_finite (y : ℝ) (h : 0 < y) :
    GradFinite (envOf y [] []) (Exp.inverse_and_log_det.ast X).1 ∧
    GradFinite (envOf y [] []) (Exp.inverse_and_log_det.ast X).2 :=
  ⟨safe_gradFinite (exp_ild_safe y h).1, safe_gradFinite (exp_ild_safe y h).2⟩

theorem softplus_grad_finite (x : ℝ) :
    GradFinite (envOf x [] []) (SoftPlus.transform_and_log_det.ast X).1 ∧
    GradFinite (envOf x [] []) (SoftPlus.transform_and_log_det.ast X).2 :=
  ⟨safe_gradFinite (softplus_tld_safe x).1, safe_gradFinite (softplus_tld_safe x).2⟩

theorem softplus_inverse_grad_finite (y : ℝ) (h : 0 < y) :
    GradFinite (envOf y [] []) (SoftPlus.inverse.ast X) := safe_gradFinite (softplus_inverse_safe y h)

theorem tanh_grad_finite (x : ℝ) :
    GradFinite (envOf x [] []) (Tanh.transform_and_log_det.ast X).1 ∧
    GradFinite (envOf x [] []) (Tanh.transform_and_log_det.ast X).2 :=
  ⟨safe_gradFinite (tanh_tld_safe x).1, safe_gradFinite (tanh_tld_safe x).2⟩

theorem tanh_inverse_grad_finite (y : ℝ) (h : |y| < 1) :
    GradFinite (envOf y [] []) (Tanh.inverse.ast X) := safe_gradFinite (tanh_inverse_safe y h)

/-- LeakyTanh, forward direction: every real input, `±max_val` included -/
theorem leakytanh_grad_finite (m c g x : ℝ) (hg : 0 < g) :
    GradFinite (envOf x [m, c, g] []) (LeakyTanh.transform_and_log_det.ast X).1 ∧
    GradFinite (envOf x [m, c, g] []) (LeakyTanh.transform_and_log_det.ast X).2 :=
  ⟨safe_gradFinite (leaky_tld_safe m c g x hg).1, safe_gradFinite (leaky_tld_safe m c g x hg).2⟩

/-- LeakyTanh, inverse direction: every real input — `|y| = tanh(max_val)`, `|y| = 1` (where the pinned tree
produced NaN, defect D5) and beyond included -/
theorem leakytanh_inverse_grad_finite (m c g y : ℝ) (hg : 0 < g) :
    GradFinite (envOf y [m, c, g] []) (LeakyTanh.inverse_and_log_det.ast X).1 ∧
    GradFinite (envOf y [m, c, g] []) (LeakyTanh.inverse_and_log_det.ast X).2 :=
  ⟨safe_gradFinite (leaky_ild_safe m c g y hg).1, safe_gradFinite (leaky_ild_safe m c g y hg).2⟩

/-- Spline, both directions, value and log-det: every real input — interval ends (D1), knots, outside the
interval (D6) — and every well-formed parameter vector; adjoints w.r.t. the input, both interval ends and
every knot position, knot height and knot derivative. -/
theorem rqs_grad_finite {p : Gen.RationalQuadraticSpline ℝ} (h : Rqs.RqsWF p) (x : ℝ) :
    GradFinite (AdRqs.envP p x) (RationalQuadraticSpline.transform_and_log_det.ast X).1 ∧
    GradFinite (AdRqs.envP p x) (RationalQuadraticSpline.transform_and_log_det.ast X).2 ∧
    GradFinite (AdRqs.envP p x) (RationalQuadraticSpline.inverse_and_log_det.ast X).1 ∧
    GradFinite (AdRqs.envP p x) (RationalQuadraticSpline.inverse_and_log_det.ast X).2 :=
  ⟨safe_gradFinite (AdRqs.rqs_tld_safe h x).1, safe_gradFinite (AdRqs.rqs_tld_safe h x).2,
   safe_gradFinite (AdRqs.rqs_ild_safe h x).1, safe_gradFinite (AdRqs.rqs_ild_safe h x).2⟩

/-- non-vacuity: the D1 witness spline (boundary derivative 2) at its lower interval end -/
theorem rqs_instance :
    GradFinite (AdRqs.envP Rqs.exampleSpline (-2)) (RationalQuadraticSpline.inverse_and_log_det.ast X).2 :=
  (rqs_grad_finite Rqs.rqsWF_instance (-2)).2.2.2

/-- non-vacuity: LeakyTanh(3) inverse at y = 1 exactly -/
theorem leakytanh_instance :
    GradFinite (envOf 1 [3, 0.5, 0.01] []) (LeakyTanh.inverse_and_log_det.ast X).2 :=
  (leakytanh_inverse_grad_finite 3 0.5 0.01 1 (by norm_num)).2

end C18
end
