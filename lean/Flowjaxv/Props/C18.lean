import Flowjaxv.Proofs.AdKernels
import Flowjaxv.Proofs.AdRqs
import Flowjaxv.Proofs.AdDist
import Flowjaxv.Proofs.AdPlanar
import Flowjaxv.Proofs.AdMix
import Flowjaxv.Proofs.AdNet
import Flowjaxv.Proofs.AdSpline
import Flowjaxv.Proofs.AdMvn
/-!
# C18 — finite log-probabilities have finite gradients; log_prob is never NaN

Number domain `EF` (reals + `+∞, −∞, NaN`, IEEE special-value rules, exact finite arithmetic).  The
expressions are the deep ASTs GENERATED from /repo (`Gen/LeavesAst.lean`); `Expr.eval` is the forward
pass and `Expr.vjp` the reverse pass with JAX's cotangent rules (`Model/Ad.lean`), the same interpreter
the driver runs at IEEE `Float` against `jax.grad`.

`GradFinite env e` : the value is finite and, for every finite incoming cotangent, EVERY adjoint the
reverse pass produces — w.r.t. the input, every scalar parameter and every element of every vector
parameter — is finite.
-/
noncomputable section
open Ad EF AdT GenAst AdK

namespace C18

abbrev GradFinite (env : Env EF) (e : Expr EF) : Prop := AdT.GradFin env e

/-- a safe expression has a finite value and only finite adjoints -/
theorem safe_gradFinite {env : Env EF} {e : Expr EF} (h : Safe env e) : GradFinite env e :=
  ⟨safe_eval_fin e env h, fun ct hct => safe_vjp_fin e env h ct hct⟩

/-- the public `log_prob`'s last line maps NaN to −∞: whatever the private value, the result is not NaN -/
theorem logprob_never_nan (x : EF) : ¬ EF.isNaN (nanToNegInf x) := nanToNegInf_not_nan x

/-- finiteness composes: feeding a safe layer's output into a layer that is safe at that value is safe
(so flows inherit finite gradients from their layers, any depth, by iterating this) -/
theorem chain_grad_finite {env : Env EF} {i : Nat} {layer next : Expr EF}
    (h1 : Safe env layer) (h2 : Safe (env.set i (layer.eval env)) next) :
    GradFinite env (Expr.letE i layer next) := safe_gradFinite ⟨h1, h2⟩

/-- `log_prob = base log-density at z + log-det`: the sum of two safe expressions is safe -/
theorem transformed_grad_finite {env : Env EF} {baseLp ld : Expr EF} (h1 : Safe env baseLp) (h2 : Safe env ld) :
    GradFinite env (Expr.add baseLp ld) := safe_gradFinite ⟨h1, h2⟩

/-- the "double-where" discipline: a branch whose argument was replaced by a safe constant under the
same mask is safe even where it is not selected -/
theorem where_guard_sound {env : Env EF} (c : Env EF → Bool) (p : Prim) (safeConst : ℝ) (a other : Expr EF)
    (ha : Safe env a) (ho : Safe env other) (hc : PrimSafe p safeConst)
    (hsel : c env = false → ∀ r, a.eval env = fin r → PrimSafe p r) :
    Safe env (Expr.sel c other (Expr.prim p (Expr.sel c (Expr.const (fin safeConst)) a))) := by
  refine ⟨ho, ⟨trivial, ha⟩, ?_⟩
  intro r hr
  simp only [Expr.eval] at hr
  by_cases h : c env
  · simp only [h, if_true] at hr; cases hr; exact hc
  · have h' : c env = false := by simpa using h
    simp only [h', Bool.false_eq_true, if_false] at hr
    exact hsel h' r hr

/-! ### per kernel, every real input -/
theorem affine_grad_finite (loc scale x : ℝ) (h : scale ≠ 0) :
    GradFinite (envOf x [loc, scale] []) (Affine.transform_and_log_det.ast X).1 ∧
    GradFinite (envOf x [loc, scale] []) (Affine.transform_and_log_det.ast X).2 ∧
    GradFinite (envOf x [loc, scale] []) (Affine.inverse_and_log_det.ast X).1 ∧
    GradFinite (envOf x [loc, scale] []) (Affine.inverse_and_log_det.ast X).2 :=
  ⟨safe_gradFinite (affine_tld_safe loc scale x h).1, safe_gradFinite (affine_tld_safe loc scale x h).2,
   safe_gradFinite (affine_ild_safe loc scale x h).1, safe_gradFinite (affine_ild_safe loc scale x h).2⟩

theorem exp_grad_finite (x : ℝ) :
    GradFinite (envOf x [] []) (Exp.transform_and_log_det.ast X).1 ∧
    GradFinite (envOf x [] []) (Exp.transform_and_log_det.ast X).2 :=
  ⟨safe_gradFinite (exp_tld_safe x).1, safe_gradFinite (exp_tld_safe x).2⟩

theorem exp_inverse_grad_finite (y : ℝ) (h : 0 < y) :
    GradFinite (envOf y [] []) (Exp.inverse_and_log_det.ast X).1 ∧
    GradFinite (envOf y [] []) (Exp.inverse_and_log_det.ast X).2 :=
  ⟨safe_gradFinite (exp_ild_safe y h).1, safe_gradFinite (exp_ild_safe y h).2⟩

theorem softplus_grad_finite (x : ℝ) :
    GradFinite (envOf x [] []) (SoftPlus.transform_and_log_det.ast X).1 ∧
    GradFinite (envOf x [] []) (SoftPlus.transform_and_log_det.ast X).2 :=
  ⟨safe_gradFinite (softplus_tld_safe x).1, safe_gradFinite (softplus_tld_safe x).2⟩

theorem softplus_inverse_grad_finite (y : ℝ) (h : 0 < y) :
    GradFinite (envOf y [] []) (SoftPlus.inverse.ast X) := safe_gradFinite (softplus_inverse_safe y h)

theorem tanh_grad_finite (x : ℝ) :
    GradFinite (envOf x [] []) (Tanh.transform_and_log_det.ast X).1 ∧
    GradFinite (envOf x [] []) (Tanh.transform_and_log_det.ast X).2 :=
  ⟨safe_gradFinite (tanh_tld_safe x).1, safe_gradFinite (tanh_tld_safe x).2⟩

theorem tanh_inverse_grad_finite (y : ℝ) (h : |y| < 1) :
    GradFinite (envOf y [] []) (Tanh.inverse.ast X) := safe_gradFinite (tanh_inverse_safe y h)

/-- LeakyTanh, forward direction: every real input, `±max_val` included -/
theorem leakytanh_grad_finite (m c g x : ℝ) (hg : 0 < g) :
    GradFinite (envOf x [m, c, g] []) (LeakyTanh.transform_and_log_det.ast X).1 ∧
    GradFinite (envOf x [m, c, g] []) (LeakyTanh.transform_and_log_det.ast X).2 :=
  ⟨safe_gradFinite (leaky_tld_safe m c g x hg).1, safe_gradFinite (leaky_tld_safe m c g x hg).2⟩

/-- LeakyTanh, inverse direction: every real input — `|y| = tanh(max_val)`, `|y| = 1` (where the pinned tree
produced NaN, defect D5) and beyond included -/
theorem leakytanh_inverse_grad_finite (m c g y : ℝ) (hg : 0 < g) :
    GradFinite (envOf y [m, c, g] []) (LeakyTanh.inverse_and_log_det.ast X).1 ∧
    GradFinite (envOf y [m, c, g] []) (LeakyTanh.inverse_and_log_det.ast X).2 :=
  ⟨safe_gradFinite (leaky_ild_safe m c g y hg).1, safe_gradFinite (leaky_ild_safe m c g y hg).2⟩

/-- Spline, both directions, value and log-det: every real input — interval ends (D1), knots, outside the
interval (D6) — and every well-formed parameter vector; adjoints w.r.t. the input, both interval ends and
every knot position, knot height and knot derivative. -/
theorem rqs_grad_finite {p : Gen.RationalQuadraticSpline ℝ} (h : Rqs.RqsWF p) (x : ℝ) :
    GradFinite (AdRqs.envP p x) (RationalQuadraticSpline.transform_and_log_det.ast X).1 ∧
    GradFinite (AdRqs.envP p x) (RationalQuadraticSpline.transform_and_log_det.ast X).2 ∧
    GradFinite (AdRqs.envP p x) (RationalQuadraticSpline.inverse_and_log_det.ast X).1 ∧
    GradFinite (AdRqs.envP p x) (RationalQuadraticSpline.inverse_and_log_det.ast X).2 :=
  ⟨safe_gradFinite (AdRqs.rqs_tld_safe h x).1, safe_gradFinite (AdRqs.rqs_tld_safe h x).2,
   safe_gradFinite (AdRqs.rqs_ild_safe h x).1, safe_gradFinite (AdRqs.rqs_ild_safe h x).2⟩

/-- non-vacuity: the D1 witness spline (boundary derivative 2) at its lower interval end -/
theorem rqs_instance :
    GradFinite (AdRqs.envP Rqs.exampleSpline (-2)) (RationalQuadraticSpline.inverse_and_log_det.ast X).2 :=
  (rqs_grad_finite Rqs.rqsWF_instance (-2)).2.2.2

/-- non-vacuity: LeakyTanh(3) inverse at y = 1 exactly -/
theorem leakytanh_instance :
    GradFinite (envOf 1 [3, 0.5, 0.01] []) (LeakyTanh.inverse_and_log_det.ast X).2 :=
  (leakytanh_inverse_grad_finite 3 0.5 0.01 1 (by norm_num)).2

/-! ### distribution families: generated log-density ASTs (`Gen/DistAst.lean`: the `jax.scipy.stats.*.logpdf` bodies read from
the installed JAX and the flowjax `_log_prob` methods), wired as the constructors wire them (`Model/AdFamilies.lean`).
Environment `envF x loc raw rawdf`: the input and the TRAINABLE leaves — `loc`, the raw scale (`scale = softplus raw`), the raw
degrees of freedom (`df = softplus rawdf`) — so "valid parameters" is every real leaf value. -/
open AdD AdFam

/-- the public `log_prob` of EVERY distribution and flow is never NaN: whatever the private value (finite, `±∞`, NaN) in
whatever environment, the generated last line `where(isnan(lps), -inf, lps)` does not evaluate to NaN -/
theorem public_logprob_never_nan (env : Env EF) (lps : Expr EF) : ¬ EF.isNaN ((pub lps).eval env) :=
  pub_never_nan env lps

/-- the public post-processing keeps a gradient-finite private log-density gradient-finite (its `-inf` branch is a constant,
which receives no cotangent) and does not change its value -/
theorem public_logprob_grad_finite {env : Env EF} {lps : Expr EF} (h : GradFinite env lps) :
    GradFinite env (pub lps) ∧ (pub lps).eval env = lps.eval env := by
  obtain ⟨r, hr⟩ := isFin_iff.mp h.1
  exact ⟨pub_gradFin h, by rw [hr]; exact pub_eval_of_fin hr⟩

/-- independent dimensions: `.sum()` of per-element gradient-finite terms is gradient-finite (any number of dimensions) -/
theorem sum_grad_finite {env : Env EF} {es : List (Expr EF)} (h : ∀ e ∈ es, GradFinite env e) :
    GradFinite env (AdT.sumExpr es) := gradFin_sumExpr h

/-- `AbstractTransformed._log_prob` (generated): finite gradients from those of the inverse point, its log-det and the base
log-density at that point -/
theorem transformed_logprob_grad_finite {env : Env EF} {ild : Expr EF → Expr EF × Expr EF} {base : Expr EF → Expr EF} {x : Expr EF}
    (h1 : GradFinite env (ild x).1)
    (h2 : GradFinite (env.set 116001 ((ild x).1.eval env)) (ild x).2)
    (h3 : GradFinite ((env.set 116001 ((ild x).1.eval env)).set 116002 ((ild x).2.eval (env.set 116001 ((ild x).1.eval env))))
      (base (Expr.var 116001))) :
    GradFinite env (AbstractTransformed.log_prob.ast ild base x) := transformed_gradFin h1 h2 h3

/-- the standard bases on their own (what a flow's `base_dist` evaluates): every real input -/
theorem standard_bases_grad_finite (x df : ℝ) :
    GradFinite (envOf x [df] []) (StandardNormal.log_prob.ast X) ∧
    GradFinite (envOf x [df] []) (StandardGumbel.log_prob.ast X) ∧
    GradFinite (envOf x [df] []) (StandardCauchy.log_prob.ast X) ∧
    GradFinite (envOf x [df] []) (StandardLaplace.log_prob.ast X) ∧
    GradFinite (envOf x [df] []) (StandardLogistic.log_prob.ast X) ∧
    GradFinite (envOf x [df] []) (StandardStudentT.log_prob.ast (unwrapSoftplus (Expr.var 1)) X) :=
  ⟨gradFin_of_safe (jnorm_safe (i := 0) (Or.inl (by norm_num)) rfl),
   gradFin_of_safe (gumbel_safe (i := 0) rfl),
   gradFin_of_safe (jcauchy_safe (i := 0) (Or.inl (by norm_num)) rfl),
   gradFin_of_safe (jlaplace_safe (i := 0) (Or.inl (by norm_num)) rfl),
   gradFin_of_safe (jlogistic_safe (i := 0) (Or.inl (by norm_num)) rfl),
   gradFin_of_safe (jt_safe (i := 0) (k := 1) (Or.inl (by norm_num)) (Or.inl (by norm_num)) rfl rfl)⟩

/-- `_StandardUniform`, `_StandardExponential`: finite gradients on the closed support, exactly `−∞` outside -/
theorem bounded_bases_grad_finite (x : ℝ) :
    (0 ≤ x → x ≤ 1 → GradFinite (envOf x [] []) (StandardUniform.log_prob.ast X)) ∧
    (x < 0 ∨ 1 < x → (StandardUniform.log_prob.ast X).eval (envOf x [] []) = ninf) ∧
    (0 ≤ x → GradFinite (envOf x [] []) (StandardExponential.log_prob.ast X)) ∧
    (x < 0 → (StandardExponential.log_prob.ast X).eval (envOf x [] []) = ninf) :=
  ⟨fun h0 h1 => juniform_gradFin (i := 0) (Or.inl (by norm_num)) rfl h0 h1,
   fun ho => juniform_outside (i := 0) (Or.inl (by norm_num)) rfl ho,
   fun h0 => jexpon_gradFin (i := 0) (Or.inl (by norm_num)) rfl h0,
   fun ho => jexpon_outside (i := 0) (Or.inl (by norm_num)) rfl ho⟩

/-- Normal, Gumbel, Cauchy, Laplace (incl. `x = loc`), Logistic, StudentT: PUBLIC `log_prob`, every real input and every real
value of every trainable leaf -/
theorem locscale_families_grad_finite (x loc raw rawdf : ℝ) :
    GradFinite (envF x loc raw rawdf) (pub (normal X)) ∧ GradFinite (envF x loc raw rawdf) (pub (gumbel X)) ∧
    GradFinite (envF x loc raw rawdf) (pub (cauchy X)) ∧ GradFinite (envF x loc raw rawdf) (pub (laplace X)) ∧
    GradFinite (envF x loc raw rawdf) (pub (logistic X)) ∧ GradFinite (envF x loc raw rawdf) (pub (studentT X)) :=
  have h := envF_fam x loc raw rawdf
  ⟨pub_gradFin (normal_gradFin h), pub_gradFin (gumbel_gradFin h), pub_gradFin (cauchy_gradFin h),
   pub_gradFin (laplace_gradFin h), pub_gradFin (logistic_gradFin h), pub_gradFin (studentT_gradFin h)⟩

/-- Uniform(minval = loc, maxval = loc + softplus raw): finite gradients on the closed support (both ends); private and public
value exactly `−∞` outside -/
theorem uniform_grad_finite (x loc raw rawdf : ℝ) :
    (loc ≤ x → x ≤ loc + sp raw → GradFinite (envF x loc raw rawdf) (pub (uniform X))) ∧
    (x < loc ∨ loc + sp raw < x → (uniform X).eval (envF x loc raw rawdf) = ninf ∧ (pub (uniform X)).eval (envF x loc raw rawdf) = ninf) :=
  have h := envF_fam x loc raw rawdf
  ⟨fun h0 h1 => pub_gradFin (uniform_gradFin h h0 h1),
   fun ho => ⟨uniform_outside h ho, pub_eval_of_ninf (uniform_outside h ho)⟩⟩

/-- Exponential(rate), scale leaf `softplus raw = 1/rate`: finite gradients for `x ≥ 0` (`x = 0` included); `−∞` for `x < 0` -/
theorem exponential_grad_finite (x loc raw rawdf : ℝ) :
    (0 ≤ x → GradFinite (envF x loc raw rawdf) (pub (exponential X))) ∧
    (x < 0 → (exponential X).eval (envF x loc raw rawdf) = ninf ∧ (pub (exponential X)).eval (envF x loc raw rawdf) = ninf) :=
  have h := envF_fam x loc raw rawdf
  ⟨fun h0 => pub_gradFin (exponential_gradFin h h0),
   fun ho => ⟨exponential_outside h ho, pub_eval_of_ninf (exponential_outside h ho)⟩⟩

/-- LogNormal (`Chain([Affine, Exp])` over a standard normal): finite gradients for every `x > 0`; for `x ≤ 0` the public value
is not NaN by `public_logprob_never_nan` -/
theorem lognormal_grad_finite (x loc raw rawdf : ℝ) (hx : 0 < x) :
    GradFinite (envF x loc raw rawdf) (pub (logNormal X)) :=
  pub_gradFin (logNormal_gradFin (envF_fam x loc raw rawdf) hx)

/-- non-vacuity: Laplace at `x = loc` exactly and Uniform at its upper end `x = loc + scale` exactly -/
theorem families_instance :
    GradFinite (envF 1.5 1.5 (-2) 0) (pub (laplace X)) ∧ GradFinite (envF (2 + sp 3) 2 3 0) (pub (uniform X)) :=
  ⟨(locscale_families_grad_finite 1.5 1.5 (-2) 0).2.2.2.1,
   (uniform_grad_finite (2 + sp 3) 2 3 0).1 (by linarith [sp_pos 3]) le_rfl⟩

/-! ### Planar (`_UnconditionalPlanar`, generated vector AST `Gen/VecAst.lean`), every dimension `d` -/
open AdP AdV in
/-- tanh activation: every element of the transformed point and the log-det have finite values and finite adjoints w.r.t. every
element of the weight, of the raw act-scale, of the input, and the bias — for EVERY real weight `w ≠ 0`, `u`, `b`, `x` -/
theorem planar_tanh_grad_finite {d : Nat} (w u x : List ℝ) (b s : ℝ) (hw : w.length = d) (hu : u.length = d) (hx : x.length = d)
    (hw0 : ∃ a ∈ w, a ≠ 0) :
    (∀ e ∈ (UnconditionalPlanar.transform_and_log_det_tanh.ast d (Vec.ofVec 2 d)).1, GradFinite (envPl w u x b s) e) ∧
    GradFinite (envPl w u x b s) (UnconditionalPlanar.transform_and_log_det_tanh.ast d (Vec.ofVec 2 d)).2 :=
  have h := tldT_safe (envPl_pl (b := b) (s := s) hw hu hx) (dot_ne_zero_of_exists hw0)
  ⟨fun e he => gradFin_of_safe (h.1 e he), gradFin_of_safe h.2⟩

open AdP AdV in
/-- leaky-relu activation, forward and inverse: the same for every slope `0 < negative_slope ≤ 1` -/
theorem planar_leaky_grad_finite {d : Nat} (w u x : List ℝ) (b s : ℝ) (hw : w.length = d) (hu : u.length = d) (hx : x.length = d)
    (hw0 : ∃ a ∈ w, a ≠ 0) (hs0 : 0 < s) (hs1 : s ≤ 1) :
    (∀ e ∈ (UnconditionalPlanar.transform_and_log_det_lrelu.ast d (Vec.ofVec 2 d)).1, GradFinite (envPl w u x b s) e) ∧
    GradFinite (envPl w u x b s) (UnconditionalPlanar.transform_and_log_det_lrelu.ast d (Vec.ofVec 2 d)).2 ∧
    (∀ e ∈ (UnconditionalPlanar.inverse_and_log_det_lrelu.ast d (Vec.ofVec 2 d)).1, GradFinite (envPl w u x b s) e) ∧
    GradFinite (envPl w u x b s) (UnconditionalPlanar.inverse_and_log_det_lrelu.ast d (Vec.ofVec 2 d)).2 :=
  have hp := envPl_pl (b := b) (s := s) hw hu hx
  have h0 := dot_ne_zero_of_exists hw0
  have h := tldL_safe hp h0 hs0 hs1
  have h' := ildL_safe hp h0 hs0 hs1
  ⟨fun e he => gradFin_of_safe (h.1 e he), gradFin_of_safe h.2, fun e he => gradFin_of_safe (h'.1 e he), gradFin_of_safe h'.2⟩

/-- non-vacuity: dimension 2, pre-activation exactly `0` (`w·x + b = 0`, the leaky-relu kink) -/
theorem planar_instance :
    GradFinite (AdP.envPl [1, -2] [0.5, 3] [2, 1.5] 1 0.1)
      (UnconditionalPlanar.transform_and_log_det_lrelu.ast 2 (Vec.ofVec 2 2)).2 :=
  (planar_leaky_grad_finite (d := 2) [1, -2] [0.5, 3] [2, 1.5] 1 0.1 rfl rfl rfl ⟨1, by simp, by norm_num⟩
    (by norm_num) (by norm_num)).2.1

/-! ### mixtures: `logsumexp`, `log_softmax` (transcribed from JAX, maxima under `stop_gradient`) and the generated
`VmapMixture._log_prob` / stored-weights lambda, any number of components `k ≥ 1` -/
open AdV AdM in
/-- `logsumexp` and `log_softmax` of a non-empty array of safe expressions with finite values are safe -/
theorem logsumexp_grad_finite {env : Env EF} {a : List (Expr EF)} {rs : List ℝ} (hs : SafeVec env a) (he : EvalsTo env a rs) (hne : rs ≠ []) :
    GradFinite env (Vec.logsumexp a) ∧ ∀ e ∈ Vec.logSoftmax a, GradFinite env e :=
  ⟨gradFin_of_safe (logsumexp_safe hs he hne).1, fun e h => gradFin_of_safe ((logSoftmax_safe hs he hne).1 e h)⟩

open AdV AdM in
/-- mixture `_log_prob` over ARBITRARY component log-density expressions (so: mixtures of any distributions/flows whose
log-densities are safe and finite at the point) and arbitrary weight expressions: finite value, finite adjoints w.r.t. everything
the components and the weights depend on -/
theorem mixture_grad_finite {env : Env EF} {ws lps : List (Expr EF)} {wr lr : List ℝ}
    (hws : SafeVec env ws) (hwe : EvalsTo env ws wr) (hls : SafeVec env lps) (hle : EvalsTo env lps lr)
    (hlen : wr.length = lr.length) (hne : lr ≠ []) :
    GradFinite env (VmapMixture.log_prob.ast (VmapMixture.log_normalized_weights.ast ws) lps) :=
  gradFin_of_safe (mixture_safe hws hwe hls hle hlen hne).1

open AdM in
/-- for every real raw log-weight vector and every finite component log-density vector of the same length `k ≥ 1` -/
theorem mixture_params_grad_finite (wr lr : List ℝ) (hlen : wr.length = lr.length) (hne : lr ≠ []) :
    GradFinite (envMix wr lr)
      (VmapMixture.log_prob.ast (VmapMixture.log_normalized_weights.ast (Vec.ofVec 0 wr.length)) (Vec.ofVec 1 wr.length)) :=
  gradFin_of_safe (mixture_params_safe wr lr hlen hne)

/-- non-vacuity: two components with tied maxima (the `max` reductions sit under `stop_gradient`, no tie hazard) -/
theorem mixture_instance :
    GradFinite (AdM.envMix [5, 5] [-1, -1])
      (VmapMixture.log_prob.ast (VmapMixture.log_normalized_weights.ast (Vec.ofVec 0 2)) (Vec.ofVec 1 2)) :=
  mixture_params_grad_finite [5, 5] [-1, -1] rfl (by simp)

/-! ### conditioner networks, coupling and masked-autoregressive layers (`Model/AdNet.lean`: hand model of `eqx.nn.MLP`,
`Coupling`, `MaskedAutoregressive.transform_and_log_det` over the generated `Affine`/`SoftPlus`/`Loc` kernels) -/
open AdN Ad.Net in
/-- an MLP of any depth and widths with relu or tanh activations: for EVERY real value of every weight and bias (weights, biases
and inputs are any expressions that are safe whatever the scalar variables hold, e.g. vector parameters; masked weights
`where(mask, w, 0)` included) every output has a finite value and finite adjoints — relu at a pre-activation of exactly 0 included
(`jax.nn.relu`'s rule gives 0 there) -/
theorem mlp_grad_finite {env : Env EF} {act : Prim} (hact : act = Prim.relu ∨ act = Prim.tanh)
    {hidden : List (Rows EF)} {last : Rows EF} {x : List (Expr EF)}
    (hh : ∀ L ∈ hidden, ∀ r ∈ L, VSafeVec env r.1 ∧ VSafe env r.2)
    (hl : ∀ r ∈ last, VSafeVec env r.1 ∧ VSafe env r.2) (hx : VSafeVec env x) :
    ∀ e ∈ mlp act hidden last x, GradFinite env e := by
  have hp : ∀ r, PrimSafe act r := by rcases hact with rfl | rfl <;> intro r <;> trivial
  exact fun e he => gradFin_of_safe ((mlp_vsafe hp hh hl hx e he).safe)

open AdN Ad.Net in
/-- a coupling layer with the default transformer (`_affine_with_min_scale`, any `min_scale ≥ 0`), forward and inverse: every
element of the point and the log-det have finite values and finite adjoints w.r.t. the input and every conditioner weight,
for every conditioner `net` that maps safe inputs to safe outputs (every MLP above) -/
theorem coupling_grad_finite {env : Env EF} {ms il ir : ℝ} (hms : 0 ≤ ms)
    {net : List (Expr EF) → List (Expr EF)} (hnet : ∀ xs, VSafeVec env xs → VSafeVec env (net xs))
    (u : Nat) {x : List (Expr EF)} (hx : VSafeVec env x) :
    (∀ e ∈ (coupling u net (affineTld (Expr.const (fin ms)) · · (Expr.const (fin il)) (Expr.const (fin ir)) ·) x).1, GradFinite env e) ∧
    GradFinite env (coupling u net (affineTld (Expr.const (fin ms)) · · (Expr.const (fin il)) (Expr.const (fin ir)) ·) x).2 ∧
    (∀ e ∈ (coupling u net (affineIld (Expr.const (fin ms)) · · (Expr.const (fin il)) (Expr.const (fin ir)) ·) x).1, GradFinite env e) ∧
    GradFinite env (coupling u net (affineIld (Expr.const (fin ms)) · · (Expr.const (fin il)) (Expr.const (fin ir)) ·) x).2 := by
  have ht := coupling_vsafe (env := env) (tf := (affineTld (Expr.const (fin ms)) · · (Expr.const (fin il)) (Expr.const (fin ir)) ·))
    (fun pl pr x h1 h2 h3 => ⟨(affine_vsafe hms h1 h2 h3).1, (affine_vsafe hms h1 h2 h3).2.1⟩) hnet u hx
  have hi := coupling_vsafe (env := env) (tf := (affineIld (Expr.const (fin ms)) · · (Expr.const (fin il)) (Expr.const (fin ir)) ·))
    (fun pl pr x h1 h2 h3 => ⟨(affine_vsafe hms h1 h2 h3).2.2.1, (affine_vsafe hms h1 h2 h3).2.2.2⟩) hnet u hx
  exact ⟨fun e he => gradFin_of_safe (ht.1 e he).safe, gradFin_of_safe ht.2.safe,
         fun e he => gradFin_of_safe (hi.1 e he).safe, gradFin_of_safe hi.2.safe⟩

open AdN Ad.Net in
/-- a masked autoregressive layer, `transform_and_log_det` (the direction `log_prob` of the default `invert=True` flow and
`inverse_and_log_det`'s log-det use), same transformer -/
theorem maf_grad_finite {env : Env EF} {ms il ir : ℝ} (hms : 0 ≤ ms)
    {net : List (Expr EF) → List (Expr EF)} (hnet : ∀ xs, VSafeVec env xs → VSafeVec env (net xs))
    {x : List (Expr EF)} (hx : VSafeVec env x) :
    (∀ e ∈ (autoreg net (affineTld (Expr.const (fin ms)) · · (Expr.const (fin il)) (Expr.const (fin ir)) ·) x).1, GradFinite env e) ∧
    GradFinite env (autoreg net (affineTld (Expr.const (fin ms)) · · (Expr.const (fin il)) (Expr.const (fin ir)) ·) x).2 := by
  have ht := autoreg_vsafe (env := env) (tf := (affineTld (Expr.const (fin ms)) · · (Expr.const (fin il)) (Expr.const (fin ir)) ·))
    (fun pl pr x h1 h2 h3 => ⟨(affine_vsafe hms h1 h2 h3).1, (affine_vsafe hms h1 h2 h3).2.1⟩) hnet hx
  exact ⟨fun e he => gradFin_of_safe (ht.1 e he).safe, gradFin_of_safe ht.2.safe⟩

open AdN Ad.Net in
/-- non-vacuity: dimension 2, one hidden relu unit with weight 0 and bias 0 (pre-activation exactly 0), arbitrary stored values -/
theorem coupling_instance :
    GradFinite (envVecs [[0.3, -1.2], [0], [0], [2, -3], [0.5, 0.25]])
      (coupling 1 (mlp Prim.relu [[(Vec.ofVec 1 1, Expr.get 2 (fun _ => 0))]]
          [(Vec.ofVec 3 1, Expr.get 4 (fun _ => 0)), ([Expr.get 3 (fun _ => 1)], Expr.get 4 (fun _ => 1))])
        (affineTld (Expr.const (fin 0.01)) · · (Expr.const (fin 0)) (Expr.const (fin 0.5)) ·) (Vec.ofVec 0 2)).2 := by
  refine (coupling_grad_finite (by norm_num) (fun xs hxs => mlp_vsafe relu_total ?_ ?_ hxs) 1 (vsafeVec_ofVec _ 0 2)).2.1
  · intro L hL r hr
    simp only [List.mem_singleton] at hL; subst hL
    simp only [List.mem_singleton] at hr; subst hr
    exact ⟨vsafeVec_ofVec _ 1 1, vsafe_param _ _ _⟩
  · intro r hr
    simp only [List.mem_cons, List.not_mem_nil, or_false] at hr
    rcases hr with rfl | rfl
    · exact ⟨vsafeVec_ofVec _ 3 1, vsafe_param _ _ _⟩
    · exact ⟨fun e he => by simp only [List.mem_singleton] at he; subst he; exact vsafe_param _ _ _, vsafe_param _ _ _⟩


/-! ## Extension: layers whose transformer has COMPUTED vector parameters -/
section C18Ext
open AdN AdS AdX Ad.Net

/-- `GradFinite` for a kernel under bindings (`Model/AdSpline.lean`): finite value and, for every finite incoming cotangent, only
finite adjoints — w.r.t. every element of every vector parameter of the environment (input, condition, every weight, every bias) -/
abbrev GradFiniteX (env : Env EF) (e : VExpr EF) : Prop := AdX.GradFinX env e

/-- **Coupling layer with the rational-quadratic-spline transformer, both directions.**
For every number of knots `K ≥ 1`, every interval `lo < hi`, every `softmax_adjust ≥ 0` (the constructor's own argument check), every
`min_derivative ≥ 0`, every real initial raw leaves `inits` of the transformer, every conditioner `net` that maps safe inputs to
safe outputs (every `eqx.nn.MLP` with relu/tanh: `mlp_grad_finite`, for EVERY weight and bias), every untransformed size `u`, every
input and condition expressions that are safe whatever the scalars hold (vector parameters holding ANY reals):
every element of the output point and the log-det — of `transform_and_log_det` and of `inverse_and_log_det` — has a finite value and
finite adjoints.  The pipeline is: conditioner output + initial leaf → generated `_real_to_increasing_on_interval` (softmax with
`stop_gradient` of the maximum, cumsum, pad) / generated `softplus + min_derivative` → generated spline kernel.
No finiteness-of-value hypothesis is needed: the values are finite for all real parameters and inputs. -/
theorem coupling_spline_grad_finite {c : SplineCfg EF} {K : Nat} {lo hi adj md : ℝ} {inits : List ℝ}
    (hK : c.K = K) (hK1 : 1 ≤ K) (hlo : c.lo = fin lo) (hhi : c.hi = fin hi) (hadj : c.adj = fin adj) (hmd : c.md = fin md)
    (hinit : c.init = inits.map fin) (hlt : lo < hi) (hadj0 : 0 ≤ adj) (hmd0 : 0 ≤ md)
    {env : Env EF} {net : List (Expr EF) → List (Expr EF)} (hnet : ∀ xs, VSafeVec env xs → VSafeVec env (net xs))
    (u : Nat) {x cond : List (Expr EF)} (hx : VSafeVec env x) (hcond : VSafeVec env cond) :
    (∀ e ∈ (couplingV u (3 * K + 2) net (splineTld c) x cond).1, GradFiniteX env e) ∧
    GradFiniteX env (couplingV u (3 * K + 2) net (splineTld c) x cond).2 ∧
    (∀ e ∈ (couplingV u (3 * K + 2) net (splineIld c) x cond).1, GradFiniteX env e) ∧
    GradFiniteX env (couplingV u (3 * K + 2) net (splineIld c) x cond).2 := by
  have hc : CfgOK c K lo hi adj md inits := ⟨hK, hK1, hlo, hhi, hadj, hmd, hinit, hlt, hadj0, hmd0⟩
  have ht := couplingV_vsafeX (P := 3 * K + 2) (tf := splineTld c) (fun ps x h1 h2 => splineTld_vsafeX hc h1 h2) hnet u hx hcond
  have hi' := couplingV_vsafeX (P := 3 * K + 2) (tf := splineIld c) (fun ps x h1 h2 => splineIld_vsafeX hc h1 h2) hnet u hx hcond
  exact ⟨fun e he => gradFinX_of_safeX (ht.1 e he env rfl), gradFinX_of_safeX (ht.2 env rfl),
         fun e he => gradFinX_of_safeX (hi'.1 e he env rfl), gradFinX_of_safeX (hi'.2 env rfl)⟩

/-- **Masked autoregressive layer with the rational-quadratic-spline transformer**, `transform_and_log_det` (the direction the
`log_prob` of the default `invert=True` flow evaluates, and the log-det of `inverse_and_log_det`); the conditioner is any masked MLP
(`masked` weights are covered by `mlp_grad_finite`).  Same quantifiers and conclusion as `coupling_spline_grad_finite`. -/
theorem maf_spline_grad_finite {c : SplineCfg EF} {K : Nat} {lo hi adj md : ℝ} {inits : List ℝ}
    (hK : c.K = K) (hK1 : 1 ≤ K) (hlo : c.lo = fin lo) (hhi : c.hi = fin hi) (hadj : c.adj = fin adj) (hmd : c.md = fin md)
    (hinit : c.init = inits.map fin) (hlt : lo < hi) (hadj0 : 0 ≤ adj) (hmd0 : 0 ≤ md)
    {env : Env EF} {net : List (Expr EF) → List (Expr EF)} (hnet : ∀ xs, VSafeVec env xs → VSafeVec env (net xs))
    {x cond : List (Expr EF)} (hx : VSafeVec env x) (hcond : VSafeVec env cond) :
    (∀ e ∈ (autoregV (3 * K + 2) net (splineTld c) x cond).1, GradFiniteX env e) ∧
    GradFiniteX env (autoregV (3 * K + 2) net (splineTld c) x cond).2 := by
  have hc : CfgOK c K lo hi adj md inits := ⟨hK, hK1, hlo, hhi, hadj, hmd, hinit, hlt, hadj0, hmd0⟩
  have ht := autoregV_vsafeX (P := 3 * K + 2) (tf := splineTld c) (fun ps x h1 h2 => splineTld_vsafeX hc h1 h2) hnet hx hcond
  exact ⟨fun e he => gradFinX_of_safeX (ht.1 e he env rfl), gradFinX_of_safeX (ht.2 env rfl)⟩

/-- the generated parameterisation on its own: for every non-empty array of real raw leaves the knot ASTs are gradient-finite and
evaluate to strictly increasing knots from `lo` to `hi` -/
theorem spline_params_grad_finite (raws : List ℝ) (hne : raws ≠ []) {lo hi adj : ℝ} (hlt : lo < hi) (hadj : 0 ≤ adj) :
    (∀ e ∈ RealToIncreasingOnInterval.ast (Vec.ofVec 0 raws.length) (Expr.const (fin lo)) (Expr.const (fin hi)) (Expr.const (fin adj)),
      GradFinite (envVecs [raws]) e) ∧
    ∃ ks : List ℝ, AdV.EvalsTo (envVecs [raws])
        (RealToIncreasingOnInterval.ast (Vec.ofVec 0 raws.length) (Expr.const (fin lo)) (Expr.const (fin hi)) (Expr.const (fin adj))) ks ∧
      ks.Pairwise (· < ·) ∧ ks.head? = some lo ∧ ks.getLast? = some hi := by
  have hv : ((envVecs [raws]).set 301001 (fin (hi - lo))).v 0 = raws.map fin := rfl
  obtain ⟨h1, h2⟩ := posParam_safe (env := envVecs [raws]) hne hadj (AdV.ofVec_safe hv) (AdV.ofVec_evalsTo hv rfl)
  obtain ⟨k1, _, k3, k4⟩ := ParamsPf.knots_generated hne hlt hadj
  exact ⟨fun e he => gradFin_of_safe (h1 e he), _, h2, k1, k3, k4⟩

/-- non-vacuity: dimension 2, one conditioning variable, `K = 2` knots on `(-2, 2)`, a relu conditioner with one hidden unit whose
weight and bias are 0 (pre-activation exactly 0), input on the interval's lower end -/
theorem coupling_spline_instance :
    GradFiniteX (envVecs [[0.3, -2], [], [0], [0], [2, -3, 0.5, 1, 0, 0, 0, 0], [0.5, 0.25, 0, 0, 0, 0, 0, 0]])
      (couplingV 1 8 (mlp Prim.relu [[(Vec.ofVec 2 1, Expr.get 3 (fun _ => 0))]]
          ((List.range 8).map (fun i => ([Expr.get 4 (fun _ => Int.ofNat i)], Expr.get 5 (fun _ => Int.ofNat i)))))
        (splineTld { K := 2, lo := fin (-2), hi := fin 2, adj := fin 0.01, md := fin 0.001, init := [0, 0, 0, 0, 0.5, 0.5, 0.5, 0.5].map fin })
        (Vec.ofVec 0 2) []).2 := by
  refine (coupling_spline_grad_finite (K := 2) (lo := -2) (hi := 2) (adj := 0.01) (md := 0.001) (inits := [0, 0, 0, 0, 0.5, 0.5, 0.5, 0.5])
    rfl (by norm_num) rfl rfl rfl rfl rfl (by norm_num) (by norm_num) (by norm_num)
    (fun xs hxs => mlp_vsafe relu_total ?_ ?_ hxs) 1 (vsafeVec_ofVec _ 0 2) (fun e he => by simp at he)).2.1
  · intro L hL r hr
    simp only [List.mem_singleton] at hL; subst hL
    simp only [List.mem_singleton] at hr; subst hr
    exact ⟨vsafeVec_ofVec _ 2 1, vsafe_param _ _ _⟩
  · intro r hr
    obtain ⟨i, _, rfl⟩ := List.mem_map.mp hr
    exact ⟨fun e he => by simp only [List.mem_singleton] at he; subst he; exact vsafe_param _ _ _, vsafe_param _ _ _⟩

/-- **MultivariateNormal** (`Transformed(StandardNormal((n,)), TriangularAffine(loc, cholesky))`), private `_log_prob`, and the two
directions of its `TriangularAffine` (lower = True).  For EVERY dimension `n` and EVERY real content of the four vector parameters
`vs = [x, loc, raw diagonal, arr]` (no length or sign hypothesis at all: the diagonal is `softplus(raw) > 0`, the strictly lower
entries are read from `arr`, everything else is the constant 0): the log-density, every element of `inverse_and_log_det` /
`transform_and_log_det` and their log-dets `∓Σ log|diag|` have finite values and finite adjoints w.r.t. the point, `loc`, every raw
diagonal leaf and every entry of `arr`.  `solve_triangular` is forward substitution (divisions by the positive diagonal only). -/
theorem mvn_grad_finite (n : Nat) (vs : List (List ℝ)) :
    GradFinite (envVecs vs) (AdMvn.logProb n) ∧
    (∀ e ∈ (AdMvn.ild n).1, GradFinite (envVecs vs) e) ∧ GradFinite (envVecs vs) (AdMvn.ild n).2 ∧
    (∀ e ∈ (AdMvn.tld n).1, GradFinite (envVecs vs) e) ∧ GradFinite (envVecs vs) (AdMvn.tld n).2 :=
  ⟨gradFin_of_safe (AdMvnT.logProb_safe vs n),
   fun e he => gradFin_of_safe ((AdMvnT.ild_vsafe vs n).1 e he).safe, gradFin_of_safe (AdMvnT.ild_vsafe vs n).2.safe,
   fun e he => gradFin_of_safe ((AdMvnT.tld_vsafe vs n).1 e he).safe, gradFin_of_safe (AdMvnT.tld_vsafe vs n).2.safe⟩

/-- non-vacuity: dimension 3, a point equal to `loc`, a very negative raw diagonal leaf (tiny positive diagonal entry) -/
theorem mvn_instance :
    GradFinite (envVecs [[1, -2, 0.5], [1, -2, 0.5], [-20, 0, 3], [0, 9, 9, 2, 0, 9, -1.5, 1000, 0]]) (AdMvn.logProb 3) :=
  (mvn_grad_finite 3 _).1

end C18Ext

/-! ## Audit (g27): non-vacuity of the hypothesis sets used above -/
section Audit
open AdN AdS AdX Ad.Net

/-- `maf_grad_finite`'s hypotheses (`hnet`, `hx`) discharged for a concrete relu conditioner (same network as `coupling_instance`);
no instance of the masked-autoregressive theorem existed -/
theorem maf_audit_instance :
    GradFinite (envVecs [[0.3, -1.2], [0], [0], [2, -3], [0.5, 0.25]])
      (autoreg (mlp Prim.relu [[(Vec.ofVec 1 1, Expr.get 2 (fun _ => 0))]]
          [(Vec.ofVec 3 1, Expr.get 4 (fun _ => 0)), ([Expr.get 3 (fun _ => 1)], Expr.get 4 (fun _ => 1))])
        (affineTld (Expr.const (fin 0.01)) · · (Expr.const (fin 0)) (Expr.const (fin 0.5)) ·) (Vec.ofVec 0 2)).2 := by
  refine (maf_grad_finite (by norm_num) (fun xs hxs => mlp_vsafe relu_total ?_ ?_ hxs) (vsafeVec_ofVec _ 0 2)).2
  · intro L hL r hr
    simp only [List.mem_singleton] at hL; subst hL
    simp only [List.mem_singleton] at hr; subst hr
    exact ⟨vsafeVec_ofVec _ 1 1, vsafe_param _ _ _⟩
  · intro r hr
    simp only [List.mem_cons, List.not_mem_nil, or_false] at hr
    rcases hr with rfl | rfl
    · exact ⟨vsafeVec_ofVec _ 3 1, vsafe_param _ _ _⟩
    · exact ⟨fun e he => by simp only [List.mem_singleton] at he; subst he; exact vsafe_param _ _ _, vsafe_param _ _ _⟩

/-- `maf_spline_grad_finite`'s hypothesis set discharged (K = 2, input on the interval's lower end) -/
theorem maf_spline_audit_instance :
    GradFiniteX (envVecs [[0.3, -2], [], [0], [0], [2, -3, 0.5, 1, 0, 0, 0, 0], [0.5, 0.25, 0, 0, 0, 0, 0, 0]])
      (autoregV 8 (mlp Prim.relu [[(Vec.ofVec 2 1, Expr.get 3 (fun _ => 0))]]
          ((List.range 8).map (fun i => ([Expr.get 4 (fun _ => Int.ofNat i)], Expr.get 5 (fun _ => Int.ofNat i)))))
        (splineTld { K := 2, lo := fin (-2), hi := fin 2, adj := fin 0.01, md := fin 0.001, init := [0, 0, 0, 0, 0.5, 0.5, 0.5, 0.5].map fin })
        (Vec.ofVec 0 2) []).2 := by
  refine (maf_spline_grad_finite (K := 2) (lo := -2) (hi := 2) (adj := 0.01) (md := 0.001) (inits := [0, 0, 0, 0, 0.5, 0.5, 0.5, 0.5])
    rfl (by norm_num) rfl rfl rfl rfl rfl (by norm_num) (by norm_num) (by norm_num)
    (fun xs hxs => mlp_vsafe relu_total ?_ ?_ hxs) (vsafeVec_ofVec _ 0 2) (fun e he => by simp at he)).2
  · intro L hL r hr
    simp only [List.mem_singleton] at hL; subst hL
    simp only [List.mem_singleton] at hr; subst hr
    exact ⟨vsafeVec_ofVec _ 2 1, vsafe_param _ _ _⟩
  · intro r hr
    obtain ⟨i, _, rfl⟩ := List.mem_map.mp hr
    exact ⟨fun e he => by simp only [List.mem_singleton] at he; subst he; exact vsafe_param _ _ _, vsafe_param _ _ _⟩

/-- `where_guard_sound`'s four hypotheses are jointly satisfiable in the interesting case: the guarded primitive is `log`, the
argument is `x = −1` (where `log` is NOT safe), the mask selects the other branch, the safe constant is 1 -/
theorem where_guard_audit_instance :
    GradFinite (envOf (-1) [] [])
      (Expr.sel (fun _ => true) (Expr.const (fin 0)) (Expr.prim Prim.log (Expr.sel (fun _ => true) (Expr.const (fin 1)) (Expr.var 0)))) :=
  safe_gradFinite (where_guard_sound (fun _ => true) Prim.log 1 (Expr.var 0) (Expr.const (fin 0))
    trivial trivial (by show (0 : ℝ) < 1; norm_num) (fun h => by cases h))
/-- negative control: `GradFinite` is falsifiable in the modelled number domain — `sqrt` at exactly 0 has a finite VALUE but the
adjoint `1·1/(2·sqrt 0) = +∞`, so the predicate fails (the theorems above are not true of every expression) -/
theorem gradFinite_audit_negative_control : ¬ GradFinite (envOf 0 [] []) (Expr.prim Prim.sqrt (Expr.var 0)) := by
  intro h
  have h1 := h.2 (fin 1) trivial
  simp [Expr.vjp, Expr.eval, envOf, dPrim, AllFin] at h1
  have e : (fin 1 * (fin 1 / (fin 2 * Num.sqrt (fin 0))) : EF) = pinf := by
    show EF.mul (fin 1) (EF.div (fin 1) (EF.mul (fin 2) (EF.sqrt (fin 0)))) = pinf
    simp [EF.sqrt, EF.mul, EF.div, EF.recip]
  rw [e] at h1
  exact h1
end Audit

end C18
end
