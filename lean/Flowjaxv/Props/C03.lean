import Flowjaxv.Proofs.DistTheory
import Flowjaxv.Proofs.Leaves
import Flowjaxv.Proofs.Flows
import Flowjaxv.Proofs.JaxTransforms
import Flowjaxv.Proofs.TriSplineMass
/-!
# C03 — transformed densities obey change of variables on both evaluation paths

About the GENERATED `AbstractTransformed._log_prob / _sample / _sample_and_log_prob`
(`Gen/Dist.lean`) and the generated `Chain` (`Gen/Combinators.lean`).
-/
open Gen Set

namespace C03

/-- `log_prob(x)` = base log-density at the inverse image of `x` + the inverse log-determinant;
the condition is passed to both the bijection and the base. -/
theorem transformed_log_prob {X C K : Type} (t : Transformed X C K ℝ) {D E : Set X}
    (hb : t.bijection.Lawful D E) (x : X) (c : C) :
    t.toDist.logProb x c
      = t.base_dist.logProb (t.bijection.inv x c) c + (t.bijection.invLd x c).2 := by
  rw [transformed_logProb, hb.invLd_fst]

/-- a sample drawn with a key is the bijection applied to the base sample for that key -/
theorem transformed_sample {X C K : Type} (t : Transformed X C K ℝ) (k : K) (c : C) :
    t.toDist.sample k c = t.bijection.fwd (t.base_dist.sample k c) c := Gen.transformed_sample t k c

/-- the fast path: sample = forward image of the base sample, log-prob = base log-prob − forward log-det -/
theorem transformed_sample_and_log_prob {X C K : Type} (t : Transformed X C K ℝ) {D E : Set X}
    (hb : t.bijection.Lawful D E) (k : K) (c : C) :
    t.toDist.sampleLp k c
      = (t.bijection.fwd (t.base_dist.sampleLp k c).1 c,
         (t.base_dist.sampleLp k c).2 - (t.bijection.fwdLd (t.base_dist.sampleLp k c).1 c).2) := by
  rw [transformed_sampleLp, hb.fwdLd_fst]

/-- the log-probability returned together with a sample equals `log_prob` evaluated at that sample
(needs exactly `inverse(transform z) = z` and `inverse log-det at transform z = − forward log-det at z`) -/
theorem sample_and_log_prob_consistent {X C K : Type} (t : Transformed X C K ℝ) {D E : Set X}
    (hb : t.bijection.Lawful D E) (ha : t.bijection.LdAntisym D)
    (hc : t.base_dist.Consistent) (hD : ∀ k c, t.base_dist.sample k c ∈ D) :
    t.toDist.Consistent := Gen.transformed_consistent t hb ha hc hD

/-- the default `_sample_and_log_prob` of a non-transformed distribution is consistent by construction -/
theorem default_sample_and_log_prob_consistent {X C K : Type} (d : DistCore X C K ℝ) :
    d.toDist.Consistent := Gen.core_consistent d

/-- consistency propagates through any depth of nesting (by iterating the previous theorem) -/
theorem nested_consistent {X C K : Type} (base : Distn X C K ℝ) (hc : base.Consistent)
    (bs : List (Bij X C ℝ))
    (hall : ∀ b ∈ bs, b.Lawful univ univ ∧ b.LdAntisym univ) :
    (nestTransformed base bs).Consistent := by
  induction bs using List.reverseRecOn with
  | nil => simpa [nestTransformed] using hc
  | append_singleton bs b ih =>
    have hn : nestTransformed base (bs ++ [b]) = (Transformed.mk (nestTransformed base bs) b).toDist := by
      simp [nestTransformed, List.foldl_append]
    rw [hn]
    have hb := hall b (by simp)
    exact Gen.transformed_consistent _ hb.1 hb.2
      (ih (fun b' hb' => hall b' (List.mem_append_left _ hb'))) (fun _ _ => trivial)

/-- `merge_transforms` never changes the distribution, for any nesting depth -/
theorem merge_transforms_sem {X C K : Type} (base : Distn X C K ℝ) (bs : List (Bij X C ℝ)) :
    (nestTransformed base bs).Equiv (mergeTransforms base bs) := Gen.merge_transforms_sem base bs

/-- `merge_chains` (one flattening pass, iterated by the code until flat) never changes the bijection -/
theorem merge_chains_step {X C : Type} (items : List (Item X C)) :
    (Chain.mk (items.map Item.toBij)).toBij.Equiv (Chain.mk (items.flatMap Item.flat)).toBij :=
  Gen.merge_chains_step items

/-- worked instance: a Normal(1, 2) built as Transformed(base, Affine(1,2)) over any consistent base is consistent -/
theorem normal_instance {K : Type} (base : Distn ℝ Unit K ℝ) (hc : base.Consistent) :
    (Transformed.mk base ((Affine.mk 1 2 : Affine ℝ).toBij)).toDist.Consistent := by
  refine Gen.transformed_consistent _ (Leaves.affine_lawful _ (by norm_num)) ?_ hc (fun _ _ => trivial)
  intro x _ c
  simp [Affine.toBij, Affine.inverse_and_log_det, Affine.transform_and_log_det]

/-! ## premade flows (`flowjax/flows.py`): the `Transformed` every factory returns, both orientations

`Flows.couplingFlow tf dim key n invert base` etc. are the GENERATED factory bodies (`Gen/Flows.lean`):
`Transformed(base_dist, Invert(Scan(layers)) if invert else Scan(layers))`.  For EVERY number of layers, dimension, layer
parameter values, permutation, `invert` flag, base distribution and condition.  Helpers: `Proofs/Flows.lean`. -/
section PremadeFlows
open Masks Flows FlowsPf
variable {K : Type}

/-- the inverse pass of a whole flow returns minus the forward log-det at the preimage (every `n`, both orientations) -/
theorem coupling_flow_ld_antisym (tf : List ℝ → Bij ℝ Unit ℝ) (htf : ∀ ps, (tf ps).Lawful univ univ)
    (hta : ∀ ps, (tf ps).LdAntisym univ) (dim : ℕ) (_hdim : 0 < dim) (key : ℕ → (List ℝ → List ℝ) × List ℕ) (n : ℕ) (invert : Bool)
    (hperm : ∀ i < n, PermKeyOK dim (key i).2) : (couplingFlowBij tf dim key n invert).LdAntisym (Vec dim) :=
  FlowsPf.coupling_flow_ldAntisym tf htf hta dim key n invert hperm

theorem maf_flow_ld_antisym (tf : List ℝ → Bij ℝ Unit ℝ) (htf : ∀ ps, (tf ps).Lawful univ univ) (dim : ℕ) (_hdim : 0 < dim)
    (key : ℕ → MafNet ℝ × List ℕ) (n : ℕ) (invert : Bool)
    (hnet : ∀ i < n, (key i).1.WellShaped ∧ (key i).1.dim = dim) (hperm : ∀ i < n, PermKeyOK dim (key i).2) :
    (mafFlowBij tf dim key n invert).LdAntisym (Vec dim) :=
  FlowsPf.maf_flow_ldAntisym tf htf dim key n invert hnet hperm

theorem planar_flow_ld_antisym (dim : ℕ) {s : ℝ} (hs0 : 0 < s) (hs1 : s ≤ 1)
    (key : ℕ → (List ℝ → List ℝ) × List ℕ) (n : ℕ) (invert : Bool)
    (hpar : ∀ i < n, PlanarOK dim (key i).1) (hperm : ∀ i < n, PermKeyOK dim (key i).2) :
    (planarFlowBij dim s key n invert).LdAntisym (Vec dim) :=
  FlowsPf.planar_flow_ldAntisym dim hs0 hs1 key n invert hpar hperm

theorem bnaf_flow_ld_antisym (dim depth bd : ℕ) (act : ℝ → ℝ) (hact : StrictMono act)
    (inverter : (List ℝ → List ℝ → List ℝ) → List ℝ → List ℝ → List ℝ)
    (key : ℕ → BnafNet ℝ × List ℕ) (n : ℕ) (invert : Bool)
    (hnet : ∀ i < n, NetLawful.BnafOK dim depth bd (key i).1.layers (key i).1.condLinear ∧
      InverterExact dim inverter (bnafTransform act (key i).1.layers (key i).1.condLinear))
    (hperm : ∀ i < n, PermKeyOK dim (key i).2) :
    (bnafFlowBij dim act inverter key n invert).LdAntisym (Vec dim) :=
  FlowsPf.bnaf_flow_ldAntisym dim depth bd act hact inverter key n invert hnet hperm

/-- **`flow_log_prob_change_of_variables`** — the three clauses of C03 for `Transformed(base, b)` whenever the flow's
bijection `b` is lawful on `D` with antisymmetric log-dets (which the four theorems below discharge per factory):
`log_prob(x) = base log-density at inverse(x) + inverse log-det`; `sample(key) = transform(base sample(key))`;
`sample_and_log_prob` = (that point, base log-prob − forward log-det); and the returned log-prob equals `log_prob` at the
returned sample when the base is consistent and samples in `D`. -/
theorem flow_log_prob_change_of_variables {b : VBij ℝ} {D : Set (List ℝ)} (hb : b.Lawful D D) (ha : b.LdAntisym D)
    (base : VDist K ℝ) :
    (∀ x c, (transformedOf base b).logProb x c = base.logProb (b.inv x c) c + (b.invLd x c).2) ∧
    (∀ k c, (transformedOf base b).sample k c = b.fwd (base.sample k c) c) ∧
    (∀ k c, (transformedOf base b).sampleLp k c
        = (b.fwd (base.sampleLp k c).1 c, (base.sampleLp k c).2 - (b.fwdLd (base.sampleLp k c).1 c).2)) ∧
    (base.Consistent → (∀ k c, base.sample k c ∈ D) → (transformedOf base b).Consistent) :=
  FlowsPf.flow_change_of_variables hb ha base

/-- coupling flows (any transformer family lawful `ℝ ↔ ℝ` with antisymmetric log-dets: the default
`_affine_with_min_scale()`, `Affine()`, splines), conditional or not, either orientation (guard `0 < dim`: see `C01.coupling_flow_lawful`) -/
theorem coupling_flow_change_of_variables (tf : List ℝ → Bij ℝ Unit ℝ) (htf : ∀ ps, (tf ps).Lawful univ univ)
    (hta : ∀ ps, (tf ps).LdAntisym univ) (dim : ℕ) (_hdim : 0 < dim) (key : ℕ → (List ℝ → List ℝ) × List ℕ) (n : ℕ) (invert : Bool)
    (hperm : ∀ i < n, PermKeyOK dim (key i).2) (base : VDist K ℝ) :
    let b := couplingFlowBij tf dim key n invert
    let d := couplingFlow tf dim key n invert base
    (∀ x c, d.logProb x c = base.logProb (b.inv x c) c + (b.invLd x c).2) ∧
    (∀ k c, d.sample k c = b.fwd (base.sample k c) c) ∧
    (∀ k c, d.sampleLp k c = (b.fwd (base.sampleLp k c).1 c, (base.sampleLp k c).2 - (b.fwdLd (base.sampleLp k c).1 c).2)) ∧
    (base.Consistent → (∀ k c, base.sample k c ∈ Vec dim) → d.Consistent) :=
  FlowsPf.flow_change_of_variables (FlowsPf.coupling_flow_lawful tf htf dim key n invert hperm)
    (FlowsPf.coupling_flow_ldAntisym tf htf hta dim key n invert hperm) base

theorem maf_flow_change_of_variables (tf : List ℝ → Bij ℝ Unit ℝ) (htf : ∀ ps, (tf ps).Lawful univ univ) (dim : ℕ) (_hdim : 0 < dim)
    (key : ℕ → MafNet ℝ × List ℕ) (n : ℕ) (invert : Bool)
    (hnet : ∀ i < n, (key i).1.WellShaped ∧ (key i).1.dim = dim) (hperm : ∀ i < n, PermKeyOK dim (key i).2)
    (base : VDist K ℝ) :
    let b := mafFlowBij tf dim key n invert
    let d := mafFlow tf dim key n invert base
    (∀ x c, d.logProb x c = base.logProb (b.inv x c) c + (b.invLd x c).2) ∧
    (∀ k c, d.sample k c = b.fwd (base.sample k c) c) ∧
    (∀ k c, d.sampleLp k c = (b.fwd (base.sampleLp k c).1 c, (base.sampleLp k c).2 - (b.fwdLd (base.sampleLp k c).1 c).2)) ∧
    (base.Consistent → (∀ k c, base.sample k c ∈ Vec dim) → d.Consistent) :=
  FlowsPf.flow_change_of_variables (FlowsPf.maf_flow_lawful tf htf dim key n invert hnet hperm)
    (FlowsPf.maf_flow_ldAntisym tf htf dim key n invert hnet hperm) base

theorem planar_flow_change_of_variables (dim : ℕ) {s : ℝ} (hs0 : 0 < s) (hs1 : s ≤ 1)
    (key : ℕ → (List ℝ → List ℝ) × List ℕ) (n : ℕ) (invert : Bool)
    (hpar : ∀ i < n, PlanarOK dim (key i).1) (hperm : ∀ i < n, PermKeyOK dim (key i).2) (base : VDist K ℝ) :
    let b := planarFlowBij dim s key n invert
    let d := planarFlow dim s key n invert base
    (∀ x c, d.logProb x c = base.logProb (b.inv x c) c + (b.invLd x c).2) ∧
    (∀ k c, d.sample k c = b.fwd (base.sample k c) c) ∧
    (∀ k c, d.sampleLp k c = (b.fwd (base.sampleLp k c).1 c, (base.sampleLp k c).2 - (b.fwdLd (base.sampleLp k c).1 c).2)) ∧
    (base.Consistent → (∀ k c, base.sample k c ∈ Vec dim) → d.Consistent) :=
  FlowsPf.flow_change_of_variables (FlowsPf.planar_flow_lawful dim hs0 hs1 key n invert hpar hperm)
    (FlowsPf.planar_flow_ldAntisym dim hs0 hs1 key n invert hpar hperm) base

theorem bnaf_flow_change_of_variables (dim depth bd : ℕ) (act : ℝ → ℝ) (hact : StrictMono act)
    (inverter : (List ℝ → List ℝ → List ℝ) → List ℝ → List ℝ → List ℝ)
    (key : ℕ → BnafNet ℝ × List ℕ) (n : ℕ) (invert : Bool)
    (hnet : ∀ i < n, NetLawful.BnafOK dim depth bd (key i).1.layers (key i).1.condLinear ∧
      InverterExact dim inverter (bnafTransform act (key i).1.layers (key i).1.condLinear))
    (hperm : ∀ i < n, PermKeyOK dim (key i).2) (base : VDist K ℝ) :
    let b := bnafFlowBij dim act inverter key n invert
    let d := bnafFlow dim act inverter key n invert base
    (∀ x c, d.logProb x c = base.logProb (b.inv x c) c + (b.invLd x c).2) ∧
    (∀ k c, d.sample k c = b.fwd (base.sample k c) c) ∧
    (∀ k c, d.sampleLp k c = (b.fwd (base.sampleLp k c).1 c, (base.sampleLp k c).2 - (b.fwdLd (base.sampleLp k c).1 c).2)) ∧
    (base.Consistent → (∀ k c, base.sample k c ∈ Vec dim) → d.Consistent) :=
  FlowsPf.flow_change_of_variables (FlowsPf.bnaf_flow_lawful dim depth bd act hact inverter key n invert hnet hperm)
    (FlowsPf.bnaf_flow_ldAntisym dim depth bd act hact inverter key n invert hnet hperm) base

theorem tri_spline_flow_ld_antisym (dim : ℕ) (m : ℝ) (key : ℕ → TriSplineNet ℝ × List ℕ) (n : ℕ) (invert : Bool)
    (hnet : ∀ i < n, TriSplineOK dim m (key i).1) (hperm : ∀ i < n, PermKeyOK dim (key i).2) :
    (triSplineFlowBij dim m key n invert).LdAntisym (Vec dim) :=
  FlowsPf.tri_spline_flow_ldAntisym dim m key n invert hnet hperm

theorem tri_spline_flow_change_of_variables (dim : ℕ) (m : ℝ) (key : ℕ → TriSplineNet ℝ × List ℕ) (n : ℕ) (invert : Bool)
    (hnet : ∀ i < n, TriSplineOK dim m (key i).1) (hperm : ∀ i < n, PermKeyOK dim (key i).2) (base : VDist K ℝ) :
    let b := triSplineFlowBij dim m key n invert
    let d := triSplineFlow dim m key n invert base
    (∀ x c, d.logProb x c = base.logProb (b.inv x c) c + (b.invLd x c).2) ∧
    (∀ k c, d.sample k c = b.fwd (base.sample k c) c) ∧
    (∀ k c, d.sampleLp k c = (b.fwd (base.sampleLp k c).1 c, (base.sampleLp k c).2 - (b.fwdLd (base.sampleLp k c).1 c).2)) ∧
    (base.Consistent → (∀ k c, base.sample k c ∈ Vec dim) → d.Consistent) :=
  FlowsPf.flow_change_of_variables (FlowsPf.tri_spline_flow_lawful dim m key n invert hnet hperm)
    (FlowsPf.tri_spline_flow_ldAntisym dim m key n invert hnet hperm) base

/-- what the `invert` flag does (the docstring's "True prioritises a faster `log_prob`"): with `invert = true` the
flow's `inverse_and_log_det` — the method `log_prob` calls — IS the layer stack's `transform_and_log_det` (one forward
pass through the layers), and `transform` — the method `sample` calls — is the stack's `inverse`; with `invert = false`
the other way round. -/
theorem coupling_flow_orientation (tf : List ℝ → Bij ℝ Unit ℝ) (dim : ℕ) (key : ℕ → (List ℝ → List ℝ) × List ℕ) (n : ℕ) :
    (couplingFlowBij tf dim key n true).invLd = (couplingFlowBij tf dim key n false).fwdLd ∧
    (couplingFlowBij tf dim key n true).fwd = (couplingFlowBij tf dim key n false).inv ∧
    (couplingFlowBij tf dim key n true).inv = (couplingFlowBij tf dim key n false).fwd ∧
    (couplingFlowBij tf dim key n true).fwdLd = (couplingFlowBij tf dim key n false).invLd :=
  ⟨rfl, rfl, rfl, rfl⟩

/-- non-vacuity: the 2-layer coupling flow on `ℝ³` of `C01.coupling_flow_instance` over ANY consistent base that
samples vectors of length 3 is consistent, in both orientations -/
theorem coupling_flow_instance (base : VDist K ℝ) (hc : base.Consistent) (hD : ∀ k c, base.sample k c ∈ Vec 3)
    (invert : Bool) : (couplingFlow defaultTransformer 3 couplingKeys 2 invert base).Consistent :=
  (coupling_flow_change_of_variables defaultTransformer defaultTransformer_lawful defaultTransformer_ldAntisym 3 (by norm_num)
    couplingKeys 2 invert couplingKeys_perm base).2.2.2 hc hD

end PremadeFlows

/-! ## Scan, REGENERATED (`Gen/JaxTransforms.lean`; meanings of `lax.scan` / `eqx.partition` / `eqx.combine`: `Model/JaxTrWorld.lean`) -/
section JaxTransformsGen
open GenJaxTr

/-- **change of variables through the generated `Scan`**: `Transformed(base, Scan(layers))` — the generated `Scan` methods, the
generated `AbstractTransformed` methods — returns with every sample the log-probability `log_prob` assigns to it, for any number of
layers that are lawful with antisymmetric log-dets on their stages (this is where a lost `reverse=True` in
`Scan.inverse_and_log_det` would show). -/
theorem gen_scan_transformed_consistent {X C K : Type} (base : Distn X C K ℝ) (s : JaxTr.Scan X C ℝ) {D E : Set X}
    (h : LogDet.ChainAll Bij.LdAntisym s.bijection.layers D E) (hc : base.Consistent) (hD : ∀ k c, base.sample k c ∈ D) :
    (Transformed.mk base s.toBij).toDist.Consistent :=
  Gen.transformed_consistent _ (JaxTrProofs.scan_lawful h.lawful) (JaxTrProofs.scan_ld_antisym h) hc hD

end JaxTransformsGen

/-! ## `triangular_spline_flow.make_layer`, REGENERATED (`Gen/Flows.lean`, translator `py2flows.FTr`; g25; see C01 `gen_tri_spline_make_layer_eq`) -/
section TriSplineGen
open Flows FlowsPf
variable {K : Type}

/-- `tri_spline_flow_ld_antisym` about the REGENERATED closure: the inverse pass of the flow whose layers are the generated
`make_layer` returns minus the forward log-det at the preimage — every number of layers, both orientations, every key -/
theorem gen_tri_spline_flow_ld_antisym {dim : ℕ} {m : ℝ} {knots : ℕ} {cond_dim : Option ℕ} {key : ℕ → TriSplineKey ℝ} {n : ℕ}
    (h : GenTriSplineKeysOK dim m knots cond_dim key n) (invert : Bool) :
    (genTriSplineFlowBij dim m knots cond_dim key n invert).LdAntisym (Vec dim) :=
  FlowsPf.gen_tri_spline_flow_ldAntisym h invert

/-- `tri_spline_flow_change_of_variables` about the regenerated closure and the generated `Transformed(base_dist, bijection)` -/
theorem gen_tri_spline_flow_change_of_variables {dim : ℕ} {m : ℝ} {knots : ℕ} {cond_dim : Option ℕ} {key : ℕ → TriSplineKey ℝ}
    {n : ℕ} (h : GenTriSplineKeysOK dim m knots cond_dim key n) (invert : Bool) (base : VDist K ℝ) :
    let b := genTriSplineFlowBij dim m knots cond_dim key n invert
    let d := genTriSplineFlow dim m knots cond_dim key n invert base
    (∀ x c, d.logProb x c = base.logProb (b.inv x c) c + (b.invLd x c).2) ∧
    (∀ k c, d.sample k c = b.fwd (base.sample k c) c) ∧
    (∀ k c, d.sampleLp k c = (b.fwd (base.sampleLp k c).1 c, (base.sampleLp k c).2 - (b.fwdLd (base.sampleLp k c).1 c).2)) ∧
    (base.Consistent → (∀ k c, base.sample k c ∈ Vec dim) → d.Consistent) :=
  FlowsPf.flow_change_of_variables (FlowsPf.gen_tri_spline_flow_lawful h invert) (FlowsPf.gen_tri_spline_flow_ldAntisym h invert) base

/-- non-vacuity: the 2-layer conditional generated flow of C01 `gen_tri_spline_flow_instance` over any consistent base that samples
vectors of length 3 is consistent, in both orientations -/
theorem gen_tri_spline_flow_cov_instance (base : VDist K ℝ) (hc : base.Consistent) (hD : ∀ k c, base.sample k c ∈ Vec 3)
    (invert : Bool) : (genTriSplineFlow 3 3 4 (some 2) genTriKeys 2 invert base).Consistent :=
  (gen_tri_spline_flow_change_of_variables genTriKeys_ok invert base).2.2.2 hc hD

end TriSplineGen

end C03
