import Flowjaxv.Proofs.DistTheory
import Flowjaxv.Proofs.Leaves
import Flowjaxv.Proofs.Flows
import Flowjaxv.Proofs.JaxTransforms
import Flowjaxv.Proofs.MergeGen
import Flowjaxv.Proofs.MergeGenWF
import Flowjaxv.Proofs.TriSplineMass
/-!
# C03 — transformed densities obey change of variables on both evaluation paths

About the GENERATED `AbstractTransformed._log_prob / _sample / _sample_and_log_prob`
(`Gen/Dist.lean`) and the generated `Chain` (`Gen/Combinators.lean`).
-/
open Gen Set

namespace C03

/-- `log_prob(x)` = base log-density at the inverse image of `x` + the inverse log-determinant;
the condition is passed to both the bijection and the base. -/
theorem transformed_log_prob {X C K : Type} (t : Transformed X C K ℝ) {D E : Set X}
    (hb : t.bijection.Lawful D E) (x : X) (c : C) :
    t.toDist.logProb x c
      = t.base_dist.logProb (t.bijection.inv x c) c + (t.bijection.invLd x c).2 := by
  rw [transformed_logProb, hb.invLd_fst]

/-- a sample drawn with a key is the bijection applied to the base sample for that key -/
theorem transformed_sample {X C K : Type} (t : Transformed X C K ℝ) (k : K) (c : C) :
    t.toDist.sample k c = t.bijection.fwd (t.base_dist.sample k c) c := Gen.transformed_sample t k c

/-- the fast path: sample = forward image of the base sample, log-prob = base log-prob − forward log-det -/
theorem transformed_sample_and_log_prob {X C K : Type} (t : Transformed X C K ℝ) {D E : Set X}
    (hb : t.bijection.Lawful D E) (k : K) (c : C) :
    t.toDist.sampleLp k c
      = (t.bijection.fwd (t.base_dist.sampleLp k c).1 c,
         (t.base_dist.sampleLp k c).2 - (t.bijection.fwdLd (t.base_dist.sampleLp k c).1 c).2) := by
  rw [transformed_sampleLp, hb.fwdLd_fst]

/-- the log-probability returned together with a sample equals `log_prob` evaluated at that sample
(needs exactly `inverse(transform z) = z` and `inverse log-det at transform z = − forward log-det at z`) -/
theorem sample_and_log_prob_consistent {X C K : Type} (t : Transformed X C K ℝ) {D E : Set X}
    (hb : t.bijection.Lawful D E) (ha : t.bijection.LdAntisym D)
    (hc : t.base_dist.Consistent) (hD : ∀ k c, t.base_dist.sample k c ∈ D) :
    t.toDist.Consistent := Gen.transformed_consistent t hb ha hc hD

/-- the default `_sample_and_log_prob` of a non-transformed distribution is consistent by construction -/
theorem default_sample_and_log_prob_consistent {X C K : Type} (d : DistCore X C K ℝ) :
    d.toDist.Consistent := Gen.core_consistent d

/-- consistency propagates through any depth of nesting (by iterating the previous theorem) -/
theorem nested_consistent {X C K : Type} (base : Distn X C K ℝ) (hc : base.Consistent)
    (bs : List (Bij X C ℝ))
    (hall : ∀ b ∈ bs, b.Lawful univ univ ∧ b.LdAntisym univ) :
    (nestTransformed base bs).Consistent := by
  induction bs using List.reverseRecOn with
  | nil => simpa [nestTransformed] using hc
  | append_singleton bs b ih =>
    have hn : nestTransformed base (bs ++ [b]) = (Transformed.mk (nestTransformed base bs) b).toDist := by
      simp [nestTransformed, List.foldl_append]
    rw [hn]
    have hb := hall b (by simp)
    exact Gen.transformed_consistent _ hb.1 hb.2
      (ih (fun b' hb' => hall b' (List.mem_append_left _ hb'))) (fun _ _ => trivial)

/-- `merge_transforms` never changes the distribution, for any nesting depth -/
theorem merge_transforms_sem {X C K : Type} (base : Distn X C K ℝ) (bs : List (Bij X C ℝ)) :
    (nestTransformed base bs).Equiv (mergeTransforms base bs) := Gen.merge_transforms_sem base bs

/-- `merge_chains` (one flattening pass, iterated by the code until flat) never changes the bijection -/
theorem merge_chains_step {X C : Type} (items : List (Item X C)) :
    (Chain.mk (items.map Item.toBij)).toBij.Equiv (Chain.mk (items.flatMap Item.flat)).toBij :=
  Gen.merge_chains_step items

/-- worked instance: a Normal(1, 2) built as Transformed(base, Affine(1,2)) over any consistent base is consistent -/
theorem normal_instance {K : Type} (base : Distn ℝ Unit K ℝ) (hc : base.Consistent) :
    (Transformed.mk base ((Affine.mk 1 2 : Affine ℝ).toBij)).toDist.Consistent := by
  refine Gen.transformed_consistent _ (Leaves.affine_lawful _ (by norm_num)) ?_ hc (fun _ _ => trivial)
  intro x _ c
  simp [Affine.toBij, Affine.inverse_and_log_det, Affine.transform_and_log_det]

/-! ## premade flows (`flowjax/flows.py`): the `Transformed` every factory returns, both orientations

`Flows.couplingFlow tf dim key n invert base` etc. are the GENERATED factory bodies (`Gen/Flows.lean`):
`Transformed(base_dist, Invert(Scan(layers)) if invert else Scan(layers))`.  For EVERY number of layers, dimension, layer
parameter values, permutation, `invert` flag, base distribution and condition.  Helpers: `Proofs/Flows.lean`. -/
section PremadeFlows
open Masks Flows FlowsPf
variable {K : Type}

/-- the inverse pass of a whole flow returns minus the forward log-det at the preimage (every `n`, both orientations) -/
theorem coupling_flow_ld_antisym (tf : List ℝ → Bij ℝ Unit ℝ) (htf : ∀ ps, (tf ps).Lawful univ univ)
    (hta : ∀ ps, (tf ps).LdAntisym univ) (dim : ℕ) (_hdim : 0 < dim) (key : ℕ → (List ℝ → List ℝ) × List ℕ) (n : ℕ) (invert : Bool)
    (hperm : ∀ i < n, PermKeyOK dim (key i).2) : (couplingFlowBij tf dim key n invert).LdAntisym (Vec dim) :=
  FlowsPf.coupling_flow_ldAntisym tf htf hta dim key n invert hperm

theorem maf_flow_ld_antisym (tf : List ℝ → Bij ℝ Unit ℝ) (htf : ∀ ps, (tf ps).Lawful univ univ) (dim : ℕ) (_hdim : 0 < dim)
    (key : ℕ → MafNet ℝ × List ℕ) (n : ℕ) (invert : Bool)
    (hnet : ∀ i < n, (key i).1.WellShaped ∧ (key i).1.dim = dim) (hperm : ∀ i < n, PermKeyOK dim (key i).2) :
    (mafFlowBij tf dim key n invert).LdAntisym (Vec dim) :=
  FlowsPf.maf_flow_ldAntisym tf htf dim key n invert hnet hperm

theorem planar_flow_ld_antisym (dim : ℕ) {s : ℝ} (hs0 : 0 < s) (hs1 : s ≤ 1)
    (key : ℕ → (List ℝ → List ℝ) × List ℕ) (n : ℕ) (invert : Bool)
    (hpar : ∀ i < n, PlanarOK dim (key i).1) (hperm : ∀ i < n, PermKeyOK dim (key i).2) :
    (planarFlowBij dim s key n invert).LdAntisym (Vec dim) :=
  FlowsPf.planar_flow_ldAntisym dim hs0 hs1 key n invert hpar hperm

theorem bnaf_flow_ld_antisym (dim depth bd : ℕ) (act : ℝ → ℝ) (hact : StrictMono act)
    (inverter : (List ℝ → List ℝ → List ℝ) → List ℝ → List ℝ → List ℝ)
    (key : ℕ → BnafNet ℝ × List ℕ) (n : ℕ) (invert : Bool)
    (hnet : ∀ i < n, NetLawful.BnafOK dim depth bd (key i).1.layers (key i).1.condLinear ∧
      InverterExact dim inverter (bnafTransform act (key i).1.layers (key i).1.condLinear))
    (hperm : ∀ i < n, PermKeyOK dim (key i).2) :
    (bnafFlowBij dim act inverter key n invert).LdAntisym (Vec dim) :=
  FlowsPf.bnaf_flow_ldAntisym dim depth bd act hact inverter key n invert hnet hperm

/-- **`flow_log_prob_change_of_variables`** — the three clauses of C03 for `Transformed(base, b)` whenever the flow's
bijection `b` is lawful on `D` with antisymmetric log-dets (which the four theorems below discharge per factory):
`log_prob(x) = base log-density at inverse(x) + inverse log-det`; `sample(key) = transform(base sample(key))`;
`sample_and_log_prob` = (that point, base log-prob − forward log-det); and the returned log-prob equals `log_prob` at the
returned sample when the base is consistent and samples in `D`. -/
theorem flow_log_prob_change_of_variables {b : VBij ℝ} {D : Set (List ℝ)} (hb : b.Lawful D D) (ha : b.LdAntisym D)
    (base : VDist K ℝ) :
    (∀ x c, (transformedOf base b).logProb x c = base.logProb (b.inv x c) c + (b.invLd x c).2) ∧
    (∀ k c, (transformedOf base b).sample k c = b.fwd (base.sample k c) c) ∧
    (∀ k c, (transformedOf base b).sampleLp k c
        = (b.fwd (base.sampleLp k c).1 c, (base.sampleLp k c).2 - (b.fwdLd (base.sampleLp k c).1 c).2)) ∧
    (base.Consistent → (∀ k c, base.sample k c ∈ D) → (transformedOf base b).Consistent) :=
  FlowsPf.flow_change_of_variables hb ha base

/-- coupling flows (any transformer family lawful `ℝ ↔ ℝ` with antisymmetric log-dets: the default
`_affine_with_min_scale()`, `Affine()`, splines), conditional or not, either orientation (guard `0 < dim`: see `C01.coupling_flow_lawful`) -/
theorem coupling_flow_change_of_variables (tf : List ℝ → Bij ℝ Unit ℝ) (htf : ∀ ps, (tf ps).Lawful univ univ)
    (hta : ∀ ps, (tf ps).LdAntisym univ) (dim : ℕ) (_hdim : 0 < dim) (key : ℕ → (List ℝ → List ℝ) × List ℕ) (n : ℕ) (invert : Bool)
    (hperm : ∀ i < n, PermKeyOK dim (key i).2) (base : VDist K ℝ) :
    let b := couplingFlowBij tf dim key n invert
    let d := couplingFlow tf dim key n invert base
    (∀ x c, d.logProb x c = base.logProb (b.inv x c) c + (b.invLd x c).2) ∧
    (∀ k c, d.sample k c = b.fwd (base.sample k c) c) ∧
    (∀ k c, d.sampleLp k c = (b.fwd (base.sampleLp k c).1 c, (base.sampleLp k c).2 - (b.fwdLd (base.sampleLp k c).1 c).2)) ∧
    (base.Consistent → (∀ k c, base.sample k c ∈ Vec dim) → d.Consistent) :=
  FlowsPf.flow_change_of_variables (FlowsPf.coupling_flow_lawful tf htf dim key n invert hperm)
    (FlowsPf.coupling_flow_ldAntisym tf htf hta dim key n invert hperm) base

theorem maf_flow_change_of_variables (tf : List ℝ → Bij ℝ Unit ℝ) (htf : ∀ ps, (tf ps).Lawful univ univ) (dim : ℕ) (_hdim : 0 < dim)
    (key : ℕ → MafNet ℝ × List ℕ) (n : ℕ) (invert : Bool)
    (hnet : ∀ i < n, (key i).1.WellShaped ∧ (key i).1.dim = dim) (hperm : ∀ i < n, PermKeyOK dim (key i).2)
    (base : VDist K ℝ) :
    let b := mafFlowBij tf dim key n invert
    let d := mafFlow tf dim key n invert base
    (∀ x c, d.logProb x c = base.logProb (b.inv x c) c + (b.invLd x c).2) ∧
    (∀ k c, d.sample k c = b.fwd (base.sample k c) c) ∧
    (∀ k c, d.sampleLp k c = (b.fwd (base.sampleLp k c).1 c, (base.sampleLp k c).2 - (b.fwdLd (base.sampleLp k c).1 c).2)) ∧
    (base.Consistent → (∀ k c, base.sample k c ∈ Vec dim) → d.Consistent) :=
  FlowsPf.flow_change_of_variables (FlowsPf.maf_flow_lawful tf htf dim key n invert hnet hperm)
    (FlowsPf.maf_flow_ldAntisym tf htf dim key n invert hnet hperm) base

theorem planar_flow_change_of_variables (dim : ℕ) {s : ℝ} (hs0 : 0 < s) (hs1 : s ≤ 1)
    (key : ℕ → (List ℝ → List ℝ) × List ℕ) (n : ℕ) (invert : Bool)
    (hpar : ∀ i < n, PlanarOK dim (key i).1) (hperm : ∀ i < n, PermKeyOK dim (key i).2) (base : VDist K ℝ) :
    let b := planarFlowBij dim s key n invert
    let d := planarFlow dim s key n invert base
    (∀ x c, d.logProb x c = base.logProb (b.inv x c) c + (b.invLd x c).2) ∧
    (∀ k c, d.sample k c = b.fwd (base.sample k c) c) ∧
    (∀ k c, d.sampleLp k c = (b.fwd (base.sampleLp k c).1 c, (base.sampleLp k c).2 - (b.fwdLd (base.sampleLp k c).1 c).2)) ∧
    (base.Consistent → (∀ k c, base.sample k c ∈ Vec dim) → d.Consistent) :=
  FlowsPf.flow_change_of_variables (FlowsPf.planar_flow_lawful dim hs0 hs1 key n invert hpar hperm)
    (FlowsPf.planar_flow_ldAntisym dim hs0 hs1 key n invert hpar hperm) base

theorem bnaf_flow_change_of_variables (dim depth bd : ℕ) (act : ℝ → ℝ) (hact : StrictMono act)
    (inverter : (List ℝ → List ℝ → List ℝ) → List ℝ → List ℝ → List ℝ)
    (key : ℕ → BnafNet ℝ × List ℕ) (n : ℕ) (invert : Bool)
    (hnet : ∀ i < n, NetLawful.BnafOK dim depth bd (key i).1.layers (key i).1.condLinear ∧
      InverterExact dim inverter (bnafTransform act (key i).1.layers (key i).1.condLinear))
    (hperm : ∀ i < n, PermKeyOK dim (key i).2) (base : VDist K ℝ) :
    let b := bnafFlowBij dim act inverter key n invert
    let d := bnafFlow dim act inverter key n invert base
    (∀ x c, d.logProb x c = base.logProb (b.inv x c) c + (b.invLd x c).2) ∧
    (∀ k c, d.sample k c = b.fwd (base.sample k c) c) ∧
    (∀ k c, d.sampleLp k c = (b.fwd (base.sampleLp k c).1 c, (base.sampleLp k c).2 - (b.fwdLd (base.sampleLp k c).1 c).2)) ∧
    (base.Consistent → (∀ k c, base.sample k c ∈ Vec dim) → d.Consistent) :=
  FlowsPf.flow_change_of_variables (FlowsPf.bnaf_flow_lawful dim depth bd act hact inverter key n invert hnet hperm)
    (FlowsPf.bnaf_flow_ldAntisym dim depth bd act hact inverter key n invert hnet hperm) base

theorem tri_spline_flow_ld_antisym (dim : ℕ) (m : ℝ) (key : ℕ → TriSplineNet ℝ × List ℕ) (n : ℕ) (invert : Bool)
    (hnet : ∀ i < n, TriSplineOK dim m (key i).1) (hperm : ∀ i < n, PermKeyOK dim (key i).2) :
    (triSplineFlowBij dim m key n invert).LdAntisym (Vec dim) :=
  FlowsPf.tri_spline_flow_ldAntisym dim m key n invert hnet hperm

theorem tri_spline_flow_change_of_variables (dim : ℕ) (m : ℝ) (key : ℕ → TriSplineNet ℝ × List ℕ) (n : ℕ) (invert : Bool)
    (hnet : ∀ i < n, TriSplineOK dim m (key i).1) (hperm : ∀ i < n, PermKeyOK dim (key i).2) (base : VDist K ℝ) :
    let b := triSplineFlowBij dim m key n invert
    let d := triSplineFlow dim m key n invert base
    (∀ x c, d.logProb x c = base.logProb (b.inv x c) c + (b.invLd x c).2) ∧
    (∀ k c, d.sample k c = b.fwd (base.sample k c) c) ∧
    (∀ k c, d.sampleLp k c = (b.fwd (base.sampleLp k c).1 c, (base.sampleLp k c).2 - (b.fwdLd (base.sampleLp k c).1 c).2)) ∧
    (base.Consistent → (∀ k c, base.sample k c ∈ Vec dim) → d.Consistent) :=
  FlowsPf.flow_change_of_variables (FlowsPf.tri_spline_flow_lawful dim m key n invert hnet hperm)
    (FlowsPf.tri_spline_flow_ldAntisym dim m key n invert hnet hperm) base

/-- what the `invert` flag does (the docstring's "True prioritises a faster `log_prob`"): with `invert = true` the
flow's `inverse_and_log_det` — the method `log_prob` calls — IS the layer stack's `transform_and_log_det` (one forward
pass through the layers), and `transform` — the method `sample` calls — is the stack's `inverse`; with `invert = false`
the other way round. -/
theorem coupling_flow_orientation (tf : List ℝ → Bij ℝ Unit ℝ) (dim : ℕ) (key : ℕ → (List ℝ → List ℝ) × List ℕ) (n : ℕ) :
    (couplingFlowBij tf dim key n true).invLd = (couplingFlowBij tf dim key n false).fwdLd ∧
    (couplingFlowBij tf dim key n true).fwd = (couplingFlowBij tf dim key n false).inv ∧
    (couplingFlowBij tf dim key n true).inv = (couplingFlowBij tf dim key n false).fwd ∧
    (couplingFlowBij tf dim key n true).fwdLd = (couplingFlowBij tf dim key n false).invLd :=
  ⟨rfl, rfl, rfl, rfl⟩

/-- non-vacuity: the 2-layer coupling flow on `ℝ³` of `C01.coupling_flow_instance` over ANY consistent base that
samples vectors of length 3 is consistent, in both orientations -/
theorem coupling_flow_instance (base : VDist K ℝ) (hc : base.Consistent) (hD : ∀ k c, base.sample k c ∈ Vec 3)
    (invert : Bool) : (couplingFlow defaultTransformer 3 couplingKeys 2 invert base).Consistent :=
  (coupling_flow_change_of_variables defaultTransformer defaultTransformer_lawful defaultTransformer_ldAntisym 3 (by norm_num)
    couplingKeys 2 invert couplingKeys_perm base).2.2.2 hc hD

end PremadeFlows

/-! ## Scan, REGENERATED (`Gen/JaxTransforms.lean`; meanings of `lax.scan` / `eqx.partition` / `eqx.combine`: `Model/JaxTrWorld.lean`) -/
section JaxTransformsGen
open GenJaxTr

/-- **change of variables through the generated `Scan`**: `Transformed(base, Scan(layers))` — the generated `Scan` methods, the
generated `AbstractTransformed` methods — returns with every sample the log-probability `log_prob` assigns to it, for any number of
layers that are lawful with antisymmetric log-dets on their stages (this is where a lost `reverse=True` in
`Scan.inverse_and_log_det` would show). -/
theorem gen_scan_transformed_consistent {X C K : Type} (base : Distn X C K ℝ) (s : JaxTr.Scan X C ℝ) {D E : Set X}
    (h : LogDet.ChainAll Bij.LdAntisym s.bijection.layers D E) (hc : base.Consistent) (hD : ∀ k c, base.sample k c ∈ D) :
    (Transformed.mk base s.toBij).toDist.Consistent :=
  Gen.transformed_consistent _ (JaxTrProofs.scan_lawful h.lawful) (JaxTrProofs.scan_ld_antisym h) hc hD

end JaxTransformsGen

/-! ## `triangular_spline_flow.make_layer`, REGENERATED (`Gen/Flows.lean`, translator `py2flows.FTr`; g25; see C01 `gen_tri_spline_make_layer_eq`) -/
section TriSplineGen
open Flows FlowsPf
variable {K : Type}

/-- `tri_spline_flow_ld_antisym` about the REGENERATED closure: the inverse pass of the flow whose layers are the generated
`make_layer` returns minus the forward log-det at the preimage — every number of layers, both orientations, every key -/
theorem gen_tri_spline_flow_ld_antisym {dim : ℕ} {m : ℝ} {knots : ℕ} {cond_dim : Option ℕ} {key : ℕ → TriSplineKey ℝ} {n : ℕ}
    (h : GenTriSplineKeysOK dim m knots cond_dim key n) (invert : Bool) :
    (genTriSplineFlowBij dim m knots cond_dim key n invert).LdAntisym (Vec dim) :=
  FlowsPf.gen_tri_spline_flow_ldAntisym h invert

/-- `tri_spline_flow_change_of_variables` about the regenerated closure and the generated `Transformed(base_dist, bijection)` -/
theorem gen_tri_spline_flow_change_of_variables {dim : ℕ} {m : ℝ} {knots : ℕ} {cond_dim : Option ℕ} {key : ℕ → TriSplineKey ℝ}
    {n : ℕ} (h : GenTriSplineKeysOK dim m knots cond_dim key n) (invert : Bool) (base : VDist K ℝ) :
    let b := genTriSplineFlowBij dim m knots cond_dim key n invert
    let d := genTriSplineFlow dim m knots cond_dim key n invert base
    (∀ x c, d.logProb x c = base.logProb (b.inv x c) c + (b.invLd x c).2) ∧
    (∀ k c, d.sample k c = b.fwd (base.sample k c) c) ∧
    (∀ k c, d.sampleLp k c = (b.fwd (base.sampleLp k c).1 c, (base.sampleLp k c).2 - (b.fwdLd (base.sampleLp k c).1 c).2)) ∧
    (base.Consistent → (∀ k c, base.sample k c ∈ Vec dim) → d.Consistent) :=
  FlowsPf.flow_change_of_variables (FlowsPf.gen_tri_spline_flow_lawful h invert) (FlowsPf.gen_tri_spline_flow_ldAntisym h invert) base

/-- non-vacuity: the 2-layer conditional generated flow of C01 `gen_tri_spline_flow_instance` over any consistent base that samples
vectors of length 3 is consistent, in both orientations -/
theorem gen_tri_spline_flow_cov_instance (base : VDist K ℝ) (hc : base.Consistent) (hD : ∀ k c, base.sample k c ∈ Vec 3)
    (invert : Bool) : (genTriSplineFlow 3 3 4 (some 2) genTriKeys 2 invert base).Consistent :=
  (gen_tri_spline_flow_change_of_variables genTriKeys_ok invert base).2.2.2 hc hD

end TriSplineGen

/-! ## `merge_transforms`, `shape`, `cond_shape` of `AbstractTransformed`, REGENERATED (`Gen/MergeGen.lean`, translated from
`distributions.py` on every run by `tools/py2lean/py2meth.py`, sheet `targets_merge.py`; objects and Python constructs:
`Model/MergeWorld.lean`; proofs: `Proofs/MergeGen.lean`) -/
section MergeGen
open Mw GenMerge MergeGen

/-- **the generated `merge_transforms`, exactly** (every nesting depth, every — possibly nested-chain — bijections): `self` when
the base is not an `AbstractTransformed`; otherwise `Transformed(root, Chain([b₁, …, bₙ]).merge_chains())` with the bijections
INNERMOST FIRST and `self.bijection` LAST, built by the regenerated constructors (whose exceptions are the only ones; the
`while` loop never runs out of fuel). -/
theorem gen_merge_transforms_eq {X C K α : Type} (t : TObj X C K α) :
    Transformed.mergeTransforms t =
      if !t.base_dist.isTransformed then .ok t else
        (Mw.mkChain t.toD.bijs).bind fun c =>
          (Chain.mergeChains c).bind fun c' => Mw.mkTransformed t.base_dist.root c'.toB :=
  MergeGen.mergeTransforms_eq t

/-- **generated `merge_transforms` = the hand model `mergeTransforms`**: whenever it returns `m`, the base of `m` is the
innermost distribution (not an `AbstractTransformed`) and `m` — evaluated through the generated `AbstractTransformed` methods and
the generated `Chain` — is `mergeTransforms root [b₁, …, bₙ]` -/
theorem gen_merge_transforms_model {X C K : Type} (t m : TObj X C K ℝ) (h : Transformed.mergeTransforms t = .ok m) :
    m.base_dist = t.toD.root ∧ m.base_dist.isTransformed = false ∧
    m.toD.toDistn = mergeTransforms t.toD.root.toDistn (t.toD.bijs.map B.toBij) :=
  MergeGen.mergeTransforms_model t m h

/-- **generated `merge_transforms` never changes the distribution** (every nesting depth): same `_log_prob`, `_sample`,
`_sample_and_log_prob` as the nested distribution -/
theorem gen_merge_transforms_sem {X C K : Type} (t m : TObj X C K ℝ) (h : Transformed.mergeTransforms t = .ok m) :
    t.toD.toDistn.Equiv m.toD.toDistn := MergeGen.mergeTransforms_sem t m h

/-- … spelled out for `log_prob`: the merged distribution assigns every point the nested distribution's log-density -/
theorem gen_merge_transforms_log_prob {X C K : Type} (t m : TObj X C K ℝ) (h : Transformed.mergeTransforms t = .ok m)
    (x : X) (c : C) : m.toD.toDistn.logProb x c = t.toD.toDistn.logProb x c :=
  ((MergeGen.mergeTransforms_sem t m h).logProb x c).symm

/-- the distribution objects compute the nested change of variables of C03 (`nestTransformed` over the innermost base) -/
theorem gen_nested_object_sem {X C K : Type} (d : D X C K ℝ) :
    d.toDistn = nestTransformed d.root.toDistn (d.bijs.map B.toBij) := MergeGen.toDistn_eq_nest d

/-- **generated `cond_shape`** = the regenerated `merge_cond_shapes` of `(bijection.cond_shape, base_dist.cond_shape)` -/
theorem gen_transformed_cond_shape {X C K α : Type} (t : TObj X C K α) (cd : Option PyShape.Shape)
    (hcd : t.base_dist.cond_shape = .ok cd) :
    Transformed.condShape t = Mw.liftPy (GenCtors.mergeCondShapes [t.bijection.cond_shape, cd]) ∧
    Transformed.condShape t = t.toD.cond_shape := by
  refine ⟨?_, MergeGen.condShape_dispatch t⟩
  rw [MergeGen.condShape_eq, hcd]; rfl

/-- `merge_cond_shapes` of the two sides, every case: `None` is neutral, equal shapes merge, different shapes are a ValueError -/
theorem gen_transformed_cond_shape_cases (a b : Option PyShape.Shape) :
    GenCtors.mergeCondShapes [a, b] =
      match a, b with
      | none, none => .ok none
      | some s, none => .ok (some s)
      | none, some s => .ok (some s)
      | some s, some s' => if s = s' then .ok (some s) else .error .valueError := MergeGen.mergeCond_pair a b

/-- **the scalar condition shape `()` is not "falsy"**: a conditional base with `cond_shape == ()` under an unconditional
bijection (and the other way round) has `cond_shape == ()`, not `None` -/
theorem gen_transformed_cond_shape_scalar_instance {X C K α : Type} (d : Distn X C K α) (b : Bij X C α) (s : PyShape.Shape) :
    Transformed.condShape (⟨.base d s (some []), .leaf b s none⟩ : TObj X C K α) = .ok (some []) ∧
    Transformed.condShape (⟨.base d s none, .leaf b s (some [])⟩ : TObj X C K α) = .ok (some []) ∧
    Transformed.condShape (⟨.base d s none, .leaf b s none⟩ : TObj X C K α) = .ok none ∧
    Transformed.condShape (⟨.transformed (.base d s (some [])) (.leaf b s none), .leaf b s none⟩ : TObj X C K α) = .ok (some []) := by
  refine ⟨?_, ?_, ?_, ?_⟩ <;> simp [MergeGen.condShape_eq, D.cond_shape, B.cond_shape, MergeGen.mergeCond_pair, Mw.liftPy, Except.bind]

/-- the generated `shape` property is the base distribution's shape, at every nesting level the innermost one's -/
theorem gen_transformed_shape {X C K α : Type} (t : TObj X C K α) :
    Transformed.shape t = t.base_dist.shape ∧ Transformed.shape t = t.toD.root.shape := by
  refine ⟨rfl, ?_⟩
  show t.base_dist.shape = t.base_dist.root.shape
  induction t.base_dist with
  | base d s c => rfl
  | transformed d b ih => simpa [D.shape, D.root] using ih

/-- non-vacuity by kernel evaluation at ℤ: `Transformed(Transformed(Transformed(base, x+1), 2x), Chain([x+3, Chain([−x, Chain([2x])])]))`
— three levels, non-commuting bijections, a doubly nested chain.  `merge_transforms()` returns a distribution over the root with a
flat chain of 5 members, and `log_prob(20)`, `sample(5)`, `sample_and_log_prob(5)` equal the nested distribution's
(`((5+1)·2+3)·(−1)·2 = −30`; a collection order other than innermost-first gives other numbers). -/
theorem gen_merge_transforms_instance :
    Inst.summary Inst.t3 = some (-11047, -30, (-30, -11086), 5, false, false) ∧
    ((Inst.t3.toD.toDistn).logProb 20 (), (Inst.t3.toD.toDistn).sample 5 (), (Inst.t3.toD.toDistn).sampleLp 5 ())
      = (-11047, -30, (-30, -11086)) := ⟨by decide, by decide⟩

/-- **`cond_shape` of a nested distribution built by the (regenerated) constructors never raises**: it is the
`merge_cond_shapes` of the innermost base's and all the bijections' condition shapes -/
theorem gen_transformed_cond_shape_total {X C K α : Type} (d : D X C K α) (h : MergeGen.WFD d) :
    ∃ r, D.cond_shape d = .ok r ∧ MergeGen.Merges (MergeGen.rootCond d :: d.bijs.map B.cond_shape) r :=
  MergeGen.condShape_wfd d h

/-- **`merge_transforms` returns** on every nested distribution built by the constructors (every `Transformed` node passed the
regenerated `__check_init__`, every `Chain` inside a bijection carries the fields the regenerated `Chain.__init__` computes) whose
bijections declare one common shape — every nesting depth.  The shape hypothesis is forced: `Transformed` never compares
`bijection.shape` with `base_dist.shape` (real code: `Transformed(Transformed(StandardNormal((2,)), Exp((2,))), Exp(()))`
constructs; its `log_prob` and `merge_transforms()` raise ValueError). -/
theorem gen_merge_transforms_returns {X C K α : Type} (t : TObj X C K α) (h : MergeGen.WFD t.toD) (s : PyShape.Shape)
    (hs : ∀ b ∈ t.toD.bijs, b.shape = s) : ∃ m, Transformed.mergeTransforms t = .ok m :=
  MergeGen.mergeTransforms_wf t h s hs

/-- non-vacuity of the hypotheses of `gen_merge_transforms_returns`: the three-level object of `gen_merge_transforms_instance` -/
theorem gen_merge_transforms_returns_instance :
    MergeGen.WF Inst.nestedChain.toB ∧ MergeGen.WFD Inst.t3.toD ∧ (∀ b ∈ Inst.t3.toD.bijs, b.shape = []) := by
  have hwf : MergeGen.WF Inst.nestedChain.toB := by
    simp [Inst.nestedChain, ChainObj.toB, MergeGen.WF, MergeGen.WFL, MergeGen.Merges, Inst.shift, Inst.neg, Inst.dbl, B.shape,
      B.cond_shape]
  refine ⟨hwf, ⟨⟨⟨trivial, trivial, ⟨_, rfl⟩⟩, trivial, ⟨_, rfl⟩⟩, hwf, ⟨_, rfl⟩⟩, ?_⟩
  intro b hb
  simp [Inst.t3, TObj.toD, D.bijs] at hb
  rcases hb with rfl | rfl | rfl <;> rfl

end MergeGen

/-! ## Audit (g27): non-vacuity instances for hypothesis sets that had none -/
section Audit
open Masks Flows FlowsPf

/-- a concrete (conditional) base: key `k : ℝ`, sample `(k, k + |c|, 2k)` in `ℝ³`, log-density `-(Σ x)` shifted by the condition's
length — neither constant nor condition-independent.  Its `sample_and_log_prob` is the generated default. -/
noncomputable def auditBase3 : VDist ℝ ℝ :=
  (DistCore.mk (fun k c => [k, k + (c.length : ℝ), 2 * k]) (fun x c => -(x.sum) + (c.length : ℝ))).toDist

noncomputable def auditBase2 : VDist ℝ ℝ :=
  (DistCore.mk (fun k c => [k, k + (c.length : ℝ)]) (fun x c => -(x.sum) + (c.length : ℝ))).toDist

theorem auditBase3_ok : auditBase3.Consistent ∧ ∀ k c, auditBase3.sample k c ∈ Vec 3 :=
  ⟨by unfold auditBase3; exact default_sample_and_log_prob_consistent _, fun _ _ => by simp [auditBase3, Vec, DistCore.toDist]⟩

theorem auditBase2_ok : auditBase2.Consistent ∧ ∀ k c, auditBase2.sample k c ∈ Vec 2 :=
  ⟨by unfold auditBase2; exact default_sample_and_log_prob_consistent _, fun _ _ => by simp [auditBase2, Vec, DistCore.toDist]⟩

/-- the pre-existing `coupling_flow_instance` still ASSUMES a consistent base sampling in `Vec 3`; here the whole hypothesis set
(`base.Consistent`, `hD`, `PermKeyOK`, transformer lawful + antisymmetric) is closed on concrete objects, both orientations. -/
theorem coupling_flow_audit_instance (invert : Bool) :
    (couplingFlow defaultTransformer 3 couplingKeys 2 invert auditBase3).Consistent :=
  coupling_flow_instance auditBase3 auditBase3_ok.1 auditBase3_ok.2 invert

/-- the other four factories: every hypothesis of `maf_/planar_/bnaf_/tri_spline_flow_change_of_variables` jointly satisfied by
concrete non-trivial objects (3-layer MAF, 2-layer planar with slope 1/2, 2-layer BNAF with an exact inverter, 3-layer
triangular-spline flow), over the concrete base, both orientations. -/
theorem flows_audit_instance (invert : Bool) :
    (mafFlow defaultTransformer 2 (fun _ => (MasksPf.mafExample, [])) 3 invert auditBase2).Consistent ∧
    (planarFlow 2 (1 / 2) (fun _ => (planarParams, [])) 2 invert auditBase2).Consistent ∧
    (bnafFlow 2 (fun z => z + z) (choiceInverter 2) (fun _ => (bnafNet, [])) 2 invert auditBase2).Consistent ∧
    (triSplineFlow 2 3 (fun _ => (triSplineNet, [])) 3 invert auditBase2).Consistent := by
  have hp : ∀ (n : ℕ), ∀ i < n, PermKeyOK 2 ([] : List ℕ) := fun _ _ _ _ h2 => absurd rfl h2
  have hact : StrictMono (fun z : ℝ => z + z) := fun a b h => by simp only; linarith
  refine ⟨?_, ?_, ?_, ?_⟩
  · exact (maf_flow_change_of_variables defaultTransformer defaultTransformer_lawful 2 (by norm_num) _ 3 invert
      (fun _ _ => ⟨mafExample_wellShaped, rfl⟩) (hp 3) auditBase2).2.2.2 auditBase2_ok.1 auditBase2_ok.2
  · exact (planar_flow_change_of_variables 2 (by norm_num) (by norm_num) _ 2 invert (fun _ _ => planarParams_ok) (hp 2)
      auditBase2).2.2.2 auditBase2_ok.1 auditBase2_ok.2
  · exact (bnaf_flow_change_of_variables 2 1 1 _ hact _ _ 2 invert (fun _ _ => ⟨NetLawful.bnafExample_ok, bnafNet_exact⟩) (hp 2)
      auditBase2).2.2.2 auditBase2_ok.1 auditBase2_ok.2
  · exact (tri_spline_flow_change_of_variables 2 3 _ 3 invert (fun _ _ => triSplineNet_ok) (hp 3) auditBase2).2.2.2
      auditBase2_ok.1 auditBase2_ok.2

/-- `nested_consistent` / `merge_transforms_sem` on a concrete 2-level nesting `Transformed(Transformed(base, Affine(1,-2)), LeakyTanh 3)`
over a concrete scalar base; and the typed single-step theorem on `Exp` (range `(0,∞)`, which `nested_consistent` does NOT cover). -/
noncomputable def auditBase1 : Distn ℝ Unit ℝ ℝ := (DistCore.mk (fun k _ => k) (fun x _ => -(x * x))).toDist

theorem nested_audit_instance :
    (nestTransformed auditBase1 [((Affine.mk 1 (-2) : Affine ℝ).toBij : Bij ℝ Unit ℝ), (LeakyTanh.init 3 : LeakyTanh ℝ).toBij]).Consistent ∧
    (mergeTransforms auditBase1 [((Affine.mk 1 (-2) : Affine ℝ).toBij : Bij ℝ Unit ℝ), (LeakyTanh.init 3 : LeakyTanh ℝ).toBij]).Consistent ∧
    (Transformed.mk auditBase1 (Exp.toBij : Bij ℝ Unit ℝ)).toDist.Consistent := by
  have h1 : (nestTransformed auditBase1 [((Affine.mk 1 (-2) : Affine ℝ).toBij : Bij ℝ Unit ℝ), (LeakyTanh.init 3 : LeakyTanh ℝ).toBij]).Consistent := by
    apply nested_consistent _ (default_sample_and_log_prob_consistent _)
    intro b hb
    simp only [List.mem_cons, List.mem_nil_iff, or_false] at hb
    rcases hb with rfl | rfl
    · exact ⟨Leaves.affine_lawful _ (by norm_num), LogDet.affine_ld_antisym _⟩
    · exact ⟨Leaves.leakytanh_lawful (Leaves.leaky_init_wf (by norm_num)), LogDet.leakytanh_ld_antisym (by norm_num)⟩
  refine ⟨h1, ?_, ?_⟩
  · intro k c
    have e := merge_transforms_sem auditBase1 [((Affine.mk 1 (-2) : Affine ℝ).toBij : Bij ℝ Unit ℝ), (LeakyTanh.init 3 : LeakyTanh ℝ).toBij]
    rw [← e.sampleLp, ← e.sample, ← e.logProb]
    exact h1 k c
  · exact sample_and_log_prob_consistent _ Leaves.exp_lawful LogDet.exp_ld_antisym (default_sample_and_log_prob_consistent _)
      (fun _ _ => trivial)

/-- `gen_scan_transformed_consistent`: `ChainAll LdAntisym`, `hc`, `hD` jointly satisfiable (Scan of two affine layers, one of negative scale). -/
theorem gen_scan_transformed_audit_instance :
    (Transformed.mk auditBase1
      (JaxTr.scanOfLayers [((Affine.mk 1 (-2) : Affine ℝ).toBij : Bij ℝ Unit ℝ), (Affine.mk (1/2) 4 : Affine ℝ).toBij]).toBij).toDist.Consistent :=
  gen_scan_transformed_consistent (D := univ) (E := univ) auditBase1 _
    (.cons (Leaves.affine_lawful _ (by norm_num)) (LogDet.affine_ld_antisym _)
      (.cons (Leaves.affine_lawful _ (by norm_num)) (LogDet.affine_ld_antisym _) (.nil _)))
    (default_sample_and_log_prob_consistent _) (fun _ _ => trivial)

end Audit

end C03
