import Flowjaxv.Proofs.DistTheory
import Flowjaxv.Proofs.Leaves
/-!
# C03 — transformed densities obey change of variables on both evaluation paths

About the GENERATED `AbstractTransformed._log_prob / _sample / _sample_and_log_prob`
(`Gen/Dist.lean`) and the generated `Chain` (`Gen/Combinators.lean`).
-/
open Gen Set

namespace C03

/-- `log_prob(x)` = base log-density at the inverse image of `x` + the inverse log-determinant;
the condition is passed to both the bijection and the base. -/
theorem transformed_log_prob {X C K : Type} (t : Transformed X C K ℝ) {D E : Set X}
    (hb : t.bijection.Lawful D E) (x : X) (c : C) :
    t.toDist.logProb x c
      = t.base_dist.logProb (t.bijection.inv x c) c + (t.bijection.invLd x c).2 := by
  rw [transformed_logProb, hb.invLd_fst]

/-- a sample drawn with a key is the bijection applied to the base sample for that key -/
theorem transformed_sample {X C K : Type} (t : Transformed X C K ℝ) (k : K) (c : C) :
    t.toDist.sample k c = t.bijection.fwd (t.base_dist.sample k c) c := Gen.transformed_sample t k c

/-- the fast path: sample = forward image of the base sample, log-prob = base log-prob − forward log-det -/
theorem transformed_sample_and_log_prob {X C K : Type} (t : Transformed X C K ℝ) {D E : Set X}
    (hb : t.bijection.Lawful D E) (k : K) (c : C) :
    t.toDist.sampleLp k c
      = (t.bijection.fwd (t.base_dist.sampleLp k c).1 c,
         (t.base_dist.sampleLp k c).2 - (t.bijection.fwdLd (t.base_dist.sampleLp k c).1 c).2) := by
  rw [transformed_sampleLp, hb.fwdLd_fst]

/-- the log-probability returned together with a sample equals `log_prob` evaluated at that sample
(needs exactly `inverse(transform z) = z` and `inverse log-det at transform z = − forward log-det at z`) -/
theorem sample_and_log_prob_consistent {X C K : Type} (t : Transformed X C K ℝ) {D E : Set X}
    (hb : t.bijection.Lawful D E) (ha : t.bijection.LdAntisym D)
    (hc : t.base_dist.Consistent) (hD : ∀ k c, t.base_dist.sample k c ∈ D) :
    t.toDist.Consistent := Gen.transformed_consistent t hb ha hc hD

/-- the default `_sample_and_log_prob` of a non-transformed distribution is consistent by construction -/
theorem default_sample_and_log_prob_consistent {X C K : Type} (d : DistCore X C K ℝ) :
    d.toDist.Consistent := Gen.core_consistent d

/-- consistency propagates through any depth of nesting (by iterating the previous theorem) -/
theorem nested_consistent {X C K : Type} (base : Distn X C K ℝ) (hc : base.Consistent)
    (bs : List (Bij X C ℝ))
    (hall : ∀ b ∈ bs, b.Lawful univ univ ∧ b.LdAntisym univ) :
    (nestTransformed base bs).Consistent := by
  induction bs using List.reverseRecOn with
  | nil => simpa [nestTransformed] using hc
  | append_singleton bs b ih =>
    have hn : nestTransformed base (bs ++ [b]) = (Transformed.mk (nestTransformed base bs) b).toDist := by
      simp [nestTransformed, List.foldl_append]
    rw [hn]
    have hb := hall b (by simp)
    exact Gen.transformed_consistent _ hb.1 hb.2
      (ih (fun b' hb' => hall b' (List.mem_append_left _ hb'))) (fun _ _ => trivial)

/-- `merge_transforms` never changes the distribution, for any nesting depth -/
theorem merge_transforms_sem {X C K : Type} (base : Distn X C K ℝ) (bs : List (Bij X C ℝ)) :
    (nestTransformed base bs).Equiv (mergeTransforms base bs) := Gen.merge_transforms_sem base bs

/-- `merge_chains` (one flattening pass, iterated by the code until flat) never changes the bijection -/
theorem merge_chains_step {X C : Type} (items : List (Item X C)) :
    (Chain.mk (items.map Item.toBij)).toBij.Equiv (Chain.mk (items.flatMap Item.flat)).toBij :=
  Gen.merge_chains_step items

/-- worked instance: a Normal(1, 2) built as Transformed(base, Affine(1,2)) over any consistent base is consistent -/
theorem normal_instance {K : Type} (base : Distn ℝ Unit K ℝ) (hc : base.Consistent) :
    (Transformed.mk base ((Affine.mk 1 2 : Affine ℝ).toBij)).toDist.Consistent := by
  refine Gen.transformed_consistent _ (Leaves.affine_lawful _ (by norm_num)) ?_ hc (fun _ _ => trivial)
  intro x _ c
  simp [Affine.toBij, Affine.inverse_and_log_det, Affine.transform_and_log_det]

end C03
