import Flowjaxv.Proofs.Train
/-!
# C16 — training loops stop and select parameters as documented

Property theorems only (lemmas in `Proofs/Train.lean`).  The statements are about the hand-written
model `Model/Train.lean` (`fitToData`, `fitToVariationalTarget`, `countFruitless`), which the
correspondence `tools/props/c16.py` ties to the real loops history by history.

Conventions: `val e` / `trn e` / `loss i` are the scripted losses of epoch `e` / step `i` (0-based);
parameters are identified by the number of epochs (`fit_to_data`) or steps (variational loop) of
updates they have received — `0` is the initial `dist`.  "Pairwise distinct" is
`∀ i j < N, val i = val j → i = j`.  `Train.Stops val p e` is the documented rule "after epoch `e`,
more than `p` epochs have passed since the best validation loss":
`∃ m ≤ e, (∀ j ≤ e, val m ≤ val j) ∧ p < e - m`.
-/
open Train

namespace C16

/-- `count_fruitless(losses) = len − argmin − 1` where `argmin` is in range, a minimum, and the first
index attaining it (as `jnp.argmin`), for every non-empty list. -/
theorem count_fruitless_spec (l : List Loss) (hne : l ≠ []) :
    countFruitless l = l.length - 1 - argmin l ∧
    ∃ h : argmin l < l.length, (∀ j (hj : j < l.length), l[argmin l] ≤ l[j]) ∧
      (∀ j (hj : j < argmin l), l[argmin l] < l[j]'(Nat.lt_trans hj h)) :=
  ⟨by simp only [countFruitless]; omega, argmin_spec l hne⟩

/-- at most `max_epochs` epochs are run (any losses, ties included) -/
theorem fit_epochs_le_max (trn val : Nat → Loss) (maxEpochs p : Nat) (rb : Bool) :
    (fitToData trn val maxEpochs p rb).epochs ≤ maxEpochs :=
  (fitToData_spec trn val maxEpochs p).2.2.1

/-- For pairwise-distinct validation losses: no epoch before the last one run satisfied the documented
stopping rule (never stops early); if fewer than `max_epochs` epochs were run then at least one was run
and the last epoch run satisfies the rule (stops at the FIRST such epoch); hence if no epoch satisfies
the rule all `max_epochs` epochs are run. -/
theorem fit_stops_exactly (trn val : Nat → Loss) (maxEpochs p : Nat) (rb : Bool)
    (hd : ∀ i j, i < maxEpochs → j < maxEpochs → val i = val j → i = j) :
    (∀ e, e + 1 < (fitToData trn val maxEpochs p rb).epochs → ¬ Stops val p e) ∧
    ((fitToData trn val maxEpochs p rb).epochs < maxEpochs →
      0 < (fitToData trn val maxEpochs p rb).epochs ∧
      Stops val p ((fitToData trn val maxEpochs p rb).epochs - 1)) ∧
    ((∀ e, e < maxEpochs → ¬ Stops val p e) → (fitToData trn val maxEpochs p rb).epochs = maxEpochs) := by
  obtain ⟨_, hpos, hle, hno, hstop⟩ := fitToData_spec trn val maxEpochs p
  have hE : (fitToData trn val maxEpochs p rb).epochs = (fitLoop trn val p maxEpochs ⟨0, [], [], 0⟩).epochs := rfl
  rw [hE]
  have conv : ∀ e, e < maxEpochs → (StopTest val p e ↔ Stops val p e) := fun e he =>
    stopTest_iff_stops val p e (fun i j hi hj => hd i j (by omega) (by omega))
  have part2 : (fitLoop trn val p maxEpochs ⟨0, [], [], 0⟩).epochs < maxEpochs →
      0 < (fitLoop trn val p maxEpochs ⟨0, [], [], 0⟩).epochs ∧
      Stops val p ((fitLoop trn val p maxEpochs ⟨0, [], [], 0⟩).epochs - 1) := fun hlt =>
    have h0 := hpos (by omega)
    ⟨h0, (conv _ (by omega)).mp (hstop hlt)⟩
  refine ⟨fun e he hs => hno e he ((conv e (by omega)).mpr hs), part2, fun hnever => ?_⟩
  apply Classical.byContradiction
  intro hne
  have hlt : (fitLoop trn val p maxEpochs ⟨0, [], [], 0⟩).epochs < maxEpochs := by omega
  exact hnever _ (by omega) (part2 hlt).2

/-- one train loss and one validation loss is recorded per epoch run, in order (any losses) -/
theorem fit_losses_recorded (trn val : Nat → Loss) (maxEpochs p : Nat) (rb : Bool) :
    (fitToData trn val maxEpochs p rb).train = (List.range (fitToData trn val maxEpochs p rb).epochs).map trn ∧
    (fitToData trn val maxEpochs p rb).val = (List.range (fitToData trn val maxEpochs p rb).epochs).map val ∧
    (fitToData trn val maxEpochs p rb).train.length = (fitToData trn val maxEpochs p rb).epochs ∧
    (fitToData trn val maxEpochs p rb).val.length = (fitToData trn val maxEpochs p rb).epochs := by
  obtain ⟨hinv, _⟩ := fitToData_spec trn val maxEpochs p
  have h1 : (fitToData trn val maxEpochs p rb).train = _ := hinv.htrain
  have h2 : (fitToData trn val maxEpochs p rb).val = _ := hinv.hval
  refine ⟨h1, h2, ?_, ?_⟩
  · rw [h1]; simp; rfl
  · rw [h2]; simp; rfl

/-- `return_best=True`, at least one epoch allowed, pairwise-distinct validation losses: the returned
parameters are those after epoch `m` (`m + 1` epochs of updates — the parameters with which the
validation loss of epoch `m` was evaluated), where epoch `m` has the strictly smallest validation loss
of all epochs run. -/
theorem fit_returns_best (trn val : Nat → Loss) (maxEpochs p : Nat) (hpos : 0 < maxEpochs)
    (hd : ∀ i j, i < maxEpochs → j < maxEpochs → val i = val j → i = j) :
    ∃ m, m < (fitToData trn val maxEpochs p true).epochs ∧
      (fitToData trn val maxEpochs p true).returned = m + 1 ∧
      ∀ j, j < (fitToData trn val maxEpochs p true).epochs → j ≠ m → val m < val j := by
  obtain ⟨hinv, hp, hle, _⟩ := fitToData_spec trn val maxEpochs p
  obtain ⟨m, hm, hb, hmin, _⟩ := hinv.hbest (hp hpos)
  refine ⟨m, hm, hb, fun j hj hne => ?_⟩
  have hj' : j < (fitLoop trn val p maxEpochs ⟨0, [], [], 0⟩).epochs := hj
  rcases Int.lt_or_eq_of_le (hmin j hj') with h | h
  · exact h
  · exact absurd (hd m j (Nat.lt_of_lt_of_le hm hle) (Nat.lt_of_lt_of_le hj' hle) h) (fun e => hne e.symm)

/-- `return_best=False`: the parameters after the last epoch run (any losses) -/
theorem fit_returns_last (trn val : Nat → Loss) (maxEpochs p : Nat) :
    (fitToData trn val maxEpochs p false).returned = (fitToData trn val maxEpochs p false).epochs := rfl

/-- `max_epochs = 0`: nothing is run, nothing recorded, the initial parameters are returned -/
theorem fit_zero_epochs (trn val : Nat → Loss) (p : Nat) (rb : Bool) :
    fitToData trn val 0 p rb = ⟨0, 0, [], []⟩ := by
  cases rb <;> rfl

/-- exactly the requested number of steps (any losses) -/
theorem vi_steps_exact (loss : Nat → Loss) (steps : Nat) (rb : Bool) :
    (fitToVariationalTarget loss steps rb).steps = steps := by
  have := (viLoop_spec loss steps ⟨0, [], 0⟩ (viInv_init loss)).2
  simp only [Nat.zero_add] at this
  exact this

/-- one loss per step, in order: the loss of step `i` is the loss at the parameters before update `i` -/
theorem vi_losses_recorded (loss : Nat → Loss) (steps : Nat) (rb : Bool) :
    (fitToVariationalTarget loss steps rb).losses = (List.range steps).map loss ∧
    (fitToVariationalTarget loss steps rb).losses.length = steps := by
  obtain ⟨hinv, hs⟩ := viLoop_spec loss steps ⟨0, [], 0⟩ (viInv_init loss)
  have h : (fitToVariationalTarget loss steps rb).losses = _ := hinv.hlosses
  rw [hs] at h; simp only [Nat.zero_add] at h
  exact ⟨h, by rw [h]; simp⟩

/-- `return_best=False`: the parameters after all `steps` updates -/
theorem vi_returns_last (loss : Nat → Loss) (steps : Nat) :
    (fitToVariationalTarget loss steps false).returned = steps :=
  vi_steps_exact loss steps false

/-- `return_best=True`, pairwise-distinct losses: the returned parameters are the PRE-update parameters
of the step `m` with the strictly smallest recorded loss — the parameters at which that loss was
evaluated (`returned = m`, not `m + 1`).  With `steps = 0` the initial parameters are returned. -/
theorem vi_returns_best (loss : Nat → Loss) (steps : Nat)
    (hd : ∀ i j, i < steps → j < steps → loss i = loss j → i = j) :
    (0 < steps → (fitToVariationalTarget loss steps true).returned < steps ∧
      ∀ j, j < steps → j ≠ (fitToVariationalTarget loss steps true).returned →
        loss (fitToVariationalTarget loss steps true).returned < loss j) ∧
    (steps = 0 → (fitToVariationalTarget loss steps true).returned = 0) := by
  obtain ⟨hinv, hs⟩ := viLoop_spec loss steps ⟨0, [], 0⟩ (viInv_init loss)
  simp only [Nat.zero_add] at hs
  constructor
  · intro hpos
    obtain ⟨hb, hmin, _⟩ := hinv.hbest (by omega)
    rw [hs] at hb hmin
    refine ⟨hb, fun j hj hne => ?_⟩
    rcases Int.lt_or_eq_of_le (hmin j hj) with h | h
    · exact h
    · exact absurd (hd _ j hb hj h) (fun e => hne e.symm)
  · intro h0; subst h0; rfl

/-- The OLD behaviour (before commit 0ab1adc: `best_params` assigned the POST-update parameters)
violates `vi_returns_best`: on the history `[1, 4, 16, 64]` it returns the parameters after one update,
at which the loss `4` — not the minimum `1` — was evaluated. -/
theorem vi_postupdate_variant_violates :
    (∀ i, i < 4 → ∀ j, j < 4 → (4 : Loss) ^ i = 4 ^ j → i = j) ∧
    fitToVariationalTargetPostUpdate (fun i => 4 ^ i) 4 true = ⟨4, 1, [1, 4, 16, 64]⟩ ∧
    ¬ (∀ j, j < 4 → j ≠ (fitToVariationalTargetPostUpdate (fun i => 4 ^ i) 4 true).returned →
        (4 : Loss) ^ (fitToVariationalTargetPostUpdate (fun i => 4 ^ i) 4 true).returned < 4 ^ j) := by
  decide

/-! ### non-vacuity instances -/

/-- `[5,3,4,6,7,1]`, patience 1, 6 epochs allowed: distinct losses, stops after 4 epochs (epoch 3 is the
first with 3 − 1 > 1), returns the parameters after epoch 1 (two epochs of updates). -/
theorem fit_instance :
    (∀ i, i < 6 → ∀ j, j < 6 → [5, 3, 4, 6, 7, 1].getD i (0 : Loss) = [5, 3, 4, 6, 7, 1].getD j 0 → i = j) ∧
    fitToData (fun e => e) (fun e => [5, 3, 4, 6, 7, 1].getD e 0) 6 1 true = ⟨4, 2, [0, 1, 2, 3], [5, 3, 4, 6]⟩ ∧
    Stops (fun e => [5, 3, 4, 6, 7, 1].getD e 0) 1 3 := by
  refine ⟨by decide, by decide, 1, by omega, ?_, by omega⟩
  intro j hj
  have : j = 0 ∨ j = 1 ∨ j = 2 ∨ j = 3 := by omega
  rcases this with h | h | h | h <;> subst h <;> decide

/-- the fixed variational loop on `[1,4,16,64]` returns the initial parameters (loss 1) -/
theorem vi_instance :
    fitToVariationalTarget (fun i => 4 ^ i) 4 true = ⟨4, 0, [1, 4, 16, 64]⟩ ∧
    fitToVariationalTarget (fun i => [3, 2, 1, 5].getD i 0) 4 true = ⟨4, 2, [3, 2, 1, 5]⟩ := by
  decide

end C16
