import Flowjaxv.Proofs.Train
import Flowjaxv.Proofs.TrainGen
/-!
# C16 — training loops stop and select parameters as documented

Property theorems only (lemmas in `Proofs/Train.lean`, `Proofs/TrainGen.lean`).  The first part is about the
hand-written model `Model/Train.lean` (`fitToData`, `fitToVariationalTarget`, `countFruitless`), which the
correspondence `tools/props/c16.py` ties to the real loops history by history; the second part ("The second
tie") proves the loops REGENERATED from the source (`Gen/TrainGen.lean`) equal to that model and restates the
claims on them.

Conventions: `val e` / `trn e` / `loss i` are the scripted losses of epoch `e` / step `i` (0-based);
parameters are identified by the number of epochs (`fit_to_data`) or steps (variational loop) of
updates they have received — `0` is the initial `dist`.  "Pairwise distinct" is
`∀ i j < N, val i = val j → i = j`.  `Train.Stops val p e` is the documented rule "after epoch `e`,
more than `p` epochs have passed since the best validation loss":
`∃ m ≤ e, (∀ j ≤ e, val m ≤ val j) ∧ p < e - m`.
-/
open Train

namespace C16

/-- `count_fruitless(losses) = len − argmin − 1` where `argmin` is in range, a minimum, and the first
index attaining it (as `jnp.argmin`), for every non-empty list. -/
theorem count_fruitless_spec (l : List Loss) (hne : l ≠ []) :
    countFruitless l = l.length - 1 - argmin l ∧
    ∃ h : argmin l < l.length, (∀ j (hj : j < l.length), l[argmin l] ≤ l[j]) ∧
      (∀ j (hj : j < argmin l), l[argmin l] < l[j]'(Nat.lt_trans hj h)) :=
  ⟨by simp only [countFruitless]; omega, argmin_spec l hne⟩

/-- at most `max_epochs` epochs are run (any losses, ties included) -/
theorem fit_epochs_le_max (trn val : Nat → Loss) (maxEpochs p : Nat) (rb : Bool) :
    (fitToData trn val maxEpochs p rb).epochs ≤ maxEpochs :=
  (fitToData_spec trn val maxEpochs p).2.2.1

/-- For pairwise-distinct validation losses: no epoch before the last one run satisfied the documented
stopping rule (never stops early); if fewer than `max_epochs` epochs were run then at least one was run
and the last epoch run satisfies the rule (stops at the FIRST such epoch); hence if no epoch satisfies
the rule all `max_epochs` epochs are run. -/
theorem fit_stops_exactly (trn val : Nat → Loss) (maxEpochs p : Nat) (rb : Bool)
    (hd : ∀ i j, i < maxEpochs → j < maxEpochs → val i = val j → i = j) :
    (∀ e, e + 1 < (fitToData trn val maxEpochs p rb).epochs → ¬ Stops val p e) ∧
    ((fitToData trn val maxEpochs p rb).epochs < maxEpochs →
      0 < (fitToData trn val maxEpochs p rb).epochs ∧
      Stops val p ((fitToData trn val maxEpochs p rb).epochs - 1)) ∧
    ((∀ e, e < maxEpochs → ¬ Stops val p e) → (fitToData trn val maxEpochs p rb).epochs = maxEpochs) := by
  obtain ⟨_, hpos, hle, hno, hstop⟩ := fitToData_spec trn val maxEpochs p
  have hE : (fitToData trn val maxEpochs p rb).epochs = (fitLoop trn val p maxEpochs ⟨0, [], [], 0⟩).epochs := rfl
  rw [hE]
  have conv : ∀ e, e < maxEpochs → (StopTest val p e ↔ Stops val p e) := fun e he =>
    stopTest_iff_stops val p e (fun i j hi hj => hd i j (by omega) (by omega))
  have part2 : (fitLoop trn val p maxEpochs ⟨0, [], [], 0⟩).epochs < maxEpochs →
      0 < (fitLoop trn val p maxEpochs ⟨0, [], [], 0⟩).epochs ∧
      Stops val p ((fitLoop trn val p maxEpochs ⟨0, [], [], 0⟩).epochs - 1) := fun hlt =>
    have h0 := hpos (by omega)
    ⟨h0, (conv _ (by omega)).mp (hstop hlt)⟩
  refine ⟨fun e he hs => hno e he ((conv e (by omega)).mpr hs), part2, fun hnever => ?_⟩
  apply Classical.byContradiction
  intro hne
  have hlt : (fitLoop trn val p maxEpochs ⟨0, [], [], 0⟩).epochs < maxEpochs := by omega
  exact hnever _ (by omega) (part2 hlt).2

/-- one train loss and one validation loss is recorded per epoch run, in order (any losses) -/
theorem fit_losses_recorded (trn val : Nat → Loss) (maxEpochs p : Nat) (rb : Bool) :
    (fitToData trn val maxEpochs p rb).train = (List.range (fitToData trn val maxEpochs p rb).epochs).map trn ∧
    (fitToData trn val maxEpochs p rb).val = (List.range (fitToData trn val maxEpochs p rb).epochs).map val ∧
    (fitToData trn val maxEpochs p rb).train.length = (fitToData trn val maxEpochs p rb).epochs ∧
    (fitToData trn val maxEpochs p rb).val.length = (fitToData trn val maxEpochs p rb).epochs := by
  obtain ⟨hinv, _⟩ := fitToData_spec trn val maxEpochs p
  have h1 : (fitToData trn val maxEpochs p rb).train = _ := hinv.htrain
  have h2 : (fitToData trn val maxEpochs p rb).val = _ := hinv.hval
  refine ⟨h1, h2, ?_, ?_⟩
  · rw [h1]; simp; rfl
  · rw [h2]; simp; rfl

/-- `return_best=True`, at least one epoch allowed, pairwise-distinct validation losses: the returned
parameters are those after epoch `m` (`m + 1` epochs of updates — the parameters with which the
validation loss of epoch `m` was evaluated), where epoch `m` has the strictly smallest validation loss
of all epochs run. -/
theorem fit_returns_best (trn val : Nat → Loss) (maxEpochs p : Nat) (hpos : 0 < maxEpochs)
    (hd : ∀ i j, i < maxEpochs → j < maxEpochs → val i = val j → i = j) :
    ∃ m, m < (fitToData trn val maxEpochs p true).epochs ∧
      (fitToData trn val maxEpochs p true).returned = m + 1 ∧
      ∀ j, j < (fitToData trn val maxEpochs p true).epochs → j ≠ m → val m < val j := by
  obtain ⟨hinv, hp, hle, _⟩ := fitToData_spec trn val maxEpochs p
  obtain ⟨m, hm, hb, hmin, _⟩ := hinv.hbest (hp hpos)
  refine ⟨m, hm, hb, fun j hj hne => ?_⟩
  have hj' : j < (fitLoop trn val p maxEpochs ⟨0, [], [], 0⟩).epochs := hj
  rcases Int.lt_or_eq_of_le (hmin j hj') with h | h
  · exact h
  · exact absurd (hd m j (Nat.lt_of_lt_of_le hm hle) (Nat.lt_of_lt_of_le hj' hle) h) (fun e => hne e.symm)

/-- `return_best=False`: the parameters after the last epoch run (any losses) -/
theorem fit_returns_last (trn val : Nat → Loss) (maxEpochs p : Nat) :
    (fitToData trn val maxEpochs p false).returned = (fitToData trn val maxEpochs p false).epochs := rfl

/-- `max_epochs = 0`: nothing is run, nothing recorded, the initial parameters are returned -/
theorem fit_zero_epochs (trn val : Nat → Loss) (p : Nat) (rb : Bool) :
    fitToData trn val 0 p rb = ⟨0, 0, [], []⟩ := by
  cases rb <;> rfl

/-- exactly the requested number of steps (any losses) -/
theorem vi_steps_exact (loss : Nat → Loss) (steps : Nat) (rb : Bool) :
    (fitToVariationalTarget loss steps rb).steps = steps := by
  have := (viLoop_spec loss steps ⟨0, [], 0⟩ (viInv_init loss)).2
  simp only [Nat.zero_add] at this
  exact this

/-- one loss per step, in order: the loss of step `i` is the loss at the parameters before update `i` -/
theorem vi_losses_recorded (loss : Nat → Loss) (steps : Nat) (rb : Bool) :
    (fitToVariationalTarget loss steps rb).losses = (List.range steps).map loss ∧
    (fitToVariationalTarget loss steps rb).losses.length = steps := by
  obtain ⟨hinv, hs⟩ := viLoop_spec loss steps ⟨0, [], 0⟩ (viInv_init loss)
  have h : (fitToVariationalTarget loss steps rb).losses = _ := hinv.hlosses
  rw [hs] at h; simp only [Nat.zero_add] at h
  exact ⟨h, by rw [h]; simp⟩

/-- `return_best=False`: the parameters after all `steps` updates -/
theorem vi_returns_last (loss : Nat → Loss) (steps : Nat) :
    (fitToVariationalTarget loss steps false).returned = steps :=
  vi_steps_exact loss steps false

/-- `return_best=True`, pairwise-distinct losses: the returned parameters are the PRE-update parameters
of the step `m` with the strictly smallest recorded loss — the parameters at which that loss was
evaluated (`returned = m`, not `m + 1`).  With `steps = 0` the initial parameters are returned. -/
theorem vi_returns_best (loss : Nat → Loss) (steps : Nat)
    (hd : ∀ i j, i < steps → j < steps → loss i = loss j → i = j) :
    (0 < steps → (fitToVariationalTarget loss steps true).returned < steps ∧
      ∀ j, j < steps → j ≠ (fitToVariationalTarget loss steps true).returned →
        loss (fitToVariationalTarget loss steps true).returned < loss j) ∧
    (steps = 0 → (fitToVariationalTarget loss steps true).returned = 0) := by
  obtain ⟨hinv, hs⟩ := viLoop_spec loss steps ⟨0, [], 0⟩ (viInv_init loss)
  simp only [Nat.zero_add] at hs
  constructor
  · intro hpos
    obtain ⟨hb, hmin, _⟩ := hinv.hbest (by omega)
    rw [hs] at hb hmin
    refine ⟨hb, fun j hj hne => ?_⟩
    rcases Int.lt_or_eq_of_le (hmin j hj) with h | h
    · exact h
    · exact absurd (hd _ j hb hj h) (fun e => hne e.symm)
  · intro h0; subst h0; rfl

/-- The OLD behaviour (before commit 0ab1adc: `best_params` assigned the POST-update parameters)
violates `vi_returns_best`: on the history `[1, 4, 16, 64]` it returns the parameters after one update,
at which the loss `4` — not the minimum `1` — was evaluated. -/
theorem vi_postupdate_variant_violates :
    (∀ i, i < 4 → ∀ j, j < 4 → (4 : Loss) ^ i = 4 ^ j → i = j) ∧
    fitToVariationalTargetPostUpdate (fun i => 4 ^ i) 4 true = ⟨4, 1, [1, 4, 16, 64]⟩ ∧
    ¬ (∀ j, j < 4 → j ≠ (fitToVariationalTargetPostUpdate (fun i => 4 ^ i) 4 true).returned →
        (4 : Loss) ^ (fitToVariationalTargetPostUpdate (fun i => 4 ^ i) 4 true).returned < 4 ^ j) := by
  decide

/-! ### non-vacuity instances -/

/-- `[5,3,4,6,7,1]`, patience 1, 6 epochs allowed: distinct losses, stops after 4 epochs (epoch 3 is the
first with 3 − 1 > 1), returns the parameters after epoch 1 (two epochs of updates). -/
theorem fit_instance :
    (∀ i, i < 6 → ∀ j, j < 6 → [5, 3, 4, 6, 7, 1].getD i (0 : Loss) = [5, 3, 4, 6, 7, 1].getD j 0 → i = j) ∧
    fitToData (fun e => e) (fun e => [5, 3, 4, 6, 7, 1].getD e 0) 6 1 true = ⟨4, 2, [0, 1, 2, 3], [5, 3, 4, 6]⟩ ∧
    Stops (fun e => [5, 3, 4, 6, 7, 1].getD e 0) 1 3 := by
  refine ⟨by decide, by decide, 1, by omega, ?_, by omega⟩
  intro j hj
  have : j = 0 ∨ j = 1 ∨ j = 2 ∨ j = 3 := by omega
  rcases this with h | h | h | h <;> subst h <;> decide

/-- the fixed variational loop on `[1,4,16,64]` returns the initial parameters (loss 1) -/
theorem vi_instance :
    fitToVariationalTarget (fun i => 4 ^ i) 4 true = ⟨4, 0, [1, 4, 16, 64]⟩ ∧
    fitToVariationalTarget (fun i => [3, 2, 1, 5].getD i 0) 4 true = ⟨4, 2, [3, 2, 1, 5]⟩ := by
  decide

/-! ## The second tie: the loops REGENERATED from the source

`Gen/TrainGen.lean` is produced on every run by `tools/py2lean/py2loop.py` from `train_utils.py`, `data_fit.py` and
`variational_fit.py` (`GenTrain.countFruitless`, `GenTrain.fitToData_loop1` = one epoch, `GenTrain.fitToData_exit` = the final
selection, `GenTrain.fitToData`, `GenTrain.fitToVariationalTarget_loop1`, …) over the library primitives of
`Model/TrainWorld.lean` (`W : World α π ω γ υ` = permutations, loss function, optimiser; `π` = parameters, abstract).
The theorems below (lemmas in `Proofs/TrainGen.lean`) show, for EVERY world, data set, key and configuration, that the
generated definitions are the hand model above — so the theorems above are statements about the code as it is now — and
restate the main claims directly on the generated functions.

Reading guide.  `TrainGen.fitData0 W key dist x condition vp` is the state before the first epoch; `TrainGen.dataAt W b d0 e`
the (key, parameters, optimiser state, data) after `e` un-stopped epochs; `TrainGen.valScript W b d0 e` / `trnScript` the
validation / train loss the run records in epoch `e` (the mean of the `loss_fn` values of that epoch's calls);
`TrainGen.viAt W ks d0 i` the (parameters, optimiser state) after `i` variational steps with keys `ks`,
`TrainGen.viScript W ks d0 i` the loss of step `i`. -/
section Generated
open TrainGen
variable {α π ω γ υ : Type} (W : World α π ω γ υ)

/-- the generated `count_fruitless` (`len(losses) - argmin - 1` over Python ints) is the hand model's on every non-empty
list; it raises exactly on `[]`; and the loop's comparison `count_fruitless(l) > max_patience` is the hand model's. -/
theorem gen_count_fruitless_eq (l : List Loss) :
    (l ≠ [] → GenTrain.countFruitless l = ((countFruitless l : Nat) : Int)) ∧
    (GenTrain.countFruitless_raises l = true ↔ l = []) ∧
    (∀ p : Nat, l ≠ [] → (GenTrain.countFruitless l > (p : Int) ↔ countFruitless l > p)) :=
  ⟨countFruitless_eq l, countFruitless_raises_iff l, fun p h => countFruitless_gt_iff l h p⟩

/-- **Stopping test and best-parameter bookkeeping of one generated epoch** (any unbroken loop state `s`): exactly one train
and one validation loss are appended; `best_params` becomes the parameters AFTER this epoch's updates iff the new validation
loss equals `min(losses["val"])`; otherwise the loop breaks iff `count_fruitless(losses["val"]) > max_patience` — the step of
`Train.fitLoop`.  A broken loop never changes its state again. -/
theorem gen_fit_stop_eq (p b : Nat) (s : GenTrain.FitToDataSt1 α π ω) (i : Int) :
    (s.brk = false → ∃ v t,
      (GenTrain.fitToData_loop1 W p b () s i).losses_val = s.losses_val ++ [v] ∧
      (GenTrain.fitToData_loop1 W p b () s i).losses_train = s.losses_train ++ [t] ∧
      (GenTrain.fitToData_loop1 W p b () s i).best_params =
        (if some v == listMin? (s.losses_val ++ [v]) then (GenTrain.fitToData_loop1 W p b () s i).params else s.best_params) ∧
      (GenTrain.fitToData_loop1 W p b () s i).brk =
        (!(some v == listMin? (s.losses_val ++ [v])) && decide (countFruitless (s.losses_val ++ [v]) > p))) ∧
    (s.brk = true → GenTrain.fitToData_loop1 W p b () s i = s) := by
  refine ⟨fun hs => ⟨(epochOut W b s.key s.params s.opt_state s.train_data s.val_data).vloss,
    (epochOut W b s.key s.params s.opt_state s.train_data s.val_data).tloss, ?_⟩, loop1_broken W _ _ s i⟩
  rw [loop1_eq W p b s i hs]
  exact ⟨rfl, rfl, rfl, rfl⟩

/-- the final selection as generated: `params = best_params if return_best else params`, and both loss lists are returned -/
theorem gen_fit_select_eq (rb : Bool) (s : GenTrain.FitToDataSt1 α π ω) :
    GenTrain.fitToData_exit rb () s = (if rb then s.best_params else s.params, (s.losses_train, s.losses_val)) :=
  fitToData_exit_eq rb s

/-- **The generated `fit_to_data` is `Train.fitToData`** on the loss scripts the run itself produces: it returns the hand
model's loss lists, and the parameters after `returned` epochs of updates. -/
theorem gen_fit_run_eq (key : Path) (dist : π) (x : List α) (condition : Option (List α)) (maxE p b : Nat) (vp : Float) (rb : Bool) :
    GenTrain.fitToData W key dist x condition (maxE : Int) (p : Int) (b : Int) vp rb =
      ((dataAt W b (fitData0 W key dist x condition vp)
          (fitToData (trnScript W b (fitData0 W key dist x condition vp)) (valScript W b (fitData0 W key dist x condition vp)) maxE p rb).returned).params,
       ((fitToData (trnScript W b (fitData0 W key dist x condition vp)) (valScript W b (fitData0 W key dist x condition vp)) maxE p rb).train,
        (fitToData (trnScript W b (fitData0 W key dist x condition vp)) (valScript W b (fitData0 W key dist x condition vp)) maxE p rb).val)) :=
  fitToData_eq W key dist x condition maxE p b vp rb

/-- On the generated `fit_to_data` directly: at most `max_epochs` epochs (= validation losses recorded), one train and one
validation loss per epoch, and the recorded losses are the epoch means in order. -/
theorem gen_fit_epochs_le_max (key : Path) (dist : π) (x : List α) (condition : Option (List α)) (maxE p b : Nat) (vp : Float) (rb : Bool) :
    (GenTrain.fitToData W key dist x condition (maxE : Int) (p : Int) (b : Int) vp rb).2.2.length ≤ maxE ∧
    (GenTrain.fitToData W key dist x condition (maxE : Int) (p : Int) (b : Int) vp rb).2.1.length =
      (GenTrain.fitToData W key dist x condition (maxE : Int) (p : Int) (b : Int) vp rb).2.2.length ∧
    (GenTrain.fitToData W key dist x condition (maxE : Int) (p : Int) (b : Int) vp rb).2.2 =
      (List.range (GenTrain.fitToData W key dist x condition (maxE : Int) (p : Int) (b : Int) vp rb).2.2.length).map
        (valScript W b (fitData0 W key dist x condition vp)) ∧
    (GenTrain.fitToData W key dist x condition (maxE : Int) (p : Int) (b : Int) vp rb).2.1 =
      (List.range (GenTrain.fitToData W key dist x condition (maxE : Int) (p : Int) (b : Int) vp rb).2.2.length).map
        (trnScript W b (fitData0 W key dist x condition vp)) := by
  rw [fitToData_eq]
  obtain ⟨h1, h2, h3, h4⟩ := fit_losses_recorded (trnScript W b (fitData0 W key dist x condition vp))
    (valScript W b (fitData0 W key dist x condition vp)) maxE p rb
  have hle := fit_epochs_le_max (trnScript W b (fitData0 W key dist x condition vp))
    (valScript W b (fitData0 W key dist x condition vp)) maxE p rb
  simp only [h3, h4]
  exact ⟨hle, trivial, h2, h1⟩

/-- On the generated `fit_to_data` directly, for pairwise-distinct recorded validation losses: with `E` the number of epochs
run, no epoch before the last satisfied the documented stopping rule; if `E < max_epochs` then `E > 0` and epoch `E − 1`
satisfies it; if no epoch satisfies it all `max_epochs` epochs are run. -/
theorem gen_fit_stops_exactly (key : Path) (dist : π) (x : List α) (condition : Option (List α)) (maxE p b : Nat) (vp : Float) (rb : Bool)
    (hd : ∀ i j, i < maxE → j < maxE → valScript W b (fitData0 W key dist x condition vp) i =
      valScript W b (fitData0 W key dist x condition vp) j → i = j) :
    (∀ e, e + 1 < (GenTrain.fitToData W key dist x condition (maxE : Int) (p : Int) (b : Int) vp rb).2.2.length →
      ¬ Stops (valScript W b (fitData0 W key dist x condition vp)) p e) ∧
    ((GenTrain.fitToData W key dist x condition (maxE : Int) (p : Int) (b : Int) vp rb).2.2.length < maxE →
      0 < (GenTrain.fitToData W key dist x condition (maxE : Int) (p : Int) (b : Int) vp rb).2.2.length ∧
      Stops (valScript W b (fitData0 W key dist x condition vp)) p
        ((GenTrain.fitToData W key dist x condition (maxE : Int) (p : Int) (b : Int) vp rb).2.2.length - 1)) ∧
    ((∀ e, e < maxE → ¬ Stops (valScript W b (fitData0 W key dist x condition vp)) p e) →
      (GenTrain.fitToData W key dist x condition (maxE : Int) (p : Int) (b : Int) vp rb).2.2.length = maxE) := by
  rw [fitToData_eq]
  have hlen := (fit_losses_recorded (trnScript W b (fitData0 W key dist x condition vp))
    (valScript W b (fitData0 W key dist x condition vp)) maxE p rb).2.2.2
  simp only [hlen]
  exact fit_stops_exactly _ _ maxE p rb hd

/-- On the generated `fit_to_data` directly, `return_best=True`, pairwise-distinct validation losses: the returned parameters
are those after the updates of epoch `m` (the parameters the validation loss of epoch `m` was evaluated with), where `m` has the
strictly smallest validation loss of all epochs run.  `return_best=False`: the parameters after the last epoch run. -/
theorem gen_fit_returns_best (key : Path) (dist : π) (x : List α) (condition : Option (List α)) (maxE p b : Nat) (vp : Float)
    (hpos : 0 < maxE)
    (hd : ∀ i j, i < maxE → j < maxE → valScript W b (fitData0 W key dist x condition vp) i =
      valScript W b (fitData0 W key dist x condition vp) j → i = j) :
    (∃ m, m < (GenTrain.fitToData W key dist x condition (maxE : Int) (p : Int) (b : Int) vp true).2.2.length ∧
      (GenTrain.fitToData W key dist x condition (maxE : Int) (p : Int) (b : Int) vp true).1 =
        (dataAt W b (fitData0 W key dist x condition vp) (m + 1)).params ∧
      ∀ j, j < (GenTrain.fitToData W key dist x condition (maxE : Int) (p : Int) (b : Int) vp true).2.2.length → j ≠ m →
        valScript W b (fitData0 W key dist x condition vp) m < valScript W b (fitData0 W key dist x condition vp) j) ∧
    (GenTrain.fitToData W key dist x condition (maxE : Int) (p : Int) (b : Int) vp false).1 =
      (dataAt W b (fitData0 W key dist x condition vp)
        (GenTrain.fitToData W key dist x condition (maxE : Int) (p : Int) (b : Int) vp false).2.2.length).params := by
  rw [fitToData_eq, fitToData_eq]
  have hlen := fun rb => (fit_losses_recorded (trnScript W b (fitData0 W key dist x condition vp))
    (valScript W b (fitData0 W key dist x condition vp)) maxE p rb).2.2.2
  simp only [hlen]
  obtain ⟨m, hm, hr, hmin⟩ := fit_returns_best (trnScript W b (fitData0 W key dist x condition vp))
    (valScript W b (fitData0 W key dist x condition vp)) maxE p hpos hd
  exact ⟨⟨m, hm, by rw [hr], hmin⟩, by rw [fit_returns_last]⟩

/-- **One generated step of the variational loop**: the loss is appended; `best_params` receives the parameters the loss was
evaluated at (PRE-update) iff the loss equals `min(losses)`; then `params = new_params`. -/
theorem gen_vi_step_eq (s : GenTrain.FitToVariationalTargetSt1 π ω) (key : Path) :
    GenTrain.fitToVariationalTarget_loop1 W () s key =
      ⟨(GenTrain.step W s.params () (viArgs key) s.opt_state).1,
       (GenTrain.step W s.params () (viArgs key) s.opt_state).2.1,
       s.losses ++ [(GenTrain.step W s.params () (viArgs key) s.opt_state).2.2],
       if (some (GenTrain.step W s.params () (viArgs key) s.opt_state).2.2 ==
            listMin? (s.losses ++ [(GenTrain.step W s.params () (viArgs key) s.opt_state).2.2]))
         then s.params else s.best_params⟩ :=
  vi_loop1_eq W s key

/-- the generated `step`: loss and gradient at the given parameters, optimiser update, `apply_updates` -/
theorem gen_step_eq (params : π) (args : LossArgs α) (o : ω) :
    GenTrain.step W params () args o =
      (W.applyUpdates params (W.optUpdate (W.valueAndGrad params args).2 o params).1,
       (W.optUpdate (W.valueAndGrad params args).2 o params).2, (W.valueAndGrad params args).1) :=
  step_eq W params args o

theorem gen_vi_select_eq (rb : Bool) (s : GenTrain.FitToVariationalTargetSt1 π ω) :
    GenTrain.fitToVariationalTarget_exit rb () s = (if rb then s.best_params else s.params, s.losses) :=
  fitToVariationalTarget_exit_eq rb s

/-- **The generated `fit_to_variational_target` is `Train.fitToVariationalTarget`** on the loss script the run produces
(keys `jr.split(key, steps)`, one per step). -/
theorem gen_vi_run_eq (key : Path) (dist : π) (steps : Nat) (rb : Bool) :
    GenTrain.fitToVariationalTarget W key dist (steps : Int) rb =
      ((viAt W (Py.split key steps) (dist, W.optInit dist)
          (fitToVariationalTarget (viScript W (Py.split key steps) (dist, W.optInit dist)) steps rb).returned).1,
       (fitToVariationalTarget (viScript W (Py.split key steps) (dist, W.optInit dist)) steps rb).losses) :=
  fitToVariationalTarget_eq W key dist steps rb

/-- On the generated `fit_to_variational_target` directly: exactly `steps` losses, the loss of step `i` evaluated at the
parameters after `i` updates; `return_best=False` returns the parameters after all `steps` updates; `return_best=True` with
pairwise-distinct losses returns the parameters after `m` updates where step `m` has the strictly smallest loss — the
parameters at which that loss was evaluated. -/
theorem gen_vi_main (key : Path) (dist : π) (steps : Nat) :
    (∀ rb, (GenTrain.fitToVariationalTarget W key dist (steps : Int) rb).2 =
      (List.range steps).map (viScript W (Py.split key steps) (dist, W.optInit dist))) ∧
    (∀ rb, (GenTrain.fitToVariationalTarget W key dist (steps : Int) rb).2.length = steps) ∧
    (GenTrain.fitToVariationalTarget W key dist (steps : Int) false).1 =
      (viAt W (Py.split key steps) (dist, W.optInit dist) steps).1 ∧
    ((∀ i j, i < steps → j < steps → viScript W (Py.split key steps) (dist, W.optInit dist) i =
        viScript W (Py.split key steps) (dist, W.optInit dist) j → i = j) → 0 < steps →
      ∃ m, m < steps ∧ (GenTrain.fitToVariationalTarget W key dist (steps : Int) true).1 =
          (viAt W (Py.split key steps) (dist, W.optInit dist) m).1 ∧
        ∀ j, j < steps → j ≠ m → viScript W (Py.split key steps) (dist, W.optInit dist) m <
          viScript W (Py.split key steps) (dist, W.optInit dist) j) := by
  refine ⟨fun rb => ?_, fun rb => ?_, ?_, fun hd hpos => ?_⟩
  · rw [fitToVariationalTarget_eq]; exact (vi_losses_recorded _ steps rb).1
  · rw [fitToVariationalTarget_eq]; exact (vi_losses_recorded _ steps rb).2
  · rw [fitToVariationalTarget_eq, vi_returns_last]
  · rw [fitToVariationalTarget_eq]
    obtain ⟨hlt, hmin⟩ := (vi_returns_best _ steps hd).1 hpos
    exact ⟨_, hlt, rfl, hmin⟩

end Generated

/-- non-vacuity of the generated loops: a concrete world (parameters = update count, the loss of a step = a table lookup at
the parameters) — the generated variational loop on `[3,2,1,5]` returns the parameters after 2 updates (loss 1), on
`[1,4,16,64]` the initial ones; and one generated `fit_to_data` epoch loop (2 train batches, 1 validation batch per epoch,
validation losses `[5,3,4,6]`, patience 1) stops after 4 epochs with `best_params` after epoch 1 (4 updates). -/
theorem gen_instance :
    GenTrain.fitToVariationalTarget (α := Nat) (γ := Unit) (υ := Unit) (ω := Unit)
      ⟨fun _ m => List.range m, fun p _ => ([3, 2, 1, 5].getD p 0, ()), fun _ _ => 0, fun _ => (), fun _ _ _ => ((), ()),
        fun p _ => p + 1, fun l => l.headD 0, fun l _ => l⟩ [] (0 : Nat) 4 true = (2, [3, 2, 1, 5]) ∧
    GenTrain.fitToVariationalTarget (α := Nat) (γ := Unit) (υ := Unit) (ω := Unit)
      ⟨fun _ m => List.range m, fun p _ => ([1, 4, 16, 64].getD p 0, ()), fun _ _ => 0, fun _ => (), fun _ _ _ => ((), ()),
        fun p _ => p + 1, fun l => l.headD 0, fun l _ => l⟩ [] (0 : Nat) 4 true = (0, [1, 4, 16, 64]) ∧
    (fun s : GenTrain.FitToDataSt1 Nat Nat Unit => (s.params, s.best_params, s.losses_val, s.brk))
      (List.foldl (GenTrain.fitToData_loop1 (α := Nat) (γ := Unit) (υ := Unit)
        ⟨fun _ m => List.range m, fun p _ => ((p : Int), ()), fun p _ => [5, 3, 4, 6, 7, 1].getD (p / 2 - 1) 0, fun _ => (),
          fun _ _ _ => ((), ()), fun p _ => p + 1, fun l => l.headD 0, fun l _ => l⟩ 1 2 ())
        ⟨[], 0, 0, (), [[0, 1, 2, 3, 4]], [[5, 6]], [], [], false⟩ (Py.range 6)) = (8, 4, [5, 3, 4, 6], true) := by
  decide

/-! ## Audit (g27): non-vacuity of the hypothesis sets used above -/
section Audit
/-- `fit_stops_exactly` and `fit_returns_best` applied to a concrete script with pairwise-distinct losses (`hd` discharged, not assumed):
the run of `fit_instance` stops after 4 < 6 epochs, so the middle conjunct's premise holds and the conclusion `Stops … 3` is obtained
FROM the theorem. -/
theorem fit_stops_audit_instance :
    Stops (fun e => [5, 3, 4, 6, 7, 1].getD e (0 : Loss)) 1 3 ∧ ¬ Stops (fun e => [5, 3, 4, 6, 7, 1].getD e (0 : Loss)) 1 2 ∧
    ∃ m, m < 4 ∧ (fitToData (fun e => e) (fun e => [5, 3, 4, 6, 7, 1].getD e 0) 6 1 true).returned = m + 1 := by
  have hd : ∀ i j, i < 6 → j < 6 → [5, 3, 4, 6, 7, 1].getD i (0 : Loss) = [5, 3, 4, 6, 7, 1].getD j 0 → i = j := by
    intro i j hi hj; exact fit_instance.1 i hi j hj
  have he : (fitToData (fun e => e) (fun e => [5, 3, 4, 6, 7, 1].getD e 0) 6 1 true).epochs = 4 := by rw [fit_instance.2.1]
  obtain ⟨h1, h2, _⟩ := fit_stops_exactly (fun e => e) (fun e => [5, 3, 4, 6, 7, 1].getD e 0) 6 1 true hd
  obtain ⟨m, hm, hr, _⟩ := fit_returns_best (fun e => e) (fun e => [5, 3, 4, 6, 7, 1].getD e 0) 6 1 (by omega) hd
  rw [he] at h1 h2 hm
  exact ⟨(h2 (by omega)).2, h1 2 (by omega), m, hm, hr⟩

/-- `vi_returns_best` with `hd` discharged on `[3,2,1,5]`: the returned index is the strict minimiser 2 -/
theorem vi_best_audit_instance :
    (fitToVariationalTarget (fun i => [3, 2, 1, 5].getD i 0) 4 true).returned = 2 ∧
    ∀ j, j < 4 → j ≠ 2 → [3, 2, 1, 5].getD 2 (0 : Loss) < [3, 2, 1, 5].getD j 0 := by
  have hd : ∀ i j, i < 4 → j < 4 → [3, 2, 1, 5].getD i (0 : Loss) = [3, 2, 1, 5].getD j 0 → i = j := by
    have h : ∀ i, i < 4 → ∀ j, j < 4 → [3, 2, 1, 5].getD i (0 : Loss) = [3, 2, 1, 5].getD j 0 → i = j := by decide
    intro i j hi hj; exact h i hi j hj
  have h := (vi_returns_best (fun i => [3, 2, 1, 5].getD i 0) 4 hd).1 (by omega)
  have e : (fitToVariationalTarget (fun i => [3, 2, 1, 5].getD i 0) 4 true).returned = 2 := by rw [vi_instance.2]
  rw [e] at h
  exact ⟨e, h.2⟩
end Audit

end C16
