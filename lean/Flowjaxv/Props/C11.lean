import Flowjaxv.Proofs.Params
import Flowjaxv.Proofs.Wrappers
import Flowjaxv.Proofs.FamiliesGen
import Flowjaxv.Proofs.TriangularGen
import Flowjaxv.Proofs.PermGen
/-!
# C11 — constrained parameters stay valid for every unconstrained value

Property theorems only (helper lemmas live in `Proofs/Params.lean`).  Statements are over ℝ, for
EVERY real raw value (no box is needed in exact arithmetic) and every vector length, about

* definitions generated from /repo: `Gen.realToIncreasingOnInterval`, `Gen.rqsDerivatives`,
  `Gen.rqsDerivativeInit`, `Gen.UnconditionalPlanar.get_act_scale`, `Gen.WeightNormRow.unwrap`,
  `Gen.mixtureLogNormalizedWeights`, `Gen.mixtureRawInit`, the SoftPlus / Loc kernels and `Chain`;
* the `.unwrap()` bodies generated from `flowjax/wrappers.py` (`Gen/Wrappers.lean`, namespace `Gen.Wr`): matrix- and batch-level
  `WeightNormalization.unwrap`, `Where.unwrap`, `BijectionReparam.__init__` / `unwrap` (section "generated wrapper bodies");
* the hand-written glue of `Model/Params.lean` (`BijectionReparam`, the constructors' composition,
  `_to_triangular`, the `error_if` predicates), tied to the code by `tools/props/c11.py`.
-/
open Gen Set Params

namespace C11

/-! ### SoftPlus-reparameterised positives: scales, triangular diagonals, degrees of freedom -/

/-- whatever the raw value, the unwrapped `BijectionReparam(·, SoftPlus())` is strictly positive -/
theorem softplus_pos (raw : ℝ) : 0 < (softplusRaw raw).unwrap := ParamsPf.softplusRaw_pos raw

/-- constructor arguments are reproduced: `softplus(softplus⁻¹ s) = s` for every `s > 0` -/
theorem softplus_roundtrip {s : ℝ} (hs : 0 < s) : (softplusInit s).unwrap = s :=
  ParamsPf.softplusInit_unwrap hs

/-- `Affine.scale` / `Scale.scale` after unwrap are positive for every raw value; the constructor
reproduces `loc` and `scale` -/
theorem affine_scale_pos (loc raw : ℝ) :
    0 < (affineOfRaw loc raw).scale ∧ 0 < (scaleOfRaw raw).scale :=
  ⟨ParamsPf.softplusRaw_pos raw, ParamsPf.softplusRaw_pos raw⟩

theorem affine_scale_roundtrip (loc : ℝ) {s : ℝ} (hs : 0 < s) :
    (affineInit loc s).scale = s ∧ (affineInit loc s).loc = loc ∧ (scaleInit s).scale = s :=
  ⟨ParamsPf.softplusInit_unwrap hs, rfl, ParamsPf.softplusInit_unwrap hs⟩

/-- hence (C01) the unwrapped Affine is a lawful bijection ℝ ↔ ℝ whatever the raw scale parameter -/
theorem affine_of_raw_lawful {C : Type} (loc raw : ℝ) :
    ((affineOfRaw loc raw).toBij : Bij ℝ C ℝ).Lawful univ univ :=
  Leaves.affine_lawful _ (ParamsPf.softplusRaw_pos raw).ne'

/-- `TriangularAffine.triangular` after unwrap: for a square `arr` and raw diagonal parameters of
matching length, the diagonal of `diag(softplus raw) + tril/triu(arr, ±1)` is `softplus raw`,
entrywise strictly positive — for either orientation, any dimension. -/
theorem tri_diag_pos (lower : Bool) (raw : List ℝ) (arr : List (List ℝ))
    (hsq : ∀ r ∈ arr, r.length = arr.length) (hl : raw.length = arr.length) :
    ∃ d : List ℝ, diagEntries (triangularOfRaw lower raw arr) = d.map some ∧ d.length = arr.length ∧
      ∀ x ∈ d, 0 < x := by
  refine ⟨raw.map (fun r => (softplusRaw r).unwrap), ?_, by simpa using hl, ?_⟩
  · exact ParamsPf.diag_toTriangular lower _ arr hsq (by simpa using hl)
  · intro x hx
    obtain ⟨r, _, rfl⟩ := List.mem_map.mp hx
    exact ParamsPf.softplusRaw_pos r

/-- every entry of the unwrapped `triangular`: `softplus rawᵢ` on the diagonal, `arr`'s entry strictly
inside the chosen triangle, exactly 0 in the other triangle -/
theorem tri_entries (lower : Bool) (raw : List ℝ) (arr : List (List ℝ)) (i j : Nat) (r a : ℝ) (row : List ℝ)
    (hr : raw[i]? = some r) (hrow : arr[i]? = some row) (ha : row[j]? = some a) :
    ((triangularOfRaw lower raw arr)[i]?.bind (·[j]?)) =
      some (if j = i then (softplusRaw r).unwrap else if (if lower then j < i else i < j) then a else 0) := by
  have h := ParamsPf.toTriangular_entry lower (raw.map (fun r => (softplusRaw r).unwrap)) arr i j
    (softplusRaw r).unwrap a row (by simp [hr]) hrow ha
  rw [triangularOfRaw, h]
  by_cases hji : j = i
  · subst hji; cases lower <;> simp
  · simp [hji]

/-- `MultivariateNormal(loc, cov)` stores `TriangularAffine(loc, cholesky(cov))`: for every square
lower-triangular `L` with positive diagonal (the Cholesky factor) the constructor accepts it and the
unwrapped `triangular` is exactly `L`, so `covariance = L Lᵀ` is reproduced. -/
theorem mvn_triangular_roundtrip (L : List (List ℝ)) (hsq : ∀ r ∈ L, r.length = L.length)
    (hlow : ∀ (i j : Nat) (row : List ℝ) (a : ℝ), L[i]? = some row → row[j]? = some a → i < j → a = 0)
    (hpos : ∀ (i : Nat) (row : List ℝ) (d : ℝ), L[i]? = some row → row[i]? = some d → 0 < d) :
    triangularInit true L = some L := ParamsPf.triangularInit_lower L hsq hlow hpos

/-- degrees of freedom stay positive; the constructor reproduces `df` -/
theorem df_pos (raw : ℝ) : 0 < dfOfRaw raw := ParamsPf.softplusRaw_pos raw
theorem df_roundtrip {df : ℝ} (h : 0 < df) : dfInit df = df := ParamsPf.softplusInit_unwrap h

/-- `_affine_with_min_scale`: `scale = softplus(raw) + min_scale` is strictly above `min_scale`
(so positive when `min_scale ≥ 0`), and is initialised to exactly 1 when `min_scale < 1`. -/
theorem min_scale_bound (minScale raw : ℝ) :
    minScale < minScaleOfRaw minScale raw ∧ (0 ≤ minScale → 0 < minScaleOfRaw minScale raw) := by
  rw [ParamsPf.minScaleOfRaw_eq]
  have := Leaves.softplus_pos raw
  exact ⟨by linarith, fun h => by linarith⟩

theorem min_scale_init {minScale : ℝ} (h : minScale < 1) : minScaleInit minScale = 1 :=
  ParamsPf.minScaleInit_eq h

/-- `Uniform(minval, maxval)` reproduces both bounds; `Exponential(rate)` reproduces the rate -/
theorem uniform_bounds_roundtrip {lo hi : ℝ} (h : lo < hi) :
    (uniformInit lo hi).loc = lo ∧ uniformMaxval (uniformInit lo hi) = hi := by
  refine ⟨rfl, ?_⟩
  have : (uniformInit lo hi).scale = hi - lo := ParamsPf.softplusInit_unwrap (by linarith)
  simp only [uniformMaxval, this]; show lo + (hi - lo) = hi; ring

theorem exponential_rate_roundtrip {rate : ℝ} (h : 0 < rate) :
    exponentialRate (exponentialInit rate) = rate := by
  have : (exponentialInit rate).scale = 1 / rate := ParamsPf.softplusInit_unwrap (by positivity)
  simp only [exponentialRate, this]; field_simp

/-! ### Spline knots and derivatives -/

/-- For every raw vector of length ≥ 1, every `softmax_adjust ≥ 0` and `lo < hi`, the padded knot
vector produced by the generated `_real_to_increasing_on_interval` is strictly increasing, starts
at `lo` and ends at `hi`.  (Because the first width is halved the interior knots lie strictly
inside: the first is `lo + (hi−lo)·w₀/2 > lo`, the last is `lo + (hi−lo)·(1 − w₀/2) < hi` — both
are consequences of strict monotonicity of the padded list.) -/
theorem knots_strictMono {arr : List ℝ} (hne : arr ≠ []) {lo hi adj : ℝ} (hlt : lo < hi) (ha : 0 ≤ adj) :
    (realToIncreasingOnInterval arr (lo, hi) adj).Pairwise (· < ·) ∧
    (realToIncreasingOnInterval arr (lo, hi) adj).head? = some lo ∧
    (realToIncreasingOnInterval arr (lo, hi) adj).getLast? = some hi :=
  let h := ParamsPf.knots_generated hne hlt ha
  ⟨h.1, h.2.2.1, h.2.2.2⟩

/-- `knots` raw values give `knots + 2` positions -/
theorem knots_length {arr : List ℝ} (hne : arr ≠ []) {lo hi adj : ℝ} (hlt : lo < hi) (ha : 0 ≤ adj) :
    (realToIncreasingOnInterval arr (lo, hi) adj).length = arr.length + 2 :=
  (ParamsPf.knots_generated hne hlt ha).2.1

/-- every derivative `softplus(raw) + min_derivative` exceeds `min_derivative` (in exact
arithmetic strictly), hence is positive when `min_derivative ≥ 0` -/
theorem derivs_ge_min (δ : ℝ) (raw : List ℝ) :
    ∀ d ∈ rqsDerivatives δ raw, δ < d ∧ (0 ≤ δ → 0 < d) := by
  intro d hd
  have := ParamsPf.rqsDerivatives_mem d hd
  exact ⟨this, fun h => by linarith⟩

/-- the initial raw derivative value `log(exp(1 − δ) − 1)` unwraps to exactly 1 (`δ < 1`), any length -/
theorem rqs_init_identity_params {δ : ℝ} (h : δ < 1) (n : Nat) :
    ∀ d ∈ rqsDerivatives δ (List.replicate n (rqsDerivativeInit δ)), d = 1 := by
  intro d hd
  simp only [rqsDerivatives, List.map_replicate, List.mem_replicate] at hd
  rw [hd.2]; exact ParamsPf.rqs_init_deriv h

/-- What C01's spline theorem needs from the parameterisation: for `K ≥ 1` raw knot parameters
(x and y) and `K + 2` raw derivative parameters, every real value of them, the three unwrapped
vectors have equal length `K + 2`, `x_pos` and `y_pos` are strictly increasing from `lo` to `hi`,
and all derivatives are strictly positive (`min_derivative ≥ 0`). -/
theorem rqs_params_wf_core {rawX rawY rawD : List ℝ} {lo hi adj δ : ℝ}
    (hX : rawX ≠ []) (hY : rawY.length = rawX.length) (hD : rawD.length = rawX.length + 2)
    (hlt : lo < hi) (ha : 0 ≤ adj) (hδ : 0 ≤ δ) :
    let xs := realToIncreasingOnInterval rawX (lo, hi) adj
    let ys := realToIncreasingOnInterval rawY (lo, hi) adj
    let ds := rqsDerivatives δ rawD
    xs.length = rawX.length + 2 ∧ ys.length = xs.length ∧ ds.length = xs.length ∧
    xs.Pairwise (· < ·) ∧ ys.Pairwise (· < ·) ∧
    xs.head? = some lo ∧ xs.getLast? = some hi ∧ ys.head? = some lo ∧ ys.getLast? = some hi ∧
    ∀ d ∈ ds, 0 < d := by
  intro xs ys ds
  have hYne : rawY ≠ [] := by
    intro h; rw [h] at hY; exact hX (List.length_eq_zero_iff.mp hY.symm)
  have hx := ParamsPf.knots_generated hX hlt ha
  have hy := ParamsPf.knots_generated hYne hlt ha
  refine ⟨hx.2.1, ?_, ?_, hx.1, hy.1, hx.2.2.1, hx.2.2.2, hy.2.2.1, hy.2.2.2, ?_⟩
  · show (realToIncreasingOnInterval rawY (lo, hi) adj).length = (realToIncreasingOnInterval rawX (lo, hi) adj).length
    rw [hx.2.1, hy.2.1, hY]
  · show (rqsDerivatives δ rawD).length = (realToIncreasingOnInterval rawX (lo, hi) adj).length
    rw [ParamsPf.rqsDerivatives_length, hx.2.1, hD]
  · intro d hd
    have := ParamsPf.rqsDerivatives_mem d hd
    linarith

/-! ### Planar -/

/-- For `w ≠ 0` (and `u` of the same length) the constrained `û = get_act_scale()` satisfies
`wᵀû = −1 + log(1 + softplus(wᵀu)) > −1`, for every real `w, u`. -/
theorem planar_constraint (p : UnconditionalPlanar ℝ) (hl : p._act_scale.length = p.weight.length)
    (hw : Jnp.dot p.weight p.weight ≠ 0) :
    Jnp.dot p.get_act_scale p.weight
        = -1 + Real.log (1 + Real.log (1 + Real.exp (Jnp.dot p._act_scale p.weight))) ∧
    -1 < Jnp.dot p.get_act_scale p.weight := by
  have h := ParamsPf.planar_dot p hl hw
  exact ⟨h, by rw [h]; exact ParamsPf.planarM_gt _⟩

/-- hence the tanh layer's Jacobian factor `1 + û·ψ`, `ψ = (1 − t²)·w`, is positive for every
activation value `t ∈ (−1, 1)` … -/
theorem planar_tanh_det_pos (p : UnconditionalPlanar ℝ) (hl : p._act_scale.length = p.weight.length)
    (hw : Jnp.dot p.weight p.weight ≠ 0) {t : ℝ} (ht : t ∈ Ioo (-1 : ℝ) 1) :
    0 < 1 + Jnp.dot p.get_act_scale (List.map (fun b => (1 - t * t) * b) p.weight) := by
  have hc := (planar_constraint p hl hw).2
  rw [ParamsPf.jdot_comm, ParamsPf.jdot_map_left, ParamsPf.jdot_comm]
  have h1 : 0 < 1 - t * t := by nlinarith [ht.1, ht.2]
  exact ParamsPf.one_add_mul_pos hc h1 (by nlinarith [mul_self_nonneg t])

/-- … and the leaky-relu layer's denominator `1 + w·(û·s)` is positive for every slope `s ∈ (0, 1]`
(`s = 1` or `s = negative_slope`). -/
theorem planar_leaky_det_pos (p : UnconditionalPlanar ℝ) (hl : p._act_scale.length = p.weight.length)
    (hw : Jnp.dot p.weight p.weight ≠ 0) {s : ℝ} (hs0 : 0 < s) (hs1 : s ≤ 1) :
    0 < 1 + Jnp.dot p.weight (List.map (fun a => s * a) p.get_act_scale) := by
  have hc := (planar_constraint p hl hw).2
  rw [ParamsPf.jdot_comm, ParamsPf.jdot_map_left]
  exact ParamsPf.one_add_mul_pos hc hs0 hs1

/-! ### Mixture weights -/

/-- whatever the stored log-weights (any length ≥ 1), the weights `exp(log_softmax v)` are positive and sum to 1 -/
theorem mixture_weights_normalised {v : List ℝ} (hv : v ≠ []) :
    ((mixtureLogNormalizedWeights v).map Real.exp).sum = 1 ∧
    ∀ x ∈ (mixtureLogNormalizedWeights v).map Real.exp, 0 < x := by
  simp only [mixtureLogNormalizedWeights]
  rw [ParamsPf.exp_logSoftmax hv]
  exact ⟨ParamsPf.softmax_sum hv, ParamsPf.softmax_pos⟩

/-- the constructor reproduces the (normalised) weights: `exp(log_softmax(log w))ᵢ = wᵢ / Σw` for positive `w` -/
theorem mixture_weights_roundtrip {w : List ℝ} (hw : ∀ x ∈ w, 0 < x) :
    (mixtureLogNormalizedWeights (mixtureRawInit w)).map Real.exp = w.map (fun x => x / w.sum) :=
  ParamsPf.mixture_roundtrip hw

/-! ### Weight normalisation -/

/-- a non-zero row `w` with raw scale parameter `raw` unwraps to a row of Euclidean norm
`softplus raw` — the (positive) norm parameter — for every real `raw` and `w ≠ 0` -/
theorem weightnorm_row_norm (w : List ℝ) (raw : ℝ) (hw : Jnp.dot w w ≠ 0) :
    let row : WeightNormRow ℝ := { weight := w, scale := (softplusRaw raw).unwrap }
    Real.sqrt (Jnp.dot row.unwrap row.unwrap) = (softplusRaw raw).unwrap ∧ 0 < (softplusRaw raw).unwrap :=
  ⟨ParamsPf.weightnorm_norm _ hw (ParamsPf.softplusRaw_pos raw), ParamsPf.softplusRaw_pos raw⟩

/-! ### Generated wrapper bodies (`Gen/Wrappers.lean`) -/

/-- `WeightNormalization.unwrap` translated for a whole matrix (`jnp.linalg.norm(weight, axis=-1, keepdims=True)`,
`scale * weight / norms` with NumPy broadcasting) equals the per-row generated kernel of `Gen/Params.lean` applied row by row —
every number of rows and columns.  The norm is therefore taken over the LAST axis: with any other axis this equation is false. -/
theorem gen_weightnorm_eq_rows (W : Wr.WeightNormalization ℝ) :
    W.unwrap = List.zipWith (fun row s => (⟨row, s⟩ : WeightNormRow ℝ).unwrap) W.weight W.scale :=
  WrappersPf.wn_eq_rows W.weight W.scale

/-- every row of the unwrapped matrix has the shape of the weight's row and Euclidean norm `|scale_row|` — every shape
(rows × cols), every weight matrix without a zero row, every scale column (either sign); with the constructor's
SoftPlus-reparameterised scale that is `softplus raw > 0` (`weightnorm_row_norm`). -/
theorem gen_weightnorm_row_norm (W : Wr.WeightNormalization ℝ) (hlen : W.scale.length = W.weight.length)
    (hw : ∀ row ∈ W.weight, Jnp.dot row row ≠ 0) :
    W.unwrap.length = W.weight.length ∧
    ∀ i (hi : i < W.unwrap.length) (hwi : i < W.weight.length) (hs : i < W.scale.length),
      (W.unwrap[i]).length = (W.weight[i]).length ∧
      Real.sqrt (Jnp.dot W.unwrap[i] W.unwrap[i]) = |W.scale[i]| := by
  have e := gen_weightnorm_eq_rows W
  refine ⟨by rw [e]; simp [hlen], fun i hi hwi hs => ?_⟩
  have hi' : i < (List.zipWith (fun row s => (⟨row, s⟩ : WeightNormRow ℝ).unwrap) W.weight W.scale).length := by
    simp; omega
  have e' : W.unwrap[i] = (⟨W.weight[i], W.scale[i]⟩ : WeightNormRow ℝ).unwrap := by
    simp only [e, List.getElem_zipWith]
  rw [e']
  exact ⟨WrappersPf.row_unwrap_length _, WrappersPf.weightnorm_norm_abs _ (hw _ (List.getElem_mem hwi))⟩

/-- a batch of weight matrices (rank 3; the SAME source line typed at rank 3): slice `b` of the unwrapped batch is the unwrapped
slice `b` — the norm is still over the last axis, per matrix — every batch size and shape -/
theorem gen_weightnorm_batch_slices (B : Wr.WeightNormBatch ℝ) :
    B.unwrap = List.zipWith (fun m s => (⟨m, s⟩ : Wr.WeightNormalization ℝ).unwrap) B.weight B.scale :=
  WrappersPf.wn_batch_eq_slices B.weight B.scale

/-- hence, slice by slice, every row of every matrix of the unwrapped batch has norm `|scale|` of its row -/
theorem gen_weightnorm_batch_row_norm (B : Wr.WeightNormBatch ℝ) (b : Nat) (hb : b < B.unwrap.length)
    (hbw : b < B.weight.length) (hbs : b < B.scale.length) (hlen : (B.scale[b]).length = (B.weight[b]).length)
    (hw : ∀ row ∈ B.weight[b], Jnp.dot row row ≠ 0) :
    ∀ i (hi : i < (B.unwrap[b]).length) (_ : i < (B.weight[b]).length) (hs : i < (B.scale[b]).length),
      Real.sqrt (Jnp.dot (B.unwrap[b])[i] (B.unwrap[b])[i]) = |(B.scale[b])[i]| := by
  have e : B.unwrap[b] = (⟨B.weight[b], B.scale[b]⟩ : Wr.WeightNormalization ℝ).unwrap := by
    simp only [gen_weightnorm_batch_slices B, List.getElem_zipWith]
  intro i hi hwi hs
  have h := (gen_weightnorm_row_norm ⟨B.weight[b], B.scale[b]⟩ hlen hw).2 i (by rw [← e]; exact hi) hwi hs
  simp only [e]
  exact h.2

/-- `Where.unwrap` for one element selects `if_true` where `cond` holds and `if_false` elsewhere; with a Boolean-matrix
condition and `if_false = 0` (how `masked_autoregressive_mlp` and the block-autoregressive layers use it) the generated body is the
masking function `Masks.whereMask` of the C09 model, for every pair of shapes -/
theorem gen_where_select (c : Bool) (a b : ℝ) (mask : List (List Bool)) (w : List (List ℝ)) :
    (⟨c, a, b⟩ : Wr.Where ℝ).unwrap = (if c then a else b) ∧
    (⟨mask, w, 0⟩ : Wr.WhereMat ℝ).unwrap = Masks.whereMask mask w :=
  ⟨WrappersPf.where_select c a b, WrappersPf.whereMat_eq_whereMask mask w⟩

/-- `BijectionReparam(v, bijection)` (the generated constructor stores `bijection.inverse(v)`) then `unwrap` (the generated body
applies `bijection.transform`) reproduces `v`, and the stored raw value lies in the bijection's domain — for every lawful
bijection `D ↔ E` on any point type and every `v ∈ E`. -/
theorem gen_reparam_roundtrip {X L : Type} (b : Bij X Unit L) {D E : Set X} (hb : b.Lawful D E) {v : X} (hv : v ∈ E) :
    (Wr.BijectionReparam.init v b).unwrap = v ∧ (Wr.BijectionReparam.init v b).arr ∈ D ∧
      (Wr.BijectionReparam.init v b).bijection = b :=
  ⟨hb.right v hv (), hb.mapsInv v hv (), rfl⟩

/-- the generated constructor / `unwrap` are the hand model's (`Params.BijectionReparam`), so every `softplus_…` statement above is
about the generated bodies: positivity for every raw value, reproduction of every positive argument -/
theorem gen_reparam_softplus (raw : ℝ) {s : ℝ} (hs : 0 < s) (b : Bij ℝ Unit ℝ) (v : ℝ) :
    (Wr.BijectionReparam.init v b).unwrap = (Params.BijectionReparam.init b v).unwrap ∧
    0 < (⟨raw, SoftPlus.toBij⟩ : Wr.BijectionReparam ℝ ℝ).unwrap ∧
    (Wr.BijectionReparam.init s SoftPlus.toBij).unwrap = s :=
  ⟨rfl, ParamsPf.softplusRaw_pos raw, (gen_reparam_roundtrip _ Leaves.softplus_lawful (Set.mem_Ioi.mpr hs)).1⟩

/-! ### Rejection of invalid constructor arguments -/

/-- scale (Affine/Scale/Normal/…, TriangularAffine diagonal): the reparameterisation's validity
test fires exactly on the non-positive values -/
theorem reject_iff_invalid_scale (v : ℝ) (vs : List ℝ) :
    (softplusRejects v = true ↔ v ≤ 0) ∧ (softplusRejectsAny vs = true ↔ ∃ x ∈ vs, x ≤ 0) :=
  ⟨ParamsPf.softplusRejects_iff v, ParamsPf.softplusRejectsAny_iff vs⟩

theorem reject_iff_invalid_df (df : List ℝ) : studentTRejects df = true ↔ ∃ x ∈ df, x ≤ 0 := by
  simp only [studentTRejects, Bool.or_eq_true, ParamsPf.anyNonPositive_iff, ParamsPf.softplusRejectsAny_iff, or_self]

theorem reject_iff_invalid_weights (w : List ℝ) : anyNonPositive w = true ↔ ∃ x ∈ w, x ≤ 0 :=
  ParamsPf.anyNonPositive_iff w

theorem reject_iff_invalid_bounds (b : List (ℝ × ℝ)) :
    uniformRejects b = true ↔ ∃ p ∈ b, p.2 ≤ p.1 := by
  simp [uniformRejects]

/-- `Permute`: `sort(p) ≠ arange(size)` somewhere ⇔ `p` is not a permutation of `0 … size−1` — any size -/
theorem reject_iff_not_permutation (p : List Int) :
    permuteRejects p = true ↔ ¬ p.Perm ((List.range p.length).map Int.ofNat) := by
  rw [← ParamsPf.permuteRejects_iff]; simp

/-! ### Non-vacuity -/

theorem knots_instance :
    realToIncreasingOnInterval [(0 : ℝ)] (-1, 1) 0 = [-1, 0, 1] := by
  simp [realToIncreasingOnInterval, ParamsPf.softmax_eq, ParamsPf.jcumsum_eq, ParamsPf.cumsumFrom, Jnp.setItem,
    ParamsPf.getItem_zero_cons, Jnp.pad1]
  norm_num

theorem planar_instance :
    -1 < Jnp.dot (UnconditionalPlanar.get_act_scale ⟨[1, 0], [0, 3], (0 : ℝ)⟩) [1, 0] :=
  (planar_constraint ⟨[1, 0], [0, 3], 0⟩ rfl (by simp [ParamsPf.jdot_eq])).2

theorem mvn_instance : triangularInit true [[(2 : ℝ), 0], [1, 3]] = some [[2, 0], [1, 3]] := by
  apply mvn_triangular_roundtrip
  · intro r hr; simp at hr; rcases hr with rfl | rfl <;> rfl
  · intro i j row a h1 h2 hij
    rcases i with _ | _ | i
    · simp at h1; subst h1
      rcases j with _ | _ | j
      · omega
      · simp at h2; exact h2.symm
      · simp at h2
    · simp at h1; subst h1
      rcases j with _ | _ | j
      · omega
      · omega
      · simp at h2
    · simp at h1
  · intro i row d h1 h2
    rcases i with _ | _ | i
    · simp at h1; subst h1; simp at h2; subst h2; norm_num
    · simp at h1; subst h1; simp at h2; subst h2; norm_num
    · simp at h1

/-- the generated matrix-level weight normalisation on a 2 × 2 weight with a negative scale entry: rows of norm 2 and 3 -/
theorem gen_weightnorm_instance :
    (⟨[[3, 4], [0, -2]], [2, -3]⟩ : Wr.WeightNormalization ℝ).unwrap = [[6 / 5, 8 / 5], [0, 3]] := by
  have h5 : Real.sqrt (3 * 3 + 4 * 4) = 5 := by
    rw [show (3 : ℝ) * 3 + 4 * 4 = 5 * 5 by norm_num]; exact Real.sqrt_mul_self (by norm_num)
  simp [Wr.WeightNormalization.unwrap, ParamsPf.jdot_eq, h5]
  norm_num

theorem permutation_instance :
    permuteRejects [2, 0, 1] = false ∧ permuteRejects [0, 1, 1] = true ∧ permuteRejects [0, 1, 3] = true := by
  refine ⟨?_, ?_, ?_⟩ <;> simp [permuteRejects, List.mergeSort, List.MergeSort.Internal.splitInTwo, List.range, List.range.loop]

theorem reject_instance :
    softplusRejects (0 : ℝ) = true ∧ softplusRejects (-(1e-6) : ℝ) = true ∧ softplusRejects (1e-6 : ℝ) = false ∧
    uniformRejects [((1 : ℝ), (1 : ℝ))] = true := by
  refine ⟨(ParamsPf.softplusRejects_iff _).mpr (by norm_num), (ParamsPf.softplusRejects_iff _).mpr (by norm_num), ?_, by simp [uniformRejects]⟩
  rw [Bool.eq_false_iff, Ne, ParamsPf.softplusRejects_iff]; norm_num

/-! ### The REGENERATED constructors `Affine.__init__`, `Scale.__init__`, `_StandardStudentT.__init__` (`Gen/FamiliesGen.lean`)

The constrained leaves on the generated constructors: whatever arrays are passed (any shapes, any values the constructor accepts)
and whatever raw array is stored afterwards (training), every entry of the unwrapped `scale` / `df` is strictly positive; the
generated `Affine.__init__` is, entry by entry, the hand model `Ctors.affine` (= `Params.affineInit`). -/
section FamiliesGen
open Fw FamGenPf Vec

/-- `Affine`: for every object the generated constructor returns, and for every raw array stored in its place -/
theorem gen_affine_scale_pos (loc scale : NArr ℝ) (d : AffineObj ℝ) (h : GenFam.Affine.init loc scale = some d)
    (shape : List ℕ) (raw : List ℝ) :
    (∀ σ ∈ (Gen.Wr.BijectionReparam.unwrap d.scale).data, 0 < σ) ∧
    (∀ σ ∈ (Gen.Wr.BijectionReparam.unwrap ({ d.scale with arr := ⟨shape, raw⟩ } : Reparam ℝ)).data, 0 < σ) := by
  obtain ⟨_, _, rfl⟩ := affine_init_inv h
  exact ⟨unwrap_raw_pos _ _, unwrap_raw_pos shape raw⟩

/-- `Scale` likewise (the generated `Scale.__init__` never raises in the model: `BijectionReparam`'s validity check is C11's
`reject_iff_invalid_scale`) -/
theorem gen_scale_scale_pos (scale : NArr ℝ) (shape : List ℕ) (raw : List ℝ) :
    (∀ σ ∈ (Gen.Wr.BijectionReparam.unwrap (GenFam.Scale.init scale).scale).data, 0 < σ) ∧
    (∀ σ ∈ (Gen.Wr.BijectionReparam.unwrap ({ (GenFam.Scale.init scale).scale with arr := ⟨shape, raw⟩ } : Reparam ℝ)).data, 0 < σ) :=
  ⟨unwrap_raw_pos _ _, unwrap_raw_pos shape raw⟩

/-- `_StandardStudentT.df`: positive for every accepted argument and for every raw array -/
theorem gen_df_pos (df : NArr ℝ) (d : Fw.StdStudentT ℝ) (h : GenFam.StandardStudentT.init df = some d) (shape : List ℕ) (raw : List ℝ) :
    (∀ ν ∈ (Gen.Wr.BijectionReparam.unwrap d.df).data, 0 < ν) ∧
    (∀ ν ∈ (Gen.Wr.BijectionReparam.unwrap ({ d.df with arr := ⟨shape, raw⟩ } : Reparam ℝ)).data, 0 < ν) := by
  by_cases hany : (List.map (fun x => decide (x ≤ 0)) df.data).any id = true
  · simp [GenFam.StandardStudentT.init, toArray, errorIf, leZero, hany] at h
  · simp only [GenFam.StandardStudentT.init, toArray, errorIf, leZero, hany, Bool.false_eq_true, if_false, Option.bind_some,
      Option.some.injEq] at h
    subst h
    exact ⟨unwrap_raw_pos _ _, unwrap_raw_pos shape raw⟩

/-- the generated `_StandardStudentT.__init__` raises iff some entry of `df` is `≤ 0` (`eqx.error_if`) -/
theorem gen_df_rejects_iff (df : NArr ℝ) : GenFam.StandardStudentT.init df = none ↔ ∃ ν ∈ df.data, ν ≤ 0 := by
  have key : (List.map (fun x => decide (x ≤ 0)) df.data).any id = true ↔ ∃ ν ∈ df.data, ν ≤ 0 := by simp
  rw [← key]
  by_cases hany : (List.map (fun x => decide (x ≤ 0)) df.data).any id = true
  · simp [GenFam.StandardStudentT.init, toArray, errorIf, leZero, hany]
  · simp [GenFam.StandardStudentT.init, toArray, errorIf, leZero, hany]

/-- **generated `Affine.__init__` = the hand constructor `Ctors.affine`**, for every pair of shapes that broadcast: the methods of
the unwrapped object are `Ctors.affine loc[i] scale[i]` entry by entry; the declared shape is the broadcast shape; it raises
exactly when the shapes do not broadcast -/
theorem gen_affine_ctor_eq (loc scale : NArr ℝ) :
    (∀ s, bcast2 loc.shape scale.shape = some s →
      ∃ d, GenFam.Affine.init loc scale = some d ∧ d.shape = s ∧ d.loc = broadcastTo loc s ∧
        d.toBij = Bij.elementwise (List.zipWith (fun l σ => (Ctors.affine l σ).toBij) (broadcastTo loc s).data (broadcastTo scale s).data)) ∧
    (bcast2 loc.shape scale.shape = none → GenFam.Affine.init loc scale = none) :=
  ⟨fun s h => ⟨_, affine_init_eq loc scale h, rfl, rfl, affine_toBij _ _ _⟩, affine_init_none loc scale⟩

/-- scalars: `unwrap(Affine(l, σ))` is `Ctors.affine l σ` = `Params.affineInit l σ`; a positive `σ` is reproduced -/
theorem gen_affine_ctor_scalar (l σ : ℝ) :
    ∃ d, GenFam.Affine.init (NArr.scalar l) (NArr.scalar σ) = some d ∧ d.shape = [] ∧
      d.toBij = Bij.elementwise [(Ctors.affine l σ).toBij] ∧ Ctors.affine l σ = Params.affineInit l σ ∧
      (0 < σ → (Gen.Wr.BijectionReparam.unwrap d.scale).data = [σ]) := by
  refine ⟨_, affine_init_eq _ _ (bcast2_self []), rfl, affine_toBij _ _ _, rfl, fun h => ?_⟩
  rw [reparam_unwrap_data]
  show [Ctors.softplusUnwrap (Ctors.softplusRaw σ)] = [σ]
  rw [show Ctors.softplusUnwrap (Ctors.softplusRaw σ) = σ from Leaves.softplus_softplus_inv h]

/-- generated `Scale.__init__` = `Ctors.scale`, entry by entry, any shape -/
theorem gen_scale_ctor_eq (scale : NArr ℝ) :
    (GenFam.Scale.init scale).shape = scale.shape ∧
      (GenFam.Scale.init scale).toBij = Bij.elementwise (scale.data.map (fun σ => (Ctors.scale σ).toBij)) :=
  ⟨rfl, scale_toBij _ _⟩

/-- generated `Loc.__init__`: stores the array and its shape -/
theorem gen_loc_ctor_eq (loc : NArr ℝ) :
    (GenFam.Loc.init loc).shape = loc.shape ∧ (GenFam.Loc.init loc).loc = loc ∧
      (GenFam.Loc.init loc).toBij = Bij.elementwise (loc.data.map (fun l => (Ctors.loc l).toBij)) :=
  ⟨rfl, rfl, rfl⟩

/-- `VmapMixture.log_normalized_weights` on the generated constructor: whatever positive weights are passed and whatever non-empty raw
array is stored afterwards, `exp` of the unwrapped leaf is a probability vector -/
theorem gen_mixture_weights_normalised {X K : Type} (dist : VDist X K ℝ) (w : NArr ℝ) (m : MixtureObj X K ℝ)
    (h : GenFam.VmapMixture.init dist w = some m) (hne : w.data ≠ []) (raw : List ℝ) (hr : raw ≠ []) :
    (m.unwrap.log_normalized_weights.map Real.exp).sum = 1 ∧
    (((MixtureObj.unwrap { m with log_normalized_weights := { m.log_normalized_weights with args := raw } }).log_normalized_weights).map
        Real.exp).sum = 1 := by
  by_cases hany : (List.map (fun x => decide (x ≤ 0)) w.data).any id = true
  · simp [GenFam.VmapMixture.init, errorIf, leZero, hany] at h
  · simp only [GenFam.VmapMixture.init, errorIf, leZero, hany, Bool.false_eq_true, if_false, Option.bind_some, Option.some.injEq] at h
    subst h
    simp only [MixtureObj.unwrap, Gen.Wr.Lambda.unwrap, Gen.mixtureLogNormalizedWeights, jnp_logSoftmax_eq]
    exact ⟨FamiliesPf.logSoftmax_normalised (by simpa [Gen.mixtureRawInit] using hne), FamiliesPf.logSoftmax_normalised hr⟩

/-- non-vacuity: a negative-free broadcasting constructor call and a rejected `df` -/
theorem gen_ctor_instance :
    (∃ d, GenFam.Affine.init (⟨[3], [0, 1, 2]⟩ : NArr ℝ) ⟨[2, 1], [1, 2]⟩ = some d ∧ d.shape = [2, 3] ∧
      ∀ σ ∈ (Gen.Wr.BijectionReparam.unwrap d.scale).data, 0 < σ) ∧
    GenFam.StandardStudentT.init (⟨[2], [3, 0]⟩ : NArr ℝ) = none := by
  constructor
  · obtain ⟨d, hd, hs, _⟩ := (gen_affine_ctor_eq (⟨[3], [0, 1, 2]⟩ : NArr ℝ) ⟨[2, 1], [1, 2]⟩).1 [2, 3] (by decide)
    exact ⟨d, hd, hs, (gen_affine_scale_pos _ _ d hd [] []).1⟩
  · rw [gen_df_rejects_iff]; exact ⟨0, by simp, le_rfl⟩

end FamiliesGen
section TriangularGen
/-! ## TriangularAffine REGENERATED (`Gen/TriangularGen.lean`): the constrained diagonal and the constructor's check on the generated
definitions (`__init__` in exception-valued form, `_to_triangular`, `unwrap` = `TriGen.unwrap` over the generated wrapper bodies) -/

/-- `tri_diag_pos` on the generated `_to_triangular` / `BijectionReparam.unwrap`: for a square `arr` and raw diagonal parameters of
matching length the diagonal of the unwrapped `triangular` is `softplus raw`, entrywise strictly positive — either orientation, any
dimension, every raw value. -/
theorem gen_tri_diag_pos (lower : Bool) (raw : List ℝ) (arr : List (List ℝ)) (loc : List ℝ)
    (hsq : ∀ r ∈ arr, r.length = arr.length) (hl : raw.length = arr.length) :
    ∃ d : List ℝ, diagEntries (TriGen.unwrap (TriGen.ofRaw lower raw arr loc)).triangular = d.map some ∧
      d.length = arr.length ∧ ∀ x ∈ d, 0 < x := by
  have e : (TriGen.unwrap (TriGen.ofRaw lower raw arr loc)).triangular
      = (TriGenPf.toModel (TriGen.unwrap (TriGen.ofRaw lower raw arr loc))).triangular := rfl
  rw [e, TriGenPf.gen_ofRaw_eq lower raw arr loc (fun r hr => by rw [hsq r hr, hl])]
  exact tri_diag_pos lower raw arr hsq hl

/-- the generated `_to_triangular` is the hand model's entry formula (so `tri_entries` is about it): `diagᵢ` on the diagonal, `arr`'s
entry strictly inside the chosen triangle, 0 in the other — `tril(k=-1)` / `triu(k=1)` exactly. -/
theorem gen_tri_to_triangular (lower : Bool) (diag : List ℝ) (arr : List (List ℝ)) (h : ∀ r ∈ arr, r.length ≤ diag.length) :
    TriangularAffine.toTriangular lower diag arr = toTriangular lower diag arr :=
  TriGenPf.gen_toTriangular_eq lower diag arr h

/-- the generated constructor's check: accepted exactly for a rank-2 array with as many rows as columns (and a `loc` of that size
or size 1); everything else — a vector, a rank-3 array, a non-square matrix — is a `ValueError`, never another exception. -/
theorem gen_tri_ctor_accepts_iff (loc : List ℝ) (arr : TriPrims.NdArr ℝ) (lower : Bool) :
    ((∃ s, TriangularAffine.init loc arr lower = .ok s) ↔
      arr.ndim = 2 ∧ arr.shapeGet 0 = arr.shapeGet 1 ∧ (loc.length = arr.shapeGet 0 ∨ loc.length = 1)) ∧
    (∀ e, TriangularAffine.init loc arr lower = .error e → e = .valueError) :=
  ⟨TriGenPf.gen_init_accepts_iff loc arr lower, TriGenPf.gen_init_error_class loc arr lower⟩

/-- … and whenever the hand constructor model `Tri.init` accepts, the generated constructor accepts and unwraps to the same object -/
theorem gen_tri_ctor_eq_model (lower : Bool) (m : List (List ℝ)) (loc : List ℝ) (hl : loc.length = m.length)
    {t : Tri.TriAffine ℝ} (h : Tri.init lower m loc = some t) :
    ∃ s, TriangularAffine.init loc (.mat m) lower = .ok s ∧ TriGenPf.toModel (TriGen.unwrap s) = t ∧ s.shape = [m.length] :=
  TriGenPf.gen_init_eq_model lower m loc hl h

/-- non-vacuity: a 2 × 2 matrix is accepted, a 2 × 3 matrix, a vector and a mismatching `loc` are rejected -/
theorem gen_tri_ctor_instance :
    (∃ s, TriangularAffine.init [0, 0] (.mat [[1, 2], [3, (4 : ℝ)]]) true = .ok s) ∧
    TriangularAffine.init [0, 0] (.mat [[1, 2, 3], [4, 5, (6 : ℝ)]]) true = .error .valueError ∧
    TriangularAffine.init [0, 0] (.vec [1, (2 : ℝ)]) true = .error .valueError ∧
    TriangularAffine.init [0, 0, 0] (.mat [[1, 2], [3, (4 : ℝ)]]) true = .error .valueError := by
  refine ⟨(TriGenPf.gen_init_accepts_iff _ _ _).mpr (by simp [TriPrims.NdArr.ndim, TriPrims.NdArr.shapeGet, TriPrims.NdArr.shape]),
    ?_, ?_, ?_⟩ <;>
  simp [TriangularAffine.init, TriPrims.NdArr.ndim, TriPrims.NdArr.shapeGet, TriPrims.NdArr.shape, TriPrims.broadcastTo,
    TriPrims.NdArr.asMat, Except.bind]

end TriangularGen

section PermGen
/-! ## Permute REGENERATED (`Gen/PermGen.lean`): the constructor's rejection on the generated `__init__` -/
open PermPrims Gen.PermGen

/-- `reject_iff_not_permutation` on the generated constructor: it raises (the `eqx.error_if` error) IFF the flattened entries are not a
permutation of `0 … size−1` — any rank, shape, size; in particular the predicate it hands to `error_if` is the hand model's
`permuteRejects`. -/
theorem gen_reject_iff_not_permutation (p : IArr) :
    (Permute.init p = .error .runtimeError ↔ ¬ p.data.Perm ((List.range p.data.length).map Int.ofNat)) ∧
    ((ne (sort (ravel p)) (arange (size p))).any id = permuteRejects p.data) := by
  refine ⟨?_, PermGenPf.errorIf_pred p⟩
  rw [← reject_iff_not_permutation]
  have := PermGenPf.gen_init_accepts_iff p
  cases hr : permuteRejects p.data
  · rw [hr] at this
    obtain ⟨s, hs⟩ := this.mpr rfl
    simp [hs]
  · rw [hr] at this
    simp only [reduceCtorEq, iff_false, not_exists] at this
    cases hi : Permute.init p with
    | ok s => exact absurd hi (this s)
    | error e => cases e; simp

/-- non-vacuity: out-of-range, negative and repeated entries are rejected, a valid 2 × 2 array is accepted -/
theorem gen_permute_reject_instance :
    Permute.init ⟨[3], [0, 1, 3]⟩ = .error .runtimeError ∧ Permute.init ⟨[3], [0, -1, 2]⟩ = .error .runtimeError ∧
    Permute.init ⟨[2, 2], [0, 1, 1, 2]⟩ = .error .runtimeError ∧ ¬ Permute.init ⟨[2, 2], [3, 1, 0, 2]⟩ = .error .runtimeError :=
  ⟨(gen_reject_iff_not_permutation _).1.mpr (by decide), (gen_reject_iff_not_permutation _).1.mpr (by decide),
   (gen_reject_iff_not_permutation _).1.mpr (by decide),
   fun h => absurd (show List.Perm [3, 1, 0, 2] ((List.range 4).map Int.ofNat) by decide) ((gen_reject_iff_not_permutation _).1.mp h)⟩

end PermGen

section Audit
/-! ## AUDIT (g27): non-vacuity instances and excluded-input evaluations added by the reviewer; no existing declaration changed -/

/-- AUDIT: `rqs_params_wf_core` instantiated at a NON-trivial point (K = 2 knots, raw values of both signs, the library's
`softmax_adjust = 1e-2`, `min_derivative = 1e-3`, interval (−3, 3)) — the pre-existing `knots_instance` is K = 1, raw 0, adjust 0. -/
theorem rqs_params_wf_audit_instance :
    let xs := realToIncreasingOnInterval [(1 : ℝ), -2] (-3, 3) (1 / 100)
    let ys := realToIncreasingOnInterval [(0 : ℝ), 5] (-3, 3) (1 / 100)
    let ds := rqsDerivatives (1 / 1000) [(0 : ℝ), 1, -1, 40]
    xs.length = 4 ∧ ys.length = 4 ∧ ds.length = 4 ∧ xs.Pairwise (· < ·) ∧ ys.Pairwise (· < ·) ∧
      xs.head? = some (-3) ∧ xs.getLast? = some 3 ∧ ∀ d ∈ ds, 0 < d := by
  have h := rqs_params_wf_core (rawX := [(1 : ℝ), -2]) (rawY := [(0 : ℝ), 5]) (rawD := [(0 : ℝ), 1, -1, 40])
    (lo := -3) (hi := 3) (adj := 1 / 100) (δ := 1 / 1000) (by simp) rfl rfl (by norm_num) (by norm_num) (by norm_num)
  simp only at h ⊢
  obtain ⟨h1, h2, h3, h4, h5, h6, h7, _, _, h10⟩ := h
  exact ⟨h1, h2.trans h1, h3.trans h1, h4, h5, h6, h7, h10⟩

/-- AUDIT: `tri_diag_pos` at an UPPER-triangular 2 × 2 with negative raw diagonal parameters. -/
theorem tri_diag_pos_audit_instance :
    ∃ d : List ℝ, diagEntries (triangularOfRaw false [(-5 : ℝ), -40] [[1, 2], [3, 4]]) = d.map some ∧ d.length = 2 ∧
      ∀ x ∈ d, 0 < x :=
  tri_diag_pos false [-5, -40] [[1, 2], [3, 4]] (by intro r hr; simp at hr; rcases hr with rfl | rfl <;> rfl) rfl

/-- AUDIT (excluded input of `weightnorm_row_norm` / `gen_weightnorm_row_norm`): a ZERO row.  The ℝ model totalises `0/0 = 0`: the
unwrapped row is the zero row, of norm `0 ≠ softplus raw`, so "weight-normalised rows keep their norm parameter" is FALSE there and the
hypothesis `w·w ≠ 0` is necessary (the real code returns NaN).  A zero row is a finite value of the trainable array. -/
theorem weightnorm_zero_row_audit (raw : ℝ) :
    (⟨[0, 0], (softplusRaw raw).unwrap⟩ : WeightNormRow ℝ).unwrap = [0, 0] ∧
    Real.sqrt (Jnp.dot ([0, 0] : List ℝ) [0, 0]) ≠ (softplusRaw raw).unwrap := by
  refine ⟨by simp [WeightNormRow.unwrap], ?_⟩
  have := ParamsPf.softplusRaw_pos raw
  simp [ParamsPf.jdot_eq]
  exact this.ne

/-- AUDIT (excluded input of `planar_constraint`): `w = 0`.  The ℝ model's `get_act_scale` divides by `‖w‖² = 0` (`x/0 = 0`) and
returns `u` unchanged; `wᵀû = 0`, which is NOT the value `−1 + log(1 + softplus(wᵀu))` of the theorem — the hypothesis `w·w ≠ 0` is
necessary for the equation (the real code returns NaN at `w = 0`, a finite value of the trainable array). -/
theorem planar_zero_weight_audit (u0 u1 b : ℝ) :
    (UnconditionalPlanar.get_act_scale ⟨[0, 0], [u0, u1], b⟩ : List ℝ) = [u0, u1] := by
  simp [UnconditionalPlanar.get_act_scale, ParamsPf.jdot_eq]

/-- AUDIT: `gen_weightnorm_row_norm` applied (hypotheses `hlen`, `hw` jointly satisfiable; 2 × 2, a negative scale entry). -/
theorem gen_weightnorm_row_norm_audit_instance :
    ∀ hi : 1 < (⟨[[3, 4], [0, -2]], [2, -3]⟩ : Wr.WeightNormalization ℝ).unwrap.length,
      Real.sqrt (Jnp.dot ((⟨[[3, 4], [0, -2]], [2, -3]⟩ : Wr.WeightNormalization ℝ).unwrap[1])
        ((⟨[[3, 4], [0, -2]], [2, -3]⟩ : Wr.WeightNormalization ℝ).unwrap[1])) = |(-3 : ℝ)| := by
  intro hi
  have h := gen_weightnorm_row_norm (⟨[[3, 4], [0, -2]], [2, -3]⟩ : Wr.WeightNormalization ℝ) rfl
    (by intro row hrow; simp at hrow; rcases hrow with rfl | rfl <;> simp [ParamsPf.jdot_eq] <;> norm_num)
  exact (h.2 1 hi (by simp) (by simp)).2

/-- AUDIT: `mixture_weights_normalised` applied to raw log-weights of both signs. -/
theorem mixture_weights_audit_instance :
    ((mixtureLogNormalizedWeights [(3 : ℝ), -7, 0]).map Real.exp).sum = 1 :=
  (mixture_weights_normalised (by simp)).1

end Audit

end C11
