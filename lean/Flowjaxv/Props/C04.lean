import Mathlib.MeasureTheory.Measure.Haar.InnerProductSpace
import Flowjaxv.Proofs.MassLeaves
import Flowjaxv.Proofs.NetMass
import Flowjaxv.Proofs.Params
import Flowjaxv.Proofs.Planar
/-!
# C04 — exp(log_prob) integrates to one, and samples are distributed according to that density

The GLOBAL consequence of invertibility + correct log-determinants.  Everything that mentions
`Transformed`, `nestTransformed`, `Affine`, `LeakyTanh`, `RationalQuadraticSpline`, `Tanh`,
`StandardNormal` is about the definitions GENERATED from /repo (`Gen/Dist.lean`, `Gen/Leaves.lean`).

Layer hypotheses (`Proofs/MassFlow.lean`), at a fixed but arbitrary condition `c`:
* `Mass.InvJac b c` — `b` lawful ℝ ↔ ℝ, the inverse map has a (piecewise) derivative `d ≠ 0` and
  the reported inverse log-det is `log |d|`;
* `Mass.FwdJac b c` — the forward map has a (piecewise) derivative `d ≠ 0` and the reported
  inverse log-det is `-log |d (inverse y)|`;
* `Mass.InvJacN b c` — finite-dimensional: the inverse map is differentiable with Jacobian `D y`,
  `det D y ≠ 0`, inverse log-det `= log |det D y|`.
`Mass.PiecewiseDeriv f f'`: derivative `f'` on finitely many disjoint measurable pieces covering ℝ,
one-sided at piece boundaries (kinks allowed).

PARTIAL with respect to the informal property: the d-dimensional statements take the layer's
Jacobian facts as hypotheses (`InvJacN`), they are not yet discharged for Coupling / MAF / BNAF /
Planar; PRNG statistics and rounding are outside.
-/
open Gen Set MeasureTheory

namespace C04

/-! ## 1. mass is preserved by the change-of-variables density -/

/-- finite-dimensional `E`, any additive Haar measure -/
theorem mass_preserved {E : Type*} [NormedAddCommGroup E] [NormedSpace ℝ E] [FiniteDimensional ℝ E]
    [MeasurableSpace E] [BorelSpace E] (μ : Measure E) [μ.IsAddHaarMeasure]
    (T Tinv : E → E) (T' : E → E →L[ℝ] E)
    (hT : ∀ x, HasFDerivAt T (T' x) x) (hdet : ∀ x, (T' x).det ≠ 0)
    (hl : Function.LeftInverse Tinv T) (hr : Function.RightInverse Tinv T) (p : E → ℝ) :
    ∫ y, p (Tinv y) * |(T' (Tinv y)).det|⁻¹ ∂μ = ∫ z, p z ∂μ :=
  Mass.mass_preserved μ T Tinv T' hT hdet hl hr p

theorem mass_preserved_1d (T Tinv T' : ℝ → ℝ)
    (hT : ∀ x, HasDerivAt T (T' x) x) (hne : ∀ x, T' x ≠ 0)
    (hl : Function.LeftInverse Tinv T) (hr : Function.RightInverse Tinv T) (p : ℝ → ℝ) :
    ∫ y, p (Tinv y) * |T' (Tinv y)|⁻¹ = ∫ z, p z :=
  Mass.mass_preserved_1d T Tinv T' hT hne hl hr p

/-- finitely many kinks: `ℝ = (-∞,a] ∪ [a,b] ∪ [b,∞)` with one-sided derivatives at `a`, `b` -/
theorem mass_preserved_piecewise (T Tinv T' : ℝ → ℝ) {a b : ℝ} (hab : a ≤ b)
    (h1 : ∀ x < a, HasDerivWithinAt T (T' x) (Iic a) x)
    (h2 : ∀ x ∈ Icc a b, HasDerivWithinAt T (T' x) (Icc a b) x)
    (h3 : ∀ x, b < x → HasDerivWithinAt T (T' x) (Ici b) x)
    (hne : ∀ x, T' x ≠ 0)
    (hl : Function.LeftInverse Tinv T) (hr : Function.RightInverse Tinv T) (p : ℝ → ℝ) :
    ∫ y, p (Tinv y) * |T' (Tinv y)|⁻¹ = ∫ z, p z :=
  Mass.mass_preserved_piecewise T Tinv T' hab h1 h2 h3 hne hl hr p

/-- any finite number of measurable disjoint pieces -/
theorem mass_preserved_pieces (T Tinv T' : ℝ → ℝ) (hd : Mass.PiecewiseDeriv T T')
    (hne : ∀ x, T' x ≠ 0)
    (hl : Function.LeftInverse Tinv T) (hr : Function.RightInverse Tinv T) (p : ℝ → ℝ) :
    ∫ y, p (Tinv y) * |T' (Tinv y)|⁻¹ = ∫ z, p z :=
  Mass.mass_preserved_pieces T Tinv T' hd hne hl hr p

/-! ## 5. sampler and density agree as distributions -/

/-- if `Z` has density `p` then `T Z` has density `y ↦ p (T⁻¹ y) · |det DT (T⁻¹ y)|⁻¹` -/
theorem pushforward_density {E : Type*} [NormedAddCommGroup E] [NormedSpace ℝ E]
    [FiniteDimensional ℝ E] [MeasurableSpace E] [BorelSpace E] (μ : Measure E) [μ.IsAddHaarMeasure]
    (T Tinv : E → E) (T' : E → E →L[ℝ] E)
    (hT : ∀ x, HasFDerivAt T (T' x) x) (hdet : ∀ x, (T' x).det ≠ 0)
    (hl : Function.LeftInverse Tinv T) (hr : Function.RightInverse Tinv T) (p : E → ℝ) :
    Measure.map T (μ.withDensity fun z => ENNReal.ofReal (p z))
      = μ.withDensity fun y => ENNReal.ofReal (p (Tinv y) * |(T' (Tinv y)).det|⁻¹) :=
  Mass.pushforward_density μ T Tinv T' hT hdet hl hr p

theorem pushforward_density_1d (T Tinv T' : ℝ → ℝ)
    (hT : ∀ x, HasDerivAt T (T' x) x) (hne : ∀ x, T' x ≠ 0)
    (hl : Function.LeftInverse Tinv T) (hr : Function.RightInverse Tinv T) (p : ℝ → ℝ) :
    Measure.map T (volume.withDensity fun z => ENNReal.ofReal (p z))
      = volume.withDensity fun y => ENNReal.ofReal (p (Tinv y) * |T' (Tinv y)|⁻¹) :=
  Mass.pushforward_density_1d T Tinv T' hT hne hl hr p

/-- kinks allowed -/
theorem pushforward_density_pieces (T Tinv T' : ℝ → ℝ) (hd : Mass.PiecewiseDeriv T T')
    (hne : ∀ x, T' x ≠ 0)
    (hl : Function.LeftInverse Tinv T) (hr : Function.RightInverse Tinv T) (p : ℝ → ℝ) :
    Measure.map T (volume.withDensity fun z => ENNReal.ofReal (p z))
      = volume.withDensity fun y => ENNReal.ofReal (p (Tinv y) * |T' (Tinv y)|⁻¹) :=
  (Mass.pushforward_density_pieces T Tinv T' hd hne hl hr p).2

/-! ## 2. the bridge to the generated `Transformed` -/

/-- the density the generated `_log_prob` computes: base density at the inverse image times the
absolute derivative of the inverse map -/
theorem flow1d_density {C K : Type} (t : Transformed ℝ C K ℝ) (c : C)
    (hb : t.bijection.Lawful univ univ) (d : ℝ → ℝ)
    (hd : ∀ y, HasDerivAt (fun y => t.bijection.inv y c) (d y) y ∧ d y ≠ 0 ∧
      (t.bijection.invLd y c).2 = Real.log |d y|) (y : ℝ) :
    Real.exp (t.toDist.logProb y c)
      = Real.exp (t.base_dist.logProb (t.bijection.inv y c) c) * |d y| := by
  rw [Mass.transformed_density t c (fun y => hb.invLd_fst y c) y, (hd y).2.2,
    Real.exp_log (abs_pos.mpr (hd y).2.1)]

/-- a lawful layer with correct inverse log-det keeps the total mass: normalised base ⇒
normalised flow -/
theorem flow1d_normalised {C K : Type} (t : Transformed ℝ C K ℝ) (c : C)
    (hb : t.bijection.Lawful univ univ)
    (hd : ∀ y, ∃ d, HasDerivAt (fun y => t.bijection.inv y c) d y ∧ d ≠ 0 ∧
      (t.bijection.invLd y c).2 = Real.log |d|)
    (hbase : ∫ z, Real.exp (t.base_dist.logProb z c) = 1) :
    ∫ y, Real.exp (t.toDist.logProb y c) = 1 := by
  choose d hd using hd
  have hj : Mass.InvJac t.bijection c :=
    ⟨hb, d, Mass.PiecewiseDeriv.of_hasDerivAt (fun y => (hd y).1), fun y => (hd y).2⟩
  rw [Mass.transformed_mass volume t c hj.massOK, hbase]

/-- the same with either form of the Jacobian hypothesis, kinks allowed -/
theorem flow1d_normalised_of {C K : Type} (t : Transformed ℝ C K ℝ) (c : C)
    (h : Mass.InvJac t.bijection c ∨ Mass.FwdJac t.bijection c)
    (hbase : ∫ z, Real.exp (t.base_dist.logProb z c) = 1) :
    ∫ y, Real.exp (t.toDist.logProb y c) = 1 := by
  rw [Mass.transformed_mass volume t c (h.elim (·.massOK) (·.massOK)), hbase]

/-- **any 1-D stack of such layers over a normalised base integrates to one** — every depth,
every condition -/
theorem flow1d_stack_normalised {C K : Type} (base : Distn ℝ C K ℝ) (c : C)
    (bs : List (Bij ℝ C ℝ)) (hall : ∀ b ∈ bs, Mass.InvJac b c ∨ Mass.FwdJac b c)
    (hbase : ∫ z, Real.exp (base.logProb z c) = 1) :
    ∫ y, Real.exp ((nestTransformed base bs).logProb y c) = 1 := by
  rw [Mass.nest_mass volume base c bs (fun b hb => (hall b hb).elim (·.massOK) (·.massOK)), hbase]

/-- the same through `merge_transforms` (one `Transformed` over the `Chain` of the layers) -/
theorem flow1d_chain_normalised {C K : Type} (base : Distn ℝ C K ℝ) (c : C)
    (bs : List (Bij ℝ C ℝ)) (hall : ∀ b ∈ bs, Mass.InvJac b c ∨ Mass.FwdJac b c)
    (hbase : ∫ z, Real.exp (base.logProb z c) = 1) :
    ∫ y, Real.exp ((mergeTransforms base bs).logProb y c) = 1 := by
  rw [← flow1d_stack_normalised base c bs hall hbase]
  congr 1; funext y
  rw [(Gen.merge_transforms_sem base bs).logProb]

/-- **samples follow the density**: keys drawn from any measure `κ`; if the base sampler's law
has density `exp ∘ base log_prob`, the law of the flow's `sample` has density `exp ∘ log_prob` —
every depth, every condition -/
theorem flow1d_stack_sample_law {C K : Type} [MeasurableSpace K] (κ : Measure K)
    (base : Distn ℝ C K ℝ) (c : C) (bs : List (Bij ℝ C ℝ))
    (hall : ∀ b ∈ bs, Mass.InvJac b c ∨ Mass.FwdJac b c)
    (hs : Measurable fun k => base.sample k c)
    (hbase : Measure.map (fun k => base.sample k c) κ
      = volume.withDensity fun z => ENNReal.ofReal (Real.exp (base.logProb z c))) :
    Measure.map (fun k => (nestTransformed base bs).sample k c) κ
      = volume.withDensity fun y => ENNReal.ofReal (Real.exp ((nestTransformed base bs).logProb y c)) :=
  (Mass.nest_law volume κ base c bs (fun b hb => (hall b hb).elim (·.lawOK) (·.lawOK)) hs hbase).2

/-! ## 3. the generated leaves satisfy the layer hypotheses -/

theorem affine_layer {C : Type} (p : Affine ℝ) (h : p.scale ≠ 0) (c : C) :
    Mass.InvJac (p.toBij : Bij ℝ C ℝ) c := Mass.affine_invJac p h c

theorem scale_layer {C : Type} (p : Scale ℝ) (h : p.scale ≠ 0) (c : C) :
    Mass.InvJac (p.toBij : Bij ℝ C ℝ) c := Mass.scale_invJac p h c

theorem loc_layer {C : Type} (p : Loc ℝ) (c : C) :
    Mass.InvJac (p.toBij : Bij ℝ C ℝ) c := Mass.loc_invJac p c

/-- LeakyTanh(max_val) as built by the generated constructor, any `max_val > 0`; pieces
`(-∞,-m]`, `(-m,m)`, `[m,∞)`, switch points included -/
theorem leakytanh_layer {C : Type} {m : ℝ} (hm : 0 < m) (c : C) :
    Mass.FwdJac ((LeakyTanh.init m).toBij : Bij ℝ C ℝ) c :=
  Mass.leakytanh_fwdJac (Leaves.leaky_init_wf hm) c

/-- the generated `LeakyTanh.transform` built by the generated constructor is differentiable at
EVERY point, the two switch points `±max_val` included (the constructor's `linear_grad` matches
`1 - tanh² max_val`); the derivative is `linear_grad` outside and `1 - tanh² x` inside -/
theorem leakytanh_differentiable {m : ℝ} (hm : 0 < m) (x : ℝ) :
    HasDerivAt (LeakyTanh.init m : LeakyTanh ℝ).transform
      (if m ≤ |x| then 1 - Real.tanh m ^ 2 else 1 - Real.tanh x ^ 2) x := by
  have h := Mass.leaky_hasDerivAt (Leaves.leaky_init_wf hm) (Docs.leaky_linear_grad_eq m) x
  have e : Mass.leakyDer (LeakyTanh.init m) x
      = if m ≤ |x| then 1 - Real.tanh m ^ 2 else 1 - Real.tanh x ^ 2 := by
    unfold Mass.leakyDer
    rw [Docs.leaky_linear_grad_eq m]; rfl
  rwa [e] at h

/-- `LeakyTanh.init m` satisfies exactly the inverse-direction hypotheses of `flow1d_normalised`:
its inverse is differentiable everywhere with non-zero derivative `d` and the reported inverse
log-det is `log |d|` -/
theorem leakytanh_inverse_direction {C : Type} {m : ℝ} (hm : 0 < m) (c : C) (y : ℝ) :
    ∃ d, HasDerivAt (fun y => ((LeakyTanh.init m).toBij : Bij ℝ C ℝ).inv y c) d y ∧ d ≠ 0 ∧
      (((LeakyTanh.init m).toBij : Bij ℝ C ℝ).invLd y c).2 = Real.log |d| :=
  Mass.leakytanh_init_inverse_deriv hm c y

/-- rational-quadratic spline, any parameters the constructor can produce; pieces `(-∞,lo)`,
`[lo,hi]`, `(hi,∞)` with one-sided derivatives at `lo`, `hi` (boundary derivative ≠ 1 allowed) -/
theorem rqs_layer {C : Type} {p : RationalQuadraticSpline ℝ} (h : Rqs.RqsWF p) (c : C) :
    Mass.FwdJac (p.toBij : Bij ℝ C ℝ) c := Mass.rqs_fwdJac h c

/-- the generated spline `derivative` is the one-sided derivative of the generated `transform`
at both ends of the interval -/
theorem rqs_one_sided_derivative_at_ends {p : RationalQuadraticSpline ℝ} (h : Rqs.RqsWF p) :
    HasDerivWithinAt p.transform (p.derivative p.interval.1) (Icc p.interval.1 p.interval.2) p.interval.1 ∧
    HasDerivWithinAt p.transform (p.derivative p.interval.2) (Icc p.interval.1 p.interval.2) p.interval.2 :=
  ⟨Mass.rqs_hasDerivWithinAt_lo h, Mass.rqs_hasDerivWithinAt_hi h⟩

/-! ## 4. surjectivity per layer (the content behind normalisation) -/

theorem affine_bijective (p : Affine ℝ) (h : p.scale ≠ 0) : Function.Bijective p.transform :=
  Mass.affine_bijective p h

theorem leakytanh_bijective {m : ℝ} (hm : 0 < m) :
    Function.Bijective (LeakyTanh.init m : LeakyTanh ℝ).transform :=
  Mass.leakytanh_bijective_of (Leaves.leaky_init_wf hm)

theorem rqs_bijective {p : RationalQuadraticSpline ℝ} (h : Rqs.RqsWF p) :
    Function.Bijective p.transform := Mass.rqs_bijective h

/-- Tanh is not onto ℝ: the documented reason BNAF defaults to LeakyTanh -/
theorem tanh_not_surjective : ¬ Function.Surjective (Tanh.transform ({} : NoParams ℝ)) :=
  Mass.tanh_not_surjective

/-- the deficit: a density evaluated through `tanh` (what `log_prob` of an inverted flow whose
transform ends in Tanh does) only collects the base mass lying in `(-1,1)` -/
theorem tanh_flow_mass_deficit (p : ℝ → ℝ) :
    ∫ x, p (Tanh.transform ({} : NoParams ℝ) x) * (1 - Tanh.transform ({} : NoParams ℝ) x ^ 2)
      = ∫ z in Ioo (-1 : ℝ) 1, p z := Mass.tanh_pullback_mass p

/-! ## 6. d dimensions, Jacobian facts as hypotheses -/

/-- `E = ℝⁿ` (Euclidean), Lebesgue measure: a lawful layer whose inverse has Jacobian `D` with
`log |det D|` as reported inverse log-det keeps a normalised base normalised -/
theorem flowNd_normalised_of {n : ℕ} {C K : Type} (t : Transformed (EuclideanSpace ℝ (Fin n)) C K ℝ)
    (c : C) (h : Mass.InvJacN t.bijection c)
    (hbase : ∫ z, Real.exp (t.base_dist.logProb z c) = 1) :
    ∫ y, Real.exp (t.toDist.logProb y c) = 1 := by
  rw [Mass.transformed_mass volume t c (h.massOK volume), hbase]

/-- any depth of layers, any finite-dimensional `E`, any additive Haar measure -/
theorem flowNd_stack_normalised_of {E C K : Type} [NormedAddCommGroup E] [NormedSpace ℝ E]
    [FiniteDimensional ℝ E] [MeasurableSpace E] [BorelSpace E] (μ : Measure E) [μ.IsAddHaarMeasure]
    (base : Distn E C K ℝ) (c : C) (bs : List (Bij E C ℝ)) (hall : ∀ b ∈ bs, Mass.InvJacN b c)
    (hbase : ∫ z, Real.exp (base.logProb z c) ∂μ = 1) :
    ∫ y, Real.exp ((nestTransformed base bs).logProb y c) ∂μ = 1 := by
  rw [Mass.nest_mass μ base c bs (fun b hb => (hall b hb).massOK μ), hbase]

theorem flowNd_stack_sample_law_of {E C K : Type} [NormedAddCommGroup E] [NormedSpace ℝ E]
    [FiniteDimensional ℝ E] [MeasurableSpace E] [BorelSpace E] (μ : Measure E) [μ.IsAddHaarMeasure]
    [MeasurableSpace K] (κ : Measure K)
    (base : Distn E C K ℝ) (c : C) (bs : List (Bij E C ℝ)) (hall : ∀ b ∈ bs, Mass.InvJacN b c)
    (hs : Measurable fun k => base.sample k c)
    (hbase : Measure.map (fun k => base.sample k c) κ
      = μ.withDensity fun z => ENNReal.ofReal (Real.exp (base.logProb z c))) :
    Measure.map (fun k => (nestTransformed base bs).sample k c) κ
      = μ.withDensity fun y => ENNReal.ofReal (Real.exp ((nestTransformed base bs).logProb y c)) :=
  (Mass.nest_law μ κ base c bs (fun b hb => (hall b hb).lawOK μ) hs hbase).2

/-! ## 7. non-vacuity -/

/-- the generated `StandardNormal._log_prob` (scalar) is normalised -/
theorem standard_normal_normalised {C K : Type} (s : K → C → ℝ) (c : C) :
    ∫ z, Real.exp ((Mass.stdNormal s).logProb z c) = 1 := Mass.stdNormal_normalised s c

/-- Normal(1, −2) built as `Transformed(StandardNormal, Affine(1, −2))` integrates to one -/
theorem affine_instance {K : Type} (s : K → Unit → ℝ) :
    ∫ y, Real.exp ((Transformed.mk (Mass.stdNormal s)
      ((Affine.mk 1 (-2) : Affine ℝ).toBij)).toDist.logProb y ()) = 1 :=
  flow1d_normalised_of _ () (Or.inl (Mass.affine_invJac _ (by norm_num) ())) (Mass.stdNormal_normalised s ())

/-- `Transformed(StandardNormal, LeakyTanh(3))` integrates to one, through `flow1d_normalised`
with its inverse-direction hypotheses -/
theorem leakytanh_instance {K : Type} (s : K → Unit → ℝ) :
    ∫ y, Real.exp ((Transformed.mk (Mass.stdNormal s)
      ((LeakyTanh.init 3 : LeakyTanh ℝ).toBij)).toDist.logProb y ()) = 1 :=
  flow1d_normalised _ () (Leaves.leakytanh_lawful (Leaves.leaky_init_wf (by norm_num)))
    (fun y => Mass.leakytanh_init_inverse_deriv (by norm_num) () y) (Mass.stdNormal_normalised s ())

/-- a three-layer stack `StandardNormal → LeakyTanh.init 3 → Affine(1/2, 4) → spline` (the
3-bin example spline has boundary derivatives 2 and 3: two genuine kinks) integrates to one -/
theorem stack_instance {K : Type} (s : K → Unit → ℝ) :
    ∫ y, Real.exp ((nestTransformed (Mass.stdNormal s)
      [((LeakyTanh.init 3 : LeakyTanh ℝ).toBij : Bij ℝ Unit ℝ), (Affine.mk (1/2) 4 : Affine ℝ).toBij,
       Rqs.exampleSpline.toBij]).logProb y ()) = 1 := by
  refine flow1d_stack_normalised _ () _ ?_ (Mass.stdNormal_normalised s ())
  intro b hb
  simp only [List.mem_cons, List.not_mem_nil, or_false] at hb
  rcases hb with rfl | rfl | rfl
  · exact Or.inr (leakytanh_layer (by norm_num) ())
  · exact Or.inl (Mass.affine_invJac _ (by norm_num) ())
  · exact Or.inr (rqs_layer Rqs.rqsWF_instance ())

/-- the d-dimensional hypotheses are satisfiable: the identity bijection on `ℝⁿ` -/
theorem flowNd_instance {n : ℕ} {C : Type} (c : C) :
    Mass.InvJacN (Bij.id : Bij (EuclideanSpace ℝ (Fin n)) C ℝ) c := by
  have hdet : (ContinuousLinearMap.id ℝ (EuclideanSpace ℝ (Fin n))).det = 1 := by
    rw [ContinuousLinearMap.det, ContinuousLinearMap.coe_id]; exact LinearMap.det_id
  refine ⟨Bij.id_lawful univ, fun _ => ContinuousLinearMap.id ℝ _, fun y => ⟨?_, ?_, ?_⟩⟩
  · exact hasFDerivAt_id y
  · rw [hdet]; exact one_ne_zero
  · rw [hdet]; simp [Bij.id]

/-- non-vacuity of `InvJacN`: isotropic scaling of `ℝⁿ` by any `a ≠ 0` -/
theorem flowNd_scale_instance {n : ℕ} {C : Type} (a : ℝ) (ha : a ≠ 0) (c : C) :
    Mass.InvJacN (Mass.scaleBij n C a) c := by
  have hdet : (a⁻¹ • ContinuousLinearMap.id ℝ (EuclideanSpace ℝ (Fin n))).det = a⁻¹ ^ n := by
    rw [ContinuousLinearMap.det, ContinuousLinearMap.toLinearMap_smul, ContinuousLinearMap.coe_id,
      LinearMap.det_smul, LinearMap.det_id, finrank_euclideanSpace_fin, mul_one]
  refine ⟨⟨fun _ _ _ => trivial, fun _ _ _ => trivial, ?_, ?_, fun _ _ => rfl, fun _ _ => rfl⟩,
    fun _ => a⁻¹ • ContinuousLinearMap.id ℝ _, fun y => ⟨?_, ?_, ?_⟩⟩
  · intro x _ _; simp [Mass.scaleBij, smul_smul, inv_mul_cancel₀ ha]
  · intro y _ _; simp [Mass.scaleBij, smul_smul, mul_inv_cancel₀ ha]
  · exact (hasFDerivAt_id y).const_smul a⁻¹
  · rw [hdet]; exact pow_ne_zero _ (inv_ne_zero ha)
  · rw [hdet]; simp [Mass.scaleBij, abs_pow, abs_inv, Real.log_pow, Real.log_inv]

/-- non-vacuity of the sampler theorem: keys drawn from the standard normal law, the base sampler
returning its key (the convention of the C03 model); the law of the three-layer stack's `sample` has
density `exp ∘ log_prob` -/
theorem stack_sample_law_instance :
    Measure.map (fun k => (nestTransformed (Mass.stdNormal (C := Unit) (fun k _ => k))
        [((LeakyTanh.init 3 : LeakyTanh ℝ).toBij : Bij ℝ Unit ℝ), (Affine.mk (1/2) 4 : Affine ℝ).toBij,
         Rqs.exampleSpline.toBij]).sample k ())
      (volume.withDensity fun z => ENNReal.ofReal (Real.exp ((Mass.stdNormal (C := Unit) (K := ℝ) (fun k _ => k)).logProb z ())))
    = volume.withDensity fun y => ENNReal.ofReal (Real.exp ((nestTransformed (Mass.stdNormal (C := Unit) (fun k _ => k))
        [((LeakyTanh.init 3 : LeakyTanh ℝ).toBij : Bij ℝ Unit ℝ), (Affine.mk (1/2) 4 : Affine ℝ).toBij,
         Rqs.exampleSpline.toBij]).logProb y ())) := by
  refine flow1d_stack_sample_law _ _ () _ ?_ measurable_id Measure.map_id
  intro b hb
  simp only [List.mem_cons, List.not_mem_nil, or_false] at hb
  rcases hb with rfl | rfl | rfl
  · exact Or.inr (leakytanh_layer (by norm_num) ())
  · exact Or.inl (Mass.affine_invJac _ (by norm_num) ())
  · exact Or.inr (rqs_layer Rqs.rqsWF_instance ())

/-! ## ===== BEGIN 8. d dimensions, unconditional for the affine coupling architecture =====

`Mass.InvJacN` DISCHARGED for `Coupling` with the generated `Affine` transformer (helpers in `Proofs/NetMass.lean`):
the layer is the hand model `Masks.couplingBij d cnd tf` read in coordinates on `ℝⁿ = Fin n → ℝ`
(`NetMass.liftBij`), `tf ps = Affine(loc ps, scale ps)` (`NetLogDet.affineFamily`; flowjax: `loc = ps[0]`,
`scale = softplus(ps[1])`), for ANY conditioner function whose location / scale outputs are differentiable in the input
(`NetLogDet.CondDiff`), any first-block size `d ≤ n`, any condition, any non-vanishing scale.  Lawfulness is C01
`coupling_lawful`, the Jacobian determinant of the inverse pass is C02 `coupling_logdet` (block lower triangular).
With the default `relu` conditioner `CondDiff` fails on the kinks (a null set): outside this theorem. -/
section CouplingNd
open Masks MasksPf

/-- the affine coupling layer satisfies the d-dimensional layer hypothesis at every condition -/
theorem coupling_affine_layer (d n : ℕ) (hdn : d ≤ n) (cnd : List ℝ → List ℝ) (loc scale : List ℝ → ℝ)
    (hs : ∀ ps, scale ps ≠ 0) (c : List ℝ) (hc : NetLogDet.CondDiff d n cnd loc scale c) :
    Mass.InvJacN (NetMass.liftBij n (couplingBij d cnd (NetLogDet.affineFamily loc scale))) c :=
  NetMass.coupling_affine_invJacN d n cnd loc scale hdn hs c hc

/-- **`flowNd_coupling_normalised`**: `Transformed(base, Coupling(Affine))` over a normalised base on `ℝⁿ` integrates
to one — no Jacobian hypothesis left -/
theorem flowNd_coupling_normalised {K : Type} (d n : ℕ) (hdn : d ≤ n) (cnd : List ℝ → List ℝ)
    (loc scale : List ℝ → ℝ) (hs : ∀ ps, scale ps ≠ 0) (base : Distn (Fin n → ℝ) (List ℝ) K ℝ) (c : List ℝ)
    (hc : NetLogDet.CondDiff d n cnd loc scale c)
    (hbase : ∫ z, Real.exp (base.logProb z c) = 1) :
    ∫ y, Real.exp ((Transformed.mk base
      (NetMass.liftBij n (couplingBij d cnd (NetLogDet.affineFamily loc scale)))).toDist.logProb y c) = 1 := by
  rw [Mass.transformed_mass volume _ c ((coupling_affine_layer d n hdn cnd loc scale hs c hc).massOK volume), hbase]

/-- any depth: a stack of affine coupling layers (each with its own split, conditioner and parameter maps) over a
normalised base integrates to one, and the law of `sample` has density `exp ∘ log_prob` -/
theorem flowNd_coupling_stack_normalised {K : Type} (n : ℕ) (base : Distn (Fin n → ℝ) (List ℝ) K ℝ) (c : List ℝ)
    (bs : List (Bij (Fin n → ℝ) (List ℝ) ℝ))
    (hall : ∀ b ∈ bs, ∃ (d : ℕ) (cnd : List ℝ → List ℝ) (loc scale : List ℝ → ℝ), d ≤ n ∧ (∀ ps, scale ps ≠ 0) ∧
      NetLogDet.CondDiff d n cnd loc scale c ∧
      b = NetMass.liftBij n (couplingBij d cnd (NetLogDet.affineFamily loc scale)))
    (hbase : ∫ z, Real.exp (base.logProb z c) = 1) :
    ∫ y, Real.exp ((nestTransformed base bs).logProb y c) = 1 := by
  refine flowNd_stack_normalised_of volume base c bs ?_ hbase
  intro b hb
  obtain ⟨d, cnd, loc, scale, hdn, hs, hc, rfl⟩ := hall b hb
  exact coupling_affine_layer d n hdn cnd loc scale hs c hc

theorem flowNd_coupling_stack_sample_law {K : Type} [MeasurableSpace K] (κ : Measure K) (n : ℕ)
    (base : Distn (Fin n → ℝ) (List ℝ) K ℝ) (c : List ℝ) (bs : List (Bij (Fin n → ℝ) (List ℝ) ℝ))
    (hall : ∀ b ∈ bs, ∃ (d : ℕ) (cnd : List ℝ → List ℝ) (loc scale : List ℝ → ℝ), d ≤ n ∧ (∀ ps, scale ps ≠ 0) ∧
      NetLogDet.CondDiff d n cnd loc scale c ∧
      b = NetMass.liftBij n (couplingBij d cnd (NetLogDet.affineFamily loc scale)))
    (hs : Measurable fun k => base.sample k c)
    (hbase : Measure.map (fun k => base.sample k c) κ
      = volume.withDensity fun z => ENNReal.ofReal (Real.exp (base.logProb z c))) :
    Measure.map (fun k => (nestTransformed base bs).sample k c) κ
      = volume.withDensity fun y => ENNReal.ofReal (Real.exp ((nestTransformed base bs).logProb y c)) := by
  refine flowNd_stack_sample_law_of volume κ base c bs ?_ hs hbase
  intro b hb
  obtain ⟨d, cnd, loc, scale, hdn, hs', hc, rfl⟩ := hall b hb
  exact coupling_affine_layer d n hdn cnd loc scale hs' c hc

/-- non-vacuity: on `ℝ²`, `d = 1`, the NON-LINEAR conditioner `l ↦ l.map (a ↦ a² + 1)`, location = first parameter,
scale `2`: `(x₀, x₁) ↦ (x₀, 2x₁ + x₀² + 1)` satisfies every hypothesis, at every condition -/
theorem coupling_affine_instance (c : List ℝ) :
    Mass.InvJacN (NetMass.liftBij 2 (couplingBij 1 (fun l => l.map fun a => a * a + 1)
      (NetLogDet.affineFamily (fun ps => ps.getD 0 0) (fun _ => 2)))) c := by
  refine coupling_affine_layer 1 2 (by norm_num) _ _ _ (fun _ => by norm_num) c ?_
  intro k hk
  have hk0 : k = 0 := by omega
  subst hk0
  refine ⟨?_, differentiable_const _⟩
  have e : (fun w : Fin 2 → ℝ => (NetLogDet.rowAt 1 2 (fun l => l.map fun a => a * a + 1) c w 0).getD 0 0)
      = fun w => w 0 * w 0 + 1 := by
    funext w
    simp [NetLogDet.rowAt, reshapeRows, List.ofFn_succ, List.range_succ]
  rw [e]
  fun_prop

end CouplingNd
/-! ## ===== END 8. ===== -/

/-! ### Planar layers: the invertibility constraint that normalisation rests on -/

/-- for every unconstrained `u`, non-zero `w` and leaky-relu slope `0 < s ≤ 1`, the generated planar layer
(with the generated constraint `get_act_scale`) is a lawful bijection of ℝⁿ — the hypothesis `flowNd_normalised_of`
needs from a planar layer; a broken constraint (`w·û ≤ −1`) folds space and the flow's mass is no longer 1 -/
theorem planar_layer_invertible {C : Type} {n : ℕ} (p : UnconditionalPlanar ℝ) (hw : p.weight.length = n)
    (hu : p._act_scale.length = n) (hne : Jnp.dot p.weight p.weight ≠ 0) {s : ℝ} (hs0 : 0 < s) (hs1 : s ≤ 1) :
    (Planar.lreluBij p s : Bij (List ℝ) C ℝ).Lawful {x | x.length = n} {y | y.length = n} :=
  PlanarPf.lrelu_lawful ⟨hw, hu, hne⟩ hs0 hs1

end C04
