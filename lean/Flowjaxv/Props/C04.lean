import Mathlib.MeasureTheory.Measure.Haar.InnerProductSpace
import Flowjaxv.Proofs.MassLeaves
import Flowjaxv.Proofs.NetMass
import Flowjaxv.Proofs.Params
import Flowjaxv.Proofs.Planar
import Flowjaxv.Proofs.NetMassMaf
import Flowjaxv.Proofs.PlanarMass
import Flowjaxv.Proofs.BnafMass
import Flowjaxv.Proofs.PermMass
import Flowjaxv.Proofs.FlowLayers
import Flowjaxv.Proofs.NetMassMeas
import Flowjaxv.Proofs.NetMassSpline
import Flowjaxv.Proofs.TriSplineMass
/-!
# C04 — exp(log_prob) integrates to one, and samples are distributed according to that density

The GLOBAL consequence of invertibility + correct log-determinants.  Everything that mentions
`Transformed`, `nestTransformed`, `Invert`, `Affine`, `LeakyTanh`, `RationalQuadraticSpline`, `Tanh`, `Flip`,
`_UnconditionalPlanar`, `logmatmulexp`, `StandardNormal` is about the definitions GENERATED from /repo (`Gen/*.lean`); the
network bijections (Coupling, MaskedAutoregressive, BlockAutoregressiveNetwork, Permute) are the hand models
`Model/Masks.lean`, `Model/NetInverse.lean`, `Model/BnafLd.lean`, `Model/Perm.lean`, tied to the code by the correspondences
this property's check re-runs.

Layer hypotheses (`Proofs/MassFlow.lean`), at a fixed but arbitrary condition `c`:
* `Mass.InvJac b c` — `b` lawful ℝ ↔ ℝ, the inverse map has a (piecewise) derivative `d ≠ 0` and
  the reported inverse log-det is `log |d|`;
* `Mass.FwdJac b c` — the forward map has a (piecewise) derivative `d ≠ 0` and the reported
  inverse log-det is `-log |d (inverse y)|`;
* `Mass.InvJacN b c` — finite-dimensional: `b` lawful on `E`, the inverse map is (piecewise: finitely many measurable pieces,
  `Mass.PiecewiseFDeriv`) differentiable with Jacobian `D y`, `det D y ≠ 0`, inverse log-det `= log |det D y|`;
* `Mass.FwdJacN b c` — the same through the FORWARD map: Jacobian `J x`, `det ≠ 0`, inverse log-det `= -log |det J (inverse y)|`;
* `Mass.InvJacN.invert` — the generated `Invert(b)` satisfies `InvJacN` as soon as `b`'s forward map has Jacobian `J` and `b`'s own
  `transform_and_log_det` reports `log |det J|`: the orientation `Transformed(base, Invert(b))` all flow factories build by default
  (`invert=True`), in which `log_prob` evaluates `b`'s forward methods only.
`Mass.PiecewiseDeriv f f'`: derivative `f'` on finitely many disjoint measurable pieces covering ℝ,
one-sided at piece boundaries (kinks allowed).

Sections: 1–5 change of variables and the bridge to the generated `Transformed`; 3–4 one-dimensional leaves; 6 d dimensions with
the layer hypotheses as hypotheses; 7 non-vacuity; then the hypotheses DISCHARGED in d dimensions, both orientations, every
condition: 8 affine Coupling, 9 MaskedAutoregressive with the affine transformer, 10 Planar (tanh: bijectivity of the forward map on
ℝⁿ proved here; leaky relu: two pieces), 11 BlockAutoregressiveNetwork (default LeakyTanh: no activation hypothesis), 12 Flip /
Permute, condition-dependent Planar, and any depth / any mixture of all of these (`flowNd_architecture_stack_normalised`,
`…_chain_normalised`, `…_stack_sample_law`), each with a concrete instance over `StandardNormal((2,))`.

13 (`MeasurableLayers`) Coupling and MaskedAutoregressive layers from JOINT MEASURABILITY ONLY (Tonelli, one coordinate at a time,
`Proofs/MassShear.lean`, `MassAR.lean`, `NetMassMeas.lean`): the default `relu` conditioners (any continuous activation) and any
scalar transformer family that is lawful on ℝ with the one-dimensional layer fact — no differentiability in the conditioning
coordinates is needed.

14 (`TriSplineFlow`) the fifth premade architecture: elementwise layers of any scalar family with the one-dimensional layer fact
(`LeakyTanh(m, (n,))`, `Vmap` of splines, `AdditiveCondition(Linear)`), `TriangularAffine` (constant Jacobian, `det = ∏ diag`),
closure of the layer facts under the generated `Chain` / `Invert` (`Proofs/MassChain.lean`, `Proofs/TriSplineMass.lean`), the
whole generated factory body `triangular_spline_flow`.

PARTIAL with respect to the informal property: PRNG statistics and rounding are outside; for the rational-quadratic-spline
transformer inside Coupling / MAF the joint measurability is PROVED in section `SplineMeas` (no measurability hypothesis left);
`triangular_spline_flow` is section 14 (`TriSplineFlow`: every layer, any number of layers, both orientations, every condition; the
layer key determines the splines / triangular matrix AFTER unwrap — hand model `Flows.triSplineCore`); where the library inverts
numerically (BNAF) or not at all (Planar tanh) the sampler law is stated for the exact inverse; Planar's `w = 0` is excluded (the
code returns NaN there).
-/
open Gen Set MeasureTheory

namespace C04

/-! ## 1. mass is preserved by the change-of-variables density -/

/-- finite-dimensional `E`, any additive Haar measure -/
theorem mass_preserved {E : Type*} [NormedAddCommGroup E] [NormedSpace ℝ E] [FiniteDimensional ℝ E]
    [MeasurableSpace E] [BorelSpace E] (μ : Measure E) [μ.IsAddHaarMeasure]
    (T Tinv : E → E) (T' : E → E →L[ℝ] E)
    (hT : ∀ x, HasFDerivAt T (T' x) x) (hdet : ∀ x, (T' x).det ≠ 0)
    (hl : Function.LeftInverse Tinv T) (hr : Function.RightInverse Tinv T) (p : E → ℝ) :
    ∫ y, p (Tinv y) * |(T' (Tinv y)).det|⁻¹ ∂μ = ∫ z, p z ∂μ :=
  Mass.mass_preserved μ T Tinv T' hT hdet hl hr p

theorem mass_preserved_1d (T Tinv T' : ℝ → ℝ)
    (hT : ∀ x, HasDerivAt T (T' x) x) (hne : ∀ x, T' x ≠ 0)
    (hl : Function.LeftInverse Tinv T) (hr : Function.RightInverse Tinv T) (p : ℝ → ℝ) :
    ∫ y, p (Tinv y) * |T' (Tinv y)|⁻¹ = ∫ z, p z :=
  Mass.mass_preserved_1d T Tinv T' hT hne hl hr p

/-- finitely many kinks: `ℝ = (-∞,a] ∪ [a,b] ∪ [b,∞)` with one-sided derivatives at `a`, `b` -/
theorem mass_preserved_piecewise (T Tinv T' : ℝ → ℝ) {a b : ℝ} (hab : a ≤ b)
    (h1 : ∀ x < a, HasDerivWithinAt T (T' x) (Iic a) x)
    (h2 : ∀ x ∈ Icc a b, HasDerivWithinAt T (T' x) (Icc a b) x)
    (h3 : ∀ x, b < x → HasDerivWithinAt T (T' x) (Ici b) x)
    (hne : ∀ x, T' x ≠ 0)
    (hl : Function.LeftInverse Tinv T) (hr : Function.RightInverse Tinv T) (p : ℝ → ℝ) :
    ∫ y, p (Tinv y) * |T' (Tinv y)|⁻¹ = ∫ z, p z :=
  Mass.mass_preserved_piecewise T Tinv T' hab h1 h2 h3 hne hl hr p

/-- any finite number of measurable disjoint pieces -/
theorem mass_preserved_pieces (T Tinv T' : ℝ → ℝ) (hd : Mass.PiecewiseDeriv T T')
    (hne : ∀ x, T' x ≠ 0)
    (hl : Function.LeftInverse Tinv T) (hr : Function.RightInverse Tinv T) (p : ℝ → ℝ) :
    ∫ y, p (Tinv y) * |T' (Tinv y)|⁻¹ = ∫ z, p z :=
  Mass.mass_preserved_pieces T Tinv T' hd hne hl hr p

/-! ## 5. sampler and density agree as distributions -/

/-- if `Z` has density `p` then `T Z` has density `y ↦ p (T⁻¹ y) · |det DT (T⁻¹ y)|⁻¹` -/
theorem pushforward_density {E : Type*} [NormedAddCommGroup E] [NormedSpace ℝ E]
    [FiniteDimensional ℝ E] [MeasurableSpace E] [BorelSpace E] (μ : Measure E) [μ.IsAddHaarMeasure]
    (T Tinv : E → E) (T' : E → E →L[ℝ] E)
    (hT : ∀ x, HasFDerivAt T (T' x) x) (hdet : ∀ x, (T' x).det ≠ 0)
    (hl : Function.LeftInverse Tinv T) (hr : Function.RightInverse Tinv T) (p : E → ℝ) :
    Measure.map T (μ.withDensity fun z => ENNReal.ofReal (p z))
      = μ.withDensity fun y => ENNReal.ofReal (p (Tinv y) * |(T' (Tinv y)).det|⁻¹) :=
  Mass.pushforward_density μ T Tinv T' hT hdet hl hr p

theorem pushforward_density_1d (T Tinv T' : ℝ → ℝ)
    (hT : ∀ x, HasDerivAt T (T' x) x) (hne : ∀ x, T' x ≠ 0)
    (hl : Function.LeftInverse Tinv T) (hr : Function.RightInverse Tinv T) (p : ℝ → ℝ) :
    Measure.map T (volume.withDensity fun z => ENNReal.ofReal (p z))
      = volume.withDensity fun y => ENNReal.ofReal (p (Tinv y) * |T' (Tinv y)|⁻¹) :=
  Mass.pushforward_density_1d T Tinv T' hT hne hl hr p

/-- kinks allowed -/
theorem pushforward_density_pieces (T Tinv T' : ℝ → ℝ) (hd : Mass.PiecewiseDeriv T T')
    (hne : ∀ x, T' x ≠ 0)
    (hl : Function.LeftInverse Tinv T) (hr : Function.RightInverse Tinv T) (p : ℝ → ℝ) :
    Measure.map T (volume.withDensity fun z => ENNReal.ofReal (p z))
      = volume.withDensity fun y => ENNReal.ofReal (p (Tinv y) * |T' (Tinv y)|⁻¹) :=
  (Mass.pushforward_density_pieces T Tinv T' hd hne hl hr p).2

/-! ## 2. the bridge to the generated `Transformed` -/

/-- the density the generated `_log_prob` computes: base density at the inverse image times the
absolute derivative of the inverse map -/
theorem flow1d_density {C K : Type} (t : Transformed ℝ C K ℝ) (c : C)
    (hb : t.bijection.Lawful univ univ) (d : ℝ → ℝ)
    (hd : ∀ y, HasDerivAt (fun y => t.bijection.inv y c) (d y) y ∧ d y ≠ 0 ∧
      (t.bijection.invLd y c).2 = Real.log |d y|) (y : ℝ) :
    Real.exp (t.toDist.logProb y c)
      = Real.exp (t.base_dist.logProb (t.bijection.inv y c) c) * |d y| := by
  rw [Mass.transformed_density t c (fun y => hb.invLd_fst y c) y, (hd y).2.2,
    Real.exp_log (abs_pos.mpr (hd y).2.1)]

/-- a lawful layer with correct inverse log-det keeps the total mass: normalised base ⇒
normalised flow -/
theorem flow1d_normalised {C K : Type} (t : Transformed ℝ C K ℝ) (c : C)
    (hb : t.bijection.Lawful univ univ)
    (hd : ∀ y, ∃ d, HasDerivAt (fun y => t.bijection.inv y c) d y ∧ d ≠ 0 ∧
      (t.bijection.invLd y c).2 = Real.log |d|)
    (hbase : ∫ z, Real.exp (t.base_dist.logProb z c) = 1) :
    ∫ y, Real.exp (t.toDist.logProb y c) = 1 := by
  choose d hd using hd
  have hj : Mass.InvJac t.bijection c :=
    ⟨hb, d, Mass.PiecewiseDeriv.of_hasDerivAt (fun y => (hd y).1), fun y => (hd y).2⟩
  rw [Mass.transformed_mass volume t c hj.massOK, hbase]

/-- the same with either form of the Jacobian hypothesis, kinks allowed -/
theorem flow1d_normalised_of {C K : Type} (t : Transformed ℝ C K ℝ) (c : C)
    (h : Mass.InvJac t.bijection c ∨ Mass.FwdJac t.bijection c)
    (hbase : ∫ z, Real.exp (t.base_dist.logProb z c) = 1) :
    ∫ y, Real.exp (t.toDist.logProb y c) = 1 := by
  rw [Mass.transformed_mass volume t c (h.elim (·.massOK) (·.massOK)), hbase]

/-- **any 1-D stack of such layers over a normalised base integrates to one** — every depth,
every condition -/
theorem flow1d_stack_normalised {C K : Type} (base : Distn ℝ C K ℝ) (c : C)
    (bs : List (Bij ℝ C ℝ)) (hall : ∀ b ∈ bs, Mass.InvJac b c ∨ Mass.FwdJac b c)
    (hbase : ∫ z, Real.exp (base.logProb z c) = 1) :
    ∫ y, Real.exp ((nestTransformed base bs).logProb y c) = 1 := by
  rw [Mass.nest_mass volume base c bs (fun b hb => (hall b hb).elim (·.massOK) (·.massOK)), hbase]

/-- the same through `merge_transforms` (one `Transformed` over the `Chain` of the layers) -/
theorem flow1d_chain_normalised {C K : Type} (base : Distn ℝ C K ℝ) (c : C)
    (bs : List (Bij ℝ C ℝ)) (hall : ∀ b ∈ bs, Mass.InvJac b c ∨ Mass.FwdJac b c)
    (hbase : ∫ z, Real.exp (base.logProb z c) = 1) :
    ∫ y, Real.exp ((mergeTransforms base bs).logProb y c) = 1 := by
  rw [← flow1d_stack_normalised base c bs hall hbase]
  congr 1; funext y
  rw [(Gen.merge_transforms_sem base bs).logProb]

/-- **samples follow the density**: keys drawn from any measure `κ`; if the base sampler's law
has density `exp ∘ base log_prob`, the law of the flow's `sample` has density `exp ∘ log_prob` —
every depth, every condition -/
theorem flow1d_stack_sample_law {C K : Type} [MeasurableSpace K] (κ : Measure K)
    (base : Distn ℝ C K ℝ) (c : C) (bs : List (Bij ℝ C ℝ))
    (hall : ∀ b ∈ bs, Mass.InvJac b c ∨ Mass.FwdJac b c)
    (hs : Measurable fun k => base.sample k c)
    (hbase : Measure.map (fun k => base.sample k c) κ
      = volume.withDensity fun z => ENNReal.ofReal (Real.exp (base.logProb z c))) :
    Measure.map (fun k => (nestTransformed base bs).sample k c) κ
      = volume.withDensity fun y => ENNReal.ofReal (Real.exp ((nestTransformed base bs).logProb y c)) :=
  (Mass.nest_law volume κ base c bs (fun b hb => (hall b hb).elim (·.lawOK) (·.lawOK)) hs hbase).2

/-! ## 3. the generated leaves satisfy the layer hypotheses -/

theorem affine_layer {C : Type} (p : Affine ℝ) (h : p.scale ≠ 0) (c : C) :
    Mass.InvJac (p.toBij : Bij ℝ C ℝ) c := Mass.affine_invJac p h c

theorem scale_layer {C : Type} (p : Scale ℝ) (h : p.scale ≠ 0) (c : C) :
    Mass.InvJac (p.toBij : Bij ℝ C ℝ) c := Mass.scale_invJac p h c

theorem loc_layer {C : Type} (p : Loc ℝ) (c : C) :
    Mass.InvJac (p.toBij : Bij ℝ C ℝ) c := Mass.loc_invJac p c

/-- LeakyTanh(max_val) as built by the generated constructor, any `max_val > 0`; pieces
`(-∞,-m]`, `(-m,m)`, `[m,∞)`, switch points included -/
theorem leakytanh_layer {C : Type} {m : ℝ} (hm : 0 < m) (c : C) :
    Mass.FwdJac ((LeakyTanh.init m).toBij : Bij ℝ C ℝ) c :=
  Mass.leakytanh_fwdJac (Leaves.leaky_init_wf hm) c

/-- the generated `LeakyTanh.transform` built by the generated constructor is differentiable at
EVERY point, the two switch points `±max_val` included (the constructor's `linear_grad` matches
`1 - tanh² max_val`); the derivative is `linear_grad` outside and `1 - tanh² x` inside -/
theorem leakytanh_differentiable {m : ℝ} (hm : 0 < m) (x : ℝ) :
    HasDerivAt (LeakyTanh.init m : LeakyTanh ℝ).transform
      (if m ≤ |x| then 1 - Real.tanh m ^ 2 else 1 - Real.tanh x ^ 2) x := by
  have h := Mass.leaky_hasDerivAt (Leaves.leaky_init_wf hm) (Docs.leaky_linear_grad_eq m) x
  have e : Mass.leakyDer (LeakyTanh.init m) x
      = if m ≤ |x| then 1 - Real.tanh m ^ 2 else 1 - Real.tanh x ^ 2 := by
    unfold Mass.leakyDer
    rw [Docs.leaky_linear_grad_eq m]; rfl
  rwa [e] at h

/-- `LeakyTanh.init m` satisfies exactly the inverse-direction hypotheses of `flow1d_normalised`:
its inverse is differentiable everywhere with non-zero derivative `d` and the reported inverse
log-det is `log |d|` -/
theorem leakytanh_inverse_direction {C : Type} {m : ℝ} (hm : 0 < m) (c : C) (y : ℝ) :
    ∃ d, HasDerivAt (fun y => ((LeakyTanh.init m).toBij : Bij ℝ C ℝ).inv y c) d y ∧ d ≠ 0 ∧
      (((LeakyTanh.init m).toBij : Bij ℝ C ℝ).invLd y c).2 = Real.log |d| :=
  Mass.leakytanh_init_inverse_deriv hm c y

/-- rational-quadratic spline, any parameters the constructor can produce; pieces `(-∞,lo)`,
`[lo,hi]`, `(hi,∞)` with one-sided derivatives at `lo`, `hi` (boundary derivative ≠ 1 allowed) -/
theorem rqs_layer {C : Type} {p : RationalQuadraticSpline ℝ} (h : Rqs.RqsWF p) (c : C) :
    Mass.FwdJac (p.toBij : Bij ℝ C ℝ) c := Mass.rqs_fwdJac h c

/-- the generated spline `derivative` is the one-sided derivative of the generated `transform`
at both ends of the interval -/
theorem rqs_one_sided_derivative_at_ends {p : RationalQuadraticSpline ℝ} (h : Rqs.RqsWF p) :
    HasDerivWithinAt p.transform (p.derivative p.interval.1) (Icc p.interval.1 p.interval.2) p.interval.1 ∧
    HasDerivWithinAt p.transform (p.derivative p.interval.2) (Icc p.interval.1 p.interval.2) p.interval.2 :=
  ⟨Mass.rqs_hasDerivWithinAt_lo h, Mass.rqs_hasDerivWithinAt_hi h⟩

/-! ## 4. surjectivity per layer (the content behind normalisation) -/

theorem affine_bijective (p : Affine ℝ) (h : p.scale ≠ 0) : Function.Bijective p.transform :=
  Mass.affine_bijective p h

theorem leakytanh_bijective {m : ℝ} (hm : 0 < m) :
    Function.Bijective (LeakyTanh.init m : LeakyTanh ℝ).transform :=
  Mass.leakytanh_bijective_of (Leaves.leaky_init_wf hm)

theorem rqs_bijective {p : RationalQuadraticSpline ℝ} (h : Rqs.RqsWF p) :
    Function.Bijective p.transform := Mass.rqs_bijective h

/-- Tanh is not onto ℝ: the documented reason BNAF defaults to LeakyTanh -/
theorem tanh_not_surjective : ¬ Function.Surjective (Tanh.transform ({} : NoParams ℝ)) :=
  Mass.tanh_not_surjective

/-- the deficit: a density evaluated through `tanh` (what `log_prob` of an inverted flow whose
transform ends in Tanh does) only collects the base mass lying in `(-1,1)` -/
theorem tanh_flow_mass_deficit (p : ℝ → ℝ) :
    ∫ x, p (Tanh.transform ({} : NoParams ℝ) x) * (1 - Tanh.transform ({} : NoParams ℝ) x ^ 2)
      = ∫ z in Ioo (-1 : ℝ) 1, p z := Mass.tanh_pullback_mass p

/-! ## 6. d dimensions, Jacobian facts as hypotheses -/

/-- `E = ℝⁿ` (Euclidean), Lebesgue measure: a lawful layer whose inverse has Jacobian `D` with
`log |det D|` as reported inverse log-det keeps a normalised base normalised -/
theorem flowNd_normalised_of {n : ℕ} {C K : Type} (t : Transformed (EuclideanSpace ℝ (Fin n)) C K ℝ)
    (c : C) (h : Mass.InvJacN t.bijection c)
    (hbase : ∫ z, Real.exp (t.base_dist.logProb z c) = 1) :
    ∫ y, Real.exp (t.toDist.logProb y c) = 1 := by
  rw [Mass.transformed_mass volume t c (h.massOK volume), hbase]

/-- one layer, either form of the Jacobian hypothesis (inverse map / forward map; finitely many measurable pieces allowed),
any finite-dimensional `E`, any additive Haar measure -/
theorem flowNd_normalised_of' {E C K : Type} [NormedAddCommGroup E] [NormedSpace ℝ E]
    [FiniteDimensional ℝ E] [MeasurableSpace E] [BorelSpace E] (μ : Measure E) [μ.IsAddHaarMeasure]
    (t : Transformed E C K ℝ) (c : C) (h : Mass.InvJacN t.bijection c ∨ Mass.FwdJacN t.bijection c)
    (hbase : ∫ z, Real.exp (t.base_dist.logProb z c) ∂μ = 1) :
    ∫ y, Real.exp (t.toDist.logProb y c) ∂μ = 1 := by
  rw [Mass.transformed_mass μ t c (h.elim (·.massOK μ) (·.massOK μ)), hbase]

/-- any depth of layers, each with either form of the Jacobian hypothesis, any finite-dimensional `E`, any additive Haar
measure -/
theorem flowNd_stack_normalised_of {E C K : Type} [NormedAddCommGroup E] [NormedSpace ℝ E]
    [FiniteDimensional ℝ E] [MeasurableSpace E] [BorelSpace E] (μ : Measure E) [μ.IsAddHaarMeasure]
    (base : Distn E C K ℝ) (c : C) (bs : List (Bij E C ℝ))
    (hall : ∀ b ∈ bs, Mass.InvJacN b c ∨ Mass.FwdJacN b c)
    (hbase : ∫ z, Real.exp (base.logProb z c) ∂μ = 1) :
    ∫ y, Real.exp ((nestTransformed base bs).logProb y c) ∂μ = 1 := by
  rw [Mass.nest_mass μ base c bs (fun b hb => (hall b hb).elim (·.massOK μ) (·.massOK μ)), hbase]

theorem flowNd_stack_sample_law_of {E C K : Type} [NormedAddCommGroup E] [NormedSpace ℝ E]
    [FiniteDimensional ℝ E] [MeasurableSpace E] [BorelSpace E] (μ : Measure E) [μ.IsAddHaarMeasure]
    [MeasurableSpace K] (κ : Measure K)
    (base : Distn E C K ℝ) (c : C) (bs : List (Bij E C ℝ))
    (hall : ∀ b ∈ bs, Mass.InvJacN b c ∨ Mass.FwdJacN b c)
    (hs : Measurable fun k => base.sample k c)
    (hbase : Measure.map (fun k => base.sample k c) κ
      = μ.withDensity fun z => ENNReal.ofReal (Real.exp (base.logProb z c))) :
    Measure.map (fun k => (nestTransformed base bs).sample k c) κ
      = μ.withDensity fun y => ENNReal.ofReal (Real.exp ((nestTransformed base bs).logProb y c)) :=
  (Mass.nest_law μ κ base c bs (fun b hb => (hall b hb).elim (·.lawOK μ) (·.lawOK μ)) hs hbase).2

/-! ## 7. non-vacuity -/

/-- the generated `StandardNormal._log_prob` (scalar) is normalised -/
theorem standard_normal_normalised {C K : Type} (s : K → C → ℝ) (c : C) :
    ∫ z, Real.exp ((Mass.stdNormal s).logProb z c) = 1 := Mass.stdNormal_normalised s c

/-- Normal(1, −2) built as `Transformed(StandardNormal, Affine(1, −2))` integrates to one -/
theorem affine_instance {K : Type} (s : K → Unit → ℝ) :
    ∫ y, Real.exp ((Transformed.mk (Mass.stdNormal s)
      ((Affine.mk 1 (-2) : Affine ℝ).toBij)).toDist.logProb y ()) = 1 :=
  flow1d_normalised_of _ () (Or.inl (Mass.affine_invJac _ (by norm_num) ())) (Mass.stdNormal_normalised s ())

/-- `Transformed(StandardNormal, LeakyTanh(3))` integrates to one, through `flow1d_normalised`
with its inverse-direction hypotheses -/
theorem leakytanh_instance {K : Type} (s : K → Unit → ℝ) :
    ∫ y, Real.exp ((Transformed.mk (Mass.stdNormal s)
      ((LeakyTanh.init 3 : LeakyTanh ℝ).toBij)).toDist.logProb y ()) = 1 :=
  flow1d_normalised _ () (Leaves.leakytanh_lawful (Leaves.leaky_init_wf (by norm_num)))
    (fun y => Mass.leakytanh_init_inverse_deriv (by norm_num) () y) (Mass.stdNormal_normalised s ())

/-- a three-layer stack `StandardNormal → LeakyTanh.init 3 → Affine(1/2, 4) → spline` (the
3-bin example spline has boundary derivatives 2 and 3: two genuine kinks) integrates to one -/
theorem stack_instance {K : Type} (s : K → Unit → ℝ) :
    ∫ y, Real.exp ((nestTransformed (Mass.stdNormal s)
      [((LeakyTanh.init 3 : LeakyTanh ℝ).toBij : Bij ℝ Unit ℝ), (Affine.mk (1/2) 4 : Affine ℝ).toBij,
       Rqs.exampleSpline.toBij]).logProb y ()) = 1 := by
  refine flow1d_stack_normalised _ () _ ?_ (Mass.stdNormal_normalised s ())
  intro b hb
  simp only [List.mem_cons, List.not_mem_nil, or_false] at hb
  rcases hb with rfl | rfl | rfl
  · exact Or.inr (leakytanh_layer (by norm_num) ())
  · exact Or.inl (Mass.affine_invJac _ (by norm_num) ())
  · exact Or.inr (rqs_layer Rqs.rqsWF_instance ())

/-- the d-dimensional hypotheses are satisfiable: the identity bijection on `ℝⁿ` -/
theorem flowNd_instance {n : ℕ} {C : Type} (c : C) :
    Mass.InvJacN (Bij.id : Bij (EuclideanSpace ℝ (Fin n)) C ℝ) c := by
  have hdet : (ContinuousLinearMap.id ℝ (EuclideanSpace ℝ (Fin n))).det = 1 := by
    rw [ContinuousLinearMap.det, ContinuousLinearMap.coe_id]; exact LinearMap.det_id
  refine Mass.InvJacN.of_hasFDerivAt (Bij.id_lawful univ) (fun _ => ContinuousLinearMap.id ℝ _) fun y => ⟨?_, ?_, ?_⟩
  · exact hasFDerivAt_id y
  · rw [hdet]; exact one_ne_zero
  · rw [hdet]; simp [Bij.id]

/-- non-vacuity of `InvJacN`: isotropic scaling of `ℝⁿ` by any `a ≠ 0` -/
theorem flowNd_scale_instance {n : ℕ} {C : Type} (a : ℝ) (ha : a ≠ 0) (c : C) :
    Mass.InvJacN (Mass.scaleBij n C a) c := by
  have hdet : (a⁻¹ • ContinuousLinearMap.id ℝ (EuclideanSpace ℝ (Fin n))).det = a⁻¹ ^ n := by
    rw [ContinuousLinearMap.det, ContinuousLinearMap.toLinearMap_smul, ContinuousLinearMap.coe_id,
      LinearMap.det_smul, LinearMap.det_id, finrank_euclideanSpace_fin, mul_one]
  refine Mass.InvJacN.of_hasFDerivAt ⟨fun _ _ _ => trivial, fun _ _ _ => trivial, ?_, ?_, fun _ _ => rfl, fun _ _ => rfl⟩
    (fun _ => a⁻¹ • ContinuousLinearMap.id ℝ _) fun y => ⟨?_, ?_, ?_⟩
  · intro x _ _; simp [Mass.scaleBij, smul_smul, inv_mul_cancel₀ ha]
  · intro y _ _; simp [Mass.scaleBij, smul_smul, mul_inv_cancel₀ ha]
  · exact (hasFDerivAt_id y).const_smul a⁻¹
  · rw [hdet]; exact pow_ne_zero _ (inv_ne_zero ha)
  · rw [hdet]; simp [Mass.scaleBij, abs_pow, abs_inv, Real.log_pow, Real.log_inv]

/-- non-vacuity of the sampler theorem: keys drawn from the standard normal law, the base sampler
returning its key (the convention of the C03 model); the law of the three-layer stack's `sample` has
density `exp ∘ log_prob` -/
theorem stack_sample_law_instance :
    Measure.map (fun k => (nestTransformed (Mass.stdNormal (C := Unit) (fun k _ => k))
        [((LeakyTanh.init 3 : LeakyTanh ℝ).toBij : Bij ℝ Unit ℝ), (Affine.mk (1/2) 4 : Affine ℝ).toBij,
         Rqs.exampleSpline.toBij]).sample k ())
      (volume.withDensity fun z => ENNReal.ofReal (Real.exp ((Mass.stdNormal (C := Unit) (K := ℝ) (fun k _ => k)).logProb z ())))
    = volume.withDensity fun y => ENNReal.ofReal (Real.exp ((nestTransformed (Mass.stdNormal (C := Unit) (fun k _ => k))
        [((LeakyTanh.init 3 : LeakyTanh ℝ).toBij : Bij ℝ Unit ℝ), (Affine.mk (1/2) 4 : Affine ℝ).toBij,
         Rqs.exampleSpline.toBij]).logProb y ())) := by
  refine flow1d_stack_sample_law _ _ () _ ?_ measurable_id Measure.map_id
  intro b hb
  simp only [List.mem_cons, List.not_mem_nil, or_false] at hb
  rcases hb with rfl | rfl | rfl
  · exact Or.inr (leakytanh_layer (by norm_num) ())
  · exact Or.inl (Mass.affine_invJac _ (by norm_num) ())
  · exact Or.inr (rqs_layer Rqs.rqsWF_instance ())

/-! ## ===== BEGIN 8. d dimensions, unconditional for the affine coupling architecture =====

`Mass.InvJacN` DISCHARGED for `Coupling` with the generated `Affine` transformer (helpers in `Proofs/NetMass.lean`):
the layer is the hand model `Masks.couplingBij d cnd tf` read in coordinates on `ℝⁿ = Fin n → ℝ`
(`NetMass.liftBij`), `tf ps = Affine(loc ps, scale ps)` (`NetLogDet.affineFamily`; flowjax: `loc = ps[0]`,
`scale = softplus(ps[1])`), for ANY conditioner function whose location / scale outputs are differentiable in the input
(`NetLogDet.CondDiff`), any first-block size `d ≤ n`, any condition, any non-vanishing scale.  Lawfulness is C01
`coupling_lawful`, the Jacobian determinant of the inverse pass is C02 `coupling_logdet` (block lower triangular).
With the default `relu` conditioner `CondDiff` fails on the kinks (a null set): outside this theorem. -/
section CouplingNd
open Masks MasksPf

/-- the affine coupling layer satisfies the d-dimensional layer hypothesis at every condition -/
theorem coupling_affine_layer (d n : ℕ) (hdn : d ≤ n) (cnd : List ℝ → List ℝ) (loc scale : List ℝ → ℝ)
    (hs : ∀ ps, scale ps ≠ 0) (c : List ℝ) (hc : NetLogDet.CondDiff d n cnd loc scale c) :
    Mass.InvJacN (NetMass.liftBij n (couplingBij d cnd (NetLogDet.affineFamily loc scale))) c :=
  NetMass.coupling_affine_invJacN d n cnd loc scale hdn hs c hc

/-- **`flowNd_coupling_normalised`**: `Transformed(base, Coupling(Affine))` over a normalised base on `ℝⁿ` integrates
to one — no Jacobian hypothesis left -/
theorem flowNd_coupling_normalised {K : Type} (d n : ℕ) (hdn : d ≤ n) (cnd : List ℝ → List ℝ)
    (loc scale : List ℝ → ℝ) (hs : ∀ ps, scale ps ≠ 0) (base : Distn (Fin n → ℝ) (List ℝ) K ℝ) (c : List ℝ)
    (hc : NetLogDet.CondDiff d n cnd loc scale c)
    (hbase : ∫ z, Real.exp (base.logProb z c) = 1) :
    ∫ y, Real.exp ((Transformed.mk base
      (NetMass.liftBij n (couplingBij d cnd (NetLogDet.affineFamily loc scale)))).toDist.logProb y c) = 1 := by
  rw [Mass.transformed_mass volume _ c ((coupling_affine_layer d n hdn cnd loc scale hs c hc).massOK volume), hbase]

/-- any depth: a stack of affine coupling layers (each with its own split, conditioner and parameter maps) over a
normalised base integrates to one, and the law of `sample` has density `exp ∘ log_prob` -/
theorem flowNd_coupling_stack_normalised {K : Type} (n : ℕ) (base : Distn (Fin n → ℝ) (List ℝ) K ℝ) (c : List ℝ)
    (bs : List (Bij (Fin n → ℝ) (List ℝ) ℝ))
    (hall : ∀ b ∈ bs, ∃ (d : ℕ) (cnd : List ℝ → List ℝ) (loc scale : List ℝ → ℝ), d ≤ n ∧ (∀ ps, scale ps ≠ 0) ∧
      NetLogDet.CondDiff d n cnd loc scale c ∧
      b = NetMass.liftBij n (couplingBij d cnd (NetLogDet.affineFamily loc scale)))
    (hbase : ∫ z, Real.exp (base.logProb z c) = 1) :
    ∫ y, Real.exp ((nestTransformed base bs).logProb y c) = 1 := by
  refine flowNd_stack_normalised_of volume base c bs ?_ hbase
  intro b hb
  obtain ⟨d, cnd, loc, scale, hdn, hs, hc, rfl⟩ := hall b hb
  exact Or.inl (coupling_affine_layer d n hdn cnd loc scale hs c hc)

theorem flowNd_coupling_stack_sample_law {K : Type} [MeasurableSpace K] (κ : Measure K) (n : ℕ)
    (base : Distn (Fin n → ℝ) (List ℝ) K ℝ) (c : List ℝ) (bs : List (Bij (Fin n → ℝ) (List ℝ) ℝ))
    (hall : ∀ b ∈ bs, ∃ (d : ℕ) (cnd : List ℝ → List ℝ) (loc scale : List ℝ → ℝ), d ≤ n ∧ (∀ ps, scale ps ≠ 0) ∧
      NetLogDet.CondDiff d n cnd loc scale c ∧
      b = NetMass.liftBij n (couplingBij d cnd (NetLogDet.affineFamily loc scale)))
    (hs : Measurable fun k => base.sample k c)
    (hbase : Measure.map (fun k => base.sample k c) κ
      = volume.withDensity fun z => ENNReal.ofReal (Real.exp (base.logProb z c))) :
    Measure.map (fun k => (nestTransformed base bs).sample k c) κ
      = volume.withDensity fun y => ENNReal.ofReal (Real.exp ((nestTransformed base bs).logProb y c)) := by
  refine flowNd_stack_sample_law_of volume κ base c bs ?_ hs hbase
  intro b hb
  obtain ⟨d, cnd, loc, scale, hdn, hs', hc, rfl⟩ := hall b hb
  exact Or.inl (coupling_affine_layer d n hdn cnd loc scale hs' c hc)

/-- non-vacuity: on `ℝ²`, `d = 1`, the NON-LINEAR conditioner `l ↦ l.map (a ↦ a² + 1)`, location = first parameter,
scale `2`: `(x₀, x₁) ↦ (x₀, 2x₁ + x₀² + 1)` satisfies every hypothesis, at every condition -/
theorem coupling_affine_instance (c : List ℝ) :
    Mass.InvJacN (NetMass.liftBij 2 (couplingBij 1 (fun l => l.map fun a => a * a + 1)
      (NetLogDet.affineFamily (fun ps => ps.getD 0 0) (fun _ => 2)))) c := by
  refine coupling_affine_layer 1 2 (by norm_num) _ _ _ (fun _ => by norm_num) c ?_
  intro k hk
  have hk0 : k = 0 := by omega
  subst hk0
  refine ⟨?_, differentiable_const _⟩
  have e : (fun w : Fin 2 → ℝ => (NetLogDet.rowAt 1 2 (fun l => l.map fun a => a * a + 1) c w 0).getD 0 0)
      = fun w => w 0 * w 0 + 1 := by
    funext w
    simp [NetLogDet.rowAt, reshapeRows, List.ofFn_succ, List.range_succ]
  rw [e]
  fun_prop

end CouplingNd
/-! ## ===== END 8. ===== -/

/-! ## ===== BEGIN 9. d dimensions, unconditional for MaskedAutoregressive with the affine transformer =====

The layer is the hand model `Masks.mafBij N tf` (`Model/Masks.lean`, `Model/NetInverse.lean`: masked MLP, the `dim`-pass
sequential inverse, `Vmap` log-dets) with the GENERATED `Affine` as transformer, `tf ps = Affine(loc ps, scale ps)`, read in
coordinates on `ℝⁿ` (`NetMass.liftBij`); `Gen.Invert` is the generated `Invert`.  Hypotheses: `N.WellShaped` (the raw arrays have the
shapes `eqx.nn.MLP` allocates — every weight value is allowed), the activation is differentiable (`hact`; for the default `relu`
this fails exactly on the finitely many hyperplane preimages where a pre-activation vanishes — a null set, outside these
theorems), `loc` / `scale` are differentiable functions of the parameter row (`NetMass.RowDiff`; proved for the functions
`ps ↦ ps[k] + a`, `ps ↦ softplus (ps[k] + a)` that `get_ravelled_pytree_constructor(Affine())` builds), `scale ≠ 0`.
No Jacobian hypothesis: lawfulness is C01 `maf_lawful`, the determinant and the returned log-det C02 `maf_logdet`,
differentiability of the whole masked network is proved here (`NetMass.maf_affine_fwd_differentiable`). -/
section MafNd
open Masks MasksPf

/-- the affine MAF layer satisfies the d-dimensional layer hypotheses in BOTH orientations, at every condition:
`Transformed(base, MAF)` (`invert=False`; forward form) and `Transformed(base, Invert(MAF))` (`invert=True`, the default of
`masked_autoregressive_flow`; `log_prob` = one forward pass of the network) -/
theorem maf_affine_layer (N : MafNet ℝ) (hN : N.WellShaped) (hact : ∀ z, DifferentiableAt ℝ N.act z)
    (loc scale : List ℝ → ℝ) (hloc : NetMass.RowDiff loc) (hscale : NetMass.RowDiff scale) (hs : ∀ ps, scale ps ≠ 0)
    (c : List ℝ) :
    Mass.FwdJacN (NetMass.liftBij N.dim (mafBij N (NetLogDet.affineFamily loc scale))) c ∧
    Mass.InvJacN (Gen.Invert.mk (NetMass.liftBij N.dim (mafBij N (NetLogDet.affineFamily loc scale)))).toBij c :=
  ⟨NetMass.maf_affine_fwdJacN N loc scale hN hact hloc hscale hs c,
   NetMass.maf_affine_invert_invJacN N loc scale hN hact hloc hscale hs c⟩

/-- the forward map of the affine MAF layer is differentiable at every point of `ℝⁿ` (what C02 `maf_logdet` takes as a
hypothesis) — every well-shaped masked network with differentiable activation -/
theorem maf_affine_differentiable (N : MafNet ℝ) (hN : N.WellShaped) (hact : ∀ z, DifferentiableAt ℝ N.act z)
    (loc scale : List ℝ → ℝ) (hloc : NetMass.RowDiff loc) (hscale : NetMass.RowDiff scale) (c : List ℝ) :
    Differentiable ℝ (NetLogDet.coords N.dim fun x => (mafBij N (NetLogDet.affineFamily loc scale)).fwd x c) :=
  NetMass.maf_affine_fwd_differentiable N loc scale hN hact hloc hscale c

/-- the parameter maps of the default transformer: `loc = ps[0] + l₀`, `scale = softplus (ps[1] + r₀) > 0`
(`constructor(ravelled_params) = unravel(ravelled_params + init)`) satisfy the hypotheses on `loc`, `scale` -/
theorem maf_default_affine_params (l₀ r₀ : ℝ) :
    NetMass.RowDiff (fun ps => nth ps 0 + l₀) ∧ NetMass.RowDiff (fun ps => (Transc.softplus (nth ps 1 + r₀) : ℝ)) ∧
    ∀ ps : List ℝ, (Transc.softplus (nth ps 1 + r₀) : ℝ) ≠ 0 :=
  ⟨NetMass.rowDiff_nth_add 0 l₀, NetMass.rowDiff_softplus 1 r₀, fun ps => (softplus_pos _).ne'⟩

/-- **`flowNd_maf_normalised`**: `Transformed(base, Invert(MaskedAutoregressive(Affine)))` — the flow
`masked_autoregressive_flow` builds — over a normalised base on `ℝⁿ` integrates to one; also `Transformed(base, MAF)`
(`invert=False`).  No Jacobian hypothesis. -/
theorem flowNd_maf_normalised {K : Type} (N : MafNet ℝ) (hN : N.WellShaped) (hact : ∀ z, DifferentiableAt ℝ N.act z)
    (loc scale : List ℝ → ℝ) (hloc : NetMass.RowDiff loc) (hscale : NetMass.RowDiff scale) (hs : ∀ ps, scale ps ≠ 0)
    (base : Distn (Fin N.dim → ℝ) (List ℝ) K ℝ) (c : List ℝ)
    (hbase : ∫ z, Real.exp (base.logProb z c) = 1) :
    ∫ y, Real.exp ((Transformed.mk base
      (Gen.Invert.mk (NetMass.liftBij N.dim (mafBij N (NetLogDet.affineFamily loc scale)))).toBij).toDist.logProb y c) = 1 ∧
    ∫ y, Real.exp ((Transformed.mk base
      (NetMass.liftBij N.dim (mafBij N (NetLogDet.affineFamily loc scale)))).toDist.logProb y c) = 1 := by
  obtain ⟨h1, h2⟩ := maf_affine_layer N hN hact loc scale hloc hscale hs c
  exact ⟨flowNd_normalised_of' volume _ c (Or.inl h2) hbase, flowNd_normalised_of' volume _ c (Or.inr h1) hbase⟩

/-- an affine MAF layer (`NetMass.IsMafLayer`: some well-shaped network with differentiable activation, differentiable parameter
maps, non-vanishing scale, either orientation) satisfies one of the two layer hypotheses at every condition -/
theorem maf_layer_of_isMafLayer {n : ℕ} {b : Bij (Fin n → ℝ) (List ℝ) ℝ} (h : NetMass.IsMafLayer n b) (c : List ℝ) :
    Mass.InvJacN b c ∨ Mass.FwdJacN b c := h.layer c

/-- **any depth**: a stack of affine MAF layers (each with its own network, weights, parameter maps and orientation) over a
normalised base integrates to one, at every condition -/
theorem flowNd_maf_stack_normalised {K : Type} (n : ℕ) (base : Distn (Fin n → ℝ) (List ℝ) K ℝ) (c : List ℝ)
    (bs : List (Bij (Fin n → ℝ) (List ℝ) ℝ)) (hall : ∀ b ∈ bs, NetMass.IsMafLayer n b)
    (hbase : ∫ z, Real.exp (base.logProb z c) = 1) :
    ∫ y, Real.exp ((nestTransformed base bs).logProb y c) = 1 :=
  flowNd_stack_normalised_of volume base c bs (fun b hb => (hall b hb).layer c) hbase

/-- … and the law of its `sample` (the `dim`-pass sequential inverse in the default orientation) has density
`exp ∘ log_prob` -/
theorem flowNd_maf_stack_sample_law {K : Type} [MeasurableSpace K] (κ : Measure K) (n : ℕ)
    (base : Distn (Fin n → ℝ) (List ℝ) K ℝ) (c : List ℝ) (bs : List (Bij (Fin n → ℝ) (List ℝ) ℝ))
    (hall : ∀ b ∈ bs, NetMass.IsMafLayer n b)
    (hs : Measurable fun k => base.sample k c)
    (hbase : Measure.map (fun k => base.sample k c) κ
      = volume.withDensity fun z => ENNReal.ofReal (Real.exp (base.logProb z c))) :
    Measure.map (fun k => (nestTransformed base bs).sample k c) κ
      = volume.withDensity fun y => ENNReal.ofReal (Real.exp ((nestTransformed base bs).logProb y c)) :=
  flowNd_stack_sample_law_of volume κ base c bs (fun b hb => (hall b hb).layer c) hs hbase

/-- non-vacuity: the conditional masked network `NetMass.mafTanhExample` (dim 2, one conditioning variable, width 2, depth 1,
`tanh` activation, weights of both signs) with `loc = ps[0] + 1/2`, `scale = softplus (ps[1] − 1)` satisfies every hypothesis,
in both orientations, at every condition -/
theorem maf_affine_instance (c : List ℝ) :
    NetMass.IsMafLayer 2 (NetMass.liftBij 2 (mafBij NetMass.mafTanhExample
      (NetLogDet.affineFamily (fun ps => nth ps 0 + 1 / 2) (fun ps => (Transc.softplus (nth ps 1 + -1) : ℝ))))) ∧
    NetMass.IsMafLayer 2 (Gen.Invert.mk (NetMass.liftBij 2 (mafBij NetMass.mafTanhExample
      (NetLogDet.affineFamily (fun ps => nth ps 0 + 1 / 2) (fun ps => (Transc.softplus (nth ps 1 + -1) : ℝ)))))).toBij := by
  obtain ⟨h1, h2, h3⟩ := maf_default_affine_params (1 / 2) (-1)
  exact ⟨⟨NetMass.mafTanhExample, rfl, _, _, NetMass.mafTanhExample_wellShaped, NetMass.tanh_differentiableAt, h1, h2, h3,
      Or.inl rfl⟩,
    ⟨NetMass.mafTanhExample, rfl, _, _, NetMass.mafTanhExample_wellShaped, NetMass.tanh_differentiableAt, h1, h2, h3,
      Or.inr rfl⟩⟩

/-- a complete concrete flow: `StandardNormal((2,))` pushed through two layers — `Invert(MAF)` then `MAF` of the example
network — integrates to one at EVERY value of the conditioning variable -/
theorem maf_flow_instance {K : Type} (smp : K → List ℝ → Fin 2 → ℝ) (c : List ℝ) :
    ∫ y, Real.exp ((nestTransformed (Mass.stdNormalN 2 smp)
      [(Gen.Invert.mk (NetMass.liftBij 2 (mafBij NetMass.mafTanhExample
          (NetLogDet.affineFamily (fun ps => nth ps 0 + 1 / 2) (fun ps => (Transc.softplus (nth ps 1 + -1) : ℝ)))))).toBij,
       NetMass.liftBij 2 (mafBij NetMass.mafTanhExample
          (NetLogDet.affineFamily (fun ps => nth ps 0 + 1 / 2) (fun ps => (Transc.softplus (nth ps 1 + -1) : ℝ))))]).logProb y c) = 1 := by
  refine flowNd_maf_stack_normalised 2 _ c _ ?_ (Mass.stdNormalN_normalised 2 smp c)
  intro b hb
  simp only [List.mem_cons, List.not_mem_nil, or_false] at hb
  rcases hb with rfl | rfl
  · exact (maf_affine_instance c).2
  · exact (maf_affine_instance c).1

end MafNd
/-! ## ===== END 9. ===== -/

/-! ## ===== BEGIN 10. d dimensions, unconditional for Planar layers =====

About the methods GENERATED from `_UnconditionalPlanar` (`Gen/Planar.lean`, with the generated constraint `get_act_scale`).
`planar_flow` builds `Transformed(base, Invert(Scan(layers)))` by default, so `log_prob` evaluates the FORWARD methods
`transform` / `transform_and_log_det` only: the density is `q(x) = p(f(x)) · |det J_f(x)|`.

* `activation = tanh`: the library implements no inverse.  `PlanarMass.tanhBij n p` is the record whose forward methods are the
  generated ones and whose `inverse` is the mathematical inverse of the forward map — it exists because the map is a bijection of
  `ℝⁿ` (`planar_tanh_bijective`, for every `w ≠ 0`, unconstrained `u`, bias: `w·û > −1` is the generated constraint).  In
  `Invert(·)` that inverse is the `transform` used by `sample` only (`NotImplementedError` in the library), never by `log_prob`:
  `planar_tanh_log_prob` spells the density out in generated code.
* leaky relu, slope `0 < s ≤ 1` (C01 `planar_lrelu_lawful`; `s > 1` is known finding `planar_steep`): piecewise affine, kink on the
  hyperplane `w·x + b = 0` (null); pieces `{w·x + b ≥ 0}` (slope 1 — the value the code's log-det uses ON the kink) and its complement. -/
section PlanarNd

/-- **the generated `transform` of a tanh planar layer is a bijection of `ℝⁿ`** — every `w ≠ 0`, unconstrained `u`, bias -/
theorem planar_tanh_bijective {n : ℕ} (p : UnconditionalPlanar ℝ) (hw : p.weight.length = n)
    (hu : p._act_scale.length = n) (hne : Jnp.dot p.weight p.weight ≠ 0) :
    Function.Bijective (VecLd.coordMap n p.transform_tanh) :=
  PlanarMass.transform_tanh_bijective ⟨hw, hu, hne⟩

/-- the reduction behind it: `x ↦ x + û·tanh(w·x + b)` is injective and onto `ℝⁿ` as soon as `w·û > −1` -/
theorem planar_tanh_vector_bijective {n : ℕ} (w û : Fin n → ℝ) (hc : -1 < w ⬝ᵥ û) (b : ℝ) :
    Function.Bijective (PlanarPf.fwdV Real.tanh w û b) :=
  PlanarMass.fwdV_tanh_bijective w û hc b

/-- both orientations of the tanh planar layer satisfy the layer hypotheses, at every condition -/
theorem planar_tanh_layer {C : Type} {n : ℕ} (p : UnconditionalPlanar ℝ) (hw : p.weight.length = n)
    (hu : p._act_scale.length = n) (hne : Jnp.dot p.weight p.weight ≠ 0) (c : C) :
    Mass.InvJacN (Gen.Invert.mk (PlanarMass.tanhBij n p : Bij (Fin n → ℝ) C ℝ)).toBij c ∧
    Mass.FwdJacN (PlanarMass.tanhBij n p : Bij (Fin n → ℝ) C ℝ) c :=
  ⟨PlanarMass.tanh_invert_invJacN ⟨hw, hu, hne⟩ c, PlanarMass.tanh_fwdJacN ⟨hw, hu, hne⟩ c⟩

/-- what `log_prob` of `Transformed(base, Invert(Planar(tanh)))` computes: generated code only —
`base.log_prob(transform x) + transform_and_log_det(x)[1]` -/
theorem planar_tanh_log_prob {C K : Type} {n : ℕ} (p : UnconditionalPlanar ℝ) (base : Distn (Fin n → ℝ) C K ℝ) (c : C)
    (x : Fin n → ℝ) :
    (Transformed.mk base (Gen.Invert.mk (PlanarMass.tanhBij n p : Bij (Fin n → ℝ) C ℝ)).toBij).toDist.logProb x c
      = base.logProb (VecLd.toVec n (p.transform_and_log_det_tanh (List.ofFn x)).1) c
        + (p.transform_and_log_det_tanh (List.ofFn x)).2 := rfl

/-- **`flowNd_planar_tanh_normalised`**: the density `planar_flow` evaluates, `q(x) = p(f(x))·|det J_f(x)|` with `f` the generated
tanh planar `transform`, integrates to one over `ℝⁿ` for every `w ≠ 0`, unconstrained `u`, bias, at every condition -/
theorem flowNd_planar_tanh_normalised {C K : Type} {n : ℕ} (p : UnconditionalPlanar ℝ) (hw : p.weight.length = n)
    (hu : p._act_scale.length = n) (hne : Jnp.dot p.weight p.weight ≠ 0)
    (base : Distn (Fin n → ℝ) C K ℝ) (c : C) (hbase : ∫ z, Real.exp (base.logProb z c) = 1) :
    ∫ x : Fin n → ℝ, Real.exp (base.logProb (VecLd.toVec n (p.transform_and_log_det_tanh (List.ofFn x)).1) c
        + (p.transform_and_log_det_tanh (List.ofFn x)).2) = 1 := by
  have h := flowNd_normalised_of' volume
    (Transformed.mk base (Gen.Invert.mk (PlanarMass.tanhBij n p : Bij (Fin n → ℝ) C ℝ)).toBij) c
    (Or.inl (planar_tanh_layer p hw hu hne c).1) hbase
  exact h

/-- both orientations of the leaky-relu planar layer satisfy the layer hypotheses (kink on a hyperplane: two pieces) -/
theorem planar_lrelu_layer {C : Type} {n : ℕ} (p : UnconditionalPlanar ℝ) (hw : p.weight.length = n)
    (hu : p._act_scale.length = n) (hne : Jnp.dot p.weight p.weight ≠ 0) {s : ℝ} (hs0 : 0 < s) (hs1 : s ≤ 1) (c : C) :
    Mass.InvJacN (Gen.Invert.mk (NetMass.liftBij n (Planar.lreluBij p s : Bij (List ℝ) C ℝ))).toBij c ∧
    Mass.FwdJacN (NetMass.liftBij n (Planar.lreluBij p s : Bij (List ℝ) C ℝ)) c :=
  ⟨PlanarMass.lrelu_invert_invJacN ⟨hw, hu, hne⟩ hs0 hs1 c, PlanarMass.lrelu_fwdJacN ⟨hw, hu, hne⟩ hs0 hs1 c⟩

/-- **`flowNd_planar_lrelu_normalised`**: `Transformed(base, Invert(Planar(negative_slope=s)))` (the `planar_flow` default) and
`Transformed(base, Planar(negative_slope=s))` integrate to one, every `w ≠ 0`, `u`, bias, `0 < s ≤ 1` -/
theorem flowNd_planar_lrelu_normalised {C K : Type} {n : ℕ} (p : UnconditionalPlanar ℝ) (hw : p.weight.length = n)
    (hu : p._act_scale.length = n) (hne : Jnp.dot p.weight p.weight ≠ 0) {s : ℝ} (hs0 : 0 < s) (hs1 : s ≤ 1)
    (base : Distn (Fin n → ℝ) C K ℝ) (c : C) (hbase : ∫ z, Real.exp (base.logProb z c) = 1) :
    ∫ y, Real.exp ((Transformed.mk base
      (Gen.Invert.mk (NetMass.liftBij n (Planar.lreluBij p s : Bij (List ℝ) C ℝ))).toBij).toDist.logProb y c) = 1 ∧
    ∫ y, Real.exp ((Transformed.mk base
      (NetMass.liftBij n (Planar.lreluBij p s : Bij (List ℝ) C ℝ))).toDist.logProb y c) = 1 := by
  obtain ⟨h1, h2⟩ := planar_lrelu_layer p hw hu hne hs0 hs1 c
  exact ⟨flowNd_normalised_of' volume _ c (Or.inl h1) hbase, flowNd_normalised_of' volume _ c (Or.inr h2) hbase⟩

/-- a planar layer (`PlanarMass.IsPlanarLayer`: tanh or leaky relu with slope in `(0, 1]`, `w ≠ 0`, either orientation) satisfies one
of the two layer hypotheses at every condition -/
theorem planar_layer_of_isPlanarLayer {C : Type} {n : ℕ} {b : Bij (Fin n → ℝ) C ℝ} (h : PlanarMass.IsPlanarLayer C n b) (c : C) :
    Mass.InvJacN b c ∨ Mass.FwdJacN b c := h.layer c

/-- any depth of planar layers (each with its own parameters, activation and orientation): normalised, and `sample` (where the
inverse is the mathematical one for tanh) has law `exp ∘ log_prob` -/
theorem flowNd_planar_stack_normalised {C K : Type} (n : ℕ) (base : Distn (Fin n → ℝ) C K ℝ) (c : C)
    (bs : List (Bij (Fin n → ℝ) C ℝ)) (hall : ∀ b ∈ bs, PlanarMass.IsPlanarLayer C n b)
    (hbase : ∫ z, Real.exp (base.logProb z c) = 1) :
    ∫ y, Real.exp ((nestTransformed base bs).logProb y c) = 1 :=
  flowNd_stack_normalised_of volume base c bs (fun b hb => (hall b hb).layer c) hbase

theorem flowNd_planar_stack_sample_law {C K : Type} [MeasurableSpace K] (κ : Measure K) (n : ℕ)
    (base : Distn (Fin n → ℝ) C K ℝ) (c : C) (bs : List (Bij (Fin n → ℝ) C ℝ)) (hall : ∀ b ∈ bs, PlanarMass.IsPlanarLayer C n b)
    (hs : Measurable fun k => base.sample k c)
    (hbase : Measure.map (fun k => base.sample k c) κ
      = volume.withDensity fun z => ENNReal.ofReal (Real.exp (base.logProb z c))) :
    Measure.map (fun k => (nestTransformed base bs).sample k c) κ
      = volume.withDensity fun y => ENNReal.ofReal (Real.exp ((nestTransformed base bs).logProb y c)) :=
  flowNd_stack_sample_law_of volume κ base c bs (fun b hb => (hall b hb).layer c) hs hbase

/-- non-vacuity: `w = (1, 0)`, `u = (0, 3)`, `b = 0` on `ℝ²` is a planar layer in all four forms (slope `1/2` for leaky relu) -/
theorem planar_instance :
    PlanarMass.IsPlanarLayer Unit 2 (Gen.Invert.mk (PlanarMass.tanhBij 2 (⟨[1, 0], [0, 3], (0 : ℝ)⟩ : UnconditionalPlanar ℝ))).toBij ∧
    PlanarMass.IsPlanarLayer Unit 2 (NetMass.liftBij 2 (Planar.lreluBij (⟨[1, 0], [0, 3], (0 : ℝ)⟩ : UnconditionalPlanar ℝ) (1 / 2))) := by
  have hne : Jnp.dot ([1, 0] : List ℝ) [1, 0] ≠ 0 := by simp [ParamsPf.jdot_eq]
  exact ⟨⟨_, ⟨rfl, rfl, hne⟩, Or.inl rfl⟩,
    ⟨_, ⟨rfl, rfl, hne⟩, Or.inr (Or.inr ⟨1 / 2, by norm_num, by norm_num, Or.inr rfl⟩)⟩⟩

/-- a complete concrete flow: the density `planar_flow` evaluates for a two-layer stack (tanh, then leaky relu) over
`StandardNormal((2,))` integrates to one -/
theorem planar_flow_instance {K : Type} (smp : K → Unit → Fin 2 → ℝ) :
    ∫ y, Real.exp ((nestTransformed (Mass.stdNormalN 2 smp)
      [(Gen.Invert.mk (PlanarMass.tanhBij 2 (⟨[1, 0], [0, 3], (0 : ℝ)⟩ : UnconditionalPlanar ℝ))).toBij,
       NetMass.liftBij 2 (Planar.lreluBij (⟨[1, 0], [0, 3], (0 : ℝ)⟩ : UnconditionalPlanar ℝ) (1 / 2))]).logProb y ()) = 1 := by
  refine flowNd_planar_stack_normalised 2 _ () _ ?_ (Mass.stdNormalN_normalised 2 smp ())
  intro b hb
  simp only [List.mem_cons, List.not_mem_nil, or_false] at hb
  rcases hb with rfl | rfl
  · exact planar_instance.1
  · exact planar_instance.2

end PlanarNd
/-! ## ===== END 10. ===== -/

/-! ## ===== BEGIN 11. d dimensions, unconditional for BlockAutoregressiveNetwork =====

`BnafMass.bnafBij A act dim bd Ls condLinear`: the hand models `Masks.bnafTransform` and `Masks.bnafTransformAndLogDet` (the code's
log-space computation with the GENERATED `logmatmulexp`) in coordinates; its `inverse` is the exact inverse, which the library
approximates with the numerical inverter (C10 tolerance).  `Transformed(base, Invert(BNAF))` — the
`block_neural_autoregressive_flow` default — evaluates `log_prob` through `transform_and_log_det` only.
Hypotheses: `BnafLd.ActOK A act` (the activation's `transform_and_log_det` is `(act z, log act' z)`, `act` differentiable, `act' > 0`) and
`act` onto ℝ — both PROVED for the default `LeakyTanh(max_val)`, any `max_val > 0` (section 4: `tanh` is not onto, mass deficit);
`NetLawful.BnafOK` (shapes `BlockAutoregressiveNetwork.__init__` allocates, `block_dim ≥ 1`, every weight value). -/
section BnafNd
open Masks MasksPf

/-- the modelled BNAF forward map is a bijection of `ℝ^dim` -/
theorem bnaf_bijective {A : ℝ → ℝ × ℝ} {act : ℝ → ℝ} (hA : BnafLd.ActOK A act) (hsurj : Function.Surjective act)
    {dim depth bd : ℕ} {Ls : List (BnafLayer ℝ)} {condLinear : Option (List (List ℝ))}
    (hok : NetLawful.BnafOK dim depth bd Ls condLinear) (c : List ℝ) :
    Function.Bijective (NetLogDet.coords dim fun x => bnafTransform act Ls condLinear x c) :=
  BnafMass.fwdC_bijective (BnafMass.actOK_strictMono hA) hsurj hok c

/-- both orientations of the BNAF layer satisfy the layer hypotheses, at every condition -/
theorem bnaf_layer {A : ℝ → ℝ × ℝ} {act : ℝ → ℝ} (hA : BnafLd.ActOK A act) (hsurj : Function.Surjective act)
    {dim depth bd : ℕ} {Ls : List (BnafLayer ℝ)} {condLinear : Option (List (List ℝ))}
    (hok : NetLawful.BnafOK dim depth bd Ls condLinear) (c : List ℝ) :
    Mass.InvJacN (Gen.Invert.mk (BnafMass.bnafBij A act dim bd Ls condLinear)).toBij c ∧
    Mass.FwdJacN (BnafMass.bnafBij A act dim bd Ls condLinear) c :=
  ⟨BnafMass.bnaf_invert_invJacN hA hsurj hok c, BnafMass.bnaf_fwdJacN hA hsurj hok c⟩

/-- the default activation: no activation hypothesis left -/
theorem bnaf_leakytanh_layer {m : ℝ} (hm : 0 < m) {dim depth bd : ℕ} {Ls : List (BnafLayer ℝ)}
    {condLinear : Option (List (List ℝ))} (hok : NetLawful.BnafOK dim depth bd Ls condLinear) (c : List ℝ) :
    Mass.InvJacN (Gen.Invert.mk (BnafMass.bnafBij (fun z => LeakyTanh.transform_and_log_det (LeakyTanh.init m) z)
      (LeakyTanh.transform (LeakyTanh.init m)) dim bd Ls condLinear)).toBij c ∧
    Mass.FwdJacN (BnafMass.bnafBij (fun z => LeakyTanh.transform_and_log_det (LeakyTanh.init m) z)
      (LeakyTanh.transform (LeakyTanh.init m)) dim bd Ls condLinear) c :=
  bnaf_layer (BnafLd.leakyTanh_actOK hm) (BnafMass.leakyTanh_surjective hm) hok c

/-- what `log_prob` of `Transformed(base, Invert(BNAF))` computes: the modelled `transform_and_log_det` only; its log-det is
always finite (`some`), so reading it with `.getD 0` loses nothing -/
theorem bnaf_log_prob {K : Type} {A : ℝ → ℝ × ℝ} {act : ℝ → ℝ} (hA : BnafLd.ActOK A act)
    {dim depth bd : ℕ} {Ls : List (BnafLayer ℝ)} {condLinear : Option (List (List ℝ))}
    (hok : NetLawful.BnafOK dim depth bd Ls condLinear) (base : Distn (Fin dim → ℝ) (List ℝ) K ℝ) (c : List ℝ)
    (x : Fin dim → ℝ) :
    ∃ ld : ℝ, (bnafTransformAndLogDet A dim bd Ls condLinear (List.ofFn x) c).2 = some ld ∧
      (Transformed.mk base (Gen.Invert.mk (BnafMass.bnafBij A act dim bd Ls condLinear)).toBij).toDist.logProb x c
        = base.logProb (fun i => nth (bnafTransformAndLogDet A dim bd Ls condLinear (List.ofFn x) c).1 i) c + ld :=
  ⟨_, BnafMass.bnafBij_fwdLd_some hA hok c x, rfl⟩

/-- **`flowNd_bnaf_normalised`**: `Transformed(base, Invert(BlockAutoregressiveNetwork))` with the default `LeakyTanh(m)`
activation over a normalised base on `ℝ^dim` integrates to one — all well-shaped weights, every depth, block_dim ≥ 1, every
condition; also `Transformed(base, BNAF)` with the exact inverse -/
theorem flowNd_bnaf_normalised {K : Type} {m : ℝ} (hm : 0 < m) {dim depth bd : ℕ} {Ls : List (BnafLayer ℝ)}
    {condLinear : Option (List (List ℝ))} (hok : NetLawful.BnafOK dim depth bd Ls condLinear)
    (base : Distn (Fin dim → ℝ) (List ℝ) K ℝ) (c : List ℝ) (hbase : ∫ z, Real.exp (base.logProb z c) = 1) :
    ∫ y, Real.exp ((Transformed.mk base (Gen.Invert.mk (BnafMass.bnafBij
      (fun z => LeakyTanh.transform_and_log_det (LeakyTanh.init m) z) (LeakyTanh.transform (LeakyTanh.init m))
      dim bd Ls condLinear)).toBij).toDist.logProb y c) = 1 ∧
    ∫ y, Real.exp ((Transformed.mk base (BnafMass.bnafBij
      (fun z => LeakyTanh.transform_and_log_det (LeakyTanh.init m) z) (LeakyTanh.transform (LeakyTanh.init m))
      dim bd Ls condLinear)).toDist.logProb y c) = 1 := by
  obtain ⟨h1, h2⟩ := bnaf_leakytanh_layer hm hok c
  exact ⟨flowNd_normalised_of' volume _ c (Or.inl h1) hbase, flowNd_normalised_of' volume _ c (Or.inr h2) hbase⟩

/-- the same for any admissible activation (`ActOK`, onto ℝ), e.g. a callable with positive derivative that is onto -/
theorem flowNd_bnaf_normalised_of_act {K : Type} {A : ℝ → ℝ × ℝ} {act : ℝ → ℝ} (hA : BnafLd.ActOK A act)
    (hsurj : Function.Surjective act) {dim depth bd : ℕ} {Ls : List (BnafLayer ℝ)}
    {condLinear : Option (List (List ℝ))} (hok : NetLawful.BnafOK dim depth bd Ls condLinear)
    (base : Distn (Fin dim → ℝ) (List ℝ) K ℝ) (c : List ℝ) (hbase : ∫ z, Real.exp (base.logProb z c) = 1) :
    ∫ y, Real.exp ((Transformed.mk base
      (Gen.Invert.mk (BnafMass.bnafBij A act dim bd Ls condLinear)).toBij).toDist.logProb y c) = 1 :=
  flowNd_normalised_of' volume _ c (Or.inl (bnaf_layer hA hsurj hok c).1) hbase

/-- a BNAF layer (`BnafMass.IsBnafLayer`: admissible activation onto ℝ, well-shaped weights, either orientation) satisfies one of the
two layer hypotheses at every condition -/
theorem bnaf_layer_of_isBnafLayer {n : ℕ} {b : Bij (Fin n → ℝ) (List ℝ) ℝ} (h : BnafMass.IsBnafLayer n b) (c : List ℝ) :
    Mass.InvJacN b c ∨ Mass.FwdJacN b c := h.layer c

/-- any depth of BNAF layers: normalised; the law of `sample` — computed with the EXACT inverse; the library's bisection inverter
approximates it within the C10 tolerance — has density `exp ∘ log_prob` -/
theorem flowNd_bnaf_stack_normalised {K : Type} (n : ℕ) (base : Distn (Fin n → ℝ) (List ℝ) K ℝ) (c : List ℝ)
    (bs : List (Bij (Fin n → ℝ) (List ℝ) ℝ)) (hall : ∀ b ∈ bs, BnafMass.IsBnafLayer n b)
    (hbase : ∫ z, Real.exp (base.logProb z c) = 1) :
    ∫ y, Real.exp ((nestTransformed base bs).logProb y c) = 1 :=
  flowNd_stack_normalised_of volume base c bs (fun b hb => (hall b hb).layer c) hbase

theorem flowNd_bnaf_stack_sample_law {K : Type} [MeasurableSpace K] (κ : Measure K) (n : ℕ)
    (base : Distn (Fin n → ℝ) (List ℝ) K ℝ) (c : List ℝ) (bs : List (Bij (Fin n → ℝ) (List ℝ) ℝ))
    (hall : ∀ b ∈ bs, BnafMass.IsBnafLayer n b)
    (hs : Measurable fun k => base.sample k c)
    (hbase : Measure.map (fun k => base.sample k c) κ
      = volume.withDensity fun z => ENNReal.ofReal (Real.exp (base.logProb z c))) :
    Measure.map (fun k => (nestTransformed base bs).sample k c) κ
      = volume.withDensity fun y => ENNReal.ofReal (Real.exp ((nestTransformed base bs).logProb y c)) :=
  flowNd_stack_sample_law_of volume κ base c bs (fun b hb => (hall b hb).layer c) hs hbase

/-- non-vacuity: `MasksPf.bnafExample` (dim 2, depth 1, block_dim 1, weights of both signs) with the default `LeakyTanh(3)` -/
theorem bnaf_instance :
    BnafMass.IsBnafLayer 2 (Gen.Invert.mk (BnafMass.bnafBij (fun z => LeakyTanh.transform_and_log_det (LeakyTanh.init (3 : ℝ)) z)
      (LeakyTanh.transform (LeakyTanh.init 3)) 2 1 bnafExample none)).toBij :=
  ⟨_, _, 1, 1, _, _, BnafLd.leakyTanh_actOK (by norm_num), BnafMass.leakyTanh_surjective (by norm_num),
    NetLawful.bnafExample_ok, Or.inl rfl⟩

/-- a complete concrete flow: `Transformed(StandardNormal((2,)), Invert(BNAF))` for the example network with the default
activation integrates to one -/
theorem bnaf_flow_instance {K : Type} (smp : K → List ℝ → Fin 2 → ℝ) (c : List ℝ) :
    ∫ y, Real.exp ((Transformed.mk (Mass.stdNormalN 2 smp)
      (Gen.Invert.mk (BnafMass.bnafBij (fun z => LeakyTanh.transform_and_log_det (LeakyTanh.init (3 : ℝ)) z)
        (LeakyTanh.transform (LeakyTanh.init 3)) 2 1 bnafExample none)).toBij).toDist.logProb y c) = 1 :=
  (flowNd_bnaf_normalised (by norm_num) NetLawful.bnafExample_ok _ c (Mass.stdNormalN_normalised 2 smp c)).1

end BnafNd
/-! ## ===== END 11. ===== -/

/-! ## ===== BEGIN 12. permutation layers, condition-dependent planar layers, whole architectures =====

`_add_default_permute` puts `Flip` (dim 2; GENERATED, `Gen/Misc.lean`) or `Permute(perm)` (dim > 2; hand model `PermModel`, C07) after every
layer of the flow factories; both are coordinate permutations, `|det| = 1`, log-det `0` (`Proofs/PermMass.lean`).  A conditional `Planar`
computes its parameter vector from the condition (`Planar.get_planar(condition)`, model `Planar.getPlanar`): `Bij.dep`. -/
section ArchNd
open Masks MasksPf

theorem flip_layer {C : Type} (n : ℕ) (c : C) :
    Mass.InvJacN (NetMass.liftBij n (PermMass.flipBij : Bij (List ℝ) C ℝ)) c ∧
    Mass.InvJacN (Gen.Invert.mk (NetMass.liftBij n (PermMass.flipBij : Bij (List ℝ) C ℝ))).toBij c :=
  ⟨PermMass.flip_invJacN c, PermMass.flip_invert_invJacN c⟩

/-- every permutation the `Permute` constructor accepts (`PermModel.valid perm`), every length -/
theorem permute_layer {C : Type} (perm : List ℕ) (h : PermModel.valid perm = true) (c : C) :
    Mass.InvJacN (NetMass.liftBij perm.length (PermMass.permuteBij perm : Bij (List ℝ) C ℝ)) c ∧
    Mass.InvJacN (Gen.Invert.mk (NetMass.liftBij perm.length (PermMass.permuteBij perm : Bij (List ℝ) C ℝ))).toBij c :=
  ⟨PermMass.permute_invJacN perm ((PermModel.valid_iff perm).mp h) c,
   PermMass.permute_invert_invJacN perm ((PermModel.valid_iff perm).mp h) c⟩

/-- **conditional Planar (tanh)**: the parameter vector is ANY function `cnd` of the condition (the conditioner MLP) whose output
has length `2n+1` and non-zero weight block; `Invert(·)` (the `planar_flow(cond_dim=…)` default) and the direct orientation satisfy
the layer hypotheses at every condition -/
theorem planar_conditional_layer {C : Type} {n : ℕ} (cnd : C → List ℝ)
    (hcnd : ∀ c, (cnd c).length = 2 * n + 1 ∧ Jnp.dot ((cnd c).take n) ((cnd c).take n) ≠ 0) (c : C) :
    Mass.InvJacN (Gen.Invert.mk (Bij.dep fun c' => (PlanarMass.tanhBij n (Planar.getPlanar n (cnd c')) : Bij (Fin n → ℝ) C ℝ))).toBij c ∧
    Mass.FwdJacN (Bij.dep fun c' => (PlanarMass.tanhBij n (Planar.getPlanar n (cnd c')) : Bij (Fin n → ℝ) C ℝ)) c :=
  FlowLayers.planar_conditional cnd hcnd c

/-- a layer of one of the flow architectures on `ℝⁿ` (`FlowLayers.IsFlowLayer`: affine coupling, affine MAF, planar — also with
condition-dependent parameters —, BNAF, each in either orientation where it has one, or a `Flip` / `Permute` placed between layers)
satisfies one of the two layer hypotheses at every condition -/
theorem layer_of_isFlowLayer {n : ℕ} {b : Bij (Fin n → ℝ) (List ℝ) ℝ} (h : FlowLayers.IsFlowLayer n b) (c : List ℝ) :
    Mass.InvJacN b c ∨ Mass.FwdJacN b c := h.layer c

/-- **any depth, any mixture of architectures**: a stack of flow layers over a normalised base on `ℝⁿ` integrates to one at every
condition -/
theorem flowNd_architecture_stack_normalised {K : Type} (n : ℕ) (base : Distn (Fin n → ℝ) (List ℝ) K ℝ) (c : List ℝ)
    (bs : List (Bij (Fin n → ℝ) (List ℝ) ℝ)) (hall : ∀ b ∈ bs, FlowLayers.IsFlowLayer n b)
    (hbase : ∫ z, Real.exp (base.logProb z c) = 1) :
    ∫ y, Real.exp ((nestTransformed base bs).logProb y c) = 1 :=
  flowNd_stack_normalised_of volume base c bs (fun b hb => (hall b hb).layer c) hbase

/-- the same for ONE `Transformed` over the `Chain` of the layers (what `merge_transforms` produces and what the factories'
`Scan` unrolls to) -/
theorem flowNd_architecture_chain_normalised {K : Type} (n : ℕ) (base : Distn (Fin n → ℝ) (List ℝ) K ℝ) (c : List ℝ)
    (bs : List (Bij (Fin n → ℝ) (List ℝ) ℝ)) (hall : ∀ b ∈ bs, FlowLayers.IsFlowLayer n b)
    (hbase : ∫ z, Real.exp (base.logProb z c) = 1) :
    ∫ y, Real.exp ((mergeTransforms base bs).logProb y c) = 1 := by
  rw [← flowNd_architecture_stack_normalised n base c bs hall hbase]
  congr 1; funext y
  rw [(Gen.merge_transforms_sem base bs).logProb]

/-- … and the law of `sample` has density `exp ∘ log_prob` (exact inverses where the library inverts numerically or not at all) -/
theorem flowNd_architecture_stack_sample_law {K : Type} [MeasurableSpace K] (κ : Measure K) (n : ℕ)
    (base : Distn (Fin n → ℝ) (List ℝ) K ℝ) (c : List ℝ) (bs : List (Bij (Fin n → ℝ) (List ℝ) ℝ))
    (hall : ∀ b ∈ bs, FlowLayers.IsFlowLayer n b)
    (hs : Measurable fun k => base.sample k c)
    (hbase : Measure.map (fun k => base.sample k c) κ
      = volume.withDensity fun z => ENNReal.ofReal (Real.exp (base.logProb z c))) :
    Measure.map (fun k => (nestTransformed base bs).sample k c) κ
      = volume.withDensity fun y => ENNReal.ofReal (Real.exp ((nestTransformed base bs).logProb y c)) :=
  flowNd_stack_sample_law_of volume κ base c bs (fun b hb => (hall b hb).layer c) hs hbase

/-- non-vacuity: the 2-D flow `StandardNormal → Invert(MAF example) → Flip → Invert(BNAF example)` integrates to one at every condition -/
theorem architecture_flow_instance {K : Type} (smp : K → List ℝ → Fin 2 → ℝ) (c : List ℝ) :
    ∫ y, Real.exp ((nestTransformed (Mass.stdNormalN 2 smp)
      [(Gen.Invert.mk (NetMass.liftBij 2 (mafBij NetMass.mafTanhExample
          (NetLogDet.affineFamily (fun ps => nth ps 0 + 1 / 2) (fun ps => (Transc.softplus (nth ps 1 + -1) : ℝ)))))).toBij,
       NetMass.liftBij 2 PermMass.flipBij,
       (Gen.Invert.mk (BnafMass.bnafBij (fun z => LeakyTanh.transform_and_log_det (LeakyTanh.init (3 : ℝ)) z)
          (LeakyTanh.transform (LeakyTanh.init 3)) 2 1 bnafExample none)).toBij]).logProb y c) = 1 := by
  refine flowNd_architecture_stack_normalised 2 _ c _ ?_ (Mass.stdNormalN_normalised 2 smp c)
  intro b hb
  simp only [List.mem_cons, List.not_mem_nil, or_false] at hb
  rcases hb with rfl | rfl | rfl
  · exact Or.inl (maf_affine_instance c).2
  · exact Or.inr (Or.inr (Or.inr (Or.inr (Or.inl rfl))))
  · exact Or.inr (Or.inr (Or.inl bnaf_instance))

end ArchNd
/-! ## ===== END 12. ===== -/

/-! ### Planar layers: the invertibility constraint that normalisation rests on -/

/-! ## ===== BEGIN 13. Coupling / MaskedAutoregressive layers from joint measurability only =====

Sections 8–9 ask the conditioner network to be DIFFERENTIABLE, which excludes the library's default activation `relu`.
For these two architectures differentiability in the conditioning coordinates is not needed at all: with the earlier coordinates
fixed, each transformed coordinate is a ONE-dimensional bijection, and Tonelli's theorem reduces the `n`-dimensional
change of variables to the one-dimensional one (`MassShear.prod_shear`, `coord_shear`, `ar_wpres`).  What is needed is joint
measurability of (point, own coordinate) ↦ scalar transformer of the point's parameter row — true for every CONTINUOUS conditioner.
`NetMass.LayerOK b c` is the pair of layer facts (`Mass.MassOK`, `Mass.LawOK`) every stack theorem consumes. -/
section MeasurableLayers
open Masks MasksPf

/-- **every autoregressive layer** (Tonelli, one coordinate at a time): a lawful bijection `b` of `ℝⁿ` whose forward map is
`x ↦ (g i x (x i))ᵢ`, where the scalar maps `g i x`, their inverses `h i x` and inverse log-dets `l i x` look at the coordinates of
`x` BELOW `i` only, are jointly measurable, and each fibre satisfies the one-dimensional weighted push-forward identity;
the reported inverse log-det is `Σᵢ l i x (y i)` at the preimage `x`.  Then total mass is preserved for EVERY integrand and the
sampler's law has the reported density for EVERY base density. -/
theorem autoregressive_layer {n : ℕ} {C : Type} (b : Bij (Fin n → ℝ) C ℝ) (c : C) (hL : b.Lawful univ univ)
    (g h l : Fin n → (Fin n → ℝ) → ℝ → ℝ)
    (hloc_h : ∀ i w w', MassShear.AgreeBelow (i : Fin n).val w w' → h i w = h i w')
    (hloc_l : ∀ i w w', MassShear.AgreeBelow (i : Fin n).val w w' → l i w = l i w')
    (hg : ∀ i, Measurable fun p : (Fin n → ℝ) × ℝ => g i p.1 p.2)
    (hh : ∀ i, Measurable fun p : (Fin n → ℝ) × ℝ => h i p.1 p.2)
    (hl : ∀ i, Measurable fun p : (Fin n → ℝ) × ℝ => l i p.1 p.2)
    (hgh : ∀ i w t, g i w (h i w t) = t)
    (hfib : ∀ i w, Measure.map (h i w)
      ((volume : Measure ℝ).withDensity fun t => ENNReal.ofReal (Real.exp (l i w t))) = volume)
    (hfwd : ∀ x, b.fwd x c = fun i => g i x (x i))
    (hld : ∀ y, (b.invLd y c).2 = ∑ i, l i (b.inv y c) (y i)) :
    NetMass.LayerOK b c :=
  Mass.ar_layer b c hL g h l hloc_h hloc_l hg hh hl hgh hfib hfwd hld

/-- the one-dimensional layer fact is exactly the fibre hypothesis -/
theorem fibre_of_scalar_layer (τ : Bij ℝ Unit ℝ) (hL : τ.Lawful univ univ) (h : Mass.LawOK volume τ ())
    (him : Measurable fun y => τ.inv y ()) :
    Measure.map (fun y => τ.inv y ())
      ((volume : Measure ℝ).withDensity fun t => ENNReal.ofReal (Real.exp (τ.invLd t ()).2)) = volume :=
  Mass.fibre_of_lawOK τ hL h him

/-- **Coupling, any conditioner FUNCTION and any scalar transformer family** (lawful on ℝ, log-det antisymmetric, one-dimensional
layer fact), every `d ≤ n`, every condition, BOTH orientations; the only analytic hypothesis is joint measurability -/
theorem coupling_layer_measurable (d n : ℕ) (hdn : d ≤ n) (cnd : List ℝ → List ℝ) (tf : List ℝ → Bij ℝ Unit ℝ)
    (htf : ∀ ps, (tf ps).Lawful univ univ) (hanti : ∀ ps, (tf ps).LdAntisym univ)
    (h1 : ∀ ps, Mass.LawOK volume (tf ps) ()) (c : List ℝ) (hm : NetMass.CouplingMeas d n cnd tf c) :
    NetMass.LayerOK (NetMass.liftBij n (couplingBij d cnd tf)) c ∧
    NetMass.LayerOK (Gen.Invert.mk (NetMass.liftBij n (couplingBij d cnd tf))).toBij c :=
  NetMass.coupling_layer_meas d n cnd tf hdn htf hanti h1 c hm

/-- **MaskedAutoregressive, any well-shaped masked network (any activation) and any scalar transformer family**, every
condition, both orientations -/
theorem maf_layer_measurable (N : MafNet ℝ) (hN : N.WellShaped) (tf : List ℝ → Bij ℝ Unit ℝ)
    (htf : ∀ ps, (tf ps).Lawful univ univ) (hanti : ∀ ps, (tf ps).LdAntisym univ)
    (h1 : ∀ ps, Mass.LawOK volume (tf ps) ()) (c : List ℝ) (hm : NetMass.MafMeas N tf c) :
    NetMass.LayerOK (NetMass.liftBij N.dim (mafBij N tf)) c ∧
    NetMass.LayerOK (Gen.Invert.mk (NetMass.liftBij N.dim (mafBij N tf))).toBij c :=
  NetMass.maf_layer_meas N tf hN htf hanti h1 c hm

/-- **the DEFAULT coupling layer**: generated `Affine` transformer with `loc = ps[0] + a`, `scale = softplus(ps[1] + b)`, conditioner
= a multilayer perceptron of any depth and shapes with the `relu` activation (output length `(n − d)·np`) — hypotheses all
discharged, both orientations, every condition -/
theorem coupling_relu_layer (d n np : ℕ) (hdn : d ≤ n) (Ls : List (MaskedLinear ℝ)) (a b₀ : ℝ) (c : List ℝ)
    (hlen : ∀ z, (mlpForward (fun z : ℝ => max z 0) Ls z).length = (n - d) * np) :
    NetMass.LayerOK (NetMass.liftBij n (couplingBij d (mlpForward (fun z : ℝ => max z 0) Ls)
      (NetLogDet.affineFamily (fun ps => nth ps 0 + a) (fun ps => (Transc.softplus (nth ps 1 + b₀) : ℝ))))) c ∧
    NetMass.LayerOK (Gen.Invert.mk (NetMass.liftBij n (couplingBij d (mlpForward (fun z : ℝ => max z 0) Ls)
      (NetLogDet.affineFamily (fun ps => nth ps 0 + a) (fun ps => (Transc.softplus (nth ps 1 + b₀) : ℝ)))))).toBij c :=
  NetMass.coupling_affine_layer_meas d n np _ _ _ hdn c
    (NetMass.mlp_conditioner_contC d n _ NetMass.relu_continuous Ls c) hlen
    (NetMass.rowMeas_nth_add 0 a) (NetMass.rowMeas_softplus 1 b₀) (fun ps => (MasksPf.softplus_pos _).ne')

/-- **the DEFAULT masked autoregressive layer**: every well-shaped masked network whose activation is continuous (`relu`
included), affine transformer with the constructor's parameterisation, both orientations, every condition -/
theorem maf_continuous_layer (N : MafNet ℝ) (hN : N.WellShaped) (hact : Continuous N.act) (a b₀ : ℝ) (c : List ℝ) :
    NetMass.LayerOK (NetMass.liftBij N.dim (mafBij N
      (NetLogDet.affineFamily (fun ps => nth ps 0 + a) (fun ps => (Transc.softplus (nth ps 1 + b₀) : ℝ))))) c ∧
    NetMass.LayerOK (Gen.Invert.mk (NetMass.liftBij N.dim (mafBij N
      (NetLogDet.affineFamily (fun ps => nth ps 0 + a) (fun ps => (Transc.softplus (nth ps 1 + b₀) : ℝ)))))).toBij c :=
  NetMass.maf_affine_layer_meas N _ _ hN hact (NetMass.rowMeas_nth_add 0 a) (NetMass.rowMeas_softplus 1 b₀)
    (fun ps => (MasksPf.softplus_pos _).ne') c

theorem relu_continuous : Continuous (fun z : ℝ => max z 0) := NetMass.relu_continuous

/-- the three scalar hypotheses hold for EVERY well-formed rational-quadratic spline (so for a spline transformer inside
Coupling / MAF only the joint measurability `CouplingMeas` / `MafMeas` remains a hypothesis) -/
theorem spline_family_facts {p : RationalQuadraticSpline ℝ} (h : Rqs.RqsWF p) :
    (p.toBij : Bij ℝ Unit ℝ).Lawful univ univ ∧ (p.toBij : Bij ℝ Unit ℝ).LdAntisym univ ∧
    Mass.LawOK volume (p.toBij : Bij ℝ Unit ℝ) () :=
  ⟨Rqs.rqs_lawful h, Rqs.rqs_ldAntisym h, (Mass.rqs_fwdJac h ()).lawOK⟩

/-- every layer of sections 8–12 (`FlowLayers.IsFlowLayer`) supplies the two layer facts -/
theorem layerOK_of_isFlowLayer {n : ℕ} {b : Bij (Fin n → ℝ) (List ℝ) ℝ} (h : FlowLayers.IsFlowLayer n b) (c : List ℝ) :
    NetMass.LayerOK b c :=
  (h.layer c).elim (fun h => ⟨h.massOK volume, h.lawOK volume⟩) (fun h => ⟨h.massOK volume, h.lawOK volume⟩)

/-- **any depth, any mixture of layers that supply the two layer facts** — in particular default (`relu`) coupling / MAF layers
mixed with permutations and the layers of sections 8–12: the flow is normalised -/
theorem flowNd_layerOK_stack_normalised {K : Type} (n : ℕ) (base : Distn (Fin n → ℝ) (List ℝ) K ℝ) (c : List ℝ)
    (bs : List (Bij (Fin n → ℝ) (List ℝ) ℝ)) (hall : ∀ b ∈ bs, NetMass.LayerOK b c)
    (hbase : ∫ z, Real.exp (base.logProb z c) = 1) :
    ∫ y, Real.exp ((nestTransformed base bs).logProb y c) = 1 := by
  rw [Mass.nest_mass volume base c bs (fun b hb => (hall b hb).1), hbase]

/-- … and `sample` has law `exp ∘ log_prob` -/
theorem flowNd_layerOK_stack_sample_law {K : Type} [MeasurableSpace K] (κ : Measure K) (n : ℕ)
    (base : Distn (Fin n → ℝ) (List ℝ) K ℝ) (c : List ℝ) (bs : List (Bij (Fin n → ℝ) (List ℝ) ℝ))
    (hall : ∀ b ∈ bs, NetMass.LayerOK b c)
    (hs : Measurable fun k => base.sample k c)
    (hbase : Measure.map (fun k => base.sample k c) κ
      = volume.withDensity fun z => ENNReal.ofReal (Real.exp (base.logProb z c))) :
    Measure.map (fun k => (nestTransformed base bs).sample k c) κ
      = volume.withDensity fun y => ENNReal.ofReal (Real.exp ((nestTransformed base bs).logProb y c)) :=
  (Mass.nest_law volume κ base c bs (fun b hb => (hall b hb).2) hs hbase).2

/-- non-vacuity (MAF): the example network of section 9 with its activation replaced by `relu` -/
noncomputable def mafReluExample : MafNet ℝ := { NetMass.mafTanhExample with act := fun z => max z 0 }

theorem mafReluExample_wellShaped : mafReluExample.WellShaped := NetMass.mafTanhExample_wellShaped

/-- non-vacuity (Coupling): a `relu` perceptron `1 + 1 → 2 → 2` (first block of size 1, one conditioning variable, two
parameters for the single transformed coordinate), weights of both signs -/
noncomputable def couplingReluExample : List (MaskedLinear ℝ) :=
  [⟨[[true, true], [true, true]], [[1, -2], [-1, 3]], [1, -1]⟩,
   ⟨[[true, true], [true, true]], [[2, 1], [-1, 3]], [0, 1]⟩]

theorem couplingReluExample_length (z : List ℝ) :
    (mlpForward (fun z : ℝ => max z 0) couplingReluExample z).length = (2 - 1) * 2 := by
  simp [couplingReluExample, mlpForward, MaskedLinear.apply, linearApply, MaskedLinear.unwrapW, whereMask]

/-- a complete DEFAULT-style flow: `StandardNormal((2,))` pushed through `Invert(MAF)` and a coupling layer, both with `relu`
conditioner networks and the affine transformer in the constructor's parameterisation — integrates to one at EVERY condition -/
theorem relu_flow_instance {K : Type} (smp : K → List ℝ → Fin 2 → ℝ) (c : List ℝ) :
    ∫ y, Real.exp ((nestTransformed (Mass.stdNormalN 2 smp)
      [(Gen.Invert.mk (NetMass.liftBij 2 (mafBij mafReluExample
          (NetLogDet.affineFamily (fun ps => nth ps 0 + 1 / 2) (fun ps => (Transc.softplus (nth ps 1 + -1) : ℝ)))))).toBij,
       NetMass.liftBij 2 (couplingBij 1 (mlpForward (fun z : ℝ => max z 0) couplingReluExample)
          (NetLogDet.affineFamily (fun ps => nth ps 0 + 0) (fun ps => (Transc.softplus (nth ps 1 + 1) : ℝ))))]).logProb y c) = 1 := by
  refine flowNd_layerOK_stack_normalised 2 _ c _ ?_ (Mass.stdNormalN_normalised 2 smp c)
  intro b hb
  simp only [List.mem_cons, List.not_mem_nil, or_false] at hb
  rcases hb with rfl | rfl
  · exact (maf_continuous_layer mafReluExample mafReluExample_wellShaped relu_continuous (1 / 2) (-1) c).2
  · exact (coupling_relu_layer 1 2 2 (by norm_num) couplingReluExample 0 1 c couplingReluExample_length).1

/-! ### 13b. the rational-quadratic-spline transformer: joint measurability DISCHARGED

`Flows.rqsFamily cfg init` (`Model/FlowsPre.lean`) is the `transformer_constructor` of `RationalQuadraticSpline(knots, interval)`:
`row + init` is split into raw widths / heights / derivatives, passed through the GENERATED `_real_to_increasing_on_interval` and
derivative lambda (`Gen/Params.lean`); the methods are the GENERATED `transform / inverse / …_and_log_det` (`Gen/Leaves.lean`).
`Proofs/NetMassSpline.lean`: a parameter row that is a fixed list of measurable functions of the point (`NetMass.MeasL`; every
continuous conditioner row is one) stays one through softmax / cumsum / pad; `searchsorted` at a measurable point is a measurable
integer; `getItem` at a measurable integer index is measurable; so the three methods are jointly measurable in (point, coordinate). -/
section SplineMeas

/-- **the spline methods are jointly measurable in (parameters, argument)** over ANY measurable parameter space `A`: for every
parameter row `row : A → List ℝ` that is a fixed list of measurable functions (`NetMass.MeasL`), every configuration and `init`
(no well-formedness needed), `(a, t) ↦ transform / inverse / inverse-log-det of rqsFamily cfg init (row a) at t` are measurable -/
theorem spline_joint_measurable {A : Type} [MeasurableSpace A] (cfg : Flows.RqsCfg ℝ) (init : List ℝ) {row : A → List ℝ}
    (hrow : NetMass.MeasL row) :
    (Measurable fun p : A × ℝ => (Flows.rqsFamily cfg init (row p.1)).fwd p.2 ()) ∧
    (Measurable fun p : A × ℝ => (Flows.rqsFamily cfg init (row p.1)).inv p.2 ()) ∧
    (Measurable fun p : A × ℝ => ((Flows.rqsFamily cfg init (row p.1)).invLd p.2 ()).2) :=
  NetMass.rqsFamily_joint_meas cfg init hrow

/-- **`CouplingMeas` holds for the spline family**: every conditioner continuous in the first block (`relu` networks included)
with constant output length `(n − d)·np`, every spline configuration (knots, interval, softmax_adjust, min_derivative), every
`init`, every `d`, `n`, every condition -/
theorem coupling_spline_meas (d n np : ℕ) (cnd : List ℝ → List ℝ) (cfg : Flows.RqsCfg ℝ) (init : List ℝ) (c : List ℝ)
    (hc : NetMass.ContC (fun w : Fin n → ℝ => cnd ((List.ofFn w).take d ++ c)))
    (hlen : ∀ z, (cnd z).length = (n - d) * np) :
    NetMass.CouplingMeas d n cnd (Flows.rqsFamily cfg init) c :=
  NetMass.coupling_spline_meas d n np cnd cfg init c hc hlen

/-- **`MafMeas` holds for the spline family**: every well-shaped masked network with a continuous activation, every spline
configuration, every `init`, every condition -/
theorem maf_spline_meas (N : MafNet ℝ) (hN : N.WellShaped) (hact : Continuous N.act) (cfg : Flows.RqsCfg ℝ)
    (init : List ℝ) (c : List ℝ) : NetMass.MafMeas N (Flows.rqsFamily cfg init) c :=
  NetMass.maf_spline_meas N hN hact cfg init c

/-- for EVERY conditioner output row the constructed spline is well-formed (C11 `rqs_params_wf_core` through
`FlowsPf.rqsFamily_wf`), hence lawful on ℝ, log-det antisymmetric and satisfies the one-dimensional layer fact -/
theorem spline_family_facts_all {cfg : Flows.RqsCfg ℝ} {init : List ℝ} (hcfg : FlowsPf.RqsCfgOK cfg init) (ps : List ℝ) :
    (Flows.rqsFamily cfg init ps).Lawful univ univ ∧ (Flows.rqsFamily cfg init ps).LdAntisym univ ∧
    Mass.LawOK volume (Flows.rqsFamily cfg init ps) () :=
  spline_family_facts (FlowsPf.rqsFamily_wf hcfg ps)

/-- **the spline coupling layer, any continuous conditioner**: both layer facts in both orientations, NO measurability hypothesis;
`FlowsPf.RqsCfgOK cfg init`: `knots ≥ 1`, `init.length = 3·knots + 2`, `interval.1 < interval.2`, `softmax_adjust ≥ 0`,
`min_derivative ≥ 0` (what the constructor enforces) -/
theorem coupling_spline_layer_of_continuous (d n np : ℕ) (hdn : d ≤ n) (cnd : List ℝ → List ℝ) {cfg : Flows.RqsCfg ℝ}
    {init : List ℝ} (hcfg : FlowsPf.RqsCfgOK cfg init) (c : List ℝ)
    (hc : NetMass.ContC (fun w : Fin n → ℝ => cnd ((List.ofFn w).take d ++ c)))
    (hlen : ∀ z, (cnd z).length = (n - d) * np) :
    NetMass.LayerOK (NetMass.liftBij n (couplingBij d cnd (Flows.rqsFamily cfg init))) c ∧
    NetMass.LayerOK (Gen.Invert.mk (NetMass.liftBij n (couplingBij d cnd (Flows.rqsFamily cfg init)))).toBij c :=
  coupling_layer_measurable d n hdn cnd _ (fun ps => (spline_family_facts_all hcfg ps).1)
    (fun ps => (spline_family_facts_all hcfg ps).2.1) (fun ps => (spline_family_facts_all hcfg ps).2.2) c
    (coupling_spline_meas d n np cnd cfg init c hc hlen)

/-- **the DEFAULT spline coupling layer** (`coupling_flow(transformer=RationalQuadraticSpline(knots, interval))`): conditioner = a
multilayer perceptron of any depth and shapes with the `relu` activation (output length `(n − d)·np`), every accepted spline
configuration — both layer facts, both orientations, every condition, no hypothesis left but the shapes -/
theorem coupling_spline_layer (d n np : ℕ) (hdn : d ≤ n) (Ls : List (MaskedLinear ℝ)) {cfg : Flows.RqsCfg ℝ}
    {init : List ℝ} (hcfg : FlowsPf.RqsCfgOK cfg init) (c : List ℝ)
    (hlen : ∀ z, (mlpForward (fun z : ℝ => max z 0) Ls z).length = (n - d) * np) :
    NetMass.LayerOK (NetMass.liftBij n (couplingBij d (mlpForward (fun z : ℝ => max z 0) Ls)
      (Flows.rqsFamily cfg init))) c ∧
    NetMass.LayerOK (Gen.Invert.mk (NetMass.liftBij n (couplingBij d (mlpForward (fun z : ℝ => max z 0) Ls)
      (Flows.rqsFamily cfg init)))).toBij c :=
  coupling_spline_layer_of_continuous d n np hdn _ hcfg c
    (NetMass.mlp_conditioner_contC d n _ NetMass.relu_continuous Ls c) hlen

/-- **the spline masked autoregressive layer** (`masked_autoregressive_flow(transformer=RationalQuadraticSpline(…))`): every
well-shaped masked network whose activation is continuous (`relu` included), every accepted spline configuration — both layer
facts, both orientations, every condition -/
theorem maf_spline_layer (N : MafNet ℝ) (hN : N.WellShaped) (hact : Continuous N.act) {cfg : Flows.RqsCfg ℝ}
    {init : List ℝ} (hcfg : FlowsPf.RqsCfgOK cfg init) (c : List ℝ) :
    NetMass.LayerOK (NetMass.liftBij N.dim (mafBij N (Flows.rqsFamily cfg init))) c ∧
    NetMass.LayerOK (Gen.Invert.mk (NetMass.liftBij N.dim (mafBij N (Flows.rqsFamily cfg init)))).toBij c :=
  maf_layer_measurable N hN _ (fun ps => (spline_family_facts_all hcfg ps).1)
    (fun ps => (spline_family_facts_all hcfg ps).2.1) (fun ps => (spline_family_facts_all hcfg ps).2.2) c
    (maf_spline_meas N hN hact cfg init c)

/-- non-vacuity: `RationalQuadraticSpline(knots=2, interval=(-3, 3))` with the library's `softmax_adjust = 1e-2`,
`min_derivative = 1e-3`; `init` (2 + 2 + 4 raw values) away from the constructor's initialisation, both signs -/
noncomputable def splineCfgExample : Flows.RqsCfg ℝ := ⟨2, (-3, 3), 1 / 100, 1 / 1000⟩
noncomputable def splineInitExample : List ℝ := [1 / 2, -1, 0, 2, -1 / 3, 1, 0, -2]

theorem splineCfgExample_ok : FlowsPf.RqsCfgOK splineCfgExample splineInitExample :=
  ⟨by simp [splineCfgExample], by simp [splineCfgExample, splineInitExample], by norm_num [splineCfgExample],
   by norm_num [splineCfgExample], by norm_num [splineCfgExample]⟩

/-- non-vacuity (Coupling): a `relu` perceptron `1 + 1 → 2 → 8` (first block of size 1, one conditioning variable, the
`3·2 + 2 = 8` spline parameters of the single transformed coordinate), weights of both signs -/
noncomputable def couplingSplineExample : List (MaskedLinear ℝ) :=
  [⟨[[true, true], [true, true]], [[1, -2], [-1, 3]], [1, -1]⟩,
   ⟨List.replicate 8 [true, true], [[2, 1], [-1, 3], [1, 1], [-2, 1], [0, -1], [3, 2], [-1, -1], [1, 0]],
    [0, 1, -1, 2, 0, -2, 1, 1]⟩]

theorem couplingSplineExample_length (z : List ℝ) :
    (mlpForward (fun z : ℝ => max z 0) couplingSplineExample z).length = (2 - 1) * 8 := by
  simp [couplingSplineExample, mlpForward, MaskedLinear.apply, linearApply, MaskedLinear.unwrapW, whereMask]

/-- non-vacuity (MAF): dim 2, one conditioning variable, width 2, depth 1, EIGHT parameters per coordinate, `relu` -/
noncomputable def mafSplineExample : MafNet ℝ :=
  { dim := 2, condDim := some 1, width := 2, depth := 1, numParams := 8,
    weights := [[[1, -2, 3], [-1, 1, 2]],
      [[2, 1], [-1, 3], [1, 1], [-2, 1], [0, -1], [3, 2], [-1, -1], [1, 0],
       [1, 2], [3, -1], [-1, 1], [1, -2], [-1, 0], [2, 3], [1, -1], [0, 1]]],
    biases := [[1, -1], [0, 1, -1, 2, 0, -2, 1, 1, 1, 0, 2, -1, -2, 0, 1, -1]], act := fun z => max z 0 }

theorem mafSplineExample_wellShaped : mafSplineExample.WellShaped := by
  refine ⟨rfl, rfl, ?_⟩
  intro l hw hb
  have hl : l < 2 := hw
  interval_cases l
  · exact ⟨3, 2, rfl, rfl, ⟨rfl, by intro row hrow; simp [mafSplineExample] at hrow; rcases hrow with rfl | rfl <;> rfl⟩, rfl⟩
  · exact ⟨2, 16, rfl, rfl, ⟨rfl, by
      intro row hrow; simp [mafSplineExample] at hrow
      rcases hrow with rfl | rfl | rfl | rfl | rfl | rfl | rfl | rfl | rfl | rfl | rfl | rfl | rfl | rfl | rfl | rfl <;> rfl⟩, rfl⟩

/-- a complete SPLINE flow: `StandardNormal((2,))` pushed through `Invert(MAF)` and a coupling layer, both with `relu` conditioner
networks and the rational-quadratic-spline transformer in the constructor's parameterisation — integrates to one at EVERY
condition -/
theorem spline_flow_instance {K : Type} (smp : K → List ℝ → Fin 2 → ℝ) (c : List ℝ) :
    ∫ y, Real.exp ((nestTransformed (Mass.stdNormalN 2 smp)
      [(Gen.Invert.mk (NetMass.liftBij 2 (mafBij mafSplineExample
          (Flows.rqsFamily splineCfgExample splineInitExample)))).toBij,
       NetMass.liftBij 2 (couplingBij 1 (mlpForward (fun z : ℝ => max z 0) couplingSplineExample)
          (Flows.rqsFamily splineCfgExample splineInitExample))]).logProb y c) = 1 := by
  refine flowNd_layerOK_stack_normalised 2 _ c _ ?_ (Mass.stdNormalN_normalised 2 smp c)
  intro b hb
  simp only [List.mem_cons, List.not_mem_nil, or_false] at hb
  rcases hb with rfl | rfl
  · exact (maf_spline_layer mafSplineExample mafSplineExample_wellShaped relu_continuous splineCfgExample_ok c).2
  · exact (coupling_spline_layer 1 2 8 (by norm_num) couplingSplineExample splineCfgExample_ok c
      couplingSplineExample_length).1

end SplineMeas

end MeasurableLayers
/-! ## ===== END 13. ===== -/

/-! ## ===== BEGIN 14. `triangular_spline_flow` =====

Each layer is `Chain([LeakyTanh(m, (dim,)), Vmap(splines), Invert(LeakyTanh(m, (dim,))), TriangularAffine, (AdditiveCondition(Linear))])`
followed by the GENERATED `_add_default_permute` (hand model `Flows.triSplineCore`, `Flows.triSplineLayer`); the flow's bijection
is the GENERATED factory body `Invert(Scan(layers)) if invert else Scan(layers)` (`Flows.triSplineFlowBij`, the object of C01
`tri_spline_flow_lawful` and C03 `tri_spline_flow_ld_antisym`).  `NetMass.VLayer n b c` (`Proofs/TriSplineMass.lean`): the list-level
bijection `b` keeps vectors of length `n`, and read in coordinates on `ℝⁿ` (`NetMass.liftBij n b`) both `b` and the generated
`Invert(b)` supply the two layer facts at condition `c`; `VLayer.layerOK` spells that out as two `NetMass.LayerOK`. -/
section TriSplineFlow
open Flows FlowsPf

/-- **the layer facts are closed under composition** (any measurable space, any measure): if the inverse of `g` is
`a⁻¹ ∘ b⁻¹`, its forward map `b ∘ a`, and the inverse log-dets add along the trajectory, then `g` supplies the two layer facts as
soon as `a` and `b` do — for every integrand / base density -/
theorem layer_facts_comp {X C : Type} [MeasurableSpace X] (μ : Measure X) {a b g : Bij X C ℝ} {c : C}
    (ha : Mass.MassOK μ a c ∧ Mass.LawOK μ a c) (hb : Mass.MassOK μ b c ∧ Mass.LawOK μ b c)
    (hfst : ∀ y, (g.invLd y c).1 = g.inv y c) (hfwd : ∀ x, g.fwd x c = b.fwd (a.fwd x c) c)
    (hinv : ∀ y, g.inv y c = a.inv (b.inv y c) c)
    (hld : ∀ y, (g.invLd y c).2 = (b.invLd y c).2 + (a.invLd (b.inv y c) c).2) :
    Mass.MassOK μ g c ∧ Mass.LawOK μ g c := Mass.Layer.comp2 ha hb hfst hfwd hinv hld

/-- **the generated `Chain` of any list of layers that supply the two layer facts supplies them**, and if every member also
supplies them inside `Invert(·)`, so does `Invert(Chain(…))` — any measurable space, any measure, any length -/
theorem chain_layer_facts {X C : Type} [MeasurableSpace X] (μ : Measure X) (bs : List (Bij X C ℝ)) (c : C)
    (h : ∀ b ∈ bs, Mass.MassOK μ b c ∧ Mass.LawOK μ b c) :
    (Mass.MassOK μ (Chain.mk bs).toBij c ∧ Mass.LawOK μ (Chain.mk bs).toBij c) ∧
    ((∀ b ∈ bs, Mass.MassOK μ (Invert.mk b).toBij c ∧ Mass.LawOK μ (Invert.mk b).toBij c) →
      Mass.MassOK μ (Invert.mk (Chain.mk bs).toBij).toBij c ∧ Mass.LawOK μ (Invert.mk (Chain.mk bs).toBij).toBij c) :=
  ⟨Mass.Layer.chain bs h, fun h' => (Mass.BiLayer.chain bs fun b hb => ⟨h b hb, h' b hb⟩).2⟩

/-- the same for list-level layers read in coordinates: the generated `Chain` of any list of `VLayer`s is a `VLayer`, so is
`Invert(·)`, so is either value of the factories' `invert` flag -/
theorem vlayer_closed {n : ℕ} {C : Type} (c : C) :
    (∀ bs : List (Bij (List ℝ) C ℝ), (∀ b ∈ bs, NetMass.VLayer n b c) → NetMass.VLayer n (Chain.mk bs).toBij c) ∧
    (∀ b : Bij (List ℝ) C ℝ, NetMass.VLayer n b c → NetMass.VLayer n (Invert.mk b).toBij c) ∧
    (∀ (b : Bij (List ℝ) C ℝ) (invert : Bool), NetMass.VLayer n b c → NetMass.VLayer n (if invert then invertOf b else b) c) :=
  ⟨fun bs h => NetMass.VLayer.chain bs c h, fun _ h => h.invert, fun _ invert h => h.orient invert⟩

/-- what a `VLayer` is for: both `NetMass.LayerOK` facts, in both orientations -/
theorem vlayer_layerOK {n : ℕ} {C : Type} {b : Bij (List ℝ) C ℝ} {c : C} (h : NetMass.VLayer n b c) :
    NetMass.LayerOK (NetMass.liftBij n b) c ∧ NetMass.LayerOK (Gen.Invert.mk (NetMass.liftBij n b)).toBij c := h.layerOK

/-- **every elementwise layer** on `ℝⁿ`: coordinate `i` goes through the scalar bijection `τ i`, the log-det is the sum of the
scalar ones.  Per coordinate: lawful on ℝ, log-det antisymmetric, the ONE-dimensional layer fact, measurable inverse and inverse
log-det.  Then the `n`-dimensional layer facts hold in both orientations (the trivial-locality case of `autoregressive_layer`). -/
theorem elementwise_layer {n : ℕ} {C : Type} (τ : Fin n → Bij ℝ C ℝ) (c : C) (hL : ∀ i, (τ i).Lawful univ univ)
    (hanti : ∀ i, (τ i).LdAntisym univ) (h1 : ∀ i, Mass.LawOK volume (τ i) c)
    (hmi : ∀ i, Measurable fun y => (τ i).inv y c) (hml : ∀ i, Measurable fun y => ((τ i).invLd y c).2) :
    NetMass.LayerOK (NetMass.liftBij n (Bij.elementwise (List.ofFn τ))) c ∧
    NetMass.LayerOK (Gen.Invert.mk (NetMass.liftBij n (Bij.elementwise (List.ofFn τ)))).toBij c :=
  (NetMass.elementwise_vlayer τ c hL hanti h1 hmi hml).layerOK

/-- **`LeakyTanh(max_val, (n,))`** as built by the generated constructor: every `max_val > 0`, every `n`, every condition -/
theorem leakytanh_nd_layer {n : ℕ} {C : Type} {m : ℝ} (hm : 0 < m) (c : C) :
    NetMass.VLayer n (Bij.elementwise (List.replicate n ((LeakyTanh.init m).toBij : Bij ℝ C ℝ))) c :=
  NetMass.leakytanh_vlayer hm c

/-- **`Vmap` of `n` rational-quadratic splines**, each well-formed (`Rqs.RqsWF`) -/
theorem spline_vmap_layer {n : ℕ} {C : Type} (ss : List (RationalQuadraticSpline ℝ)) (hlen : ss.length = n)
    (hwf : ∀ s ∈ ss, Rqs.RqsWF s) (c : C) :
    NetMass.VLayer n (Bij.elementwise (ss.map fun s => (s.toBij : Bij ℝ C ℝ))) c :=
  NetMass.splines_vlayer ss hlen hwf c

/-- … in particular the splines the constructor builds from ANY raw parameter rows (`Flows.rqsSpline cfg init row`:
`_real_to_increasing_on_interval` of the raw widths / heights, the derivative lambda; C11 `rqs_params_wf_core`) -/
theorem spline_vmap_layer_of_raw {n : ℕ} {C : Type} {cfg : RqsCfg ℝ} {init : List ℝ} (hcfg : RqsCfgOK cfg init)
    (rows : List (List ℝ)) (hlen : rows.length = n) (c : C) :
    NetMass.VLayer n (Bij.elementwise ((rows.map (rqsSpline cfg init)).map fun s => (s.toBij : Bij ℝ C ℝ))) c :=
  NetMass.splines_vlayer _ (by simpa using hlen) (fun s hs => by
    obtain ⟨row, _, rfl⟩ := List.mem_map.mp hs; exact rqsFamily_wf hcfg row) c

/-- **`AdditiveCondition(Linear(cond_dim, n, use_bias=False))`**: the translation `x ↦ x + W c`, every `W` with `n` rows -/
theorem additive_condition_layer {n : ℕ} (W : List (List ℝ)) (hW : W.length = n) (c : List ℝ) :
    NetMass.VLayer n (linearCondition W) c := NetMass.linearCondition_vlayer W hW c

/-- **`TriangularAffine` is an everywhere-differentiable affine bijection of `ℝⁿ` with constant Jacobian `A`**, `det A ≠ 0`, and
the reported log-det is `log |det A|` — every triangular matrix with non-zero diagonal (`TriPf.TriWF`), both triangles -/
theorem triangular_affine_jacobian {n : ℕ} {C : Type} {t : Tri.TriAffine ℝ} (h : TriPf.TriWF n t) (c : C) :
    (NetMass.liftBij n (t.toBij : Bij (List ℝ) C ℝ)).Lawful univ univ ∧
    (∀ v, HasFDerivAt (fun x => (NetMass.liftBij n (t.toBij : Bij (List ℝ) C ℝ)).fwd x c)
      (VecLd.matCLM (TriPf.toMat n t.triangular)) v) ∧
    (VecLd.matCLM (TriPf.toMat n t.triangular)).det ≠ 0 ∧
    (∀ v, ((NetMass.liftBij n (t.toBij : Bij (List ℝ) C ℝ)).fwdLd v c).2
      = Real.log |(VecLd.matCLM (TriPf.toMat n t.triangular)).det|) := NetMass.triangular_jac h c

/-- **`TriangularAffine`** (hand model `Tri.*`): the layer facts, both orientations, every condition -/
theorem triangular_affine_layer {n : ℕ} {C : Type} {t : Tri.TriAffine ℝ} (h : TriPf.TriWF n t) (c : C) :
    NetMass.VLayer n (t.toBij : Bij (List ℝ) C ℝ) c := NetMass.triangular_vlayer h c

/-- … for the four methods GENERATED from `flowjax.bijections.TriangularAffine` (`Gen/TriangularGen.lean`), at EVERY raw
parameter value: diagonal `softplus(rawᵢ) > 0`, any square `arr`, any `loc`, both triangles -/
theorem triangular_affine_gen_layer {n : ℕ} {C : Type} (lower : Bool) (raw : List ℝ) (arr : List (List ℝ)) (loc : List ℝ)
    (hsq : TriPf.Square n arr) (hr : raw.length = n) (hl : loc.length = n) (c : C) :
    NetMass.VLayer n (TriGen.toBij (TriGen.unwrap (TriGen.ofRaw lower raw arr loc)) : Bij (List ℝ) C ℝ) c :=
  NetMass.triangular_gen_ofRaw_vlayer lower raw arr loc hsq hr hl c

/-- `WeightNormalization.unwrap` (GENERATED, `Gen/Wrappers.lean`: row `i` becomes `scaleᵢ · rowᵢ / ‖rowᵢ‖`) keeps a triangular matrix
with non-zero diagonal triangular with non-zero diagonal, for all non-zero scales -/
theorem weightnorm_triangular {n : ℕ} {t : Tri.TriAffine ℝ} (h : TriPf.TriWF n t) (sc : List ℝ) (hs : sc.length = n)
    (hne : ∀ i < n, sc.getD i 0 ≠ 0) :
    TriPf.TriWF n ⟨(⟨t.triangular, sc⟩ : Wr.WeightNormalization ℝ).unwrap, t.loc, t.lower⟩ :=
  TriPf.weightnorm_triWF h sc hs hne

/-- the matrix `triangular_spline_flow` builds — `_to_triangular(softplus(raw diagonal), arr)` wrapped in `WeightNormalization`
with scales `softplus(raw scale)` — is `TriWF` for EVERY raw diagonal, every square `arr`, every raw scale, every `loc` -/
theorem weightnorm_triangular_of_raw {n : ℕ} (lower : Bool) (raw : List ℝ) (arr : List (List ℝ)) (loc : List ℝ)
    (hsq : TriPf.Square n arr) (hr : raw.length = n) (hl : loc.length = n) (sraw : List ℝ) (hs : sraw.length = n) :
    TriPf.TriWF n ⟨(⟨Params.triangularOfRaw lower raw arr, sraw.map fun r => (Params.softplusRaw r).unwrap⟩ :
      Wr.WeightNormalization ℝ).unwrap, loc, lower⟩ := by
  refine TriPf.weightnorm_triWF (t := Tri.ofRaw lower raw arr loc) (TriPf.ofRaw_wf lower raw arr loc hsq hr hl) _
    (by simpa using hs) fun i hi => ?_
  have hi' : i < sraw.length := by omega
  simp only [List.getD_eq_getElem?_getD, List.getElem?_map, List.getElem?_eq_getElem hi', Option.map_some, Option.getD_some]
  exact (ParamsPf.softplusRaw_pos _).ne'

/-- the layer key of a layer built from RAW parameters satisfies `TriSplineOK`: any `tanh_max_val > 0`, `dim` splines built by the
constructor from any raw rows (any accepted configuration: knots ≥ 1, interval), the weight-normalised triangular matrix built
from any raw diagonal (through softplus), any square `arr`, any raw row scales, any `loc`, and any `dim × cond_dim` matrix or none -/
theorem tri_spline_net_of_raw (dim : ℕ) {m : ℝ} (hm : 0 < m) {cfg : RqsCfg ℝ} {init : List ℝ} (hcfg : RqsCfgOK cfg init)
    (rows : List (List ℝ)) (hrows : rows.length = dim) (lower : Bool) (raw : List ℝ) (arr : List (List ℝ)) (loc : List ℝ)
    (hsq : TriPf.Square dim arr) (hr : raw.length = dim) (hl : loc.length = dim) (sraw : List ℝ) (hs : sraw.length = dim)
    (W : Option (List (List ℝ))) (hW : ∀ W', W = some W' → W'.length = dim) :
    TriSplineOK dim m ⟨rows.map (rqsSpline cfg init),
      ⟨(⟨Params.triangularOfRaw lower raw arr, sraw.map fun r => (Params.softplusRaw r).unwrap⟩ :
        Wr.WeightNormalization ℝ).unwrap, loc, lower⟩, W⟩ :=
  ⟨hm, by simpa using hrows, fun s hs' => by obtain ⟨row, _, rfl⟩ := List.mem_map.mp hs'; exact rqsFamily_wf hcfg row,
    weightnorm_triangular_of_raw lower raw arr loc hsq hr hl sraw hs, hW⟩

/-- **`tri_spline_layer`**: EVERY layer of `triangular_spline_flow` — any `dim`, any `tanh_max_val > 0`, any well-formed splines
(any knots), any triangular matrix with non-zero diagonal, conditional or not (`TriSplineOK`), before and after the default
permutation (`PermKeyOK`: what `jr.permutation` returns) — supplies the two layer facts in BOTH orientations at EVERY condition -/
theorem tri_spline_layer {dim : ℕ} {m : ℝ} {key : TriSplineNet ℝ × List ℕ} (h : TriSplineOK dim m key.1)
    (hk : PermKeyOK dim key.2) (c : List ℝ) :
    (NetMass.LayerOK (NetMass.liftBij dim (triSplineCore key.1 dim m)) c ∧
      NetMass.LayerOK (Gen.Invert.mk (NetMass.liftBij dim (triSplineCore key.1 dim m))).toBij c) ∧
    (NetMass.LayerOK (NetMass.liftBij dim (triSplineLayer dim m key)) c ∧
      NetMass.LayerOK (Gen.Invert.mk (NetMass.liftBij dim (triSplineLayer dim m key))).toBij c) :=
  ⟨(NetMass.triSplineCore_vlayer h c).layerOK, (NetMass.triSplineLayer_vlayer h hk c).layerOK⟩

/-- the whole bijection of the generated factory body, any number of layers, both values of `invert` -/
theorem tri_spline_flow_layer (dim : ℕ) (m : ℝ) (key : ℕ → TriSplineNet ℝ × List ℕ) (nl : ℕ) (invert : Bool)
    (hnet : ∀ i < nl, TriSplineOK dim m (key i).1) (hperm : ∀ i < nl, PermKeyOK dim (key i).2) (c : List ℝ) :
    NetMass.VLayer dim (triSplineFlowBij dim m key nl invert) c :=
  NetMass.triSplineFlow_vlayer dim m key nl invert hnet hperm c

/-- **`flowNd_tri_spline_normalised`**: `Transformed(base, triangular_spline_flow's bijection)` over a normalised base on
`ℝ^dim` integrates to one — any number of layers, both values of `invert`, every parameter value, every condition -/
theorem flowNd_tri_spline_normalised {K : Type} (dim : ℕ) (m : ℝ) (key : ℕ → TriSplineNet ℝ × List ℕ) (nl : ℕ)
    (invert : Bool) (hnet : ∀ i < nl, TriSplineOK dim m (key i).1) (hperm : ∀ i < nl, PermKeyOK dim (key i).2)
    (base : Distn (Fin dim → ℝ) (List ℝ) K ℝ) (c : List ℝ) (hbase : ∫ z, Real.exp (base.logProb z c) = 1) :
    ∫ y, Real.exp ((Transformed.mk base
      (NetMass.liftBij dim (triSplineFlowBij dim m key nl invert))).toDist.logProb y c) = 1 := by
  rw [Mass.transformed_mass volume _ c (tri_spline_flow_layer dim m key nl invert hnet hperm c).ok.1.1, hbase]

/-- the same about the distribution the generated factory returns (`Flows.triSplineFlow`, a list-level `Transformed`), its
`_log_prob` evaluated at the vectors of length `dim` -/
theorem flowNd_tri_spline_normalised_list {K : Type} (dim : ℕ) (m : ℝ) (key : ℕ → TriSplineNet ℝ × List ℕ) (nl : ℕ)
    (invert : Bool) (hnet : ∀ i < nl, TriSplineOK dim m (key i).1) (hperm : ∀ i < nl, PermKeyOK dim (key i).2)
    (base : VDist K ℝ) (c : List ℝ) (hbase : ∫ z : Fin dim → ℝ, Real.exp (base.logProb (List.ofFn z) c) = 1) :
    ∫ y : Fin dim → ℝ, Real.exp ((triSplineFlow dim m key nl invert base).logProb (List.ofFn y) c) = 1 := by
  have hv := tri_spline_flow_layer dim m key nl invert hnet hperm c
  have e : ∀ y : Fin dim → ℝ, (triSplineFlow dim m key nl invert base).logProb (List.ofFn y) c
      = (Transformed.mk (NetMass.liftDist dim base)
          (NetMass.liftBij dim (triSplineFlowBij dim m key nl invert))).toDist.logProb y c :=
    fun y => NetMass.transformed_lift_logProb hv base y
  simp_rw [e]
  exact flowNd_tri_spline_normalised dim m key nl invert hnet hperm (NetMass.liftDist dim base) c hbase

/-- **`flowNd_tri_spline_sample_law`**: keys drawn from any measure `κ`; if the base sampler's law has density
`exp ∘ base log_prob`, the law of the flow's `sample` has density `exp ∘ log_prob` -/
theorem flowNd_tri_spline_sample_law {K : Type} [MeasurableSpace K] (κ : Measure K) (dim : ℕ) (m : ℝ)
    (key : ℕ → TriSplineNet ℝ × List ℕ) (nl : ℕ) (invert : Bool) (hnet : ∀ i < nl, TriSplineOK dim m (key i).1)
    (hperm : ∀ i < nl, PermKeyOK dim (key i).2) (base : Distn (Fin dim → ℝ) (List ℝ) K ℝ) (c : List ℝ)
    (hs : Measurable fun k => base.sample k c)
    (hbase : Measure.map (fun k => base.sample k c) κ
      = volume.withDensity fun z => ENNReal.ofReal (Real.exp (base.logProb z c))) :
    Measure.map (fun k => (Transformed.mk base
        (NetMass.liftBij dim (triSplineFlowBij dim m key nl invert))).toDist.sample k c) κ
      = volume.withDensity fun y => ENNReal.ofReal (Real.exp ((Transformed.mk base
        (NetMass.liftBij dim (triSplineFlowBij dim m key nl invert))).toDist.logProb y c)) :=
  (Mass.transformed_law volume κ (Transformed.mk base (NetMass.liftBij dim (triSplineFlowBij dim m key nl invert))) c
    (tri_spline_flow_layer dim m key nl invert hnet hperm c).ok.1.2 hs hbase).2

/-- a stack of separately nested layers (`Transformed(Transformed(base, layer₁), layer₂)…`), each a layer of the architecture in
either orientation: normalised, by `flowNd_layerOK_stack_normalised` -/
theorem flowNd_tri_spline_stack_normalised {K : Type} (dim : ℕ) (m : ℝ) (base : Distn (Fin dim → ℝ) (List ℝ) K ℝ) (c : List ℝ)
    (bs : List (Bij (Fin dim → ℝ) (List ℝ) ℝ))
    (hall : ∀ b ∈ bs, ∃ key : TriSplineNet ℝ × List ℕ, TriSplineOK dim m key.1 ∧ PermKeyOK dim key.2 ∧
      (b = NetMass.liftBij dim (triSplineLayer dim m key) ∨
       b = (Gen.Invert.mk (NetMass.liftBij dim (triSplineLayer dim m key))).toBij))
    (hbase : ∫ z, Real.exp (base.logProb z c) = 1) :
    ∫ y, Real.exp ((nestTransformed base bs).logProb y c) = 1 := by
  refine flowNd_layerOK_stack_normalised dim base c bs (fun b hb => ?_) hbase
  obtain ⟨key, h, hk, rfl | rfl⟩ := hall b hb
  · exact (tri_spline_layer h hk c).2.1
  · exact (tri_spline_layer h hk c).2.2

/-- non-vacuity: the conditional layer `FlowsPf.triSplineNet` on `ℝ²` (two copies of the 3-bin spline `Rqs.exampleSpline` with
boundary derivatives 2 and 3, the lower-triangular matrix `[[1, 0], [1/2, 2]]`, `loc = (0, 1)`, condition matrix `[[1], [-2]]`,
`tanh_max_val = 3`, followed by `Flip`) supplies the layer facts in both orientations at every condition -/
theorem tri_spline_layer_instance (c : List ℝ) :
    NetMass.LayerOK (NetMass.liftBij 2 (triSplineLayer 2 3 (triSplineNet, []))) c ∧
    NetMass.LayerOK (Gen.Invert.mk (NetMass.liftBij 2 (triSplineLayer 2 3 (triSplineNet, [])))).toBij c :=
  (tri_spline_layer (key := (triSplineNet, [])) triSplineNet_ok (fun _ h2 => absurd rfl h2) c).2

/-- a complete concrete flow: the one-layer `triangular_spline_flow` of that layer over `StandardNormal((2,))`, default
`invert=True`, integrates to one at EVERY value of the conditioning variable; so does the three-layer flow of C01's instance -/
theorem tri_spline_flow_instance {K : Type} (smp : K → List ℝ → Fin 2 → ℝ) (c : List ℝ) :
    ∫ y, Real.exp ((Transformed.mk (Mass.stdNormalN 2 smp)
      (NetMass.liftBij 2 (triSplineFlowBij 2 3 (fun _ => (triSplineNet, [])) 1 true))).toDist.logProb y c) = 1 ∧
    ∫ y, Real.exp ((Transformed.mk (Mass.stdNormalN 2 smp)
      (NetMass.liftBij 2 (triSplineFlowBij 2 3 (fun _ => (triSplineNet, [])) 3 true))).toDist.logProb y c) = 1 :=
  ⟨flowNd_tri_spline_normalised 2 3 _ 1 true (fun _ _ => triSplineNet_ok) (fun _ _ _ h2 => absurd rfl h2) _ c
      (Mass.stdNormalN_normalised 2 smp c),
   flowNd_tri_spline_normalised 2 3 _ 3 true (fun _ _ => triSplineNet_ok) (fun _ _ _ h2 => absurd rfl h2) _ c
      (Mass.stdNormalN_normalised 2 smp c)⟩

end TriSplineFlow
/-! ## ===== END 14. ===== -/

/-- for every unconstrained `u`, non-zero `w` and leaky-relu slope `0 < s ≤ 1`, the generated planar layer
(with the generated constraint `get_act_scale`) is a lawful bijection of ℝⁿ — the hypothesis `flowNd_normalised_of`
needs from a planar layer; a broken constraint (`w·û ≤ −1`) folds space and the flow's mass is no longer 1 -/
theorem planar_layer_invertible {C : Type} {n : ℕ} (p : UnconditionalPlanar ℝ) (hw : p.weight.length = n)
    (hu : p._act_scale.length = n) (hne : Jnp.dot p.weight p.weight ≠ 0) {s : ℝ} (hs0 : 0 < s) (hs1 : s ≤ 1) :
    (Planar.lreluBij p s : Bij (List ℝ) C ℝ).Lawful {x | x.length = n} {y | y.length = n} :=
  PlanarPf.lrelu_lawful ⟨hw, hu, hne⟩ hs0 hs1

/-! ## Audit: non-vacuity instances added by the g27 review (hypothesis sets shown jointly satisfiable) -/
section Audit
open Masks MasksPf Flows FlowsPf

/-- `mass_preserved_1d` / `pushforward_density_1d`: `T x = 2x + 1` -/
theorem mass_preserved_1d_audit_instance (p : ℝ → ℝ) :
    ∫ y, p ((y - 1) / 2) * |(2 : ℝ)|⁻¹ = ∫ z, p z :=
  mass_preserved_1d (fun x => 2 * x + 1) (fun y => (y - 1) / 2) (fun _ => 2)
    (fun x => by simpa using ((hasDerivAt_id x).const_mul (2 : ℝ)).add_const (1 : ℝ))
    (fun _ => by norm_num) (fun x => by simp) (fun y => by simp; ring) p

/-- `mass_preserved_piecewise` with a genuine kink at `a = b = 0`: `T x = x` for `x ≤ 0`, `2x` for `x > 0` -/
theorem mass_preserved_piecewise_audit_instance (p : ℝ → ℝ) :
    ∫ y, p (if y ≤ 0 then y else y / 2) * |(if (if y ≤ 0 then y else y / 2) ≤ 0 then (1 : ℝ) else 2)|⁻¹ = ∫ z, p z := by
  refine mass_preserved_piecewise (fun x => if x ≤ 0 then x else 2 * x) (fun y => if y ≤ 0 then y else y / 2)
    (fun x => if x ≤ 0 then 1 else 2) (a := 0) (b := 0) le_rfl ?_ ?_ ?_ ?_ ?_ ?_ p
  · intro x hx
    have h1 : (if x ≤ 0 then (1 : ℝ) else 2) = 1 := if_pos hx.le
    rw [h1]
    refine (hasDerivWithinAt_id x (Iic 0)).congr (fun y hy => if_pos hy) (if_pos hx.le)
  · intro x hx
    have : x = 0 := le_antisymm hx.2 hx.1
    subst this
    rw [Icc_self]
    exact HasFDerivWithinAt.singleton
  · intro x hx
    have h1 : (if x ≤ 0 then (1 : ℝ) else 2) = 2 := if_neg (not_le.mpr hx)
    rw [h1]
    have h2 : HasDerivWithinAt (fun y : ℝ => 2 * y) 2 (Ici 0) x := by
      simpa using ((hasDerivAt_id x).const_mul (2 : ℝ)).hasDerivWithinAt
    refine h2.congr (fun y hy => ?_) (if_neg (not_le.mpr hx))
    rcases eq_or_lt_of_le (show (0 : ℝ) ≤ y from hy) with h | h
    · subst h; simp
    · exact if_neg (not_le.mpr h)
  · intro x; split <;> norm_num
  · intro x
    by_cases h : x ≤ 0
    · simp [h]
    · have h' : ¬ (2 * x ≤ 0) := by rw [not_le] at h ⊢; linarith
      simp [h, h']
  · intro y
    by_cases h : y ≤ 0
    · simp [h]
    · have h' : ¬ (y / 2 ≤ 0) := by rw [not_le] at h ⊢; linarith
      simp only [h, h', if_false]; ring

/-- conditional planar: weight block `(1, c₀)` depends on the condition and never vanishes -/
theorem planar_conditional_audit_instance (c : List ℝ) :
    Mass.InvJacN (Gen.Invert.mk (Bij.dep fun c' : List ℝ =>
      (PlanarMass.tanhBij 2 (Planar.getPlanar 2 [1, c'.headD 0, 0, 3, c'.headD 0]) : Bij (Fin 2 → ℝ) (List ℝ) ℝ))).toBij c ∧
    Mass.FwdJacN (Bij.dep fun c' : List ℝ =>
      (PlanarMass.tanhBij 2 (Planar.getPlanar 2 [1, c'.headD 0, 0, 3, c'.headD 0]) : Bij (Fin 2 → ℝ) (List ℝ) ℝ)) c := by
  refine planar_conditional_layer (n := 2) (fun c' : List ℝ => [1, c'.headD 0, 0, 3, c'.headD 0]) (fun c' => ⟨rfl, ?_⟩) c
  have : (1 : ℝ) + c'.headD 0 * c'.headD 0 ≠ 0 := by nlinarith [mul_self_nonneg (c'.headD 0)]
  simpa [ParamsPf.jdot_eq] using this

/-- d-dimensional sampler law: hypotheses jointly satisfiable -/
theorem architecture_sample_law_audit_instance (c : List ℝ) :
    Measure.map (fun k => (nestTransformed (Mass.stdNormalN 2 (C := List ℝ) (fun k _ => k))
      [(Gen.Invert.mk (NetMass.liftBij 2 (mafBij NetMass.mafTanhExample
          (NetLogDet.affineFamily (fun ps => nth ps 0 + 1 / 2) (fun ps => (Transc.softplus (nth ps 1 + -1) : ℝ)))))).toBij,
       NetMass.liftBij 2 PermMass.flipBij,
       (Gen.Invert.mk (BnafMass.bnafBij (fun z => LeakyTanh.transform_and_log_det (LeakyTanh.init (3 : ℝ)) z)
          (LeakyTanh.transform (LeakyTanh.init 3)) 2 1 bnafExample none)).toBij]).sample k c)
      (volume.withDensity fun z => ENNReal.ofReal (Real.exp ((Mass.stdNormalN 2 (C := List ℝ) (K := Fin 2 → ℝ) (fun k _ => k)).logProb z c)))
    = volume.withDensity fun y => ENNReal.ofReal (Real.exp ((nestTransformed (Mass.stdNormalN 2 (C := List ℝ) (fun k _ => k))
      [(Gen.Invert.mk (NetMass.liftBij 2 (mafBij NetMass.mafTanhExample
          (NetLogDet.affineFamily (fun ps => nth ps 0 + 1 / 2) (fun ps => (Transc.softplus (nth ps 1 + -1) : ℝ)))))).toBij,
       NetMass.liftBij 2 PermMass.flipBij,
       (Gen.Invert.mk (BnafMass.bnafBij (fun z => LeakyTanh.transform_and_log_det (LeakyTanh.init (3 : ℝ)) z)
          (LeakyTanh.transform (LeakyTanh.init 3)) 2 1 bnafExample none)).toBij]).logProb y c)) := by
  refine flowNd_architecture_stack_sample_law _ 2 _ c _ ?_ measurable_id Measure.map_id
  intro b hb
  simp only [List.mem_cons, List.not_mem_nil, or_false] at hb
  rcases hb with rfl | rfl | rfl
  · exact Or.inl (maf_affine_instance c).2
  · exact Or.inr (Or.inr (Or.inr (Or.inr (Or.inl rfl))))
  · exact Or.inr (Or.inr (Or.inl bnaf_instance))

/-- default relu / spline layers: sampler law hypotheses jointly satisfiable -/
theorem spline_sample_law_audit_instance (c : List ℝ) :
    Measure.map (fun k => (nestTransformed (Mass.stdNormalN 2 (C := List ℝ) (fun k _ => k))
      [(Gen.Invert.mk (NetMass.liftBij 2 (mafBij mafSplineExample
          (Flows.rqsFamily splineCfgExample splineInitExample)))).toBij,
       NetMass.liftBij 2 (couplingBij 1 (mlpForward (fun z : ℝ => max z 0) couplingReluExample)
          (NetLogDet.affineFamily (fun ps => nth ps 0 + 0) (fun ps => (Transc.softplus (nth ps 1 + 1) : ℝ))))]).sample k c)
      (volume.withDensity fun z => ENNReal.ofReal (Real.exp ((Mass.stdNormalN 2 (C := List ℝ) (K := Fin 2 → ℝ) (fun k _ => k)).logProb z c)))
    = volume.withDensity fun y => ENNReal.ofReal (Real.exp ((nestTransformed (Mass.stdNormalN 2 (C := List ℝ) (fun k _ => k))
      [(Gen.Invert.mk (NetMass.liftBij 2 (mafBij mafSplineExample
          (Flows.rqsFamily splineCfgExample splineInitExample)))).toBij,
       NetMass.liftBij 2 (couplingBij 1 (mlpForward (fun z : ℝ => max z 0) couplingReluExample)
          (NetLogDet.affineFamily (fun ps => nth ps 0 + 0) (fun ps => (Transc.softplus (nth ps 1 + 1) : ℝ))))]).logProb y c)) := by
  refine flowNd_layerOK_stack_sample_law _ 2 _ c _ ?_ measurable_id Measure.map_id
  intro b hb
  simp only [List.mem_cons, List.not_mem_nil, or_false] at hb
  rcases hb with rfl | rfl
  · exact (maf_spline_layer mafSplineExample mafSplineExample_wellShaped relu_continuous splineCfgExample_ok c).2
  · exact (coupling_relu_layer 1 2 2 (by norm_num) couplingReluExample 0 1 c couplingReluExample_length).1

/-- tri-spline sampler law -/
theorem tri_spline_sample_law_audit_instance (c : List ℝ) :
    Measure.map (fun k => (Transformed.mk (Mass.stdNormalN 2 (C := List ℝ) (fun k _ => k))
        (NetMass.liftBij 2 (triSplineFlowBij 2 3 (fun _ => (triSplineNet, [])) 3 true))).toDist.sample k c)
      (volume.withDensity fun z => ENNReal.ofReal (Real.exp ((Mass.stdNormalN 2 (C := List ℝ) (K := Fin 2 → ℝ) (fun k _ => k)).logProb z c)))
    = volume.withDensity fun y => ENNReal.ofReal (Real.exp ((Transformed.mk (Mass.stdNormalN 2 (C := List ℝ) (fun k _ => k))
        (NetMass.liftBij 2 (triSplineFlowBij 2 3 (fun _ => (triSplineNet, [])) 3 true))).toDist.logProb y c)) :=
  flowNd_tri_spline_sample_law _ 2 3 _ 3 true (fun _ _ => triSplineNet_ok) (fun _ _ _ h2 => absurd rfl h2) _ c
    measurable_id Measure.map_id

noncomputable def triSplineNet3Audit : TriSplineNet ℝ :=
  ⟨[Rqs.exampleSpline, Rqs.exampleSpline, Rqs.exampleSpline],
   ⟨[[1, 0, 0], [1 / 2, 2, 0], [-1, 1 / 3, -3]], [0, 1, -1], true⟩, some [[1], [-2], [0]]⟩

theorem triSplineNet3Audit_ok : TriSplineOK 3 3 triSplineNet3Audit := by
  refine ⟨by norm_num, rfl, ?_, ?_, ?_⟩
  · intro s hs
    simp only [triSplineNet3Audit, List.mem_cons, List.not_mem_nil, or_false, or_self] at hs
    subst hs; exact Rqs.rqsWF_instance
  · refine ⟨rfl, ?_⟩
    simp only [triSplineNet3Audit, if_true]
    refine ⟨⟨rfl, by intro r hr; simp at hr; rcases hr with rfl | rfl | rfl <;> rfl⟩, ?_, ?_⟩
    · intro i j hij hj
      have : (i = 0 ∧ j = 1) ∨ (i = 0 ∧ j = 2) ∨ (i = 1 ∧ j = 2) := by omega
      rcases this with ⟨rfl, rfl⟩ | ⟨rfl, rfl⟩ | ⟨rfl, rfl⟩ <;> simp [TriPf.entry]
    · intro i hi
      have : i = 0 ∨ i = 1 ∨ i = 2 := by omega
      rcases this with rfl | rfl | rfl <;> simp [TriPf.entry]
  · intro W hW
    simp only [triSplineNet3Audit, Option.some.injEq] at hW
    subst hW; rfl

theorem permKey3Audit_ok : PermKeyOK 3 [2, 0, 1] := by
  intro _ _; decide

/-- dim 3: the `Permute` branch of `_add_default_permute` (a genuine 3-cycle) is exercised; two layers, `invert = true` and `false` -/
theorem tri_spline_flow_dim3_audit_instance {K : Type} (smp : K → List ℝ → Fin 3 → ℝ) (c : List ℝ) (invert : Bool) :
    ∫ y, Real.exp ((Transformed.mk (Mass.stdNormalN 3 smp)
      (NetMass.liftBij 3 (triSplineFlowBij 3 3 (fun _ => (triSplineNet3Audit, [2, 0, 1])) 2 invert))).toDist.logProb y c) = 1 :=
  flowNd_tri_spline_normalised 3 3 _ 2 invert (fun _ _ => triSplineNet3Audit_ok) (fun _ _ => permKey3Audit_ok) _ c
      (Mass.stdNormalN_normalised 3 smp c)

/-- `IsFlowLayer` through the `Permute` disjunct, dim 3 -/
theorem permute_isFlowLayer_audit_instance :
    FlowLayers.IsFlowLayer 3 (NetMass.liftBij 3 (PermMass.permuteBij [2, 0, 1])) :=
  Or.inr (Or.inr (Or.inr (Or.inr (Or.inr (Or.inr (Or.inl ⟨[2, 0, 1], rfl, (PermModel.valid_iff _).mpr (by decide), Or.inl rfl⟩))))))

/-- generated TriangularAffine from raw parameters, n = 2, upper triangle -/
theorem triangular_affine_gen_audit_instance (c : List ℝ) :
    NetMass.VLayer 2 (TriGen.toBij (TriGen.unwrap (TriGen.ofRaw false [-1, 2] [[0, -3], [5, 0]] [1, -1])) : Bij (List ℝ) (List ℝ) ℝ) c :=
  triangular_affine_gen_layer false [-1, 2] [[0, -3], [5, 0]] [1, -1]
    ⟨rfl, by intro r hr; simp at hr; rcases hr with rfl | rfl <;> rfl⟩ rfl rfl c

end Audit
/-! ## `triangular_spline_flow.make_layer`, REGENERATED (`Gen/Flows.lean`, translator `py2flows.FTr`; g25; see C01 `gen_tri_spline_make_layer_eq`) -/
section TriSplineGen
open Flows FlowsPf

/-- `flowNd_tri_spline_normalised` about the REGENERATED closure: `Transformed(base, bijection)` whose layers are the generated
`triangular_spline_flow.make_layer` (the layer as constructed from its keys) over a normalised base on `ℝ^dim` integrates to one —
any number of layers, both values of `invert`, every key (`FlowsPf.GenTriSplineKeysOK`), every condition -/
theorem gen_flowNd_tri_spline_normalised {K : Type} {dim : ℕ} {m : ℝ} {knots : ℕ} {cond_dim : Option ℕ}
    {key : ℕ → TriSplineKey ℝ} {nl : ℕ} (h : GenTriSplineKeysOK dim m knots cond_dim key nl) (invert : Bool)
    (base : Distn (Fin dim → ℝ) (List ℝ) K ℝ) (c : List ℝ) (hbase : ∫ z, Real.exp (base.logProb z c) = 1) :
    ∫ y, Real.exp ((Transformed.mk base
      (NetMass.liftBij dim (genTriSplineFlowBij dim m knots cond_dim key nl invert))).toDist.logProb y c) = 1 := by
  rw [FlowsPf.genTriSplineFlowBij_eq]
  exact flowNd_tri_spline_normalised dim m _ nl invert h.net h.perm base c hbase

/-- non-vacuity: the hypotheses hold for the 2-layer conditional keys of C01 `gen_tri_spline_flow_instance` -/
theorem gen_flowNd_tri_spline_instance : GenTriSplineKeysOK 3 3 4 (some 2) genTriKeys 2 := genTriKeys_ok

end TriSplineGen

end C04
