import Flowjaxv.Proofs.ArrTheory
import Flowjaxv.Proofs.ArrGen
import Flowjaxv.Proofs.Leaves
import Flowjaxv.Proofs.Flows
import Flowjaxv.Proofs.CtorsGen
import Flowjaxv.Proofs.JaxTransforms
import Flowjaxv.Proofs.MergeGen
import Flowjaxv.Proofs.MergeGenWF
/-!
# C08 — combinators mean what their definitions say, for every shape and axis

Property theorems only (lemmas: `Proofs/ArrLists.lean`, `Proofs/ArrTheory.lean`, `Proofs/ArrGen.lean`).  `Chain`
and `Invert` are the definitions GENERATED from /repo (`Gen/Combinators.lean`).  `Concatenate / Stack / Partial /
Reshape / EmbedCondition` exist twice: as the hand model `Model/Arr.lean` + `Model/ArrExt.lean` over n-d arrays
(= shape + row-major data; §1–§6, §8 below; `Scan`, `Vmap` through their defining equivalences), and as the
definitions GENERATED from `concatenate.py` / `utils.py` on every run (`Gen/ArrCombinators.lean`: the four methods
of each class, `Concatenate.__init__`, `Stack.__init__`, `Stack._split_and_squeeze`, `Reshape.__init__`,
`EmbedCondition.__init__`, the two shape properties), whose bodies call the primitive specs of `Model/ArrJnp.lean`.
§10 proves generated = hand model for every rank, axis (negative included), number of children and child
behaviour, and restates the key theorems on the generated definitions.  The harness `tools/props/c08.py` runs both
against the real classes for ranks 0–3 and every axis, negative ones included.

An axis `k` of an array of shape `s` is handled through the three-level view
`O = ∏ s[:k]` blocks of `A = s[k]` rows of `I = ∏ s[k+1:]` entries (`Arr.view3`), so every theorem
below holds for every rank, every axis, and every size (zeros included).
`WS shape` = arrays carrying exactly that shape and `∏ shape` entries.
-/
open Gen Set Arr ArrComb ArrJnp

namespace C08

/-! ## 1. chunks and the three-level view are a faithful re-presentation of row-major data -/

theorem flatten_chunks {α : Type} {n k : Nat} {l : List α} (h : l.length = n * k) :
    (chunks n k l).flatten = l := Arr.flatten_chunks h

theorem chunks_flatten {α : Type} {n k : Nat} {ls : List (List α)} (hk : ls.length = k)
    (hn : ∀ c ∈ ls, c.length = n) : chunks n k ls.flatten = ls := Arr.chunks_flatten hk hn

theorem unview3_view3 {α : Type} {O A I : Nat} {data : List α} (h : data.length = O * (A * I)) :
    unview3 (view3 O A I data) = data := Arr.unview3_view3 h

/-- for a well-formed view: `O` blocks of `A` rows of `I` entries -/
theorem view3_unview3 {α : Type} {O A I : Nat} {v : View α} (hO : v.length = O)
    (hblk : ∀ blk ∈ v, blk.length = A ∧ ∀ row ∈ blk, row.length = I) :
    view3 O A I (unview3 v) = v := Arr.view3_unview3 ⟨hO, hblk⟩

/-- the size of an array factors as (before the axis) × (the axis) × (after the axis) -/
theorem prod_split {s : List Nat} {k : Nat} (h : k < s.length) :
    Arr.prod s = Arr.prod (s.take k) * (s[k] * Arr.prod (s.drop (k + 1))) := Arr.prod_split h

/-- a child of size `n` along the axis has `O * n * I` entries -/
theorem prod_childShape {s : ConcatSpec} (h : s.axis < s.shape.length) (n : Nat) :
    Arr.prod (s.childShape n) = s.O * (n * s.I) := Arr.prod_set h n

/-! ## 2. `jnp.array_split` / `jnp.concatenate` on the view -/

/-- the fold used by the model for the axis length is the sum of the sizes -/
theorem sizes_fold_eq_sum (s : ConcatSpec) : s.A = s.sizes.sum := s.A_eq_sum

theorem flatten_splitRows {α : Type} {sizes : List Nat} {blk : List (List α)}
    (h : blk.length = sizes.sum) : (splitRows sizes blk).flatten = blk := Arr.flatten_splitRows h

theorem catView_splitView {α : Type} {O : Nat} {sizes : List Nat} {v : View α} (hO : v.length = O)
    (h : ∀ blk ∈ v, blk.length = sizes.sum) : catView O (splitView sizes v) = v :=
  Arr.catView_splitView hO h

theorem splitView_catView {α : Type} {O : Nat} {sizes : List Nat} {parts : List (View α)}
    (hl : parts.length = sizes.length)
    (h : ∀ j (h1 : j < parts.length) (h2 : j < sizes.length),
      parts[j].length = O ∧ ∀ blk ∈ parts[j], blk.length = sizes[j]) :
    splitView sizes (catView O parts) = parts := Arr.splitView_catView hl h

/-- **child `j` sees exactly slice `j` along the axis**: part `j` of the split is, block by block,
rows `offset_j ..< offset_j + sizes[j]` of the view, `offset_j` = the sum of the earlier sizes. -/
theorem splitView_slicewise {α : Type} (sizes : List Nat) (v : View α) {j : Nat} (hj : j < sizes.length) :
    (splitView sizes v)[j]'(by simpa using hj)
      = v.map (fun blk => (blk.drop (sizes.take j).sum).take sizes[j]) :=
  Arr.splitView_slicewise sizes v hj

/-- **child `j`'s output lands exactly in slice `j`** of the concatenation -/
theorem catView_slicewise {α : Type} {O : Nat} {sizes : List Nat} {parts : List (View α)}
    (hl : parts.length = sizes.length)
    (h : ∀ j (h1 : j < parts.length) (h2 : j < sizes.length),
      parts[j].length = O ∧ ∀ blk ∈ parts[j], blk.length = sizes[j])
    {j : Nat} (hj : j < sizes.length) :
    (catView O parts).map (fun blk => (blk.drop (sizes.take j).sum).take sizes[j])
      = parts[j]'(by omega) := Arr.catView_slicewise hl h hj

/-! ## 5. Partial changes only the indexed entries -/

theorem gather_scatter {α : Type} [Inhabited α] {pos : List Nat} {data vals : List α} (hnd : pos.Nodup)
    (hr : ∀ p ∈ pos, p < data.length) (hl : vals.length = pos.length) :
    gather pos (scatter pos data vals) = vals := Arr.gather_scatter hnd hr hl

/-- holds for any positions (out-of-range writes are dropped, as reads default) -/
theorem scatter_gather {α : Type} [Inhabited α] (pos : List Nat) (data : List α) :
    scatter pos data (gather pos data) = data := Arr.scatter_gather pos data

theorem scatter_frame {α : Type} {pos : List Nat} {i : Nat} (hi : i ∉ pos) (data vals : List α) :
    (scatter pos data vals)[i]? = data[i]? := Arr.scatter_frame hi data vals

theorem partial_lawful {α C L : Type} [Add L] [OfNat L 0] [Inhabited α] {shape sub pos : List Nat}
    {b : Bij (Arr α) C L} (hb : b.Lawful (WS sub) (WS sub)) (hnd : pos.Nodup)
    (hr : ∀ p ∈ pos, p < Arr.prod shape) (hl : pos.length = Arr.prod sub) :
    (partialB shape sub pos b).Lawful (WS shape) (WS shape) := ArrComb.partial_lawful hb hnd hr hl

/-- entries outside the index set are untouched by `transform` and by `inverse` (no hypothesis) -/
theorem partial_frame {α C L : Type} [Add L] [OfNat L 0] [Inhabited α] (shape sub pos : List Nat)
    (b : Bij (Arr α) C L) {i : Nat} (hi : i ∉ pos) (x : Arr α) (c : C) :
    ((partialB shape sub pos b).fwd x c).data[i]? = x.data[i]?
      ∧ ((partialB shape sub pos b).inv x c).data[i]? = x.data[i]? :=
  ArrComb.partial_frame shape sub pos b hi x c

/-- the indexed entries of the output are the wrapped bijection's output on the indexed entries of the input -/
theorem partial_indexed {α C L : Type} [Add L] [OfNat L 0] [Inhabited α] {shape sub pos : List Nat}
    {b : Bij (Arr α) C L} (hb : b.Lawful (WS sub) (WS sub)) (hnd : pos.Nodup)
    (hr : ∀ p ∈ pos, p < Arr.prod shape) (hl : pos.length = Arr.prod sub)
    {x : Arr α} (hx : x ∈ WS shape) (c : C) :
    gather pos ((partialB shape sub pos b).fwd x c).data = (b.fwd ⟨sub, gather pos x.data⟩ c).data :=
  ArrComb.partial_indexed hb hnd hr hl hx c

/-- the log-det of Partial is the wrapped bijection's on the gathered entries -/
theorem partial_ld {α C L : Type} [Add L] [OfNat L 0] [Inhabited α] (shape sub pos : List Nat)
    (b : Bij (Arr α) C L) (x : Arr α) (c : C) :
    ((partialB shape sub pos b).fwdLd x c).2 = (b.fwdLd ⟨sub, gather pos x.data⟩ c).2
      ∧ ((partialB shape sub pos b).invLd x c).2 = (b.invLd ⟨sub, gather pos x.data⟩ c).2 := ⟨rfl, rfl⟩

/-! ## 3. Concatenate applies each part to its slice along the axis -/

/-- **Concatenate is a lawful bijection of the declared shape** when the axis exists, the sizes
add up to the axis length, and child `j` is lawful on arrays of its own shape. -/
theorem concatenate_lawful {α C L : Type} [Add L] [OfNat L 0] (s : ConcatSpec)
    (bs : List (Bij (Arr α) C L))
    (hax : s.axis < s.shape.length) (hsz : s.shape[s.axis] = s.sizes.sum)
    (hlen : bs.length = s.sizes.length)
    (hb : ∀ j (h1 : j < bs.length) (h2 : j < s.sizes.length),
      bs[j].Lawful (WS (s.childShape s.sizes[j])) (WS (s.childShape s.sizes[j]))) :
    (concatenate s bs).Lawful (WS s.shape) (WS s.shape) :=
  ArrComb.concatenate_lawful ⟨hax, hsz⟩ ⟨hlen, hb⟩

/-- **each part of the output is the child's output on the corresponding part of the input**, for
`transform` and for `inverse`; `s.parts` are the slices along the axis (`splitView_slicewise`). -/
theorem concatenate_slicewise {α C L : Type} [Add L] [OfNat L 0] (s : ConcatSpec)
    (bs : List (Bij (Arr α) C L))
    (hax : s.axis < s.shape.length) (hsz : s.shape[s.axis] = s.sizes.sum)
    (hlen : bs.length = s.sizes.length)
    (hb : ∀ j (h1 : j < bs.length) (h2 : j < s.sizes.length),
      bs[j].Lawful (WS (s.childShape s.sizes[j])) (WS (s.childShape s.sizes[j])))
    {x : Arr α} (hx : x ∈ WS s.shape) (c : C) :
    s.parts ((concatenate s bs).fwd x c).data
        = List.zipWith (fun b p => b.fwd p c) bs (s.parts x.data)
    ∧ s.parts ((concatenate s bs).inv x c).data
        = List.zipWith (fun b p => b.inv p c) bs (s.parts x.data) :=
  ArrComb.concatenate_slicewise ⟨hax, hsz⟩ ⟨hlen, hb⟩ hx c

/-- splitting and gluing are mutually inverse re-presentations of a well-shaped array -/
theorem concatenate_glue_parts {α : Type} (s : ConcatSpec)
    (hax : s.axis < s.shape.length) (hsz : s.shape[s.axis] = s.sizes.sum)
    {x : Arr α} (hx : x ∈ WS s.shape) : s.glue (s.parts x.data) = x :=
  s.glue_parts ⟨hax, hsz⟩ hx

theorem concatenate_parts_glue {α : Type} (s : ConcatSpec)
    (hax : s.axis < s.shape.length) (hsz : s.shape[s.axis] = s.sizes.sum)
    {ys : List (Arr α)} (hl : ys.length = s.sizes.length)
    (hy : ∀ j (h1 : j < ys.length) (h2 : j < s.sizes.length), ys[j] ∈ WS (s.childShape s.sizes[j])) :
    s.parts (s.glue ys).data = ys := s.parts_glue ⟨hax, hsz⟩ ⟨hl, hy⟩

/-- the returned log-det is the sum of the children's on their parts (both directions) -/
theorem concatenate_ld {α C : Type} (s : ConcatSpec) (bs : List (Bij (Arr α) C ℝ)) (x : Arr α) (c : C) :
    ((concatenate s bs).fwdLd x c).2
        = (List.zipWith (fun b p => (b.fwdLd p c).2) bs (s.parts x.data)).sum
    ∧ ((concatenate s bs).invLd x c).2
        = (List.zipWith (fun b p => (b.invLd p c).2) bs (s.parts x.data)).sum :=
  ArrComb.concatenate_ld s bs x c

/-- the point returned together with the log-det is the plain method's -/
theorem concatenate_ld_point {α C L : Type} [Add L] [OfNat L 0] (s : ConcatSpec)
    (bs : List (Bij (Arr α) C L))
    (hax : s.axis < s.shape.length) (hsz : s.shape[s.axis] = s.sizes.sum)
    (hlen : bs.length = s.sizes.length)
    (hb : ∀ j (h1 : j < bs.length) (h2 : j < s.sizes.length),
      bs[j].Lawful (WS (s.childShape s.sizes[j])) (WS (s.childShape s.sizes[j])))
    (x : Arr α) (c : C) :
    ((concatenate s bs).fwdLd x c).1 = (concatenate s bs).fwd x c
    ∧ ((concatenate s bs).invLd x c).1 = (concatenate s bs).inv x c :=
  have h := ArrComb.concatenate_lawful (s := s) (bs := bs) ⟨hax, hsz⟩ ⟨hlen, hb⟩
  ⟨h.fwdLd_fst x c, h.invLd_fst x c⟩

/-! ## 4. Stack = Concatenate of children given a singleton axis -/

/-- hypotheses: the axis exists in the stacked shape, its length is the number of children, the
child shape is the stacked shape without that axis -/
theorem stack_lawful {α C L : Type} [Add L] [OfNat L 0] (s : ConcatSpec) (cs : List Nat)
    (bs : List (Bij (Arr α) C L))
    (hax : s.axis < s.shape.length) (hk : s.shape[s.axis] = bs.length)
    (hsz : s.sizes = List.replicate bs.length 1) (hcs : cs = s.shape.eraseIdx s.axis)
    (hb : ∀ b ∈ bs, b.Lawful (WS cs) (WS cs)) :
    (stack s cs bs).Lawful (WS s.shape) (WS s.shape) :=
  ArrComb.stack_lawful ⟨hax, hk, hsz, hcs⟩ hb

/-- **slice `j` (along the axis) of the output of Stack is child `j` applied to slice `j` of the input** -/
theorem stack_slicewise {α C L : Type} [Add L] [OfNat L 0] (s : ConcatSpec) (cs : List Nat)
    (bs : List (Bij (Arr α) C L))
    (hax : s.axis < s.shape.length) (hk : s.shape[s.axis] = bs.length)
    (hsz : s.sizes = List.replicate bs.length 1) (hcs : cs = s.shape.eraseIdx s.axis)
    (hb : ∀ b ∈ bs, b.Lawful (WS cs) (WS cs)) {x : Arr α} (hx : x ∈ WS s.shape) (c : C) :
    (s.parts ((stack s cs bs).fwd x c).data).map Arr.data
        = List.zipWith (fun b (p : Arr α) => (b.fwd ⟨cs, p.data⟩ c).data) bs (s.parts x.data)
    ∧ (s.parts ((stack s cs bs).inv x c).data).map Arr.data
        = List.zipWith (fun b (p : Arr α) => (b.inv ⟨cs, p.data⟩ c).data) bs (s.parts x.data) :=
  ArrComb.stack_slicewise ⟨hax, hk, hsz, hcs⟩ hb hx c

/-- Stack is literally Concatenate of the children re-presented on singleton-axis slices -/
theorem stack_eq_concatenate {α C L : Type} [Add L] [OfNat L 0] (s : ConcatSpec) (cs : List Nat)
    (bs : List (Bij (Arr α) C L)) :
    stack s cs bs = concatenate s (bs.map (expandB cs)) := rfl

/-! ## 6. Reshape and EmbedCondition only re-present the inputs; elementwise leaves -/

theorem reshape_lawful {α C L : Type} [Add L] [OfNat L 0] {shape inner : List Nat}
    {b : Bij (Arr α) C L} (hb : b.Lawful (WS inner) (WS inner))
    (hp : Arr.prod shape = Arr.prod inner) :
    (reshape shape inner b).Lawful (WS shape) (WS shape) := ArrComb.reshape_lawful hb hp

/-- data goes through the wrapped bijection untouched, the result carries the declared shape,
the log-det is the wrapped one's -/
theorem reshape_represent {α C L : Type} [Add L] [OfNat L 0] (shape inner : List Nat)
    (b : Bij (Arr α) C L) (x : Arr α) (c : C) :
    ((reshape shape inner b).fwd x c).data = (b.fwd ⟨inner, x.data⟩ c).data
    ∧ ((reshape shape inner b).inv x c).data = (b.inv ⟨inner, x.data⟩ c).data
    ∧ ((reshape shape inner b).fwd x c).shape = shape
    ∧ ((reshape shape inner b).inv x c).shape = shape
    ∧ ((reshape shape inner b).fwdLd x c).2 = (b.fwdLd ⟨inner, x.data⟩ c).2
    ∧ ((reshape shape inner b).invLd x c).2 = (b.invLd ⟨inner, x.data⟩ c).2 :=
  ArrComb.reshape_represent shape inner b x c

theorem embed_lawful {α C C' L : Type} [Add L] [OfNat L 0] (net : C' → C) {b : Bij (Arr α) C L}
    {D E : Set (Arr α)} (hb : b.Lawful D E) : (embed net b).Lawful D E := ArrComb.embed_lawful net hb

/-- every method of EmbedCondition is the wrapped one at the embedded condition -/
theorem embed_represent {α C C' L : Type} [Add L] [OfNat L 0] (net : C' → C) (b : Bij (Arr α) C L)
    (x : Arr α) (c : C') :
    (embed net b).fwd x c = b.fwd x (net c) ∧ (embed net b).inv x c = b.inv x (net c)
    ∧ (embed net b).fwdLd x c = b.fwdLd x (net c) ∧ (embed net b).invLd x c = b.invLd x (net c) :=
  ArrComb.embed_represent net b x c

theorem elementwise_lawful {α C L : Type} [Add L] [OfNat L 0] {shape : List Nat}
    {bs : List (Bij α C L)} (hb : ∀ b ∈ bs, b.Lawful univ univ) (hl : bs.length = Arr.prod shape) :
    (elementwise bs).Lawful (WS shape) (WS shape) := ArrComb.elementwise_lawful hb hl

/-- declared shape = shape of what `transform` / `inverse` return, for every input -/
theorem declared_shape {α C L : Type} [Add L] [OfNat L 0] [Inhabited α] (s : ConcatSpec)
    (bs : List (Bij (Arr α) C L)) (cs shape sub pos inner : List Nat) (b : Bij (Arr α) C L)
    (x : Arr α) (c : C) :
    ((concatenate s bs).fwd x c).shape = s.shape ∧ ((concatenate s bs).inv x c).shape = s.shape
    ∧ ((stack s cs bs).fwd x c).shape = s.shape ∧ ((stack s cs bs).inv x c).shape = s.shape
    ∧ ((partialB shape sub pos b).fwd x c).shape = shape ∧ ((partialB shape sub pos b).inv x c).shape = shape
    ∧ ((reshape shape inner b).fwd x c).shape = shape ∧ ((reshape shape inner b).inv x c).shape = shape :=
  ⟨rfl, rfl, rfl, rfl, rfl, rfl, rfl, rfl⟩

/-! ## 7. Chain is sequential composition, Invert swaps the two directions -/

/-- `Chain([b₁, b₂])`: transform is `b₂ ∘ b₁`, inverse is `b₁⁻¹ ∘ b₂⁻¹`, the log-dets add -/
theorem chain_is_composition {X C : Type} (b₁ b₂ : Bij X C ℝ) (x : X) (c : C) :
    (Chain.mk [b₁, b₂]).toBij.fwd x c = b₂.fwd (b₁.fwd x c) c
    ∧ (Chain.mk [b₁, b₂]).toBij.inv x c = b₁.inv (b₂.inv x c) c
    ∧ (Chain.mk [b₁, b₂]).toBij.fwdLd x c
        = ((b₂.fwdLd (b₁.fwdLd x c).1 c).1, (b₁.fwdLd x c).2 + (b₂.fwdLd (b₁.fwdLd x c).1 c).2)
    ∧ (Chain.mk [b₁, b₂]).toBij.invLd x c
        = ((b₁.invLd (b₂.invLd x c).1 c).1, (b₂.invLd x c).2 + (b₁.invLd (b₂.invLd x c).1 c).2) :=
  ⟨chain_pair_fwd b₁ b₂ x c, chain_pair_inv b₁ b₂ x c, chain_pair_fwdLd b₁ b₂ x c, chain_pair_invLd b₁ b₂ x c⟩

/-- any two lists: the chain of `as ++ bs` is the chain of `bs` after the chain of `as` -/
theorem chain_append {X C : Type} (as bs : List (Bij X C ℝ)) (x : X) (c : C) :
    (Chain.mk (as ++ bs)).transform x c = (Chain.mk bs).transform ((Chain.mk as).transform x c) c
    ∧ (Chain.mk (as ++ bs)).inverse x c = (Chain.mk as).inverse ((Chain.mk bs).inverse x c) c
    ∧ (Chain.mk (as ++ bs)).transform_and_log_det x c
        = (((Chain.mk bs).transform_and_log_det ((Chain.mk as).transform_and_log_det x c).1 c).1,
           ((Chain.mk as).transform_and_log_det x c).2
             + ((Chain.mk bs).transform_and_log_det ((Chain.mk as).transform_and_log_det x c).1 c).2)
    ∧ (Chain.mk (as ++ bs)).inverse_and_log_det x c
        = (((Chain.mk as).inverse_and_log_det ((Chain.mk bs).inverse_and_log_det x c).1 c).1,
           ((Chain.mk bs).inverse_and_log_det x c).2
             + ((Chain.mk as).inverse_and_log_det ((Chain.mk bs).inverse_and_log_det x c).1 c).2) :=
  ⟨Chain.transform_append as bs x c, Chain.inverse_append as bs x c, Chain.tld_append as bs x c,
   Chain.ild_append as bs x c⟩

theorem chain_lawful {X C : Type} {bs : List (Bij X C ℝ)} {D E : Set X} (h : ChainLawful bs D E) :
    (Chain.mk bs).toBij.Lawful D E := Gen.chain_lawful h

/-- **Invert swaps the two directions** (all four methods) -/
theorem invert_swaps {X C : Type} (b : Bij X C ℝ) :
    (Invert.mk b).toBij.fwd = b.inv ∧ (Invert.mk b).toBij.inv = b.fwd
    ∧ (Invert.mk b).toBij.fwdLd = b.invLd ∧ (Invert.mk b).toBij.invLd = b.fwdLd := ⟨rfl, rfl, rfl, rfl⟩

theorem invert_lawful {X C : Type} {b : Bij X C ℝ} {D E : Set X} (h : b.Lawful D E) :
    (Invert.mk b).toBij.Lawful E D := Gen.invert_lawful h

theorem chain_len {X C : Type} (l : List (Bij X C ℝ)) (i j : Nat) :
    (Chain.mk l).len = l.length
    ∧ ((Chain.mk l).getSlice i j).len = min j l.length - i := by
  simp [Chain.len, Chain.getSlice]

/-- **indexing and slicing never change the function**: `c[i:j]` is the chain of the sub-list
`bijections[i:j]`, `c[i]` is the `i`-th bijection itself, and the pieces chained back together
(`c[:i] ; c[i:j] ; c[j:]`, `c[:i] ; c[i] ; c[i+1:]`, `c[:i] ; c[i:]`) compute the same four methods as `c`. -/
theorem chain_getitem_sem {X C : Type} (l : List (Bij X C ℝ)) {i j : Nat} (hij : i ≤ j) :
    (Chain.mk l).getSlice i j = Chain.mk ((l.take j).drop i)
    ∧ (Chain.mk l).getIdx i = l[i]?
    ∧ (Chain.mk [((Chain.mk l).getSlice 0 i).toBij, ((Chain.mk l).getSlice i j).toBij,
          ((Chain.mk l).getSlice j l.length).toBij]).toBij.Equiv (Chain.mk l).toBij
    ∧ (Chain.mk [(Chain.mk (l.take i)).toBij, (Chain.mk (l.drop i)).toBij]).toBij.Equiv (Chain.mk l).toBij
    ∧ (∀ hi : i < l.length,
        (Chain.mk [(Chain.mk (l.take i)).toBij, l[i], (Chain.mk (l.drop (i + 1))).toBij]).toBij.Equiv
          (Chain.mk l).toBij) :=
  ⟨rfl, rfl, chain_slice3 l hij, chain_split l i, fun hi => chain_index3 l hi⟩

/-- `merge_chains` (one flattening pass, iterated by the code until flat) never changes the bijection -/
theorem merge_chains_step {X C : Type} (items : List (Item X C)) :
    (Chain.mk (items.map Item.toBij)).toBij.Equiv (Chain.mk (items.flatMap Item.flat)).toBij :=
  Gen.merge_chains_step items

/-- `merge_transforms` never changes the distribution, for any nesting depth -/
theorem merge_transforms_sem {X C K : Type} (base : Distn X C K ℝ) (bs : List (Bij X C ℝ)) :
    (nestTransformed base bs).Equiv (mergeTransforms base bs) := Gen.merge_transforms_sem base bs

/-! ## 8. Scan and Vmap -/

/-- In the model `Scan(layers)` IS the generated `Chain` of the unstacked layers.  That the real
`Scan` (a `lax.scan` over the stacked parameters) computes this is checked by the correspondence
harness (`tools/props/c08.py`, kind `SCAN`), not by this theorem. -/
theorem scan_eq_chain {α C : Type} (layers : List (Bij (Arr α) C ℝ)) :
    scan layers = (Chain.mk layers).toBij := rfl

/-- Scan of layers that are each lawful on `D` is lawful on `D`, any number of layers -/
theorem scan_lawful {α C : Type} {layers : List (Bij (Arr α) C ℝ)} {D : Set (Arr α)}
    (h : ∀ b ∈ layers, b.Lawful D D) : (scan layers).Lawful D D := by
  refine Gen.chain_lawful ?_
  induction layers with
  | nil => exact .nil D
  | cons b bs ih =>
    exact .cons (h b (List.mem_cons_self ..)) (ih (fun b' hb' => h b' (List.mem_cons_of_mem _ hb')))

/-- In the model `Vmap` IS `Stack` along a new leading axis of the per-slice bijections (all equal
when the parameters are broadcast).  The tie to `eqx.filter_vmap` is the correspondence harness
(kind `VMAP`), not this theorem. -/
theorem vmap_eq_stack {α C L : Type} [Add L] [OfNat L 0] (cs : List Nat) (bs : List (Bij (Arr α) C L)) :
    vmap cs bs = stack ⟨bs.length :: cs, 0, List.replicate bs.length 1⟩ cs bs := rfl

/-- **Vmap applies the wrapped bijection slice by slice along the new leading axis**: slice `i`
(the `i`-th run of `∏ cshape` entries) of the output is bijection `i` applied to slice `i` of the input. -/
theorem vmap_slicewise {α C L : Type} [Add L] [OfNat L 0] (cs : List Nat) {bs : List (Bij (Arr α) C L)}
    (hb : ∀ b ∈ bs, b.Lawful (WS cs) (WS cs)) {x : Arr α} (hx : x ∈ WS (bs.length :: cs)) (c : C) :
    chunks (Arr.prod cs) bs.length ((vmap cs bs).fwd x c).data
        = List.zipWith (fun b sl => (b.fwd ⟨cs, sl⟩ c).data) bs (chunks (Arr.prod cs) bs.length x.data)
    ∧ chunks (Arr.prod cs) bs.length ((vmap cs bs).inv x c).data
        = List.zipWith (fun b sl => (b.inv ⟨cs, sl⟩ c).data) bs (chunks (Arr.prod cs) bs.length x.data) :=
  ArrComb.vmap_slicewise cs hb hx c

theorem vmap_lawful {α C L : Type} [Add L] [OfNat L 0] (cs : List Nat) {bs : List (Bij (Arr α) C L)}
    (hb : ∀ b ∈ bs, b.Lawful (WS cs) (WS cs)) :
    (vmap cs bs).Lawful (WS (bs.length :: cs)) (WS (bs.length :: cs)) := ArrComb.vmap_lawful cs hb

/-! ## 9. Non-vacuity: concrete instances satisfying every hypothesis -/

/-- shape (2,3), axis 1, sizes (1,2); children: elementwise Affine(1,2) of shapes (2,1) and (2,2) -/
theorem concatenate_instance :
    (concatenate ⟨[2, 3], 1, [1, 2]⟩
      [elementwise (List.replicate 2 ((Affine.mk 1 2 : Affine ℝ).toBij : Bij ℝ Unit ℝ)),
       elementwise (List.replicate 4 ((Affine.mk (-1) (-3) : Affine ℝ).toBij : Bij ℝ Unit ℝ))]).Lawful
      (WS [2, 3]) (WS [2, 3]) := by
  refine concatenate_lawful ⟨[2, 3], 1, [1, 2]⟩ _ (by decide) (by decide) rfl ?_
  intro j h1 h2
  match j, h1, h2 with
  | 0, _, _ =>
    exact ArrComb.elementwise_lawful (shape := [2, 1])
      (fun b hb => by rw [List.eq_of_mem_replicate hb]; exact Leaves.affine_lawful _ (by norm_num)) (by decide)
  | 1, _, _ =>
    exact ArrComb.elementwise_lawful (shape := [2, 2])
      (fun b hb => by rw [List.eq_of_mem_replicate hb]; exact Leaves.affine_lawful _ (by norm_num)) (by decide)

/-- the same spec evaluated (over ℕ, children "+10" on the first column and "+20" on the last two):
column 0 of every row goes through child 0, columns 1–2 through child 1 — `jnp.concatenate(axis=1)`. -/
theorem concatenate_eval_instance :
    let sh (k : Nat) : Bij Nat Unit Nat := ⟨fun x _ => x + k, fun y _ => y - k, fun x _ => (x + k, 0), fun y _ => (y - k, 0)⟩
    ((concatenate ⟨[2, 3], 1, [1, 2]⟩
        [elementwise (List.replicate 2 (sh 10)), elementwise (List.replicate 4 (sh 20))]).fwd
        ⟨[2, 3], [1, 2, 3, 4, 5, 6]⟩ ()).data = [11, 22, 23, 14, 25, 26] := by decide

/-- Partial on a vector of 4 with index set {1,3} -/
theorem partial_instance :
    (partialB [4] [2] [1, 3]
      (elementwise (List.replicate 2 ((Affine.mk 1 2 : Affine ℝ).toBij : Bij ℝ Unit ℝ)))).Lawful
      (WS [4]) (WS [4]) := by
  refine partial_lawful ?_ (by decide) (by decide) (by decide)
  exact ArrComb.elementwise_lawful (shape := [2])
    (fun b hb => by rw [List.eq_of_mem_replicate hb]; exact Leaves.affine_lawful _ (by norm_num)) (by decide)

theorem partial_eval_instance :
    let sh (k : Nat) : Bij Nat Unit Nat := ⟨fun x _ => x + k, fun y _ => y - k, fun x _ => (x + k, 0), fun y _ => (y - k, 0)⟩
    ((partialB [4] [2] [1, 3] (elementwise (List.replicate 2 (sh 10)))).fwd ⟨[4], [1, 2, 3, 4]⟩ ()).data
      = [1, 12, 3, 14] := by decide

/-- Stack of two vectors of 3 along axis −1 (normalised: 1): shape (3,2) -/
theorem stack_instance :
    (stack ⟨[3, 2], 1, [1, 1]⟩ [3]
      [elementwise (List.replicate 3 ((Affine.mk 1 2 : Affine ℝ).toBij : Bij ℝ Unit ℝ)),
       elementwise (List.replicate 3 ((Affine.mk 0 (-1) : Affine ℝ).toBij : Bij ℝ Unit ℝ))]).Lawful
      (WS [3, 2]) (WS [3, 2]) := by
  refine stack_lawful ⟨[3, 2], 1, [1, 1]⟩ [3] _ (by decide) (by decide) (by decide) (by decide) ?_
  intro b hb
  simp only [List.mem_cons, List.not_mem_nil, or_false] at hb
  rcases hb with rfl | rfl <;>
  exact ArrComb.elementwise_lawful (shape := [3])
    (fun b hb => by rw [List.eq_of_mem_replicate hb]; exact Leaves.affine_lawful _ (by norm_num)) (by decide)


/-! ## 10. The definitions GENERATED from `concatenate.py` / `utils.py` (`Gen/ArrCombinators.lean`)

`g` is a generated object (a record of the Python fields), `s` the hand-model spec it denotes: `g.axis` (possibly
negative) normalises to `s.axis` by NumPy's rule, `g.split_idxs = accumulate(sizes[:-1])`.  The constructors'
theorems (`gen_*_ctor_*`) show that objects built by the generated `__init__` satisfy these hypotheses whenever the
C13 constructor model accepts. -/
set_option linter.unusedSectionVars false
section generated
variable {κ C α : Type} [Add α] [OfNat α 0] [Inhabited κ]

/-- **generated `Concatenate` = hand model**, all four methods, every rank / axis / number of children, for
children that return arrays of their own shape. -/
theorem gen_concatenate_eq_model (g : Concatenate κ C α) (s : ConcatSpec)
    (hax : s.axis < s.shape.length) (hsz : s.shape[s.axis] = s.sizes.sum)
    (haxis : Arr.normAxis s.shape.length g.axis = some s.axis)
    (hidx : g.split_idxs = ArrJnp.accumulate s.sizes.dropLast) (hne : s.sizes ≠ [])
    (hlen : g.bijections.length = s.sizes.length)
    (hb : ∀ j (h1 : j < g.bijections.length) (h2 : j < s.sizes.length), ∀ p ∈ WS (s.childShape s.sizes[j]), ∀ c,
      (g.bijections[j].fwd p c).shape = s.childShape s.sizes[j] ∧ (g.bijections[j].inv p c).shape = s.childShape s.sizes[j]
      ∧ (g.bijections[j].fwdLd p c).1.shape = s.childShape s.sizes[j]
      ∧ (g.bijections[j].invLd p c).1.shape = s.childShape s.sizes[j])
    {x : Arr κ} (hx : x ∈ WS s.shape) (c : C) :
    g.transform x c = (concatenate s (g.bijections.map SBij.toBij)).fwd x c
    ∧ g.inverse x c = (concatenate s (g.bijections.map SBij.toBij)).inv x c
    ∧ g.transform_and_log_det x c = (concatenate s (g.bijections.map SBij.toBij)).fwdLd x c
    ∧ g.inverse_and_log_det x c = (concatenate s (g.bijections.map SBij.toBij)).invLd x c := by
  have hsh : ArrGen.ChildrenShaped s (ArrGen.kids g.bijections) :=
    ArrGen.childrenShaped_of_index (by simpa [ArrGen.kids] using hlen) (fun j h1 h2 p hp c => by
      have hj : j < g.bijections.length := by simpa [ArrGen.kids] using h1
      simpa [ArrGen.kids] using hb j hj h2 p hp c)
  have h := ArrGen.concatenate_eqOn ⟨hax, hsz⟩ ⟨haxis, hidx, hne⟩ hsh
  exact ⟨h.fwd x hx c, h.inv x hx c, h.fwdLd x hx c, h.invLd x hx c⟩

/-- **the generated `Concatenate` is a lawful bijection of the declared shape** (hypotheses of `concatenate_lawful`) -/
theorem gen_concatenate_lawful (g : Concatenate κ C α) (s : ConcatSpec)
    (hax : s.axis < s.shape.length) (hsz : s.shape[s.axis] = s.sizes.sum)
    (haxis : Arr.normAxis s.shape.length g.axis = some s.axis)
    (hidx : g.split_idxs = ArrJnp.accumulate s.sizes.dropLast) (hne : s.sizes ≠ [])
    (hlen : g.bijections.length = s.sizes.length)
    (hb : ∀ j (h1 : j < g.bijections.length) (h2 : j < s.sizes.length),
      g.bijections[j].toBij.Lawful (WS (s.childShape s.sizes[j])) (WS (s.childShape s.sizes[j]))) :
    g.toBij.Lawful (WS s.shape) (WS s.shape) :=
  ArrGen.concatenate_gen_lawful ⟨hax, hsz⟩ ⟨haxis, hidx, hne⟩
    ⟨by simpa [ArrGen.kids] using hlen, fun j h1 h2 => by
      have hj : j < g.bijections.length := by simpa [ArrGen.kids] using h1
      simpa [ArrGen.kids] using hb j hj h2⟩

/-- **slicewise, in the code's own terms**: splitting the output with the very `jnp.array_split(·, split_idxs, axis)`
the code applies to its input gives, part by part, the children's outputs on the input's parts. -/
theorem gen_concatenate_slicewise (g : Concatenate κ C α) (s : ConcatSpec)
    (hax : s.axis < s.shape.length) (hsz : s.shape[s.axis] = s.sizes.sum)
    (haxis : Arr.normAxis s.shape.length g.axis = some s.axis)
    (hidx : g.split_idxs = ArrJnp.accumulate s.sizes.dropLast) (hne : s.sizes ≠ [])
    (hlen : g.bijections.length = s.sizes.length)
    (hb : ∀ j (h1 : j < g.bijections.length) (h2 : j < s.sizes.length),
      g.bijections[j].toBij.Lawful (WS (s.childShape s.sizes[j])) (WS (s.childShape s.sizes[j])))
    {x : Arr κ} (hx : x ∈ WS s.shape) (c : C) :
    arraySplit (g.transform x c) g.split_idxs g.axis
        = List.zipWith (fun (b : SBij (Arr κ) C α) p => b.fwd p c) g.bijections (arraySplit x g.split_idxs g.axis)
    ∧ arraySplit (g.inverse x c) g.split_idxs g.axis
        = List.zipWith (fun (b : SBij (Arr κ) C α) p => b.inv p c) g.bijections (arraySplit x g.split_idxs g.axis)
    ∧ arraySplit x g.split_idxs g.axis = s.parts x.data :=
  have h := ArrGen.concatenate_gen_slicewise ⟨hax, hsz⟩ ⟨haxis, hidx, hne⟩
    ⟨by simpa [ArrGen.kids] using hlen, fun j h1 h2 => by
      have hj : j < g.bijections.length := by simpa [ArrGen.kids] using h1
      simpa [ArrGen.kids] using hb j hj h2⟩ hx c
  ⟨h.1, h.2, by rw [hidx]; exact ArrGen.arraySplit_eq_parts ⟨hax, hsz⟩ hne hx.1 haxis⟩

/-- the returned log-det is the sum of the children's on the parts the code hands them — every input, no hypothesis -/
theorem gen_concatenate_ld {κ C : Type} [Inhabited κ] (g : Concatenate κ C ℝ) (x : Arr κ) (c : C) :
    (g.transform_and_log_det x c).2
        = (List.zipWith (fun (b : SBij (Arr κ) C ℝ) p => (b.fwdLd p c).2) g.bijections (arraySplit x g.split_idxs g.axis)).sum
    ∧ (g.inverse_and_log_det x c).2
        = (List.zipWith (fun (b : SBij (Arr κ) C ℝ) p => (b.invLd p c).2) g.bijections (arraySplit x g.split_idxs g.axis)).sum := by
  rw [List.sum_eq_foldl, List.sum_eq_foldl]
  exact ArrGen.concatenate_gen_ld g x c

/-- **the generated `Concatenate.__init__`**: whenever the C13 model of the constructor accepts the children's declared
shapes, the declared `shape` / `cond_shape` are the C13 ones (so `jnp.concatenate`'s shape, `C13.concatenate_shape_spec`),
the split points are `accumulate` of the children's sizes along the normalised axis, and every child's declared shape is
the declared shape with the child's own size on the axis. -/
theorem gen_concatenate_ctor (bs : List (SBij (Arr κ) C α)) (axis : Int) (sh : PyShape.Shape) (c : Option PyShape.Shape)
    (h : ArgCheck.concatenateCtor (bs.map (·.shape)) (bs.map (·.cond_shape)) axis = .ok (sh, c)) :
    ∃ ax, Arr.normAxis sh.length axis = some ax ∧ ax < sh.length
      ∧ (Concatenate.init bs axis).shape = sh ∧ (Concatenate.init bs axis).cond_shape = c
      ∧ (Concatenate.init bs axis).bijections = bs ∧ (Concatenate.init bs axis).axis = axis
      ∧ (Concatenate.init bs axis).split_idxs = ArrJnp.accumulate (bs.map (fun b => shapeGet b.shape ax)).dropLast
      ∧ sh[ax]? = some (bs.map (fun b => shapeGet b.shape ax)).sum
      ∧ ∀ b ∈ bs, b.shape = sh.set ax (shapeGet b.shape ax) := by
  obtain ⟨ax, h1, h2, h3, h4, h5, h6, h7⟩ := ArrGen.concatenate_init_spec bs axis h
  exact ⟨ax, h6.axis, h5.axis_lt, h1, h2, h3, h4, h6.idxs, by rw [List.getElem?_eq_getElem h5.axis_lt]; exact congrArg some h5.axis_size, h7⟩

/-- **end to end**: children lawful on arrays of their DECLARED shapes + a constructor call that C13 accepts ⇒ the object
built by the generated `__init__`, through its generated methods, is a lawful bijection on arrays of its declared shape —
declared shape agrees with what the methods accept and return. -/
theorem gen_concatenate_ctor_lawful (bs : List (SBij (Arr κ) C α)) (axis : Int) (sh : PyShape.Shape)
    (c : Option PyShape.Shape)
    (h : ArgCheck.concatenateCtor (bs.map (·.shape)) (bs.map (·.cond_shape)) axis = .ok (sh, c))
    (hb : ∀ b ∈ bs, b.toBij.Lawful (WS b.shape) (WS b.shape)) :
    (Concatenate.init bs axis).toBij.Lawful (WS sh) (WS sh) := ArrGen.concatenate_ctor_lawful bs axis h hb

/-- **generated `Stack` = hand model** (`jnp.split` + `squeeze`, children, `jnp.stack`), all four methods -/
theorem gen_stack_eq_model (g : Stack κ C α) (s : ConcatSpec) (cs : List Nat)
    (hax : s.axis < s.shape.length) (hk : s.shape[s.axis] = g.bijections.length)
    (hsz : s.sizes = List.replicate g.bijections.length 1) (hcs : cs = s.shape.eraseIdx s.axis)
    (haxis : Arr.normAxis s.shape.length g.axis = some s.axis) (hpos : 0 < g.bijections.length)
    (hb : ∀ b ∈ g.bijections, ∀ q ∈ WS cs, ∀ c, (b.fwd q c).shape = cs ∧ (b.inv q c).shape = cs
      ∧ (b.fwdLd q c).1.shape = cs ∧ (b.invLd q c).1.shape = cs)
    {x : Arr κ} (hx : x ∈ WS s.shape) (c : C) :
    g.transform x c = (stack s cs (g.bijections.map SBij.toBij)).fwd x c
    ∧ g.inverse x c = (stack s cs (g.bijections.map SBij.toBij)).inv x c
    ∧ g.transform_and_log_det x c = (stack s cs (g.bijections.map SBij.toBij)).fwdLd x c
    ∧ g.inverse_and_log_det x c = (stack s cs (g.bijections.map SBij.toBij)).invLd x c := by
  have hsh : ArrGen.StackShaped cs (ArrGen.kids g.bijections) := by
    intro b hbm
    obtain ⟨b', hb', rfl⟩ := List.mem_map.1 hbm
    exact hb b' hb'
  have h := ArrGen.stack_eqOn ⟨hax, hk, hsz, hcs⟩ ⟨haxis, hpos⟩ hsh
  exact ⟨h.fwd x hx c, h.inv x hx c, h.fwdLd x hx c, h.invLd x hx c⟩

theorem gen_stack_lawful (g : Stack κ C α) (s : ConcatSpec) (cs : List Nat)
    (hax : s.axis < s.shape.length) (hk : s.shape[s.axis] = g.bijections.length)
    (hsz : s.sizes = List.replicate g.bijections.length 1) (hcs : cs = s.shape.eraseIdx s.axis)
    (haxis : Arr.normAxis s.shape.length g.axis = some s.axis) (hpos : 0 < g.bijections.length)
    (hb : ∀ b ∈ g.bijections, b.toBij.Lawful (WS cs) (WS cs)) :
    g.toBij.Lawful (WS s.shape) (WS s.shape) :=
  ArrGen.stack_gen_lawful ⟨hax, hk, hsz, hcs⟩ ⟨haxis, hpos⟩ (fun b hbm => by
    obtain ⟨b', hb', rfl⟩ := List.mem_map.1 hbm
    exact hb b' hb')

/-- **slice `j` of the output of the generated `Stack` is child `j` applied to slice `j` of the input**, the slices
being the code's own `_split_and_squeeze` -/
theorem gen_stack_slicewise (g : Stack κ C α) (s : ConcatSpec) (cs : List Nat)
    (hax : s.axis < s.shape.length) (hk : s.shape[s.axis] = g.bijections.length)
    (hsz : s.sizes = List.replicate g.bijections.length 1) (hcs : cs = s.shape.eraseIdx s.axis)
    (haxis : Arr.normAxis s.shape.length g.axis = some s.axis) (hpos : 0 < g.bijections.length)
    (hb : ∀ b ∈ g.bijections, b.toBij.Lawful (WS cs) (WS cs)) {x : Arr κ} (hx : x ∈ WS s.shape) (c : C) :
    (g._split_and_squeeze (g.transform x c)).map Arr.data
        = List.zipWith (fun (b : SBij (Arr κ) C α) p => (b.fwd p c).data) g.bijections (g._split_and_squeeze x)
    ∧ (g._split_and_squeeze (g.inverse x c)).map Arr.data
        = List.zipWith (fun (b : SBij (Arr κ) C α) p => (b.inv p c).data) g.bijections (g._split_and_squeeze x)
    ∧ g._split_and_squeeze x = (s.parts x.data).map (fun p => ⟨cs, p.data⟩) :=
  have h := ArrGen.stack_gen_slicewise ⟨hax, hk, hsz, hcs⟩ ⟨haxis, hpos⟩ (fun b hbm => by
    obtain ⟨b', hb', rfl⟩ := List.mem_map.1 hbm
    exact hb b' hb') hx c
  ⟨h.1, h.2, ArrGen.split_and_squeeze_eq ⟨hax, hk, hsz, hcs⟩ ⟨haxis, hpos⟩ hx.1⟩

theorem gen_stack_ld {κ C : Type} [Inhabited κ] (g : Stack κ C ℝ) (x : Arr κ) (c : C) :
    (g.transform_and_log_det x c).2
        = (List.zipWith (fun (b : SBij (Arr κ) C ℝ) p => (b.fwdLd p c).2) g.bijections (g._split_and_squeeze x)).sum
    ∧ (g.inverse_and_log_det x c).2
        = (List.zipWith (fun (b : SBij (Arr κ) C ℝ) p => (b.invLd p c).2) g.bijections (g._split_and_squeeze x)).sum := by
  rw [List.sum_eq_foldl, List.sum_eq_foldl]
  exact ArrGen.stack_gen_ld g x c

/-- **the generated `Stack.__init__`** + end to end: declared shape / cond_shape are the C13 ones (`jnp.stack`'s shape,
`C13.stack_shape_spec`, negative axes included) and the built object is lawful on arrays of that shape. -/
theorem gen_stack_ctor_lawful (bs : List (SBij (Arr κ) C α)) (axis : Int) (sh : PyShape.Shape) (c : Option PyShape.Shape)
    (h : ArgCheck.stackCtor (bs.map (·.shape)) (bs.map (·.cond_shape)) axis = .ok (sh, c))
    (hb : ∀ b ∈ bs, b.toBij.Lawful (WS b.shape) (WS b.shape)) :
    (Stack.init bs axis).shape = sh ∧ (Stack.init bs axis).cond_shape = c ∧ (Stack.init bs axis).bijections = bs
    ∧ (Stack.init bs axis).axis = axis ∧ (Stack.init bs axis).toBij.Lawful (WS sh) (WS sh) := by
  obtain ⟨ax, cs, h1, h2, h3, h4, -⟩ := ArrGen.stack_init_spec bs axis h
  exact ⟨h1, h2, h3, h4, ArrGen.stack_ctor_lawful bs axis h hb⟩

/-- **generated `Partial` = hand model** on every array carrying the declared shape; `idxs` enters resolved to the
flat positions it selects (`x[idxs]` = gather, `x.at[idxs].set(y)` = scatter) -/
theorem gen_partial_eq_model (g : Partial κ C α) {x : Arr κ} (hx : x.shape = g.shape) (c : C) :
    g.transform x c = (partialB g.shape g.idxs.sub g.idxs.pos g.bijection.toBij).fwd x c
    ∧ g.inverse x c = (partialB g.shape g.idxs.sub g.idxs.pos g.bijection.toBij).inv x c
    ∧ g.transform_and_log_det x c = (partialB g.shape g.idxs.sub g.idxs.pos g.bijection.toBij).fwdLd x c
    ∧ g.inverse_and_log_det x c = (partialB g.shape g.idxs.sub g.idxs.pos g.bijection.toBij).invLd x c :=
  have h := ArrGen.partial_eqOn g
  ⟨h.fwd x hx c, h.inv x hx c, h.fwdLd x hx c, h.invLd x hx c⟩

theorem gen_partial_lawful (g : Partial κ C α) (hb : g.bijection.toBij.Lawful (WS g.idxs.sub) (WS g.idxs.sub))
    (hnd : g.idxs.pos.Nodup) (hr : ∀ p ∈ g.idxs.pos, p < Arr.prod g.shape) (hl : g.idxs.pos.length = Arr.prod g.idxs.sub) :
    g.toBij.Lawful (WS g.shape) (WS g.shape) := by
  have he := ArrGen.partial_eqOn g
  refine ArrGen.EqOn.lawful ⟨fun x hx c => he.fwd x hx.1 c, fun x hx c => he.inv x hx.1 c,
    fun x hx c => he.fwdLd x hx.1 c, fun x hx c => he.invLd x hx.1 c⟩ (ArrComb.partial_lawful hb hnd hr hl) ?_ ?_
  · intro x c; show (ArrJnp.atSet x g.idxs _) = ArrJnp.atSet x g.idxs _; rw [hb.fwdLd_fst]
  · intro x c; show (ArrJnp.atSet x g.idxs _) = ArrJnp.atSet x g.idxs _; rw [hb.invLd_fst]

/-- **the generated `Partial` changes only the indexed entries** — every input, no hypothesis; the shape is the input's -/
theorem gen_partial_frame (g : Partial κ C α) {i : Nat} (hi : i ∉ g.idxs.pos) (x : Arr κ) (c : C) :
    (g.transform x c).data[i]? = x.data[i]? ∧ (g.inverse x c).data[i]? = x.data[i]?
    ∧ (g.transform x c).shape = x.shape ∧ (g.inverse x c).shape = x.shape :=
  ⟨Arr.scatter_frame hi _ _, Arr.scatter_frame hi _ _, rfl, rfl⟩

/-- on the indexed entries the generated `Partial` is the wrapped bijection applied to `x[idxs]` -/
theorem gen_partial_indexed (g : Partial κ C α) (hb : g.bijection.toBij.Lawful (WS g.idxs.sub) (WS g.idxs.sub))
    (hnd : g.idxs.pos.Nodup) (hr : ∀ p ∈ g.idxs.pos, p < Arr.prod g.shape) (hl : g.idxs.pos.length = Arr.prod g.idxs.sub)
    {x : Arr κ} (hx : x ∈ WS g.shape) (c : C) :
    getIdx (g.transform x c) g.idxs = g.bijection.fwd (getIdx x g.idxs) c
    ∧ (g.transform_and_log_det x c).2 = (g.bijection.fwdLd (getIdx x g.idxs) c).2 := by
  have hg : getIdx x g.idxs ∈ WS g.idxs.sub := mk_mem_WS (by simp [hl])
  have hy := hb.maps _ hg c
  refine ⟨?_, rfl⟩
  show (⟨g.idxs.sub, gather g.idxs.pos (scatter g.idxs.pos x.data _)⟩ : Arr κ) = _
  rw [Arr.gather_scatter hnd (by rw [hx.2]; exact hr) (by rw [hy.2, hl])]
  exact WS.eta hy

/-- **generated `Reshape` = hand model** (the point is re-presented on the wrapped shape and back, data untouched)
composed with the re-presentation of the condition — as records, every input.  The condition keeps its data; it is
untouched when `cond_shape` is None and carries the wrapped `cond_shape` otherwise. -/
theorem gen_reshape_eq_model (g : Reshape κ α) :
    g.toBij = embed (ArrGen.condRe g) (reshape g.shape g.bijection.shape g.bijection.toBij)
    ∧ (∀ c, (ArrGen.condRe g c).data = c.data) ∧ (g.cond_shape = none → ∀ c, ArrGen.condRe g c = c)
    ∧ (∀ s i c, g.cond_shape = some s → g.bijection.cond_shape = some i → ArrGen.condRe g c = ⟨i, c.data⟩) :=
  ⟨ArrGen.reshape_eq g, fun c => (ArrGen.condRe_data g c).1, fun h c => (ArrGen.condRe_data g c).2.1 h,
   fun s i c h1 h2 => (ArrGen.condRe_data g c).2.2 s i h1 h2⟩

theorem gen_reshape_lawful (g : Reshape κ α) (hb : g.bijection.toBij.Lawful (WS g.bijection.shape) (WS g.bijection.shape))
    (hp : Arr.prod g.shape = Arr.prod g.bijection.shape) : g.toBij.Lawful (WS g.shape) (WS g.shape) := by
  rw [ArrGen.reshape_eq]; exact ArrComb.embed_lawful _ (ArrComb.reshape_lawful hb hp)

/-- **the generated `Reshape.__init__`** (defaults "unchanged") + end to end, whenever C13's `reshapeCtor` accepts -/
theorem gen_reshape_ctor_lawful (b : SBij (Arr κ) (Arr κ) α) (shape? cond? : Option PyShape.Shape) (sh : PyShape.Shape)
    (c : Option PyShape.Shape) (h : ArgCheck.reshapeCtor b.shape b.cond_shape shape? cond? = .ok (sh, c))
    (hb : b.toBij.Lawful (WS b.shape) (WS b.shape)) :
    (Reshape.init b shape? cond?).shape = sh ∧ (Reshape.init b shape? cond?).cond_shape = c
    ∧ Arr.prod sh = Arr.prod b.shape ∧ (c.isSome → b.cond_shape.isSome)
    ∧ (Reshape.init b shape? cond?).toBij.Lawful (WS sh) (WS sh) := by
  obtain ⟨h1, h2, -, h4, h5⟩ := ArrGen.reshape_init_spec b shape? cond? h
  exact ⟨h1, h2, h4, h5, ArrGen.reshape_ctor_lawful b shape? cond? h hb⟩

/-- **generated `EmbedCondition` = hand model** (as records), its `__init__` stores its arguments, its `shape` is the
wrapped bijection's and the generated `Partial.cond_shape` is the wrapped bijection's -/
theorem gen_embed_eq_model {C' : Type} (g : EmbedCondition κ C C' α) (b : SBij (Arr κ) C α) (net : C' → C) (raw : List Nat)
    (p : Partial κ C α) :
    g.toBij = embed g.embedding_net g.bijection.toBij
    ∧ (EmbedCondition.init b net raw : EmbedCondition κ C C' α) = ⟨b, raw, net⟩
    ∧ g.shape_prop = g.bijection.shape ∧ p.cond_shape_prop = p.bijection.cond_shape := ⟨rfl, rfl, rfl, rfl⟩

theorem gen_embed_lawful {C' : Type} (g : EmbedCondition κ C C' α) {D E : Set (Arr κ)}
    (hb : g.bijection.toBij.Lawful D E) : g.toBij.Lawful D E := by
  rw [ArrGen.embed_eq]; exact ArrComb.embed_lawful _ hb

/-! ### generated guard + generated value = the C13 constructor

`Gen/ArrCombinators.lean` translates the VALUE computations of the constructors and records the argument-check calls
(`self._argcheck_shapes(shapes)`, `check_shapes_match(shapes)`) as guards; `Gen/CtorsGen.lean` (py2ctor, C13) translates
the same constructors in exception-valued form, guards included.  Whenever the exception-valued constructor accepts
— which by `C13.gen_*_ctor_eq` is exactly when the C13 hand model does — the fields it returns are the fields the
value-level `__init__` of this file sets. -/

/-- the shape-level view of a child: its declared `shape` / `cond_shape` -/
def sbOf (b : SBij (Arr κ) C α) : PyCtor.SB := ⟨b.shape, b.cond_shape⟩

theorem accumulate_eq (l : List Nat) : ArrJnp.accumulate l = PyCtor.accumulate l := by
  induction l with
  | nil => rfl
  | cons a l ih => simp only [ArrJnp.accumulate, PyCtor.accumulate, ih]

theorem gen_concatenate_ctor_guard_value (bs : List (SBij (Arr κ) C α)) (axis : Int) (r : GenCtors.ConcatenateF)
    (h : GenCtors.Concatenate.init (bs.map sbOf) axis = .ok r) :
    ArgCheck.concatenateCtor (bs.map (·.shape)) (bs.map (·.cond_shape)) axis = .ok (r.shape, r.cond_shape)
    ∧ (Concatenate.init bs axis).shape = r.shape ∧ (Concatenate.init bs axis).cond_shape = r.cond_shape
    ∧ (Concatenate.init bs axis).axis = r.axis ∧ (Concatenate.init bs axis).split_idxs = r.split_idxs := by
  have hm1 : (bs.map sbOf).map (·.shape) = bs.map (·.shape) := by rw [List.map_map]; rfl
  have hm2 : (bs.map sbOf).map (·.cond_shape) = bs.map (·.cond_shape) := by rw [List.map_map]; rfl
  have hc : ArgCheck.concatenateCtor (bs.map (·.shape)) (bs.map (·.cond_shape)) axis = .ok (r.shape, r.cond_shape) := by
    rw [← hm1, ← hm2, ← CtorsGen.gen_concatenate_ctor_eq, h]; rfl
  obtain ⟨ax, h1, h2, -, h4, -⟩ := ArrGen.concatenate_init_spec bs axis hc
  obtain ⟨ha, s0, ax', hh, hN, hsp⟩ := CtorsGen.gen_concatenate_fields (bs.map sbOf) axis r h
  refine ⟨hc, h1, h2, by rw [h4, ha], ?_⟩
  rw [hsp, hm1] at *
  have hfirst : first (bs.map (·.shape)) = s0 := by
    unfold first; cases hl : bs.map (·.shape) with
    | nil => rw [hl] at hh; simp at hh
    | cons a l => rw [hl] at hh; simp at hh; simp [hh]
  show ArrJnp.accumulate (List.map (fun s => shapeGet s (rangeGet (((first (List.map (fun b => b.shape) bs)).length : Nat) : Int) axis))
      (List.dropLast (List.map (fun b => b.shape) bs))) = _
  rw [hfirst, ArrGen.rangeGet_of_argcheck hN, accumulate_eq, List.map_dropLast, List.map_map, List.map_map]
  congr 2

theorem gen_stack_ctor_guard_value (bs : List (SBij (Arr κ) C α)) (axis : Int) (r : GenCtors.StackF)
    (h : GenCtors.Stack.init (bs.map sbOf) axis = .ok r) :
    ArgCheck.stackCtor (bs.map (·.shape)) (bs.map (·.cond_shape)) axis = .ok (r.shape, r.cond_shape)
    ∧ (Stack.init bs axis).shape = r.shape ∧ (Stack.init bs axis).cond_shape = r.cond_shape
    ∧ (Stack.init bs axis).axis = r.axis := by
  have hm1 : (bs.map sbOf).map (·.shape) = bs.map (·.shape) := by rw [List.map_map]; rfl
  have hm2 : (bs.map sbOf).map (·.cond_shape) = bs.map (·.cond_shape) := by rw [List.map_map]; rfl
  have hc : ArgCheck.stackCtor (bs.map (·.shape)) (bs.map (·.cond_shape)) axis = .ok (r.shape, r.cond_shape) := by
    rw [← hm1, ← hm2, ← CtorsGen.gen_stack_ctor_eq, h]; rfl
  obtain ⟨ax, cs, h1, h2, -, h4, -⟩ := ArrGen.stack_init_spec bs axis hc
  exact ⟨hc, h1, h2, by rw [h4, CtorsGen.gen_stack_fields _ _ _ h]⟩

theorem gen_reshape_ctor_guard_value (b : SBij (Arr κ) (Arr κ) α) (shape? cond? : Option PyShape.Shape)
    (r : GenCtors.ReshapeF) (h : GenCtors.Reshape.ctor ⟨b.shape, b.cond_shape⟩ shape? cond? = .ok r) :
    ArgCheck.reshapeCtor b.shape b.cond_shape shape? cond? = .ok (r.shape, r.cond_shape)
    ∧ (Reshape.init b shape? cond?).shape = r.shape ∧ (Reshape.init b shape? cond?).cond_shape = r.cond_shape := by
  have hc : ArgCheck.reshapeCtor b.shape b.cond_shape shape? cond? = .ok (r.shape, r.cond_shape) := by
    have := CtorsGen.gen_reshape_ctor_eq ⟨b.shape, b.cond_shape⟩ shape? cond?
    rw [h] at this; exact this.symm
  obtain ⟨h1, h2, -⟩ := ArrGen.reshape_init_spec b shape? cond? hc
  exact ⟨hc, h1, h2⟩

end generated

/-! ### non-vacuity on the generated definitions (negative axes) -/

/-- the generated constructor on children of declared shapes (2,1) and (2,2), axis −1: shape (2,3), split point (1,),
and the built object is lawful (children: elementwise Affine) -/
theorem gen_concatenate_instance :
    let kids : List (SBij (Arr ℝ) Unit ℝ) :=
      [SBij.ofBij (elementwise (List.replicate 2 ((Affine.mk 1 2 : Affine ℝ).toBij : Bij ℝ Unit ℝ))) [2, 1] none,
       SBij.ofBij (elementwise (List.replicate 4 ((Affine.mk (-1) (-3) : Affine ℝ).toBij : Bij ℝ Unit ℝ))) [2, 2] none]
    (Concatenate.init kids (-1)).shape = [2, 3] ∧ (Concatenate.init kids (-1)).split_idxs = [1]
    ∧ (Concatenate.init kids (-1)).toBij.Lawful (WS [2, 3]) (WS [2, 3]) := by
  intro kids
  refine ⟨by decide, by decide, gen_concatenate_ctor_lawful kids (-1) [2, 3] none (by decide) ?_⟩
  intro b hb
  simp only [kids, List.mem_cons, List.not_mem_nil, or_false] at hb
  rcases hb with rfl | rfl
  · exact ArrComb.elementwise_lawful (shape := [2, 1])
      (fun b hb => by rw [List.eq_of_mem_replicate hb]; exact Leaves.affine_lawful _ (by norm_num)) (by decide)
  · exact ArrComb.elementwise_lawful (shape := [2, 2])
      (fun b hb => by rw [List.eq_of_mem_replicate hb]; exact Leaves.affine_lawful _ (by norm_num)) (by decide)

/-- the generated methods evaluated (over ℕ): `Concatenate(axis=-1)` sends column 0 through child 0 and columns 1–2
through child 1; `Stack(axis=-1)` of two vectors of 3 interleaves; `Partial` touches positions {1,3} only. -/
theorem gen_eval_instance :
    let sh (k : Nat) : Bij Nat Unit Nat := ⟨fun x _ => x + k, fun y _ => y - k, fun x _ => (x + k, 1), fun y _ => (y - k, 2)⟩
    let cat := Concatenate.init [SBij.ofBij (elementwise (List.replicate 2 (sh 10))) [2, 1] none,
        SBij.ofBij (elementwise (List.replicate 4 (sh 20))) [2, 2] none] (-1)
    let stk := Stack.init [SBij.ofBij (elementwise (List.replicate 3 (sh 10))) [3] none,
        SBij.ofBij (elementwise (List.replicate 3 (sh 20))) [3] none] (-1)
    let par : Partial Nat Unit Nat := ⟨SBij.ofBij (elementwise (List.replicate 2 (sh 10))) [2] none, ⟨[2], [1, 3]⟩, [4]⟩
    (cat.transform_and_log_det ⟨[2, 3], [1, 2, 3, 4, 5, 6]⟩ ()).1.data = [11, 22, 23, 14, 25, 26]
    ∧ (cat.transform_and_log_det ⟨[2, 3], [1, 2, 3, 4, 5, 6]⟩ ()).1.shape = [2, 3]
    ∧ (cat.transform_and_log_det ⟨[2, 3], [1, 2, 3, 4, 5, 6]⟩ ()).2 = 6
    ∧ (cat.inverse ⟨[2, 3], [11, 22, 23, 14, 25, 26]⟩ ()).data = [1, 2, 3, 4, 5, 6]
    ∧ stk.shape = [3, 2]
    ∧ (stk.transform ⟨[3, 2], [1, 2, 3, 4, 5, 6]⟩ ()).data = [11, 22, 13, 24, 15, 26]
    ∧ (stk.transform ⟨[3, 2], [1, 2, 3, 4, 5, 6]⟩ ()).shape = [3, 2]
    ∧ (stk.inverse_and_log_det ⟨[3, 2], [11, 22, 13, 24, 15, 26]⟩ ()).2 = 12
    ∧ (par.transform ⟨[4], [1, 2, 3, 4]⟩ ()).data = [1, 12, 3, 14] := by decide

/-! ## premade flows: the `Scan` inside every factory equals the `Chain` of its unstacked layers

`Flows.scanOf`, `Flows.filterVmap`, `Flows.jrSplitN` are the names the GENERATED factory bodies (`Gen/Flows.lean`) use for
`Scan(...)`, `eqx.filter_vmap(make_layer)(...)`, `jr.split(key, n)`.  The layers are HETEROGENEOUS (layer `i` is made from
its own key `key i`: its own parameters and its own permutation).  That the real `Scan` over the stacked parameters
computes this chain is checked on real factory-built flows by `tools/props/flows.py` (`fj.unstack_scan`). -/
section PremadeFlows
open Flows FlowsPf

/-- **`scan_eq_chain_of_unstacked`** — for any layer constructor and any per-layer keys:
`Scan(filter_vmap(make_layer)(split(key, n)))` is the generated `Chain` of `[make_layer(key 0), …, make_layer(key (n-1))]` -/
theorem scan_eq_chain_of_unstacked {X C κ : Type} (makeLayer : κ → Bij X C ℝ) (key : ℕ → κ) (n : ℕ) :
    Flows.scanOf (Flows.filterVmap makeLayer (Flows.jrSplitN key n))
      = (Chain.mk ((List.range n).map fun i => makeLayer (key i))).toBij := by
  rw [FlowsPf.layers_eq_map, FlowsPf.scanOf_eq_chain]

/-- … instantiated at the generated coupling / MAF / planar / BNAF factories, `invert = false`; `invert = true` wraps the
same chain in the generated `Invert` -/
theorem coupling_flow_eq_chain (tf : List ℝ → Bij ℝ Unit ℝ) (dim : ℕ) (key : ℕ → (List ℝ → List ℝ) × List ℕ) (n : ℕ) :
    couplingFlowBij tf dim key n false
        = (Chain.mk ((List.range n).map fun i => coupling_flow.make_layer tf dim (key i))).toBij ∧
    couplingFlowBij tf dim key n true
        = (Invert.mk (Chain.mk ((List.range n).map fun i => coupling_flow.make_layer tf dim (key i))).toBij).toBij := by
  rw [FlowsPf.couplingFlowBij_eq, FlowsPf.couplingFlowBij_eq, FlowsPf.layers_eq_map, FlowsPf.scanOf_eq_chain]
  exact ⟨rfl, rfl⟩

theorem maf_flow_eq_chain (tf : List ℝ → Bij ℝ Unit ℝ) (dim : ℕ) (key : ℕ → Masks.MafNet ℝ × List ℕ) (n : ℕ) :
    mafFlowBij tf dim key n false
        = (Chain.mk ((List.range n).map fun i => masked_autoregressive_flow.make_layer tf dim (key i))).toBij ∧
    mafFlowBij tf dim key n true
        = (Invert.mk (Chain.mk ((List.range n).map fun i => masked_autoregressive_flow.make_layer tf dim (key i))).toBij).toBij := by
  rw [FlowsPf.mafFlowBij_eq, FlowsPf.mafFlowBij_eq, FlowsPf.layers_eq_map, FlowsPf.scanOf_eq_chain]
  exact ⟨rfl, rfl⟩

theorem planar_flow_eq_chain (dim : ℕ) (s : ℝ) (key : ℕ → (List ℝ → List ℝ) × List ℕ) (n : ℕ) :
    planarFlowBij dim s key n false
        = (Chain.mk ((List.range n).map fun i => planar_flow.make_layer dim s (key i))).toBij ∧
    planarFlowBij dim s key n true
        = (Invert.mk (Chain.mk ((List.range n).map fun i => planar_flow.make_layer dim s (key i))).toBij).toBij := by
  rw [FlowsPf.planarFlowBij_eq, FlowsPf.planarFlowBij_eq, FlowsPf.layers_eq_map, FlowsPf.scanOf_eq_chain]
  exact ⟨rfl, rfl⟩

/-- each layer is `Chain([bijection, permutation]).merge_chains()`; the chain of such layers has the same four methods
as the FLAT chain `[b₀, p₀, b₁, p₁, …]` (flattening never changes a method: `merge_chains_step`) -/
theorem flow_layers_flat {X C : Type} (ls : List (Bij X C ℝ × Bij X C ℝ)) :
    (Chain.mk (ls.map fun l => Flows.mergeChains (Flows.chainOf [l.1, l.2]))).toBij.Equiv
      (Chain.mk (ls.flatMap fun l => [l.1, l.2])).toBij := FlowsPf.chain_of_pairs_flat ls

/-- the three branches of the generated `_add_default_permute`: nothing for `dim = 1`, `Flip` for `dim = 2`, otherwise a
`Permute` with the key's permutation — as chains -/
theorem add_default_permute_branches (b : VBij ℝ) (key : List ℕ) :
    add_default_permute b 1 key = b ∧
    add_default_permute b 2 key = (Chain.mk [b, Flows.flipOf 2]).toBij ∧
    (∀ d, d ≠ 1 → d ≠ 2 → key.Perm (List.range d) →
      add_default_permute b d key = (Chain.mk [b, Flows.permuteOf key]).toBij) :=
  ⟨FlowsPf.add_default_permute_one b key, FlowsPf.add_default_permute_two b key,
   fun d h1 h2 hk => by rw [FlowsPf.add_default_permute_other b h1 h2, FlowsPf.jrPermutation_arange hk]⟩

/-- non-vacuity: the 2-layer coupling flow of `C01.coupling_flow_instance` is the chain of its two (different) layers -/
theorem coupling_flow_chain_instance :
    couplingFlowBij defaultTransformer 3 couplingKeys 2 false
      = (Chain.mk [coupling_flow.make_layer defaultTransformer 3 (couplingKeys 0),
                   coupling_flow.make_layer defaultTransformer 3 (couplingKeys 1)]).toBij :=
  (coupling_flow_eq_chain defaultTransformer 3 couplingKeys 2).1

end PremadeFlows

/-! ## Scan and Vmap, REGENERATED (`Gen/JaxTransforms.lean`, translated from `jax_transforms.py` on every run by
`tools/py2lean/py2meth.py`, sheet `targets_jaxtr.py`; the meanings of `lax.scan`, `eqx.partition` / `combine`, `eqx.filter_vmap`
are the hand-written `Model/JaxTrWorld.lean` — trusted, compared with the real objects by `tools/props/c08.py`) -/
section JaxTransformsGen
open GenJaxTr

/-- **the generated `_filter_scan`** (`eqx.partition(xs, eqx.is_array)`, `_scan_fn` = `f` on `eqx.combine(x, static)`,
`scan(_scan_fn, init, params, reverse=reverse)`): the final carry is the left fold of `f` over the unstacked layers — over the
REVERSED list exactly when `reverse` — and one `ys` entry per layer is returned; every carry type, layer type, `f`, length. -/
theorem gen_filter_scan_carry {γ β υ : Type} (f : γ → β → γ × υ) (init : γ) (xs : JaxTr.Stacked β) (r : Bool) :
    (filterScan f init xs r).1 = (if r then xs.layers.reverse else xs.layers).foldl (fun c b => (f c b).1) init
    ∧ (filterScan f init xs r).2.length = xs.layers.length :=
  ⟨JaxTrProofs.filterScan_fst f init xs r, JaxTrProofs.filterScan_snd_length f init xs r⟩

/-- **`gen_scan_eq_chain`** — the four GENERATED `Scan` methods (nested `step` closures with the captured `condition`, carries
`(x, 0)` / `(y, log_det + log_det_i.sum())`, `_filter_scan(step, init, self.bijection[, reverse=True])`) are the four GENERATED
`Chain` methods of the unstacked layers: `transform` applies the layers first to last, `inverse` last to first, the two
`…_and_log_det` methods return those points and the sum of the layers' log-dets — every number of layers, heterogeneous layer
behaviour, every input and condition, every log-det scalar type. -/
theorem gen_scan_eq_chain {X C α : Type} [Add α] [Neg α] [OfNat α 0] (s : JaxTr.Scan X C α) :
    (∀ x c, Scan.transform s x c = (Chain.mk s.bijection.layers).transform x c)
    ∧ (∀ y c, Scan.inverse s y c = (Chain.mk s.bijection.layers).inverse y c)
    ∧ (∀ x c, Scan.transform_and_log_det s x c = (Chain.mk s.bijection.layers).transform_and_log_det x c)
    ∧ (∀ y c, Scan.inverse_and_log_det s y c = (Chain.mk s.bijection.layers).inverse_and_log_det y c)
    ∧ s.toBij = (Chain.mk s.bijection.layers).toBij :=
  ⟨JaxTrProofs.scan_transform_eq s, JaxTrProofs.scan_inverse_eq s, JaxTrProofs.scan_tld_eq s, JaxTrProofs.scan_ild_eq s,
   JaxTrProofs.scan_toBij_eq_chain s⟩

/-- the `Scan` the generated premade-flow factories call (`Flows.scanOf` of `Model/FlowsPre.lean`) IS the GENERATED `Scan` of the
stacked layers (by definition, since this round: every flow theorem of C01 / C03 / C08 and the `flow` correspondences now go
through the regenerated methods), and the HAND model `ArrComb.scan` of `Model/ArrExt.lean` (defined as the generated `Chain` of
the unstacked layers: `scan_eq_chain`) equals it. -/
theorem gen_scan_eq_hand {X C κ : Type} (layers : List (Bij X C ℝ)) (alayers : List (Bij (Arr κ) C ℝ)) :
    Flows.scanOf layers = (JaxTr.scanOfLayers layers).toBij ∧ ArrComb.scan alayers = (JaxTr.scanOfLayers alayers).toBij :=
  ⟨rfl, (JaxTrProofs.scan_toBij_eq_chain (JaxTr.scanOfLayers alayers)).symm⟩

/-- the premade-flow statement on the regenerated `Scan`: `Scan(filter_vmap(make_layer)(split(key, n)))` with the generated
`Scan` methods is the generated `Chain` of `[make_layer(key 0), …, make_layer(key (n−1))]` -/
theorem gen_scan_eq_chain_of_unstacked {X C κ : Type} (makeLayer : κ → Bij X C ℝ) (key : ℕ → κ) (n : ℕ) :
    (JaxTr.scanOfLayers (Flows.filterVmap makeLayer (Flows.jrSplitN key n))).toBij
      = (Chain.mk ((List.range n).map fun i => makeLayer (key i))).toBij := by
  rw [JaxTrProofs.scan_toBij_eq_chain]; simp [JaxTr.scanOfLayers, Flows.filterVmap, Flows.jrSplitN, Function.comp_def]

/-- generated `Scan` of typed-composable lawful layers is lawful (any number of layers) -/
theorem gen_scan_lawful {X C : Type} {s : JaxTr.Scan X C ℝ} {D E : Set X} (h : ChainLawful s.bijection.layers D E) :
    s.toBij.Lawful D E := JaxTrProofs.scan_lawful h

/-- the generated `shape` / `cond_shape` properties of `Scan` are the stacked bijection's -/
theorem gen_scan_shape {X C : Type} (s : JaxTr.Scan X C ℝ) :
    Scan.shape s = s.bijection.shape ∧ Scan.cond_shape s = s.bijection.cond_shape := ⟨rfl, rfl⟩

/-- non-vacuity, and the ORDER made visible: for the stacked layers `x ↦ x + 1`, `x ↦ 2·x` the generated `Scan` maps `0 ↦ 2`
with log-det `0 + log 2`-slot sum `10 + 20`, and its inverse maps `2 ↦ 0` (halve first, then subtract: the scan runs in
reverse; the forward order would give `1/2`). -/
theorem gen_scan_instance :
    let l1 : Bij ℝ Unit ℝ := ⟨fun x _ => x + 1, fun y _ => y - 1, fun x _ => (x + 1, 10), fun y _ => (y - 1, -10)⟩
    let l2 : Bij ℝ Unit ℝ := ⟨fun x _ => 2 * x, fun y _ => y / 2, fun x _ => (2 * x, 20), fun y _ => (y / 2, -20)⟩
    let s := JaxTr.scanOfLayers [l1, l2]
    s.toBij.fwd 0 () = 2 ∧ s.toBij.inv 2 () = 0 ∧ s.toBij.fwdLd 0 () = (2, 30) ∧ s.toBij.invLd 2 () = (0, -30)
      ∧ s.toBij.Lawful univ univ := by
  intro l1 l2 s
  have hl : s.toBij.Lawful univ univ := by
    refine gen_scan_lawful (.cons (M := univ) ⟨fun _ _ _ => trivial, fun _ _ _ => trivial, ?_, ?_, fun _ _ => rfl, fun _ _ => rfl⟩
      (.cons (M := univ) ⟨fun _ _ _ => trivial, fun _ _ _ => trivial, ?_, ?_, fun _ _ => rfl, fun _ _ => rfl⟩ (.nil _)))
    · intro x _ _; simp [l1]
    · intro x _ _; simp [l1]
    · intro x _ _; simp [l2]
    · intro x _ _; simp [l2]; ring
  refine ⟨?_, ?_, ?_, ?_, hl⟩
  · simp [s, JaxTr.Scan.toBij, JaxTrProofs.scan_transform_eq, JaxTr.scanOfLayers, Chain.transform, l1, l2]
  · simp [s, JaxTr.Scan.toBij, JaxTrProofs.scan_inverse_eq, JaxTr.scanOfLayers, Chain.inverse, l1, l2]
  · simp [s, JaxTr.Scan.toBij, JaxTrProofs.scan_tld_eq, JaxTr.scanOfLayers, Chain.transform_and_log_det, l1, l2, Jnp.sumElem]
    norm_num
  · simp [s, JaxTr.Scan.toBij, JaxTrProofs.scan_ild_eq, JaxTr.scanOfLayers, Chain.inverse_and_log_det, l1, l2, Jnp.sumElem]
    norm_num

/-- **`gen_vmap_slicewise` (code's own terms)** — for EVERY `in_axes` (mapped leaves or `None`), every `in_axes_condition` (any
axis or `None`), every axis size, child behaviour, input: the four GENERATED `Vmap` methods (nested `_transform…` closures,
`self.vmap(f)(self.bijection, x, condition)`, `Vmap.vmap` = `eqx.filter_vmap(f, in_axes=self.in_axes, axis_size=self.axis_size)`)
return `jnp.stack(·, 0)` of the child method applied to (slice `i` of the bijection or the shared bijection, slice `i` of the input
along axis 0, slice `i` of the condition along its axis or the shared condition), and the log-det is `jnp.sum` of the per-call ones. -/
theorem gen_vmap_slicewise {κ : Type} [Inhabited κ] (v : JaxTr.Vmap κ ℝ) (x c : Arr κ) :
    let bs := JaxTr.mapModule v.in_axes.1 v.bijection v.axis_size
    let xs := JaxTr.unstack x v.axis_size ((v.in_axes.2.1 : Nat) : Int)
    let cds := JaxTr.mapArg v.in_axes.2.2 c v.axis_size
    Vmap.transform v x c = ArrJnp.stack (JaxTr.zipWith3 (fun b xi ci => b.fwd xi ci) bs xs cds) 0
    ∧ Vmap.inverse v x c = ArrJnp.stack (JaxTr.zipWith3 (fun b xi ci => b.inv xi ci) bs xs cds) 0
    ∧ Vmap.transform_and_log_det v x c
        = (ArrJnp.stack (JaxTr.zipWith3 (fun b xi ci => (b.fwdLd xi ci).1) bs xs cds) 0,
           JaxTr.jnpSum (JaxTr.zipWith3 (fun b xi ci => (b.fwdLd xi ci).2) bs xs cds))
    ∧ Vmap.inverse_and_log_det v x c
        = (ArrJnp.stack (JaxTr.zipWith3 (fun b xi ci => (b.invLd xi ci).1) bs xs cds) 0,
           JaxTr.jnpSum (JaxTr.zipWith3 (fun b xi ci => (b.invLd xi ci).2) bs xs cds)) :=
  JaxTrProofs.vmap_slicewise v x c

/-- **`gen_vmap_eq_model`** — generated `Vmap` = the existing HAND model `ArrComb.vmap` (= `Stack` along a new leading axis,
`vmap_eq_stack`) of the per-call bijections `JaxTrProofs.callBijs v c` (slice `i` of a mapped bijection or the shared one, with
slice `i` of a mapped condition or the shared one), all four methods, on arrays of the declared shape; shared vs mapped parameters
and shared vs mapped condition alike.  Hypotheses = what `Vmap.__init__` / JAX enforce: `x` is mapped along axis 0 (the literal in
`self.in_axes`), the mapped axes have length `axis_size > 0`, children return arrays of the child shape. -/
theorem gen_vmap_eq_model {κ : Type} [Inhabited κ] (v : JaxTr.Vmap κ ℝ) (cs : List Nat) (c : Arr κ) (hx0 : v.in_axes.2.1 = 0)
    (hn : (JaxTrProofs.calls v c).length = v.axis_size) (hpos : 0 < v.axis_size)
    (hsh : ArrGen.StackShaped cs (JaxTrProofs.callBijs v c)) {x : Arr κ} (hx : x ∈ WS (v.axis_size :: cs)) :
    Vmap.transform v x c = (ArrComb.vmap cs (JaxTrProofs.callBijs v c)).fwd x c
    ∧ Vmap.inverse v x c = (ArrComb.vmap cs (JaxTrProofs.callBijs v c)).inv x c
    ∧ Vmap.transform_and_log_det v x c = (ArrComb.vmap cs (JaxTrProofs.callBijs v c)).fwdLd x c
    ∧ Vmap.inverse_and_log_det v x c = (ArrComb.vmap cs (JaxTrProofs.callBijs v c)).invLd x c :=
  JaxTrProofs.vmap_eq_model v cs c hx0 hn hpos hsh hx

/-- hence the hand statement `vmap_slicewise` holds of the generated methods: chunk `i` (the `i`-th run of `∏ cshape` entries) of
the generated `Vmap.transform` / `inverse` output is per-call bijection `i` on chunk `i` of the input -/
theorem gen_vmap_chunks {κ : Type} [Inhabited κ] (v : JaxTr.Vmap κ ℝ) (cs : List Nat) (c : Arr κ) (hx0 : v.in_axes.2.1 = 0)
    (hn : (JaxTrProofs.calls v c).length = v.axis_size) (hpos : 0 < v.axis_size)
    (hb : ∀ b ∈ JaxTr.mapModule v.in_axes.1 v.bijection v.axis_size, b.toBij.Lawful (WS cs) (WS cs))
    {x : Arr κ} (hx : x ∈ WS (v.axis_size :: cs)) :
    chunks (Arr.prod cs) v.axis_size (Vmap.transform v x c).data
        = List.zipWith (fun b sl => (b.fwd ⟨cs, sl⟩ c).data) (JaxTrProofs.callBijs v c) (chunks (Arr.prod cs) v.axis_size x.data)
    ∧ chunks (Arr.prod cs) v.axis_size (Vmap.inverse v x c).data
        = List.zipWith (fun b sl => (b.inv ⟨cs, sl⟩ c).data) (JaxTrProofs.callBijs v c) (chunks (Arr.prod cs) v.axis_size x.data) := by
  have hbl := JaxTrProofs.callBijs_lawful c hb
  have hl : (JaxTrProofs.callBijs v c).length = v.axis_size := by simp [JaxTrProofs.callBijs, hn]
  have e := JaxTrProofs.vmap_eq_model v cs c hx0 hn hpos (ArrGen.stackShaped_of_lawful hbl) hx
  have h := ArrComb.vmap_slicewise cs hbl (x := x) (by rw [hl]; exact hx) c
  rw [hl] at h
  rw [e.1, e.2.1]; exact h

/-- **round trips of the generated `Vmap` at any condition** (mapped along any axis that exists, or shared) -/
theorem gen_vmap_roundtrip {κ : Type} [Inhabited κ] (v : JaxTr.Vmap κ ℝ) (cs : List Nat) (c : Arr κ) (hx0 : v.in_axes.2.1 = 0)
    (hn : (JaxTrProofs.calls v c).length = v.axis_size) (hpos : 0 < v.axis_size)
    (hb : ∀ b ∈ JaxTr.mapModule v.in_axes.1 v.bijection v.axis_size, b.toBij.Lawful (WS cs) (WS cs))
    {x : Arr κ} (hx : x ∈ WS (v.axis_size :: cs)) :
    Vmap.transform v x c ∈ WS (v.axis_size :: cs) ∧ Vmap.inverse v x c ∈ WS (v.axis_size :: cs)
    ∧ Vmap.inverse v (Vmap.transform v x c) c = x ∧ Vmap.transform v (Vmap.inverse v x c) c = x
    ∧ (Vmap.transform_and_log_det v x c).1 = Vmap.transform v x c
    ∧ (Vmap.inverse_and_log_det v x c).1 = Vmap.inverse v x c :=
  JaxTrProofs.vmap_roundtrip v cs c hx0 hn hpos hb hx

/-- **the generated `Vmap` with a broadcast condition is lawful** on the declared shape `axis_size :: cshape`, mapped or broadcast
parameters, whenever the per-call bijections are lawful on `cshape` -/
theorem gen_vmap_lawful {κ : Type} [Inhabited κ] (v : JaxTr.Vmap κ ℝ) (cs : List Nat) (hx0 : v.in_axes.2.1 = 0)
    (hc : v.in_axes.2.2 = none)
    (hm : (JaxTr.mapModule v.in_axes.1 v.bijection v.axis_size).length = v.axis_size) (hpos : 0 < v.axis_size)
    (hb : ∀ b ∈ JaxTr.mapModule v.in_axes.1 v.bijection v.axis_size, b.toBij.Lawful (WS cs) (WS cs)) :
    v.toBij.Lawful (WS (v.axis_size :: cs)) (WS (v.axis_size :: cs)) :=
  JaxTrProofs.vmap_lawful v cs hx0 hc hm hpos hb

/-- the generated `Vmap.shape` is `(axis_size, *bijection.shape)` -/
theorem gen_vmap_shape {κ : Type} (v : JaxTr.Vmap κ ℝ) : Vmap.shape v = v.axis_size :: v.bijection.whole.shape := rfl

/-- non-vacuity: `Vmap(Affine(loc=(1,), scale=(−2,)), axis_size=2)` (broadcast parameters) and the same bijection with mapped
parameters (`in_axes` given, two slices) are lawful on arrays of shape `(2, 1)` -/
theorem gen_vmap_instance :
    let child (l s : ℝ) : SBij (Arr ℝ) (Arr ℝ) ℝ :=
      SBij.ofBij (ArrComb.elementwise [((Affine.mk l s : Affine ℝ).toBij : Bij ℝ (Arr ℝ) ℝ)]) [1] none
    let shared : JaxTr.Vmap ℝ ℝ := ⟨⟨child 1 (-2), []⟩, (none, 0, none), 2, none⟩
    let mapped : JaxTr.Vmap ℝ ℝ := ⟨⟨child 0 1, [child 1 (-2), child 3 (1/2)]⟩, (some ⟨⟩, 0, none), 2, none⟩
    shared.toBij.Lawful (WS [2, 1]) (WS [2, 1]) ∧ mapped.toBij.Lawful (WS [2, 1]) (WS [2, 1]) := by
  intro child shared mapped
  have hch : ∀ l s : ℝ, s ≠ 0 → (child l s).toBij.Lawful (WS [1]) (WS [1]) := by
    intro l s hs
    exact ArrComb.elementwise_lawful (shape := [1]) (by intro b hb; simp at hb; subst hb; exact Leaves.affine_lawful _ hs) (by simp [Arr.prod])
  constructor
  · refine gen_vmap_lawful shared [1] rfl rfl (by simp [shared, JaxTr.mapModule]) (by simp [shared]) ?_
    intro b hb
    simp only [shared, JaxTr.mapModule, List.mem_replicate] at hb
    rw [hb.2]; exact hch 1 (-2) (by norm_num)
  · refine gen_vmap_lawful mapped [1] rfl rfl (by simp [mapped, JaxTr.mapModule]) (by simp [mapped]) ?_
    intro b hb
    simp only [mapped, JaxTr.mapModule, List.mem_cons, List.not_mem_nil, or_false] at hb
    rcases hb with rfl | rfl
    · exact hch 1 (-2) (by norm_num)
    · exact hch 3 (1/2) (by norm_num)

end JaxTransformsGen



/-! ## `Chain.__getitem__ / __len__ / __iter__ / merge_chains`, REGENERATED (`Gen/MergeGen.lean`, translated from `chain.py` on every
run by `tools/py2lean/py2meth.py`, sheet `targets_merge.py`; objects and Python constructs: `Model/MergeWorld.lean`; proofs:
`Proofs/MergeGen.lean`) -/
section MergeGen
open Mw GenMerge MergeGen

/-- **the generated `merge_chains`, exactly** (every nesting depth): the regenerated `Chain.__init__` applied to the FULL
flattening of the members, left to right — the `while any(isinstance(b, Chain) …)` loop never runs out of fuel, and the only
exception possible is the constructor's -/
theorem gen_merge_chains_eq {X C α : Type} (c : ChainObj X C α) :
    Chain.mergeChains c = Mw.mkChain (B.flatL c.bijections) := MergeGen.mergeChains_eq c

/-- **generated `merge_chains` never changes the bijection** (`merge_chains_step` lifted to every depth): whenever it returns, the
members are the full flattening, none of them is a `Chain`, and `transform`, `inverse`, `transform_and_log_det`,
`inverse_and_log_det` — through the generated `Chain` — are those of the original nested chain -/
theorem gen_merge_chains_sem {X C : Type} (c c' : ChainObj X C ℝ) (h : Chain.mergeChains c = .ok c') :
    c'.bijections = B.flatL c.bijections ∧ c'.bijections.any B.isChain = false ∧ c'.toB.toBij = c.toB.toBij :=
  MergeGen.mergeChains_sem c c' h

/-- a (nested) bijection object computes the generated `Chain` of its leaves, left to right -/
theorem gen_flatten_sem {X C : Type} (l : List (B X C ℝ)) :
    (Chain.mk ((B.flatL l).map B.toBij)).toBij = (Chain.mk (l.map B.toBij)).toBij := MergeGen.flatL_eq l

/-- **generated `Chain.__getitem__` on an int**: the member itself, `0 ≤ i < n` from the front, `−n ≤ i < 0` from the end,
IndexError otherwise; anything that is neither an int nor a slice is a TypeError -/
theorem gen_chain_getitem_int {X C α : Type} (c : ChainObj X C α) :
    (∀ i : Nat, ∀ h : i < c.bijections.length, Chain.getitem c (.int i) = .ok c.bijections[i]) ∧
    (∀ k : Nat, ∀ h0 : 0 < k, ∀ h : k ≤ c.bijections.length,
        Chain.getitem c (.int (-(k : Int))) = .ok (c.bijections[c.bijections.length - k]'(by omega))) ∧
    (∀ i : Int, i < -(c.bijections.length : Int) ∨ (c.bijections.length : Int) ≤ i →
        Chain.getitem c (.int i) = .error (.py .indexError)) ∧
    Chain.getitem c .other = .error (.py .typeError) :=
  ⟨fun i h => MergeGen.idxI_nonneg _ i h, fun k h0 h => MergeGen.idxI_neg _ k h0 h, fun i h => MergeGen.idxI_out _ i h, rfl⟩

/-- **generated `Chain.__getitem__` on a slice** `a:b` (either bound optional, negative bounds from the end, out-of-range bounds
clamped; step `None` or `1`): `Chain(self.bijections[a:b])` through the regenerated constructor; whenever it returns, the result
is the chain of exactly the Python-sliced members and computes `chain_getitem_sem`'s `getSlice` of the generated `Chain` -/
theorem gen_chain_getitem_sem {X C : Type} (c : ChainObj X C ℝ) (a b k : Option Int) (hk : k = none ∨ k = some 1) :
    Chain.getitem c (.slice ⟨a, b, k⟩)
      = (Mw.mkChain ((c.bijections.take (sliceHi c.bijections.length b)).drop (sliceLo c.bijections.length a))).bind
          (fun c' => .ok c'.toB) ∧
    ∀ r, Chain.getitem c (.slice ⟨a, b, k⟩) = .ok r →
      (∃ s cs, r = .chain ((c.bijections.take (sliceHi c.bijections.length b)).drop (sliceLo c.bijections.length a)) s cs) ∧
      r.toBij = ((Chain.mk (c.bijections.map B.toBij)).getSlice (sliceLo c.bijections.length a)
                  (sliceHi c.bijections.length b)).toBij := by
  refine ⟨?_, fun r h => MergeGen.getitem_slice_sem c a b k hk r h⟩
  rw [MergeGen.getitem_slice, MergeGen.sliceGet_step1 _ _ _ _ hk]; rfl

/-- a slice with step `0` is a ValueError (as `tuple[::0]`) -/
theorem gen_chain_getitem_step0 {X C α : Type} (c : ChainObj X C α) (a b : Option Int) :
    Chain.getitem c (.slice ⟨a, b, some 0⟩) = .error (.py .valueError) := rfl

/-- generated `__len__` / `__iter__`: the number of members / the members in order -/
theorem gen_chain_len_iter {X C α : Type} (c : ChainObj X C α) :
    Chain.len c = c.bijections.length ∧ Chain.iter c = c.bijections := ⟨rfl, rfl⟩

/-- non-vacuity by kernel evaluation at ℤ (non-commuting `x+3`, `−x`, `2x`, `x+1`): `merge_chains` of
`Chain([x+3, Chain([−x, Chain([2x])])])` has 3 members, none a chain, and the same `transform(5) = −16` / `inverse(5) = −5`;
on the flat chain of the four, `c[0]`, `c[-1]`, `c[-4]` are the members, `c[4]`, `c[-5]` IndexErrors, `c[1:3]` and `c[-3:-1]` the
chain `[−x, 2x]`, `c[::-1]` the reversed chain, `c[2:1]` the constructor's IndexError on an empty tuple, `c["a"]` a TypeError -/
theorem gen_chain_instance :
    Inst.chainSummary Inst.nestedChain = some (3, false, -16, -5) ∧
    (Inst.nestedChain.toB.toBij.fwd 5 (), Inst.nestedChain.toB.toBij.inv 5 ()) = (-16, -5) ∧
    Inst.getSummary Inst.flat4 (.int 0) = .ok (0, 8) ∧ Inst.getSummary Inst.flat4 (.int (-1)) = .ok (0, 6) ∧
    Inst.getSummary Inst.flat4 (.int (-4)) = .ok (0, 8) ∧
    Inst.getSummary Inst.flat4 (.int 4) = .error (.py .indexError) ∧
    Inst.getSummary Inst.flat4 (.int (-5)) = .error (.py .indexError) ∧
    Inst.getSummary Inst.flat4 (.slice ⟨some 1, some 3, none⟩) = .ok (2, -10) ∧
    Inst.getSummary Inst.flat4 (.slice ⟨some (-3), some (-1), none⟩) = .ok (2, -10) ∧
    Inst.getSummary Inst.flat4 (.slice ⟨none, none, some (-1)⟩) = .ok (4, -9) ∧
    Inst.getSummary Inst.flat4 (.slice ⟨some 2, some 1, none⟩) = .error (.py .indexError) ∧
    Inst.getSummary Inst.flat4 .other = .error (.py .typeError) :=
  ⟨by decide, by decide, by decide, by decide, by decide, by decide, by decide, by decide, by decide, by decide, by decide, by decide⟩

/-- `Chain(bs)` through the regenerated constructor returns `c` iff: at least one member, every member declares `c.shape`, and
`merge_cond_shapes` of the members' condition shapes is `c.cond_shape` (C13's `chainCtor`) -/
theorem gen_chain_ctor_ok_iff {X C α : Type} (bs : List (B X C α)) (c : ChainObj X C α) :
    Mw.mkChain bs = .ok c ↔
      c.bijections = bs ∧ (∃ rest, bs.map B.shape = c.shape :: rest ∧ ∀ t ∈ bs.map B.shape, t = c.shape) ∧
      ArgCheck.mergeCondShapes (bs.map B.cond_shape) = .ok c.cond_shape := MergeGen.mkChain_ok_iff bs c

/-- **when the generated `merge_chains` returns**: iff the full flattening is non-empty, its members declare one shape and
compatible condition shapes -/
theorem gen_merge_chains_accepts_iff {X C α : Type} (c : ChainObj X C α) :
    (∃ c', Chain.mergeChains c = .ok c') ↔
      (∃ s rest, (B.flatL c.bijections).map B.shape = s :: rest ∧ ∀ t ∈ (B.flatL c.bijections).map B.shape, t = s) ∧
      ArgCheck.CondCompatible ((B.flatL c.bijections).map B.cond_shape) := MergeGen.mergeChains_accepts_iff c

/-- **`merge_chains` of every chain built by the constructors returns** (every nesting depth: each inner `Chain` carries the
fields the regenerated `Chain.__init__` computes from its members), and the flat chain declares the same `shape` and
`cond_shape` — `merge_cond_shapes` is associative under flattening -/
theorem gen_merge_chains_returns {X C α : Type} (c : ChainObj X C α) (h : MergeGen.WF c.toB) :
    ∃ c', Chain.mergeChains c = .ok c' ∧ c'.shape = c.shape ∧ c'.cond_shape = c.cond_shape := MergeGen.mergeChains_wf c h

/-- the constructor's results are well-formed, so `merge_chains` can be applied to anything `Chain(...)` returned on
well-formed members (non-vacuity of `WF`: `C03.gen_merge_transforms_returns_instance`) -/
theorem gen_chain_ctor_wf {X C α : Type} {bs : List (B X C α)} {c : ChainObj X C α} (h : Mw.mkChain bs = .ok c)
    (hbs : MergeGen.WFL bs) : MergeGen.WF c.toB := MergeGen.WF_of_mkChain h hbs

end MergeGen


section Audit
/-! ## Audit (g27): non-vacuity instances for hypothesis sets that had none, and totalisation made visible -/
open GenJaxTr

/-- lawful elementwise affine child of a given shape -/
theorem audit_aff_lawful (l s : ℝ) (hs : s ≠ 0) (shape : List Nat) (n : Nat) (hn : n = Arr.prod shape) :
    (elementwise (List.replicate n ((Affine.mk l s : Affine ℝ).toBij : Bij ℝ Unit ℝ))).Lawful (WS shape) (WS shape) :=
  ArrComb.elementwise_lawful (shape := shape)
    (fun b hb => by rw [List.eq_of_mem_replicate hb]; exact Leaves.affine_lawful _ hs) (by simp [hn])

-- D2 case: Stack([b(2,3), b(2,3)], axis=-1)
theorem gen_stack_ctor_audit_instance :
    let kids : List (SBij (Arr ℝ) Unit ℝ) :=
      [SBij.ofBij (elementwise (List.replicate 6 ((Affine.mk 1 2 : Affine ℝ).toBij : Bij ℝ Unit ℝ))) [2, 3] none,
       SBij.ofBij (elementwise (List.replicate 6 ((Affine.mk (-1) (-3) : Affine ℝ).toBij : Bij ℝ Unit ℝ))) [2, 3] none]
    (Stack.init kids (-1)).shape = [2, 3, 2] ∧ (Stack.init kids (-1)).toBij.Lawful (WS [2, 3, 2]) (WS [2, 3, 2]) := by
  intro kids
  have h := gen_stack_ctor_lawful kids (-1) [2, 3, 2] none (by decide) (by
    intro b hb
    simp only [kids, List.mem_cons, List.not_mem_nil, or_false] at hb
    rcases hb with rfl | rfl
    · exact audit_aff_lawful 1 2 (by norm_num) [2, 3] 6 (by decide)
    · exact audit_aff_lawful (-1) (-3) (by norm_num) [2, 3] 6 (by decide))
  exact ⟨h.1, h.2.2.2.2⟩


/-- Reshape((2,3)-bijection, shape=(3,2)) -/
theorem gen_reshape_ctor_audit_instance :
    let b : SBij (Arr ℝ) (Arr ℝ) ℝ :=
      SBij.ofBij (elementwise (List.replicate 6 ((Affine.mk 1 2 : Affine ℝ).toBij : Bij ℝ (Arr ℝ) ℝ))) [2, 3] none
    (Reshape.init b (some [3, 2]) none).shape = [3, 2]
    ∧ (Reshape.init b (some [3, 2]) none).toBij.Lawful (WS [3, 2]) (WS [3, 2]) := by
  intro b
  have h := gen_reshape_ctor_lawful b (some [3, 2]) none [3, 2] none (by decide)
    (ArrComb.elementwise_lawful (shape := [2, 3])
      (fun b hb => by rw [List.eq_of_mem_replicate hb]; exact Leaves.affine_lawful _ (by norm_num)) (by decide))
  exact ⟨h.1, h.2.2.2.2⟩

/-- generated Partial: shape (2,3), idxs = column 1 (`[:, 1]`: sub-shape (2,), flat positions 1, 4) -/
theorem gen_partial_audit_instance :
    let g : Partial ℝ Unit ℝ :=
      ⟨SBij.ofBij (elementwise (List.replicate 2 ((Affine.mk 1 2 : Affine ℝ).toBij : Bij ℝ Unit ℝ))) [2] none, ⟨[2], [1, 4]⟩, [2, 3]⟩
    g.toBij.Lawful (WS [2, 3]) (WS [2, 3])
    ∧ ∀ x ∈ WS [2, 3], getIdx (g.transform x ()) g.idxs = g.bijection.fwd (getIdx x g.idxs) () := by
  intro g
  have hb : g.bijection.toBij.Lawful (WS g.idxs.sub) (WS g.idxs.sub) := audit_aff_lawful 1 2 (by norm_num) [2] 2 (by decide)
  exact ⟨gen_partial_lawful g hb (by decide) (by decide) (by decide),
    fun x hx => (gen_partial_indexed g hb (by decide) (by decide) (by decide) hx ()).1⟩

/-- chain_lawful / ChainLawful with two different non-identity leaves and a domain change: exp : ℝ → (0,∞), then ×2 on (0,∞) -/
theorem chain_lawful_audit_instance :
    (Chain.mk [((Affine.mk 1 2 : Affine ℝ).toBij : Bij ℝ Unit ℝ), ((Affine.mk 0 (-3) : Affine ℝ).toBij : Bij ℝ Unit ℝ)]).toBij.Lawful univ univ :=
  chain_lawful (.cons (Leaves.affine_lawful _ (by norm_num)) (.cons (Leaves.affine_lawful _ (by norm_num)) (.nil _)))

/-- a conditional scalar leaf: shift by the first entry of the condition, scale 2 -/
noncomputable def auditCondLeaf : Bij ℝ (Arr ℝ) ℝ :=
  ⟨fun x c => 2 * x + c.data.headD 0, fun y c => (y - c.data.headD 0) / 2,
   fun x c => (2 * x + c.data.headD 0, 7), fun y c => ((y - c.data.headD 0) / 2, -7)⟩

theorem auditCondLeaf_lawful : auditCondLeaf.Lawful univ univ :=
  ⟨fun _ _ _ => trivial, fun _ _ _ => trivial, fun x _ c => by simp [auditCondLeaf],
   fun y _ c => by simp [auditCondLeaf]; ring, fun _ _ => rfl, fun _ _ => rfl⟩

/-- Vmap with the CONDITION MAPPED along axis −1 -/
theorem gen_vmap_mapped_cond_audit_instance :
    let child : SBij (Arr ℝ) (Arr ℝ) ℝ := SBij.ofBij (ArrComb.elementwise [auditCondLeaf]) [1] (some [1])
    let v : JaxTr.Vmap ℝ ℝ := ⟨⟨child, []⟩, (none, 0, some (-1)), 2, some [1, 2]⟩
    let c : Arr ℝ := ⟨[1, 2], [10, 20]⟩
    let x : Arr ℝ := ⟨[2, 1], [1, 2]⟩
    Vmap.inverse v (Vmap.transform v x c) c = x := by
  intro child v c x
  have hb : ∀ b ∈ JaxTr.mapModule v.in_axes.1 v.bijection v.axis_size, b.toBij.Lawful (WS [1]) (WS [1]) := by
    intro b hb
    simp only [v, JaxTr.mapModule, List.mem_replicate] at hb
    rw [hb.2]
    exact ArrComb.elementwise_lawful (shape := [1]) (by intro b hb; simp at hb; subst hb; exact auditCondLeaf_lawful) (by simp [Arr.prod])
  have hx : x ∈ WS (v.axis_size :: [1]) := by constructor <;> rfl
  have h := gen_vmap_roundtrip v [1] c rfl rfl (by decide) hb hx
  exact h.2.2.1

/-- evaluated over ℕ: slice `i` of x is paired with slice `i` of the condition taken along axis −1 (x = [[1],[2]], condition = [[10,20]]) -/
theorem gen_vmap_mapped_cond_eval_audit_instance :
    let leaf : Bij Nat (Arr Nat) Nat := ⟨fun x c => 2 * x + c.data.headD 0, fun y c => (y - c.data.headD 0) / 2,
        fun x c => (2 * x + c.data.headD 0, 7), fun y c => ((y - c.data.headD 0) / 2, 3)⟩
    let child : SBij (Arr Nat) (Arr Nat) Nat := SBij.ofBij (ArrComb.elementwise [leaf]) [1] (some [1])
    let v : JaxTr.Vmap Nat Nat := ⟨⟨child, []⟩, (none, 0, some (-1)), 2, some [1, 2]⟩
    (Vmap.transform v ⟨[2, 1], [1, 2]⟩ ⟨[1, 2], [10, 20]⟩).data = [12, 24]
    ∧ (Vmap.transform v ⟨[2, 1], [1, 2]⟩ ⟨[1, 2], [10, 20]⟩).shape = [2, 1]
    ∧ (Vmap.inverse_and_log_det v ⟨[2, 1], [12, 24]⟩ ⟨[1, 2], [10, 20]⟩).1.data = [1, 2]
    ∧ (Vmap.inverse_and_log_det v ⟨[2, 1], [12, 24]⟩ ⟨[1, 2], [10, 20]⟩).2 = 6 := by decide

/-- totalisation made visible -/
theorem totalisation_audit_instance :
    let sh (k : Nat) : Bij Nat Unit Nat := ⟨fun x _ => x + k, fun y _ => y - k, fun x _ => (x + k, 0), fun y _ => (y - k, 0)⟩
    -- duplicate positions: accepted by the model (and by the real constructor); last write wins
    ((partialB [4] [2] [1, 1] (elementwise [sh 10, sh 20])).fwd ⟨[4], [1, 2, 3, 4]⟩ ()).data = [1, 22, 3, 4]
    -- out-of-range position: the model reads `default` and drops the write
    ∧ ((partialB [4] [2] [1, 7] (elementwise [sh 10, sh 20])).fwd ⟨[4], [1, 2, 3, 4]⟩ ()).data = [1, 12, 3, 4]
    -- a wrong-shaped input still comes back with the declared shape
    ∧ ((concatenate ⟨[2, 3], 1, [1, 2]⟩ [elementwise (List.replicate 2 (sh 10)), elementwise (List.replicate 4 (sh 20))]).fwd
        ⟨[5], [1, 2, 3, 4, 5]⟩ ()).shape = [2, 3]
    ∧ ((concatenate ⟨[2, 3], 1, [1, 2]⟩ [elementwise (List.replicate 2 (sh 10)), elementwise (List.replicate 4 (sh 20))]).fwd
        ⟨[5], [1, 2, 3, 4, 5]⟩ ()).data = [11, 22, 23, 14, 25]
    -- `c[3:]` of a 3-chain is the empty chain in the model (the real `Chain(())` raises IndexError)
    ∧ ((Chain.mk [sh 1, sh 2, sh 3]).getSlice 3 3).len = 0 := by decide

end Audit

end C08
