import Flowjaxv.Proofs.BisectionGen
/-!
# C10 — the bisection inverter finds the root of any increasing function

Property theorems only (helper lemmas live in `Proofs/Bisection.lean`).  Every loop condition, loop
body, prologue and epilogue mentioned below (`adaptInit`, `adaptCond`, `adaptBody`, `adaptExit`,
`bisCond`, `bisBody`, `bisExit`) is the definition GENERATED from `flowjax/bisection_search.py`
(`Gen/Bisection.lean`); `Model.whileFuel` (`lax.while_loop` with fuel), `Model.adaptInterval`,
`Model.bisectLoop`, `Model.bisectionSearch`, `Model.autoregressiveScan`, `Model.autoregressiveBisection`
are the hand-modelled JAX combinators of `Model/Bisection.lean`, tied to the real code by the exact
(bit-for-bit, `Rat`/`Float`) correspondence of `tools/props/c10.py`.

Throughout: `f : ℝ → ℝ` strictly increasing with a root `r`, any `lower < upper`; no continuity is
needed once a root is assumed.  `fuel` only bounds the number of `while_loop` iterations of the model;
every theorem gives an explicit amount that suffices, so the real (fuel-less) loops terminate.
-/
open Gen Model

namespace C10

/-- `adapt_noop`: if the initial interval already contains the root the adaptation loop makes zero
iterations and returns the interval unchanged — except that when an end is exactly the root both ends
are collapsed onto it (the two epilogue `where`s). -/
theorem adapt_noop (f : ℝ → ℝ) (hf : StrictMono f) (r : ℝ) (hr : f r = 0) {lower upper : ℝ}
    (h : lower < upper) (h1 : lower ≤ r) (h2 : r ≤ upper) (fuel : ℕ) :
    adaptInterval f lower upper fuel =
      some (if upper = r then r else lower, if lower = r then r else upper, 0) :=
  Bisection.adapt_noop f hf r hr h h1 h2 fuel

/-- `adapt_terminates`: wherever the root is, with `d` = its distance to `[lower, upper]`, the
adaptation loop returns after at most `N = ⌈log₂(⌈d / (upper − lower)⌉ + 1)⌉` iterations: one and the
same result for every fuel `≥ N`, and its iteration count is between `0` and `N`. -/
theorem adapt_terminates (f : ℝ → ℝ) (hf : StrictMono f) (r : ℝ) (hr : f r = 0) {lower upper : ℝ}
    (h : lower < upper) :
    ∃ (lo hi : ℝ) (it : Int), 0 ≤ it ∧
      it ≤ Nat.clog 2 (⌈max (lower - r) (r - upper) / (upper - lower)⌉₊ + 1) ∧
      ∀ fuel, Nat.clog 2 (⌈max (lower - r) (r - upper) / (upper - lower)⌉₊ + 1) ≤ fuel →
        adaptInterval f lower upper fuel = some (lo, hi, it) := by
  obtain ⟨lo, hi, it, e, _, _, _, h0, h1, _⟩ :=
    Bisection.adapt_main f hf r hr h (Bisection.adaptFuel r lower upper) (le_refl _)
  exact ⟨lo, hi, it, h0, h1, fun fuel hfuel => Bisection.adaptInterval_mono f lower upper _ fuel hfuel _ e⟩

/-- `adapt_bracket`: whenever the adaptation returns (any fuel), the returned interval brackets the
root, `lo = hi = r` as soon as either returned end is the root (so otherwise `lo < r < hi`), and it is
no wider than the initial width plus the initial distance to the root. -/
theorem adapt_bracket (f : ℝ → ℝ) (hf : StrictMono f) (r : ℝ) (hr : f r = 0) {lower upper : ℝ}
    (h : lower < upper) (fuel : ℕ) (lo hi : ℝ) (it : Int)
    (e : adaptInterval f lower upper fuel = some (lo, hi, it)) :
    lo ≤ r ∧ r ≤ hi ∧ ((lo = r ∨ hi = r) → lo = r ∧ hi = r) ∧
      hi - lo ≤ upper - lower + max 0 (max (lower - r) (r - upper)) := by
  obtain ⟨lo', hi', it', e', b1, b2, b3, _, _, b4⟩ :=
    Bisection.adapt_main f hf r hr h (max fuel (Bisection.adaptFuel r lower upper)) (le_max_right _ _)
  have := Bisection.adaptInterval_mono f lower upper fuel (max fuel (Bisection.adaptFuel r lower upper))
    (le_max_left _ _) _ e
  rw [e'] at this
  simp only [Option.some.injEq, Prod.mk.injEq] at this
  obtain ⟨rfl, rfl, rfl⟩ := this
  exact ⟨b1, b2, b3, b4⟩

/-- `adapt_step`: one generated adaptation step. Cached sign `+1` at the lower end (root below):
`(lo, hi, e) ↦ (lo − e, lo, 2e)`; otherwise (root above): `(lo, hi, e) ↦ (hi, hi + e, 2e)`; the cached
signs are recomputed at the two new ends and the counter is incremented. -/
theorem adapt_step (f : ℝ → ℝ) (s : AdaptState ℝ) :
    (s.lower_fn_sign = 1 → adaptBody f 2 s = ⟨s.lower - s.expand_by, s.lower, s.expand_by * 2,
      Jnp.sign (f (s.lower - s.expand_by)), Jnp.sign (f s.lower), s.iteration + 1⟩) ∧
    (s.lower_fn_sign ≠ 1 → adaptBody f 2 s = ⟨s.upper, s.upper + s.expand_by, s.expand_by * 2,
      Jnp.sign (f s.upper), Jnp.sign (f (s.upper + s.expand_by)), s.iteration + 1⟩) :=
  ⟨Bisection.adaptBody_of_one f 2 s, Bisection.adaptBody_of_ne_one f 2 s⟩

/-- `adapt_iterations_exact`: whenever the adaptation returns, its iteration count is EXACTLY
`⌈log₂(⌈d/(upper − lower)⌉ + 1)⌉` (`d` = distance from the root to `[lower, upper]`): the bound of
`adapt_terminates` is attained, the loop neither stops early nor overshoots. -/
theorem adapt_iterations_exact (f : ℝ → ℝ) (hf : StrictMono f) (r : ℝ) (hr : f r = 0) {lower upper : ℝ}
    (h : lower < upper) (fuel : ℕ) (lo hi : ℝ) (it : Int)
    (e : adaptInterval f lower upper fuel = some (lo, hi, it)) :
    it = Nat.clog 2 (⌈max (lower - r) (r - upper) / (upper - lower)⌉₊ + 1) :=
  Bisection.adapt_iterations_eq f hf r hr h fuel lo hi it e

/-- `bisect_invariant`: one generated bisection step keeps `lo ≤ r ≤ hi`, at least halves the width,
increments the counter, and collapses both ends onto `r` when the midpoint hits the root exactly. -/
theorem bisect_invariant (f : ℝ → ℝ) (hf : StrictMono f) (r : ℝ) (hr : f r = 0) (lo hi : ℝ) (it : Int)
    (h1 : lo ≤ r) (h2 : r ≤ hi) :
    ((bisBody f (lo, hi, it)).1 ≤ r ∧ r ≤ (bisBody f (lo, hi, it)).2.1) ∧
      (bisBody f (lo, hi, it)).2.1 - (bisBody f (lo, hi, it)).1 ≤ (hi - lo) / 2 ∧
      (bisBody f (lo, hi, it)).2.2 = it + 1 ∧
      (f ((lo + hi) / 2) = 0 → (bisBody f (lo, hi, it)).1 = r ∧ (bisBody f (lo, hi, it)).2.1 = r) :=
  Bisection.bisBody_inv f hf r hr (lo, hi, it) ⟨h1, h2⟩

/-- `bisect_iterations`: from any bracket of the root the bisection loop returns once the fuel is at
least `max_iter`; it made between `0` and `max_iter` iterations, stopped because the width is `≤ 2·tol`
or because the counter reached `max_iter`, the root is still bracketed and the width is at most the
initial width over `2^iterations`. -/
theorem bisect_iterations (f : ℝ → ℝ) (hf : StrictMono f) (r : ℝ) (hr : f r = 0) (tol : ℝ)
    (max_iter : Int) (hmi : 0 ≤ max_iter) (lo hi : ℝ) (h1 : lo ≤ r) (h2 : r ≤ hi)
    (fuel : ℕ) (hfuel : max_iter.toNat ≤ fuel) :
    ∃ lo' hi' it, bisectLoop f tol max_iter fuel lo hi = some (lo', hi', it) ∧
      0 ≤ it ∧ it ≤ max_iter ∧ (hi' - lo' ≤ 2 * tol ∨ it = max_iter) ∧
      lo' ≤ r ∧ r ≤ hi' ∧ hi' - lo' ≤ (hi - lo) / 2 ^ it.toNat := by
  obtain ⟨lo', hi', it, e, c1, c2, i0, i1, hc, hw, _⟩ :=
    Bisection.bis_result f hf r hr tol max_iter hmi lo hi ⟨h1, h2⟩ fuel hfuel
  exact ⟨lo', hi', it, e, i0, i1, hc, c1, c2, hw⟩

/-- `bisect_result`: the midpoint returned from a bracket `[lo₀, hi₀]` of the root is within
`max tol ((hi₀ − lo₀) / 2^(max_iter+1))` of the root. -/
theorem bisect_result (f : ℝ → ℝ) (hf : StrictMono f) (r : ℝ) (hr : f r = 0) (tol : ℝ)
    (max_iter : Int) (hmi : 0 ≤ max_iter) (lo₀ hi₀ : ℝ) (h1 : lo₀ ≤ r) (h2 : r ≤ hi₀)
    (fuel : ℕ) (hfuel : max_iter.toNat ≤ fuel) :
    ∃ lo' hi' it, bisectLoop f tol max_iter fuel lo₀ hi₀ = some (lo', hi', it) ∧
      |bisExit lo' hi' - r| ≤ max tol ((hi₀ - lo₀) / 2 ^ (max_iter.toNat + 1)) := by
  obtain ⟨lo', hi', it, e, _, _, _, _, _, _, hres⟩ :=
    Bisection.bis_result f hf r hr tol max_iter hmi lo₀ hi₀ ⟨h1, h2⟩ fuel hfuel
  exact ⟨lo', hi', it, e, hres⟩

/-- `search_result` — the whole `_bisection_search`, arguments accepted by its two guards
(`max_iter ≥ 0`, `tol > 0`): for ANY initial interval, containing the root or not, once the fuel
covers `N = ⌈log₂(⌈d/(upper−lower)⌉+1)⌉` adaptation steps and `max_iter` bisection steps it returns
`(root, adapt_iterations, iterations)` with `0 ≤ adapt_iterations ≤ N`, `0 ≤ iterations ≤ max_iter`, and
`|root − r| ≤ max tol (W / 2^(max_iter+1))` where `W = (upper − lower) + d` bounds the adapted bracket
(`d` = distance from the root to the initial interval). -/
theorem search_result (f : ℝ → ℝ) (hf : StrictMono f) (r : ℝ) (hr : f r = 0) {lower upper : ℝ}
    (h : lower < upper) (tol : ℝ) (max_iter : Int) (hok : searchArgsOk tol max_iter = true) (fuel : ℕ)
    (hf1 : Nat.clog 2 (⌈max (lower - r) (r - upper) / (upper - lower)⌉₊ + 1) ≤ fuel)
    (hf2 : max_iter.toNat ≤ fuel) :
    ∃ root ai it, bisectionSearch f lower upper tol max_iter fuel = some (root, ai, it) ∧
      0 ≤ ai ∧ ai ≤ Nat.clog 2 (⌈max (lower - r) (r - upper) / (upper - lower)⌉₊ + 1) ∧
      0 ≤ it ∧ it ≤ max_iter ∧
      |root - r| ≤ max tol ((upper - lower + max 0 (max (lower - r) (r - upper))) / 2 ^ (max_iter.toNat + 1)) := by
  obtain ⟨hmi, _⟩ := (Bisection.searchArgsOk_iff tol max_iter).mp hok
  obtain ⟨root, ai, it, lo, hi, e, _, _, _, a0, a1, i0, i1, hw, hres, _⟩ :=
    Bisection.search_main f hf r hr h tol max_iter hmi fuel hf1 hf2
  refine ⟨root, ai, it, e, a0, a1, i0, i1, le_trans hres (max_le_max (le_refl _) ?_)⟩
  exact div_le_div_of_nonneg_right hw (by positivity)

/-- `search_result_bracket`: the same run, in terms of the adapted bracket `(lo₀, hi₀)` actually
returned by `_adapt_interval_to_include_root`: `|root − r| ≤ max tol ((hi₀ − lo₀)/2^(max_iter+1))`, and
also `≤ (hi₀ − lo₀)/2^(iterations+1)`. -/
theorem search_result_bracket (f : ℝ → ℝ) (hf : StrictMono f) (r : ℝ) (hr : f r = 0) {lower upper : ℝ}
    (h : lower < upper) (tol : ℝ) (max_iter : Int) (hok : searchArgsOk tol max_iter = true) (fuel : ℕ)
    (hf1 : Nat.clog 2 (⌈max (lower - r) (r - upper) / (upper - lower)⌉₊ + 1) ≤ fuel)
    (hf2 : max_iter.toNat ≤ fuel) :
    ∃ root ai it lo₀ hi₀, bisectionSearch f lower upper tol max_iter fuel = some (root, ai, it) ∧
      adaptInterval f lower upper fuel = some (lo₀, hi₀, ai) ∧ lo₀ ≤ r ∧ r ≤ hi₀ ∧
      |root - r| ≤ max tol ((hi₀ - lo₀) / 2 ^ (max_iter.toNat + 1)) ∧
      |root - r| ≤ (hi₀ - lo₀) / 2 ^ (it.toNat + 1) := by
  obtain ⟨hmi, _⟩ := (Bisection.searchArgsOk_iff tol max_iter).mp hok
  obtain ⟨root, ai, it, lo, hi, e, ea, b1, b2, _, _, _, _, _, hres, hres2⟩ :=
    Bisection.search_main f hf r hr h tol max_iter hmi fuel hf1 hf2
  exact ⟨root, ai, it, lo, hi, e, ea, b1, b2, hres, hres2⟩

/-- `search_tol`: once `max_iter` is large enough that `W / 2^(max_iter+1) ≤ tol`, the returned root is
within `tol` of the true root. -/
theorem search_tol (f : ℝ → ℝ) (hf : StrictMono f) (r : ℝ) (hr : f r = 0) {lower upper : ℝ}
    (h : lower < upper) (tol : ℝ) (max_iter : Int) (hok : searchArgsOk tol max_iter = true)
    (hbig : (upper - lower + max 0 (max (lower - r) (r - upper))) / 2 ^ (max_iter.toNat + 1) ≤ tol)
    (fuel : ℕ)
    (hf1 : Nat.clog 2 (⌈max (lower - r) (r - upper) / (upper - lower)⌉₊ + 1) ≤ fuel)
    (hf2 : max_iter.toNat ≤ fuel) :
    ∃ root ai it, bisectionSearch f lower upper tol max_iter fuel = some (root, ai, it) ∧
      |root - r| ≤ tol := by
  obtain ⟨root, ai, it, e, _, _, _, _, hres⟩ := search_result f hf r hr h tol max_iter hok fuel hf1 hf2
  exact ⟨root, ai, it, e, le_trans hres (max_le (le_refl _) hbig)⟩

/-- `search_root_on_end`: an end of the initial interval exactly on the root ⇒ no iteration of either
loop and the exact root is returned. -/
theorem search_root_on_end (f : ℝ → ℝ) (hf : StrictMono f) (r : ℝ) (hr : f r = 0) {lower upper : ℝ}
    (h : lower < upper) (hend : lower = r ∨ upper = r) (tol : ℝ) (max_iter : Int)
    (hok : searchArgsOk tol max_iter = true) (fuel : ℕ) :
    bisectionSearch f lower upper tol max_iter fuel = some (r, 0, 0) :=
  Bisection.search_root_on_end f hf r hr h hend tol ((Bisection.searchArgsOk_iff tol max_iter).mp hok).2
    max_iter fuel

/-- the guards: `_bisection_search` raises unless `max_iter ≥ 0 ∧ tol > 0`;
`AutoregressiveBisectionInverter.__check_init__` raises unless `lower < upper ∧ tol > 0 ∧ max_iter ≥ 0`. -/
theorem guards (lower upper tol : ℝ) (max_iter : Int) :
    (searchArgsOk tol max_iter = true ↔ 0 ≤ max_iter ∧ 0 < tol) ∧
    (inverterArgsOk lower upper tol max_iter = true ↔ lower < upper ∧ 0 < tol ∧ 0 ≤ max_iter) :=
  ⟨Bisection.searchArgsOk_iff tol max_iter, Bisection.inverterArgsOk_iff lower upper tol max_iter⟩

/-- `autoregressive_coordinate`: for a triangular map `fn` on length-`n` vectors that is strictly
increasing in its own coordinate and a preimage `xs` of `0`, when the coordinates before `i` already
equal the preimage's, the scalar search of coordinate `i` (exactly the `scalar_fn` of `scan_fn`) returns
a value within `max tol (W_i / 2^(max_iter+1))` of `xs[i]`. -/
theorem autoregressive_coordinate {fn : List ℝ → List ℝ} {n : ℕ} (ht : Bisection.Triangular fn n)
    (xs y : List ℝ) (hxs : xs.length = n) (hy : y.length = n)
    (hroot : ∀ i, i < n → (fn xs).getD i 0 = 0) (i : ℕ) (hi : i < n)
    (hpre : ∀ j, j < i → y.getD j 0 = xs.getD j 0)
    {lower upper : ℝ} (h : lower < upper) (tol : ℝ) (max_iter : Int)
    (hok : searchArgsOk tol max_iter = true) (fuel : ℕ)
    (hf1 : Nat.clog 2 (⌈max (lower - xs.getD i 0) (xs.getD i 0 - upper) / (upper - lower)⌉₊ + 1) ≤ fuel)
    (hf2 : max_iter.toNat ≤ fuel) :
    ∃ root, bisectionSolver lower upper tol max_iter fuel (scalarFn fn y i) = some root ∧
      |root - xs.getD i 0| ≤ max tol ((upper - lower +
        max 0 (max (lower - xs.getD i 0) (xs.getD i 0 - upper))) / 2 ^ (max_iter.toNat + 1)) := by
  have hr : (fun t => (fn (y.set i t)).getD i 0) (xs.getD i 0) = 0 := by
    simp only; rw [Bisection.scalar_root ht xs y hxs hy i hi hpre]; exact hroot i hi
  obtain ⟨root, ai, it, e, _, _, _, _, hres⟩ :=
    search_result _ (ht.mono y i hy hi) _ hr h tol max_iter hok fuel hf1 hf2
  refine ⟨root, ?_, hres⟩
  unfold bisectionSolver
  rw [Bisection.scalarFn_eq ht y hy i hi, e]; rfl

/-- `autoregressive_exact` (idealised exact-root case): for a triangular map strictly increasing in
its own coordinate, the coordinate-by-coordinate scan of `_autoregressive_bisection_search`, run with a
scalar solver that returns the exact root of every strictly increasing function that has one, returns
the preimage — from ANY initial vector (induction on the coordinate index: coordinate `i` is written
before coordinate `i+1` is solved). -/
theorem autoregressive_exact {fn : List ℝ → List ℝ} {n : ℕ} (ht : Bisection.Triangular fn n)
    (xs : List ℝ) (hxs : xs.length = n) (hroot : ∀ i, i < n → (fn xs).getD i 0 = 0)
    (solve : (ℝ → ℝ) → Option ℝ)
    (hsolve : ∀ (g : ℝ → ℝ) (r : ℝ), StrictMono g → g r = 0 → solve g = some r)
    (y₀ : List ℝ) (hy : y₀.length = n) :
    autoregressiveScan solve fn n 0 y₀ = some xs :=
  Bisection.scan_exact ht xs hxs hroot solve hsolve n 0 y₀ (by omega) hy (fun j hj => absurd hj (by omega))

/-- `autoregressive_error_bound`: triangular map on length-`n` vectors whose own-coordinate slices are
continuous with slope `≥ m > 0` and which is `L`-Lipschitz (ℓ¹) in the earlier coordinates
(`Bisection.LipTriangular`), `xs` its preimage of `0`; if the scalar solver returns, for every strictly
increasing function whose root lies within `ε(1+L/m)^n` of some `xs[i]`, a value within `ε` of that
root, then the scan returns `out` with `|out[i] − xs[i]| ≤ ε·(1 + L/m)^i` — from ANY initial vector
(errors of earlier coordinates move the later roots by at most `L/m` times their sum). -/
theorem autoregressive_error_bound {fn : List ℝ → List ℝ} {n : ℕ} {m L : ℝ}
    (ht : Bisection.LipTriangular fn n m L) (xs : List ℝ) (hxs : xs.length = n)
    (hroot : ∀ i, i < n → (fn xs).getD i 0 = 0) (ε : ℝ) (hε : 0 ≤ ε) (solve : (ℝ → ℝ) → Option ℝ)
    (hsolve : ∀ (g : ℝ → ℝ) (r : ℝ), StrictMono g → g r = 0 →
      (∃ i, i < n ∧ |r - xs.getD i 0| ≤ ε * (1 + L / m) ^ n) → ∃ v, solve g = some v ∧ |v - r| ≤ ε)
    (y₀ : List ℝ) (hy : y₀.length = n) :
    ∃ out, autoregressiveScan solve fn n 0 y₀ = some out ∧ out.length = n ∧
      ∀ i, i < n → |out.getD i 0 - xs.getD i 0| ≤ ε * (1 + L / m) ^ i :=
  Bisection.scan_error_bound ht xs hxs hroot ε hε solve hsolve n 0 y₀ (by omega) hy
    (fun j hj => absurd hj (by omega))

/-- `autoregressive_bisection_error_bound` — the real `_autoregressive_bisection_search` (bisection as
the scalar solver, `tol > 0`, finite `max_iter`): with every `xs[i]` within `D` of `[lower, upper]` and
any `ε` satisfying `max tol ((upper − lower + D + ε(1+L/m)^n) / 2^(max_iter+1)) ≤ ε` (e.g. `ε = tol`
once `max_iter` is large enough), the search terminates (explicit fuel) and
`|out[i] − xs[i]| ≤ ε·(1 + L/m)^i`. -/
theorem autoregressive_bisection_error_bound {fn : List ℝ → List ℝ} {n : ℕ} {m L : ℝ}
    (ht : Bisection.LipTriangular fn n m L) (xs : List ℝ) (hxs : xs.length = n)
    (hroot : ∀ i, i < n → (fn xs).getD i 0 = 0) {lower upper : ℝ} (h : lower < upper) (tol : ℝ)
    (max_iter : Int) (hok : searchArgsOk tol max_iter = true) (D ε : ℝ) (hD : 0 ≤ D)
    (hxsD : ∀ i, i < n → lower - D ≤ xs.getD i 0 ∧ xs.getD i 0 ≤ upper + D)
    (hε : max tol ((upper - lower + D + ε * (1 + L / m) ^ n) / 2 ^ (max_iter.toNat + 1)) ≤ ε)
    (fuel : ℕ)
    (hf1 : Nat.clog 2 (⌈(D + ε * (1 + L / m) ^ n) / (upper - lower)⌉₊ + 1) ≤ fuel)
    (hf2 : max_iter.toNat ≤ fuel) :
    ∃ out, autoregressiveBisection fn lower upper tol n max_iter fuel = some out ∧ out.length = n ∧
      ∀ i, i < n → |out.getD i 0 - xs.getD i 0| ≤ ε * (1 + L / m) ^ i := by
  obtain ⟨hmi, htol⟩ := (Bisection.searchArgsOk_iff tol max_iter).mp hok
  have hε0 : 0 ≤ ε := le_trans htol.le (le_trans (le_max_left _ _) hε)
  unfold autoregressiveBisection
  apply autoregressive_error_bound ht xs hxs hroot ε hε0 _ _ _ (by simp [arInit])
  intro g r hg hr ⟨i, hi, hri⟩
  obtain ⟨v, hv, hvr⟩ := Bisection.bisectionSolver_accurate h tol max_iter hmi D _ fuel hf1 hf2 g r hg hr
    (xs.getD i 0) (hxsD i hi) hD hri
  exact ⟨v, hv, le_trans hvr hε⟩

/-! ### the generated prologues (what the hand-modelled `while_loop` / `scan` are started from) -/

/-- the prologue of `_bisection_search`: the loop starts from the bracket returned by the interval adaptation with iteration
count `0`, and the `tol` / `max_iter` its condition closes over are the caller's, unchanged -/
theorem bisInit_spec (adapt : ℝ → ℝ → ℝ × ℝ × Int) (lower upper tol : ℝ) (max_iter : Int) :
    bisInit adapt lower upper tol max_iter
      = (((adapt lower upper).1, (adapt lower upper).2.1, 0), tol, max_iter) := rfl

/-- the initial carry of the autoregressive scan: every coordinate starts at the midpoint of the interval (a real number,
whatever the type of the bounds), coordinate counter `0` -/
theorem arInit_spec (lower upper : ℝ) (n : ℕ) :
    arInit lower upper n = (List.replicate n ((upper + lower) / 2), 0) := rfl

/-! ### non-vacuity: concrete instances -/

/-- `2x − 37.5` is strictly increasing with root `18.75`, outside `[-10, 10]`. -/
theorem instance_hypotheses : StrictMono (fun x : ℝ => 2 * x - 37.5) ∧ (fun x : ℝ => 2 * x - 37.5) 18.75 = 0 := by
  constructor
  · intro a b hab; simp only; linarith
  · norm_num

/-- `search_result` instantiated: `_bisection_search(2x − 37.5, [-10, 10], tol = 1e-3, max_iter = 200)`
over ℝ returns within `1e-3` of `18.75` after at most one adaptation step, for every fuel `≥ 200`. -/
theorem search_instance (fuel : ℕ) (hfuel : 200 ≤ fuel) :
    ∃ root ai it, bisectionSearch (fun x : ℝ => 2 * x - 37.5) (-10) 10 (1 / 1000) 200 fuel = some (root, ai, it) ∧
      0 ≤ ai ∧ ai ≤ 1 ∧ 0 ≤ it ∧ it ≤ 200 ∧ |root - 18.75| ≤ 1 / 1000 := by
  obtain ⟨hm, hr⟩ := instance_hypotheses
  have hmax : max ((-10 : ℝ) - 18.75) (18.75 - 10) = 8.75 := by norm_num
  have hclog : Nat.clog 2 (⌈max ((-10 : ℝ) - 18.75) (18.75 - 10) / (10 - -10)⌉₊ + 1) ≤ 1 := by
    apply Nat.clog_le_of_le_pow
    have : ⌈max ((-10 : ℝ) - 18.75) (18.75 - 10) / (10 - -10)⌉₊ ≤ 1 := by
      rw [Nat.ceil_le, hmax]; norm_num
    omega
  obtain ⟨root, ai, it, e, a0, a1, i0, i1, hres⟩ :=
    search_result _ hm 18.75 hr (by norm_num : (-10 : ℝ) < 10) (1 / 1000) 200
      (by rw [Bisection.searchArgsOk_iff]; norm_num) fuel (le_trans hclog (by omega)) (by simpa using hfuel)
  refine ⟨root, ai, it, e, a0, le_trans a1 (by exact_mod_cast hclog), i0, i1, le_trans hres ?_⟩
  rw [hmax]
  apply max_le (le_refl _)
  have : (0 : ℝ) < 2 ^ ((200 : Int).toNat + 1) := by positivity
  rw [div_le_iff₀ this]
  have h2 : (2 : ℝ) ^ 16 ≤ 2 ^ ((200 : Int).toNat + 1) := pow_le_pow_right₀ (by norm_num) (by simp)
  have h3 : max (0 : ℝ) 8.75 = 8.75 := by norm_num
  rw [h3]
  nlinarith

/-- the same run at exact `Rat` (the instance the driver executes and the correspondence compares with
the real code): the adaptation moves `[-10, 10]` to `[10, 30]` in one step and the 4th midpoint hits the
root exactly — `(root, adapt_iterations, iterations) = (75/4, 1, 4)`. -/
theorem model_trace_instance :
    adaptInterval (fun x : Rat => 2 * x - 75 / 2) (-10) 10 300 = some (10, 30, 1) ∧
    bisectionSearch (fun x : Rat => 2 * x - 75 / 2) (-10) 10 (1 / 1000) 200 300 = some (75 / 4, 1, 4) := by
  constructor <;> decide +kernel

/-- `autoregressive_bisection_error_bound` instantiated on the coupled map
`(x₀, x₁) ↦ (2x₀ − 5, x₁ + x₀ − 5)` (`m = L = 1`, preimage `(5/2, 5/2)`), bracket `[-10, 10]`, `tol = 1e-3`,
`max_iter = 200`: the hypotheses are satisfiable and the search returns within `(1e-3, 2e-3)`. -/
theorem autoregressive_instance (fuel : ℕ) (hfuel : 200 ≤ fuel) :
    ∃ out, autoregressiveBisection Bisection.exampleMap (-10) 10 (1 / 1000) 2 200 fuel = some out ∧ out.length = 2 ∧
      |out.getD 0 0 - 5 / 2| ≤ 1 / 1000 ∧ |out.getD 1 0 - 5 / 2| ≤ 2 / 1000 := by
  have hxs : ∀ i, i < 2 → (Bisection.exampleMap [5 / 2, 5 / 2]).getD i 0 = 0 := by
    intro i hi; interval_cases i <;> simp [Bisection.exampleMap]; norm_num
  obtain ⟨out, e, hl, hb⟩ := autoregressive_bisection_error_bound Bisection.exampleMap_lip [5 / 2, 5 / 2] rfl hxs
    (by norm_num : (-10 : ℝ) < 10) (1 / 1000) 200 (by rw [Bisection.searchArgsOk_iff]; norm_num) 0 (1 / 1000)
    (le_refl _)
    (by intro i hi; interval_cases i <;> simp <;> norm_num)
    (by
      apply max_le (le_refl _)
      have : (0 : ℝ) < 2 ^ ((200 : Int).toNat + 1) := by positivity
      rw [div_le_iff₀ this]
      have h2 : (2 : ℝ) ^ 16 ≤ 2 ^ ((200 : Int).toNat + 1) := pow_le_pow_right₀ (by norm_num) (by simp)
      norm_num at h2 ⊢
      nlinarith)
    fuel
    (by
      apply le_trans (Nat.clog_le_of_le_pow (y := 1) _) (by omega)
      have : ⌈((0 : ℝ) + 1 / 1000 * (1 + 1 / 1) ^ 2) / (10 - -10)⌉₊ ≤ 1 := by
        rw [Nat.ceil_le]; norm_num
      omega)
    (by simpa using hfuel)
  refine ⟨out, e, hl, ?_, ?_⟩
  · have := hb 0 (by norm_num); simpa using this
  · have := hb 1 (by norm_num); norm_num at this ⊢; linarith

/-- the hypotheses of `autoregressive_exact` are satisfiable: an exact scalar solver exists (classically:
pick the root), `Bisection.exampleMap` is triangular and strictly increasing in its own coordinate, and the
scan then returns its preimage `(5/2, 5/2)` of `0`. -/
theorem autoregressive_exact_instance :
    ∃ solve : (ℝ → ℝ) → Option ℝ,
      (∀ (g : ℝ → ℝ) (r : ℝ), StrictMono g → g r = 0 → solve g = some r) ∧
      autoregressiveScan solve Bisection.exampleMap 2 0 [0, 0] = some [5 / 2, 5 / 2] := by
  classical
  let solve : (ℝ → ℝ) → Option ℝ := fun g => if h : ∃ r, g r = 0 then some (Classical.choose h) else none
  have hsolve : ∀ (g : ℝ → ℝ) (r : ℝ), StrictMono g → g r = 0 → solve g = some r := by
    intro g r hg hr
    have h : ∃ r, g r = 0 := ⟨r, hr⟩
    simp only [solve, dif_pos h]
    have := Classical.choose_spec h
    rw [hg.injective (this.trans hr.symm)]
  refine ⟨solve, hsolve, ?_⟩
  apply autoregressive_exact Bisection.exampleMap_lip.toTriangular [5 / 2, 5 / 2] rfl _ solve hsolve [0, 0] rfl
  intro i hi
  interval_cases i <;> simp [Bisection.exampleMap]
  norm_num

/-- the real scan on the same coupled map at exact `Rat`: both coordinates are hit exactly (3rd midpoint),
so `_autoregressive_bisection_search` returns the preimage `(5/2, 5/2)` itself — the exact-root case of
`autoregressive_exact` does occur with the bisection solver. -/
theorem autoregressive_trace_instance :
    autoregressiveBisection (fun x : List Rat => [2 * x.getD 0 0 - 5, x.getD 1 0 + x.getD 0 0 - 5])
      (-10) 10 (1 / 1000) 2 200 300 = some [5 / 2, 5 / 2] := by
  decide +kernel

/-! ## The same theorems on the REGENERATED whole functions

`GenBis.adaptInterval`, `GenBis.bisectionSearch`, `GenBis.autoregressiveBisectionSearch`, `GenBis.Inverter.call`,
`GenBis.Inverter.checkInit` are `Gen/BisectionGen.lean`: `_adapt_interval_to_include_root`, `_bisection_search`,
`_autoregressive_bisection_search`, `AutoregressiveBisectionInverter.__call__` / `.__check_init__` translated statement by statement
from `flowjax/bisection_search.py` on every run (argument handling, guards, the call of the adaptation, both `lax.while_loop`s with
their initial states, the `lax.scan` with its nested closures, the returned values).  Their first argument is the fuel of the
`while_loop`s; `Bw.Res` = `ok v | valueError | noFuel`.  Only the meaning of `lax.while_loop` (`Model.whileFuel`), `lax.scan` (left fold
over `List.range n`) and of the array primitives (`Model/BisectWorld.lean`) is hand-written. -/
section BisectionGen

section generic
variable {α : Type} [Add α] [Sub α] [Mul α] [Div α] [Neg α] [LT α] [LE α] [BEq α]
  [OfNat α 0] [OfNat α 1] [OfNat α 2] [OfNat α 4] [OfScientific α]
  [DecidableLT α] [DecidableLE α] [Transc α] [Inhabited α]

/-- `gen_adapt_eq_model`: for every scalar type, function, interval and fuel, the generated `_adapt_interval_to_include_root`
(called with the default `expand_factor = 2.0`, as `_bisection_search` does) returns what the hand model returns. -/
theorem gen_adapt_eq_model (fuel : ℕ) (func : α → α) (lower upper : α) :
    GenBis.adaptInterval fuel func lower upper (2 : α) = Bw.ofOption (adaptInterval func lower upper fuel) :=
  BisectionGen.gen_adapt_eq_model fuel func lower upper

/-- `gen_bisection_search_eq_model`: the generated `_bisection_search` raises `ValueError` exactly when `max_iter < 0` or
`tol ≤ 0` and otherwise returns the hand model's `(root, adapt_iterations, iterations)` (every scalar type, every argument). -/
theorem gen_bisection_search_eq_model (fuel : ℕ) (func : α → α) (lower upper tol : α) (max_iter : Int) :
    GenBis.bisectionSearch fuel func lower upper tol max_iter =
      if searchArgsOk tol max_iter = true then Bw.ofOption (bisectionSearch func lower upper tol max_iter fuel)
      else Bw.Res.valueError :=
  BisectionGen.gen_bisection_search_eq_model fuel func lower upper tol max_iter

/-- `gen_autoregressive_eq_model`: the generated `_autoregressive_bisection_search` (scan over `length` coordinates, closure
`x ↦ autoregressive_fn(y.at[i].set(x))[i]`, one `_bisection_search` per coordinate, initial carry `jnp.full(length, (upper+lower)/2)`)
returns what the hand model returns, for arguments the per-coordinate guards accept; with rejected arguments and at least one
coordinate it raises `ValueError`. -/
theorem gen_autoregressive_eq_model (fuel : ℕ) (fn : List α → List α) (lower upper tol : α) (n : ℕ) (max_iter : Int) :
    (searchArgsOk tol max_iter = true → GenBis.autoregressiveBisectionSearch fuel fn lower upper tol n max_iter =
      Bw.ofOption (autoregressiveBisection fn lower upper tol n max_iter fuel)) ∧
    (searchArgsOk tol max_iter = false →
      GenBis.autoregressiveBisectionSearch fuel fn lower upper tol (n + 1) max_iter = Bw.Res.valueError) :=
  ⟨BisectionGen.gen_autoregressive_eq_model fuel fn lower upper tol n max_iter,
   BisectionGen.gen_autoregressive_raises fuel fn lower upper tol n max_iter⟩

/-- `gen_inverter_call_eq_model`: the generated `AutoregressiveBisectionInverter.__call__` is the hand model's search applied to
`x ↦ bijection.transform(x, condition) − y` with the inverter's own `lower, upper, tol, max_iter` and `bijection.shape[0]`
coordinates. -/
theorem gen_inverter_call_eq_model {C : Type} (fuel : ℕ) (self : Bw.Inverter α) (b : Bw.Bijection α C) (y : List α) (c : C)
    (hok : searchArgsOk self.tol self.max_iter = true) :
    GenBis.Inverter.call fuel self b y c =
      Bw.ofOption (inverterCall (fun x => b.transform x c) y self.lower self.upper self.tol (Bw.shape0 b) self.max_iter fuel) :=
  BisectionGen.gen_inverter_call_eq_model fuel self b y c hok

end generic

/-- `gen_inverter_check_iff`: the generated `__check_init__` returns (does not raise `ValueError`) iff `lower < upper`, `tol > 0` and
`max_iter ≥ 0`; it is the hand model's `inverterArgsOk`. -/
theorem gen_inverter_check_iff (W : ℕ) (self : Bw.Inverter ℝ) :
    (GenBis.Inverter.checkInit W self = Bw.Res.ok () ↔ self.lower < self.upper ∧ 0 < self.tol ∧ 0 ≤ self.max_iter) ∧
    GenBis.Inverter.checkInit W self =
      (if inverterArgsOk self.lower self.upper self.tol self.max_iter = true then Bw.Res.ok () else Bw.Res.valueError) :=
  ⟨BisectionGen.gen_inverter_check_iff W self, BisectionGen.gen_inverter_check_eq_model W self⟩

/-- `gen_adapt_bracket`: whenever the generated `_adapt_interval_to_include_root` returns (any fuel), the returned interval
brackets the root, both ends are the root as soon as one is, and it is no wider than the initial width plus the initial distance to
the root. -/
theorem gen_adapt_bracket (f : ℝ → ℝ) (hf : StrictMono f) (r : ℝ) (hr : f r = 0) {lower upper : ℝ}
    (h : lower < upper) (fuel : ℕ) (lo hi : ℝ) (it : Int)
    (e : GenBis.adaptInterval fuel f lower upper 2 = Bw.Res.ok (lo, hi, it)) :
    lo ≤ r ∧ r ≤ hi ∧ ((lo = r ∨ hi = r) → lo = r ∧ hi = r) ∧
      hi - lo ≤ upper - lower + max 0 (max (lower - r) (r - upper)) :=
  adapt_bracket f hf r hr h fuel lo hi it
    ((BisectionGen.ofOption_eq_ok _ _).mp (by rw [← BisectionGen.gen_adapt_eq_model]; exact e))

/-- `gen_bisect_result`: the generated `_bisection_search` with `max_iter ≥ 0`, `tol > 0` and enough fuel returns
`(root, adapt_iterations, iterations)` where, `(lo₀, hi₀, adapt_iterations)` being what the generated adaptation returns,
`lo₀ ≤ r ≤ hi₀` and `|root − r| ≤ max tol ((hi₀ − lo₀) / 2^(max_iter+1))` (also `≤ (hi₀ − lo₀)/2^(iterations+1)`). -/
theorem gen_bisect_result (f : ℝ → ℝ) (hf : StrictMono f) (r : ℝ) (hr : f r = 0) {lower upper : ℝ}
    (h : lower < upper) (tol : ℝ) (max_iter : Int) (hmi : 0 ≤ max_iter) (htol : 0 < tol) (fuel : ℕ)
    (hf1 : Nat.clog 2 (⌈max (lower - r) (r - upper) / (upper - lower)⌉₊ + 1) ≤ fuel)
    (hf2 : max_iter.toNat ≤ fuel) :
    ∃ root ai it lo₀ hi₀, GenBis.bisectionSearch fuel f lower upper tol max_iter = Bw.Res.ok (root, ai, it) ∧
      GenBis.adaptInterval fuel f lower upper 2 = Bw.Res.ok (lo₀, hi₀, ai) ∧ lo₀ ≤ r ∧ r ≤ hi₀ ∧
      |root - r| ≤ max tol ((hi₀ - lo₀) / 2 ^ (max_iter.toNat + 1)) ∧
      |root - r| ≤ (hi₀ - lo₀) / 2 ^ (it.toNat + 1) := by
  have hok : searchArgsOk tol max_iter = true := (Bisection.searchArgsOk_iff tol max_iter).mpr ⟨hmi, htol⟩
  obtain ⟨root, ai, it, lo₀, hi₀, e, ea, b1, b2, r1, r2⟩ := search_result_bracket f hf r hr h tol max_iter hok fuel hf1 hf2
  refine ⟨root, ai, it, lo₀, hi₀, ?_, ?_, b1, b2, r1, r2⟩
  · rw [BisectionGen.gen_bisection_search_eq_model, if_pos hok, e]; rfl
  · rw [BisectionGen.gen_adapt_eq_model, ea]; rfl

/-- `gen_search_result`: the generated `_bisection_search`, ANY initial interval `lower < upper` (containing the root or not),
`max_iter ≥ 0`, `tol > 0`, fuel covering `N = ⌈log₂(⌈d/(upper−lower)⌉+1)⌉` adaptation steps and `max_iter` bisection steps: it returns
with `0 ≤ adapt_iterations ≤ N`, `0 ≤ iterations ≤ max_iter` and `|root − r| ≤ max tol (W / 2^(max_iter+1))`, `W = (upper − lower) + d`;
with `max_iter < 0` or `tol ≤ 0` it raises `ValueError`. -/
theorem gen_search_result (f : ℝ → ℝ) (hf : StrictMono f) (r : ℝ) (hr : f r = 0) {lower upper : ℝ}
    (h : lower < upper) (tol : ℝ) (max_iter : Int) (fuel : ℕ) :
    (0 ≤ max_iter → 0 < tol →
      Nat.clog 2 (⌈max (lower - r) (r - upper) / (upper - lower)⌉₊ + 1) ≤ fuel → max_iter.toNat ≤ fuel →
      ∃ root ai it, GenBis.bisectionSearch fuel f lower upper tol max_iter = Bw.Res.ok (root, ai, it) ∧
        0 ≤ ai ∧ ai ≤ Nat.clog 2 (⌈max (lower - r) (r - upper) / (upper - lower)⌉₊ + 1) ∧
        0 ≤ it ∧ it ≤ max_iter ∧
        |root - r| ≤ max tol ((upper - lower + max 0 (max (lower - r) (r - upper))) / 2 ^ (max_iter.toNat + 1))) ∧
    (¬ (0 ≤ max_iter ∧ 0 < tol) → GenBis.bisectionSearch fuel f lower upper tol max_iter = Bw.Res.valueError) := by
  constructor
  · intro hmi htol hf1 hf2
    have hok : searchArgsOk tol max_iter = true := (Bisection.searchArgsOk_iff tol max_iter).mpr ⟨hmi, htol⟩
    obtain ⟨root, ai, it, e, rest⟩ := search_result f hf r hr h tol max_iter hok fuel hf1 hf2
    exact ⟨root, ai, it, by rw [BisectionGen.gen_bisection_search_eq_model, if_pos hok, e]; rfl, rest⟩
  · intro hn
    rw [BisectionGen.gen_bisection_search_eq_model, if_neg]
    rwa [Bisection.searchArgsOk_iff]

/- A theorem `gen_autoregressive_exact` ("if the generated `_bisection_search` with fixed `lower, upper, tol, max_iter, fuel` returns the
exact root of every strictly increasing function that has one, the generated scan returns the preimage") stood here.  The session-3 audit
showed its hypothesis to be unsatisfiable for every choice of the parameters (`gen_autoregressive_exact_hsolve_false` below), so it was
REMOVED as vacuous; the exact-solver idealisation is `autoregressive_exact` (abstract solver, inhabited: `autoregressive_exact_instance`),
and the clause about the generated scan is carried by `gen_autoregressive_error_bound`. -/

/-- `gen_autoregressive_error_bound`: the generated `_autoregressive_bisection_search` on a triangular map whose own-coordinate
slices are continuous with slope `≥ m > 0` and which is `L`-Lipschitz (ℓ¹) in the earlier coordinates, `xs` its preimage of `0` with
every `xs[i]` within `D` of `[lower, upper]`, `max_iter ≥ 0`, `tol > 0`, any `ε` with
`max tol ((upper − lower + D + ε(1+L/m)^n) / 2^(max_iter+1)) ≤ ε`: it returns (explicit fuel) `out` of length `n` with
`|out[i] − xs[i]| ≤ ε·(1 + L/m)^i`. -/
theorem gen_autoregressive_error_bound {fn : List ℝ → List ℝ} {n : ℕ} {m L : ℝ}
    (ht : Bisection.LipTriangular fn n m L) (xs : List ℝ) (hxs : xs.length = n)
    (hroot : ∀ i, i < n → (fn xs).getD i 0 = 0) {lower upper : ℝ} (h : lower < upper) (tol : ℝ)
    (max_iter : Int) (hmi : 0 ≤ max_iter) (htol : 0 < tol) (D ε : ℝ) (hD : 0 ≤ D)
    (hxsD : ∀ i, i < n → lower - D ≤ xs.getD i 0 ∧ xs.getD i 0 ≤ upper + D)
    (hε : max tol ((upper - lower + D + ε * (1 + L / m) ^ n) / 2 ^ (max_iter.toNat + 1)) ≤ ε)
    (fuel : ℕ)
    (hf1 : Nat.clog 2 (⌈(D + ε * (1 + L / m) ^ n) / (upper - lower)⌉₊ + 1) ≤ fuel)
    (hf2 : max_iter.toNat ≤ fuel) :
    ∃ out, GenBis.autoregressiveBisectionSearch fuel fn lower upper tol n max_iter = Bw.Res.ok out ∧ out.length = n ∧
      ∀ i, i < n → |out.getD i 0 - xs.getD i 0| ≤ ε * (1 + L / m) ^ i := by
  have hok : searchArgsOk tol max_iter = true := (Bisection.searchArgsOk_iff tol max_iter).mpr ⟨hmi, htol⟩
  obtain ⟨out, e, hl, hb⟩ :=
    autoregressive_bisection_error_bound ht xs hxs hroot h tol max_iter hok D ε hD hxsD hε fuel hf1 hf2
  exact ⟨out, by rw [BisectionGen.gen_autoregressive_eq_model _ _ _ _ _ _ _ hok, e]; rfl, hl, hb⟩

/-- non-vacuity over ℝ: `gen_search_result` on `2x − 37.5`, `[-10, 10]`, `tol = 1e-3`, `max_iter = 200`, every fuel `≥ 200`. -/
theorem gen_search_instance (fuel : ℕ) (hfuel : 200 ≤ fuel) :
    ∃ root ai it, GenBis.bisectionSearch fuel (fun x : ℝ => 2 * x - 37.5) (-10) 10 (1 / 1000) 200 = Bw.Res.ok (root, ai, it) ∧
      0 ≤ ai ∧ ai ≤ 1 ∧ 0 ≤ it ∧ it ≤ 200 ∧ |root - 18.75| ≤ 1 / 1000 := by
  obtain ⟨root, ai, it, e, rest⟩ := search_instance fuel hfuel
  refine ⟨root, ai, it, ?_, rest⟩
  rw [BisectionGen.gen_bisection_search_eq_model, if_pos (by rw [Bisection.searchArgsOk_iff]; norm_num), e]; rfl

/-- the generated definitions at exact `Rat`, by kernel evaluation (the instances the driver executes and the correspondence
compares bit for bit with the real code): the adaptation moves `[-10, 10]` to `[10, 30]` in one step; the search returns
`(75/4, 1, 4)`; the scan on `(x₀, x₁) ↦ (2x₀ − 5, x₁ + x₀ − 5)` returns the preimage `(5/2, 5/2)`; `__call__` on the bijection
`(x₀, x₁) ↦ (2x₀, x₁ + x₀)` at `y = (5, 5)` returns the same; the guards raise for `max_iter = −1`, `tol = 0` and `lower = upper`
and accept `lower < upper`. -/
theorem gen_trace_instance :
    GenBis.adaptInterval 300 (fun x : Rat => 2 * x - 75 / 2) (-10) 10 2 = Bw.Res.ok (10, 30, 1) ∧
    GenBis.bisectionSearch 300 (fun x : Rat => 2 * x - 75 / 2) (-10) 10 (1 / 1000) 200 = Bw.Res.ok (75 / 4, 1, 4) ∧
    GenBis.autoregressiveBisectionSearch 300 (fun x : List Rat => [2 * x.getD 0 0 - 5, x.getD 1 0 + x.getD 0 0 - 5])
      (-10) 10 (1 / 1000) 2 200 = Bw.Res.ok [5 / 2, 5 / 2] ∧
    GenBis.Inverter.call 300 (⟨-10, 10, 1 / 1000, 200⟩ : Bw.Inverter Rat)
      (⟨fun x (_ : Unit) => [2 * x.getD 0 0, x.getD 1 0 + x.getD 0 0], [2]⟩ : Bw.Bijection Rat Unit) [5, 5] ()
      = Bw.Res.ok [5 / 2, 5 / 2] ∧
    GenBis.bisectionSearch 300 (fun x : Rat => x) (-10) 10 (1 / 1000) (-1) = Bw.Res.valueError ∧
    GenBis.bisectionSearch 300 (fun x : Rat => x) (-10) 10 0 5 = Bw.Res.valueError ∧
    GenBis.Inverter.checkInit 0 (⟨1, 1, 1 / 1000, 200⟩ : Bw.Inverter Rat) = Bw.Res.valueError ∧
    GenBis.Inverter.checkInit 0 (⟨-10, 10, 1 / 1000, 200⟩ : Bw.Inverter Rat) = Bw.Res.ok () := by
  refine ⟨?_, ?_, ?_, ?_, ?_, ?_, ?_, ?_⟩ <;> decide +kernel

end BisectionGen

section Audit
/-! ## AUDIT (g27): vacuity / scope checks and instances added by the reviewer; no existing declaration changed -/

/-- AUDIT helper: a `while_loop` with fuel `n` that returns has advanced the adaptation counter by at most `n`. -/
theorem audit_whileFuel_iter_le (f : ℝ → ℝ) : ∀ (n : ℕ) (s s' : AdaptState ℝ),
    whileFuel adaptCond (adaptBody f 2) n s = some s' → s'.iteration ≤ s.iteration + n := by
  intro n
  induction n with
  | zero =>
    intro s s' h
    simp only [whileFuel] at h
    split at h
    · simp at h
    · simp only [Option.some.injEq] at h; subst h; simp
  | succ n ih =>
    intro s s' h
    simp only [whileFuel] at h
    split at h
    · have := ih _ _ h
      have hb : (adaptBody f 2 s).iteration = s.iteration + 1 := by
        by_cases h1 : s.lower_fn_sign = 1
        · rw [(adapt_step f s).1 h1]
        · rw [(adapt_step f s).2 h1]
      rw [hb] at this
      push_cast; omega
    · simp only [Option.some.injEq] at h; subst h; push_cast; omega

/-- AUDIT (why no `gen_autoregressive_exact` exists): the hypothesis `hsolve` — "the generated `_bisection_search` with THESE
`lower < upper`, `tol`, `max_iter`, `fuel` returns the exact root of every strictly increasing function that has one" — is FALSE for
every choice of the parameters: the root `upper + (upper − lower)·2^(fuel+1)` needs `fuel + 2 > fuel` adaptation steps, so the
search runs out of fuel on `x ↦ x − root`.  A theorem with this hypothesis (and `lower < upper`) would be vacuous. -/
theorem gen_autoregressive_exact_hsolve_false {lower upper : ℝ} (h : lower < upper) (tol : ℝ) (max_iter : Int) (fuel : ℕ)
    (hsolve : ∀ (g : ℝ → ℝ) (r : ℝ), StrictMono g → g r = 0 →
      ∃ ai it, GenBis.bisectionSearch fuel g lower upper tol max_iter = Bw.Res.ok (r, ai, it)) : False := by
  set r : ℝ := upper + (upper - lower) * 2 ^ (fuel + 1) with hr
  have hw : 0 < upper - lower := by linarith
  have hg : StrictMono (fun x : ℝ => x - r) := fun a b hab => by simp only; linarith
  obtain ⟨ai, it, e⟩ := hsolve (fun x => x - r) r hg (by simp)
  rw [gen_bisection_search_eq_model] at e
  split at e
  · rw [BisectionGen.ofOption_eq_ok] at e
    unfold bisectionSearch at e
    split at e
    · simp at e
    · rename_i lo hi ai' ea
      have hit := adapt_iterations_exact (fun x => x - r) hg r (by simp) h fuel lo hi ai' ea
      -- the counter is bounded by the fuel
      unfold adaptInterval at ea
      obtain ⟨s', hs', hx⟩ := Option.map_eq_some_iff.mp ea
      have hle := audit_whileFuel_iter_le (fun x => x - r) fuel _ s' hs'
      have hai : ai' = s'.iteration := by
        have := congrArg (fun p => p.2.2) hx; simpa [adaptExit] using this.symm
      have h0 : (adaptInit (fun x => x - r) lower upper).iteration = 0 := rfl
      rw [h0] at hle
      -- but the exact count is clog 2 (2^(fuel+1) + 1) = fuel + 2
      have hmax : max (lower - r) (r - upper) / (upper - lower) = 2 ^ (fuel + 1) := by
        have h1 : r - upper = (upper - lower) * 2 ^ (fuel + 1) := by rw [hr]; ring
        have hp : (0 : ℝ) < 2 ^ (fuel + 1) := by positivity
        have h2 : lower - r ≤ r - upper := by rw [h1, hr]; nlinarith [mul_pos hw hp]
        rw [max_eq_right h2, h1]; field_simp
      have hceil : ⌈max (lower - r) (r - upper) / (upper - lower)⌉₊ = 2 ^ (fuel + 1) := by
        rw [hmax]; exact_mod_cast Nat.ceil_natCast (2 ^ (fuel + 1))
      rw [hceil] at hit
      have hclog : fuel + 1 < Nat.clog 2 (2 ^ (fuel + 1) + 1) := by
        apply (Nat.lt_clog_iff_pow_lt (by norm_num)).mpr
        omega
      rw [hai] at hit
      rw [hit] at hle
      have : (Nat.clog 2 (2 ^ (fuel + 1) + 1) : Int) ≤ fuel := by simpa using hle
      omega
  · simp at e


/-- AUDIT: the library DEFAULTS (`lower, upper = -10, 10`, `tol = 1e-7`, `max_iter = 200`) do reach the requested tolerance for every
strictly increasing `f` whose root is anywhere within `10⁶` of the origin (the property's "1e6 away on either side"): `search_tol`'s
side condition `W / 2^(max_iter+1) ≤ tol` holds, and fuel 200 covers the ≤ 16 adaptation steps. -/
theorem search_tol_defaults_audit (f : ℝ → ℝ) (hf : StrictMono f) (r : ℝ) (hr : f r = 0) (hbox : |r| ≤ 1000000)
    (fuel : ℕ) (hfuel : 200 ≤ fuel) :
    ∃ root ai it, bisectionSearch f (-10) 10 (1 / 10000000) 200 fuel = some (root, ai, it) ∧ |root - r| ≤ 1 / 10000000 := by
  obtain ⟨h1, h2⟩ := abs_le.mp hbox
  have hm : max ((-10 : ℝ) - r) (r - 10) ≤ 1000000 := max_le (by linarith) (by linarith)
  have hclog : Nat.clog 2 (⌈max ((-10 : ℝ) - r) (r - 10) / (10 - -10)⌉₊ + 1) ≤ 16 := by
    apply Nat.clog_le_of_le_pow
    have : ⌈max ((-10 : ℝ) - r) (r - 10) / (10 - -10)⌉₊ ≤ 50000 := by
      rw [Nat.ceil_le]
      have : max ((-10 : ℝ) - r) (r - 10) / (10 - -10) ≤ 1000000 / 20 := by
        rw [show ((10 : ℝ) - -10) = 20 by norm_num]; exact div_le_div_of_nonneg_right hm (by norm_num)
      norm_num at this ⊢; linarith
    omega
  apply search_tol f hf r hr (by norm_num : (-10 : ℝ) < 10) (1 / 10000000) 200
    (by rw [Bisection.searchArgsOk_iff]; norm_num) _ fuel (le_trans hclog (by omega)) (by simpa using hfuel)
  have hp : (0 : ℝ) < 2 ^ ((200 : Int).toNat + 1) := by positivity
  rw [div_le_iff₀ hp]
  have h2 : (2 : ℝ) ^ 50 ≤ 2 ^ ((200 : Int).toNat + 1) := pow_le_pow_right₀ (by norm_num) (by simp)
  have h3 : max (0 : ℝ) (max ((-10 : ℝ) - r) (r - 10)) ≤ 1000000 := max_le (by norm_num) hm
  norm_num at h2 ⊢
  nlinarith

/-- AUDIT (scope of "any continuous strictly increasing function"): every theorem of this file ASSUMES a root `f r = 0`.  Without one
the adaptation loop of the model never returns, whatever the fuel: for an everywhere-positive `f` (e.g. `exp`) both cached signs stay
`+1`, so `cond_fn` stays true.  The property's "terminates" is therefore only established for functions that have a root. -/
theorem adapt_never_returns_without_root_audit (f : ℝ → ℝ) (hpos : ∀ x, 0 < f x) (lower upper : ℝ) (fuel : ℕ) :
    adaptInterval f lower upper fuel = none := by
  have key : ∀ (n : ℕ) (s : AdaptState ℝ), s.lower_fn_sign = 1 → s.upper_fn_sign = 1 →
      whileFuel adaptCond (adaptBody f 2) n s = none := by
    intro n
    induction n with
    | zero => intro s h1 h2; simp [whileFuel, adaptCond, h1, h2]
    | succ n ih =>
      intro s h1 h2
      have hc : adaptCond s = true := by simp [adaptCond, h1, h2]
      simp only [whileFuel, hc, if_true]
      apply ih
      · rw [(adapt_step f s).1 h1]; exact RealInst.jsign_pos (hpos _)
      · rw [(adapt_step f s).1 h1]; exact RealInst.jsign_pos (hpos _)
  unfold adaptInterval
  rw [key fuel _ (by simp [adaptInit]; exact RealInst.jsign_pos (hpos _)) (by simp [adaptInit]; exact RealInst.jsign_pos (hpos _))]
  rfl
end Audit

end C10
