import Flowjaxv.Proofs.Train
import Flowjaxv.Proofs.TrainGen
/-!
# C15 — fit_to_data never loses, duplicates or misaligns data

Property theorems only (lemmas in `Proofs/Train.lean`, `Proofs/TrainGen.lean`).  The first part is about the
hand-written model `Model/Train.lean` (`fitData`, `trainValSplit`, `addBatch`, `epochLoop`, key paths), tied to
the real `fit_to_data` call by call (rows of every array, key, train-step vs validation, order) by
`tools/props/c15.py`; the second part ("The second tie") proves the functions and loops REGENERATED from the
source (`Gen/TrainGen.lean`) equal to that model and restates the claims on them.

Reading guide.  `perm p m` stands for `jr.permutation(key at path p, m)`; the only thing assumed about
it is that it returns a permutation of `0..m-1` (`Valid.hperm`).  Data rows are identified with their
indices: `indexRun perm n nVal b E` is the run on the array `[0, …, n-1]` with
`nVal = round(val_prop · n)`, batch size `b`, `E` epochs; `rows_aligned` shows that the run on any
array is the image of the index run.  All theorems hold for every `n`, `nVal`, `b`, `E` and every
`perm` subject to `Valid` (both parts non-empty, `batch_size ≥ 1`).
-/
open Train

namespace C15

/-- the run on index-tagged rows `0..n-1` -/
abbrev indexRun (perm : Path → Nat → List Nat) (n nVal b E : Nat) : Run Nat :=
  fitDataCore perm nVal b E (List.range n)

/-- the property's hypotheses: `jr.permutation` returns permutations; both parts non-empty;
`batch_size ≥ 1` -/
structure Valid (perm : Path → Nat → List Nat) (n nVal b : Nat) : Prop where
  hperm : ∀ p m, (perm p m).Perm (List.range m)
  hv0 : 0 < nVal
  hvn : nVal < n
  hb : 0 < b

/-- under the hypotheses the guarded model is defined (the real call does not raise), and it raises
(`none`) exactly when a part is empty or `batch_size = 0` while at least one epoch is run -/
theorem run_defined {perm : Path → Nat → List Nat} {n nVal b : Nat} (h : Valid perm n nVal b) (E : Nat) :
    fitData perm nVal b E (List.range n) = some (indexRun perm n nVal b E) ∧
    (∀ (perm' : Path → Nat → List Nat) (n' nVal' b' E' : Nat),
      fitData perm' nVal' b' E' (List.range n') = none ↔
        ¬ (nVal' ≤ n' ∧ (E' = 0 ∨ (0 < nVal' ∧ nVal' < n' ∧ 0 < b')))) := by
  constructor
  · have : nVal ≤ (List.range n).length ∧
        (E = 0 ∨ (0 < nVal ∧ nVal < (List.range n).length ∧ 0 < b)) := by
      simp only [List.length_range]; exact ⟨Nat.le_of_lt h.hvn, Or.inr ⟨h.hv0, h.hvn, h.hb⟩⟩
    simp only [fitData, this, and_self, if_true]
  · intro perm' n' nVal' b' E'
    simp only [fitData, List.length_range]
    split <;> simp_all

/-- the training and validation sets partition the dataset -/
theorem split_partition {perm : Path → Nat → List Nat} {n nVal b : Nat} (h : Valid perm n nVal b) (E : Nat) :
    ((indexRun perm n nVal b E).train ++ (indexRun perm n nVal b E).val).Perm (List.range n) ∧
    (indexRun perm n nVal b E).train.length = n - nVal ∧
    (indexRun perm n nVal b E).val.length = nVal ∧
    ((indexRun perm n nVal b E).train ++ (indexRun perm n nVal b E).val).Nodup ∧
    ∀ i, i ∈ (indexRun perm n nVal b E).train → i ∉ (indexRun perm n nVal b E).val := by
  have hs := fitDataCore_split perm h.hperm nVal b E (List.range n)
    (by simp only [List.length_range]; exact Nat.le_of_lt h.hvn)
  simp only [List.length_range] at hs
  obtain ⟨h1, h2, h3⟩ := hs
  have hnd : ((indexRun perm n nVal b E).train ++ (indexRun perm n nVal b E).val).Nodup :=
    h1.nodup_iff.mpr List.nodup_range
  refine ⟨h1, h2, h3, hnd, fun i hi hv => ?_⟩
  exact (List.nodup_append.mp hnd).2.2 i hi i hv rfl

/-- Alignment.  For data arrays `x = [xf 0, …, xf (n-1)]` and `condition = [cf 0, …, cf (n-1)]` (any row
types), the run on each array is the image of ONE index run under `xf` resp. `cf` — same split, same
orders, same batches, same keys: the `j`-th row of the `k`-th call is `(xf i, cf i)` for the single
index `i` found at that position of the index run.  (No hypothesis needed: the same permutation acts on
every array at the split and at every shuffle.) -/
theorem rows_aligned {X C : Type} (xf : Nat → X) (cf : Nat → C) (perm : Path → Nat → List Nat)
    (n nVal b E : Nat) :
    fitData perm nVal b E ((List.range n).map xf) = (fitData perm nVal b E (List.range n)).map (Run.map xf) ∧
    fitData perm nVal b E ((List.range n).map cf) = (fitData perm nVal b E (List.range n)).map (Run.map cf) :=
  ⟨fitData_map xf perm nVal b E _, fitData_map cf perm nVal b E _⟩

/-- within an epoch no row is used twice (train steps; likewise validation calls) -/
theorem epoch_no_duplicates {perm : Path → Nat → List Nat} {n nVal b : Nat} (h : Valid perm n nVal b) (E : Nat) :
    ∀ ep ∈ (indexRun perm n nVal b E).epochs,
      (ep.trainCalls.flatMap (·.rows)).Nodup ∧ (ep.valCalls.flatMap (·.rows)).Nodup := by
  intro ep hep
  obtain ⟨h1, h2, h3, h4, _⟩ := index_epoch_facts perm h.hperm n nVal b E (Nat.le_of_lt h.hvn) ep hep
  obtain ⟨_, _, _, hnd, _⟩ := split_partition h E
  have nd := List.nodup_append.mp hnd
  rw [flatMap_rows, flatMap_rows, h3, h4, addBatch_flatten, addBatch_flatten]
  exact ⟨(List.take_sublist _ _).nodup (h1.nodup_iff.mpr nd.1), (List.take_sublist _ _).nodup (h2.nodup_iff.mpr nd.2.1)⟩

/-- Only a trailing remainder smaller than one batch is skipped.  With `nT = n − nVal` train rows and
`b' = min b nT`: this epoch's order is a permutation of the train set; the rows used by the train steps,
in order, are exactly the first `nT − nT % b'` rows of this epoch's order; so the rows skipped are the last
`nT % b'` of that order, and `nT % b' < b'`.  Same for the validation calls. -/
theorem epoch_drops_only_tail {perm : Path → Nat → List Nat} {n nVal b : Nat} (h : Valid perm n nVal b) (E : Nat) :
    ∀ ep ∈ (indexRun perm n nVal b E).epochs,
      (ep.trainOrder.Perm (indexRun perm n nVal b E).train ∧
       ep.trainCalls.flatMap (·.rows) = ep.trainOrder.take ((n - nVal) - (n - nVal) % min b (n - nVal)) ∧
       ep.trainCalls.flatMap (·.rows) ++ ep.trainOrder.drop ((n - nVal) - (n - nVal) % min b (n - nVal)) = ep.trainOrder ∧
       (ep.trainOrder.drop ((n - nVal) - (n - nVal) % min b (n - nVal))).length = (n - nVal) % min b (n - nVal) ∧
       (n - nVal) % min b (n - nVal) < min b (n - nVal)) ∧
      (ep.valOrder.Perm (indexRun perm n nVal b E).val ∧
       ep.valCalls.flatMap (·.rows) = ep.valOrder.take (nVal - nVal % min b nVal) ∧
       ep.valCalls.flatMap (·.rows) ++ ep.valOrder.drop (nVal - nVal % min b nVal) = ep.valOrder ∧
       (ep.valOrder.drop (nVal - nVal % min b nVal)).length = nVal % min b nVal ∧
       nVal % min b nVal < min b nVal) := by
  intro ep hep
  obtain ⟨h1, h2, h3, h4, l1, l2⟩ := index_epoch_facts perm h.hperm n nVal b E (Nat.le_of_lt h.hvn) ep hep
  have hb := h.hb; have hv0 := h.hv0; have hvn := h.hvn
  have e1 : ep.trainCalls.flatMap (·.rows) = ep.trainOrder.take ((n - nVal) - (n - nVal) % min b (n - nVal)) := by
    rw [flatMap_rows, h3, addBatch_flatten, l1, used_eq]
  have e2 : ep.valCalls.flatMap (·.rows) = ep.valOrder.take (nVal - nVal % min b nVal) := by
    rw [flatMap_rows, h4, addBatch_flatten, l2, used_eq]
  have m1 : (n - nVal) % min b (n - nVal) < min b (n - nVal) := Nat.mod_lt _ (by omega)
  have m2 : nVal % min b nVal < min b nVal := Nat.mod_lt _ (by omega)
  have le1 : (n - nVal) % min b (n - nVal) ≤ n - nVal := Nat.mod_le _ _
  have le2 : nVal % min b nVal ≤ nVal := Nat.mod_le _ _
  refine ⟨⟨h1, e1, by rw [e1, List.take_append_drop], by rw [List.length_drop, l1]; omega, m1⟩,
    ⟨h2, e2, by rw [e2, List.take_append_drop], by rw [List.length_drop, l2]; omega, m2⟩⟩

/-- validation rows never take part in a gradient step (in every epoch, forever: the split is done once
and shuffles are within-part); symmetrically validation calls only see validation rows -/
theorem val_never_in_step {perm : Path → Nat → List Nat} {n nVal b : Nat} (h : Valid perm n nVal b) (E : Nat) :
    ∀ ep ∈ (indexRun perm n nVal b E).epochs,
      (∀ c ∈ ep.trainCalls, ∀ i ∈ c.rows,
        i ∈ (indexRun perm n nVal b E).train ∧ i ∉ (indexRun perm n nVal b E).val) ∧
      (∀ c ∈ ep.valCalls, ∀ i ∈ c.rows,
        i ∈ (indexRun perm n nVal b E).val ∧ i ∉ (indexRun perm n nVal b E).train) := by
  intro ep hep
  obtain ⟨h1, h2, h3, h4, _⟩ := index_epoch_facts perm h.hperm n nVal b E (Nat.le_of_lt h.hvn) ep hep
  obtain ⟨_, _, _, _, hdis⟩ := split_partition h E
  constructor
  · intro c hc i hi
    have : i ∈ ep.trainCalls.flatMap (·.rows) := List.mem_flatMap.mpr ⟨c, hc, hi⟩
    rw [flatMap_rows, h3, addBatch_flatten] at this
    have hm := h1.mem_iff.mp (List.mem_of_mem_take this)
    exact ⟨hm, hdis i hm⟩
  · intro c hc i hi
    have : i ∈ ep.valCalls.flatMap (·.rows) := List.mem_flatMap.mpr ⟨c, hc, hi⟩
    rw [flatMap_rows, h4, addBatch_flatten] at this
    have hm := h2.mem_iff.mp (List.mem_of_mem_take this)
    exact ⟨hm, fun ht => hdis i ht hm⟩

/-- `E` epochs; in each, `nT / b'` train batches of exactly `b' = min b nT` rows and `nVal / b''`
validation batches of exactly `b'' = min b nVal` rows, at least one of each -/
theorem batches_shape {perm : Path → Nat → List Nat} {n nVal b : Nat} (h : Valid perm n nVal b) (E : Nat) :
    (indexRun perm n nVal b E).epochs.length = E ∧
    ∀ ep ∈ (indexRun perm n nVal b E).epochs,
      ep.trainCalls.length = (n - nVal) / min b (n - nVal) ∧
      (∀ c ∈ ep.trainCalls, c.rows.length = min b (n - nVal)) ∧
      ep.valCalls.length = nVal / min b nVal ∧
      (∀ c ∈ ep.valCalls, c.rows.length = min b nVal) ∧
      0 < (n - nVal) / min b (n - nVal) ∧ 0 < nVal / min b nVal := by
  refine ⟨fitDataCore_epochs_length perm nVal b E _, fun ep hep => ?_⟩
  obtain ⟨_, _, h3, h4, l1, l2⟩ := index_epoch_facts perm h.hperm n nVal b E (Nat.le_of_lt h.hvn) ep hep
  have hb := h.hb; have hv0 := h.hv0; have hvn := h.hvn
  have c1 : ep.trainCalls.length = (addBatch b ep.trainOrder).length := by rw [← h3, List.length_map]
  have c2 : ep.valCalls.length = (addBatch b ep.valOrder).length := by rw [← h4, List.length_map]
  rw [addBatch_length, l1] at c1
  rw [addBatch_length, l2] at c2
  refine ⟨c1, fun c hc => ?_, c2, fun c hc => ?_,
    Nat.div_pos (Nat.min_le_right _ _) (by omega), Nat.div_pos (Nat.min_le_right _ _) (by omega)⟩
  · have := addBatch_row_length b ep.trainOrder c.rows (by rw [← h3]; exact List.mem_map.mpr ⟨c, hc, rfl⟩)
    rw [l1] at this; exact this
  · have := addBatch_row_length b ep.valOrder c.rows (by rw [← h4]; exact List.mem_map.mpr ⟨c, hc, rfl⟩)
    rw [l2] at this; exact this

/-- Fresh keys.  Every key handed to a consumer — the split permutation, each epoch's two shuffles, every
`loss_fn` call (train step or validation) — is a different node of the split tree, even when nodes are
identified by their child indices only (so no key is split twice with different arities either); and no
consumed key is ever passed to `jr.split` (`splitKeys` = parents of the consumed keys).  Consequently,
for ANY key type and `split` function that is injective in (parent, child index) and never returns the
root key, the consumed keys are pairwise distinct keys and disjoint from the keys that were split.
Holds for every `perm`, `n`, `nVal`, `b`, `E` and any data. -/
theorem keys_fresh {α : Type} (perm : Path → Nat → List Nat) (nVal b E : Nat) (a : List α) :
    ((fitDataCore perm nVal b E a).consumedKeys.map idx).Nodup ∧
    (fitDataCore perm nVal b E a).consumedKeys.Nodup ∧
    (∀ p ∈ (fitDataCore perm nVal b E a).consumedKeys, ∀ q ∈ (fitDataCore perm nVal b E a).splitKeys,
      idx p ≠ idx q) ∧
    ∀ (K : Type) (split : K → Nat → Nat → K) (root : K),
      (∀ k a i k' a' i', split k a i = split k' a' i' → k = k' ∧ i = i') → (∀ k a i, split k a i ≠ root) →
      ((fitDataCore perm nVal b E a).consumedKeys.map (interp split root)).Nodup ∧
      ∀ p ∈ (fitDataCore perm nVal b E a).consumedKeys, ∀ q ∈ (fitDataCore perm nVal b E a).splitKeys,
        interp split root p ≠ interp split root q := by
  obtain ⟨ars, hk⟩ := run_keys perm nVal b E a
  have n1 : ((fitDataCore perm nVal b E a).consumedKeys.map idx).Nodup := by
    rw [hk]; exact consumedFrom_nodup ars []
  have n3 : ∀ p ∈ (fitDataCore perm nVal b E a).consumedKeys, ∀ q ∈ (fitDataCore perm nVal b E a).splitKeys,
      idx p ≠ idx q := by
    intro p hp q hq
    simp only [Run.splitKeys, List.mem_map] at hq
    obtain ⟨q', hq', rfl⟩ := hq
    rw [hk] at hp hq'
    exact consumedFrom_not_parent ars p hp q' hq'
  refine ⟨n1, ?_, n3, fun K split root hinj hroot => ⟨?_, fun p hp q hq e => ?_⟩⟩
  · have := nodup_map_of_nodup_map idx id _ n1 (fun x y e => congrArg idx e)
    simpa using this
  · exact nodup_map_of_nodup_map idx (interp split root) _ n1 (interp_idx split root hinj hroot)
  · exact n3 p hp q hq (interp_idx split root hinj hroot p q e)

/-- Determinism.  The run (split, orders, batches, keys — everything) is a function of the data, the
configuration and the permutations drawn for the shuffle keys the run consumes: a second execution in
which `jr.permutation` returns the same permutations for those keys (as it does for the same root key)
reproduces the run exactly, whatever it would return for any other key. -/
theorem run_deterministic {α : Type} (perm perm' : Path → Nat → List Nat) (nVal b E : Nat) (a : List α)
    (hsplit : perm (fitDataCore perm nVal b E a).splitKey = perm' (fitDataCore perm nVal b E a).splitKey)
    (hep : ∀ ep ∈ (fitDataCore perm nVal b E a).epochs,
      perm ep.trainShuffleKey = perm' ep.trainShuffleKey ∧ perm ep.valShuffleKey = perm' ep.valShuffleKey) :
    fitDataCore perm' nVal b E a = fitDataCore perm nVal b E a ∧
    fitData perm' nVal b E a = fitData perm nVal b E a := by
  have hs : perm (child [] 2 1) = perm' (child [] 2 1) := hsplit
  have hcore : fitDataCore perm' nVal b E a = fitDataCore perm nVal b E a := by
    simp only [fitDataCore, ← hs]
    rw [epochLoop_congr perm perm' b E _ _ _ hep]
  exact ⟨hcore, by simp only [fitData, hcore]⟩

/-! ### non-vacuity -/

/-- the hypotheses are satisfiable (e.g. every draw reverses the order), and a concrete run: `n = 7`,
`nVal = 2`, `batch_size = 2`, one epoch — split `[6,5,4,3,2] | [1,0]`, epoch order `[2,3,4,5,6]`, train
batches `[2,3]`, `[4,5]`, row `6` skipped; validation batch `[0,1]` -/
theorem valid_instance :
    Valid (fun _ m => (List.range m).reverse) 7 2 2 ∧
    (indexRun (fun _ m => (List.range m).reverse) 7 2 2 1).train = [6, 5, 4, 3, 2] ∧
    (indexRun (fun _ m => (List.range m).reverse) 7 2 2 1).val = [1, 0] ∧
    (indexRun (fun _ m => (List.range m).reverse) 7 2 2 1).epochs.map
        (fun ep => (ep.trainCalls.map (·.rows), ep.valCalls.map (·.rows))) =
      [([[2, 3], [4, 5]], [[0, 1]])] := by
  refine ⟨⟨fun _ m => List.reverse_perm _, by omega, by omega, by omega⟩, by decide, by decide, by decide⟩

/-! ## The second tie: the data flow REGENERATED from the source

`Gen/TrainGen.lean` (made by `tools/py2lean/py2loop.py` from `train_utils.py` and `data_fit.py` on every run) contains
`_add_batch`, `get_batches`, `train_val_split` and the three loops of `fit_to_data` as Lean functions over the library
primitives of `Model/TrainWorld.lean`.  The theorems below (lemmas in `Proofs/TrainGen.lean`) prove them equal to the hand model
above for EVERY world `W` (permutation per key, loss function, optimiser), batch size, data — so `split_partition`,
`epoch_no_duplicates`, `epoch_drops_only_tail`, `val_never_in_step`, `batches_shape`, `keys_fresh`, `run_deterministic` are
theorems about the code as it is now — and restate the main claims on the generated run.

`TrainGen.genRun W dist x condition vp b i E` is the `Train.Run` read off the generated `fit_to_data` for array `i` of `data`
(`0` = `x`, `1` = `condition`): its calls are the `(key, rows)` the generated loops hand to `step` / `loss_fn`. -/
section Generated
open TrainGen
variable {α π ω γ υ : Type} (W : World α π ω γ υ)

/-- the generated `_add_batch` (`min`, `//`, slice, reshape over Python ints) and `get_batches` are the hand model's for every
array and batch size; `_add_batch` raises (`ZeroDivisionError`) exactly when `min(batch_size, len) = 0` -/
theorem gen_add_batch_eq (a : List α) (as : List (List α)) (b : Nat) :
    GenTrain.addBatch a (b : Int) = addBatch b a ∧
    (GenTrain.addBatch_raises a (b : Int) = true ↔ min b a.length = 0) ∧
    GenTrain.getBatches as (b : Int) = as.map (addBatch b) :=
  ⟨addBatch_eq a b, addBatch_raises_iff a b, getBatches_eq as b⟩

/-- the generated `train_val_split` on arrays with `n` rows, when `round(val_prop * n) = r ≤ n` (Python `round`: half to even
on the float product): every array is split as the hand model does with `nVal = r` and the permutation drawn for `key` — the
SAME permutation for every array; and for a valid permutation the parts have `n − r` and `r` rows and partition the array. -/
theorem gen_split_sizes_eq (key : Path) (as : List (List α)) (vp : Float) (n r : Nat)
    (hne : as ≠ []) (hlen : ∀ a ∈ as, a.length = n) (hr : Py.round (Py.fmul vp (n : Int)) = (r : Int)) (hrn : r ≤ n) :
    GenTrain.trainValSplit W key as vp =
      (as.map (fun a => (trainValSplit (W.perm key n) r a).1), as.map (fun a => (trainValSplit (W.perm key n) r a).2)) ∧
    ((W.perm key n).Perm (List.range n) → ∀ a ∈ as,
      (trainValSplit (W.perm key n) r a).1.length = n - r ∧ (trainValSplit (W.perm key n) r a).2.length = r ∧
      ((trainValSplit (W.perm key n) r a).1 ++ (trainValSplit (W.perm key n) r a).2).Perm a) := by
  refine ⟨trainValSplit_eq W key as vp n r hne hlen hr hrn, fun hp a ha => ?_⟩
  have hl := hlen a ha
  obtain ⟨h1, h2, h3⟩ := trainValSplit_spec (π₀ := W.perm key n) (a := a) r (by rw [hl]; exact hp) (by rw [hl]; exact hrn)
  rw [hl] at h2
  exact ⟨h2, h3, h1⟩

/-- **One generated epoch** (`GenTrain.fitToData_loop1` on an unbroken loop state), data part: the key, parameters, optimiser
state and data it leaves are `TrainGen.dataNext` — `key, *subkeys = jr.split(key, 3)`; both data sets permuted array by array
with `subkeys[0]` / `subkeys[1]`; one `key, subkey = jr.split(key)` and one `step` per train batch, then one split and one
plain `loss_fn` call per validation batch, on `zip(*get_batches(…))` (`TrainGen.epochCalls`, built from the hand model's
`addBatch`, `lossCalls`, `advance`). -/
theorem gen_fit_epoch_eq (p b : Nat) (s : GenTrain.FitToDataSt1 α π ω) (i : Int) (hs : s.brk = false) :
    dataOf (GenTrain.fitToData_loop1 W p b () s i) = dataNext W b (dataOf s) ∧
    (dataNext W b (dataOf s)).train_data = s.train_data.map (Py.permutation W (child s.key 3 1)) ∧
    (dataNext W b (dataOf s)).val_data = s.val_data.map (Py.permutation W (child s.key 3 2)) ∧
    (dataNext W b (dataOf s)).params =
      ((epochCalls W b s.key s.train_data s.val_data).1.foldl (trainFold W) (s.params, s.opt_state, [])).1 ∧
    (GenTrain.fitToData_loop1 W p b () s i).losses_train = s.losses_train ++
      [meanLoss W ((epochCalls W b s.key s.train_data s.val_data).1.foldl (trainFold W) (s.params, s.opt_state, [])).2.2] ∧
    (GenTrain.fitToData_loop1 W p b () s i).losses_val = s.losses_val ++
      [meanLoss W ((epochCalls W b s.key s.train_data s.val_data).2.map
        (fun c => W.lossFn (dataNext W b (dataOf s)).params (callArgs c)))] := by
  rw [loop1_eq W p b s i hs]
  exact ⟨rfl, rfl, rfl, rfl, rfl, rfl⟩

/-- the generated epoch seen from array `i` of equally long arrays IS one step of the hand model's `epochLoop` on that array:
same shuffle keys, same orders, same batches with the same call keys, same key afterwards -/
theorem gen_epoch_dataflow_eq (b n m i : Nat) (d : DataSt α π ω) (hT : ∀ a ∈ d.train_data, a.length = n)
    (hV : ∀ a ∈ d.val_data, a.length = m) (hiT : i < d.train_data.length) (hiV : i < d.val_data.length) :
    [genEpochRec W b d i] = epochLoop W.perm b 1 d.key (d.train_data.getD i []) (d.val_data.getD i []) :=
  (genEpochRec_eq W b n m i d hT hV hiT hiV).1

/-- **Data flow of the generated `fit_to_data`** = the hand model's `fitDataCore`, for `x` and for `condition`, with the same
permutations (`n` rows, `round(val_prop * n) = r ≤ n`). -/
theorem gen_fit_dataflow_eq (dist : π) (x : List α) (condition : Option (List α)) (vp : Float) (b i E n r : Nat)
    (hlen : ∀ a ∈ dataArrays x condition, a.length = n) (hi : i < (dataArrays x condition).length)
    (hr : Py.round (Py.fmul vp (n : Int)) = (r : Int)) (hrn : r ≤ n) :
    genRun W dist x condition vp b i E = fitDataCore W.perm r b E ((dataArrays x condition).getD i []) :=
  genRun_eq W dist x condition vp b i E n r hlen hi hr hrn

/-- early stopping does not change the data flow of the epochs that are run: the generated loop with its `break` ends in the
(key, parameters, optimiser state, data) reached after `epochs` un-stopped epochs, and the epoch records of `genRun` are those
of the states `dataAt 0 … dataAt (E−1)` -/
theorem gen_early_stop_keeps_dataflow (key : Path) (dist : π) (x : List α) (condition : Option (List α)) (maxE p b : Nat) (vp : Float) :
    dataOf (List.foldl (GenTrain.fitToData_loop1 W (p : Int) (b : Int) ())
        ⟨child key 2 0, dist, dist, W.optInit dist, (fitData0 W key dist x condition vp).train_data,
          (fitData0 W key dist x condition vp).val_data, [], [], false⟩ (Py.range (maxE : Int))) =
      dataAt W b (fitData0 W key dist x condition vp)
        (fitLoop (trnScript W b (fitData0 W key dist x condition vp)) (valScript W b (fitData0 W key dist x condition vp))
          p maxE ⟨0, [], [], 0⟩).epochs ∧
    ∀ i E, genEpochRecs W b i E (fitData0 W key dist x condition vp) =
      (List.range E).map (fun e => genEpochRec W b (dataAt W b (fitData0 W key dist x condition vp) e) i) :=
  ⟨fit_final_state W key dist x condition maxE p b vp, fun i E => genEpochRecs_eq_map W b i E _⟩

/-- **Alignment, on the generated run.**  For `x = [xf 0, …, xf (n-1)]` and `condition = [cf 0, …, cf (n-1)]`, the generated run
seen from `x` and seen from `condition` are the images under `xf` resp. `cf` of ONE index run (`indexRun`): every `step` /
validation call gets row `xf j` of `x` together with row `cf j` of `condition` for the same indices `j`, with the same key. -/
theorem gen_rows_aligned (xf cf : Nat → α) (dist : π) (vp : Float) (n r b E : Nat)
    (hr : Py.round (Py.fmul vp (n : Int)) = (r : Int)) (hrn : r ≤ n) :
    genRun W dist ((List.range n).map xf) (some ((List.range n).map cf)) vp b 0 E = (indexRun W.perm n r b E).map xf ∧
    genRun W dist ((List.range n).map xf) (some ((List.range n).map cf)) vp b 1 E = (indexRun W.perm n r b E).map cf ∧
    genRun W dist ((List.range n).map xf) none vp b 0 E = (indexRun W.perm n r b E).map xf := by
  have hl2 : ∀ a ∈ dataArrays ((List.range n).map xf) (some ((List.range n).map cf)), a.length = n := by
    intro a ha
    simp only [dataArrays, Option.elim, List.mem_cons, List.not_mem_nil, or_false] at ha
    rcases ha with rfl | rfl <;> simp
  have hl1 : ∀ a ∈ dataArrays ((List.range n).map xf) none, a.length = n := by
    intro a ha
    simp only [dataArrays, Option.elim, List.mem_cons, List.not_mem_nil, or_false] at ha
    subst ha; simp
  refine ⟨?_, ?_, ?_⟩
  · rw [genRun_eq W dist _ _ vp b 0 E n r hl2 (by simp [dataArrays]) hr hrn]
    exact fitDataCore_map xf W.perm r b E _
  · rw [genRun_eq W dist _ _ vp b 1 E n r hl2 (by simp [dataArrays]) hr hrn]
    exact fitDataCore_map cf W.perm r b E _
  · rw [genRun_eq W dist _ _ vp b 0 E n r hl1 (by simp [dataArrays]) hr hrn]
    exact fitDataCore_map xf W.perm r b E _

/-- the property's clauses on the generated run of index-tagged rows (`x = [0, …, n-1]`): the generated run IS `indexRun`, hence
(under `Valid`: permutations valid, both parts non-empty, `batch_size ≥ 1`) train / validation sets partition the data, within
an epoch no row is used twice and only a trailing remainder smaller than a batch is skipped, validation rows never reach a
`step`, and every key handed to a consumer is fresh. -/
theorem gen_run_main (Wn : World Nat π ω γ υ) (dist : π) (vp : Float) (n r b E : Nat)
    (hr : Py.round (Py.fmul vp (n : Int)) = (r : Int)) (h : Valid Wn.perm n r b) :
    genRun Wn dist (List.range n) none vp b 0 E = indexRun Wn.perm n r b E ∧
    ((genRun Wn dist (List.range n) none vp b 0 E).train ++ (genRun Wn dist (List.range n) none vp b 0 E).val).Perm (List.range n) ∧
    (∀ ep ∈ (genRun Wn dist (List.range n) none vp b 0 E).epochs,
      (ep.trainCalls.flatMap (·.rows)).Nodup ∧
      ep.trainCalls.flatMap (·.rows) = ep.trainOrder.take ((n - r) - (n - r) % min b (n - r)) ∧
      (n - r) % min b (n - r) < min b (n - r) ∧
      (∀ c ∈ ep.trainCalls, ∀ j ∈ c.rows, j ∈ (genRun Wn dist (List.range n) none vp b 0 E).train ∧
        j ∉ (genRun Wn dist (List.range n) none vp b 0 E).val)) ∧
    ((genRun Wn dist (List.range n) none vp b 0 E).consumedKeys.map idx).Nodup := by
  have hl1 : ∀ a ∈ dataArrays (List.range n) none, a.length = n := by
    intro a ha
    simp only [dataArrays, Option.elim, List.mem_cons, List.not_mem_nil, or_false] at ha
    subst ha; simp
  have e : genRun Wn dist (List.range n) none vp b 0 E = indexRun Wn.perm n r b E :=
    genRun_eq Wn dist _ _ vp b 0 E n r hl1 (by simp [dataArrays]) hr (Nat.le_of_lt h.hvn)
  rw [e]
  refine ⟨rfl, (split_partition h E).1, fun ep hep => ?_, (keys_fresh Wn.perm r b E (List.range n)).1⟩
  obtain ⟨⟨_, h2, _, _, h5⟩, _⟩ := epoch_drops_only_tail h E ep hep
  exact ⟨(epoch_no_duplicates h E ep hep).1, h2, h5, (val_never_in_step h E ep hep).1⟩

end Generated

/-! ## Audit (g27): non-vacuity of the hypothesis sets used above -/
section Audit
open Train TrainGen
/-- a concrete world whose `jr.permutation` reverses (so it is NOT the identity) -/
def auditWorld : World Nat Nat Unit Unit Unit :=
  ⟨fun _ m => (List.range m).reverse, fun p _ => ((p : Int), ()), fun _ _ => 0, fun _ => (), fun _ _ _ => ((), ()),
    fun p _ => p + 1, fun l => l.headD 0, fun l _ => l⟩

/-- `gen_run_main`'s hypothesis set is satisfiable EXCEPT for `hr`, which stays a hypothesis here too: `Py.round (Py.fmul vp n)` is a
`Float` computation (`Float.floor`, `Float.toUInt64`, `*`) that the kernel cannot evaluate, so for no concrete `vp` can `hr` be
proved inside Lean (`decide` and `rfl` get stuck and compiled evaluation is not allowed here).  All generated-code theorems of C15 that mention `hr`
(`gen_split_sizes_eq`, `gen_fit_dataflow_eq`, `gen_rows_aligned`, `gen_run_main`) are therefore conditional on a fact only the driver
can observe at run time.  Given `hr` for `n = 7`, `r = 2`, the rest is inhabited (`Valid` with a reversing permutation, `b = 2`): -/
theorem gen_run_main_audit_instance (vp : Float) (hr : Py.round (Py.fmul vp ((7 : Nat) : Int)) = ((2 : Nat) : Int)) :
    genRun auditWorld 0 (List.range 7) none vp 2 0 1 = indexRun auditWorld.perm 7 2 2 1 ∧
    (genRun auditWorld 0 (List.range 7) none vp 2 0 1).train = [6, 5, 4, 3, 2] ∧
    (genRun auditWorld 0 (List.range 7) none vp 2 0 1).epochs.map (fun ep => ep.trainCalls.map (·.rows)) = [[[2, 3], [4, 5]]] := by
  have hv : Valid auditWorld.perm 7 2 2 := ⟨fun _ m => List.reverse_perm _, by omega, by omega, by omega⟩
  have h := (gen_run_main auditWorld 0 vp 7 2 2 1 hr hv).1
  rw [h]
  exact ⟨rfl, by decide, by decide⟩
end Audit

end C15
