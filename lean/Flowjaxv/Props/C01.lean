import Flowjaxv.Proofs.Leaves
import Flowjaxv.Proofs.Rqs
import Flowjaxv.Proofs.Planar
import Flowjaxv.Proofs.Triangular
import Flowjaxv.Proofs.LogDet
import Flowjaxv.Proofs.NetLawful
/-!
# C01 — every bijection is invertible: inverse undoes transform, both ways

Property theorems only (helper lemmas live in `Proofs/`).  Every statement is about the
definitions *generated from /repo* (`Gen/Leaves.lean`, `Gen/Combinators.lean`) packaged as
`Bij` records by `Model/ToBij.lean`.  `Bij.Lawful b D E` says: `fwd : D → E`, `inv : E → D`,
`inv (fwd x) = x` on `D`, `fwd (inv y) = y` on `E`, and the point returned by each
`…_and_log_det` variant equals the plain method's.
-/
open Gen Set

namespace C01

/-- Affine(loc, scale), any non-zero scale of either sign: ℝ ↔ ℝ. -/
theorem affine_lawful {C : Type} (p : Affine ℝ) (h : p.scale ≠ 0) :
    (p.toBij : Bij ℝ C ℝ).Lawful univ univ := Leaves.affine_lawful p h

theorem loc_lawful {C : Type} (p : Loc ℝ) : (p.toBij : Bij ℝ C ℝ).Lawful univ univ :=
  Leaves.loc_lawful p

theorem scale_lawful {C : Type} (p : Scale ℝ) (h : p.scale ≠ 0) :
    (p.toBij : Bij ℝ C ℝ).Lawful univ univ := Leaves.scale_lawful p h

/-- Exp: ℝ ↔ (0,∞). -/
theorem exp_lawful {C : Type} : (Exp.toBij : Bij ℝ C ℝ).Lawful univ (Ioi 0) := Leaves.exp_lawful

/-- SoftPlus: ℝ ↔ (0,∞); the inverse `log(-expm1(-y)) + y` really inverts `log(1+eˣ)`. -/
theorem softplus_lawful {C : Type} : (SoftPlus.toBij : Bij ℝ C ℝ).Lawful univ (Ioi 0) :=
  Leaves.softplus_lawful

/-- Tanh: ℝ ↔ (−1,1). -/
theorem tanh_lawful {C : Type} : (Tanh.toBij : Bij ℝ C ℝ).Lawful univ (Ioo (-1) 1) :=
  Leaves.tanh_lawful

/-- LeakyTanh(max_val) as built by the generated constructor, any `max_val > 0`: ℝ ↔ ℝ,
switch points `|x| = max_val` and `|y| = tanh max_val` included. -/
theorem leakytanh_lawful {C : Type} {m : ℝ} (hm : 0 < m) :
    ((LeakyTanh.init m).toBij : Bij ℝ C ℝ).Lawful univ univ :=
  Leaves.leakytanh_lawful (Leaves.leaky_init_wf hm)

/-- The forward and the backward branch tests of LeakyTanh always select the same piece. -/
theorem leakytanh_branch_agree {m : ℝ} (hm : 0 < m) (x : ℝ) :
    ((LeakyTanh.init m).max_val ≤ |x|) ↔
      (Real.tanh (LeakyTanh.init m).max_val ≤ |(LeakyTanh.init m).transform x|) :=
  Leaves.leaky_branch_agree (Leaves.leaky_init_wf hm) x

/-- Rational-quadratic spline, any parameters the constructor can produce (`Rqs.RqsWF`: knots
strictly increasing from one interval end to the other, derivatives > 0): `inverse (transform x) = x`
and `transform (inverse y) = y` for EVERY real x, y — bin interiors, exactly on a knot, exactly on
either interval end (the input on which the pinned tree failed, defect D1), and outside. -/
theorem rqs_lawful {C : Type} {p : RationalQuadraticSpline ℝ} (h : Rqs.RqsWF p) :
    (p.toBij : Bij ℝ C ℝ).Lawful univ univ := Rqs.rqs_lawful h

theorem rqs_left_inverse {p : RationalQuadraticSpline ℝ} (h : Rqs.RqsWF p) (x : ℝ) :
    p.inverse (p.transform x) = x := Rqs.rqs_left h x

theorem rqs_right_inverse {p : RationalQuadraticSpline ℝ} (h : Rqs.RqsWF p) (y : ℝ) :
    p.transform (p.inverse y) = y := Rqs.rqs_right h y

/-- non-vacuity: a concrete 3-bin spline on [-2,2] with boundary derivative 2 (the D1 witness) -/
theorem rqs_instance : (Rqs.exampleSpline.toBij : Bij ℝ Unit ℝ).Lawful univ univ :=
  Rqs.rqs_lawful Rqs.rqsWF_instance

/-- Chain of typed-composable lawful bijections is lawful — any length; since the children
may themselves be chains/inverts, any expression tree of any depth. -/
theorem chain_lawful {X C : Type} {bs : List (Bij X C ℝ)} {D E : Set X}
    (h : ChainLawful bs D E) : (Chain.mk bs).toBij.Lawful D E := Gen.chain_lawful h

/-- Invert swaps the directions. -/
theorem invert_lawful {X C : Type} {b : Bij X C ℝ} {D E : Set X} (h : b.Lawful D E) :
    (Invert.mk b).toBij.Lawful E D := Gen.invert_lawful h

/-- Non-vacuity / worked instance: LogNormal's bijection `Chain [Affine, Exp]` with a negative
scale is lawful ℝ ↔ (0,∞). -/
theorem lognormal_chain_lawful {C : Type} :
    (Chain.mk [((Affine.mk 1 (-2) : Affine ℝ).toBij : Bij ℝ C ℝ), Exp.toBij]).toBij.Lawful univ (Ioi 0) :=
  Gen.chain_lawful (.cons (Leaves.affine_lawful _ (by norm_num)) (.cons Leaves.exp_lawful (.nil _)))

/-- Worked instance: `Invert (Chain [LeakyTanh 3, Affine])` is lawful ℝ ↔ ℝ. -/
theorem invert_chain_instance {C : Type} :
    (Invert.mk (Chain.mk [((LeakyTanh.init 3 : LeakyTanh ℝ).toBij : Bij ℝ C ℝ),
        (Affine.mk (1/2) 4 : Affine ℝ).toBij]).toBij).toBij.Lawful univ univ :=
  Gen.invert_lawful (Gen.chain_lawful
    (.cons (Leaves.leakytanh_lawful (Leaves.leaky_init_wf (by norm_num)))
      (.cons (Leaves.affine_lawful _ (by norm_num)) (.nil _))))


/-! ### Planar and TriangularAffine -/

/-- **Planar, leaky-relu activation** — the four methods GENERATED from `_UnconditionalPlanar` for
`activation = "leaky_relu"` (`Gen/Planar.lean`).  For every dimension `n`, every `w ≠ 0`, `u`, `b`
(`û = get_act_scale()` is computed by the generated code) and every slope `0 < negative_slope ≤ 1`:
`inverse(transform x) = x` and `transform(inverse y) = y` for EVERY `x, y ∈ ℝⁿ` — both sides of the kink
`w·x + b = 0` and on it.  The slope test on the numerator `w·y + b` selects the piece `x` came from
because `1 + s·w·û > 0` (C11's `planar_constraint` / `planar_leaky_det_pos`).  For `negative_slope > 1`
the statement is false (known finding `planar_steep`). -/
theorem planar_lrelu_lawful {C : Type} {n : ℕ} (p : UnconditionalPlanar ℝ) (hw : p.weight.length = n)
    (hu : p._act_scale.length = n) (hne : Jnp.dot p.weight p.weight ≠ 0) {s : ℝ} (hs0 : 0 < s) (hs1 : s ≤ 1) :
    (Planar.lreluBij p s : Bij (List ℝ) C ℝ).Lawful {x | x.length = n} {y | y.length = n} :=
  PlanarPf.lrelu_lawful ⟨hw, hu, hne⟩ hs0 hs1

/-- … spelled out on the generated functions -/
theorem planar_lrelu_left_inverse {n : ℕ} (p : UnconditionalPlanar ℝ) (hw : p.weight.length = n)
    (hu : p._act_scale.length = n) (hne : Jnp.dot p.weight p.weight ≠ 0) {s : ℝ} (hs0 : 0 < s) (hs1 : s ≤ 1)
    (x : List ℝ) (hx : x.length = n) : p.inverse_lrelu s (p.transform_lrelu s x) = x :=
  (PlanarPf.lrelu_lawful (C := Unit) ⟨hw, hu, hne⟩ hs0 hs1).left x hx ()

theorem planar_lrelu_right_inverse {n : ℕ} (p : UnconditionalPlanar ℝ) (hw : p.weight.length = n)
    (hu : p._act_scale.length = n) (hne : Jnp.dot p.weight p.weight ≠ 0) {s : ℝ} (hs0 : 0 < s) (hs1 : s ≤ 1)
    (y : List ℝ) (hy : y.length = n) : p.transform_lrelu s (p.inverse_lrelu s y) = y :=
  (PlanarPf.lrelu_lawful (C := Unit) ⟨hw, hu, hne⟩ hs0 hs1).right y hy ()

/-- `Planar` (conditional or not): `get_planar` splits a parameter vector of length `2n+1` (the stored
array, or the conditioner's output for ANY condition) into `w, u, b`; whenever its `w` part is non-zero the
resulting bijection is lawful. -/
theorem planar_get_planar_lawful {C : Type} {n : ℕ} (params : List ℝ) (hl : params.length = 2 * n + 1)
    (hne : Jnp.dot (params.take n) (params.take n) ≠ 0) {s : ℝ} (hs0 : 0 < s) (hs1 : s ≤ 1) :
    (Planar.lreluBij (Planar.getPlanar n params) s : Bij (List ℝ) C ℝ).Lawful
      {x | x.length = n} {y | y.length = n} :=
  PlanarPf.lrelu_lawful (PlanarPf.getPlanar_wf hl hne) hs0 hs1

/-- non-vacuity: `w = (1, 0)`, `u = (0, 3)`, `b = 0`, slope `1/2` in dimension 2 -/
theorem planar_instance :
    (Planar.lreluBij ⟨[1, 0], [0, 3], (0 : ℝ)⟩ (1 / 2) : Bij (List ℝ) Unit ℝ).Lawful
      {x | x.length = 2} {y | y.length = 2} :=
  planar_lrelu_lawful _ rfl rfl (by simp [ParamsPf.jdot_eq]) (by norm_num) (by norm_num)

/-- **Forward / back substitution** (what `solve_triangular(lower=True/False)` computes) invert the
matrix–vector product for every lower / upper triangular `n × n` matrix with non-zero diagonal, both
ways, for every `n` (induction on the dimension). -/
theorem triangular_solve_lower {n : ℕ} {A : List (List ℝ)} (h : TriPf.LowerTri n A) (v : List ℝ)
    (hv : v.length = n) :
    Tri.matVec A (Tri.solveLower A v) = v ∧ Tri.solveLower A (Tri.matVec A v) = v :=
  ⟨TriPf.matVec_solveLower h hv, TriPf.solveLower_matVec h hv⟩

theorem triangular_solve_upper {n : ℕ} {A : List (List ℝ)} (h : TriPf.UpperTri n A) (v : List ℝ)
    (hv : v.length = n) :
    Tri.matVec A (Tri.solveUpper A v) = v ∧ Tri.solveUpper A (Tri.matVec A v) = v :=
  ⟨TriPf.matVec_solveUpper h hv, TriPf.solveUpper_matVec h hv⟩

/-- **TriangularAffine** (hand model `Model/Triangular.lean`, tied to the code by the correspondence):
`triangular` lower (resp. upper) triangular `n × n` according to the flag `lower`, non-zero diagonal of
either sign, `loc` of length `n` ⇒ lawful on `ℝⁿ`. -/
theorem triangular_lawful {C : Type} {n : ℕ} {t : Tri.TriAffine ℝ} (h : TriPf.TriWF n t) :
    (t.toBij : Bij (List ℝ) C ℝ).Lawful {x | x.length = n} {y | y.length = n} :=
  TriPf.triangular_lawful h

/-- … in particular for the matrix the constructor stores, `diag(softplus raw) + tril/triu(arr, ∓1)`, for
EVERY real raw diagonal parameter, every square `arr`, either orientation, every dimension. -/
theorem triangular_of_raw_lawful {C : Type} {n : ℕ} (lower : Bool) (raw : List ℝ) (arr : List (List ℝ))
    (loc : List ℝ) (hsq : TriPf.Square n arr) (hr : raw.length = n) (hl : loc.length = n) :
    ((Tri.ofRaw lower raw arr loc).toBij : Bij (List ℝ) C ℝ).Lawful {x | x.length = n} {y | y.length = n} :=
  TriPf.triangular_lawful (TriPf.ofRaw_wf lower raw arr loc hsq hr hl)

/-- non-vacuity: an upper-triangular 2 × 2 matrix with a negative diagonal entry -/
theorem triangular_instance :
    (({ triangular := [[2, 1], [0, -3]], loc := [1, 5], lower := false } : Tri.TriAffine ℝ).toBij :
      Bij (List ℝ) Unit ℝ).Lawful {x | x.length = 2} {y | y.length = 2} := by
  apply triangular_lawful
  refine ⟨rfl, ?_⟩
  simp only [Bool.false_eq_true, if_false]
  refine ⟨⟨rfl, by intro r hr; simp at hr; rcases hr with rfl | rfl <;> rfl⟩, ?_, ?_⟩
  · intro i j hji hi
    have : i = 1 ∧ j = 0 := by omega
    obtain ⟨rfl, rfl⟩ := this
    simp [TriPf.entry]
  · intro i hi
    have : i = 0 ∨ i = 1 := by omega
    rcases this with rfl | rfl <;> simp [TriPf.entry]

/-! ## ===== BEGIN network bijections: Coupling, MaskedAutoregressive, BlockAutoregressiveNetwork =====

Statements about the hand-written models `Model/Masks.lean` (forward passes; tied to /repo by `tools/props/c09.py`) and
`Model/NetInverse.lean` (inverse passes, `…_and_log_det`), instantiated at `ℝ`.  Helpers in `Proofs/NetLawful.lean`.
`tf : List ℝ → Bij ℝ Unit ℝ` is the scalar transformer family (`transformer_constructor`: parameter row ↦ scalar
bijection); `T ps`, `Tinv ps` its two plain maps. -/
section NetworkBijections
open Masks MasksPf Model

/-- **`coupling_lawful`** — `Coupling.inverse` undoes `Coupling.transform` and vice versa, for EVERY conditioner
function `cnd` (any network, any weights), every first-block size `d`, every dimension (`x.length`), every condition:
the first block is returned unchanged, so the conditioner sees the same input both ways and produces the same
parameters.  Scalar transformers `tf ps : D₁ ↔ E₁` (e.g. `univ ↔ univ` for Affine / spline, `univ ↔ (0,∞)` for Exp).
Guard of the real code: `untransformed_dim < dim`.  For `d ≥ dim` nothing is transformed; the model (total) returns its
input, so the statement is trivially true there, whereas the real constructor accepts `untransformed_dim = dim` and then
EVERY method raises `ZeroDivisionError` (`jnp.reshape(params, (0, -1))`) — checked by `tools/props/netinv.py`. -/
theorem coupling_lawful (d : Nat) (cnd : List ℝ → List ℝ) (tf : List ℝ → Bij ℝ Unit ℝ) (D₁ E₁ : Set ℝ)
    (htf : ∀ ps, (tf ps).Lawful D₁ E₁) :
    (couplingBij d cnd tf).Lawful {x | ∀ t ∈ x.drop d, t ∈ D₁} {y | ∀ t ∈ y.drop d, t ∈ E₁} :=
  NetLawful.coupling_lawful d cnd tf D₁ E₁ htf

/-- the same as two plain equations, scalar maps that are mutually inverse bijections of ℝ for every parameter row -/
theorem coupling_inverse_correct (d : Nat) (cnd : List ℝ → List ℝ) (T Tinv : List ℝ → ℝ → ℝ)
    (hl : ∀ ps t, Tinv ps (T ps t) = t) (hr : ∀ ps t, T ps (Tinv ps t) = t) (x cond : List ℝ) :
    couplingInverse d cnd Tinv (couplingTransform d cnd T x cond) cond = x ∧
    couplingTransform d cnd T (couplingInverse d cnd Tinv x cond) cond = x :=
  ⟨NetLawful.coupling_cancel d cnd T Tinv univ (fun ps t _ => hl ps t) x cond (fun _ _ => trivial),
   NetLawful.coupling_cancel d cnd Tinv T univ (fun ps t _ => hr ps t) x cond (fun _ _ => trivial)⟩

/-- **the induction behind the sequential inverse**: `MaskedAutoregressive.inverse` runs `dim` passes of `inv_scan_fn`
(recompute ALL transformer parameters from the current vector, invert every coordinate, keep only coordinate `rank`).
For every well-shaped masked network (all raw weights, biases, activation, sizes, both rank branches) and `y = transform x`:
after `k` passes the coordinates `0 … k-1` are the true preimage's and the coordinates `≥ k` are still `y`'s. -/
theorem maf_inverse_passes (N : MafNet ℝ) (hN : N.WellShaped) (T Tinv : List ℝ → ℝ → ℝ)
    (hl : ∀ ps t, Tinv ps (T ps t) = t) (cond x : List ℝ) (hx : x.length = N.dim) (k : Nat) (hk : k ≤ N.dim) :
    (∀ j, j < k → ((List.range k).foldl (N.invStep Tinv cond) (N.transform T x cond))[j]? = x[j]?) ∧
    (∀ j, k ≤ j → ((List.range k).foldl (N.invStep Tinv cond) (N.transform T x cond))[j]?
      = (N.transform T x cond)[j]?) :=
  NetLawful.maf_passes_prefix N hN T Tinv univ (fun ps t _ => hl ps t) cond x hx (fun _ _ => trivial) k hk

/-- **`maf_inverse_correct`** — after the `dim` passes the result is the preimage: `inverse (transform x) = x` and
`transform (inverse y) = y` for every vector of length `dim`, every condition, all weights. -/
theorem maf_inverse_correct (N : MafNet ℝ) (hN : N.WellShaped) (T Tinv : List ℝ → ℝ → ℝ)
    (hl : ∀ ps t, Tinv ps (T ps t) = t) (hr : ∀ ps t, T ps (Tinv ps t) = t) (cond x : List ℝ)
    (hx : x.length = N.dim) :
    N.inverse Tinv (N.transform T x cond) cond = x ∧ N.transform T (N.inverse Tinv x cond) cond = x :=
  ⟨NetLawful.maf_left N hN T Tinv univ (fun ps t _ => hl ps t) cond x hx (fun _ _ => trivial),
   NetLawful.maf_right N hN T Tinv univ (fun ps t _ => hr ps t) cond x hx (fun _ _ => trivial)⟩

/-- `maf_inverse_correct` as a `Bij.Lawful` statement (with the `…_and_log_det` points), scalar transformers `D₁ ↔ E₁` -/
theorem maf_lawful (N : MafNet ℝ) (hN : N.WellShaped) (tf : List ℝ → Bij ℝ Unit ℝ) (D₁ E₁ : Set ℝ)
    (htf : ∀ ps, (tf ps).Lawful D₁ E₁) :
    (mafBij N tf).Lawful {x | x.length = N.dim ∧ ∀ t ∈ x, t ∈ D₁} {y | y.length = N.dim ∧ ∀ t ∈ y, t ∈ E₁} :=
  NetLawful.maf_lawful N hN tf D₁ E₁ htf

/-- **BNAF satisfies the hypotheses of C10**: for a strictly increasing activation, all raw weights / biases / raw
scales of the stack `BlockAutoregressiveNetwork.__init__` builds (`NetLawful.BnafOK`: block shapes
`bnafBlockShapes depth bd`, `bd ≥ 1`, every layer with the shapes `block_autoregressive_linear` allocates), every
condition and target `y`: the function the inverter scans over, `x ↦ transform(x, condition) - y`
(`bnafInvFn`), is `Bisection.Triangular` — output `i` depends on `x_0 … x_i` only (`bnaf_dependency`) and strictly
increases in `x_i` (`bnaf_strict_mono`). -/
theorem bnaf_triangular (act : ℝ → ℝ) (hact : StrictMono act) {dim depth bd : Nat} {Ls : List (BnafLayer ℝ)}
    {condLinear : Option (List (List ℝ))} (hok : NetLawful.BnafOK dim depth bd Ls condLinear) (cond y : List ℝ)
    (hy : y.length = dim) : Bisection.Triangular (bnafInvFn act Ls condLinear cond y) dim :=
  NetLawful.bnaf_triangular act hact hok cond y hy

/-- the BNAF forward map is injective on vectors of length `dim` (so a preimage, when it exists, is unique) -/
theorem bnaf_injective (act : ℝ → ℝ) (hact : StrictMono act) {dim depth bd : Nat} {Ls : List (BnafLayer ℝ)}
    {condLinear : Option (List (List ℝ))} (hok : NetLawful.BnafOK dim depth bd Ls condLinear) (cond x x' : List ℝ)
    (hx : x.length = dim) (hx' : x'.length = dim)
    (h : bnafTransform act Ls condLinear x cond = bnafTransform act Ls condLinear x' cond) : x = x' :=
  NetLawful.bnaf_injective act hact hok cond x x' hx hx' h

/-- **`bnaf_invertible`, exact form** — `inverse (transform xs) = xs`: the coordinate-by-coordinate scan of
`AutoregressiveBisectionInverter` run on `y = transform(xs, condition)` with a scalar solver that returns the exact
root of every strictly increasing function that has one, returns `xs` — from ANY initial vector.
Hypothesis made explicit: the roots exist because `y` IS an image (`y = transform xs`). -/
theorem bnaf_inverse_exact (act : ℝ → ℝ) (hact : StrictMono act) {dim depth bd : Nat} {Ls : List (BnafLayer ℝ)}
    {condLinear : Option (List (List ℝ))} (hok : NetLawful.BnafOK dim depth bd Ls condLinear) (cond xs : List ℝ)
    (hxs : xs.length = dim) (solve : (ℝ → ℝ) → Option ℝ)
    (hsolve : ∀ (g : ℝ → ℝ) (r : ℝ), StrictMono g → g r = 0 → solve g = some r)
    (y₀ : List ℝ) (hy₀ : y₀.length = dim) :
    autoregressiveScan solve (bnafInvFn act Ls condLinear cond (bnafTransform act Ls condLinear xs cond)) dim 0 y₀
      = some xs :=
  Bisection.scan_exact
    (NetLawful.bnaf_triangular act hact hok cond _
      (NetLawful.bnafTransform_length act dim depth bd Ls hok.hshapes hok.hws condLinear cond xs))
    xs hxs (NetLawful.bnaf_root act hok cond xs) solve hsolve dim 0 y₀ (by omega) hy₀
    (fun j hj => absurd hj (by omega))

/-- every own-coordinate slice `t ↦ transform(x.at[i].set(t))[i]` is continuous and ONTO ℝ when the activation is a
strictly increasing bijection of ℝ — all weights, depth, block_dim, condition.  (This is the "a root exists in each
coordinate" hypothesis of the bisection search.) -/
theorem bnaf_slice_surjective (act : ℝ → ℝ) (hact : StrictMono act) (hsurj : Function.Surjective act)
    {dim depth bd : Nat} {Ls : List (BnafLayer ℝ)} {condLinear : Option (List (List ℝ))}
    (hok : NetLawful.BnafOK dim depth bd Ls condLinear) (cond x : List ℝ) (hx : x.length = dim) (i : Nat) (hi : i < dim) :
    Continuous (fun t => nth (bnafTransform act Ls condLinear (x.set i t) cond) i) ∧
    Function.Surjective fun t => nth (bnafTransform act Ls condLinear (x.set i t) cond) i :=
  NetLawful.bnaf_slice_surjective act hact hsurj hok cond x hx i hi

/-- **`bnaf_invertible`** — for an activation that is a strictly increasing bijection of ℝ (the default `LeakyTanh`;
see `bnaf_leakytanh_invertible`): every `y ∈ ℝ^dim` has exactly one preimage `xs`, and the inverter's scan with an
exact scalar solver returns it from any initial vector: `transform (inverse y) = y` and (by `bnaf_inverse_exact`)
`inverse (transform x) = x`. -/
theorem bnaf_invertible (act : ℝ → ℝ) (hact : StrictMono act) (hsurj : Function.Surjective act)
    {dim depth bd : Nat} {Ls : List (BnafLayer ℝ)} {condLinear : Option (List (List ℝ))}
    (hok : NetLawful.BnafOK dim depth bd Ls condLinear) (cond y : List ℝ) (hy : y.length = dim)
    (solve : (ℝ → ℝ) → Option ℝ)
    (hsolve : ∀ (g : ℝ → ℝ) (r : ℝ), StrictMono g → g r = 0 → solve g = some r)
    (y₀ : List ℝ) (hy₀ : y₀.length = dim) :
    ∃ xs, xs.length = dim ∧ bnafTransform act Ls condLinear xs cond = y ∧
      (∀ xs', xs'.length = dim → bnafTransform act Ls condLinear xs' cond = y → xs' = xs) ∧
      autoregressiveScan solve (bnafInvFn act Ls condLinear cond y) dim 0 y₀ = some xs := by
  obtain ⟨xs, hxs, hT⟩ := NetLawful.bnaf_surjective_of_slices act hok cond
    (fun x i hx hi => (NetLawful.bnaf_slice_surjective act hact hsurj hok cond x hx i hi).2) y hy
  refine ⟨xs, hxs, hT, fun xs' hxs' hT' => ?_, ?_⟩
  · exact NetLawful.bnaf_injective act hact hok cond xs' xs hxs' hxs (hT'.trans hT.symm)
  · have := bnaf_inverse_exact act hact hok cond xs hxs solve hsolve y₀ hy₀
    rwa [hT] at this

/-- the default activation: the GENERATED `LeakyTanh(max_val).transform`, any `max_val > 0`, is a strictly increasing
bijection of ℝ, so `bnaf_invertible` applies to it. -/
theorem bnaf_leakytanh_invertible {m : ℝ} (hm : 0 < m) :
    StrictMono (LeakyTanh.init m : LeakyTanh ℝ).transform ∧
    Function.Surjective (LeakyTanh.init m : LeakyTanh ℝ).transform := by
  constructor
  · apply strictMono_of_deriv_pos
    intro x
    rw [(LogDet.leaky_hasDerivAt (LogDet.leaky_init_wf2 hm) x).deriv]
    exact LogDet.leakyDeriv_pos (Leaves.leaky_init_wf hm) x
  · intro y
    exact ⟨_, Leaves.leaky_right (Leaves.leaky_init_wf hm) y⟩

/-- **what happens when the activation is NOT onto ℝ (plain `tanh`)**: with a bounded activation and at least one
hidden layer every output coordinate is bounded (all weights), so every `y` outside the bound has no preimage — the
scalar function of the search has no root and `_adapt_interval_to_include_root` never finds a sign change.
On the real code `BlockAutoregressiveNetwork(key, dim=2, depth=1, block_dim=3, activation=Tanh()).inverse(y)` with
`y₀` one unit above the range of coordinate 0 does not return (killed after 120 s): the `lax.while_loop` of the
adaptation doubles the bracket forever.  This is the documented reason the default is `LeakyTanh`
(flowjax issue 102); it is a domain restriction, not a defect of the search. -/
theorem bnaf_bounded_activation_not_onto (act : ℝ → ℝ) (M : ℝ) (hM : ∀ z, |act z| ≤ M) (L L' : BnafLayer ℝ)
    (rest : List (BnafLayer ℝ)) (condLinear : Option (List (List ℝ))) (cond : List ℝ) (i : Nat) :
    ∃ B : ℝ, ∀ x : List ℝ, |nth (bnafTransform act (L :: L' :: rest) condLinear x cond) i| ≤ B :=
  NetLawful.bnaf_bounded_act act M hM L L' rest condLinear cond i

/-- **tolerance form** (C01: "or the configured search tolerance for numerically inverted bijections") — the REAL
inverter (`_autoregressive_bisection_search`: bisection with `tol > 0`, finite `max_iter`, initial bracket
`[lower, upper]`, initial vector `(upper+lower)/2`, arguments accepted by `__check_init__`) run on
`y = transform(xs, condition)`.  Hypothesis made explicit
(`Bisection.LipTriangular`): on vectors of length `dim` the forward map has own-coordinate slope `≥ m > 0`,
continuous slices, and is `L`-Lipschitz (ℓ¹) in the earlier coordinates.  Then with every `xs[i]` within `D` of
`[lower, upper]` and `ε` with `max tol ((upper − lower + D + ε(1+L/m)^dim) / 2^(max_iter+1)) ≤ ε` (e.g. `ε = tol` once
`max_iter` is large enough) the search terminates (explicit fuel) and `|inverse(y)[i] − xs[i]| ≤ ε (1 + L/m)^i`. -/
theorem bnaf_inverse_tolerance (act : ℝ → ℝ) {dim depth bd : Nat} {Ls : List (BnafLayer ℝ)}
    {condLinear : Option (List (List ℝ))} (hok : NetLawful.BnafOK dim depth bd Ls condLinear) (cond xs : List ℝ)
    (hxs : xs.length = dim) {m L : ℝ}
    (hlip : Bisection.LipTriangular (fun x => bnafTransform act Ls condLinear x cond) dim m L)
    {lower upper : ℝ} (tol : ℝ) (max_iter : Int) (hargs : inverterArgsOk lower upper tol max_iter = true)
    (D ε : ℝ) (hD : 0 ≤ D) (hxsD : ∀ i, i < dim → lower - D ≤ xs.getD i 0 ∧ xs.getD i 0 ≤ upper + D)
    (hε : max tol ((upper - lower + D + ε * (1 + L / m) ^ dim) / 2 ^ (max_iter.toNat + 1)) ≤ ε)
    (fuel : ℕ) (hf1 : Nat.clog 2 (⌈(D + ε * (1 + L / m) ^ dim) / (upper - lower)⌉₊ + 1) ≤ fuel)
    (hf2 : max_iter.toNat ≤ fuel) :
    ∃ out, autoregressiveBisection (bnafInvFn act Ls condLinear cond (bnafTransform act Ls condLinear xs cond))
        lower upper tol dim max_iter fuel = some out ∧ out.length = dim ∧
      ∀ i, i < dim → |out.getD i 0 - xs.getD i 0| ≤ ε * (1 + L / m) ^ i := by
  have hlenT := NetLawful.bnafTransform_length act dim depth bd Ls hok.hshapes hok.hws condLinear cond xs
  have ht := NetLawful.lipTriangular_sub hlip (bnafTransform act Ls condLinear xs cond) hlenT
  obtain ⟨h, htol, hmi⟩ := (Bisection.inverterArgsOk_iff lower upper tol max_iter).mp hargs
  have hε0 : 0 ≤ ε := le_trans htol.le (le_trans (le_max_left _ _) hε)
  unfold autoregressiveBisection
  apply Bisection.scan_error_bound ht xs hxs (NetLawful.bnaf_root act hok cond xs) ε hε0 _ _ dim 0 _ (by omega)
    (by simp [arInit]) (fun j hj => absurd hj (by omega))
  intro g r hg hr ⟨i, hi, hri⟩
  obtain ⟨v, hv, hvr⟩ := Bisection.bisectionSolver_accurate h tol max_iter hmi D _ fuel hf1 hf2 g r hg hr
    (xs.getD i 0) (hxsD i hi) hD hri
  exact ⟨v, hv, le_trans hvr hε⟩

/-! ### non-vacuity -/

/-- a coupling layer with an arbitrary (here: non-linear) conditioner and the transformer family
`NetLawful.exampleFamily` (the generated `Affine`, location = first parameter, scale `2`) is lawful on all of `List ℝ` -/
theorem coupling_instance :
    (couplingBij 1 (fun l => l.map fun a => a * a + 1) NetLawful.exampleFamily).Lawful
      {x | ∀ t ∈ x.drop 1, t ∈ univ} {y | ∀ t ∈ y.drop 1, t ∈ univ} :=
  coupling_lawful 1 _ NetLawful.exampleFamily univ univ NetLawful.exampleFamily_lawful

/-- a well-shaped MAF net (`MasksPf.mafExample`: dim 2, width 2, depth 1) with the affine family is lawful -/
theorem maf_instance :
    (mafBij mafExample NetLawful.exampleFamily).Lawful {x | x.length = 2 ∧ ∀ t ∈ x, t ∈ univ} {y | y.length = 2 ∧ ∀ t ∈ y, t ∈ univ} := by
  have hW : mafExample.WellShaped := by
    refine ⟨rfl, rfl, ?_⟩
    intro l hw hb
    have hl : l < 2 := hw
    interval_cases l
    · exact ⟨2, 2, rfl, rfl, ⟨rfl, by intro row hrow; simp [mafExample] at hrow; subst hrow; rfl⟩, rfl⟩
    · exact ⟨2, 2, rfl, rfl, ⟨rfl, by intro row hrow; simp [mafExample] at hrow; subst hrow; rfl⟩, rfl⟩
  exact maf_lawful mafExample hW NetLawful.exampleFamily univ univ NetLawful.exampleFamily_lawful

/-- `MasksPf.bnafExample` (dim 2, depth 1, block_dim 1) satisfies `BnafOK`; with the strictly increasing bijective
activation `z ↦ z + z` every `y ∈ ℝ²` has a unique preimage found by the exact scan. -/
theorem bnaf_instance (y : List ℝ) (hy : y.length = 2) :
    NetLawful.BnafOK 2 1 1 bnafExample none ∧
    ∃ xs, xs.length = 2 ∧ bnafTransform (fun z => z + z) bnafExample none xs [] = y := by
  have hok : NetLawful.BnafOK 2 1 1 bnafExample none := NetLawful.bnafExample_ok
  refine ⟨hok, ?_⟩
  have hact : StrictMono (fun z : ℝ => z + z) := fun a b h => by simp only; linarith
  have hsurj : Function.Surjective (fun z : ℝ => z + z) := fun b => ⟨b / 2, by simp only; ring⟩
  classical
  let solve : (ℝ → ℝ) → Option ℝ := fun g => if h : ∃ r, g r = 0 then some (Classical.choose h) else none
  have hsolve : ∀ (g : ℝ → ℝ) (r : ℝ), StrictMono g → g r = 0 → solve g = some r := by
    intro g r hg hr
    have h : ∃ r, g r = 0 := ⟨r, hr⟩
    simp only [solve, dif_pos h]
    have := Classical.choose_spec h
    rw [hg.injective (this.trans hr.symm)]
  obtain ⟨xs, h1, h2, _, _⟩ := bnaf_invertible _ hact hsurj hok [] y hy solve hsolve [0, 0] rfl
  exact ⟨xs, h1, h2⟩

end NetworkBijections
/-! ## ===== END network bijections ===== -/

end C01
