import Flowjaxv.Proofs.Leaves
import Flowjaxv.Proofs.Rqs
/-!
# C01 — every bijection is invertible: inverse undoes transform, both ways

Property theorems only (helper lemmas live in `Proofs/`).  Every statement is about the
definitions *generated from /repo* (`Gen/Leaves.lean`, `Gen/Combinators.lean`) packaged as
`Bij` records by `Model/ToBij.lean`.  `Bij.Lawful b D E` says: `fwd : D → E`, `inv : E → D`,
`inv (fwd x) = x` on `D`, `fwd (inv y) = y` on `E`, and the point returned by each
`…_and_log_det` variant equals the plain method's.
-/
open Gen Set

namespace C01

/-- Affine(loc, scale), any non-zero scale of either sign: ℝ ↔ ℝ. -/
theorem affine_lawful {C : Type} (p : Affine ℝ) (h : p.scale ≠ 0) :
    (p.toBij : Bij ℝ C ℝ).Lawful univ univ := Leaves.affine_lawful p h

theorem loc_lawful {C : Type} (p : Loc ℝ) : (p.toBij : Bij ℝ C ℝ).Lawful univ univ :=
  Leaves.loc_lawful p

theorem scale_lawful {C : Type} (p : Scale ℝ) (h : p.scale ≠ 0) :
    (p.toBij : Bij ℝ C ℝ).Lawful univ univ := Leaves.scale_lawful p h

/-- Exp: ℝ ↔ (0,∞). -/
theorem exp_lawful {C : Type} : (Exp.toBij : Bij ℝ C ℝ).Lawful univ (Ioi 0) := Leaves.exp_lawful

/-- SoftPlus: ℝ ↔ (0,∞); the inverse `log(-expm1(-y)) + y` really inverts `log(1+eˣ)`. -/
theorem softplus_lawful {C : Type} : (SoftPlus.toBij : Bij ℝ C ℝ).Lawful univ (Ioi 0) :=
  Leaves.softplus_lawful

/-- Tanh: ℝ ↔ (−1,1). -/
theorem tanh_lawful {C : Type} : (Tanh.toBij : Bij ℝ C ℝ).Lawful univ (Ioo (-1) 1) :=
  Leaves.tanh_lawful

/-- LeakyTanh(max_val) as built by the generated constructor, any `max_val > 0`: ℝ ↔ ℝ,
switch points `|x| = max_val` and `|y| = tanh max_val` included. -/
theorem leakytanh_lawful {C : Type} {m : ℝ} (hm : 0 < m) :
    ((LeakyTanh.init m).toBij : Bij ℝ C ℝ).Lawful univ univ :=
  Leaves.leakytanh_lawful (Leaves.leaky_init_wf hm)

/-- The forward and the backward branch tests of LeakyTanh always select the same piece. -/
theorem leakytanh_branch_agree {m : ℝ} (hm : 0 < m) (x : ℝ) :
    ((LeakyTanh.init m).max_val ≤ |x|) ↔
      (Real.tanh (LeakyTanh.init m).max_val ≤ |(LeakyTanh.init m).transform x|) :=
  Leaves.leaky_branch_agree (Leaves.leaky_init_wf hm) x

/-- Rational-quadratic spline, any parameters the constructor can produce (`Rqs.RqsWF`: knots
strictly increasing from one interval end to the other, derivatives > 0): `inverse (transform x) = x`
and `transform (inverse y) = y` for EVERY real x, y — bin interiors, exactly on a knot, exactly on
either interval end (the input on which the pinned tree failed, defect D1), and outside. -/
theorem rqs_lawful {C : Type} {p : RationalQuadraticSpline ℝ} (h : Rqs.RqsWF p) :
    (p.toBij : Bij ℝ C ℝ).Lawful univ univ := Rqs.rqs_lawful h

theorem rqs_left_inverse {p : RationalQuadraticSpline ℝ} (h : Rqs.RqsWF p) (x : ℝ) :
    p.inverse (p.transform x) = x := Rqs.rqs_left h x

theorem rqs_right_inverse {p : RationalQuadraticSpline ℝ} (h : Rqs.RqsWF p) (y : ℝ) :
    p.transform (p.inverse y) = y := Rqs.rqs_right h y

/-- non-vacuity: a concrete 3-bin spline on [-2,2] with boundary derivative 2 (the D1 witness) -/
theorem rqs_instance : (Rqs.exampleSpline.toBij : Bij ℝ Unit ℝ).Lawful univ univ :=
  Rqs.rqs_lawful Rqs.rqsWF_instance

/-- Chain of typed-composable lawful bijections is lawful — any length; since the children
may themselves be chains/inverts, any expression tree of any depth. -/
theorem chain_lawful {X C : Type} {bs : List (Bij X C ℝ)} {D E : Set X}
    (h : ChainLawful bs D E) : (Chain.mk bs).toBij.Lawful D E := Gen.chain_lawful h

/-- Invert swaps the directions. -/
theorem invert_lawful {X C : Type} {b : Bij X C ℝ} {D E : Set X} (h : b.Lawful D E) :
    (Invert.mk b).toBij.Lawful E D := Gen.invert_lawful h

/-- Non-vacuity / worked instance: LogNormal's bijection `Chain [Affine, Exp]` with a negative
scale is lawful ℝ ↔ (0,∞). -/
theorem lognormal_chain_lawful {C : Type} :
    (Chain.mk [((Affine.mk 1 (-2) : Affine ℝ).toBij : Bij ℝ C ℝ), Exp.toBij]).toBij.Lawful univ (Ioi 0) :=
  Gen.chain_lawful (.cons (Leaves.affine_lawful _ (by norm_num)) (.cons Leaves.exp_lawful (.nil _)))

/-- Worked instance: `Invert (Chain [LeakyTanh 3, Affine])` is lawful ℝ ↔ ℝ. -/
theorem invert_chain_instance {C : Type} :
    (Invert.mk (Chain.mk [((LeakyTanh.init 3 : LeakyTanh ℝ).toBij : Bij ℝ C ℝ),
        (Affine.mk (1/2) 4 : Affine ℝ).toBij]).toBij).toBij.Lawful univ univ :=
  Gen.invert_lawful (Gen.chain_lawful
    (.cons (Leaves.leakytanh_lawful (Leaves.leaky_init_wf (by norm_num)))
      (.cons (Leaves.affine_lawful _ (by norm_num)) (.nil _))))

end C01
