import Flowjaxv.Proofs.Leaves
import Flowjaxv.Proofs.Rqs
import Flowjaxv.Proofs.Planar
import Flowjaxv.Proofs.Triangular
import Flowjaxv.Proofs.LogDet
import Flowjaxv.Proofs.NetLawful
import Flowjaxv.Proofs.Flows
import Flowjaxv.Proofs.JaxTransforms
import Flowjaxv.Proofs.BnafGen
import Flowjaxv.Proofs.TriangularGen
import Flowjaxv.Proofs.PermGen
import Flowjaxv.Proofs.NetGen
import Flowjaxv.Proofs.TriSplineMass
/-!
# C01 — every bijection is invertible: inverse undoes transform, both ways

Property theorems only (helper lemmas live in `Proofs/`).  Every statement is about the
definitions *generated from /repo* (`Gen/Leaves.lean`, `Gen/Combinators.lean`) packaged as
`Bij` records by `Model/ToBij.lean`.  `Bij.Lawful b D E` says: `fwd : D → E`, `inv : E → D`,
`inv (fwd x) = x` on `D`, `fwd (inv y) = y` on `E`, and the point returned by each
`…_and_log_det` variant equals the plain method's.
-/
open Gen Set

namespace C01

/-- Affine(loc, scale), any non-zero scale of either sign: ℝ ↔ ℝ. -/
theorem affine_lawful {C : Type} (p : Affine ℝ) (h : p.scale ≠ 0) :
    (p.toBij : Bij ℝ C ℝ).Lawful univ univ := Leaves.affine_lawful p h

theorem loc_lawful {C : Type} (p : Loc ℝ) : (p.toBij : Bij ℝ C ℝ).Lawful univ univ :=
  Leaves.loc_lawful p

theorem scale_lawful {C : Type} (p : Scale ℝ) (h : p.scale ≠ 0) :
    (p.toBij : Bij ℝ C ℝ).Lawful univ univ := Leaves.scale_lawful p h

/-- Exp: ℝ ↔ (0,∞). -/
theorem exp_lawful {C : Type} : (Exp.toBij : Bij ℝ C ℝ).Lawful univ (Ioi 0) := Leaves.exp_lawful

/-- SoftPlus: ℝ ↔ (0,∞); the inverse `log(-expm1(-y)) + y` really inverts `log(1+eˣ)`. -/
theorem softplus_lawful {C : Type} : (SoftPlus.toBij : Bij ℝ C ℝ).Lawful univ (Ioi 0) :=
  Leaves.softplus_lawful

/-- Tanh: ℝ ↔ (−1,1). -/
theorem tanh_lawful {C : Type} : (Tanh.toBij : Bij ℝ C ℝ).Lawful univ (Ioo (-1) 1) :=
  Leaves.tanh_lawful

/-- LeakyTanh(max_val) as built by the generated constructor, any `max_val > 0`: ℝ ↔ ℝ,
switch points `|x| = max_val` and `|y| = tanh max_val` included. -/
theorem leakytanh_lawful {C : Type} {m : ℝ} (hm : 0 < m) :
    ((LeakyTanh.init m).toBij : Bij ℝ C ℝ).Lawful univ univ :=
  Leaves.leakytanh_lawful (Leaves.leaky_init_wf hm)

/-- The forward and the backward branch tests of LeakyTanh always select the same piece. -/
theorem leakytanh_branch_agree {m : ℝ} (hm : 0 < m) (x : ℝ) :
    ((LeakyTanh.init m).max_val ≤ |x|) ↔
      (Real.tanh (LeakyTanh.init m).max_val ≤ |(LeakyTanh.init m).transform x|) :=
  Leaves.leaky_branch_agree (Leaves.leaky_init_wf hm) x

/-- Rational-quadratic spline, any parameters the constructor can produce (`Rqs.RqsWF`: knots
strictly increasing from one interval end to the other, derivatives > 0): `inverse (transform x) = x`
and `transform (inverse y) = y` for EVERY real x, y — bin interiors, exactly on a knot, exactly on
either interval end (the input on which the pinned tree failed, defect D1), and outside. -/
theorem rqs_lawful {C : Type} {p : RationalQuadraticSpline ℝ} (h : Rqs.RqsWF p) :
    (p.toBij : Bij ℝ C ℝ).Lawful univ univ := Rqs.rqs_lawful h

theorem rqs_left_inverse {p : RationalQuadraticSpline ℝ} (h : Rqs.RqsWF p) (x : ℝ) :
    p.inverse (p.transform x) = x := Rqs.rqs_left h x

theorem rqs_right_inverse {p : RationalQuadraticSpline ℝ} (h : Rqs.RqsWF p) (y : ℝ) :
    p.transform (p.inverse y) = y := Rqs.rqs_right h y

/-- non-vacuity: a concrete 3-bin spline on [-2,2] with boundary derivative 2 (the D1 witness) -/
theorem rqs_instance : (Rqs.exampleSpline.toBij : Bij ℝ Unit ℝ).Lawful univ univ :=
  Rqs.rqs_lawful Rqs.rqsWF_instance

/-- Chain of typed-composable lawful bijections is lawful — any length; since the children
may themselves be chains/inverts, any expression tree of any depth. -/
theorem chain_lawful {X C : Type} {bs : List (Bij X C ℝ)} {D E : Set X}
    (h : ChainLawful bs D E) : (Chain.mk bs).toBij.Lawful D E := Gen.chain_lawful h

/-- Invert swaps the directions. -/
theorem invert_lawful {X C : Type} {b : Bij X C ℝ} {D E : Set X} (h : b.Lawful D E) :
    (Invert.mk b).toBij.Lawful E D := Gen.invert_lawful h

/-- Non-vacuity / worked instance: LogNormal's bijection `Chain [Affine, Exp]` with a negative
scale is lawful ℝ ↔ (0,∞). -/
theorem lognormal_chain_lawful {C : Type} :
    (Chain.mk [((Affine.mk 1 (-2) : Affine ℝ).toBij : Bij ℝ C ℝ), Exp.toBij]).toBij.Lawful univ (Ioi 0) :=
  Gen.chain_lawful (.cons (Leaves.affine_lawful _ (by norm_num)) (.cons Leaves.exp_lawful (.nil _)))

/-- Worked instance: `Invert (Chain [LeakyTanh 3, Affine])` is lawful ℝ ↔ ℝ. -/
theorem invert_chain_instance {C : Type} :
    (Invert.mk (Chain.mk [((LeakyTanh.init 3 : LeakyTanh ℝ).toBij : Bij ℝ C ℝ),
        (Affine.mk (1/2) 4 : Affine ℝ).toBij]).toBij).toBij.Lawful univ univ :=
  Gen.invert_lawful (Gen.chain_lawful
    (.cons (Leaves.leakytanh_lawful (Leaves.leaky_init_wf (by norm_num)))
      (.cons (Leaves.affine_lawful _ (by norm_num)) (.nil _))))


/-! ### Planar and TriangularAffine -/

/-- **Planar, leaky-relu activation** — the four methods GENERATED from `_UnconditionalPlanar` for
`activation = "leaky_relu"` (`Gen/Planar.lean`).  For every dimension `n`, every `w ≠ 0`, `u`, `b`
(`û = get_act_scale()` is computed by the generated code) and every slope `0 < negative_slope ≤ 1`:
`inverse(transform x) = x` and `transform(inverse y) = y` for EVERY `x, y ∈ ℝⁿ` — both sides of the kink
`w·x + b = 0` and on it.  The slope test on the numerator `w·y + b` selects the piece `x` came from
because `1 + s·w·û > 0` (C11's `planar_constraint` / `planar_leaky_det_pos`).  For `negative_slope > 1`
the statement is false (known finding `planar_steep`). -/
theorem planar_lrelu_lawful {C : Type} {n : ℕ} (p : UnconditionalPlanar ℝ) (hw : p.weight.length = n)
    (hu : p._act_scale.length = n) (hne : Jnp.dot p.weight p.weight ≠ 0) {s : ℝ} (hs0 : 0 < s) (hs1 : s ≤ 1) :
    (Planar.lreluBij p s : Bij (List ℝ) C ℝ).Lawful {x | x.length = n} {y | y.length = n} :=
  PlanarPf.lrelu_lawful ⟨hw, hu, hne⟩ hs0 hs1

/-- … spelled out on the generated functions -/
theorem planar_lrelu_left_inverse {n : ℕ} (p : UnconditionalPlanar ℝ) (hw : p.weight.length = n)
    (hu : p._act_scale.length = n) (hne : Jnp.dot p.weight p.weight ≠ 0) {s : ℝ} (hs0 : 0 < s) (hs1 : s ≤ 1)
    (x : List ℝ) (hx : x.length = n) : p.inverse_lrelu s (p.transform_lrelu s x) = x :=
  (PlanarPf.lrelu_lawful (C := Unit) ⟨hw, hu, hne⟩ hs0 hs1).left x hx ()

theorem planar_lrelu_right_inverse {n : ℕ} (p : UnconditionalPlanar ℝ) (hw : p.weight.length = n)
    (hu : p._act_scale.length = n) (hne : Jnp.dot p.weight p.weight ≠ 0) {s : ℝ} (hs0 : 0 < s) (hs1 : s ≤ 1)
    (y : List ℝ) (hy : y.length = n) : p.transform_lrelu s (p.inverse_lrelu s y) = y :=
  (PlanarPf.lrelu_lawful (C := Unit) ⟨hw, hu, hne⟩ hs0 hs1).right y hy ()

/-- `Planar` (conditional or not): `get_planar` splits a parameter vector of length `2n+1` (the stored
array, or the conditioner's output for ANY condition) into `w, u, b`; whenever its `w` part is non-zero the
resulting bijection is lawful. -/
theorem planar_get_planar_lawful {C : Type} {n : ℕ} (params : List ℝ) (hl : params.length = 2 * n + 1)
    (hne : Jnp.dot (params.take n) (params.take n) ≠ 0) {s : ℝ} (hs0 : 0 < s) (hs1 : s ≤ 1) :
    (Planar.lreluBij (Planar.getPlanar n params) s : Bij (List ℝ) C ℝ).Lawful
      {x | x.length = n} {y | y.length = n} :=
  PlanarPf.lrelu_lawful (PlanarPf.getPlanar_wf hl hne) hs0 hs1

/-- non-vacuity: `w = (1, 0)`, `u = (0, 3)`, `b = 0`, slope `1/2` in dimension 2 -/
theorem planar_instance :
    (Planar.lreluBij ⟨[1, 0], [0, 3], (0 : ℝ)⟩ (1 / 2) : Bij (List ℝ) Unit ℝ).Lawful
      {x | x.length = 2} {y | y.length = 2} :=
  planar_lrelu_lawful _ rfl rfl (by simp [ParamsPf.jdot_eq]) (by norm_num) (by norm_num)

/-- **Forward / back substitution** (what `solve_triangular(lower=True/False)` computes) invert the
matrix–vector product for every lower / upper triangular `n × n` matrix with non-zero diagonal, both
ways, for every `n` (induction on the dimension). -/
theorem triangular_solve_lower {n : ℕ} {A : List (List ℝ)} (h : TriPf.LowerTri n A) (v : List ℝ)
    (hv : v.length = n) :
    Tri.matVec A (Tri.solveLower A v) = v ∧ Tri.solveLower A (Tri.matVec A v) = v :=
  ⟨TriPf.matVec_solveLower h hv, TriPf.solveLower_matVec h hv⟩

theorem triangular_solve_upper {n : ℕ} {A : List (List ℝ)} (h : TriPf.UpperTri n A) (v : List ℝ)
    (hv : v.length = n) :
    Tri.matVec A (Tri.solveUpper A v) = v ∧ Tri.solveUpper A (Tri.matVec A v) = v :=
  ⟨TriPf.matVec_solveUpper h hv, TriPf.solveUpper_matVec h hv⟩

/-- **TriangularAffine** (hand model `Model/Triangular.lean`, tied to the code by the correspondence):
`triangular` lower (resp. upper) triangular `n × n` according to the flag `lower`, non-zero diagonal of
either sign, `loc` of length `n` ⇒ lawful on `ℝⁿ`. -/
theorem triangular_lawful {C : Type} {n : ℕ} {t : Tri.TriAffine ℝ} (h : TriPf.TriWF n t) :
    (t.toBij : Bij (List ℝ) C ℝ).Lawful {x | x.length = n} {y | y.length = n} :=
  TriPf.triangular_lawful h

/-- … in particular for the matrix the constructor stores, `diag(softplus raw) + tril/triu(arr, ∓1)`, for
EVERY real raw diagonal parameter, every square `arr`, either orientation, every dimension. -/
theorem triangular_of_raw_lawful {C : Type} {n : ℕ} (lower : Bool) (raw : List ℝ) (arr : List (List ℝ))
    (loc : List ℝ) (hsq : TriPf.Square n arr) (hr : raw.length = n) (hl : loc.length = n) :
    ((Tri.ofRaw lower raw arr loc).toBij : Bij (List ℝ) C ℝ).Lawful {x | x.length = n} {y | y.length = n} :=
  TriPf.triangular_lawful (TriPf.ofRaw_wf lower raw arr loc hsq hr hl)

/-- non-vacuity: an upper-triangular 2 × 2 matrix with a negative diagonal entry -/
theorem triangular_instance :
    (({ triangular := [[2, 1], [0, -3]], loc := [1, 5], lower := false } : Tri.TriAffine ℝ).toBij :
      Bij (List ℝ) Unit ℝ).Lawful {x | x.length = 2} {y | y.length = 2} := by
  apply triangular_lawful
  refine ⟨rfl, ?_⟩
  simp only [Bool.false_eq_true, if_false]
  refine ⟨⟨rfl, by intro r hr; simp at hr; rcases hr with rfl | rfl <;> rfl⟩, ?_, ?_⟩
  · intro i j hji hi
    have : i = 1 ∧ j = 0 := by omega
    obtain ⟨rfl, rfl⟩ := this
    simp [TriPf.entry]
  · intro i hi
    have : i = 0 ∨ i = 1 := by omega
    rcases this with rfl | rfl <;> simp [TriPf.entry]

/-! ## ===== BEGIN network bijections: Coupling, MaskedAutoregressive, BlockAutoregressiveNetwork =====

Statements about the hand-written models `Model/Masks.lean` (forward passes; tied to /repo by `tools/props/c09.py`) and
`Model/NetInverse.lean` (inverse passes, `…_and_log_det`), instantiated at `ℝ`.  Helpers in `Proofs/NetLawful.lean`.
`tf : List ℝ → Bij ℝ Unit ℝ` is the scalar transformer family (`transformer_constructor`: parameter row ↦ scalar
bijection); `T ps`, `Tinv ps` its two plain maps. -/
section NetworkBijections
open Masks MasksPf Model

/-- **`coupling_lawful`** — `Coupling.inverse` undoes `Coupling.transform` and vice versa, for EVERY conditioner
function `cnd` (any network, any weights), every first-block size `d`, every dimension (`x.length`), every condition:
the first block is returned unchanged, so the conditioner sees the same input both ways and produces the same
parameters.  Scalar transformers `tf ps : D₁ ↔ E₁` (e.g. `univ ↔ univ` for Affine / spline, `univ ↔ (0,∞)` for Exp).
Guard of the real code: `untransformed_dim < dim`.  For `d ≥ dim` nothing is transformed; the model (total) returns its
input, so the statement is trivially true there, whereas the real constructor accepts `untransformed_dim = dim` and then
EVERY method raises `ZeroDivisionError` (`jnp.reshape(params, (0, -1))`) — checked by `tools/props/netinv.py`. -/
theorem coupling_lawful (d : Nat) (cnd : List ℝ → List ℝ) (tf : List ℝ → Bij ℝ Unit ℝ) (D₁ E₁ : Set ℝ)
    (htf : ∀ ps, (tf ps).Lawful D₁ E₁) :
    (couplingBij d cnd tf).Lawful {x | ∀ t ∈ x.drop d, t ∈ D₁} {y | ∀ t ∈ y.drop d, t ∈ E₁} :=
  NetLawful.coupling_lawful d cnd tf D₁ E₁ htf

/-- the same as two plain equations, scalar maps that are mutually inverse bijections of ℝ for every parameter row -/
theorem coupling_inverse_correct (d : Nat) (cnd : List ℝ → List ℝ) (T Tinv : List ℝ → ℝ → ℝ)
    (hl : ∀ ps t, Tinv ps (T ps t) = t) (hr : ∀ ps t, T ps (Tinv ps t) = t) (x cond : List ℝ) :
    couplingInverse d cnd Tinv (couplingTransform d cnd T x cond) cond = x ∧
    couplingTransform d cnd T (couplingInverse d cnd Tinv x cond) cond = x :=
  ⟨NetLawful.coupling_cancel d cnd T Tinv univ (fun ps t _ => hl ps t) x cond (fun _ _ => trivial),
   NetLawful.coupling_cancel d cnd Tinv T univ (fun ps t _ => hr ps t) x cond (fun _ _ => trivial)⟩

/-- **the induction behind the sequential inverse**: `MaskedAutoregressive.inverse` runs `dim` passes of `inv_scan_fn`
(recompute ALL transformer parameters from the current vector, invert every coordinate, keep only coordinate `rank`).
For every well-shaped masked network (all raw weights, biases, activation, sizes, both rank branches) and `y = transform x`:
after `k` passes the coordinates `0 … k-1` are the true preimage's and the coordinates `≥ k` are still `y`'s. -/
theorem maf_inverse_passes (N : MafNet ℝ) (hN : N.WellShaped) (T Tinv : List ℝ → ℝ → ℝ)
    (hl : ∀ ps t, Tinv ps (T ps t) = t) (cond x : List ℝ) (hx : x.length = N.dim) (k : Nat) (hk : k ≤ N.dim) :
    (∀ j, j < k → ((List.range k).foldl (N.invStep Tinv cond) (N.transform T x cond))[j]? = x[j]?) ∧
    (∀ j, k ≤ j → ((List.range k).foldl (N.invStep Tinv cond) (N.transform T x cond))[j]?
      = (N.transform T x cond)[j]?) :=
  NetLawful.maf_passes_prefix N hN T Tinv univ (fun ps t _ => hl ps t) cond x hx (fun _ _ => trivial) k hk

/-- **`maf_inverse_correct`** — after the `dim` passes the result is the preimage: `inverse (transform x) = x` and
`transform (inverse y) = y` for every vector of length `dim`, every condition, all weights. -/
theorem maf_inverse_correct (N : MafNet ℝ) (hN : N.WellShaped) (T Tinv : List ℝ → ℝ → ℝ)
    (hl : ∀ ps t, Tinv ps (T ps t) = t) (hr : ∀ ps t, T ps (Tinv ps t) = t) (cond x : List ℝ)
    (hx : x.length = N.dim) :
    N.inverse Tinv (N.transform T x cond) cond = x ∧ N.transform T (N.inverse Tinv x cond) cond = x :=
  ⟨NetLawful.maf_left N hN T Tinv univ (fun ps t _ => hl ps t) cond x hx (fun _ _ => trivial),
   NetLawful.maf_right N hN T Tinv univ (fun ps t _ => hr ps t) cond x hx (fun _ _ => trivial)⟩

/-- `maf_inverse_correct` as a `Bij.Lawful` statement (with the `…_and_log_det` points), scalar transformers `D₁ ↔ E₁` -/
theorem maf_lawful (N : MafNet ℝ) (hN : N.WellShaped) (tf : List ℝ → Bij ℝ Unit ℝ) (D₁ E₁ : Set ℝ)
    (htf : ∀ ps, (tf ps).Lawful D₁ E₁) :
    (mafBij N tf).Lawful {x | x.length = N.dim ∧ ∀ t ∈ x, t ∈ D₁} {y | y.length = N.dim ∧ ∀ t ∈ y, t ∈ E₁} :=
  NetLawful.maf_lawful N hN tf D₁ E₁ htf

/-- **BNAF satisfies the hypotheses of C10**: for a strictly increasing activation, all raw weights / biases / raw
scales of the stack `BlockAutoregressiveNetwork.__init__` builds (`NetLawful.BnafOK`: block shapes
`bnafBlockShapes depth bd`, `bd ≥ 1`, every layer with the shapes `block_autoregressive_linear` allocates), every
condition and target `y`: the function the inverter scans over, `x ↦ transform(x, condition) - y`
(`bnafInvFn`), is `Bisection.Triangular` — output `i` depends on `x_0 … x_i` only (`bnaf_dependency`) and strictly
increases in `x_i` (`bnaf_strict_mono`). -/
theorem bnaf_triangular (act : ℝ → ℝ) (hact : StrictMono act) {dim depth bd : Nat} {Ls : List (BnafLayer ℝ)}
    {condLinear : Option (List (List ℝ))} (hok : NetLawful.BnafOK dim depth bd Ls condLinear) (cond y : List ℝ)
    (hy : y.length = dim) : Bisection.Triangular (bnafInvFn act Ls condLinear cond y) dim :=
  NetLawful.bnaf_triangular act hact hok cond y hy

/-- the BNAF forward map is injective on vectors of length `dim` (so a preimage, when it exists, is unique) -/
theorem bnaf_injective (act : ℝ → ℝ) (hact : StrictMono act) {dim depth bd : Nat} {Ls : List (BnafLayer ℝ)}
    {condLinear : Option (List (List ℝ))} (hok : NetLawful.BnafOK dim depth bd Ls condLinear) (cond x x' : List ℝ)
    (hx : x.length = dim) (hx' : x'.length = dim)
    (h : bnafTransform act Ls condLinear x cond = bnafTransform act Ls condLinear x' cond) : x = x' :=
  NetLawful.bnaf_injective act hact hok cond x x' hx hx' h

/-- **`bnaf_invertible`, exact form** — `inverse (transform xs) = xs`: the coordinate-by-coordinate scan of
`AutoregressiveBisectionInverter` run on `y = transform(xs, condition)` with a scalar solver that returns the exact
root of every strictly increasing function that has one, returns `xs` — from ANY initial vector.
Hypothesis made explicit: the roots exist because `y` IS an image (`y = transform xs`). -/
theorem bnaf_inverse_exact (act : ℝ → ℝ) (hact : StrictMono act) {dim depth bd : Nat} {Ls : List (BnafLayer ℝ)}
    {condLinear : Option (List (List ℝ))} (hok : NetLawful.BnafOK dim depth bd Ls condLinear) (cond xs : List ℝ)
    (hxs : xs.length = dim) (solve : (ℝ → ℝ) → Option ℝ)
    (hsolve : ∀ (g : ℝ → ℝ) (r : ℝ), StrictMono g → g r = 0 → solve g = some r)
    (y₀ : List ℝ) (hy₀ : y₀.length = dim) :
    autoregressiveScan solve (bnafInvFn act Ls condLinear cond (bnafTransform act Ls condLinear xs cond)) dim 0 y₀
      = some xs :=
  Bisection.scan_exact
    (NetLawful.bnaf_triangular act hact hok cond _
      (NetLawful.bnafTransform_length act dim depth bd Ls hok.hshapes hok.hws condLinear cond xs))
    xs hxs (NetLawful.bnaf_root act hok cond xs) solve hsolve dim 0 y₀ (by omega) hy₀
    (fun j hj => absurd hj (by omega))

/-- every own-coordinate slice `t ↦ transform(x.at[i].set(t))[i]` is continuous and ONTO ℝ when the activation is a
strictly increasing bijection of ℝ — all weights, depth, block_dim, condition.  (This is the "a root exists in each
coordinate" hypothesis of the bisection search.) -/
theorem bnaf_slice_surjective (act : ℝ → ℝ) (hact : StrictMono act) (hsurj : Function.Surjective act)
    {dim depth bd : Nat} {Ls : List (BnafLayer ℝ)} {condLinear : Option (List (List ℝ))}
    (hok : NetLawful.BnafOK dim depth bd Ls condLinear) (cond x : List ℝ) (hx : x.length = dim) (i : Nat) (hi : i < dim) :
    Continuous (fun t => nth (bnafTransform act Ls condLinear (x.set i t) cond) i) ∧
    Function.Surjective fun t => nth (bnafTransform act Ls condLinear (x.set i t) cond) i :=
  NetLawful.bnaf_slice_surjective act hact hsurj hok cond x hx i hi

/-- **`bnaf_invertible`** — for an activation that is a strictly increasing bijection of ℝ (the default `LeakyTanh`;
see `bnaf_leakytanh_invertible`): every `y ∈ ℝ^dim` has exactly one preimage `xs`, and the inverter's scan with an
exact scalar solver returns it from any initial vector: `transform (inverse y) = y` and (by `bnaf_inverse_exact`)
`inverse (transform x) = x`. -/
theorem bnaf_invertible (act : ℝ → ℝ) (hact : StrictMono act) (hsurj : Function.Surjective act)
    {dim depth bd : Nat} {Ls : List (BnafLayer ℝ)} {condLinear : Option (List (List ℝ))}
    (hok : NetLawful.BnafOK dim depth bd Ls condLinear) (cond y : List ℝ) (hy : y.length = dim)
    (solve : (ℝ → ℝ) → Option ℝ)
    (hsolve : ∀ (g : ℝ → ℝ) (r : ℝ), StrictMono g → g r = 0 → solve g = some r)
    (y₀ : List ℝ) (hy₀ : y₀.length = dim) :
    ∃ xs, xs.length = dim ∧ bnafTransform act Ls condLinear xs cond = y ∧
      (∀ xs', xs'.length = dim → bnafTransform act Ls condLinear xs' cond = y → xs' = xs) ∧
      autoregressiveScan solve (bnafInvFn act Ls condLinear cond y) dim 0 y₀ = some xs := by
  obtain ⟨xs, hxs, hT⟩ := NetLawful.bnaf_surjective_of_slices act hok cond
    (fun x i hx hi => (NetLawful.bnaf_slice_surjective act hact hsurj hok cond x hx i hi).2) y hy
  refine ⟨xs, hxs, hT, fun xs' hxs' hT' => ?_, ?_⟩
  · exact NetLawful.bnaf_injective act hact hok cond xs' xs hxs' hxs (hT'.trans hT.symm)
  · have := bnaf_inverse_exact act hact hok cond xs hxs solve hsolve y₀ hy₀
    rwa [hT] at this

/-- the default activation: the GENERATED `LeakyTanh(max_val).transform`, any `max_val > 0`, is a strictly increasing
bijection of ℝ, so `bnaf_invertible` applies to it. -/
theorem bnaf_leakytanh_invertible {m : ℝ} (hm : 0 < m) :
    StrictMono (LeakyTanh.init m : LeakyTanh ℝ).transform ∧
    Function.Surjective (LeakyTanh.init m : LeakyTanh ℝ).transform := by
  constructor
  · apply strictMono_of_deriv_pos
    intro x
    rw [(LogDet.leaky_hasDerivAt (LogDet.leaky_init_wf2 hm) x).deriv]
    exact LogDet.leakyDeriv_pos (Leaves.leaky_init_wf hm) x
  · intro y
    exact ⟨_, Leaves.leaky_right (Leaves.leaky_init_wf hm) y⟩

/-- **what happens when the activation is NOT onto ℝ (plain `tanh`)**: with a bounded activation and at least one
hidden layer every output coordinate is bounded (all weights), so every `y` outside the bound has no preimage — the
scalar function of the search has no root and `_adapt_interval_to_include_root` never finds a sign change.
On the real code `BlockAutoregressiveNetwork(key, dim=2, depth=1, block_dim=3, activation=Tanh()).inverse(y)` with
`y₀` one unit above the range of coordinate 0 does not return (killed after 120 s): the `lax.while_loop` of the
adaptation doubles the bracket forever.  This is the documented reason the default is `LeakyTanh`
(flowjax issue 102); it is a domain restriction, not a defect of the search. -/
theorem bnaf_bounded_activation_not_onto (act : ℝ → ℝ) (M : ℝ) (hM : ∀ z, |act z| ≤ M) (L L' : BnafLayer ℝ)
    (rest : List (BnafLayer ℝ)) (condLinear : Option (List (List ℝ))) (cond : List ℝ) (i : Nat) :
    ∃ B : ℝ, ∀ x : List ℝ, |nth (bnafTransform act (L :: L' :: rest) condLinear x cond) i| ≤ B :=
  NetLawful.bnaf_bounded_act act M hM L L' rest condLinear cond i

/-- **tolerance form** (C01: "or the configured search tolerance for numerically inverted bijections") — the REAL
inverter (`_autoregressive_bisection_search`: bisection with `tol > 0`, finite `max_iter`, initial bracket
`[lower, upper]`, initial vector `(upper+lower)/2`, arguments accepted by `__check_init__`) run on
`y = transform(xs, condition)`.  Hypothesis made explicit
(`Bisection.LipTriangular`): on vectors of length `dim` the forward map has own-coordinate slope `≥ m > 0`,
continuous slices, and is `L`-Lipschitz (ℓ¹) in the earlier coordinates.  Then with every `xs[i]` within `D` of
`[lower, upper]` and `ε` with `max tol ((upper − lower + D + ε(1+L/m)^dim) / 2^(max_iter+1)) ≤ ε` (e.g. `ε = tol` once
`max_iter` is large enough) the search terminates (explicit fuel) and `|inverse(y)[i] − xs[i]| ≤ ε (1 + L/m)^i`. -/
theorem bnaf_inverse_tolerance (act : ℝ → ℝ) {dim depth bd : Nat} {Ls : List (BnafLayer ℝ)}
    {condLinear : Option (List (List ℝ))} (hok : NetLawful.BnafOK dim depth bd Ls condLinear) (cond xs : List ℝ)
    (hxs : xs.length = dim) {m L : ℝ}
    (hlip : Bisection.LipTriangular (fun x => bnafTransform act Ls condLinear x cond) dim m L)
    {lower upper : ℝ} (tol : ℝ) (max_iter : Int) (hargs : inverterArgsOk lower upper tol max_iter = true)
    (D ε : ℝ) (hD : 0 ≤ D) (hxsD : ∀ i, i < dim → lower - D ≤ xs.getD i 0 ∧ xs.getD i 0 ≤ upper + D)
    (hε : max tol ((upper - lower + D + ε * (1 + L / m) ^ dim) / 2 ^ (max_iter.toNat + 1)) ≤ ε)
    (fuel : ℕ) (hf1 : Nat.clog 2 (⌈(D + ε * (1 + L / m) ^ dim) / (upper - lower)⌉₊ + 1) ≤ fuel)
    (hf2 : max_iter.toNat ≤ fuel) :
    ∃ out, autoregressiveBisection (bnafInvFn act Ls condLinear cond (bnafTransform act Ls condLinear xs cond))
        lower upper tol dim max_iter fuel = some out ∧ out.length = dim ∧
      ∀ i, i < dim → |out.getD i 0 - xs.getD i 0| ≤ ε * (1 + L / m) ^ i := by
  have hlenT := NetLawful.bnafTransform_length act dim depth bd Ls hok.hshapes hok.hws condLinear cond xs
  have ht := NetLawful.lipTriangular_sub hlip (bnafTransform act Ls condLinear xs cond) hlenT
  obtain ⟨h, htol, hmi⟩ := (Bisection.inverterArgsOk_iff lower upper tol max_iter).mp hargs
  have hε0 : 0 ≤ ε := le_trans htol.le (le_trans (le_max_left _ _) hε)
  unfold autoregressiveBisection
  apply Bisection.scan_error_bound ht xs hxs (NetLawful.bnaf_root act hok cond xs) ε hε0 _ _ dim 0 _ (by omega)
    (by simp [arInit]) (fun j hj => absurd hj (by omega))
  intro g r hg hr ⟨i, hi, hri⟩
  obtain ⟨v, hv, hvr⟩ := Bisection.bisectionSolver_accurate h tol max_iter hmi D _ fuel hf1 hf2 g r hg hr
    (xs.getD i 0) (hxsD i hi) hD hri
  exact ⟨v, hv, le_trans hvr hε⟩

/-! ### non-vacuity -/

/-- a coupling layer with an arbitrary (here: non-linear) conditioner and the transformer family
`NetLawful.exampleFamily` (the generated `Affine`, location = first parameter, scale `2`) is lawful on all of `List ℝ` -/
theorem coupling_instance :
    (couplingBij 1 (fun l => l.map fun a => a * a + 1) NetLawful.exampleFamily).Lawful
      {x | ∀ t ∈ x.drop 1, t ∈ univ} {y | ∀ t ∈ y.drop 1, t ∈ univ} :=
  coupling_lawful 1 _ NetLawful.exampleFamily univ univ NetLawful.exampleFamily_lawful

/-- a well-shaped MAF net (`MasksPf.mafExample`: dim 2, width 2, depth 1) with the affine family is lawful -/
theorem maf_instance :
    (mafBij mafExample NetLawful.exampleFamily).Lawful {x | x.length = 2 ∧ ∀ t ∈ x, t ∈ univ} {y | y.length = 2 ∧ ∀ t ∈ y, t ∈ univ} := by
  have hW : mafExample.WellShaped := by
    refine ⟨rfl, rfl, ?_⟩
    intro l hw hb
    have hl : l < 2 := hw
    interval_cases l
    · exact ⟨2, 2, rfl, rfl, ⟨rfl, by intro row hrow; simp [mafExample] at hrow; subst hrow; rfl⟩, rfl⟩
    · exact ⟨2, 2, rfl, rfl, ⟨rfl, by intro row hrow; simp [mafExample] at hrow; subst hrow; rfl⟩, rfl⟩
  exact maf_lawful mafExample hW NetLawful.exampleFamily univ univ NetLawful.exampleFamily_lawful

/-- `MasksPf.bnafExample` (dim 2, depth 1, block_dim 1) satisfies `BnafOK`; with the strictly increasing bijective
activation `z ↦ z + z` every `y ∈ ℝ²` has a unique preimage found by the exact scan. -/
theorem bnaf_instance (y : List ℝ) (hy : y.length = 2) :
    NetLawful.BnafOK 2 1 1 bnafExample none ∧
    ∃ xs, xs.length = 2 ∧ bnafTransform (fun z => z + z) bnafExample none xs [] = y := by
  have hok : NetLawful.BnafOK 2 1 1 bnafExample none := NetLawful.bnafExample_ok
  refine ⟨hok, ?_⟩
  have hact : StrictMono (fun z : ℝ => z + z) := fun a b h => by simp only; linarith
  have hsurj : Function.Surjective (fun z : ℝ => z + z) := fun b => ⟨b / 2, by simp only; ring⟩
  classical
  let solve : (ℝ → ℝ) → Option ℝ := fun g => if h : ∃ r, g r = 0 then some (Classical.choose h) else none
  have hsolve : ∀ (g : ℝ → ℝ) (r : ℝ), StrictMono g → g r = 0 → solve g = some r := by
    intro g r hg hr
    have h : ∃ r, g r = 0 := ⟨r, hr⟩
    simp only [solve, dif_pos h]
    have := Classical.choose_spec h
    rw [hg.injective (this.trans hr.symm)]
  obtain ⟨xs, h1, h2, _, _⟩ := bnaf_invertible _ hact hsurj hok [] y hy solve hsolve [0, 0] rfl
  exact ⟨xs, h1, h2⟩

end NetworkBijections
/-! ## ===== END network bijections ===== -/

/-! ## ===== BEGIN generated Coupling / MaskedAutoregressive =====

`Gen/NetGen.lean` is REGENERATED on every run from `flowjax/bijections/coupling.py` (`Coupling.transform`,
`transform_and_log_det`, `inverse`, `inverse_and_log_det`, `_flat_params_to_transformer`) and
`flowjax/bijections/masked_autoregressive.py` (`MaskedAutoregressive.transform`, `transform_and_log_det`, `inverse`,
`inv_scan_fn`, `inverse_and_log_det`, `_flat_params_to_transformer`), statement by statement, by `tools/py2lean/py2meth.py`
(sheet `targets_net.py`, library calls in `Model/NetWorld.lean`).  `GenNet.Coupling.toBij self` / `GenNet.Maf.toBij self`
are the four generated methods as a `Bij` record; the condition is `Option (List ℝ)` (`None` = `none`).  The theorems
below are about THESE definitions: a change of the source that changes what the methods compute breaks
`gen_coupling_eq_model` / `gen_maf_eq_model` (or is refused by the translator). -/
section GeneratedNet
open Masks MasksPf Nw GenNet

/-- **`gen_coupling_eq_model`** — the four generated methods of `Coupling` are the hand model `Masks.couplingBij`
(conditioner applied to `x[:d] (++ condition)`, rows `reshape(…, (dim − d, −1))`, transformer `i` on coordinate `d + i`,
log-dets summed), for every scalar type, every object (sizes, conditioner function, transformer family), every `x` of
the declared length `dim`, `condition=None` or an array. -/
theorem gen_coupling_eq_model {α : Type} [Add α] [Mul α] [Neg α] [OfNat α 0] [Inhabited α]
    (self : CouplingObj α) (x : List α) (c : Option (List α)) (hx : x.length = self.dim) :
    Coupling.transform self x c
        = (couplingBij self.untransformed_dim self.conditioner self.transformer_constructor).fwd x (c.getD []) ∧
    Coupling.inverse self x c
        = (couplingBij self.untransformed_dim self.conditioner self.transformer_constructor).inv x (c.getD []) ∧
    Coupling.transformAndLogDet self x c
        = (couplingBij self.untransformed_dim self.conditioner self.transformer_constructor).fwdLd x (c.getD []) ∧
    Coupling.inverseAndLogDet self x c
        = (couplingBij self.untransformed_dim self.conditioner self.transformer_constructor).invLd x (c.getD []) :=
  NetGenPf.gen_coupling_eq_model self x c hx

/-- **`gen_maf_eq_model`** — the four generated methods of `MaskedAutoregressive` (the `len(y)`-step `lax.scan` of the
generated `inv_scan_fn` included) are the hand model `Masks.mafBij`, for every scalar type, every masked network
(`MafObj.ofNet N tf`: `shape = (N.dim,)`, the MLP `mlpForward N.act N.layers` whose masks `Gen/MasksGen.lean` regenerates),
every transformer family, every `x` of length `dim`, `condition=None` or an array. -/
theorem gen_maf_eq_model {α : Type} [Add α] [Mul α] [Neg α] [OfNat α 0] [Inhabited α]
    (N : MafNet α) (tf : List α → Bij α Unit α) (x : List α) (c : Option (List α)) (hx : x.length = N.dim) :
    Maf.transform (MafObj.ofNet N tf) x c = (mafBij N tf).fwd x (c.getD []) ∧
    Maf.inverse (MafObj.ofNet N tf) x c = (mafBij N tf).inv x (c.getD []) ∧
    Maf.transformAndLogDet (MafObj.ofNet N tf) x c = (mafBij N tf).fwdLd x (c.getD []) ∧
    Maf.inverseAndLogDet (MafObj.ofNet N tf) x c = (mafBij N tf).invLd x (c.getD []) :=
  NetGenPf.gen_maf_eq_model N tf x c hx

/-- one generated scan step is the hand model's pass: `inv_scan_fn((y, rank), None, condition)` recomputes all
parameters, inverts every coordinate, keeps coordinate `rank`, and returns `rank + 1` (for `rank < len(y) = dim`) -/
theorem gen_maf_inv_scan_fn {α : Type} [Add α] [Mul α] [Neg α] [OfNat α 0] [Inhabited α]
    (N : MafNet α) (tf : List α → Bij α Unit α) (c : Option (List α)) (y : List α) (rank : Nat)
    (hy : y.length = N.dim) (hr : rank < N.dim) :
    Maf.invScanFn (MafObj.ofNet N tf) (y, rank) () c
      = ((N.invStep (fun ps t => (tf ps).inv t ()) (c.getD []) y rank, rank + 1), ()) :=
  NetGenPf.gen_invScanFn_eq N tf c y rank hy hr

/-- **`gen_coupling_init_spec`** — the generated fragment of `Coupling.__init__` (leading guard + the attributes finally
assigned): it raises `ValueError` (`none`) iff `transformer.shape != ()` or `transformer.cond_shape is not None`; otherwise
`shape = (dim,)`, `cond_shape = (cond_dim,)` or `None`, `untransformed_dim`, `dim` are those of the object the theorems are
about (`CouplingObj.mk'`). -/
theorem gen_coupling_init_spec {α : Type} [Add α] [Mul α] [Neg α] [OfNat α 0] [Inhabited α] (t : Nw.TSpec) (d dim : Nat) (cd : Option Nat) (w dep : Nat)
    (cnd : List α → List α) (tf : List α → Bij α Unit α) :
    (Coupling.initShapes t d dim cd w dep = none ↔ (t.shape ≠ [] ∨ t.cond_shape ≠ none)) ∧
    (t.shape = [] → t.cond_shape = none →
      Coupling.initShapes t d dim cd w dep
        = some ((CouplingObj.mk' d dim cd cnd tf).shape, (CouplingObj.mk' d dim cd cnd tf).cond_shape,
                (CouplingObj.mk' d dim cd cnd tf).untransformed_dim, (CouplingObj.mk' d dim cd cnd tf).dim)) :=
  NetGenPf.gen_coupling_init_spec t d dim cd w dep cnd tf

/-- **`gen_maf_init_spec`** — the generated fragment of `MaskedAutoregressive.__init__`: the same guard, and
`shape = (dim,)`, `cond_shape` as `MafObj.ofNet` declares them (`_flat_params_to_transformer` reads `self.shape[-1]`). -/
theorem gen_maf_init_spec {α : Type} [Add α] [Mul α] [Neg α] [OfNat α 0] [Inhabited α] (t : Nw.TSpec) (w dep : Nat) (N : MafNet α)
    (tf : List α → Bij α Unit α) :
    (Maf.initShapes t N.dim N.condDim w dep = none ↔ (t.shape ≠ [] ∨ t.cond_shape ≠ none)) ∧
    (t.shape = [] → t.cond_shape = none →
      Maf.initShapes t N.dim N.condDim w dep = some ((MafObj.ofNet N tf).shape, (MafObj.ofNet N tf).cond_shape)) :=
  NetGenPf.gen_maf_init_spec t w dep N tf

/-- **`gen_coupling_lawful`** — the GENERATED `Coupling` methods: `transform` maps the vectors of length `dim` whose
transformed coordinates lie in `D₁` to those in `E₁`, `inverse` maps back, `inverse(transform(x)) = x`,
`transform(inverse(y)) = y`, and each `…_and_log_det` returns the plain method's point — every conditioner function,
split, dimension, condition (or `None`), transformer family lawful `D₁ ↔ E₁` per parameter row. -/
theorem gen_coupling_lawful (self : CouplingObj ℝ) (D₁ E₁ : Set ℝ)
    (htf : ∀ ps, (self.transformer_constructor ps).Lawful D₁ E₁) :
    (Coupling.toBij self).Lawful
      {x | x.length = self.dim ∧ ∀ t ∈ x.drop self.untransformed_dim, t ∈ D₁}
      {y | y.length = self.dim ∧ ∀ t ∈ y.drop self.untransformed_dim, t ∈ E₁} :=
  NetGenPf.gen_coupling_lawful self D₁ E₁ htf

/-- the two round trips of the generated `Coupling` as plain equations (transformers bijective on all of ℝ) -/
theorem gen_coupling_inverse_correct (self : CouplingObj ℝ) (htf : ∀ ps, (self.transformer_constructor ps).Lawful univ univ)
    (x : List ℝ) (c : Option (List ℝ)) (hx : x.length = self.dim) :
    Coupling.inverse self (Coupling.transform self x c) c = x ∧ Coupling.transform self (Coupling.inverse self x c) c = x :=
  ⟨(gen_coupling_lawful self univ univ htf).left x ⟨hx, fun _ _ => trivial⟩ c,
   (gen_coupling_lawful self univ univ htf).right x ⟨hx, fun _ _ => trivial⟩ c⟩

/-- **`gen_maf_lawful`** — the GENERATED `MaskedAutoregressive` methods on the object of any well-shaped masked network:
both round trips (the generated sequential inverse really inverts the generated transform), the image / preimage sets and
the `…_and_log_det` points. -/
theorem gen_maf_lawful (N : MafNet ℝ) (hN : N.WellShaped) (tf : List ℝ → Bij ℝ Unit ℝ) (D₁ E₁ : Set ℝ)
    (htf : ∀ ps, (tf ps).Lawful D₁ E₁) :
    (Maf.toBij (MafObj.ofNet N tf)).Lawful {x | x.length = N.dim ∧ ∀ t ∈ x, t ∈ D₁} {y | y.length = N.dim ∧ ∀ t ∈ y, t ∈ E₁} :=
  NetGenPf.gen_maf_lawful N hN tf D₁ E₁ htf

/-- **`gen_maf_inverse_correct`** — `inverse(transform(x)) = x` and `transform(inverse(y)) = y` for the generated methods:
the `dim` scan steps of the generated `inv_scan_fn` recover the preimage, all weights, every condition. -/
theorem gen_maf_inverse_correct (N : MafNet ℝ) (hN : N.WellShaped) (tf : List ℝ → Bij ℝ Unit ℝ)
    (htf : ∀ ps, (tf ps).Lawful univ univ) (x : List ℝ) (c : Option (List ℝ)) (hx : x.length = N.dim) :
    Maf.inverse (MafObj.ofNet N tf) (Maf.transform (MafObj.ofNet N tf) x c) c = x ∧
    Maf.transform (MafObj.ofNet N tf) (Maf.inverse (MafObj.ofNet N tf) x c) c = x :=
  ⟨(gen_maf_lawful N hN tf univ univ htf).left x ⟨hx, fun _ _ => trivial⟩ c,
   (gen_maf_lawful N hN tf univ univ htf).right x ⟨hx, fun _ _ => trivial⟩ c⟩

/-- non-vacuity by kernel evaluation of the GENERATED definitions at `ℤ`: a conditional coupling layer on `ℤ³`
(`NetGenPf.couplingExampleZ`: conditioner `(a, c) ↦ (a², a + c)`, shift transformers) and the masked net of
`mafExample` — concrete values of all four methods, and the round trips. -/
theorem gen_net_instance :
    Coupling.transformAndLogDet NetGenPf.couplingExampleZ [2, 5, 7] (some [3]) = ([2, 9, 12], 0) ∧
    Coupling.inverseAndLogDet NetGenPf.couplingExampleZ [2, 9, 12] (some [3]) = ([2, 5, 7], 0) ∧
    Coupling.transform NetGenPf.couplingExampleZ [2, 5, 7] none = [2, 9, 9] ∧
    Coupling.inverse NetGenPf.couplingExampleZ [2, 9, 9] none = [2, 5, 7] ∧
    Maf.transform (MafObj.ofNet NetGenPf.mafExampleZ NetGenPf.shiftFamilyZ) [3, 4] none = [3, 10] ∧
    Maf.inverse (MafObj.ofNet NetGenPf.mafExampleZ NetGenPf.shiftFamilyZ) [3, 10] none = [3, 4] ∧
    Maf.inverseAndLogDet (MafObj.ofNet NetGenPf.mafExampleZ NetGenPf.shiftFamilyZ) [3, 10] none = ([3, 4], 0) := by
  decide

end GeneratedNet
/-! ## ===== END generated Coupling / MaskedAutoregressive ===== -/

/-! ## ===== BEGIN premade flows (`flowjax/flows.py`): whole flows, every number of layers =====

The objects are GENERATED from `flowjax/flows.py` on every run (`Gen/Flows.lean`: `_add_default_permute`,
`_affine_with_min_scale`, the `make_layer` closures, `Invert(Scan(layers)) if invert else Scan(layers)`); `Model/Flows.lean`
only names the compositions.  `key i = (parameters of layer i, permutation of layer i)` for `i < n = flow_layers`
(the unstacked `Scan` layers; a PRNG key is modelled by what it determines).  `FlowsPf.Vec dim` = the vectors of length
`dim`.  Every theorem is for EVERY `n`, every `dim`, every value of the layer parameters, both values of `invert`,
conditional or not (the condition is the second argument of the conditioner / parameter function).  Helpers in
`Proofs/Flows.lean`; real flows built by the factories are compared with these definitions by `tools/props/flows.py`. -/
section PremadeFlows
open Masks Flows FlowsPf

/-- **`_add_default_permute` keeps a bijection lawful** — all three branches of the generated function: `dim == 1` nothing
is added, `dim == 2` a `Flip`, otherwise `Permute(jr.permutation(key, arange(dim)))` for whatever permutation of
`0 … dim-1` the key yields. -/
theorem add_default_permute_lawful {b : VBij ℝ} {dim : ℕ} {key : List ℕ} (hb : b.Lawful (Vec dim) (Vec dim))
    (hk : PermKeyOK dim key) : (add_default_permute b dim key).Lawful (Vec dim) (Vec dim) :=
  FlowsPf.add_default_permute_lawful hb hk

/-- **`_affine_with_min_scale`**: for EVERY raw value of the trainable entry the unwrapped scale is
`softplus(raw) + min_scale`: strictly above `min_scale`, hence `> 0` whenever `min_scale ≥ 0`; as constructed it is 1;
the signature's default is `min_scale = 0.01`. -/
theorem affine_with_min_scale_bound (m raw : ℝ) :
    ({ (affine_with_min_scale m).scale with arr := raw } : Params.BijectionReparam ℝ).unwrap = Real.log (1 + Real.exp raw) + m ∧
    m < ({ (affine_with_min_scale m).scale with arr := raw } : Params.BijectionReparam ℝ).unwrap ∧
    (0 ≤ m → 0 < ({ (affine_with_min_scale m).scale with arr := raw } : Params.BijectionReparam ℝ).unwrap) :=
  ⟨FlowsPf.affine_with_min_scale_scale m raw, (FlowsPf.affine_with_min_scale_bound m raw).1,
   (FlowsPf.affine_with_min_scale_bound m raw).2⟩

theorem affine_with_min_scale_init {m : ℝ} (hm : m < 1) : (affine_with_min_scale m).unwrap.scale = 1 ∧
    (affine_with_min_scale.min_scale_default : ℝ) = 1 / 100 :=
  ⟨FlowsPf.affine_with_min_scale_init hm, FlowsPf.min_scale_default_eq⟩

/-- the transformer families the factories are used with are lawful `ℝ ↔ ℝ` for EVERY conditioner output row:
`transformer=None` (`_affine_with_min_scale()`), plain `Affine()`, and `RationalQuadraticSpline(knots ≥ 1, interval lo < hi,
min_derivative ≥ 0, softmax_adjust ≥ 0)` — the hypothesis `htf` of the flow theorems below is satisfiable. -/
theorem transformer_families_lawful (ps : List ℝ) :
    (defaultTransformer ps : Bij ℝ Unit ℝ).Lawful univ univ ∧
    (∀ init, (affineFamily (affineDefault : AffineP ℝ) init ps).Lawful univ univ) ∧
    (∀ cfg init, RqsCfgOK cfg init → (rqsFamily cfg init ps).Lawful univ univ) :=
  ⟨defaultTransformer_lawful ps, fun init => plainAffine_lawful init ps, fun _ _ h => rqsFamily_lawful h ps⟩

/-- **`coupling_flow_lawful`** — the bijection of `coupling_flow(key, base_dist, transformer, cond_dim, flow_layers=n, …,
invert)`: `Scan` of `n` layers `Chain([Coupling(untransformed_dim = dim // 2), permutation])`, inverted iff `invert`.
For every `n`, `dim`, every conditioner function of every layer (any network, weights, condition), every valid
permutation per layer and every transformer family lawful `ℝ ↔ ℝ`: `inverse(transform x) = x`, `transform(inverse y) = y`
on all of `ℝ^dim`, and the `…_and_log_det` points agree.  `dim = 1` (no permutation, nothing untransformed:
`untransformed_dim = 0`; the real flow is a stack of constant / condition-dependent affine maps) is included.
Guard `0 < dim`: for `base_dist.shape == (0,)` the real factories (coupling and MAF) construct and then EVERY method raises
`ZeroDivisionError` (`jnp.reshape(params, (0, -1))`), whereas the total model returns `[]` — the statement is not claimed there. -/
theorem coupling_flow_lawful (tf : List ℝ → Bij ℝ Unit ℝ) (htf : ∀ ps, (tf ps).Lawful univ univ) (dim : ℕ) (_hdim : 0 < dim)
    (key : ℕ → (List ℝ → List ℝ) × List ℕ) (n : ℕ) (invert : Bool) (hperm : ∀ i < n, PermKeyOK dim (key i).2) :
    (couplingFlowBij tf dim key n invert).Lawful (Vec dim) (Vec dim) :=
  FlowsPf.coupling_flow_lawful tf htf dim key n invert hperm

/-- … with `transformer=None`, the factory's default -/
theorem coupling_flow_default_lawful (dim : ℕ) (_hdim : 0 < dim) (key : ℕ → (List ℝ → List ℝ) × List ℕ) (n : ℕ) (invert : Bool)
    (hperm : ∀ i < n, PermKeyOK dim (key i).2) :
    (couplingFlowBij defaultTransformer dim key n invert).Lawful (Vec dim) (Vec dim) :=
  FlowsPf.coupling_flow_lawful _ defaultTransformer_lawful dim key n invert hperm

/-- … with a rational-quadratic-spline transformer -/
theorem coupling_flow_spline_lawful {cfg : RqsCfg ℝ} {init : List ℝ} (hcfg : RqsCfgOK cfg init) (dim : ℕ) (_hdim : 0 < dim)
    (key : ℕ → (List ℝ → List ℝ) × List ℕ) (n : ℕ) (invert : Bool) (hperm : ∀ i < n, PermKeyOK dim (key i).2) :
    (couplingFlowBij (rqsFamily cfg init) dim key n invert).Lawful (Vec dim) (Vec dim) :=
  FlowsPf.coupling_flow_lawful _ (rqsFamily_lawful hcfg) dim key n invert hperm

/-- **`maf_flow_lawful`** — `masked_autoregressive_flow`: every `n`, every well-shaped masked network per layer
(`MafNet.WellShaped`, all weights), every valid permutation, both orientations. -/
theorem maf_flow_lawful (tf : List ℝ → Bij ℝ Unit ℝ) (htf : ∀ ps, (tf ps).Lawful univ univ) (dim : ℕ) (_hdim : 0 < dim)
    (key : ℕ → MafNet ℝ × List ℕ) (n : ℕ) (invert : Bool)
    (hnet : ∀ i < n, (key i).1.WellShaped ∧ (key i).1.dim = dim) (hperm : ∀ i < n, PermKeyOK dim (key i).2) :
    (mafFlowBij tf dim key n invert).Lawful (Vec dim) (Vec dim) :=
  FlowsPf.maf_flow_lawful tf htf dim key n invert hnet hperm

/-- **`planar_flow_lawful`** — `planar_flow(…, negative_slope=s)` with `0 < s ≤ 1`: every `n`, every parameter function
`condition ↦ (w, u, b)` per layer with `w ≠ 0` (`PlanarOK`; the stored vector when unconditional, the conditioner MLP's
output otherwise), every valid permutation, both orientations.  (`s > 1`: known finding `planar_steep`.) -/
theorem planar_flow_lawful (dim : ℕ) {s : ℝ} (hs0 : 0 < s) (hs1 : s ≤ 1)
    (key : ℕ → (List ℝ → List ℝ) × List ℕ) (n : ℕ) (invert : Bool)
    (hpar : ∀ i < n, PlanarOK dim (key i).1) (hperm : ∀ i < n, PermKeyOK dim (key i).2) :
    (planarFlowBij dim s key n invert).Lawful (Vec dim) (Vec dim) :=
  FlowsPf.planar_flow_lawful dim hs0 hs1 key n invert hpar hperm

/-- **tanh planar flow** (`negative_slope=None`): only the forward methods exist (`inverse*` raise `NotImplementedError`,
so with the default `invert=True` `log_prob` works and `sample` raises).  For every `n`: the forward pass stays in `ℝ^dim`
and `transform_and_log_det` returns the point `transform` returns. -/
theorem planar_tanh_flow_forward (dim : ℕ) (key : ℕ → (List ℝ → List ℝ) × List ℕ) (n : ℕ)
    (hpar : ∀ i < n, PlanarOK dim (key i).1) (hperm : ∀ i < n, PermKeyOK dim (key i).2) :
    (∀ x ∈ Vec dim, ∀ c, planarTanhFlowFwd dim key n x c ∈ Vec dim) ∧
    (∀ x c, (planarTanhFlowFwdLd dim key n x c).1 = planarTanhFlowFwd dim key n x c) :=
  FlowsPf.planar_tanh_flow_forward dim key n hpar hperm

/-- **`bnaf_flow_forward_lawful`** — `block_neural_autoregressive_flow`, the analytic direction, NO hypothesis on the
inverter: for every `n`, all raw weights (`BnafOK`), every strictly increasing activation, `Scan(layers).transform` maps
`ℝ^dim` into itself, is INJECTIVE and `transform_and_log_det` returns the same point. -/
theorem bnaf_flow_forward_lawful (dim depth bd : ℕ) (act : ℝ → ℝ) (hact : StrictMono act)
    (inverter : (List ℝ → List ℝ → List ℝ) → List ℝ → List ℝ → List ℝ)
    (key : ℕ → BnafNet ℝ × List ℕ) (n : ℕ)
    (hnet : ∀ i < n, NetLawful.BnafOK dim depth bd (key i).1.layers (key i).1.condLinear)
    (hperm : ∀ i < n, PermKeyOK dim (key i).2) :
    FwdLawful (bnafFlowBij dim act inverter key n false) (Vec dim) :=
  FlowsPf.bnaf_flow_forward_lawful dim depth bd act hact inverter key n hnet hperm

/-- … and with an inverter that returns exact preimages (what `bnaf_invertible` provides for an exact scalar solver and a
surjective activation; the bisection inverter does so up to the tolerance of C10) the whole BNAF flow is lawful in both
orientations. -/
theorem bnaf_flow_lawful (dim depth bd : ℕ) (act : ℝ → ℝ) (hact : StrictMono act)
    (inverter : (List ℝ → List ℝ → List ℝ) → List ℝ → List ℝ → List ℝ)
    (key : ℕ → BnafNet ℝ × List ℕ) (n : ℕ) (invert : Bool)
    (hnet : ∀ i < n, NetLawful.BnafOK dim depth bd (key i).1.layers (key i).1.condLinear ∧
      InverterExact dim inverter (bnafTransform act (key i).1.layers (key i).1.condLinear))
    (hperm : ∀ i < n, PermKeyOK dim (key i).2) :
    (bnafFlowBij dim act inverter key n invert).Lawful (Vec dim) (Vec dim) :=
  FlowsPf.bnaf_flow_lawful dim depth bd act hact inverter key n invert hnet hperm

/-- **`tri_spline_flow_lawful`** — `triangular_spline_flow`: every `n`; per layer `dim` well-formed splines (every knot
position / derivative the constructor can produce: `Rqs.RqsWF`), every lower-triangular matrix with non-zero diagonal and
every `loc` (`TriPf.TriWF`; weight normalisation keeps the triangle and the positive diagonal), every linear conditioning
matrix, `tanh_max_val > 0`, every valid permutation; both orientations.  (`make_layer` is the hand model
`Flows.triSplineCore`; the factory body and `_add_default_permute` are generated.) -/
theorem tri_spline_flow_lawful (dim : ℕ) (m : ℝ) (key : ℕ → TriSplineNet ℝ × List ℕ) (n : ℕ) (invert : Bool)
    (hnet : ∀ i < n, TriSplineOK dim m (key i).1) (hperm : ∀ i < n, PermKeyOK dim (key i).2) :
    (triSplineFlowBij dim m key n invert).Lawful (Vec dim) (Vec dim) :=
  FlowsPf.tri_spline_flow_lawful dim m key n invert hnet hperm

/-! ### non-vacuity -/

/-- a 3-layer conditional triangular-spline flow on `ℝ²` (`FlowsPf.triSplineNet` in every layer, `tanh_max_val = 3`) -/
theorem tri_spline_flow_instance :
    (triSplineFlowBij 2 3 (fun _ => (triSplineNet, [])) 3 true).Lawful (Vec 2) (Vec 2) :=
  tri_spline_flow_lawful 2 3 _ 3 true (fun _ _ => triSplineNet_ok) (fun _ _ _ h2 => absurd rfl h2)

/-- a 2-layer coupling flow on `ℝ³` (`FlowsPf.couplingKeys`: conditioners `a ↦ (a²+1, a−2, 3, a)` and a constant one,
permutations `[2,0,1]` and `[1,2,0]`), default transformer, `invert=True`, and the same with a spline transformer with
2 knots on `[-3, 3]` -/
theorem coupling_flow_instance :
    (couplingFlowBij defaultTransformer 3 couplingKeys 2 true).Lawful (Vec 3) (Vec 3) ∧
    (couplingFlowBij (rqsFamily ⟨2, (-3, 3), 1 / 100, 1 / 1000⟩ [0, 0, 0, 0, 0, 0, 0, 0]) 3 couplingKeys 2 false).Lawful
      (Vec 3) (Vec 3) :=
  ⟨coupling_flow_default_lawful 3 (by norm_num) couplingKeys 2 true couplingKeys_perm,
   coupling_flow_spline_lawful ⟨by norm_num, rfl, by norm_num, by norm_num, by norm_num⟩ 3 (by norm_num) couplingKeys 2 false
     couplingKeys_perm⟩

/-- a 3-layer MAF on `ℝ²` (every layer `MasksPf.mafExample`, `Flip` between layers) and a 2-layer planar flow on `ℝ²`
(`w = (1,0)`, `u = (0,3)`, slope `1/2`) -/
theorem maf_planar_flow_instance :
    (mafFlowBij defaultTransformer 2 (fun _ => (MasksPf.mafExample, [])) 3 true).Lawful (Vec 2) (Vec 2) ∧
    (planarFlowBij 2 (1 / 2) (fun _ => (planarParams, [])) 2 true).Lawful (Vec 2) (Vec 2) :=
  ⟨maf_flow_lawful _ defaultTransformer_lawful 2 (by norm_num) _ 3 true (fun _ _ => ⟨mafExample_wellShaped, rfl⟩)
     (fun _ _ _ h2 => absurd rfl h2),
   planar_flow_lawful 2 (by norm_num) (by norm_num) _ 2 true (fun _ _ => planarParams_ok) (fun _ _ _ h2 => absurd rfl h2)⟩

/-- `InverterExact` is satisfiable: a 2-layer BNAF flow on `ℝ²` (`MasksPf.bnafExample` layers, the strictly increasing
bijective activation `z ↦ z + z`, an exact inverter) is lawful in both orientations, and its forward direction is
lawful with NO assumption on the inverter -/
theorem bnaf_flow_instance (invert : Bool)
    (anyInverter : (List ℝ → List ℝ → List ℝ) → List ℝ → List ℝ → List ℝ) :
    (bnafFlowBij 2 (fun z => z + z) (choiceInverter 2) (fun _ => (bnafNet, [])) 2 invert).Lawful (Vec 2) (Vec 2) ∧
    FwdLawful (bnafFlowBij 2 (fun z => z + z) anyInverter (fun _ => (bnafNet, [])) 2 false) (Vec 2) := by
  have hact : StrictMono (fun z : ℝ => z + z) := fun a b h => by simp only; linarith
  exact ⟨bnaf_flow_lawful 2 1 1 _ hact _ _ 2 invert (fun _ _ => ⟨NetLawful.bnafExample_ok, bnafNet_exact⟩)
      (fun _ _ _ h2 => absurd rfl h2),
    bnaf_flow_forward_lawful 2 1 1 _ hact anyInverter _ 2 (fun _ _ => NetLawful.bnafExample_ok)
      (fun _ _ _ h2 => absurd rfl h2)⟩

end PremadeFlows
/-! ## ===== END premade flows ===== -/

/-! ## Scan, REGENERATED (`Gen/JaxTransforms.lean`; meanings of `lax.scan` / `eqx.partition` / `eqx.combine`: `Model/JaxTrWorld.lean`) -/
section JaxTransformsGen
open GenJaxTr

/-- **the generated `Scan`** (the four methods translated from `jax_transforms.py` with their `step` closures and
`_filter_scan`, `reverse=True` on both inverse passes) of typed-composable lawful layers — any number, heterogeneous — is a
lawful bijection: both round trips, and the points returned by the `…_and_log_det` methods are the plain methods'. -/
theorem gen_scan_lawful {X C : Type} {s : JaxTr.Scan X C ℝ} {D E : Set X} (h : ChainLawful s.bijection.layers D E) :
    s.toBij.Lawful D E := JaxTrProofs.scan_lawful h

/-- non-vacuity: `Scan` of the stacked layers `Affine(1, −2)`, `Affine(1/2, 4)` is lawful ℝ ↔ ℝ (the reverse order of the inverse
pass is made visible at a concrete point by `C08.gen_scan_instance`). -/
theorem gen_scan_lawful_instance {C : Type} :
    (JaxTr.scanOfLayers [((Affine.mk 1 (-2) : Affine ℝ).toBij : Bij ℝ C ℝ), (Affine.mk (1/2) 4 : Affine ℝ).toBij]).toBij.Lawful
      univ univ :=
  gen_scan_lawful (.cons (Leaves.affine_lawful _ (by norm_num)) (.cons (Leaves.affine_lawful _ (by norm_num)) (.nil _)))

/-- **the generated `Vmap`** (methods translated from `jax_transforms.py`; `eqx.filter_vmap` as in `Model/JaxTrWorld.lean`) with a
broadcast condition is a lawful bijection of the declared shape `axis_size :: cshape` — mapped (`in_axes`) or broadcast
(`axis_size`) parameters — whenever the per-call bijections are lawful on `cshape`; `gen_vmap_roundtrip` (C08) is the pointwise
statement for a condition mapped along any axis. -/
theorem gen_vmap_lawful {κ : Type} [Inhabited κ] (v : JaxTr.Vmap κ ℝ) (cs : List Nat) (hx0 : v.in_axes.2.1 = 0)
    (hc : v.in_axes.2.2 = none)
    (hm : (JaxTr.mapModule v.in_axes.1 v.bijection v.axis_size).length = v.axis_size) (hpos : 0 < v.axis_size)
    (hb : ∀ b ∈ JaxTr.mapModule v.in_axes.1 v.bijection v.axis_size, b.toBij.Lawful (ArrComb.WS cs) (ArrComb.WS cs)) :
    v.toBij.Lawful (ArrComb.WS (v.axis_size :: cs)) (ArrComb.WS (v.axis_size :: cs)) :=
  JaxTrProofs.vmap_lawful v cs hx0 hc hm hpos hb

end JaxTransformsGen

/-! ## ===== BEGIN BnafGen (g15): the statements on the `BlockAutoregressiveNetwork` GENERATED from the source =====

`Gen/BnafGen.lean` is re-translated from `/repo/flowjax/bijections/block_autoregressive_network.py` on every run; `Proofs/BnafGen.lean`
proves it equal to the hand model.  `BnafGenPf.netOf A act dim bd Ls ljf condLinear inverter` is `unwrap(self)` of a network with
the layers `Ls`, ANY log-Jacobian closures `ljf` returning `L.logJac` on their own layer, activation methods `act` / `A`, any
inverter; `condition : Option (List ℝ)` is what the method receives (`hc`: a condition is passed exactly when there is a
`cond_linear` — what `_unwrap_check_and_cast` and the constructor guarantee). -/
section BnafGen
open Masks MasksPf BnafGenPf

/-- **`bnaf_triangular` on the GENERATED code**: the generated `transform` never fails and is a map `F` for which the function the
inverter scans over, `x ↦ F x - y`, is `Bisection.Triangular` (output `i` depends on `x_0 … x_i` only and strictly increases in
`x_i`) — strictly increasing activation, all well-shaped weights, every depth, `block_dim ≥ 1`, condition, target. -/
theorem gen_bnaf_triangular (A : ℝ → ℝ × ℝ) (act : ℝ → ℝ) (hact : StrictMono act) {dim depth bd : Nat} {Ls : List (BnafLayer ℝ)}
    {condLinear : Option (List (List ℝ))} (hok : NetLawful.BnafOK dim depth bd Ls condLinear)
    (ljf : BnafLayer ℝ → Bw.Linear ℝ → Bw.Blocks ℝ) (inverter : List ℝ → Option (List ℝ) → List ℝ)
    (condition : Option (List ℝ)) (hc : condition.isSome = condLinear.isSome) (y : List ℝ) (hy : y.length = dim) :
    ∃ F : List ℝ → List ℝ,
      (∀ x, GenBnaf.transform (netOf A act dim bd Ls ljf condLinear inverter) x condition = some (F x)) ∧
      Bisection.Triangular (fun x => List.zipWith (· - ·) (F x) y) dim :=
  ⟨fun x => bnafTransform act Ls condLinear x (condition.getD []), fun x =>
    BnafGenPf.gen_bnaf_transform_eq_model A act dim bd Ls (bnafOK_ne_nil hok) ljf condLinear inverter x condition hc,
    bnaf_triangular act hact hok (condition.getD []) y hy⟩

/-- **`bnaf_injective` on the GENERATED code**: two inputs of length `dim` with the same generated `transform` are equal. -/
theorem gen_bnaf_injective (A : ℝ → ℝ × ℝ) (act : ℝ → ℝ) (hact : StrictMono act) {dim depth bd : Nat} {Ls : List (BnafLayer ℝ)}
    {condLinear : Option (List (List ℝ))} (hok : NetLawful.BnafOK dim depth bd Ls condLinear)
    (ljf : BnafLayer ℝ → Bw.Linear ℝ → Bw.Blocks ℝ) (inverter : List ℝ → Option (List ℝ) → List ℝ)
    (condition : Option (List ℝ)) (hc : condition.isSome = condLinear.isSome) (x x' : List ℝ)
    (hx : x.length = dim) (hx' : x'.length = dim)
    (h : GenBnaf.transform (netOf A act dim bd Ls ljf condLinear inverter) x condition
       = GenBnaf.transform (netOf A act dim bd Ls ljf condLinear inverter) x' condition) : x = x' := by
  rw [BnafGenPf.gen_bnaf_transform_eq_model A act dim bd Ls (bnafOK_ne_nil hok) ljf condLinear inverter x condition hc,
    BnafGenPf.gen_bnaf_transform_eq_model A act dim bd Ls (bnafOK_ne_nil hok) ljf condLinear inverter x' condition hc] at h
  exact bnaf_injective act hact hok (condition.getD []) x x' hx hx' (Option.some.inj h)

/-- the generated `inverse` hands `(y, condition)` to the inverter; composed with the generated `transform` of an image it is
the identity whenever the inverter returns a preimage (`bnaf_injective`: THE preimage). -/
theorem gen_bnaf_inverse_of_exact (A : ℝ → ℝ × ℝ) (act : ℝ → ℝ) (hact : StrictMono act) {dim depth bd : Nat}
    {Ls : List (BnafLayer ℝ)} {condLinear : Option (List (List ℝ))} (hok : NetLawful.BnafOK dim depth bd Ls condLinear)
    (ljf : BnafLayer ℝ → Bw.Linear ℝ → Bw.Blocks ℝ) (inverter : List ℝ → Option (List ℝ) → List ℝ)
    (condition : Option (List ℝ)) (hc : condition.isSome = condLinear.isSome) (x y : List ℝ) (hx : x.length = dim)
    (hy : GenBnaf.transform (netOf A act dim bd Ls ljf condLinear inverter) x condition = some y)
    (hlen : (inverter y condition).length = dim)
    (hinv : GenBnaf.transform (netOf A act dim bd Ls ljf condLinear inverter) (inverter y condition) condition = some y) :
    GenBnaf.inverse (netOf A act dim bd Ls ljf condLinear inverter) y condition = x :=
  gen_bnaf_injective A act hact hok ljf inverter condition hc _ _ hlen hx (hinv.trans hy.symm)

/-- non-vacuity, by evaluating the GENERATED code on a concrete conditional network (`dim = 2`, one hidden layer,
`block_dim = 1`, weights given unwrapped, activation `z ↦ 2z`): the condition term enters after the first layer only, output `0`
ignores `x₁`, a condition without `cond_linear` fails the `assert` and a network without layers has no `self.layers[-1]`. -/
theorem gen_bnaf_instance (cl : Option (Bw.CondLinear ℝ)) (ls : List (Bw.Linear ℝ × (Bw.Linear ℝ → Bw.Blocks ℝ)))
    (hls : ls = [(⟨[[2, 0], [-3, 1]], [0, 1]⟩, fun _ => []), (⟨[[1, 0], [4, 3]], [1, 0]⟩, fun _ => [])]) :
    let N (cl : Option (Bw.CondLinear ℝ)) (ls : List (Bw.Linear ℝ × (Bw.Linear ℝ → Bw.Blocks ℝ))) : Bw.Net ℝ :=
      { shape := [2], block_dim := 1, cond_linear := cl, layers := ls,
        activation := ⟨fun z => z + z, fun z => (z + z, 0)⟩, inverter := fun y _ => y }
    GenBnaf.transform (N (some ⟨[[1], [-1]]⟩) ls) [1, 2] (some [5]) = some [15, 26] ∧
    GenBnaf.transform (N (some ⟨[[1], [-1]]⟩) ls) [1, 7] (some [5]) = some [15, 56] ∧
    GenBnaf.transform (N (some ⟨[[1], [-1]]⟩) ls) [1, 2] none = some [5, 16] ∧
    GenBnaf.transform (N none ls) [1, 2] (some [5]) = none ∧
    GenBnaf.transform (N none []) [1, 2] none = none := by
  subst hls
  norm_num [GenBnaf.transform, Bw.enumerate, Bw.Linear.call, Bw.CondLinear.call, Bw.addV, Jnp.dot, Jnp.sum, List.zipIdx]

end BnafGen
/-! ## ===== END BnafGen ===== -/
section TriangularGen
/-! ## TriangularAffine REGENERATED (`Gen/TriangularGen.lean`, translator `py2tri.py`, sheet `targets_triangular.py`)

`__init__` (exception-valued), the nested `_to_triangular`, and the four methods are generated from `flowjax/bijections/affine.py` on
every run; `solve_triangular` is the hand primitive `TriPrims.solveTriangular` = the forward / back substitution of
`Model/Triangular.lean` (proved to solve above: `triangular_solve_lower/upper`); `unwrap` of the stored object is `TriGen.unwrap`. -/

/-- **generated = hand model**: the four generated methods are the hand model's, for every dimension, every matrix (no shape
hypothesis), every `loc`, both values of `lower`. -/
theorem gen_triangular_eq_model {C : Type} (t : TriangularAffine ℝ) :
    (TriGen.toBij t : Bij (List ℝ) C ℝ) = (TriGenPf.toModel t).toBij :=
  TriGenPf.gen_toBij_eq t

/-- `triangular_lawful` on the GENERATED methods: `triangular` lower (resp. upper) triangular `n × n` as `lower` says, non-zero
diagonal of either sign, `loc ∈ ℝⁿ` — a lawful bijection of `ℝⁿ`. -/
theorem gen_triangular_lawful {C : Type} {n : ℕ} {t : TriangularAffine ℝ} (h : TriPf.TriWF n (TriGenPf.toModel t)) :
    (TriGen.toBij t : Bij (List ℝ) C ℝ).Lawful {x | x.length = n} {y | y.length = n} := by
  rw [TriGenPf.gen_toBij_eq]; exact TriPf.triangular_lawful h

/-- … from the stored raw arrays through the generated `_to_triangular` and `BijectionReparam.unwrap`: every raw diagonal value -/
theorem gen_triangular_of_raw_lawful {C : Type} {n : ℕ} (lower : Bool) (raw : List ℝ) (arr : List (List ℝ))
    (loc : List ℝ) (hsq : TriPf.Square n arr) (hr : raw.length = n) (hl : loc.length = n) :
    (TriGen.toBij (TriGen.unwrap (TriGen.ofRaw lower raw arr loc)) : Bij (List ℝ) C ℝ).Lawful
      {x | x.length = n} {y | y.length = n} := by
  apply gen_triangular_lawful
  rw [TriGenPf.gen_ofRaw_eq lower raw arr loc (TriGenPf.square_rows hsq hr)]
  exact TriPf.ofRaw_wf lower raw arr loc hsq hr hl

/-- … and for EVERY call the generated constructor accepts (any square matrix — the other triangle is ignored, the diagonal is
reparameterised through SoftPlus — and a `loc` of size `n` or 1): the unwrapped object is a lawful bijection of `ℝⁿ`. -/
theorem gen_triangular_init_lawful {C : Type} {n : ℕ} (loc : List ℝ) (m : List (List ℝ)) (lower : Bool)
    (hsq : TriPf.Square n m) {s : TriangularAffineStored ℝ} (h : TriangularAffine.init loc (.mat m) lower = .ok s) :
    (TriGen.toBij (TriGen.unwrap s) : Bij (List ℝ) C ℝ).Lawful {x | x.length = n} {y | y.length = n} :=
  gen_triangular_lawful (TriGenPf.gen_init_wf loc m lower hsq h)

/-- non-vacuity: an upper-triangular 2 × 2 matrix with a negative diagonal entry, on the generated record -/
theorem gen_triangular_instance :
    ((TriGen.toBij { triangular := [[2, 1], [0, -3]], loc := [1, 5], lower := false } : Bij (List ℝ) Unit ℝ)).Lawful
      {x | x.length = 2} {y | y.length = 2} := by
  rw [TriGenPf.gen_toBij_eq]; exact triangular_instance

end TriangularGen

section PermGen
/-! ## Permute REGENERATED (`Gen/PermGen.lean`): lawfulness of the generated methods -/
open PermPrims Gen.PermGen

/-- the generated `Permute` of an accepted permutation array (any rank ≥ 1, any shape) is a lawful bijection of the arrays of that
shape: both maps keep the shape and the size, both round trips are the identity, and `…_and_log_det` returns the plain point with
log-det `0`. -/
theorem gen_permute_lawful (p : IArr) (hwf : p.data.length = prod p.shape) (hne : p.shape ≠ []) {s : Permute}
    (h : Permute.init p = .ok s) (x : FArr ℝ) (hx : x.shape = p.shape) (hxl : x.data.length = p.data.length) :
    (s.transform x).shape = p.shape ∧ (s.transform x).data.length = p.data.length ∧
    (s.inverse x).shape = p.shape ∧ (s.inverse x).data.length = p.data.length ∧
    (s.inverse (s.transform x)).data = x.data ∧ (s.transform (s.inverse x)).data = x.data ∧
    s.transform_and_log_det x = (s.transform x, 0) ∧ s.inverse_and_log_det x = (s.inverse x, 0) := by
  obtain ⟨hP, _, hf, hfs, hi, his, h1, h2⟩ := PermGenPf.gen_permute_eq_model p hwf hne h x hx
  obtain ⟨_, _, _, _, hi', _⟩ := PermGenPf.gen_permute_eq_model p hwf hne h (s.transform x) hfs
  obtain ⟨_, _, hf', _⟩ := PermGenPf.gen_permute_eq_model p hwf hne h (s.inverse x) his
  have hl : x.data.length = (p.data.map Int.toNat).length := by simpa using hxl
  refine ⟨hfs, ?_, his, ?_, ?_, ?_, h1, h2⟩
  · rw [hf]; simp [PermModel.fwd]
  · rw [hi]; simp [PermModel.inv, PermModel.fwd, PermModel.argsort]
  · rw [hi', hf]; exact PermModel.inv_fwd _ hP _ hl
  · rw [hf', hi]; exact PermModel.fwd_inv _ hP _ hl

/-- non-vacuity: a 2 × 3 permutation array -/
theorem gen_permute_lawful_instance :
    ∃ s, Permute.init ⟨[2, 3], [5, 0, 3, 1, 4, 2]⟩ = .ok s ∧
      (s.inverse (s.transform ⟨[2, 3], [1, 2, 3, 4, 5, (6 : ℝ)]⟩)).data = [1, 2, 3, 4, 5, 6] := by
  obtain ⟨s, hs⟩ := (PermGenPf.gen_init_accepts_iff ⟨[2, 3], [5, 0, 3, 1, 4, 2]⟩).mpr
    ((ParamsPf.permuteRejects_iff _).mpr (by decide))
  exact ⟨s, hs, (gen_permute_lawful _ (by decide) (by decide) hs ⟨[2, 3], [1, 2, 3, 4, 5, 6]⟩ rfl rfl).2.2.2.2.1⟩

end PermGen

/-! ## Audit (g27): non-vacuity instances for hypothesis sets that had none -/
section Audit
open Masks MasksPf Nw GenNet Model BnafGenPf

/-- `planar_get_planar_lawful`'s hypothesis set is satisfiable from a RAW parameter vector (n = 2, `w = (1, -2)`, `u = (4, 3)`,
`b = 7`, slope `1/2`); here `w·u = -2 < 0`, so `get_act_scale` really has to correct `u`. -/
theorem planar_get_planar_audit_instance :
    (Planar.lreluBij (Planar.getPlanar 2 [1, -2, 4, 3, (7 : ℝ)]) (1 / 2) : Bij (List ℝ) Unit ℝ).Lawful
      {x | x.length = 2} {y | y.length = 2} :=
  planar_get_planar_lawful (n := 2) [1, -2, 4, 3, 7] rfl (by simp [ParamsPf.jdot_eq]; norm_num) (by norm_num) (by norm_num)

/-- `TriPf.LowerTri` is inhabited by a non-diagonal matrix with a negative diagonal entry, and `triangular_solve_lower` applies. -/
theorem lowerTri_audit_instance :
    TriPf.LowerTri 2 [[2, 0], [1, -3]] ∧
    Tri.matVec [[2, 0], [1, -3]] (Tri.solveLower [[2, 0], [1, -3]] [4, (5 : ℝ)]) = [4, 5] := by
  have h : TriPf.LowerTri 2 [[2, 0], [1, -3]] := by
    refine ⟨⟨rfl, by intro r hr; simp at hr; rcases hr with rfl | rfl <;> rfl⟩, ?_, ?_⟩
    · intro i j hij hj
      have : i = 0 ∧ j = 1 := by omega
      obtain ⟨rfl, rfl⟩ := this
      simp [TriPf.entry]
    · intro i hi
      have : i = 0 ∨ i = 1 := by omega
      rcases this with rfl | rfl <;> simp [TriPf.entry]
  exact ⟨h, (triangular_solve_lower h [4, 5] rfl).1⟩

/-- `TriPf.UpperTri` likewise. -/
theorem upperTri_audit_instance :
    TriPf.UpperTri 2 [[2, 1], [0, -3]] ∧
    Tri.solveUpper [[2, 1], [0, -3]] (Tri.matVec [[2, 1], [0, -3]] [4, (5 : ℝ)]) = [4, 5] := by
  have h : TriPf.UpperTri 2 [[2, 1], [0, -3]] := by
    refine ⟨⟨rfl, by intro r hr; simp at hr; rcases hr with rfl | rfl <;> rfl⟩, ?_, ?_⟩
    · intro i j hji hi
      have : i = 1 ∧ j = 0 := by omega
      obtain ⟨rfl, rfl⟩ := this
      simp [TriPf.entry]
    · intro i hi
      have : i = 0 ∨ i = 1 := by omega
      rcases this with rfl | rfl <;> simp [TriPf.entry]
  exact ⟨h, (triangular_solve_upper h [4, 5] rfl).2⟩

/-- `triangular_of_raw_lawful` / `gen_triangular_of_raw_lawful`: `Square`, `raw.length`, `loc.length` jointly satisfiable with a
full (non-triangular) raw array and negative raw diagonal parameters. -/
theorem triangular_of_raw_audit_instance :
    ((Tri.ofRaw true [-1, 2] [[5, 6], [7, 8]] [1, -1]).toBij : Bij (List ℝ) Unit ℝ).Lawful {x | x.length = 2} {y | y.length = 2} ∧
    (TriGen.toBij (TriGen.unwrap (TriGen.ofRaw false [-1, 2] [[5, 6], [7, 8]] [1, -1])) : Bij (List ℝ) Unit ℝ).Lawful
      {x | x.length = 2} {y | y.length = 2} := by
  have hsq : TriPf.Square 2 [[5, 6], [7, (8 : ℝ)]] := by constructor <;> simp
  exact ⟨triangular_of_raw_lawful true _ _ _ hsq rfl rfl, gen_triangular_of_raw_lawful false _ _ _ hsq rfl rfl⟩

/-- `gen_triangular_init_lawful`: the hypothesis `init … = .ok s` is inhabited (2 × 2, broadcast `loc` of size 1). -/
theorem gen_triangular_init_audit_instance :
    ∃ s, TriangularAffine.init [3] (.mat [[1, 2], [3, (-4 : ℝ)]]) true = .ok s ∧
      (TriGen.toBij (TriGen.unwrap s) : Bij (List ℝ) Unit ℝ).Lawful {x | x.length = 2} {y | y.length = 2} := by
  obtain ⟨s, hs⟩ : ∃ s, TriangularAffine.init [3] (.mat [[1, 2], [3, (-4 : ℝ)]]) true = .ok s :=
    (TriGenPf.gen_init_accepts_iff _ _ _).mpr (by simp [TriPrims.NdArr.ndim, TriPrims.NdArr.shapeGet, TriPrims.NdArr.shape])
  have hsq : TriPf.Square 2 [[1, 2], [3, (-4 : ℝ)]] := by constructor <;> simp
  exact ⟨s, hs, gen_triangular_init_lawful _ _ _ hsq hs⟩

/-- `gen_coupling_lawful` at `ℝ` (the pre-existing `gen_net_instance` evaluates at `ℤ` only): a conditional coupling object on
`ℝ³` with a non-linear conditioner and the affine family of scale 2. -/
theorem gen_coupling_audit_instance :
    (Coupling.toBij (CouplingObj.mk' 1 3 (some 1) (fun l => l.map fun a => a * a + 1) NetLawful.exampleFamily)).Lawful
      {x | x.length = 3 ∧ ∀ t ∈ x.drop 1, t ∈ univ} {y | y.length = 3 ∧ ∀ t ∈ y.drop 1, t ∈ univ} :=
  gen_coupling_lawful (CouplingObj.mk' 1 3 (some 1) _ NetLawful.exampleFamily) univ univ NetLawful.exampleFamily_lawful

/-- `gen_maf_lawful` on a concrete well-shaped net. -/
theorem gen_maf_audit_instance :
    (Maf.toBij (MafObj.ofNet mafExample NetLawful.exampleFamily)).Lawful
      {x | x.length = 2 ∧ ∀ t ∈ x, t ∈ univ} {y | y.length = 2 ∧ ∀ t ∈ y, t ∈ univ} :=
  gen_maf_lawful mafExample FlowsPf.mafExample_wellShaped NetLawful.exampleFamily univ univ NetLawful.exampleFamily_lawful

/-! ### `bnaf_inverse_tolerance`: the hypothesis `Bisection.LipTriangular (bnafTransform …)` had NO inhabitant on any BNAF object.
Below: a depth-0 network (`dim = 2`, one `(1,1)`-block layer with mixed-sign raw weights, weight-normalised, softplus diagonal) — its
forward map is `(a, b) ↦ (A·a, C·a + D·b + 1)` with `A, D > 0`, `C < 0` — satisfies it, and with it the WHOLE hypothesis set of
`bnaf_inverse_tolerance` (for `max_iter` large enough).  Depth 0 means no activation is applied: for `depth ≥ 1` (any activation) the
hypothesis remains undischarged. -/
noncomputable def auditBnafL0 : BnafLayer ℝ :=
  { b0 := 1, b1 := 1, n := 2, weight := [[1, 5], [-3, 2]], bias := [0, 1], scaleRaw := [0, -1] }

theorem auditL0_ok : NetLawful.BnafOK 2 0 1 [auditBnafL0] none := by
  refine ⟨by norm_num, by decide, ?_, by simp⟩
  intro L hL
  simp only [List.mem_cons, List.not_mem_nil, or_false] at hL
  subst hL
  exact ⟨⟨⟨rfl, by intro row hrow; simp [auditBnafL0] at hrow; rcases hrow with rfl | rfl <;> rfl⟩, rfl, rfl⟩, rfl⟩


noncomputable def spA : ℝ := Real.log (1 + 1) * Real.log (1 + Real.exp 1) / √(Real.log (1 + Real.exp 1) * Real.log (1 + Real.exp 1))
noncomputable def spN : ℝ := √(3 * 3 + Real.log (1 + Real.exp 2) * Real.log (1 + Real.exp 2))
noncomputable def spC : ℝ := -(Real.log (1 + Real.exp (-1)) * 3) / spN
noncomputable def spD : ℝ := Real.log (1 + Real.exp (-1)) * Real.log (1 + Real.exp 2) / spN

theorem auditL0_form (act : ℝ → ℝ) (a b : ℝ) :
    bnafTransform act [auditBnafL0] none [a, b] [] = [spA * a, spC * a + spD * b + 1] := by
  have hm : blockTrilMask 1 1 2 0 = [[true, false], [true, true]] := by decide
  have hd : blockDiagMask 1 1 2 = [[true, false], [false, true]] := by decide
  simp only [spA, spC, spD, spN]
  simp [bnafTransform, bnafForward, BnafLayer.apply, linearApply, BnafLayer.unwrapW, BnafLayer.preNorm, auditBnafL0, hm, hd,
    whereMask, whereMat, Jnp.dot, Jnp.sum]

theorem spA_pos : 0 < spA := by
  have h1 : 0 < Real.log (1 + Real.exp 1) := Leaves.softplus_pos 1
  have h0 : 0 < Real.log (1 + 1) := Real.log_pos (by norm_num)
  unfold spA
  have : 0 < √(Real.log (1 + Real.exp 1) * Real.log (1 + Real.exp 1)) := Real.sqrt_pos.mpr (by positivity)
  positivity

theorem spD_pos : 0 < spD := by
  have h1 : 0 < Real.log (1 + Real.exp 2) := Leaves.softplus_pos 2
  have h0 : 0 < Real.log (1 + Real.exp (-1)) := Leaves.softplus_pos (-1)
  have : 0 < spN := Real.sqrt_pos.mpr (by positivity)
  unfold spD
  positivity

theorem auditL0_lip (act : ℝ → ℝ) :
    Bisection.LipTriangular (fun x => bnafTransform act [auditBnafL0] none x []) 2 (min spA spD) |spC| where
  m_pos := lt_min spA_pos spD_pos
  L_nonneg := abs_nonneg _
  length_eq := by
    intro x hx
    obtain ⟨a, b, rfl⟩ := List.length_eq_two.mp hx
    simp [auditL0_form]
  slope := by
    intro x i hx hi s t hst
    obtain ⟨a, b, rfl⟩ := List.length_eq_two.mp hx
    have hts : 0 ≤ t - s := sub_nonneg.mpr hst
    interval_cases i
    · simp only [List.set_cons_zero, auditL0_form, List.getD_cons_zero]
      nlinarith [min_le_left spA spD]
    · simp only [List.set_cons_succ, List.set_cons_zero, auditL0_form, List.getD_cons_succ, List.getD_cons_zero]
      nlinarith [min_le_right spA spD]
  cont := by
    intro x i hx hi
    obtain ⟨a, b, rfl⟩ := List.length_eq_two.mp hx
    interval_cases i <;> simp [auditL0_form] <;> fun_prop
  lip := by
    intro x x' i hx hx' hi he
    obtain ⟨a, b, rfl⟩ := List.length_eq_two.mp hx
    obtain ⟨a', b', rfl⟩ := List.length_eq_two.mp hx'
    interval_cases i
    · simp [auditL0_form] at he ⊢; rw [he]; simp
    · simp [auditL0_form] at he ⊢; rw [he]
      have : spC * a + spD * b' - (spC * a' + spD * b') = spC * (a - a') := by ring
      rw [this, abs_mul]

/-- every hypothesis of `bnaf_inverse_tolerance` (`BnafOK`, `LipTriangular`, `inverterArgsOk`, `hxsD`, `hε`, `hf1`, `hf2`) holds jointly:
bracket `[-10, 10]`, `tol = 1e-3`, preimage `(1, -2)`, `D = 0`, `ε = 1`, some finite `max_iter`. -/
theorem bnaf_inverse_tolerance_audit_instance (act : ℝ → ℝ) :
    ∃ (max_iter : Int) (ε : ℝ) (fuel : ℕ) (out : List ℝ),
      autoregressiveBisection (bnafInvFn act [auditBnafL0] none [] (bnafTransform act [auditBnafL0] none [1, -2] []))
        (-10) 10 (1 / 1000) 2 max_iter fuel = some out ∧ out.length = 2 ∧
      ∀ i, i < 2 → |out.getD i 0 - ([1, -2] : List ℝ).getD i 0| ≤ ε * (1 + |spC| / min spA spD) ^ i := by
  set r : ℝ := (1 + |spC| / min spA spD) ^ 2 with hr
  obtain ⟨k, hk⟩ := pow_unbounded_of_one_lt (20 + r) (one_lt_two (α := ℝ))
  have hk' : 20 + r ≤ (2 : ℝ) ^ (k + 1) := by
    have : (2 : ℝ) ^ k ≤ 2 ^ (k + 1) := pow_le_pow_right₀ (by norm_num) (Nat.le_succ k)
    linarith
  have hargs : inverterArgsOk (-10 : ℝ) 10 (1 / 1000) (k : Int) = true :=
    (Bisection.inverterArgsOk_iff _ _ _ _).mpr ⟨by norm_num, by norm_num, by positivity⟩
  have hε : max (1 / 1000 : ℝ) ((10 - (-10) + 0 + 1 * (1 + |spC| / min spA spD) ^ 2) / 2 ^ ((k : Int).toNat + 1)) ≤ 1 := by
    refine max_le (by norm_num) ?_
    rw [Int.toNat_natCast, div_le_one (by positivity)]
    rw [← hr]; linarith
  obtain ⟨out, h1, h2, h3⟩ := bnaf_inverse_tolerance act auditL0_ok [] [1, -2] rfl (auditL0_lip act) (1 / 1000) (k : Int) hargs
    0 1 le_rfl (by intro i hi; interval_cases i <;> norm_num) hε
    (max (Nat.clog 2 (⌈(0 + 1 * (1 + |spC| / min spA spD) ^ 2) / (10 - (-10))⌉₊ + 1)) (k : Int).toNat)
    (le_max_left _ _) (le_max_right _ _)
  exact ⟨k, 1, _, out, h1, h2, h3⟩

/-- `gen_bnaf_inverse_of_exact`: `hy`, `hlen`, `hinv` are jointly satisfiable on the generated network of `bnafExample` (depth 1,
activation `z ↦ z + z`) — with the degenerate inverter that returns the known preimage; the conclusion is then that the generated
`inverse` returns it.  (Any honest inhabitant needs an inverter that already returns a preimage: the theorem adds only uniqueness.) -/
theorem gen_bnaf_inverse_of_exact_audit_instance :
    GenBnaf.inverse (netOf (fun z => (z + z, 0)) (fun z => z + z) 2 1 bnafExample (fun L _ => L.logJac) none (fun _ _ => [1, -4]))
      (bnafTransform (fun z => z + z) bnafExample none [1, -4] []) none = [1, -4] := by
  have hact : StrictMono (fun z : ℝ => z + z) := fun a b h => by simp only; linarith
  have hy := BnafGenPf.gen_bnaf_transform_eq_model (fun z => (z + z, 0)) (fun z : ℝ => z + z) 2 1 bnafExample (by simp [bnafExample])
    (fun L _ => L.logJac) none (fun _ _ => [1, -4]) [1, -4] none rfl
  exact gen_bnaf_inverse_of_exact _ _ hact NetLawful.bnafExample_ok _ _ none rfl [1, -4] _ rfl hy rfl hy

end Audit
/-! ## `triangular_spline_flow.make_layer` / `get_splines`, REGENERATED (`Gen/Flows.lean`, translator `py2flows.FTr`; g25) -/
section TriSplineGen
open Flows FlowsPf

/-- **`gen_tri_spline_make_layer_eq`** — the closure `triangular_spline_flow.make_layer` regenerated from `flowjax/flows.py` on every
run (`jr.split(key, 3)`, `init(lt_key, (dim, dim))`, `.at[jnp.diag_indices(dim)].set(1)`, `TriangularAffine(jnp.zeros(dim), ·)`,
`eqx.tree_at(lambda t: t.triangular, ·, replace_fn=WeightNormalization)`, the list `[LeakyTanh, get_splines(), Invert(LeakyTanh),
tri_aff]`, the conditional `append` of `AdditiveCondition(Linear(…, use_bias=False, key=cond_key), …)`, `Chain`,
`_add_default_permute(·, dim, perm_key)`; nested `get_splines`: `partial(RationalQuadraticSpline, knots=knots, interval=1)`,
`filter_vmap(fn, axis_size=dim)()`, `Vmap(·, in_axes=eqx.if_array(0))`) IS the hand model `Flows.triSplineCore` at the layer as
constructed (`Flows.triSplineInitNet`), composed with the generated `_add_default_permute`: every `dim`, key, `tanh_max_val`, `knots`,
conditional or not. -/
theorem gen_tri_spline_make_layer_eq (dim : ℕ) (m : ℝ) (knots : ℕ) (cond_dim : Option ℕ) (key : TriSplineKey ℝ) :
    triangular_spline_flow.make_layer dim m knots cond_dim key =
      add_default_permute (triSplineCore (triSplineInitNet dim knots cond_dim key) dim m) dim key.2.1 :=
  FlowsPf.gen_tri_spline_make_layer_eq dim m knots cond_dim key

/-- the generated factory body over the generated closure is the factory body of `tri_spline_flow_lawful` at the constructed keys -/
theorem gen_tri_spline_flow_eq (dim : ℕ) (m : ℝ) (knots : ℕ) (cond_dim : Option ℕ) (key : ℕ → TriSplineKey ℝ) (n : ℕ) (invert : Bool) :
    genTriSplineFlowBij dim m knots cond_dim key n invert =
      triSplineFlowBij dim m (genTriSplineKey dim knots cond_dim key) n invert :=
  FlowsPf.genTriSplineFlowBij_eq dim m knots cond_dim key n invert

/-- the layer the generated closure constructs satisfies the hypothesis `TriSplineOK` of `tri_spline_flow_lawful`: any
`tanh_max_val > 0`, `knots ≥ 1`, ANY `dim × dim` matrix drawn by `init` (the unit diagonal written by `.set(1)` is accepted by the
SoftPlus reparameterisation; weight normalisation keeps the matrix triangular with non-zero diagonal), any condition matrix with
`dim` rows or none -/
theorem gen_tri_spline_layer_ok (dim : ℕ) {m : ℝ} (hm : 0 < m) {knots : ℕ} (hk : 1 ≤ knots) (cond_dim : Option ℕ)
    (key : TriSplineKey ℝ) (hsq : TriPf.Square dim key.1) (hc : cond_dim.isSome → key.2.2.length = dim) :
    TriSplineOK dim m (triSplineInitNet dim knots cond_dim key) :=
  FlowsPf.triSplineInitNet_ok dim hm hk cond_dim key hsq hc

/-- **`gen_tri_spline_flow_lawful`** — `tri_spline_flow_lawful` about the REGENERATED closure: the flow
`Invert(Scan(filter_vmap(make_layer)(split(key, n)))) if invert else Scan(…)` with the generated `make_layer` is a lawful bijection
of `ℝ^dim` at every condition — every `n`, `dim`, `knots ≥ 1`, `tanh_max_val > 0`, conditional or not, every per-layer key
(`GenTriSplineKeysOK`: `dim × dim` weights, `dim`-row condition matrices, permutations). -/
theorem gen_tri_spline_flow_lawful {dim : ℕ} {m : ℝ} {knots : ℕ} {cond_dim : Option ℕ} {key : ℕ → TriSplineKey ℝ} {n : ℕ}
    (h : GenTriSplineKeysOK dim m knots cond_dim key n) (invert : Bool) :
    (genTriSplineFlowBij dim m knots cond_dim key n invert).Lawful (Vec dim) (Vec dim) :=
  FlowsPf.gen_tri_spline_flow_lawful h invert

/-- non-vacuity: a 2-layer conditional generated flow on `ℝ³` (`FlowsPf.genTriKeys`: `knots = 4`, `tanh_max_val = 3`, `cond_dim = 2`) -/
theorem gen_tri_spline_flow_instance (invert : Bool) :
    (genTriSplineFlowBij 3 3 4 (some 2) genTriKeys 2 invert).Lawful (Vec 3) (Vec 3) :=
  gen_tri_spline_flow_lawful genTriKeys_ok invert

end TriSplineGen

end C01
