import Flowjaxv.Proofs.Docs
import Flowjaxv.Proofs.Rqs
import Flowjaxv.Proofs.Planar
import Flowjaxv.Proofs.Triangular
import Flowjaxv.Proofs.TriangularGen
import Flowjaxv.Proofs.PermGen
/-!
# C07 — elementary bijections compute their documented functions

The reference is the documented mathematical function written directly in Mathlib terms; each
theorem says the definition GENERATED from /repo equals it.  (Spline, planar and triangular
statements are added in their own sections as their models land.)
-/
open Gen Set

namespace C07

/-- `Affine(loc, scale)`: `x ↦ scale·x + loc` -/
theorem affine_doc (p : Affine ℝ) (x : ℝ) : p.transform x = p.scale * x + p.loc := by
  unfold Affine.transform; ring

/-- … with the parameters the constructor was given: the softplus reparameterisation of a
positive `scale` unwraps to `scale` again. -/
theorem affine_ctor_doc (loc scale x : ℝ) (h : 0 < scale) :
    (Ctors.affine loc scale).transform x = scale * x + loc := by
  have : (Ctors.affine loc scale).scale = scale := Leaves.softplus_softplus_inv h
  rw [affine_doc, this]; rfl

theorem affine_inverse_doc (p : Affine ℝ) (y : ℝ) : p.inverse y = (y - p.loc) / p.scale := rfl

theorem loc_doc (p : Loc ℝ) (x : ℝ) : p.transform x = x + p.loc := rfl

theorem scale_doc (p : Scale ℝ) (x : ℝ) : p.transform x = p.scale * x := by
  unfold Scale.transform; ring

theorem scale_ctor_doc (s x : ℝ) (h : 0 < s) : (Ctors.scale s).transform x = s * x := by
  have : (Ctors.scale s).scale = s := Leaves.softplus_softplus_inv h
  rw [scale_doc, this]

theorem exp_doc (x : ℝ) : Exp.transform ({} : NoParams ℝ) x = Real.exp x := rfl
theorem exp_inverse_doc (y : ℝ) : Exp.inverse ({} : NoParams ℝ) y = Real.log y := rfl

theorem softplus_doc (x : ℝ) :
    SoftPlus.transform ({} : NoParams ℝ) x = Real.log (1 + Real.exp x) := rfl

theorem tanh_doc (x : ℝ) : Tanh.transform ({} : NoParams ℝ) x = Real.tanh x := rfl
theorem tanh_inverse_doc (y : ℝ) : Tanh.inverse ({} : NoParams ℝ) y = Real.artanh y := rfl

/-- LeakyTanh(max_val): tanh strictly inside `±max_val` … -/
theorem leakytanh_doc_inside (m x : ℝ) (h : |x| < m) :
    (LeakyTanh.init m : LeakyTanh ℝ).transform x = Real.tanh x := by
  rw [Leaves.leaky_transform_def]
  have : ¬ (LeakyTanh.init m : LeakyTanh ℝ).max_val ≤ |x| := not_le.mpr h
  simp [this]

/-- … and its tangent line at `max_val` on and above it: `tanh m + tanh′(m)·(x − m)` with
`tanh′(m) = 1 − tanh² m` (so value and slope match at the switch point) … -/
theorem leakytanh_doc_above (m x : ℝ) (hm : 0 < m) (h : m ≤ x) :
    (LeakyTanh.init m : LeakyTanh ℝ).transform x
      = Real.tanh m + (1 - Real.tanh m ^ 2) * (x - m) := by
  have hx : 0 < x := lt_of_lt_of_le hm h
  have habs : (LeakyTanh.init m : LeakyTanh ℝ).max_val ≤ |x| := by rw [abs_of_pos hx]; exact h
  rw [Leaves.leaky_transform_def]
  simp only [RealInst.jabs_eq, ge_iff_le, habs, decide_true, RealInst.where_true, RealInst.jsign_pos hx]
  rw [Docs.leaky_linear_grad_eq, Docs.leaky_intercept_eq]; ring

/-- … and the mirrored tangent line on and below `−max_val`. -/
theorem leakytanh_doc_below (m x : ℝ) (hm : 0 < m) (h : x ≤ -m) :
    (LeakyTanh.init m : LeakyTanh ℝ).transform x
      = -Real.tanh m + (1 - Real.tanh m ^ 2) * (x + m) := by
  have hx : x < 0 := by linarith
  have habs : (LeakyTanh.init m : LeakyTanh ℝ).max_val ≤ |x| := by
    rw [abs_of_neg hx]; show m ≤ -x; linarith
  rw [Leaves.leaky_transform_def]
  simp only [RealInst.jabs_eq, ge_iff_le, habs, decide_true, RealInst.where_true, RealInst.jsign_neg hx]
  rw [Docs.leaky_linear_grad_eq, Docs.leaky_intercept_eq]; ring

/-- AdditiveCondition: `x ↦ x + f(condition)` for any `f`. -/
theorem additive_doc {C : Type} (p : AdditiveCondition C ℝ) (x : ℝ) (c : C) :
    p.transform x c = x + p.module c := rfl
theorem additive_inverse_doc {C : Type} (p : AdditiveCondition C ℝ) (y : ℝ) (c : C) :
    p.inverse y c = y - p.module c := rfl

/-- Flip reverses the (flattened) array: entry `i` of the output is entry `n−1−i` of the input. -/
theorem flip_doc (xs : List ℝ) (i : Nat) (h : i < xs.length) :
    (Flip.transform xs)[i]'(by simpa [Flip.transform] using h) = xs[xs.length - 1 - i] := by
  simp [Flip.transform]

theorem flip_involutive (xs : List ℝ) : Flip.inverse (Flip.transform xs) = xs := by
  simp [Flip.transform, Flip.inverse]

/-- Permute: on the flattened array `y[i] = x[perm[i]]` … -/
theorem permute_doc (perm : List Nat) (xs : List ℝ) (i : Nat) (hi : i < perm.length)
    (hp : perm[i] < xs.length) :
    (PermModel.fwd perm xs)[i]'(by simpa [PermModel.fwd] using hi) = xs[perm[i]] := by
  simp [PermModel.fwd, List.getD_eq_getElem?_getD, List.getElem?_eq_getElem hp]

/-- … and the stored inverse permutation (argsort) inverts it, for EVERY permutation of every size,
in both directions. -/
theorem permute_inverse (perm : List Nat) (h : perm.Perm (List.range perm.length)) (xs : List ℝ)
    (hx : xs.length = perm.length) :
    PermModel.inv perm (PermModel.fwd perm xs) = xs ∧ PermModel.fwd perm (PermModel.inv perm xs) = xs :=
  ⟨PermModel.inv_fwd perm h xs hx, PermModel.fwd_inv perm h xs hx⟩

/-- The constructor's check (`sort(perm) == arange(size)`) accepts exactly the permutations. -/
theorem permute_ctor_accepts_iff (perm : List Nat) :
    PermModel.valid perm = true ↔ perm.Perm (List.range perm.length) := PermModel.valid_iff perm

/-- Spline: passes through all its knots, both interval ends included … -/
theorem rqs_knots {p : RationalQuadraticSpline ℝ} (h : Rqs.RqsWF p) (j : ℕ) (hj : j < p.x_pos.length) :
    p.transform p.x_pos[j] = p.y_pos[j]'(by rw [h.len_y]; exact hj) := Rqs.rqs_knots h j hj

/-- … is the identity (with derivative 1) outside its interval … -/
theorem rqs_identity_outside {p : RationalQuadraticSpline ℝ} (h : Rqs.RqsWF p) {x : ℝ}
    (hx : x < p.interval.1 ∨ p.interval.2 < x) :
    p.transform x = x ∧ p.inverse x = x ∧ p.derivative x = 1 := Rqs.rqs_identity_outside h hx

/-- … is strictly increasing on all of ℝ (a monotone interpolant) … -/
theorem rqs_strictMono {p : RationalQuadraticSpline ℝ} (h : Rqs.RqsWF p) : StrictMono p.transform :=
  Rqs.rqs_strictMono h

/-- … and maps the interval into itself (the final `clip` is a no-op in exact arithmetic). -/
theorem rqs_mem_interval {p : RationalQuadraticSpline ℝ} (h : Rqs.RqsWF p) {x : ℝ}
    (hx : x ∈ Icc p.interval.1 p.interval.2) : p.transform x ∈ Icc p.interval.1 p.interval.2 :=
  Rqs.rqs_mem_interval h hx

/-- non-vacuity: a concrete 4-cycle is accepted and inverted -/
theorem permute_instance :
    PermModel.valid [2, 0, 3, 1] = true ∧
      PermModel.inv [2, 0, 3, 1] (PermModel.fwd [2, 0, 3, 1] [10, 20, 30, (40 : ℝ)]) = [10, 20, 30, 40] := by
  have hp : List.Perm [2, 0, 3, 1] (List.range ([2, 0, 3, 1] : List Nat).length) := by decide
  exact ⟨(PermModel.valid_iff _).mpr hp, PermModel.inv_fwd _ hp _ rfl⟩


/-! ### Planar and TriangularAffine -/

/-- **Planar** computes the documented `y = x + û·act(wᵀx + b)`: the methods GENERATED from
`_UnconditionalPlanar` (`Gen/Planar.lean`), on a vector `x ∈ ℝⁿ` given by its coordinates, for `act = tanh` … -/
theorem planar_doc {n : ℕ} (p : UnconditionalPlanar ℝ) (hw : p.weight.length = n) (hu : p._act_scale.length = n)
    (hne : Jnp.dot p.weight p.weight ≠ 0) (x : Fin n → ℝ) :
    p.transform_tanh (List.ofFn x) = List.ofFn (fun i =>
      x i + VecLd.toVec n p.get_act_scale i * Real.tanh (VecLd.toVec n p.weight ⬝ᵥ x + p.bias)) :=
  PlanarPf.transform_tanh_ofFn (PlanarPf.vec ⟨hw, hu, hne⟩).1 (PlanarPf.vec ⟨hw, hu, hne⟩).2 x

/-- … and for `act = leaky_relu(·, negative_slope)`: `z ↦ s·z` for `z < 0`, `z ↦ z` otherwise. -/
theorem planar_lrelu_doc {n : ℕ} (p : UnconditionalPlanar ℝ) (hw : p.weight.length = n) (hu : p._act_scale.length = n)
    (hne : Jnp.dot p.weight p.weight ≠ 0) (s : ℝ) (x : Fin n → ℝ) :
    p.transform_lrelu s (List.ofFn x) = List.ofFn (fun i =>
      x i + VecLd.toVec n p.get_act_scale i *
        (if VecLd.toVec n p.weight ⬝ᵥ x + p.bias < 0 then s * (VecLd.toVec n p.weight ⬝ᵥ x + p.bias)
         else VecLd.toVec n p.weight ⬝ᵥ x + p.bias)) :=
  PlanarPf.transform_lrelu_ofFn (PlanarPf.vec ⟨hw, hu, hne⟩).1 (PlanarPf.vec ⟨hw, hu, hne⟩).2 s x

/-- `û = get_act_scale()` is the paper's (appendix A.1) `u + (m(wᵀu) − wᵀu)·w/‖w‖²` with
`m(t) = −1 + log(1 + softplus t)`, coordinate by coordinate. -/
theorem planar_act_scale_doc {n : ℕ} (p : UnconditionalPlanar ℝ) (hw : p.weight.length = n)
    (hu : p._act_scale.length = n) (hne : Jnp.dot p.weight p.weight ≠ 0) (i : Fin n) :
    VecLd.toVec n p.get_act_scale i = VecLd.toVec n p._act_scale i +
      ((-1 + Real.log (1 + Real.log (1 + Real.exp (VecLd.toVec n p._act_scale ⬝ᵥ VecLd.toVec n p.weight))))
          - VecLd.toVec n p._act_scale ⬝ᵥ VecLd.toVec n p.weight)
        * VecLd.toVec n p.weight i / (VecLd.toVec n p.weight ⬝ᵥ VecLd.toVec n p.weight) :=
  PlanarPf.get_act_scale_doc ⟨hw, hu, hne⟩ i

/-- the analytic inverse of the leaky-relu layer, as documented in the source comment:
`x = y − û·σ·z` with `z = (wᵀy + b)/(1 + wᵀû·σ)` and `σ` the slope selected by the sign of `wᵀy + b` -/
theorem planar_inverse_doc {n : ℕ} (p : UnconditionalPlanar ℝ) (hw : p.weight.length = n) (hu : p._act_scale.length = n)
    (hne : Jnp.dot p.weight p.weight ≠ 0) (s : ℝ) (y : Fin n → ℝ) :
    p.inverse_lrelu s (List.ofFn y) = List.ofFn (fun i =>
      y i - (VecLd.toVec n p.get_act_scale i * (if VecLd.toVec n p.weight ⬝ᵥ y + p.bias < 0 then s else 1)) *
        ((VecLd.toVec n p.weight ⬝ᵥ y + p.bias) /
          (1 + VecLd.toVec n p.weight ⬝ᵥ (fun j => VecLd.toVec n p.get_act_scale j *
            (if VecLd.toVec n p.weight ⬝ᵥ y + p.bias < 0 then s else 1))))) := by
  unfold UnconditionalPlanar.inverse_lrelu
  rw [PlanarPf.ild_lrelu_ofFn (PlanarPf.vec ⟨hw, hu, hne⟩).1 (PlanarPf.vec ⟨hw, hu, hne⟩).2]
  rfl

/-- **TriangularAffine** computes `A x + b`: for `triangular` an `n × n` matrix and `loc ∈ ℝⁿ`, in Mathlib's
matrix–vector product … -/
theorem triangular_doc {n : ℕ} {t : Tri.TriAffine ℝ} (h : TriPf.TriWF n t) (x : Fin n → ℝ) :
    t.transform (List.ofFn x) = List.ofFn (Matrix.mulVec (TriPf.toMat n t.triangular) x + VecLd.toVec n t.loc) :=
  TriPf.transform_ofFn h x

/-- … where, as constructed (`TriangularAffine(loc, arr, lower=…)` with raw diagonal parameters `raw`), `A` is the
requested triangle: `softplus rawᵢ` on the diagonal, `arr`'s entries strictly inside the triangle chosen by
`lower`, exactly 0 in the other triangle (C11's `tri_entries`). -/
theorem triangular_ctor_doc {n : ℕ} (lower : Bool) (raw : List ℝ) (arr : List (List ℝ)) (loc : List ℝ)
    (hsq : TriPf.Square n arr) (hr : raw.length = n) (hl : loc.length = n) (x : Fin n → ℝ) :
    (Tri.ofRaw lower raw arr loc).transform (List.ofFn x)
      = List.ofFn (Matrix.mulVec (Matrix.of fun (i j : Fin n) =>
          if j = i then Real.log (1 + Real.exp (raw.getD i 0))
          else if (if lower then j < i else i < j) then TriPf.entry arr i j else 0) x + VecLd.toVec n loc) := by
  rw [triangular_doc (TriPf.ofRaw_wf lower raw arr loc hsq hr hl)]
  show List.ofFn (Matrix.mulVec (TriPf.toMat n (Params.triangularOfRaw lower raw arr)) x + VecLd.toVec n loc) = _
  rw [TriPf.toMat_ofRaw lower raw arr hsq hr]
  rfl

/-- the inverse is the solution of the triangular system: `A · inverse(y) + loc = y` -/
theorem triangular_inverse_doc {n : ℕ} {t : Tri.TriAffine ℝ} (h : TriPf.TriWF n t) (y : List ℝ) (hy : y.length = n) :
    List.zipWith (fun a b => a + b) (Tri.matVec t.triangular (t.inverse y)) t.loc = y :=
  (TriPf.triangular_lawful (C := Unit) h).right y hy ()

/-- non-vacuity: raw diagonal `(0, 0)` (so the diagonal is `softplus 0 = log 2`), `arr = [[9,9],[1,9]]` with
`lower = True` (the 9s on and above the diagonal are ignored), `loc = (5, 7)`: `(1, 1) ↦ (log 2 + 5, 1 + log 2 + 7)` -/
theorem triangular_doc_instance :
    (Tri.ofRaw true [0, 0] [[9, 9], [1, 9]] [(5 : ℝ), 7]).transform (List.ofFn ![1, 1])
      = [Real.log 2 + 5, 1 + Real.log 2 + 7] := by
  simp [Tri.ofRaw, Params.triangularOfRaw, Params.toTriangular, Tri.TriAffine.transform, Tri.matVec,
    ParamsPf.jdot_eq, ParamsPf.softplusRaw_unwrap, List.ofFn_succ, List.zipIdx]
  norm_num

section TriangularGen
/-! ## TriangularAffine REGENERATED (`Gen/TriangularGen.lean`): the documented function on the generated definitions -/

/-- `triangular_doc` on the GENERATED `transform`: `A x + b` in Mathlib's matrix–vector product -/
theorem gen_triangular_doc {n : ℕ} {t : TriangularAffine ℝ} (h : TriPf.TriWF n (TriGenPf.toModel t)) (x : Fin n → ℝ) :
    t.transform (List.ofFn x) = List.ofFn (Matrix.mulVec (TriPf.toMat n t.triangular) x + VecLd.toVec n t.loc) :=
  TriPf.transform_ofFn h x

/-- `triangular_ctor_doc` on the generated `_to_triangular` / `BijectionReparam.unwrap` / `transform`: with raw diagonal parameters
`raw`, `A` is `softplus rawᵢ` on the diagonal, `arr`'s entries strictly inside the triangle chosen by `lower`, exactly 0 in the other
triangle (a `tril(k=0)` or a swapped orientation in the source falsifies `TriGenPf.gen_toTriangular_eq`). -/
theorem gen_triangular_ctor_doc {n : ℕ} (lower : Bool) (raw : List ℝ) (arr : List (List ℝ)) (loc : List ℝ)
    (hsq : TriPf.Square n arr) (hr : raw.length = n) (hl : loc.length = n) (x : Fin n → ℝ) :
    (TriGen.unwrap (TriGen.ofRaw lower raw arr loc)).transform (List.ofFn x)
      = List.ofFn (Matrix.mulVec (Matrix.of fun (i j : Fin n) =>
          if j = i then Real.log (1 + Real.exp (raw.getD i 0))
          else if (if lower then j < i else i < j) then TriPf.entry arr i j else 0) x + VecLd.toVec n loc) := by
  rw [TriGenPf.gen_transform_eq, TriGenPf.gen_ofRaw_eq lower raw arr loc (TriGenPf.square_rows hsq hr)]
  exact triangular_ctor_doc lower raw arr loc hsq hr hl x

/-- the generated constructor reproduces its argument: for a square matrix with positive diagonal the unwrapped `triangular` is the
requested triangle of `arr` INCLUDING its diagonal (`softplus (softplus⁻¹ d) = d`), and `loc` is stored broadcast. -/
theorem gen_triangular_init_doc {n : ℕ} (loc : List ℝ) (m : List (List ℝ)) (lower : Bool) (hsq : TriPf.Square n m)
    (hpos : ∀ i, i < n → 0 < TriPf.entry m i i) {s : TriangularAffineStored ℝ}
    (h : TriangularAffine.init loc (.mat m) lower = .ok s) (i j : ℕ) (hi : i < n) (hj : j < n) :
    TriPf.entry (TriGen.unwrap s).triangular i j
      = if j = i then TriPf.entry m i i else if (if lower then j < i else i < j) then TriPf.entry m i j else 0 := by
  obtain ⟨hs, _, _⟩ := TriGenPf.gen_init_ok loc m lower h
  have hd : (TriPrims.diag m).length = n := by simp [TriPrims.diag, hsq.1]
  have e : (TriGen.unwrap s).triangular = (TriGenPf.toModel (TriGen.unwrap s)).triangular := rfl
  rw [e, hs, TriGenPf.gen_ofRaw_eq lower _ m _ (TriGenPf.square_rows hsq (by simpa using hd))]
  show TriPf.entry (Params.triangularOfRaw lower _ m) i j = _
  rw [Params.triangularOfRaw, TriPf.entry_toTriangular lower _ m hsq (by simpa using hd) hi hj]
  by_cases hji : j = i
  · subst hji
    have hlt : j < (TriPrims.diag m).length := by omega
    have hmj : j < m.length := by rw [hsq.1]; exact hi
    have e2 : (if (if lower = true then j < j else j < j) then TriPf.entry m j j else 0) = 0 := by cases lower <;> simp
    rw [if_pos rfl, if_pos rfl, e2, add_zero, List.getD_eq_getElem?_getD, List.getElem?_eq_getElem (by simpa using hlt)]
    simp only [List.getElem_map, Option.getD_some]
    have hdj : (TriPrims.diag m)[j] = TriPf.entry m j j := by
      simp [TriPrims.diag, TriPf.entry, List.getD_eq_getElem?_getD, List.getElem?_eq_getElem hmj]
    rw [hdj]
    exact ParamsPf.softplusInit_unwrap (hpos j hi)
  · simp [hji]

/-- the generated inverse solves the triangular system: `A · inverse(y) + loc = y` -/
theorem gen_triangular_inverse_doc {n : ℕ} {t : TriangularAffine ℝ} (h : TriPf.TriWF n (TriGenPf.toModel t)) (y : List ℝ)
    (hy : y.length = n) :
    List.zipWith (fun a b => a + b) (TriPrims.matVec t.triangular (t.inverse y)) t.loc = y := by
  rw [TriGenPf.gen_inverse_eq]
  exact (TriPf.triangular_lawful (C := Unit) h).right y hy ()

/-- non-vacuity, on the generated definitions: raw diagonal `(0, 0)`, `arr = [[9,9],[1,9]]`, `lower = True`, `loc = (5, 7)` -/
theorem gen_triangular_doc_instance :
    (TriGen.unwrap (TriGen.ofRaw true [0, 0] [[9, 9], [1, 9]] [(5 : ℝ), 7])).transform (List.ofFn ![1, 1])
      = [Real.log 2 + 5, 1 + Real.log 2 + 7] := by
  rw [TriGenPf.gen_transform_eq, TriGenPf.gen_ofRaw_eq true _ _ _ (by simp)]
  exact triangular_doc_instance

end TriangularGen

section PermGen
/-! ## Permute REGENERATED (`Gen/PermGen.lean`, translator `py2perm.py`): `__init__` in exception-valued form (the
`eqx.error_if(permutation, permutation.ravel().sort() != jnp.arange(permutation.size))` check, `jnp.unravel_index` index tuples,
`inverse_permutation` from `jnp.argsort`) and the four methods, on n-d arrays (shape + row-major data). -/
open PermPrims Gen.PermGen

/-- **generated = hand model** `Model/Perm.lean`: for a permutation array of any rank ≥ 1 / any shape that the generated constructor
accepts and every input of that shape, `x[self.permutation]` / `y[self.inverse_permutation]` are the flat model's `fwd` / `inv`, the
results have the declared shape, and both log-dets are 0. -/
theorem gen_permute_eq_model (p : IArr) (hwf : p.data.length = prod p.shape) (hne : p.shape ≠ []) {s : Permute}
    (h : Permute.init p = .ok s) (x : FArr ℝ) (hx : x.shape = p.shape) :
    (p.data.map Int.toNat).Perm (List.range (p.data.map Int.toNat).length) ∧ s.shape = p.shape ∧
    (s.transform x).data = PermModel.fwd (p.data.map Int.toNat) x.data ∧ (s.transform x).shape = p.shape ∧
    (s.inverse x).data = PermModel.inv (p.data.map Int.toNat) x.data ∧ (s.inverse x).shape = p.shape ∧
    s.transform_and_log_det x = (s.transform x, 0) ∧ s.inverse_and_log_det x = (s.inverse x, 0) :=
  PermGenPf.gen_permute_eq_model p hwf hne h x hx

/-- `permute_doc` on the generated `transform`: on the flattened arrays `y[i] = x[perm[i]]`, every rank ≥ 1 -/
theorem gen_permute_doc (p : IArr) (hwf : p.data.length = prod p.shape) (hne : p.shape ≠ []) {s : Permute}
    (h : Permute.init p = .ok s) (x : FArr ℝ) (hx : x.shape = p.shape) (hxl : x.data.length = p.data.length)
    (i : Nat) (hi : i < p.data.length) :
    (s.transform x).data[i]? = x.data[(p.data.map Int.toNat)[i]'(by simpa using hi)]? := by
  obtain ⟨hP, _, hf, _⟩ := gen_permute_eq_model p hwf hne h x hx
  have hlt : (p.data.map Int.toNat)[i]'(by simpa using hi) < x.data.length := by
    have := hP.mem_iff.mp (List.getElem_mem (l := p.data.map Int.toNat) (by simpa using hi))
    rw [hxl]; simpa using this
  have hlt' : (p.data[i]).toNat < x.data.length := by simpa using hlt
  rw [hf]
  simp [PermModel.fwd, List.getD_eq_getElem?_getD, List.getElem?_eq_getElem hi, List.getElem?_eq_getElem hlt']

/-- `permute_inverse` on the generated methods: `inverse(transform(x)) = x` and `transform(inverse(y)) = y` on the data, for every
accepted permutation array of every rank ≥ 1 and shape. -/
theorem gen_permute_inverse (p : IArr) (hwf : p.data.length = prod p.shape) (hne : p.shape ≠ []) {s : Permute}
    (h : Permute.init p = .ok s) (x : FArr ℝ) (hx : x.shape = p.shape) (hxl : x.data.length = p.data.length) :
    (s.inverse (s.transform x)).data = x.data ∧ (s.transform (s.inverse x)).data = x.data := by
  obtain ⟨hP, _, hf, hfs, hi, his, _⟩ := gen_permute_eq_model p hwf hne h x hx
  obtain ⟨_, _, _, _, hi', _⟩ := gen_permute_eq_model p hwf hne h (s.transform x) hfs
  obtain ⟨_, _, hf', _⟩ := gen_permute_eq_model p hwf hne h (s.inverse x) his
  have hl : x.data.length = (p.data.map Int.toNat).length := by simpa using hxl
  rw [hi', hf, hf', hi]
  exact ⟨PermModel.inv_fwd _ hP _ hl, PermModel.fwd_inv _ hP _ hl⟩

/-- `permute_ctor_accepts_iff` on the generated `__init__`: accepted exactly for the permutations of `0 … size−1` (flattened), any
rank / shape; the only exception it can raise is `eqx.error_if`'s. -/
theorem gen_permute_ctor_accepts_iff (p : IArr) :
    (∃ s, Permute.init p = .ok s) ↔ p.data.Perm ((List.range p.data.length).map Int.ofNat) := by
  rw [PermGenPf.gen_init_accepts_iff, ParamsPf.permuteRejects_iff]

/-- rank 0 (the case `gen_permute_eq_model` excludes): an accepted 0-d permutation array stores empty index tuples and both methods are
the identity (`x[()] = x`) — what the real class does for `Permute(jnp.array(0))`. -/
theorem gen_permute_rank0 (p : IArr) (h0 : p.shape = []) {s : Permute} (h : Permute.init p = .ok s) (x : FArr ℝ) :
    s.shape = [] ∧ s.transform x = x ∧ s.inverse x = x :=
  PermGenPf.gen_permute_rank0 p h0 h x

/-- non-vacuity: a 2 × 2 permutation array is accepted and inverted; a repeated entry is rejected -/
theorem gen_permute_instance :
    (∃ s, Permute.init ⟨[2, 2], [2, 0, 3, 1]⟩ = .ok s ∧
      (s.inverse (s.transform ⟨[2, 2], [10, 20, 30, (40 : ℝ)]⟩)).data = [10, 20, 30, 40]) ∧
    ¬ (∃ s, Permute.init ⟨[2, 2], [2, 0, 2, 1]⟩ = .ok s) := by
  refine ⟨?_, fun h => absurd ((gen_permute_ctor_accepts_iff _).mp h) (by decide)⟩
  obtain ⟨s, hs⟩ := (gen_permute_ctor_accepts_iff ⟨[2, 2], [2, 0, 3, 1]⟩).mpr (by decide)
  exact ⟨s, hs, (gen_permute_inverse _ (by decide) (by decide) hs ⟨[2, 2], [10, 20, 30, 40]⟩ rfl rfl).1⟩

end PermGen

/-! ## Audit (g27): non-vacuity of the hypothesis sets used above -/
section Audit
/-- joint satisfiability of the spline hypotheses: the 3-bin `Rqs.exampleSpline` is `RqsWF`; the four spline theorems
instantiated on it (interior knot 1, a point outside, a point inside). -/
theorem rqs_audit_instance :
    Rqs.exampleSpline.transform (-1) = -1/2 ∧ Rqs.exampleSpline.transform 5 = 5 ∧
    StrictMono Rqs.exampleSpline.transform ∧
    Rqs.exampleSpline.transform 0 ∈ Icc (-2 : ℝ) 2 := by
  have h := Rqs.rqsWF_instance
  refine ⟨?_, ?_, rqs_strictMono h, ?_⟩
  · have := rqs_knots h 1 (by simp [Rqs.exampleSpline])
    simpa [Rqs.exampleSpline] using this
  · exact (rqs_identity_outside h (x := 5) (Or.inr (by simp [Rqs.exampleSpline]; norm_num))).1
  · have := rqs_mem_interval h (x := 0) (by simp [Rqs.exampleSpline])
    simpa [Rqs.exampleSpline] using this

/-- the hypotheses of `Rqs.rqs_identity_at_init` (`RqsWF`, `y_pos = x_pos`, all derivatives 1) are jointly satisfiable
by a 2-bin spline, and the clause "identity at initialisation" then holds at every real `x`. -/
noncomputable def auditInitSpline : RationalQuadraticSpline ℝ where
  interval := (-3, 3)
  x_pos := [-3, 0, 3]
  y_pos := [-3, 0, 3]
  derivatives := [1, 1, 1]

theorem rqs_init_audit_instance : Rqs.RqsWF auditInitSpline ∧ ∀ x : ℝ, auditInitSpline.transform x = x := by
  have h : Rqs.RqsWF auditInitSpline := by
    refine ⟨?_, ?_, ?_, ?_, ?_, ?_, ?_, ?_, ?_, ?_⟩ <;> simp [auditInitSpline]
  exact ⟨h, Rqs.rqs_identity_at_init h rfl (by simp [auditInitSpline])⟩

/-- planar hypotheses (`weight`/`_act_scale` of length `n`, `w·w ≠ 0`) are satisfiable by a non-trivial 2-d layer -/
noncomputable def auditPlanar : UnconditionalPlanar ℝ := { weight := [1, -2], _act_scale := [1/2, 3], bias := 1/4 }

theorem planar_audit_instance (x : Fin 2 → ℝ) :
    auditPlanar.transform_tanh (List.ofFn x) = List.ofFn (fun i =>
      x i + VecLd.toVec 2 auditPlanar.get_act_scale i * Real.tanh (VecLd.toVec 2 auditPlanar.weight ⬝ᵥ x + auditPlanar.bias)) :=
  planar_doc auditPlanar rfl rfl (by simp [auditPlanar, Jnp.dot, Jnp.sum]; norm_num) x

/-- `gen_triangular_init_doc`'s hypothesis `init … = .ok s` is inhabited by a 2×2 matrix with positive diagonal, and the
stored triangle is the requested one (entry (1,0) = 3 kept, entry (0,1) = 2 dropped, diagonal reproduced). -/
theorem gen_triangular_init_audit_instance :
    ∃ s, TriangularAffine.init [0, 0] (.mat [[1, 2], [3, (4 : ℝ)]]) true = .ok s ∧
      TriPf.entry (TriGen.unwrap s).triangular 1 0 = 3 ∧ TriPf.entry (TriGen.unwrap s).triangular 0 1 = 0 ∧
      TriPf.entry (TriGen.unwrap s).triangular 1 1 = 4 := by
  obtain ⟨s, hs⟩ : ∃ s, TriangularAffine.init [0, 0] (.mat [[1, 2], [3, (4 : ℝ)]]) true = .ok s :=
    (TriGenPf.gen_init_accepts_iff _ _ _).mpr (by simp [TriPrims.NdArr.ndim, TriPrims.NdArr.shapeGet, TriPrims.NdArr.shape])
  have hsq : TriPf.Square 2 [[1, 2], [3, (4 : ℝ)]] := by constructor <;> simp
  have hpos : ∀ i, i < 2 → 0 < TriPf.entry [[1, 2], [3, (4 : ℝ)]] i i := by
    intro i hi; interval_cases i <;> simp [TriPf.entry]
  refine ⟨s, hs, ?_, ?_, ?_⟩
  · rw [gen_triangular_init_doc _ _ _ hsq hpos hs 1 0 (by omega) (by omega)]; simp [TriPf.entry]
  · rw [gen_triangular_init_doc _ _ _ hsq hpos hs 0 1 (by omega) (by omega)]; simp
  · rw [gen_triangular_init_doc _ _ _ hsq hpos hs 1 1 (by omega) (by omega)]; simp [TriPf.entry]

/-- LeakyTanh: the three branches at a concrete `max_val = 3` -/
example : (LeakyTanh.init 3 : LeakyTanh ℝ).transform 3 = Real.tanh 3 + (1 - Real.tanh 3 ^ 2) * (3 - 3) :=
  leakytanh_doc_above 3 3 (by norm_num) le_rfl
end Audit

end C07
