import Flowjaxv.Proofs.Families
/-!
# C05 — the provided parametric families compute their textbook log-densities

Every theorem is about `Families.*` (`Model/Families.lean`): the GENERATED standard log-densities
(`Gen/Dist.lean`, through the `jax.scipy.stats` specs of `Prelude/Stats.lean`) under the GENERATED
`AbstractTransformed._log_prob` with the bijection the constructor builds (generated
`Affine`/`Scale`/`Exp`/`Chain`, scale through the generated `SoftPlus` reparameterisation).
The textbook density is written out in each statement.  Over `ℝ` there is no `−∞`/NaN: the
statements are on the support; outside it (and the NaN → −∞ line of the public `log_prob`) the
model is run at `Float` against the real code by `tools/props/c05.py`.
-/
open Gen Families ProbabilityTheory

namespace C05

/-! ### one-element log-densities -/

/-- Normal(μ, σ), σ > 0, every x -/
theorem normal_log_prob (μ σ x : ℝ) (h : 0 < σ) :
    (normal μ σ).logProb x () = -(x - μ) ^ 2 / (2 * σ ^ 2) - Real.log (σ * Real.sqrt (2 * Real.pi)) :=
  FamiliesPf.normal_lp μ σ x h

/-- … which is the logarithm of Mathlib's Gaussian density with mean μ and variance σ² -/
theorem normal_log_prob_mathlib (μ σ x : ℝ) (h : 0 < σ) :
    (normal μ σ).logProb x () = Real.log (gaussianPDFReal μ (NNReal.mk (σ ^ 2) (sq_nonneg σ)) x) :=
  FamiliesPf.normal_eq_log_gaussianPDF μ σ x h

/-- LogNormal(μ, σ), σ > 0, x > 0 -/
theorem lognormal_log_prob (μ σ x : ℝ) (h : 0 < σ) (hx : 0 < x) :
    (logNormal μ σ).logProb x ()
      = -(Real.log x - μ) ^ 2 / (2 * σ ^ 2) - Real.log (x * σ * Real.sqrt (2 * Real.pi)) :=
  FamiliesPf.logNormal_lp μ σ x h hx

/-- Uniform(a, b), a < b, on the closed support a ≤ x ≤ b (both edges included) -/
theorem uniform_log_prob (a b x : ℝ) (h : a < b) (hx1 : a ≤ x) (hx2 : x ≤ b) :
    (uniform a b).logProb x () = -Real.log (b - a) :=
  FamiliesPf.uniform_lp a b x h hx1 hx2

/-- Gumbel(μ, β), β > 0: `−(z + e^{−z}) − log β`, `z = (x − μ)/β` -/
theorem gumbel_log_prob (μ β x : ℝ) (h : 0 < β) :
    (gumbel μ β).logProb x () = -((x - μ) / β + Real.exp (-((x - μ) / β))) - Real.log β :=
  FamiliesPf.gumbel_lp μ β x h

/-- Cauchy(x₀, γ), γ > 0 -/
theorem cauchy_log_prob (x₀ γ x : ℝ) (h : 0 < γ) :
    (cauchy x₀ γ).logProb x () = -Real.log (Real.pi * γ * (1 + ((x - x₀) / γ) ^ 2)) :=
  FamiliesPf.cauchy_lp x₀ γ x h

/-- … which is the logarithm of Mathlib's Cauchy density -/
theorem cauchy_log_prob_mathlib (x₀ γ x : ℝ) (h : 0 < γ) :
    (cauchy x₀ γ).logProb x () = Real.log (cauchyPDFReal x₀ (NNReal.mk γ h.le) x) :=
  FamiliesPf.cauchy_eq_log_cauchyPDF x₀ γ x h

/-- Laplace(μ, b), b > 0 -/
theorem laplace_log_prob (μ b x : ℝ) (h : 0 < b) :
    (laplace μ b).logProb x () = -|x - μ| / b - Real.log (2 * b) :=
  FamiliesPf.laplace_lp μ b x h

/-- Exponential(λ), λ > 0, x ≥ 0 (the edge 0 included) -/
theorem exponential_log_prob (lam x : ℝ) (h : 0 < lam) (hx : 0 ≤ x) :
    (exponential lam).logProb x () = Real.log lam - lam * x :=
  FamiliesPf.exponential_lp lam x h hx

/-- … which is the logarithm of Mathlib's exponential density -/
theorem exponential_log_prob_mathlib (lam x : ℝ) (h : 0 < lam) (hx : 0 ≤ x) :
    (exponential lam).logProb x () = Real.log (exponentialPDFReal lam x) :=
  FamiliesPf.exponential_eq_log_exponentialPDF lam x h hx

/-- Logistic(μ, s), s > 0: `−z − 2 log(1 + e^{−z}) − log s`, `z = (x − μ)/s` -/
theorem logistic_log_prob (μ s x : ℝ) (h : 0 < s) :
    (logistic μ s).logProb x ()
      = -((x - μ) / s) - 2 * Real.log (1 + Real.exp (-((x - μ) / s))) - Real.log s :=
  FamiliesPf.logistic_lp μ s x h

/-- StudentT(ν, μ, σ), ν > 0, σ > 0 (ν through its softplus reparameterisation) -/
theorem studentT_log_prob (ν μ σ x : ℝ) (hν : 0 < ν) (h : 0 < σ) :
    (studentT ν μ σ).logProb x ()
      = Real.log (Real.Gamma ((ν + 1) / 2)) - Real.log (Real.Gamma (ν / 2))
        - Real.log (ν * Real.pi) / 2 - Real.log σ
        - (ν + 1) / 2 * Real.log (1 + ((x - μ) / σ) ^ 2 / ν) :=
  FamiliesPf.studentT_lp ν μ σ x hν h

/-! ### outside the support: the `log 0` branch

`ℝ` has no `−∞` (`Real.log 0 = 0`), so "log-prob = −∞" cannot be an equation over `ℝ`.  What can be
proved is which branch the generated code takes: outside the support it evaluates `Transc.log 0`
(`−∞` in IEEE arithmetic) plus finite terms.  That the Float value is then exactly `−inf` — and that
LogNormal at `x ≤ 0`, where the private value is NaN, is mapped to `−inf` by the public `log_prob` —
is checked against the real code on every run. -/

theorem uniform_outside_branch (a b x : ℝ) (h : a < b) (hx : x < a ∨ b < x) :
    (uniform a b).logProb x () = Transc.log (0 : ℝ) - Real.log (b - a) :=
  FamiliesPf.uniform_outside a b x h hx

theorem exponential_outside_branch (lam x : ℝ) (h : 0 < lam) (hx : x < 0) :
    (exponential lam).logProb x () = -(lam * x) + Transc.log (0 : ℝ) + Real.log lam :=
  FamiliesPf.exponential_outside lam x h hx

/-! ### accessors return the constructor's values -/

theorem accessor_roundtrip_loc (loc scale : ℝ) : accLoc loc scale = loc := rfl

theorem accessor_roundtrip_scale (loc scale : ℝ) (h : 0 < scale) : accScale loc scale = scale :=
  FamiliesPf.affine_scale_eq loc scale h

theorem accessor_roundtrip_df (df : ℝ) (h : 0 < df) : accDf df = df := FamiliesPf.studentDf_eq df h

theorem accessor_roundtrip_rate (rate : ℝ) (h : 0 < rate) : accRate rate = rate := by
  unfold accRate
  rw [FamiliesPf.scale_scale_eq (1 / rate) (by positivity)]
  field_simp

theorem accessor_roundtrip_minval (a b : ℝ) : accMinval a b = a := rfl

theorem accessor_roundtrip_maxval (a b : ℝ) (h : a < b) : accMaxval a b = b := by
  unfold accMaxval
  rw [FamiliesPf.affine_scale_eq a (b - a) (sub_pos.mpr h), FamiliesPf.affine_loc_eq]
  ring

/-! ### independent dimensions add up -/

/-- For every number of dimensions: the log-prob of the lifted distribution (standard base of
shape `(n,)` whose `_log_prob` sums over the elements, under the elementwise bijection) is the sum
of the one-element log-probs. -/
theorem family_sum_dims (comps : List (Comp ℝ)) (xs : List ℝ) :
    (lifted comps).logProb xs ()
      = (List.zipWith (fun p x => (oneDim p).logProb x ()) comps xs).sum :=
  FamiliesPf.lifted_logProb comps xs

/-- e.g. a Normal with per-dimension parameters `(μᵢ, σᵢ)`, all `σᵢ > 0`: the sum of the textbook terms -/
theorem normal_sum_dims (ps : List (ℝ × ℝ)) (h : ∀ p ∈ ps, 0 < p.2) (xs : List ℝ) :
    (lifted (ps.map (fun p => normalComp p.1 p.2))).logProb xs ()
      = (List.zipWith (fun p x => -(x - p.1) ^ 2 / (2 * p.2 ^ 2)
            - Real.log (p.2 * Real.sqrt (2 * Real.pi))) ps xs).sum := by
  rw [family_sum_dims, List.zipWith_map_left]
  congr 1
  induction ps generalizing xs with
  | nil => simp
  | cons p ps ih =>
    cases xs with
    | nil => simp
    | cons x xs =>
      simp only [List.zipWith_cons_cons]
      rw [ih (fun q hq => h q (List.mem_cons_of_mem _ hq)) xs]
      congr 1
      exact normal_log_prob p.1 p.2 x (h p (List.mem_cons_self ..))

/-! ### mixtures -/

/-- the max-shifted `logsumexp` the driver runs is `log Σ exp xᵢ` (any length) -/
theorem logsumexp_spec (xs : List ℝ) : logsumexp xs = Real.log ((xs.map Real.exp).sum) :=
  FamiliesPf.logsumexp_eq xs

/-- `log_softmax v = v − log Σ exp vᵢ` -/
theorem log_softmax_spec (v : List ℝ) :
    logSoftmax v = v.map (fun x => x - Real.log ((v.map Real.exp).sum)) :=
  FamiliesPf.logSoftmax_eq v

/-- For every number of components, all weights positive (not necessarily normalised): the mixture
log-prob is the log of the weight-normalised sum of the component densities `exp lpᵢ`. -/
theorem mixture_density (ws : List ℝ) (h : ∀ w ∈ ws, 0 < w) (lps : List ℝ) :
    mixtureLogProb lps ws
      = Real.log ((List.zipWith (fun w lp => w / ws.sum * Real.exp lp) ws lps).sum) :=
  FamiliesPf.mixture_density h lps

/-- rescaling all weights by any `c > 0` does not change the mixture log-prob -/
theorem mixture_weight_scale_invariant (ws : List ℝ) (h : ∀ w ∈ ws, 0 < w) (lps : List ℝ)
    (c : ℝ) (hc : 0 < c) :
    mixtureLogProb lps (ws.map (fun w => c * w)) = mixtureLogProb lps ws :=
  FamiliesPf.mixture_scale_invariant h lps hc

/-- the normalised weights `exp(log_softmax v)` sum to one (at least one component) -/
theorem mixture_weights_normalised (v : List ℝ) (h : v ≠ []) :
    ((logSoftmax v).map Real.exp).sum = 1 :=
  FamiliesPf.logSoftmax_normalised h

/-- … in particular the stored `log_normalized_weights` of positive weights are `log (wᵢ / Σ w)` -/
theorem mixture_log_normalized_weights (ws : List ℝ) (h : ∀ w ∈ ws, 0 < w) :
    logNormWeights ws = ws.map (fun w => Real.log w - Real.log ws.sum) :=
  FamiliesPf.logNormWeights_eq h

/-! ### samplers (the model's key is the base sample) -/

/-- location–scale families: the sample is `scale · z + loc` of the base sample `z` -/
theorem locscale_sample (lp : ℝ → ℝ) (loc scale z : ℝ) (h : 0 < scale) :
    (locScale lp loc scale).sample z () = scale * z + loc :=
  FamiliesPf.locScale_sample lp loc scale z h

/-- … and the log-prob returned with a sample is `log_prob` at that sample, for any standard base
(Normal, Uniform, Gumbel, Cauchy, Laplace, Logistic, StudentT are all of this form) -/
theorem locscale_sample_and_log_prob_consistent (lp : ℝ → ℝ) (loc scale : ℝ) (h : 0 < scale) :
    (locScale lp loc scale).Consistent :=
  FamiliesPf.locScale_consistent lp loc scale h

theorem lognormal_sample (μ σ z : ℝ) (h : 0 < σ) :
    (logNormal μ σ).sample z () = Real.exp (σ * z + μ) :=
  FamiliesPf.logNormal_sample μ σ z h

theorem lognormal_sample_and_log_prob_consistent (μ σ : ℝ) (h : 0 < σ) : (logNormal μ σ).Consistent :=
  FamiliesPf.logNormal_consistent μ σ h

theorem exponential_sample (lam z : ℝ) (h : 0 < lam) : (exponential lam).sample z () = z / lam :=
  FamiliesPf.exponential_sample lam z h

theorem exponential_sample_and_log_prob_consistent (lam : ℝ) (h : 0 < lam) :
    (exponential lam).Consistent :=
  FamiliesPf.exponential_consistent lam h

/-- samples follow the density (Normal): the law of the model's sampler applied to a standard
Gaussian base sample is Mathlib's Gaussian measure with mean μ and variance σ² -/
theorem normal_sample_law (μ σ : ℝ) (h : 0 < σ) :
    (gaussianReal 0 1).map (fun z => (normal μ σ).sample z ())
      = gaussianReal μ (NNReal.mk (σ ^ 2) (sq_nonneg σ)) :=
  FamiliesPf.normal_sample_law μ σ h

/-! ### non-vacuity instances -/

theorem normal_instance :
    (normal 1 2).logProb 3 () = -(1 / 2) - Real.log (2 * Real.sqrt (2 * Real.pi)) := by
  rw [normal_log_prob 1 2 3 (by norm_num)]; norm_num

theorem uniform_edge_instance : (uniform (-1) 3).logProb 3 () = -Real.log 4 := by
  rw [uniform_log_prob (-1) 3 3 (by norm_num) (by norm_num) le_rfl]; norm_num

theorem exponential_edge_instance : (exponential 2).logProb 0 () = Real.log 2 := by
  rw [exponential_log_prob 2 0 (by norm_num) le_rfl]; norm_num

theorem mixture_instance : mixtureLogProb [0, 0] [1, (3 : ℝ)] = 0 := by
  rw [mixture_density [1, 3] (by simp) [0, 0]]; norm_num

theorem mixture_weight_scale_instance (lps : List ℝ) :
    mixtureLogProb lps [2, 6] = mixtureLogProb lps [1, 3] := by
  have := mixture_weight_scale_invariant [1, 3] (by simp) lps 2 (by norm_num)
  norm_num at this
  exact this

end C05
